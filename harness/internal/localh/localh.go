// Package localh drives the real agent/local.State (anti-entropy bookkeeping, C16) with the abstract
// commands of spec/AntiEntropy.tla and projects the real state back to the abstract one.
//
// The "servers" are a harness delegate: the four RPCs local.State issues are answered from a REAL
// state.Store behind a real fsm.FSM (requests are msgpack-encoded and applied through FSM.Apply exactly
// like raftApply does, so register/deregister semantics - cascades, derived fields, virtual IPs - are the
// store's own). Each write RPC can be failed with a plain error or an ACL error according to an outcome
// map keyed by (method, kind, entry id) - never by position, because Go map iteration makes the order of
// calls vary.
//
// Nothing is decided here: every command becomes one event {cmd,cfg,res,pre?,post,rpcs} judged by TLC.
package localh

import (
	"context"
	"errors"
	"fmt"
	"io"
	"net"
	"os"
	"reflect"
	"runtime"
	"sort"
	"strings"
	"time"
	"unsafe"

	"github.com/hashicorp/go-hclog"
	"github.com/hashicorp/raft"

	"github.com/hashicorp/consul/acl"
	"github.com/hashicorp/consul/acl/resolver"
	"github.com/hashicorp/consul/agent/consul/adapter"
	"github.com/hashicorp/consul/agent/consul/fsm"
	"github.com/hashicorp/consul/agent/consul/state"
	"github.com/hashicorp/consul/agent/local"
	"github.com/hashicorp/consul/agent/netutil"
	"github.com/hashicorp/consul/agent/structs"
	"github.com/hashicorp/consul/agent/token"
	"github.com/hashicorp/consul/types"
)

type M = map[string]any

const (
	NodeName = "n1"
	NodeID   = types.NodeID("11111111-2222-3333-4444-555555555555")
	DC       = "dc1"
	Addr     = "127.0.0.1"
	MetaKey  = "k" // the node-meta key that drift alters
)

var errInjected = errors.New("injected rpc failure")

// RPCRec is one RPC issued by local.State during a sync, as seen by the delegate.
type RPCRec struct {
	Fn    string   `json:"fn"`    // code section that issued it (caller name inside agent/local)
	M     string   `json:"m"`     // reg | dereg | read
	K     string   `json:"k"`     // n (node) | s (service) | c (check) | services | checks
	ID    string   `json:"id"`    // entry id ("" for node / reads)
	Piggy []string `json:"piggy"` // check ids riding on a service registration
	Svc   string   `json:"svc"`   // service definition pulled into a check registration ("" if none)
	Skip  bool     `json:"skip"`  // SkipNodeUpdate of a registration
	Inj   string   `json:"inj"`   // injected outcome: ok | err | denied
	Got   string   `json:"got"`   // class of the result actually returned to local.State
}

// H is one agent (local.State) plus one catalog (fsm + state store).
type H struct {
	L      *local.State
	FSM    *fsm.FSM
	Tokens *token.Store
	CUI    bool // CheckUpdateInterval > 0
	idx    uint64

	// per-sync injection
	out     map[string]string
	readOut string
	log     []RPCRec

	// Perturb is used only by the binding self-test: "ack-err" makes the delegate report success for a
	// registration it did not apply.
	Perturb string
}

func init() {
	// the store asks the *running agent* (HTTP) for its bind address when it allocates a virtual IP;
	// an agent started with a fixed bind address caches it with SetAgentBindAddr. Same here.
	netutil.SetAgentBindAddr(&net.IPAddr{IP: net.ParseIP(Addr)})
}

func New(cui bool) *H {
	logger := hclog.New(&hclog.LoggerOptions{Output: io.Discard, Level: hclog.Off})
	h := &H{CUI: cui, Tokens: new(token.Store)}
	h.FSM = fsm.NewFromDeps(fsm.Deps{
		Logger:         logger,
		NewStateStore:  func() *state.Store { return state.NewStateStore(nil) },
		StorageBackend: fsm.NullStorageBackend,
	})
	// virtual IPs enabled, like on any current cluster: connect-native services get a server-owned
	// "consul-virtual" tagged address
	h.idx++
	if err := h.Store().SystemMetadataSet(h.idx, &structs.SystemMetadataEntry{Key: structs.SystemMetadataVirtualIPsEnabled, Value: "true"}); err != nil {
		panic(err)
	}
	cfg := local.Config{
		AdvertiseAddr:   Addr,
		Datacenter:      DC,
		NodeID:          NodeID,
		NodeName:        NodeName,
		TaggedAddresses: map[string]string{"lan": Addr, "wan": Addr},
	}
	if cui {
		cfg.CheckUpdateInterval = 48 * time.Hour // defer timers never fire by themselves; "fire" does it
	}
	h.L = local.NewState(cfg, logger, h.Tokens)
	h.L.TriggerSyncChanges = func() {}
	h.L.Delegate = h
	_ = h.L.LoadMetadata(map[string]string{"consul-network-segment": ""})
	return h
}

func (h *H) Store() *state.Store { return h.FSM.State() }

// ---------------------------------------------------------------- the delegate ("servers")

func (h *H) ResolveTokenAndDefaultMeta(string, *acl.EnterpriseMeta, *acl.AuthorizerContext) (resolver.Result, error) {
	return resolver.Result{}, nil
}

// callerSection returns the name of the agent/local function that issued the RPC.
func callerSection() string {
	pcs := make([]uintptr, 16)
	n := runtime.Callers(2, pcs)
	frames := runtime.CallersFrames(pcs[:n])
	for {
		f, more := frames.Next()
		if i := strings.Index(f.Function, "agent/local.(*State)."); i >= 0 {
			return f.Function[i+len("agent/local.(*State)."):]
		}
		if !more {
			return ""
		}
	}
}

func (h *H) apply(t structs.MessageType, req any) error {
	buf, err := structs.Encode(t, req)
	if err != nil {
		return err
	}
	h.idx++
	r := h.FSM.Apply(&raft.Log{Index: h.idx, Data: buf, Type: raft.LogCommand})
	if e, ok := r.(error); ok && e != nil {
		return e
	}
	return nil
}

// register does what Catalog.Register does between ACL vetting and raftApply (catalog_endpoint.go):
// the legacy single check is moved into the slice, the check node is defaulted, then the request is
// encoded and applied by the FSM.
func (h *H) register(args *structs.RegisterRequest) error {
	cp := *args
	if cp.Check != nil {
		cp.Checks = append(append(structs.HealthChecks{}, cp.Checks...), cp.Check)
		cp.Check = nil
	}
	for _, c := range cp.Checks {
		if c.Node == "" {
			c.Node = cp.Node
		}
		if c.CheckID == "" && c.Name != "" {
			c.CheckID = types.CheckID(c.Name)
		}
	}
	return h.apply(structs.RegisterRequestType, &cp)
}

func (h *H) inject(m, k, id string) string {
	if o, ok := h.out[m+":"+k+":"+id]; ok {
		return o
	}
	return "ok"
}

func injErr(o string) error {
	switch o {
	case "denied":
		return acl.ErrPermissionDenied
	case "notfound":
		return acl.ErrNotFound
	default:
		return errInjected
	}
}

func (h *H) RPC(_ context.Context, method string, args interface{}, reply interface{}) error {
	fn := callerSection()
	switch method {
	case "Catalog.NodeServiceList":
		req := args.(*structs.NodeSpecificRequest)
		rec := RPCRec{Fn: fn, M: "read", K: "services", Piggy: []string{}, Inj: "ok", Got: "ok"}
		if h.readOut == "err1" {
			rec.Inj, rec.Got = "err", "err"
			h.log = append(h.log, rec)
			return errInjected
		}
		h.log = append(h.log, rec)
		_, ns, err := h.Store().NodeServiceList(nil, req.Node, &req.EnterpriseMeta, "")
		if err != nil {
			return err
		}
		out := reply.(*structs.IndexedNodeServiceList)
		if ns != nil {
			out.NodeServices = *ns
		}
		for _, s := range out.NodeServices.Services {
			adapter.PopulateLegacyNodeServicePort(s)
		}
		return nil
	case "Health.NodeChecks":
		req := args.(*structs.NodeSpecificRequest)
		rec := RPCRec{Fn: fn, M: "read", K: "checks", Piggy: []string{}, Inj: "ok", Got: "ok"}
		if h.readOut == "err2" {
			rec.Inj, rec.Got = "err", "err"
			h.log = append(h.log, rec)
			return errInjected
		}
		h.log = append(h.log, rec)
		_, cs, err := h.Store().NodeChecks(nil, req.Node, &req.EnterpriseMeta, "")
		if err != nil {
			return err
		}
		reply.(*structs.IndexedHealthChecks).HealthChecks = cs
		return nil
	case "Catalog.Register":
		req := args.(*structs.RegisterRequest)
		rec := RPCRec{Fn: fn, M: "reg", Piggy: []string{}, Skip: req.SkipNodeUpdate}
		switch fn {
		case "syncNodeInfo":
			rec.K = "n"
		case "syncService":
			rec.K, rec.ID = "s", req.Service.ID
			if req.Check != nil {
				rec.Piggy = append(rec.Piggy, string(req.Check.CheckID))
			}
			for _, c := range req.Checks {
				rec.Piggy = append(rec.Piggy, string(c.CheckID))
			}
			sort.Strings(rec.Piggy)
		case "syncCheck":
			rec.K, rec.ID = "c", string(req.Check.CheckID)
			if req.Service != nil {
				rec.Svc = req.Service.ID
			}
		default:
			return fmt.Errorf("harness: Catalog.Register from unknown code section %q", fn)
		}
		rec.Inj = h.inject("reg", rec.K, rec.ID)
		rec.Got = rec.Inj
		if rec.Inj != "ok" {
			h.log = append(h.log, rec)
			return injErr(rec.Inj)
		}
		if h.Perturb == "ack-err" && rec.K == "s" {
			h.Perturb = ""
			h.log = append(h.log, rec)
			return nil
		}
		err := h.register(req)
		if err != nil {
			rec.Got = "err"
			if os.Getenv("H_LOCAL_DEBUG") != "" {
				fmt.Fprintf(os.Stderr, "register failed: %v\n", err)
			}
		}
		h.log = append(h.log, rec)
		return err
	case "Catalog.Deregister":
		req := args.(*structs.DeregisterRequest)
		rec := RPCRec{Fn: fn, M: "dereg", Piggy: []string{}}
		switch fn {
		case "deleteService":
			rec.K, rec.ID = "s", req.ServiceID
		case "deleteCheck":
			rec.K, rec.ID = "c", string(req.CheckID)
		default:
			return fmt.Errorf("harness: Catalog.Deregister from unknown code section %q", fn)
		}
		rec.Inj = h.inject("dereg", rec.K, rec.ID)
		rec.Got = rec.Inj
		if rec.Inj != "ok" {
			h.log = append(h.log, rec)
			return injErr(rec.Inj)
		}
		err := h.apply(structs.DeregisterRequestType, req)
		if err != nil {
			rec.Got = "err"
		}
		h.log = append(h.log, rec)
		return err
	}
	return fmt.Errorf("rpc: can't find method %s (harness)", method) // never expected
}

// ---------------------------------------------------------------- projection (field copies only)

func priv[T any](l *local.State, name string) T {
	f := reflect.ValueOf(l).Elem().FieldByName(name)
	if !f.IsValid() {
		panic("harness: local.State has no field " + name)
	}
	return reflect.NewAt(f.Type(), unsafe.Pointer(f.UnsafeAddr())).Elem().Interface().(T)
}

func tagOf(t []string) string { return strings.Join(t, ",") }

func cvaOf(ta map[string]structs.ServiceAddress) int {
	if a, ok := ta[structs.TaggedAddressVirtualIP]; ok {
		return a.Port
	}
	return 0
}

// other "consul-" or plain tagged addresses would make the abstraction lossy: report them
func otherTA(ta map[string]structs.ServiceAddress) int {
	n := 0
	for k := range ta {
		if k != structs.TaggedAddressVirtualIP {
			n++
		}
	}
	return n
}

func projSvcDef(m M, s *structs.NodeService) {
	m["port"] = s.Port
	m["eto"] = s.EnableTagOverride
	m["tag"] = tagOf(s.Tags)
	m["native"] = s.Connect.Native
	m["cva"] = cvaOf(s.TaggedAddresses)
	m["name"] = s.Service
	m["xta"] = otherTA(s.TaggedAddresses)
}

func projChkDef(m M, c *structs.HealthCheck) {
	m["svc"] = c.ServiceID
	m["status"] = c.Status
	m["output"] = c.Output
	m["stags"] = tagOf(c.ServiceTags)
	m["sname"] = c.ServiceName
	m["name"] = c.Name
}

func emptySvcDef(m M) {
	m["port"], m["eto"], m["tag"], m["native"], m["cva"], m["name"], m["xta"] = 0, false, "", false, 0, "", 0
}
func emptyChkDef(m M) {
	m["svc"], m["status"], m["output"], m["stags"], m["sname"], m["name"] = "", "", "", "", "", ""
}

// Project reads the agent's bookkeeping (including entries marked Deleted and nodeInfoInSync, which no
// public accessor shows) and the catalog rows of the node.
func (h *H) Project() M {
	l := h.L
	l.RLock()
	svcs := []M{}
	for id, s := range priv[map[structs.ServiceID]*local.ServiceState](l, "services") {
		m := M{"id": id.ID, "has": s.Service != nil, "tok": s.Token, "ins": s.InSync, "del": s.Deleted}
		if s.Service != nil {
			projSvcDef(m, s.Service)
		} else {
			emptySvcDef(m)
		}
		svcs = append(svcs, m)
	}
	chks := []M{}
	for id, c := range priv[map[structs.CheckID]*local.CheckState](l, "checks") {
		m := M{"id": string(id.ID), "has": c.Check != nil, "tok": c.Token, "ins": c.InSync, "del": c.Deleted, "defer": c.DeferCheck != nil}
		if c.Check != nil {
			projChkDef(m, c.Check)
		} else {
			emptyChkDef(m)
		}
		chks = append(chks, m)
	}
	nis := priv[bool](l, "nodeInfoInSync")
	meta := priv[map[string]string](l, "metadata")
	l.RUnlock()

	st := M{"nis": nis, "svcs": sortByID(svcs), "chks": sortByID(chks)}

	_, node, _ := h.Store().GetNode(NodeName, nil, "")
	rn := M{"has": node != nil, "nid": "", "meta": "", "same": false}
	if node != nil {
		if node.ID == NodeID {
			rn["nid"] = "self"
		} else {
			rn["nid"] = string(node.ID)
		}
		rn["meta"] = node.Meta[MetaKey]
		// the four comparisons of updateSyncState's node clause, field by field, against the agent's config
		rn["same"] = node.ID == NodeID && reflect.DeepEqual(node.TaggedAddresses, map[string]string{"lan": Addr, "wan": Addr}) &&
			node.Locality == nil && reflect.DeepEqual(node.Meta, meta)
	}
	st["rnode"] = rn
	rsvcs := []M{}
	if _, ns, _ := h.Store().NodeServiceList(nil, NodeName, structs.WildcardEnterpriseMetaInDefaultPartition(), ""); ns != nil {
		for _, s := range ns.Services {
			m := M{"id": s.ID}
			projSvcDef(m, s)
			rsvcs = append(rsvcs, m)
		}
	}
	st["rsvcs"] = sortByID(rsvcs)
	rchks := []M{}
	_, cs, _ := h.Store().NodeChecks(nil, NodeName, structs.WildcardEnterpriseMetaInDefaultPartition(), "")
	for _, c := range cs {
		m := M{"id": string(c.CheckID)}
		projChkDef(m, c)
		rchks = append(rchks, m)
	}
	st["rchks"] = sortByID(rchks)
	return st
}

func sortByID(l []M) []M {
	sort.Slice(l, func(i, j int) bool { return l[i]["id"].(string) < l[j]["id"].(string) })
	return l
}

// ---------------------------------------------------------------- commands

func str(m M, k string) string {
	if v, ok := m[k].(string); ok {
		return v
	}
	return ""
}
func num(m M, k string) int {
	if v, ok := m[k].(float64); ok {
		return int(v)
	}
	return 0
}
func boolean(m M, k string) bool {
	v, _ := m[k].(bool)
	return v
}

func SvcName(id string) string { return "svc-" + id }

func tags(t string) []string {
	if t == "" {
		return nil
	}
	return strings.Split(t, ",")
}

func mkSvc(id string, d M) *structs.NodeService {
	return &structs.NodeService{
		ID: id, Service: SvcName(id), Tags: tags(str(d, "tag")), Port: num(d, "port"),
		EnableTagOverride: boolean(d, "eto"), Connect: structs.ServiceConnect{Native: boolean(d, "native")},
		Weights: &structs.Weights{Passing: 1, Warning: 1}, // agent.AddService default
	}
}

func mkChk(c M, svc *structs.NodeService) *structs.HealthCheck {
	hc := &structs.HealthCheck{
		Node: NodeName, CheckID: types.CheckID(str(c, "id")), Name: "check " + str(c, "id"),
		Status: str(c, "status"), Output: str(c, "output"),
	}
	if svc != nil { // what agent.addCheck / addServiceInternal fill in
		hc.ServiceID = svc.ID
		hc.ServiceName = svc.Service
		hc.ServiceTags = svc.Tags
	}
	return hc
}

func guard(res *M, f func() error) {
	defer func() {
		if r := recover(); r != nil {
			*res = M{"t": "panic", "msg": fmt.Sprint(r)}
		}
	}()
	if err := f(); err != nil {
		*res = M{"t": "err", "msg": err.Error()}
		return
	}
	*res = M{"t": "ok"}
}

// nodeFields are the node-level fields the agent itself sends, used by drift registrations so that a
// drift of a service or check never alters the node row.
func (h *H) driftReq() *structs.RegisterRequest {
	return &structs.RegisterRequest{Datacenter: DC, ID: NodeID, Node: NodeName, Address: Addr, SkipNodeUpdate: true}
}

func (h *H) nodeExists() bool {
	_, n, _ := h.Store().GetNode(NodeName, nil, "")
	return n != nil
}

// Exec executes one abstract command against the real code. It returns (res, rpcs).
func (h *H) Exec(c M) (res M, rpcs []RPCRec) {
	h.log = nil
	h.out = nil
	h.readOut = "ok"
	l := h.L
	switch str(c, "t") {
	case "add-svc": // agent.addServiceInternal -> State.AddServiceWithChecks
		svc := mkSvc(str(c, "id"), c["def"].(M))
		var checks []*structs.HealthCheck
		for _, x := range c["chks"].([]any) {
			checks = append(checks, mkChk(x.(M), svc))
		}
		guard(&res, func() error { return l.AddServiceWithChecks(svc, checks, str(c, "tok"), false) })
	case "add-chk": // agent.addCheck -> State.AddCheck ; the agent refuses a check of an unknown/removed service
		var svc *structs.NodeService
		if s := str(c, "svc"); s != "" {
			svc = l.Service(structs.NewServiceID(s, nil))
			if svc == nil {
				return M{"t": "refused"}, []RPCRec{}
			}
		}
		guard(&res, func() error { return l.AddCheck(mkChk(c, svc), str(c, "tok"), false) })
	case "upd-chk": // check runners -> State.UpdateCheck
		guard(&res, func() error {
			l.UpdateCheck(structs.NewCheckID(types.CheckID(str(c, "id")), nil), str(c, "status"), str(c, "output"))
			return nil
		})
	case "rm-svc": // agent.removeServiceLocked: the service goes together with its (not yet removed) checks
		sid := structs.NewServiceID(str(c, "id"), nil)
		var ids []structs.CheckID
		for id, chk := range l.AllChecks() {
			if chk.ServiceID != "" && chk.CompoundServiceID().Matches(sid) {
				ids = append(ids, id)
			}
		}
		guard(&res, func() error { return l.RemoveServiceWithChecks(sid, ids) })
	case "rm-chk":
		guard(&res, func() error { return l.RemoveCheck(structs.NewCheckID(types.CheckID(str(c, "id")), nil)) })
	case "fire": // the DeferCheck timer of UpdateCheck expires
		res = h.fire(str(c, "id"))
	case "drift":
		res = h.drift(c)
	case "sync":
		h.out = map[string]string{}
		if o, ok := c["out"].([]any); ok {
			for _, x := range o {
				e := x.(M)
				h.out[str(e, "m")+":"+str(e, "k")+":"+str(e, "id")] = str(e, "o")
			}
		}
		h.readOut = str(c, "read")
		if boolean(c, "full") {
			guard(&res, l.SyncFull)
		} else {
			guard(&res, l.SyncChanges)
		}
		delete(res, "msg")
	default:
		panic("harness: unknown command " + str(c, "t"))
	}
	if res["t"] != "panic" {
		delete(res, "msg")
	}
	rpcs = h.log
	if rpcs == nil {
		rpcs = []RPCRec{}
	}
	return res, rpcs
}

func (h *H) fire(id string) M {
	cid := structs.NewCheckID(types.CheckID(id), nil)
	get := func() (*local.CheckState, bool) {
		h.L.RLock()
		defer h.L.RUnlock()
		c, ok := priv[map[structs.CheckID]*local.CheckState](h.L, "checks")[cid]
		return c, ok
	}
	c, ok := get()
	if !ok || c.DeferCheck == nil {
		return M{"t": "noop"}
	}
	c.DeferCheck.Reset(0)
	deadline := time.Now().Add(20 * time.Second)
	for {
		c, ok = get()
		if !ok || c.DeferCheck == nil {
			return M{"t": "ok"}
		}
		if time.Now().After(deadline) {
			// the timer was fired 20 s ago and the entry still carries it: not the harness's business to decide -
			// the recorded state (defer still set, still in sync) is judged against AntiEntropy!Fire by TLC
			return M{"t": "ok"}
		}
		time.Sleep(20 * time.Microsecond)
	}
}

// drift changes the catalog behind the agent's back (another writer, an operator, a restore).
func (h *H) drift(c M) M {
	op := str(c, "op")
	var err error
	switch op {
	case "set-svc":
		if !h.nodeExists() {
			return M{"t": "refused"}
		}
		req := h.driftReq()
		req.Service = mkSvc(str(c, "id"), c["def"].(M))
		if str(c, "id") == structs.ConsulServiceID {
			req.Service.Service = structs.ConsulServiceName
		}
		err = h.register(req)
	case "rm-svc":
		err = h.apply(structs.DeregisterRequestType, &structs.DeregisterRequest{Datacenter: DC, Node: NodeName, ServiceID: str(c, "id")})
	case "set-chk":
		if !h.nodeExists() {
			return M{"t": "refused"}
		}
		req := h.driftReq()
		hc := mkChk(c, nil)
		hc.ServiceID = str(c, "svc")
		req.Check = hc
		err = h.register(req)
	case "rm-chk":
		err = h.apply(structs.DeregisterRequestType, &structs.DeregisterRequest{Datacenter: DC, Node: NodeName, CheckID: types.CheckID(str(c, "id"))})
	case "node-meta":
		req := h.driftReq()
		req.SkipNodeUpdate = false
		req.TaggedAddresses = map[string]string{"lan": Addr, "wan": Addr}
		req.NodeMeta = map[string]string{"consul-network-segment": "", MetaKey: "x"}
		err = h.register(req)
	case "node-rm":
		err = h.apply(structs.DeregisterRequestType, &structs.DeregisterRequest{Datacenter: DC, Node: NodeName})
	default:
		panic("harness: unknown drift " + op)
	}
	if err != nil {
		return M{"t": "err"}
	}
	return M{"t": "ok"}
}
