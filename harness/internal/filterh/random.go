package filterh

import "math/rand"

func na() *El { return &El{N: "na", S: "na", G: "na", X: "na", T: "na", V: "na", D: "no", Subs: [][]*El{}} }

func pick(r *rand.Rand, xs ...string) string { return xs[r.Intn(len(xs))] }

// RandEl draws the facts of one element for a readability rule (same alphabet as FilterMC!Els).
func RandEl(r *rand.Rand, rule string) *El {
	e := na()
	switch rule {
	case "node":
		e.N = pick(r, "ok", "no")
	case "session":
		e.N, e.X = pick(r, "ok", "no"), pick(r, "ok", "no")
	case "check", "subchk":
		e.N, e.S = pick(r, "ok", "no"), pick(r, "ok", "no", "empty")
		if rule == "subchk" {
			e.N = "na"
		}
	case "svcnode", "csn":
		e.N, e.S = pick(r, "ok", "no"), pick(r, "ok", "no")
	case "svc", "subsvc":
		e.S = pick(r, "ok", "no")
	case "gwsvc":
		e.S, e.G = pick(r, "ok", "no"), pick(r, "ok", "no")
	case "svcdump":
		e.N, e.S, e.G = pick(r, "ok", "no", "na"), pick(r, "ok", "no"), pick(r, "ok", "no")
	case "intention":
		e.G, e.X = pick(r, "ok", "no", "peer"), pick(r, "ok", "no")
	case "pq":
		e.X, e.T = pick(r, "ok", "no", "unnamed"), pick(r, "set", "empty")
	case "always":
		e.T = pick(r, "set", "empty")
	case "acl":
		e.T = "set"
	case "key":
		e.X = pick(r, "ok", "no")
	case "match":
		e.X = pick(r, "ok", "ok", "no", "empty")
	case "txn":
		e.V = pick(r, "kv", "node", "svc", "chk")
		switch e.V {
		case "kv":
			e.X = pick(r, "ok", "no")
		case "node":
			e.N = pick(r, "ok", "no")
		case "svc":
			e.S = pick(r, "ok", "no")
		default:
			e.N, e.S = pick(r, "ok", "no"), pick(r, "ok", "no", "empty")
		}
	}
	return e
}

// RandCase draws a response of the given kind over a universe larger than TLC's constants:
// up to 5 map entries, up to 12 elements, name sharing between distinct elements, longer leaf lists.
func RandCase(r *rand.Rand, kind string) *Case {
	c := &Case{Kind: kind, Acl: "none"}
	if AclSensitive(kind) {
		c.Acl = pick(r, "none", "read", "write")
	}
	keys := Keys(kind)
	if IsDyn(kind) {
		n := 1 + r.Intn(5)
		for i := 0; i < n; i++ {
			keys = append(keys, []string{"p1", "p2", "p3", "p4", "p5"}[i])
		}
	}
	budget := 2 + r.Intn(11)
	if HasMap(kind) && !IsDyn(kind) || kind == "IndexedExportedServiceList" || kind == "IndexedServiceList" || kind == "IntentionQueryMatch" {
		// name-labelled or map-keyed: names must stay distinct, NameSpan is the universe
		if budget > NameSpan-2 {
			budget = NameSpan - 2
		}
	}
	if IsSingle(kind) {
		budget = r.Intn(2)
		if kind == "PreparedQueryOne" {
			budget = 1
		}
	}
	for _, k := range keys {
		g := &Group{Key: k, Hd: "na", Items: []*El{}}
		if IsHeaded(kind) {
			g.Hd = pick(r, "ok", "ok", "no", "nil")
		}
		c.Groups = append(c.Groups, g)
	}
	shareNames := !HasMap(kind) && !nameLabelled(kind, "") && r.Intn(2) == 0
	for budget > 0 && len(c.Groups) > 0 {
		g := c.Groups[r.Intn(len(c.Groups))]
		if IsHeaded(kind) && g.Hd == "nil" {
			break
		}
		rule := Rule(kind, g.Key)
		canDup := len(g.Items) > 0 && kind != "IndexedServices" && kind != "IndexedNodeServices"
		if canDup && r.Intn(6) == 0 {
			g.Items = append(g.Items, &El{D: "yes", Subs: [][]*El{}})
			budget--
			continue
		}
		e := RandEl(r, rule)
		if PeerCapable(kind, rule) && r.Intn(5) == 0 {
			e.P = "peer" // imported element in the same list as local ones
		}
		if shareNames {
			e.K = 1 + r.Intn(3)
		}
		if kind == "IndexedNodeDump" {
			e.Subs = [][]*El{{}, {}}
			for n := r.Intn(4); n > 0 && budget > 1; n-- {
				lf := RandEl(r, "subsvc")
				lf.K = 1 + r.Intn(3)
				e.Subs[0] = append(e.Subs[0], lf)
				budget--
			}
			for n := r.Intn(4); n > 0 && budget > 1; n-- {
				lf := RandEl(r, "subchk")
				lf.K = 1 + r.Intn(3)
				e.Subs[1] = append(e.Subs[1], lf)
				budget--
			}
		}
		g.Items = append(g.Items, e)
		budget--
	}
	return c
}

// RandBehaviour draws an expiry history (longer than TLC's MaxOps, several resolutions after expiry).
func RandBehaviour(r *rand.Rand) ExBehaviour {
	cfgs := []ExCfg{{"local", "long", "extend-cache"}}
	for _, t := range []string{"long", "zero"} {
		for _, d := range []string{"extend-cache", "async-cache", "deny"} {
			cfgs = append(cfgs, ExCfg{"remote", t, d})
		}
	}
	b := ExBehaviour{Cfg: cfgs[r.Intn(len(cfgs))]}
	n := 4 + r.Intn(6)
	expired, reaped, down := false, false, false
	for i := 0; i < n; i++ {
		switch x := r.Intn(10); {
		case x < 5:
			b.Ops = append(b.Ops, ExOp{Op: "resolve", API: pick(r, "token", "meta")})
		case x < 7 && !expired:
			b.Ops = append(b.Ops, ExOp{Op: "expire"})
			expired = true
		case x < 8 && !reaped:
			b.Ops = append(b.Ops, ExOp{Op: "reap"})
			reaped = true
		case x < 9 && b.Cfg.Mode == "remote" && !down:
			b.Ops = append(b.Ops, ExOp{Op: "rpcdown"})
			down = true
		case down:
			b.Ops = append(b.Ops, ExOp{Op: "rpcup"})
			down = false
		default:
			b.Ops = append(b.Ops, ExOp{Op: "resolve", API: "token"})
		}
	}
	if !expired {
		b.Ops = append(b.Ops, ExOp{Op: "expire"})
	}
	b.Ops = append(b.Ops, ExOp{Op: "resolve", API: "token"}, ExOp{Op: "resolve", API: "meta"})
	return b
}

// PeerCapable: element types that carry a PeerName which the filter must put into the authorizer context.
func PeerCapable(kind, rule string) bool {
	switch rule {
	case "check", "svcnode", "csn":
		return true
	case "node":
		return kind != "IndexedCoordinates"
	}
	return false
}

// HasFlagField: reply types whose QueryMeta.ResultsFilteredByACLs the filter is responsible for.
func HasFlagField(kind string) bool {
	if IsAclKind(kind) {
		return false
	}
	switch kind {
	case "DirEntries", "TxnResults", "CheckServiceNodes", "IntentionQueryMatch", "PreparedQueryOne":
		return false
	}
	return true
}

// MakeReadable rewrites the intended facts of a case so that the token may read everything in it (the content a
// blocking query sees on its wake-up evaluation once the unreadable entries are gone).
func MakeReadable(c *Case) {
	fix := func(e *El) {
		if e.N == "no" {
			e.N = "ok"
		}
		if e.S == "no" {
			e.S = "ok"
		}
		if e.G == "no" {
			e.G = "ok"
		}
		if e.X == "no" || e.X == "unnamed" {
			e.X = "ok"
		}
		e.P = "na"
	}
	for _, g := range c.Groups {
		if g.Hd == "no" {
			g.Hd = "ok"
		}
		for _, e := range g.Items {
			fix(e)
			for _, sub := range e.Subs {
				for _, lf := range sub {
					fix(lf)
				}
			}
		}
	}
}

// RandPrior draws the flag's value on entry and, for half of the "yes" draws, makes the content fully readable
// (re-evaluation that removes nothing on a reply that said "filtered" before).
func RandPrior(r *rand.Rand, c *Case) {
	c.Prior = "no"
	if !HasFlagField(c.Kind) {
		c.Prior = "na"
		return
	}
	if r.Intn(5) < 2 {
		c.Prior = "yes"
		if r.Intn(2) == 0 {
			MakeReadable(c)
		}
	}
}
