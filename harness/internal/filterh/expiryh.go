package filterh

// Expiry half of C09: the REAL consul.ACLResolver over a backend that reads a REAL state.Store.
//
// The backend is deliberately the worst case the ACLResolverBackend interface permits: it returns the
// token row as stored, without looking at ExpirationTime (a store whose reaper has not run yet, or a
// remote server whose clock lags).  Whether an expired token is honoured is therefore decided by the
// resolver alone (resolveTokenToIdentityAndPolicies -> identity.IsExpired(time.Now())), with its
// identity / policy / authorizer caches warm.

import (
	"context"
	"errors"
	"fmt"
	"sync"
	"sync/atomic"
	"time"

	"github.com/hashicorp/go-hclog"

	"github.com/hashicorp/consul/acl"
	"github.com/hashicorp/consul/acl/resolver"
	"github.com/hashicorp/consul/agent/consul"
	"github.com/hashicorp/consul/agent/consul/state"
	"github.com/hashicorp/consul/agent/structs"
)

type ExCfg struct {
	Mode string `json:"mode"` // local | remote
	TTL  string `json:"ttl"`  // long | zero
	Down string `json:"down"` // extend-cache | async-cache | deny
}

type ExOp struct {
	Op  string `json:"op"` // resolve | expire | reap | rpcdown | rpcup
	API string `json:"api"`
}

type ExBehaviour struct {
	Cfg ExCfg  `json:"cfg"`
	Ops []ExOp `json:"ops"`
}

type ExRes struct {
	Err    string `json:"err"`    // none | notfound | other
	Allows string `json:"allows"` // yes | no : did the resolution yield an authorizer that allows anything the token's policy grants
	Ident  string `json:"ident"`  // token | missing | none
}

type ExPre struct {
	Store string `json:"store"`
	Rpc   string `json:"rpc"`
}

type ExEvent struct {
	T     string `json:"t"`
	B     int    `json:"b"`
	I     int    `json:"i"`
	Cfg   ExCfg  `json:"cfg"`
	Cmd   ExOp   `json:"cmd"`
	Phase string `json:"phase"` // before | after | ambiguous | na   (of the token's ExpirationTime, by the process clock)
	Pre   ExPre  `json:"pre"`
	Res   ExRes  `json:"res"`
	Src   string `json:"src"`
}

const (
	exSecret   = "5f1c9a54-0000-4000-8000-00000000e001"
	exAccessor = "5f1c9a54-0000-4000-8000-00000000a001"
	exPolicyID = "5f1c9a54-0000-4000-8000-00000000b001"
	exRules    = `
node_prefix "" { policy = "read" }
service_prefix "" { policy = "write" }
key_prefix "" { policy = "write" }
`
)

type exBackend struct {
	store   *state.Store
	mode    string
	rpcDown atomic.Bool
	tokenReads atomic.Int64
}

func (b *exBackend) ACLDatacenter() string { return "dc1" }

func (b *exBackend) ResolveIdentityFromToken(token string) (bool, structs.ACLIdentity, error) {
	if b.mode != "local" {
		return false, nil, nil
	}
	_, tok, err := b.store.ACLTokenGetBySecret(nil, token, nil)
	if err != nil {
		return true, nil, err
	}
	if tok == nil {
		return true, nil, acl.ErrNotFound
	}
	return true, tok, nil // as stored: expiry is the resolver's business
}

func (b *exBackend) ResolvePolicyFromID(policyID string) (bool, *structs.ACLPolicy, error) {
	_, p, err := b.store.ACLPolicyGetByID(nil, policyID, nil)
	if err != nil {
		return true, nil, err
	}
	if p == nil {
		return true, nil, acl.ErrNotFound
	}
	return true, p, nil
}

func (b *exBackend) ResolveRoleFromID(roleID string) (bool, *structs.ACLRole, error) {
	return true, nil, acl.ErrNotFound
}

func (b *exBackend) IsServerManagementToken(string) bool { return false }

func (b *exBackend) RPC(_ context.Context, method string, args interface{}, reply interface{}) error {
	if b.rpcDown.Load() {
		return errors.New("rpc error: no path to datacenter")
	}
	switch method {
	case "ACL.TokenRead":
		req := args.(*structs.ACLTokenGetRequest)
		resp := reply.(*structs.ACLTokenResponse)
		b.tokenReads.Add(1)
		_, tok, err := b.store.ACLTokenGetBySecret(nil, req.TokenID, nil)
		if err != nil {
			return err
		}
		resp.Token = tok
		resp.SourceDatacenter = "dc1"
		return nil
	}
	return fmt.Errorf("unexpected RPC %s", method)
}

// probes the token's policy grants
func allowsAnything(az acl.Authorizer) bool {
	if az == nil {
		return false
	}
	var ctx acl.AuthorizerContext
	return az.NodeRead("n1", &ctx) == acl.Allow || az.ServiceWrite("web", &ctx) == acl.Allow ||
		az.KeyWrite("k", &ctx) == acl.Allow || az.KeyRead("k", &ctx) == acl.Allow ||
		az.ServiceRead("web", &ctx) == acl.Allow || az.ACLRead(&ctx) == acl.Allow || az.OperatorRead(&ctx) == acl.Allow
}

// RunBehaviour executes one operation history against a fresh store + resolver.
// lead: how far in the future the token expires at creation; margin: how long after the expiration
// time the `expire` operation returns.
func RunBehaviour(b int, beh ExBehaviour, lead, margin time.Duration, src string) ([]ExEvent, error) {
	store := state.NewStateStore(nil)
	pol := &structs.ACLPolicy{ID: exPolicyID, Name: "verif-expiry", Rules: exRules}
	pol.SetHash(true)
	if err := store.ACLPolicySet(1, pol); err != nil {
		return nil, fmt.Errorf("policy set: %w", err)
	}
	back := &exBackend{store: store, mode: beh.Cfg.Mode}
	ttl := 30 * time.Second
	if beh.Cfg.TTL == "zero" {
		ttl = 0
	}
	rcfg := &consul.ACLResolverConfig{
		Config: consul.ACLResolverSettings{
			ACLsEnabled: true, Datacenter: "dc1", NodeName: "verif-node",
			ACLPolicyTTL: ttl, ACLTokenTTL: ttl, ACLRoleTTL: ttl,
			ACLDownPolicy: beh.Cfg.Down, ACLDefaultPolicy: "deny",
		},
		Logger:      hclog.NewNullLogger(),
		CacheConfig: &structs.ACLCachesConfig{Identities: 16, Policies: 16, ParsedPolicies: 16, Authorizers: 16, Roles: 16},
		Backend:     back,
		ACLConfig:   &acl.Config{WildcardName: structs.WildcardSpecifier},
	}
	res, err := consul.NewACLResolver(rcfg)
	if err != nil {
		return nil, err
	}
	exp := time.Now().Add(lead)
	tok := &structs.ACLToken{AccessorID: exAccessor, SecretID: exSecret, Description: "expiring",
		Policies: []structs.ACLTokenPolicyLink{{ID: exPolicyID}}, ExpirationTime: &exp, CreateTime: time.Now()}
	tok.SetHash(true)
	if err := store.ACLTokenSet(2, tok); err != nil {
		return nil, fmt.Errorf("token set: %w", err)
	}
	pre := ExPre{Store: "has", Rpc: "up"}
	idx := uint64(3)
	var evs []ExEvent
	for i, op := range beh.Ops {
		ev := ExEvent{T: "expiry", B: b, I: i, Cfg: beh.Cfg, Cmd: op, Phase: "na", Pre: pre, Res: ExRes{Err: "na", Allows: "na", Ident: "na"}, Src: src}
		switch op.Op {
		case "resolve":
			t0 := time.Now()
			var r resolver.Result
			var rerr error
			if op.API == "meta" {
				var ctx acl.AuthorizerContext
				r, rerr = res.ResolveTokenAndDefaultMeta(exSecret, nil, &ctx)
			} else {
				r, rerr = res.ResolveToken(exSecret)
			}
			t1 := time.Now()
			switch {
			case t1.Before(exp):
				ev.Phase = "before"
			case t0.After(exp):
				ev.Phase = "after"
			default:
				ev.Phase = "ambiguous"
			}
			out := ExRes{Err: "none", Allows: "no", Ident: "none"}
			if rerr != nil {
				out.Err = "other"
				if acl.IsErrNotFound(rerr) {
					out.Err = "notfound"
				}
			} else {
				if allowsAnything(r.Authorizer) {
					out.Allows = "yes"
				}
				if r.ACLIdentity != nil {
					out.Ident = "missing"
					if r.ACLIdentity.ID() == exAccessor {
						out.Ident = "token"
					}
				}
			}
			ev.Res = out
		case "expire":
			if d := time.Until(exp.Add(margin)); d > 0 {
				time.Sleep(d)
			}
		case "reap":
			// what Server.reapExpiredACLTokens applies through raft: ACLTokenBatchDelete
			if err := store.ACLTokenBatchDelete(idx, []string{exAccessor}); err != nil {
				return nil, fmt.Errorf("reap: %w", err)
			}
			idx++
			pre.Store = "gone"
		case "rpcdown":
			back.rpcDown.Store(true)
			pre.Rpc = "down"
		case "rpcup":
			back.rpcDown.Store(false)
			pre.Rpc = "up"
		default:
			return nil, fmt.Errorf("unknown op %q", op.Op)
		}
		evs = append(evs, ev)
		if beh.Cfg.Down == "async-cache" && op.Op == "resolve" {
			time.Sleep(2 * time.Millisecond) // let a background refresh settle; outcomes before expiry are not judged strictly
		}
	}
	res.Close()
	return evs, nil
}

// RunBehaviours runs histories concurrently (they mostly sleep) and returns the events in input order.
func RunBehaviours(behs []ExBehaviour, par int, lead, margin time.Duration, src string) ([]ExEvent, error) {
	out := make([][]ExEvent, len(behs))
	errs := make([]error, len(behs))
	sem := make(chan struct{}, par)
	var wg sync.WaitGroup
	for i := range behs {
		wg.Add(1)
		sem <- struct{}{}
		go func(i int) {
			defer wg.Done()
			defer func() { <-sem }()
			out[i], errs[i] = RunBehaviour(i, behs[i], lead, margin, src)
		}(i)
	}
	wg.Wait()
	var all []ExEvent
	for i := range behs {
		if errs[i] != nil {
			return nil, fmt.Errorf("behaviour %d: %w", i, errs[i])
		}
		all = append(all, out[i]...)
	}
	return all, nil
}
