// Package filterh instantiates every concrete response type handled by the type switch of
// agent/structs/aclfilter (and the two slice filters of agent/consul/filter.go) from an abstract
// arrangement of readable / unreadable elements (spec/Filter.tla), runs the REAL filter with an
// authorizer compiled from real policies, and projects the filtered response back to
// (labels of surviving elements in order, ResultsFilteredByACLs).
//
// It decides nothing: readability facts are read off the real authorizer and recorded next to the
// input; TLC (spec/FilterTrace.tla) judges.
package filterh

import (
	"encoding/json"
	"fmt"
	"reflect"
	"sort"
	"strings"

	"github.com/hashicorp/go-hclog"

	"github.com/hashicorp/consul/acl"
	"github.com/hashicorp/consul/agent/consul"
	"github.com/hashicorp/consul/agent/structs"
	"github.com/hashicorp/consul/agent/structs/aclfilter"
	"github.com/hashicorp/consul/types"
)

// ---------------------------------------------------------------- abstract case (JSON of Filter.tla)

type El struct {
	N    string  `json:"n"`
	S    string  `json:"s"`
	G    string  `json:"g"`
	X    string  `json:"x"`
	T    string  `json:"t"`
	V    string  `json:"v"`
	D    string  `json:"d"`
	P    string  `json:"p"` // "peer": the element is imported from a peer (PeerName set); facts are then the authorizer's answers in the peer context
	Lab  string  `json:"lab"`
	Subs [][]*El `json:"subs"`

	// K selects the concrete name inside the class (0: position); not part of the abstract element
	K int `json:"k,omitempty"`

	nm names
}

type Group struct {
	Key   string `json:"key"`
	Hd    string `json:"hd"`
	Items []*El  `json:"items"`

	hdName string
}

type Case struct {
	Kind   string   `json:"kind"`
	Acl    string   `json:"acl"`
	Prior  string   `json:"prior"` // "yes": the reply object already carries ResultsFilteredByACLs=true on entry
	Groups []*Group `json:"groups"`
}

type OutEl struct {
	Lab  string     `json:"lab"`
	Tok  string     `json:"tok"`
	Subs [][]string `json:"subs"`
}

type OutGroup struct {
	Key   string  `json:"key"`
	Hd    string  `json:"hd"`
	Items []OutEl `json:"items"`
}

type Event struct {
	T        string     `json:"t"`
	Kind     string     `json:"kind"`
	Acl      string     `json:"acl"`
	Az       string     `json:"az"`
	Src      string     `json:"src"`
	In       []*Group   `json:"in"`
	Out      []OutGroup `json:"out"`
	Prior    string     `json:"prior"` // flag on entry, read off the reply object just before Filter runs
	Seq      int        `json:"seq"`   // 2: second evaluation on the same reply object
	Flag     string     `json:"flag"`
	Reps     int        `json:"reps"`
	Outcomes int        `json:"outcomes"`
	Drift    []string   `json:"drift"`
	CaseNo   int        `json:"case"`
}

type names struct {
	node, svc, gw, key, query, src, srcPeer, dst, match string
}

// ---------------------------------------------------------------- tables mirrored from Filter.tla (shape only)

var SwitchKinds = []string{
	"CheckServiceNodes", "IndexedCheckServiceNodes", "PreparedQueryExecuteResponse", "IndexedServiceTopology",
	"DatacenterIndexedCheckServiceNodes", "IndexedCoordinates", "IndexedHealthChecks", "IndexedIntentions",
	"IntentionQueryMatch", "IndexedNodeDump", "IndexedServiceDump", "IndexedNodes", "IndexedNodeServices",
	"IndexedNodeServiceList", "IndexedServiceNodes", "IndexedServices", "IndexedSessions", "IndexedPreparedQueries",
	"PreparedQueryOne", "ACLTokens", "ACLTokenOne", "ACLTokenListStubs", "ACLTokenListStubOne", "ACLPolicies",
	"ACLPolicyOne", "ACLRoles", "ACLRoleOne", "ACLBindingRules", "ACLBindingRuleOne", "ACLAuthMethods",
	"ACLAuthMethodOne", "IndexedServiceList", "IndexedExportedServiceList", "IndexedGatewayServices",
	"IndexedNodesWithGateways",
}
var SliceKinds = []string{"DirEntries", "TxnResults"}

func AllKinds() []string { return append(append([]string{}, SwitchKinds...), SliceKinds...) }

func Keys(kind string) []string {
	switch kind {
	case "IndexedServiceTopology":
		return []string{"up", "down"}
	case "IndexedNodeDump":
		return []string{"dump", "imported"}
	case "IndexedNodesWithGateways":
		return []string{"nodes", "gateways", "imported"}
	case "DatacenterIndexedCheckServiceNodes", "IndexedExportedServiceList":
		return nil
	}
	return []string{"list"}
}

func IsDyn(kind string) bool {
	return kind == "DatacenterIndexedCheckServiceNodes" || kind == "IndexedExportedServiceList"
}
func IsSingle(kind string) bool { return strings.HasSuffix(kind, "One") }
func IsHeaded(kind string) bool {
	return kind == "IndexedNodeServices" || kind == "IndexedNodeServiceList"
}
func HasMap(kind string) bool {
	return IsDyn(kind) || kind == "IndexedServices" || kind == "IndexedNodeServices"
}
func IsAclKind(kind string) bool { return strings.HasPrefix(kind, "ACL") }
func AclSensitive(kind string) bool {
	return IsAclKind(kind) || kind == "IndexedPreparedQueries" || kind == "PreparedQueryOne"
}

func Rule(kind, key string) string {
	switch kind {
	case "CheckServiceNodes", "IndexedCheckServiceNodes", "PreparedQueryExecuteResponse", "IndexedServiceTopology",
		"DatacenterIndexedCheckServiceNodes":
		return "csn"
	case "IndexedNodesWithGateways":
		if key == "gateways" {
			return "gwsvc"
		}
		return "csn"
	case "IndexedCoordinates", "IndexedNodes", "IndexedNodeDump":
		return "node"
	case "IndexedHealthChecks":
		return "check"
	case "IndexedIntentions":
		return "intention"
	case "IntentionQueryMatch":
		return "match"
	case "IndexedServiceDump":
		return "svcdump"
	case "IndexedNodeServices", "IndexedNodeServiceList", "IndexedServices", "IndexedServiceList", "IndexedExportedServiceList":
		return "svc"
	case "IndexedServiceNodes":
		return "svcnode"
	case "IndexedSessions":
		return "session"
	case "IndexedPreparedQueries":
		return "pq"
	case "PreparedQueryOne":
		return "always"
	case "IndexedGatewayServices":
		return "gwsvc"
	case "DirEntries":
		return "key"
	case "TxnResults":
		return "txn"
	}
	if IsAclKind(kind) {
		return "acl"
	}
	panic("unknown kind " + kind)
}

// ---------------------------------------------------------------- authorizers from real policies

const NameSpan = 16 // concrete names per class known to the exact-rule policy

var AzClasses = []string{"deny-prefix", "allow-prefix", "deny-exact"}

func rd(ok bool) string {
	if ok {
		return "r"
	}
	return "d"
}

func policyText(class, aclLevel string) string {
	var b strings.Builder
	rule := func(res, name, pol, extra string) {
		fmt.Fprintf(&b, "%s %q {\n  policy = %q\n  %s\n}\n", res, name, pol, extra)
	}
	svc := func(res string, name string, s, i bool) {
		sp, ip := "deny", "deny"
		if s {
			sp = "read"
		}
		if i {
			ip = "read"
		}
		rule(res, name, sp, fmt.Sprintf("intentions = %q", ip))
	}
	switch class {
	case "deny-prefix":
		rule("node_prefix", "nr-", "read", "")
		rule("session_prefix", "nr-sr-", "read", "")
		rule("session_prefix", "nd-sr-", "read", "")
		rule("key_prefix", "kr/", "read", "")
		rule("query_prefix", "qr-", "read", "")
		for _, s := range []bool{true, false} {
			for _, i := range []bool{true, false} {
				svc("service_prefix", fmt.Sprintf("s%s-i%s-", rd(s), rd(i)), s, i)
			}
		}
	case "allow-prefix":
		rule("node_prefix", "nd-", "deny", "")
		rule("session_prefix", "nr-sd-", "deny", "")
		rule("session_prefix", "nd-sd-", "deny", "")
		rule("key_prefix", "kd/", "deny", "")
		rule("query_prefix", "qd-", "deny", "")
		for _, s := range []bool{true, false} {
			for _, i := range []bool{true, false} {
				svc("service_prefix", fmt.Sprintf("s%s-i%s-", rd(s), rd(i)), s, i)
			}
		}
	case "deny-exact":
		for k := 1; k <= NameSpan; k++ {
			pol := "read"
			if k%2 == 0 {
				pol = "write" // write implies read
			}
			rule("node", fmt.Sprintf("nr-sr-%d", k), pol, "")
			rule("node", fmt.Sprintf("nr-sd-%d", k), pol, "")
			rule("session", fmt.Sprintf("nr-sr-%d", k), pol, "")
			rule("session", fmt.Sprintf("nd-sr-%d", k), pol, "")
			rule("key", fmt.Sprintf("kr/%d", k), pol, "")
			rule("query", fmt.Sprintf("qr-%d", k), pol, "")
			for _, s := range []bool{true, false} {
				for _, i := range []bool{true, false} {
					svc("service", fmt.Sprintf("s%s-i%s-%d", rd(s), rd(i), k), s, i)
				}
			}
		}
	default:
		panic("unknown authorizer class " + class)
	}
	switch aclLevel {
	case "read", "write":
		fmt.Fprintf(&b, "acl = %q\n", aclLevel)
	default:
		fmt.Fprintf(&b, "acl = \"deny\"\n")
	}
	return b.String()
}

var authzCache = map[string]acl.Authorizer{}

// Authorizer compiles the policy text of (class, acl level) with the real acl package.
func Authorizer(class, aclLevel string) (acl.Authorizer, error) {
	key := class + "/" + aclLevel
	if a, ok := authzCache[key]; ok {
		return a, nil
	}
	conf := &acl.Config{WildcardName: structs.WildcardSpecifier}
	pol, err := acl.NewPolicyFromSource(policyText(class, aclLevel), conf, nil)
	if err != nil {
		return nil, fmt.Errorf("policy %s: %w", key, err)
	}
	def := acl.DenyAll()
	if strings.HasPrefix(class, "allow") {
		def = acl.AllowAll()
	}
	a, err := acl.NewPolicyAuthorizerWithDefaults(def, []*acl.Policy{pol}, conf)
	if err != nil {
		return nil, err
	}
	authzCache[key] = a
	return a, nil
}

// ---------------------------------------------------------------- naming: abstract facts -> concrete names

func nodeName(nOK, sOK bool, k int) string { return fmt.Sprintf("n%s-s%s-%d", rd(nOK), rd(sOK), k) }
func svcName(sOK, iOK bool, k int) string  { return fmt.Sprintf("s%s-i%s-%d", rd(sOK), rd(iOK), k) }

func assignNames(rule string, e *El, pos int, parentNode string) {
	k := e.K
	if k == 0 {
		k = (pos-1)%NameSpan + 1
	}
	alt := pos%2 == 0
	var n names
	switch {
	case parentNode != "":
		n.node = parentNode
	case e.N == "ok" || e.N == "no":
		sOK := alt
		if rule == "session" {
			sOK = e.X == "ok"
		}
		n.node = nodeName(e.N == "ok", sOK, k)
	}
	switch e.S {
	case "ok", "no":
		n.svc = svcName(e.S == "ok", alt, k)
	}
	if rule == "intention" {
		switch e.G {
		case "ok", "no":
			n.src = svcName(!alt, e.G == "ok", k)
		case "peer":
			n.src = svcName(true, true, k) // readable if it were consulted
			n.srcPeer = "peer-east"
		}
		n.dst = svcName(alt, e.X == "ok", k)
	} else if e.G == "ok" || e.G == "no" {
		n.gw = svcName(e.G == "ok", !alt, k)
	}
	switch rule {
	case "key":
		n.key = fmt.Sprintf("k%s/%d", rd(e.X == "ok"), k)
	case "txn":
		if e.V == "kv" {
			n.key = fmt.Sprintf("k%s/%d", rd(e.X == "ok"), k)
		}
	case "pq":
		if e.X != "unnamed" {
			n.query = fmt.Sprintf("q%s-%d", rd(e.X == "ok"), k)
		}
	case "always":
		n.query = fmt.Sprintf("qr-%d", k)
	case "match":
		if e.X != "empty" {
			n.match = svcName(alt, e.X == "ok", k)
		}
	}
	e.nm = n
}

func dec(d acl.EnforcementDecision) string {
	if d == acl.Allow {
		return "ok"
	}
	return "no"
}

// realise replaces the intended facts of e by what the real authorizer says about e's names;
// differences are reported as drift (harness / policy text out of step with the abstract facts).
func realise(rule string, e *El, az acl.Authorizer, where string, drift *[]string) {
	var ctx acl.AuthorizerContext
	if e.P == "peer" {
		ctx.Peer = PeerName
	} else {
		e.P = "na"
	}
	want := *e
	n := e.nm
	if e.N == "ok" || e.N == "no" {
		e.N = dec(az.NodeRead(n.node, &ctx))
	}
	if e.S == "ok" || e.S == "no" {
		e.S = dec(az.ServiceRead(n.svc, &ctx))
	}
	switch rule {
	case "intention":
		if e.G != "peer" {
			e.G = dec(az.IntentionRead(n.src, &ctx))
		}
		e.X = dec(az.IntentionRead(n.dst, &ctx))
	case "gwsvc", "svcdump":
		e.G = dec(az.ServiceRead(n.gw, &ctx))
	case "session":
		e.X = dec(az.SessionRead(n.node, &ctx))
	case "key":
		e.X = dec(az.KeyRead(n.key, &ctx))
	case "txn":
		if e.V == "kv" {
			e.X = dec(az.KeyRead(n.key, &ctx))
		}
	case "pq":
		if e.X != "unnamed" {
			e.X = dec(az.PreparedQueryRead(n.query, &ctx))
		}
	case "match":
		if e.X != "empty" {
			e.X = dec(az.IntentionRead(n.match, &ctx))
		}
	}
	if e.P == "peer" {
		return // imported data is readable by service:write-any / read-all, not by name: no intended facts to compare with
	}
	if want.N != e.N || want.S != e.S || want.G != e.G || want.X != e.X {
		*drift = append(*drift, fmt.Sprintf("%s: intended n=%s s=%s g=%s x=%s realised n=%s s=%s g=%s x=%s (%+v)",
			where, want.N, want.S, want.G, want.X, e.N, e.S, e.G, e.X, n))
	}
}

func aclLevelOf(az acl.Authorizer) string {
	var ctx acl.AuthorizerContext
	structs.DefaultEnterpriseMetaInDefaultPartition().FillAuthzContext(&ctx)
	if az.ACLWrite(&ctx) == acl.Allow {
		return "write"
	}
	if az.ACLRead(&ctx) == acl.Allow {
		return "read"
	}
	return "none"
}

// nameLabelled: types whose elements carry nothing but ACL-relevant names; the label is the name
func nameLabelled(kind, key string) bool {
	switch kind {
	case "IndexedServices", "IndexedServiceList", "IndexedExportedServiceList", "IntentionQueryMatch":
		return true
	}
	return false
}

// Prepare assigns names and labels to every element and realises the facts.
func Prepare(c *Case, az acl.Authorizer) (drift []string) {
	pos := 0
	for gi, g := range c.Groups {
		rule := Rule(c.Kind, g.Key)
		if IsHeaded(c.Kind) && g.Hd != "nil" {
			g.hdName = nodeName(g.Hd == "ok", gi%2 == 0, 1)
			var ctx acl.AuthorizerContext
			got := dec(az.NodeRead(g.hdName, &ctx))
			if got != g.Hd {
				drift = append(drift, fmt.Sprintf("head %s intended %s realised %s", g.hdName, g.Hd, got))
			}
			g.Hd = got
		}
		for i, e := range g.Items {
			pos++
			if e.D == "yes" && i > 0 {
				prev := g.Items[i-1]
				cp := *prev
				cp.D = "yes"
				*e = cp // same names, same label, same leaves (the builder re-uses the very same Go value)
				continue
			}
			e.D = "no"
			parent := ""
			if IsHeaded(c.Kind) {
				parent = g.hdName
			}
			assignNames(rule, e, pos, parent)
			realise(rule, e, az, fmt.Sprintf("%s[%d]", g.Key, i), &drift)
			switch {
			case nameLabelled(c.Kind, g.Key) && rule == "match":
				e.Lab = e.nm.match
			case nameLabelled(c.Kind, g.Key):
				e.Lab = e.nm.svc
			default:
				e.Lab = fmt.Sprintf("e%d-%d", gi+1, i+1)
			}
			for k, sub := range e.Subs {
				srule := "subsvc"
				if k == 1 {
					srule = "subchk"
				}
				for j, lf := range sub {
					pos++
					lf.P = e.P
					assignNames(srule, lf, pos, e.nm.node)
					realise(srule, lf, az, fmt.Sprintf("%s[%d].%d[%d]", g.Key, i, k, j), &drift)
					lf.D = "no"
					lf.Lab = fmt.Sprintf("%s.%d.%d", e.Lab, k+1, j+1)
					if lf.Subs == nil {
						lf.Subs = [][]*El{}
					}
				}
			}
			if e.Subs == nil {
				e.Subs = [][]*El{}
			}
		}
	}
	if got := aclLevelOf(az); got != c.Acl {
		drift = append(drift, fmt.Sprintf("acl level intended %s realised %s", c.Acl, got))
		c.Acl = got
	}
	return drift
}

// ---------------------------------------------------------------- builders: abstract element -> real structs

func tokOf(s string) string {
	switch s {
	case "":
		return "empty"
	case aclfilter.RedactedToken:
		return "hidden"
	}
	return "secret"
}

// PeerName is the peer that "imported" elements come from.
const PeerName = "peer-east"

func peerOf(e *El) string {
	if e.P == "peer" {
		return PeerName
	}
	return ""
}

func mkNode(e *El) *structs.Node {
	return &structs.Node{ID: types.NodeID(e.Lab), Node: e.nm.node, Address: "10.0.0.1", Datacenter: "dc1", PeerName: peerOf(e)}
}
func mkNodeService(e *El) *structs.NodeService {
	return &structs.NodeService{ID: e.Lab, Service: e.nm.svc, Port: 80, PeerName: peerOf(e)}
}
func mkCheck(e *El, node string) *structs.HealthCheck {
	return &structs.HealthCheck{Node: node, CheckID: types.CheckID(e.Lab), Name: "chk", ServiceName: e.nm.svc, Status: "passing", PeerName: peerOf(e)}
}
func mkCSN(e *El) structs.CheckServiceNode {
	return structs.CheckServiceNode{
		Node:    mkNode(e),
		Service: mkNodeService(e),
		Checks:  structs.HealthChecks{{Node: e.nm.node, CheckID: "c-" + types.CheckID(e.Lab), ServiceName: e.nm.svc, PeerName: peerOf(e)}},
	}
}
func mkGatewayService(e *El) *structs.GatewayService {
	return &structs.GatewayService{
		Gateway: structs.NewServiceName(e.nm.gw, nil), Service: structs.NewServiceName(e.nm.svc, nil),
		GatewayKind: structs.ServiceKindTerminatingGateway, SNI: e.Lab,
	}
}

func csnList(items []*El) structs.CheckServiceNodes {
	out := make(structs.CheckServiceNodes, 0, len(items))
	for i, e := range items {
		if e.D == "yes" && i > 0 {
			out = append(out, out[len(out)-1])
			continue
		}
		out = append(out, mkCSN(e))
	}
	return out
}
func projCSN(l structs.CheckServiceNodes) []OutEl {
	out := []OutEl{}
	for _, c := range l {
		lab := "<nil>"
		if c.Node != nil {
			lab = string(c.Node.ID)
		}
		out = append(out, OutEl{Lab: lab, Tok: "na", Subs: [][]string{}})
	}
	return out
}

// ptrList builds a []*T where a duplicate re-uses the previous pointer.
func ptrList[T any](items []*El, mk func(*El) *T) []*T {
	out := make([]*T, 0, len(items))
	for i, e := range items {
		if e.D == "yes" && i > 0 {
			out = append(out, out[len(out)-1])
			continue
		}
		out = append(out, mk(e))
	}
	return out
}
func projPtr[T any](l []*T, lab func(*T) string, tok func(*T) string) []OutEl {
	out := []OutEl{}
	for _, x := range l {
		if x == nil {
			out = append(out, OutEl{Lab: "<nil>", Tok: "na", Subs: [][]string{}})
			continue
		}
		t := "na"
		if tok != nil {
			t = tok(x)
		}
		out = append(out, OutEl{Lab: lab(x), Tok: t, Subs: [][]string{}})
	}
	return out
}

func yn(b bool) string {
	if b {
		return "yes"
	}
	return "no"
}

func one(g *Group) *El {
	if len(g.Items) == 0 {
		return nil
	}
	return g.Items[0]
}

type runner struct {
	obj  any // the reply object handed to Filter when it is a *struct with QueryMeta (nil otherwise)
	run  func(f *aclfilter.Filter, az acl.Authorizer)
	proj func() ([]OutGroup, string)
}

// flagFields returns the settable flag fields of a reply object: QueryMeta.ResultsFilteredByACLs and, for
// IndexedServiceTopology, FilteredByACLs.
func flagFields(obj any) []reflect.Value {
	if obj == nil {
		return nil
	}
	v := reflect.ValueOf(obj)
	if v.Kind() != reflect.Ptr || v.Elem().Kind() != reflect.Struct {
		return nil
	}
	var out []reflect.Value
	if qm := v.Elem().FieldByName("QueryMeta"); qm.IsValid() {
		if f := qm.FieldByName("ResultsFilteredByACLs"); f.IsValid() && f.CanSet() {
			out = append(out, f)
		}
	}
	if f := v.Elem().FieldByName("FilteredByACLs"); f.IsValid() && f.CanSet() {
		out = append(out, f)
	}
	return out
}

// setPrior puts the reply object into the state a re-used reply of a blocking query has on entry.
func setPrior(obj any, on bool) {
	for _, f := range flagFields(obj) {
		f.SetBool(on)
	}
}

// priorOf reads the flag on entry off the object itself: "yes" / "no" / "mixed", "na" without a flag.
func priorOf(obj any) string {
	fs := flagFields(obj)
	if len(fs) == 0 {
		return "na"
	}
	for _, f := range fs[1:] {
		if f.Bool() != fs[0].Bool() {
			return "mixed"
		}
	}
	return yn(fs[0].Bool())
}

// repopulate copies the payload of a freshly built reply into an existing reply object, keeping the
// existing object's QueryMeta (and FilteredByACLs): what an endpoint's query function does when
// blockingquery.Query runs it again against the same reply.
func repopulate(dst, src any) error {
	d, s := reflect.ValueOf(dst), reflect.ValueOf(src)
	if dst == nil || src == nil || d.Type() != s.Type() || d.Kind() != reflect.Ptr || d.Elem().Kind() != reflect.Struct {
		return fmt.Errorf("cannot re-use %T for %T", dst, src)
	}
	t := d.Elem().Type()
	for i := 0; i < t.NumField(); i++ {
		if n := t.Field(i).Name; n == "QueryMeta" || n == "FilteredByACLs" {
			continue
		}
		d.Elem().Field(i).Set(s.Elem().Field(i))
	}
	return nil
}

func flat(key string, items []OutEl) []OutGroup {
	return []OutGroup{{Key: key, Hd: "na", Items: items}}
}

// Build returns a fresh Go value of c.Kind for the (prepared) case together with its projection.
func Build(c *Case) (*runner, error) {
	gs := c.Groups
	g0 := func() *Group {
		if len(gs) == 0 {
			return &Group{Key: "list", Hd: "na"}
		}
		return gs[0]
	}
	byKey := func(k string) *Group {
		for _, g := range gs {
			if g.Key == k {
				return g
			}
		}
		return &Group{Key: k, Hd: "na"}
	}
	switch c.Kind {
	case "CheckServiceNodes":
		v := csnList(g0().Items)
		return &runner{obj: nil, run: func(f *aclfilter.Filter, _ acl.Authorizer) { f.Filter(&v) },
			proj: func() ([]OutGroup, string) { return flat("list", projCSN(v)), "na" }}, nil
	case "IndexedCheckServiceNodes":
		v := &structs.IndexedCheckServiceNodes{Nodes: csnList(g0().Items)}
		return &runner{obj: v, run: func(f *aclfilter.Filter, _ acl.Authorizer) { f.Filter(v) },
			proj: func() ([]OutGroup, string) { return flat("list", projCSN(v.Nodes)), yn(v.ResultsFilteredByACLs) }}, nil
	case "PreparedQueryExecuteResponse":
		v := &structs.PreparedQueryExecuteResponse{Service: "web", Nodes: csnList(g0().Items)}
		return &runner{obj: v, run: func(f *aclfilter.Filter, _ acl.Authorizer) { f.Filter(v) },
			proj: func() ([]OutGroup, string) { return flat("list", projCSN(v.Nodes)), yn(v.ResultsFilteredByACLs) }}, nil
	case "IndexedServiceTopology":
		v := &structs.IndexedServiceTopology{ServiceTopology: &structs.ServiceTopology{
			Upstreams: csnList(byKey("up").Items), Downstreams: csnList(byKey("down").Items)}}
		return &runner{obj: v, run: func(f *aclfilter.Filter, _ acl.Authorizer) { f.Filter(v) },
			proj: func() ([]OutGroup, string) {
				flag := "mixed" // FilteredByACLs and QueryMeta.ResultsFilteredByACLs must agree
				if v.FilteredByACLs == v.ResultsFilteredByACLs {
					flag = yn(v.ResultsFilteredByACLs)
				}
				return []OutGroup{{Key: "up", Hd: "na", Items: projCSN(v.ServiceTopology.Upstreams)},
					{Key: "down", Hd: "na", Items: projCSN(v.ServiceTopology.Downstreams)}}, flag
			}}, nil
	case "DatacenterIndexedCheckServiceNodes":
		v := &structs.DatacenterIndexedCheckServiceNodes{DatacenterNodes: map[string]structs.CheckServiceNodes{}}
		for _, g := range gs {
			v.DatacenterNodes[g.Key] = csnList(g.Items)
		}
		return &runner{obj: v, run: func(f *aclfilter.Filter, _ acl.Authorizer) { f.Filter(v) },
			proj: func() ([]OutGroup, string) {
				out := []OutGroup{}
				for _, k := range sortedKeys(v.DatacenterNodes) {
					out = append(out, OutGroup{Key: k, Hd: "na", Items: projCSN(v.DatacenterNodes[k])})
				}
				return out, yn(v.ResultsFilteredByACLs)
			}}, nil
	case "IndexedCoordinates":
		v := &structs.IndexedCoordinates{Coordinates: ptrList(g0().Items, func(e *El) *structs.Coordinate {
			return &structs.Coordinate{Node: e.nm.node, Segment: e.Lab}
		})}
		return &runner{obj: v, run: func(f *aclfilter.Filter, _ acl.Authorizer) { f.Filter(v) },
			proj: func() ([]OutGroup, string) {
				return flat("list", projPtr(v.Coordinates, func(x *structs.Coordinate) string { return x.Segment }, nil)), yn(v.ResultsFilteredByACLs)
			}}, nil
	case "IndexedHealthChecks":
		v := &structs.IndexedHealthChecks{HealthChecks: ptrList(g0().Items, func(e *El) *structs.HealthCheck { return mkCheck(e, e.nm.node) })}
		return &runner{obj: v, run: func(f *aclfilter.Filter, _ acl.Authorizer) { f.Filter(v) },
			proj: func() ([]OutGroup, string) {
				return flat("list", projPtr(v.HealthChecks, func(x *structs.HealthCheck) string { return string(x.CheckID) }, nil)), yn(v.ResultsFilteredByACLs)
			}}, nil
	case "IndexedIntentions":
		v := &structs.IndexedIntentions{Intentions: ptrList(g0().Items, func(e *El) *structs.Intention {
			return &structs.Intention{ID: e.Lab, SourceNS: "default", SourceName: e.nm.src, SourcePeer: e.nm.srcPeer,
				DestinationNS: "default", DestinationName: e.nm.dst, Action: structs.IntentionActionAllow}
		})}
		return &runner{obj: v, run: func(f *aclfilter.Filter, _ acl.Authorizer) { f.Filter(v) },
			proj: func() ([]OutGroup, string) {
				return flat("list", projPtr(v.Intentions, func(x *structs.Intention) string { return x.ID }, nil)), yn(v.ResultsFilteredByACLs)
			}}, nil
	case "IntentionQueryMatch":
		v := &structs.IntentionQueryMatch{Type: structs.IntentionMatchDestination}
		for _, e := range g0().Items {
			v.Entries = append(v.Entries, structs.IntentionMatchEntry{Namespace: "default", Name: e.nm.match})
		}
		return &runner{obj: v, run: func(f *aclfilter.Filter, _ acl.Authorizer) { f.Filter(v) },
			proj: func() ([]OutGroup, string) {
				out := []OutEl{}
				for _, en := range v.Entries {
					out = append(out, OutEl{Lab: en.Name, Tok: "na", Subs: [][]string{}})
				}
				return flat("list", out), "na"
			}}, nil
	case "IndexedNodeDump":
		mk := func(e *El) *structs.NodeInfo {
			ni := &structs.NodeInfo{ID: types.NodeID(e.Lab), Node: e.nm.node, Address: "10.0.0.2", PeerName: peerOf(e)}
			if len(e.Subs) == 2 {
				for _, lf := range e.Subs[0] {
					ni.Services = append(ni.Services, mkNodeService(lf))
				}
				for _, lf := range e.Subs[1] {
					ni.Checks = append(ni.Checks, mkCheck(lf, e.nm.node))
				}
			}
			return ni
		}
		proj := func(l structs.NodeDump) []OutEl {
			out := []OutEl{}
			for _, ni := range l {
				svcs, chks := []string{}, []string{}
				for _, s := range ni.Services {
					svcs = append(svcs, s.ID)
				}
				for _, ch := range ni.Checks {
					chks = append(chks, string(ch.CheckID))
				}
				out = append(out, OutEl{Lab: string(ni.ID), Tok: "na", Subs: [][]string{svcs, chks}})
			}
			return out
		}
		v := &structs.IndexedNodeDump{Dump: ptrList(byKey("dump").Items, mk), ImportedDump: ptrList(byKey("imported").Items, mk)}
		return &runner{obj: v, run: func(f *aclfilter.Filter, _ acl.Authorizer) { f.Filter(v) },
			proj: func() ([]OutGroup, string) {
				return []OutGroup{{Key: "dump", Hd: "na", Items: proj(v.Dump)}, {Key: "imported", Hd: "na", Items: proj(v.ImportedDump)}},
					yn(v.ResultsFilteredByACLs)
			}}, nil
	case "IndexedServiceDump":
		v := &structs.IndexedServiceDump{Dump: ptrList(g0().Items, func(e *El) *structs.ServiceInfo {
			si := &structs.ServiceInfo{GatewayService: mkGatewayService(e)}
			if e.N != "na" {
				si.Node = mkNode(e)
				si.Service = mkNodeService(e)
			}
			return si
		})}
		return &runner{obj: v, run: func(f *aclfilter.Filter, _ acl.Authorizer) { f.Filter(v) },
			proj: func() ([]OutGroup, string) {
				return flat("list", projPtr(v.Dump, func(x *structs.ServiceInfo) string { return x.GatewayService.SNI }, nil)), yn(v.ResultsFilteredByACLs)
			}}, nil
	case "IndexedNodes":
		v := &structs.IndexedNodes{Nodes: ptrList(g0().Items, mkNode)}
		return &runner{obj: v, run: func(f *aclfilter.Filter, _ acl.Authorizer) { f.Filter(v) },
			proj: func() ([]OutGroup, string) {
				return flat("list", projPtr(v.Nodes, func(x *structs.Node) string { return string(x.ID) }, nil)), yn(v.ResultsFilteredByACLs)
			}}, nil
	case "IndexedNodeServices":
		g := g0()
		v := &structs.IndexedNodeServices{}
		if g.Hd != "nil" {
			v.NodeServices = &structs.NodeServices{Node: &structs.Node{Node: g.hdName, ID: "head"}, Services: map[string]*structs.NodeService{}}
			for _, e := range g.Items {
				v.NodeServices.Services[e.Lab] = mkNodeService(e) // keyed by service ID, as state.Store.NodeServices does
			}
		}
		return &runner{obj: v, run: func(f *aclfilter.Filter, _ acl.Authorizer) { f.Filter(v) },
			proj: func() ([]OutGroup, string) {
				og := OutGroup{Key: "list", Hd: "nil", Items: []OutEl{}}
				if v.NodeServices != nil {
					og.Hd = "kept"
					for _, k := range sortedKeys(v.NodeServices.Services) {
						og.Items = append(og.Items, OutEl{Lab: v.NodeServices.Services[k].ID, Tok: "na", Subs: [][]string{}})
					}
				}
				return []OutGroup{og}, yn(v.ResultsFilteredByACLs)
			}}, nil
	case "IndexedNodeServiceList":
		g := g0()
		v := &structs.IndexedNodeServiceList{}
		if g.Hd != "nil" {
			v.NodeServices = structs.NodeServiceList{Node: &structs.Node{Node: g.hdName, ID: "head"}, Services: ptrList(g.Items, mkNodeService)}
		}
		return &runner{obj: v, run: func(f *aclfilter.Filter, _ acl.Authorizer) { f.Filter(v) },
			proj: func() ([]OutGroup, string) {
				og := OutGroup{Key: "list", Hd: "nil"}
				if v.NodeServices.Node != nil {
					og.Hd = "kept"
				}
				og.Items = projPtr(v.NodeServices.Services, func(x *structs.NodeService) string { return x.ID }, nil)
				return []OutGroup{og}, yn(v.ResultsFilteredByACLs)
			}}, nil
	case "IndexedServiceNodes":
		v := &structs.IndexedServiceNodes{ServiceNodes: ptrList(g0().Items, func(e *El) *structs.ServiceNode {
			return &structs.ServiceNode{Node: e.nm.node, ServiceID: e.Lab, ServiceName: e.nm.svc, Address: "10.0.0.3", PeerName: peerOf(e)}
		})}
		return &runner{obj: v, run: func(f *aclfilter.Filter, _ acl.Authorizer) { f.Filter(v) },
			proj: func() ([]OutGroup, string) {
				return flat("list", projPtr(v.ServiceNodes, func(x *structs.ServiceNode) string { return x.ServiceID }, nil)), yn(v.ResultsFilteredByACLs)
			}}, nil
	case "IndexedServices":
		v := &structs.IndexedServices{Services: structs.Services{}}
		for _, e := range g0().Items {
			v.Services[e.nm.svc] = []string{"tag"}
		}
		return &runner{obj: v, run: func(f *aclfilter.Filter, _ acl.Authorizer) { f.Filter(v) },
			proj: func() ([]OutGroup, string) {
				out := []OutEl{}
				for _, k := range sortedKeys(v.Services) {
					out = append(out, OutEl{Lab: k, Tok: "na", Subs: [][]string{}})
				}
				return flat("list", out), yn(v.ResultsFilteredByACLs)
			}}, nil
	case "IndexedSessions":
		v := &structs.IndexedSessions{Sessions: ptrList(g0().Items, func(e *El) *structs.Session {
			return &structs.Session{ID: e.Lab, Node: e.nm.node}
		})}
		return &runner{obj: v, run: func(f *aclfilter.Filter, _ acl.Authorizer) { f.Filter(v) },
			proj: func() ([]OutGroup, string) {
				return flat("list", projPtr(v.Sessions, func(x *structs.Session) string { return x.ID }, nil)), yn(v.ResultsFilteredByACLs)
			}}, nil
	case "IndexedPreparedQueries", "PreparedQueryOne":
		mk := func(e *El) *structs.PreparedQuery {
			pq := &structs.PreparedQuery{ID: e.Lab, Name: e.nm.query, Service: structs.ServiceQuery{Service: "web"}}
			if e.T == "set" {
				pq.Token = "captured-secret-" + e.Lab
			}
			return pq
		}
		lab := func(x *structs.PreparedQuery) string { return x.ID }
		tok := func(x *structs.PreparedQuery) string { return tokOf(x.Token) }
		if c.Kind == "PreparedQueryOne" {
			e := one(g0())
			if e == nil {
				return nil, fmt.Errorf("PreparedQueryOne needs one element (redactPreparedQueryTokens dereferences it)")
			}
			v := mk(e)
			orig := v
			return &runner{obj: nil, run: func(f *aclfilter.Filter, _ acl.Authorizer) { f.Filter(&v) },
				proj: func() ([]OutGroup, string) {
					if orig.Token != "" && orig.Token != "captured-secret-"+e.Lab {
						return flat("list", []OutEl{{Lab: "<caller's copy modified>", Tok: "na", Subs: [][]string{}}}), "na"
					}
					return flat("list", projPtr([]*structs.PreparedQuery{v}, lab, tok)), "na"
				}}, nil
		}
		v := &structs.IndexedPreparedQueries{Queries: ptrList(g0().Items, mk)}
		return &runner{obj: v, run: func(f *aclfilter.Filter, _ acl.Authorizer) { f.Filter(v) },
			proj: func() ([]OutGroup, string) { return flat("list", projPtr(v.Queries, lab, tok)), yn(v.ResultsFilteredByACLs) }}, nil
	case "ACLTokens", "ACLTokenOne":
		mk := func(e *El) *structs.ACLToken {
			return &structs.ACLToken{AccessorID: e.Lab, SecretID: "secret-" + e.Lab, Description: "t"}
		}
		lab := func(x *structs.ACLToken) string { return x.AccessorID }
		tok := func(x *structs.ACLToken) string { return tokOf(x.SecretID) }
		if c.Kind == "ACLTokenOne" {
			var v *structs.ACLToken
			if e := one(g0()); e != nil {
				v = mk(e)
			}
			return &runner{obj: nil, run: func(f *aclfilter.Filter, _ acl.Authorizer) { f.Filter(&v) },
				proj: func() ([]OutGroup, string) { return flat("list", projOne(v, lab, tok)), "na" }}, nil
		}
		v := structs.ACLTokens(ptrList(g0().Items, mk))
		return &runner{obj: nil, run: func(f *aclfilter.Filter, _ acl.Authorizer) { f.Filter(&v) },
			proj: func() ([]OutGroup, string) { return flat("list", projPtr(v, lab, tok)), "na" }}, nil
	case "ACLTokenListStubs", "ACLTokenListStubOne":
		mk := func(e *El) *structs.ACLTokenListStub {
			return &structs.ACLTokenListStub{AccessorID: e.Lab, SecretID: "secret-" + e.Lab}
		}
		lab := func(x *structs.ACLTokenListStub) string { return x.AccessorID }
		tok := func(x *structs.ACLTokenListStub) string { return tokOf(x.SecretID) }
		if c.Kind == "ACLTokenListStubOne" {
			var v *structs.ACLTokenListStub
			if e := one(g0()); e != nil {
				v = mk(e)
			}
			return &runner{obj: nil, run: func(f *aclfilter.Filter, _ acl.Authorizer) { f.Filter(&v) },
				proj: func() ([]OutGroup, string) { return flat("list", projOne(v, lab, tok)), "na" }}, nil
		}
		v := ptrList(g0().Items, mk)
		return &runner{obj: nil, run: func(f *aclfilter.Filter, _ acl.Authorizer) { f.Filter(&v) },
			proj: func() ([]OutGroup, string) { return flat("list", projPtr(v, lab, tok)), "na" }}, nil
	case "ACLPolicies", "ACLPolicyOne":
		mk := func(e *El) *structs.ACLPolicy { return &structs.ACLPolicy{ID: e.Lab, Name: "p-" + e.Lab} }
		lab := func(x *structs.ACLPolicy) string { return x.ID }
		if c.Kind == "ACLPolicyOne" {
			var v *structs.ACLPolicy
			if e := one(g0()); e != nil {
				v = mk(e)
			}
			return &runner{obj: nil, run: func(f *aclfilter.Filter, _ acl.Authorizer) { f.Filter(&v) },
				proj: func() ([]OutGroup, string) { return flat("list", projOne(v, lab, nil)), "na" }}, nil
		}
		v := structs.ACLPolicies(ptrList(g0().Items, mk))
		return &runner{obj: nil, run: func(f *aclfilter.Filter, _ acl.Authorizer) { f.Filter(&v) },
			proj: func() ([]OutGroup, string) { return flat("list", projPtr(v, lab, nil)), "na" }}, nil
	case "ACLRoles", "ACLRoleOne":
		mk := func(e *El) *structs.ACLRole { return &structs.ACLRole{ID: e.Lab, Name: "r-" + e.Lab} }
		lab := func(x *structs.ACLRole) string { return x.ID }
		if c.Kind == "ACLRoleOne" {
			var v *structs.ACLRole
			if e := one(g0()); e != nil {
				v = mk(e)
			}
			return &runner{obj: nil, run: func(f *aclfilter.Filter, _ acl.Authorizer) { f.Filter(&v) },
				proj: func() ([]OutGroup, string) { return flat("list", projOne(v, lab, nil)), "na" }}, nil
		}
		v := structs.ACLRoles(ptrList(g0().Items, mk))
		return &runner{obj: nil, run: func(f *aclfilter.Filter, _ acl.Authorizer) { f.Filter(&v) },
			proj: func() ([]OutGroup, string) { return flat("list", projPtr(v, lab, nil)), "na" }}, nil
	case "ACLBindingRules", "ACLBindingRuleOne":
		mk := func(e *El) *structs.ACLBindingRule { return &structs.ACLBindingRule{ID: e.Lab, AuthMethod: "m"} }
		lab := func(x *structs.ACLBindingRule) string { return x.ID }
		if c.Kind == "ACLBindingRuleOne" {
			var v *structs.ACLBindingRule
			if e := one(g0()); e != nil {
				v = mk(e)
			}
			return &runner{obj: nil, run: func(f *aclfilter.Filter, _ acl.Authorizer) { f.Filter(&v) },
				proj: func() ([]OutGroup, string) { return flat("list", projOne(v, lab, nil)), "na" }}, nil
		}
		v := structs.ACLBindingRules(ptrList(g0().Items, mk))
		return &runner{obj: nil, run: func(f *aclfilter.Filter, _ acl.Authorizer) { f.Filter(&v) },
			proj: func() ([]OutGroup, string) { return flat("list", projPtr(v, lab, nil)), "na" }}, nil
	case "ACLAuthMethods", "ACLAuthMethodOne":
		mk := func(e *El) *structs.ACLAuthMethod { return &structs.ACLAuthMethod{Name: e.Lab, Type: "jwt"} }
		lab := func(x *structs.ACLAuthMethod) string { return x.Name }
		if c.Kind == "ACLAuthMethodOne" {
			var v *structs.ACLAuthMethod
			if e := one(g0()); e != nil {
				v = mk(e)
			}
			return &runner{obj: nil, run: func(f *aclfilter.Filter, _ acl.Authorizer) { f.Filter(&v) },
				proj: func() ([]OutGroup, string) { return flat("list", projOne(v, lab, nil)), "na" }}, nil
		}
		v := structs.ACLAuthMethods(ptrList(g0().Items, mk))
		return &runner{obj: nil, run: func(f *aclfilter.Filter, _ acl.Authorizer) { f.Filter(&v) },
			proj: func() ([]OutGroup, string) { return flat("list", projPtr(v, lab, nil)), "na" }}, nil
	case "IndexedServiceList":
		v := &structs.IndexedServiceList{Services: svcList(g0().Items)}
		return &runner{obj: v, run: func(f *aclfilter.Filter, _ acl.Authorizer) { f.Filter(v) },
			proj: func() ([]OutGroup, string) { return flat("list", projSvcList(v.Services)), yn(v.ResultsFilteredByACLs) }}, nil
	case "IndexedExportedServiceList":
		v := &structs.IndexedExportedServiceList{Services: map[string]structs.ServiceList{}}
		for _, g := range gs {
			v.Services[g.Key] = svcList(g.Items)
		}
		return &runner{obj: v, run: func(f *aclfilter.Filter, _ acl.Authorizer) { f.Filter(v) },
			proj: func() ([]OutGroup, string) {
				out := []OutGroup{}
				for _, k := range sortedKeys(v.Services) {
					out = append(out, OutGroup{Key: k, Hd: "na", Items: projSvcList(v.Services[k])})
				}
				return out, yn(v.ResultsFilteredByACLs)
			}}, nil
	case "IndexedGatewayServices":
		v := &structs.IndexedGatewayServices{Services: ptrList(g0().Items, mkGatewayService)}
		return &runner{obj: v, run: func(f *aclfilter.Filter, _ acl.Authorizer) { f.Filter(v) },
			proj: func() ([]OutGroup, string) {
				return flat("list", projPtr(v.Services, func(x *structs.GatewayService) string { return x.SNI }, nil)), yn(v.ResultsFilteredByACLs)
			}}, nil
	case "IndexedNodesWithGateways":
		v := &structs.IndexedNodesWithGateways{Nodes: csnList(byKey("nodes").Items),
			Gateways: ptrList(byKey("gateways").Items, mkGatewayService), ImportedNodes: csnList(byKey("imported").Items)}
		return &runner{obj: v, run: func(f *aclfilter.Filter, _ acl.Authorizer) { f.Filter(v) },
			proj: func() ([]OutGroup, string) {
				return []OutGroup{{Key: "nodes", Hd: "na", Items: projCSN(v.Nodes)},
					{Key: "gateways", Hd: "na", Items: projPtr(v.Gateways, func(x *structs.GatewayService) string { return x.SNI }, nil)},
					{Key: "imported", Hd: "na", Items: projCSN(v.ImportedNodes)}}, yn(v.ResultsFilteredByACLs)
			}}, nil
	case "DirEntries":
		v := structs.DirEntries(ptrList(g0().Items, func(e *El) *structs.DirEntry {
			return &structs.DirEntry{Key: e.nm.key, Value: []byte(e.Lab)}
		}))
		var res structs.DirEntries
		return &runner{obj: nil, run: func(_ *aclfilter.Filter, az acl.Authorizer) { res = consul.FilterDirEnt(az, v) },
			proj: func() ([]OutGroup, string) {
				return flat("list", projPtr(res, func(x *structs.DirEntry) string { return string(x.Value) }, nil)), "na"
			}}, nil
	case "TxnResults":
		v := structs.TxnResults(ptrList(g0().Items, func(e *El) *structs.TxnResult {
			switch e.V {
			case "kv":
				return &structs.TxnResult{KV: &structs.DirEntry{Key: e.nm.key, Value: []byte(e.Lab)}}
			case "node":
				return &structs.TxnResult{Node: mkNode(e)}
			case "svc":
				return &structs.TxnResult{Service: mkNodeService(e)}
			}
			return &structs.TxnResult{Check: mkCheck(e, e.nm.node)}
		}))
		var res structs.TxnResults
		return &runner{obj: nil, run: func(_ *aclfilter.Filter, az acl.Authorizer) { res = consul.FilterTxnResults(az, v) },
			proj: func() ([]OutGroup, string) {
				return flat("list", projPtr(res, func(x *structs.TxnResult) string {
					switch {
					case x.KV != nil:
						return string(x.KV.Value)
					case x.Node != nil:
						return string(x.Node.ID)
					case x.Service != nil:
						return x.Service.ID
					case x.Check != nil:
						return string(x.Check.CheckID)
					}
					return "<empty>"
				}, nil)), "na"
			}}, nil
	}
	return nil, fmt.Errorf("no builder for kind %q", c.Kind)
}

func projOne[T any](v *T, lab func(*T) string, tok func(*T) string) []OutEl {
	if v == nil {
		return []OutEl{}
	}
	return projPtr([]*T{v}, lab, tok)
}

func svcList(items []*El) structs.ServiceList {
	out := make(structs.ServiceList, 0, len(items))
	for _, e := range items {
		out = append(out, structs.NewServiceName(e.nm.svc, nil))
	}
	return out
}
func projSvcList(l structs.ServiceList) []OutEl {
	out := []OutEl{}
	for _, s := range l {
		out = append(out, OutEl{Lab: s.Name, Tok: "na", Subs: [][]string{}})
	}
	return out
}

func sortedKeys[V any](m map[string]V) []string {
	ks := make([]string, 0, len(m))
	for k := range m {
		ks = append(ks, k)
	}
	sort.Strings(ks)
	return ks
}

// ---------------------------------------------------------------- execution

// Perturb is set by the -perturb flag only (binding selftest).
var Perturb string

// Exec prepares the case for the authorizer class, runs the real filter `reps` times on fresh values
// and returns one event per DISTINCT projected outcome (Go map iteration order is the only source of
// variation).
func Exec(c *Case, class string, reps int, src string, caseNo int) ([]*Event, error) {
	az, err := Authorizer(class, c.Acl)
	if err != nil {
		return nil, err
	}
	drift := Prepare(c, az)
	if drift == nil {
		drift = []string{}
	}
	if !HasMap(c.Kind) || reps < 1 {
		reps = 1
	}
	seen := map[string]*Event{}
	var order []string
	for r := 0; r < reps; r++ {
		run, err := Build(c)
		if err != nil {
			return nil, err
		}
		if c.Prior == "yes" {
			setPrior(run.obj, true)
		}
		prior := priorOf(run.obj)
		f := aclfilter.New(az, hclog.NewNullLogger())
		run.run(f, az)
		out, flag := run.proj()
		switch Perturb { // selftest shim (DESIGN 2.4 ii): falsify the real call's result once it has been taken
		case "drop-last":
			for gi := range out {
				if n := len(out[gi].Items); n > 0 {
					out[gi].Items = out[gi].Items[:n-1]
					break
				}
			}
		case "flip-flag":
			if flag == "yes" {
				flag = "no"
			} else if flag == "no" {
				flag = "yes"
			}
		}
		kb, _ := json.Marshal([]any{out, flag, prior})
		if ev, ok := seen[string(kb)]; ok {
			ev.Reps++
			continue
		}
		ev := &Event{T: "filter", Kind: c.Kind, Acl: c.Acl, Az: class, Src: src, In: c.Groups, Out: out, Prior: prior, Seq: 1, Flag: flag, Reps: 1, Drift: drift, CaseNo: caseNo}
		seen[string(kb)] = ev
		order = append(order, string(kb))
	}
	evs := make([]*Event, 0, len(order))
	for _, k := range order {
		seen[k].Outcomes = len(order)
		evs = append(evs, seen[k])
	}
	return evs, nil
}

// ExecReeval mirrors blockingquery.Query: ONE reply object, the query function runs twice. The first run
// populates it with `first` and filters; the second run re-populates the same object with `second` (QueryMeta
// untouched) and filters again. Only the second evaluation is returned as an event (the first is an ordinary
// case); its prior is whatever the real first evaluation left in the object.
func ExecReeval(first, second *Case, class string, src string, caseNo int) (*Event, error) {
	if first.Kind != second.Kind {
		return nil, fmt.Errorf("reeval: kinds differ")
	}
	az, err := Authorizer(class, second.Acl)
	if err != nil {
		return nil, err
	}
	Prepare(first, az)
	drift := Prepare(second, az)
	if drift == nil {
		drift = []string{}
	}
	r1, err := Build(first)
	if err != nil {
		return nil, err
	}
	if len(flagFields(r1.obj)) == 0 {
		return nil, nil // no flag on this type
	}
	f := aclfilter.New(az, hclog.NewNullLogger())
	r1.run(f, az)
	r2, err := Build(second)
	if err != nil {
		return nil, err
	}
	if err := repopulate(r1.obj, r2.obj); err != nil {
		return nil, err
	}
	prior := priorOf(r1.obj)
	r1.run(aclfilter.New(az, hclog.NewNullLogger()), az)
	out, flag := r1.proj()
	return &Event{T: "filter", Kind: second.Kind, Acl: second.Acl, Az: class, Src: src, In: second.Groups, Out: out, Prior: prior, Seq: 2,
		Flag: flag, Reps: 1, Outcomes: 1, Drift: drift, CaseNo: caseNo}, nil
}

// Clone deep-copies a case (Prepare mutates it).
func Clone(c *Case) *Case {
	b, _ := json.Marshal(c)
	var out Case
	_ = json.Unmarshal(b, &out)
	return &out
}
