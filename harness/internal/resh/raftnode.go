// Package resh wires the three systems under test of C18 behind one small interface:
//
//	inmem : inmem.Backend exactly as produced by inmem.NewBackend (no snapshot/restore: the type does not export one)
//	store : inmem.Store driven directly (the layer the Raft backend applies to) incl. Snapshot / Restore
//	raft  : raft.Backend on top of a REAL single-node hashicorp/raft instance (in-memory log/stable/snapshot
//	        stores and transport); writes go through raft.Apply -> FSM.Apply -> Backend.Apply, snapshots through
//	        raft.Snapshot -> FSM.Snapshot -> Backend.Snapshot and raft.Restore -> FSM.Restore -> Backend.Restore.
//
// Nothing in here decides anything: it only executes.
package resh

import (
	"bufio"
	"bytes"
	"context"
	"encoding/binary"
	"errors"
	"fmt"
	"io"
	"strconv"
	"sync/atomic"
	"time"

	"github.com/hashicorp/go-hclog"
	hraft "github.com/hashicorp/raft"
	"google.golang.org/grpc"
	"google.golang.org/protobuf/proto"

	"github.com/hashicorp/consul/internal/storage"
	"github.com/hashicorp/consul/internal/storage/inmem"
	sraft "github.com/hashicorp/consul/internal/storage/raft"
	"github.com/hashicorp/consul/proto-public/pbresource"
)

// ErrUnsupported is returned by Snapshot/Restore of the plain inmem backend.
var ErrUnsupported = errors.New("snapshot/restore not supported by this backend")

// SUT is a storage.Backend plus snapshot/restore where available.
type SUT interface {
	storage.Backend
	Snapshot() ([]*pbresource.Resource, error)
	Restore([]*pbresource.Resource) error
	Close()
}

// ---------------------------------------------------------------- inmem.Backend

type inmemSUT struct {
	*inmem.Backend
	cancel context.CancelFunc
}

func NewInmem() (SUT, error) {
	b, err := inmem.NewBackend()
	if err != nil {
		return nil, err
	}
	ctx, cancel := context.WithCancel(context.Background())
	go b.Run(ctx)
	return &inmemSUT{b, cancel}, nil
}
func (s *inmemSUT) Snapshot() ([]*pbresource.Resource, error) { return nil, ErrUnsupported }
func (s *inmemSUT) Restore([]*pbresource.Resource) error     { return ErrUnsupported }
func (s *inmemSUT) Close()                                   { s.cancel() }

// ---------------------------------------------------------------- inmem.Store

// storeSUT adapts inmem.Store to storage.Backend the same way inmem.Backend does
// (clone + version from an atomic counter), and adds Snapshot/Restore.
type storeSUT struct {
	s      *inmem.Store
	vsn    uint64
	cancel context.CancelFunc

	pendingRestore *inmem.Restoration // between RestoreBegin and RestoreCommit (caller synchronises)
}

func NewStore() (SUT, error) {
	s, err := inmem.NewStore()
	if err != nil {
		return nil, err
	}
	ctx, cancel := context.WithCancel(context.Background())
	go s.Run(ctx)
	return &storeSUT{s: s, cancel: cancel}, nil
}

// NewStoreLateRun returns the store with its event publisher NOT yet running; start() runs it. Between a
// commit and the publisher picking the event up there is always a gap; this makes the gap deterministic.
func NewStoreLateRun() (SUT, func(), error) {
	s, err := inmem.NewStore()
	if err != nil {
		return nil, nil, err
	}
	ctx, cancel := context.WithCancel(context.Background())
	return &storeSUT{s: s, cancel: cancel}, func() { go s.Run(ctx) }, nil
}

func (b *storeSUT) Read(_ context.Context, _ storage.ReadConsistency, id *pbresource.ID) (*pbresource.Resource, error) {
	return b.s.Read(id)
}
func (b *storeSUT) WriteCAS(_ context.Context, res *pbresource.Resource) (*pbresource.Resource, error) {
	stored := proto.Clone(res).(*pbresource.Resource)
	stored.Version = strconv.Itoa(int(atomic.AddUint64(&b.vsn, 1)))
	if err := b.s.WriteCAS(stored, res.Version); err != nil {
		return nil, err
	}
	return stored, nil
}
func (b *storeSUT) DeleteCAS(_ context.Context, id *pbresource.ID, version string) error {
	return b.s.DeleteCAS(id, version)
}
func (b *storeSUT) List(_ context.Context, _ storage.ReadConsistency, t storage.UnversionedType, ten *pbresource.Tenancy, pre string) ([]*pbresource.Resource, error) {
	return b.s.List(t, ten, pre)
}
func (b *storeSUT) WatchList(_ context.Context, t storage.UnversionedType, ten *pbresource.Tenancy, pre string) (storage.Watch, error) {
	return b.s.WatchList(t, ten, pre)
}
func (b *storeSUT) ListByOwner(_ context.Context, id *pbresource.ID) ([]*pbresource.Resource, error) {
	return b.s.ListByOwner(id)
}
func (b *storeSUT) Snapshot() ([]*pbresource.Resource, error) {
	sn, err := b.s.Snapshot()
	if err != nil {
		return nil, err
	}
	var out []*pbresource.Resource
	for r := sn.Next(); r != nil; r = sn.Next() {
		out = append(out, r)
	}
	return out, nil
}
func (b *storeSUT) Restore(rs []*pbresource.Resource) error {
	r, err := b.s.Restore()
	if err != nil {
		return err
	}
	defer r.Abort()
	for _, x := range rs {
		if err := r.Apply(x); err != nil {
			return err
		}
	}
	r.Commit()
	return nil
}
// Windowed is implemented by a SUT whose restore can be driven in the two steps the storage API has:
// RestoreBegin = Store.Restore() + Restoration.Apply for every resource (builds the new database, nothing
// observable changes), RestoreCommit = Restoration.Commit() (swaps it in). Calls made in between run
// against the old database.
type Windowed interface {
	RestoreBegin([]*pbresource.Resource) error
	RestoreCommit()
}

func (b *storeSUT) RestoreBegin(rs []*pbresource.Resource) error {
	r, err := b.s.Restore()
	if err != nil {
		return err
	}
	for _, x := range rs {
		if err := r.Apply(x); err != nil {
			r.Abort()
			return err
		}
	}
	b.pendingRestore = r
	return nil
}

func (b *storeSUT) RestoreCommit() {
	b.pendingRestore.Commit()
	b.pendingRestore = nil
}

func (b *storeSUT) Close() { b.cancel() }

// ---------------------------------------------------------------- raft.Backend over hashicorp/raft

type fsm struct{ b *sraft.Backend }

func (f *fsm) Apply(l *hraft.Log) any {
	if l.Type != hraft.LogCommand {
		return nil
	}
	return f.b.Apply(l.Data, l.Index)
}

func (f *fsm) Snapshot() (hraft.FSMSnapshot, error) {
	s, err := f.b.Snapshot()
	if err != nil {
		return nil, err
	}
	return &fsmSnap{s}, nil
}

func (f *fsm) Restore(rc io.ReadCloser) error {
	defer rc.Close()
	frames, err := readFrames(rc)
	if err != nil {
		return err
	}
	r, err := f.b.Restore()
	if err != nil {
		return err
	}
	defer r.Abort()
	for _, m := range frames {
		if err := r.Apply(m); err != nil {
			return err
		}
	}
	r.Commit()
	return nil
}

type fsmSnap struct{ s *sraft.Snapshot }

func (s *fsmSnap) Persist(sink hraft.SnapshotSink) error {
	w := bufio.NewWriter(sink)
	for {
		b, err := s.s.Next()
		if err != nil {
			sink.Cancel()
			return err
		}
		if b == nil {
			break
		}
		var l [binary.MaxVarintLen64]byte
		n := binary.PutUvarint(l[:], uint64(len(b)))
		w.Write(l[:n])
		w.Write(b)
	}
	if err := w.Flush(); err != nil {
		sink.Cancel()
		return err
	}
	return sink.Close()
}
func (s *fsmSnap) Release() {}

func readFrames(r io.Reader) ([][]byte, error) {
	br := bufio.NewReader(r)
	var out [][]byte
	for {
		n, err := binary.ReadUvarint(br)
		if err == io.EOF {
			return out, nil
		}
		if err != nil {
			return nil, err
		}
		b := make([]byte, n)
		if _, err := io.ReadFull(br, b); err != nil {
			return nil, err
		}
		out = append(out, b)
	}
}

type handle struct{ r *hraft.Raft }

func (h *handle) Apply(msg []byte) (any, error) {
	f := h.r.Apply(msg, 10*time.Second)
	if err := f.Error(); err != nil {
		return nil, err
	}
	rsp := f.Response()
	if err, ok := rsp.(error); ok {
		return nil, err
	}
	return rsp, nil
}
func (h *handle) IsLeader() bool { return h.r.State() == hraft.Leader }
func (h *handle) EnsureStrongConsistency(context.Context) error {
	if err := h.r.VerifyLeader().Error(); err != nil {
		return err
	}
	return h.r.Barrier(10 * time.Second).Error()
}
func (h *handle) DialLeader() (*grpc.ClientConn, error) {
	return nil, errors.New("single node: no forwarding")
}

type raftSUT struct {
	*sraft.Backend
	r      *hraft.Raft
	cancel context.CancelFunc
	blob   *raftBlob // written/read by the single controller goroutine only
}

func NewRaft() (SUT, error) {
	h := &handle{}
	b, err := sraft.NewBackend(h, hclog.NewNullLogger())
	if err != nil {
		return nil, err
	}
	conf := hraft.DefaultConfig()
	conf.LocalID = "n1"
	conf.HeartbeatTimeout = 50 * time.Millisecond
	conf.ElectionTimeout = 50 * time.Millisecond
	conf.LeaderLeaseTimeout = 50 * time.Millisecond
	conf.CommitTimeout = 2 * time.Millisecond
	conf.SnapshotInterval = time.Hour
	conf.SnapshotThreshold = 1 << 30
	conf.Logger = hclog.NewNullLogger()
	logs, stable, snaps := hraft.NewInmemStore(), hraft.NewInmemStore(), hraft.NewInmemSnapshotStore()
	addr, trans := hraft.NewInmemTransport("")
	cfg := hraft.Configuration{Servers: []hraft.Server{{Suffrage: hraft.Voter, ID: conf.LocalID, Address: addr}}}
	if err := hraft.BootstrapCluster(conf, logs, stable, snaps, trans, cfg); err != nil {
		return nil, err
	}
	r, err := hraft.NewRaft(conf, &fsm{b}, logs, stable, snaps, trans)
	if err != nil {
		return nil, err
	}
	h.r = r
	deadline := time.Now().Add(20 * time.Second)
	for r.State() != hraft.Leader {
		if time.Now().After(deadline) {
			r.Shutdown()
			return nil, fmt.Errorf("raft: no leader after 20s")
		}
		time.Sleep(5 * time.Millisecond)
	}
	if err := r.Barrier(10 * time.Second).Error(); err != nil {
		return nil, err
	}
	ctx, cancel := context.WithCancel(context.Background())
	go b.Run(ctx)
	return &raftSUT{Backend: b, r: r, cancel: cancel}, nil
}

// snapshot blob kept between Snapshot and Restore (raft.Restore needs meta + bytes)
type raftBlob struct {
	meta *hraft.SnapshotMeta
	data []byte
}

func (s *raftSUT) Snapshot() ([]*pbresource.Resource, error) {
	f := s.r.Snapshot()
	if err := f.Error(); err != nil {
		return nil, err
	}
	meta, rc, err := f.Open()
	if err != nil {
		return nil, err
	}
	defer rc.Close()
	data, err := io.ReadAll(rc)
	if err != nil {
		return nil, err
	}
	s.blob = &raftBlob{meta, data}
	frames, err := readFrames(bytes.NewReader(data))
	if err != nil {
		return nil, err
	}
	var out []*pbresource.Resource
	for _, m := range frames {
		var r pbresource.Resource
		if err := r.UnmarshalBinary(m); err != nil {
			return nil, err
		}
		out = append(out, &r)
	}
	return out, nil
}

func (s *raftSUT) Restore(_ []*pbresource.Resource) error {
	b := s.blob
	if b == nil {
		return errors.New("no snapshot taken")
	}
	return s.r.Restore(b.meta, bytes.NewReader(b.data), 10*time.Second)
}

func (s *raftSUT) Close() {
	s.cancel()
	s.r.Shutdown().Error()
}
