// Package streamh drives the real event publisher (agent/consul/stream), the real state store
// behind the real FSM (agent/consul/fsm, agent/consul/state) and real materialized views
// (agent/rpcclient/health, agent/rpcclient/configentry) under a schedule that the caller imposes,
// and projects their state to the abstract state of spec/Stream.tla.
//
// The publisher goroutine (EventPublisher.Run) is never started: "drain" runs exactly one iteration
// of its loop through the verif hook VerifDrainOne. Nothing in here decides anything: commands are
// executed, results and states are copied out (field copies and sorting only).
package streamh

import (
	"bytes"
	"context"
	"crypto/sha1"
	"errors"
	"fmt"
	"io"
	"sort"
	"strings"
	"time"

	"github.com/hashicorp/go-hclog"
	"github.com/hashicorp/raft"

	"github.com/hashicorp/consul/acl"
	"github.com/hashicorp/consul/agent/consul/fsm"
	"github.com/hashicorp/consul/agent/consul/state"
	"github.com/hashicorp/consul/agent/consul/stream"
	"github.com/hashicorp/consul/agent/rpcclient/configentry"
	"github.com/hashicorp/consul/agent/rpcclient/health"
	"github.com/hashicorp/consul/agent/structs"
	"github.com/hashicorp/consul/agent/submatview"
	"github.com/hashicorp/consul/api"
	raftstorage "github.com/hashicorp/consul/internal/storage/raft"
	"github.com/hashicorp/consul/proto/private/pbsubscribe"
	"github.com/hashicorp/consul/types"
)

type M = map[string]any

const (
	TopicHealth   = "ServiceHealth"
	TopicConnect  = "ServiceHealthConnect"
	TopicResolver = "ServiceResolver"
)

var topics = map[string]pbsubscribe.Topic{
	TopicHealth:   pbsubscribe.Topic_ServiceHealth,
	TopicConnect:  pbsubscribe.Topic_ServiceHealthConnect,
	TopicResolver: pbsubscribe.Topic_ServiceResolver,
}

// WildTopics are the topics that fsm.registerStreamSnapshotHandlers registers with supportsWildcard
// among the topics this harness subscribes to.
var WildTopics = []string{TopicResolver}

// PerturbAt > 0 withholds the PerturbAt-th live event batch from the view while still advancing the
// index (a "skipped change"). Throw-away switch for the binding demonstration; never set by a check run.
var PerturbAt int
var perturbSeen int

// TS is a (topic, subject) pair; Subj "*" is stream.SubjectWildcard.
type TS struct{ Topic, Subj string }

func (t TS) key() string { return t.Topic + "|" + t.Subj }

// ---------------------------------------------------------------- recording publisher

// recPub is what the state store sees as its publisher. It copies the arguments of Publish into
// the shadow queue (publishCh cannot be read without consuming it) and forwards to the real one.
type recPub struct{ w *W }

func (p *recPub) Publish(evs []stream.Event) {
	if len(evs) > 0 {
		p.w.Queue = append(p.w.Queue, p.w.projBatch(evs))
		p.w.publishes++
	}
	p.w.Pub.Publish(evs)
}
func (p *recPub) RegisterHandler(t stream.Topic, f stream.SnapshotFunc, wc bool) error {
	return p.w.Pub.RegisterHandler(t, f, wc)
}
func (p *recPub) Subscribe(r *stream.SubscribeRequest) (*stream.Subscription, error) {
	return p.w.Pub.Subscribe(r)
}

// ---------------------------------------------------------------- world

type histRec struct {
	idx uint64
	q   map[string]M // TS key -> {idx, rows}
}

type Client struct {
	sub     *stream.Subscription
	ts      TS
	tok     string
	live    bool // a Subscribe was made and Unsubscribe not yet called
	ever    bool
	view    submatview.View
	vidx    uint64
	mode    string // "snap" | "resume" | "stream"   (submatview/handler.go: snapshotHandler / resumeStreamHandler / eventStreamHandler)
	acc     []*pbsubscribe.Event
	accProj []M
	sbirth  uint64 // raft index of the store when the snapshot of the current subscription was built
	snapidx uint64 // index of the end-of-snapshot event last delivered on the current subscription
	ridx    uint64 // raft index of the last restore that preceded the current subscription
}

type W struct {
	FSM       *fsm.FSM
	Pub       *stream.EventPublisher
	TTL       bool
	Queue     []M
	Ridx      uint64
	Idx       uint64
	Cl        []*Client
	Universe  []TS
	hist      []histRec
	snaps     map[uint64][]byte
	keepSnaps bool
	publishes int
	snapBirth map[string]uint64
	cancel    context.CancelFunc
	Deny      map[string][]string       // token -> service / config entry names it may not read
	authz     map[string]acl.Authorizer // the real authorizers built from Deny
}

// authorizer returns what ACLResolver.ResolveTokenAndDefaultMeta would hand the materializer for the
// token: everything readable, except the names listed in Deny for it (a real policy authorizer).
func (w *W) authorizer(tok string) acl.Authorizer {
	if a, ok := w.authz[tok]; ok {
		return a
	}
	return acl.ManageAll()
}

func (w *W) SetDeny(deny map[string][]string) error {
	w.Deny = deny
	w.authz = map[string]acl.Authorizer{}
	for tok, names := range deny {
		rules := `node_prefix "" { policy = "read" } service_prefix "" { policy = "read" }`
		for _, n := range names {
			rules += fmt.Sprintf(` service %q { policy = "deny" }`, n)
		}
		pol, err := acl.NewPolicyFromSource(rules, nil, nil)
		if err != nil {
			return err
		}
		a, err := acl.NewPolicyAuthorizerWithDefaults(acl.DenyAll(), []*acl.Policy{pol}, nil)
		if err != nil {
			return err
		}
		w.authz[tok] = a
	}
	return nil
}

// New builds a publisher (not running), an FSM whose state stores publish into it, and nc clients.
func New(nc int, ttl bool, universe []TS, keepSnaps bool) (*W, error) {
	w := &W{TTL: ttl, Universe: universe, snaps: map[uint64][]byte{}, keepSnaps: keepSnaps, snapBirth: map[string]uint64{}}
	d := time.Duration(0)
	if ttl {
		d = 1000 * time.Hour // never fires by itself; expiry is the schedule's "expire" command
	}
	w.Pub = stream.NewEventPublisher(d)
	logger := hclog.New(&hclog.LoggerOptions{Output: io.Discard, Level: hclog.Off})
	backend, err := raftstorage.NewBackend(nil, logger)
	if err != nil {
		return nil, err
	}
	ctx, cancel := context.WithCancel(context.Background())
	w.cancel = cancel
	go backend.Run(ctx)
	rp := &recPub{w: w}
	w.FSM = fsm.NewFromDeps(fsm.Deps{
		Logger:         logger,
		NewStateStore:  func() *state.Store { return state.NewStateStoreWithEventPublisher(nil, rp) },
		Publisher:      w.Pub, // registerStreamSnapshotHandlers + Restore -> RefreshAllTopics use the real one
		StorageBackend: backend,
	})
	for i := 0; i < nc; i++ {
		w.Cl = append(w.Cl, &Client{mode: "snap"})
	}
	w.record(0)
	if keepSnaps {
		b, err := w.snapshotBytes()
		if err != nil {
			return nil, err
		}
		w.snaps[0] = b
	}
	return w, nil
}

func (w *W) Close() { w.cancel() }

func (w *W) store() *state.Store { return w.FSM.State() }

// ---------------------------------------------------------------- projections of payloads

func sum(s string) string {
	h := sha1.Sum([]byte(s))
	return fmt.Sprintf("%x", h[:5])
}

// csnDigest renders the fields of a CheckServiceNode that a health query returns to a client.
func csnDigest(n *structs.CheckServiceNode) string {
	var b strings.Builder
	if n.Node != nil {
		fmt.Fprintf(&b, "N[%s %s %d %d]", n.Node.Node, n.Node.Address, n.Node.CreateIndex, n.Node.ModifyIndex)
	}
	if n.Service != nil {
		s := n.Service
		keys := make([]string, 0, len(s.Meta))
		for k, v := range s.Meta {
			keys = append(keys, k+"="+v)
		}
		sort.Strings(keys)
		fmt.Fprintf(&b, "S[%s %s %s %d %v %s %d %d]", s.ID, s.Service, s.Kind, s.Port, keys, s.Proxy.DestinationServiceName, s.CreateIndex, s.ModifyIndex)
	}
	cs := make([]string, 0, len(n.Checks))
	for _, c := range n.Checks {
		cs = append(cs, fmt.Sprintf("%s:%s:%s:%d:%d", c.CheckID, c.Status, c.ServiceID, c.CreateIndex, c.ModifyIndex))
	}
	sort.Strings(cs)
	fmt.Fprintf(&b, "C%v", cs)
	return b.String()
}

func csnID(n *structs.CheckServiceNode) string {
	id := ""
	if n.Node != nil {
		id = n.Node.Node
	}
	if n.Service != nil {
		id += "/" + n.Service.ID
	}
	return id
}

// csnAK is the name CheckServiceNode.CanRead asks the authorizer about (service read).
func csnAK(n *structs.CheckServiceNode) string {
	if n.Service != nil {
		return n.Service.Service
	}
	return ""
}

func ceDigest(e structs.ConfigEntry) string {
	s := fmt.Sprintf("%s %s", e.GetKind(), e.GetName())
	if r, ok := e.(*structs.ServiceResolverConfigEntry); ok {
		s += fmt.Sprintf(" ct=%s ds=%s", r.ConnectTimeout, r.DefaultSubset)
	}
	ri := e.GetRaftIndex()
	return s + fmt.Sprintf(" %d %d", ri.CreateIndex, ri.ModifyIndex)
}

func subjString(s stream.Subject) string {
	if s == stream.SubjectWildcard {
		return "*"
	}
	return s.String()
}

// projEvent copies one published event. digest=false leaves v as the raw text (used for samples).
func projEvent(e stream.Event) []M {
	topic := ""
	if e.Topic != nil {
		topic = e.Topic.String()
	}
	switch p := e.Payload.(type) {
	case state.EventPayloadCheckServiceNode:
		op, v := "reg", sum(csnDigest(p.Value))
		if p.Op == pbsubscribe.CatalogOp_Deregister {
			op, v = "dereg", ""
		}
		return []M{{"topic": topic, "subj": subjString(p.Subject()), "op": op, "id": csnID(p.Value), "v": v, "ak": csnAK(p.Value)}}
	case state.EventPayloadConfigEntry:
		op, v := "reg", sum(ceDigest(p.Value))
		if p.Op == pbsubscribe.ConfigEntryUpdate_Delete {
			op, v = "dereg", ""
		}
		return []M{{"topic": topic, "subj": subjString(p.Subject()), "op": op, "id": p.Value.GetName(), "v": v, "ak": p.Value.GetName()}}
	case *state.EventPayloadServiceListUpdate:
		op := "reg"
		if p.Op == pbsubscribe.CatalogOp_Deregister {
			op = "dereg"
		}
		return []M{{"topic": topic, "subj": subjString(p.Subject()), "op": op, "id": p.Name, "v": "", "ak": p.Name}}
	case *stream.PayloadEvents:
		var out []M
		for _, it := range p.Items {
			out = append(out, projEvent(it)...)
		}
		return out
	}
	return []M{{"topic": topic, "subj": "?", "op": "?", "id": fmt.Sprintf("%T", e.Payload), "v": "", "ak": ""}}
}

// projItem copies one buffer item (the events of one Append).
func projItem(evs []stream.Event) M {
	if len(evs) == 0 {
		return M{"k": "none", "idx": 0, "evs": []M{}}
	}
	if len(evs) == 1 && evs[0].IsEndOfSnapshot() {
		return M{"k": "eos", "idx": evs[0].Index, "evs": []M{}}
	}
	if len(evs) == 1 && evs[0].IsNewSnapshotToFollow() {
		return M{"k": "nstf", "idx": evs[0].Index, "evs": []M{}}
	}
	out := []M{}
	for _, e := range evs {
		out = append(out, projEvent(e)...)
	}
	return M{"k": "ev", "idx": evs[0].Index, "evs": out}
}

func projItems(bs [][]stream.Event) []M {
	out := []M{}
	for _, b := range bs {
		out = append(out, projItem(b))
	}
	return out
}

// projBatch copies the argument of one Publish call.
func (w *W) projBatch(evs []stream.Event) M {
	out := []M{}
	toks := []string{}
	for _, e := range evs {
		if t, ok := stream.VerifCloseTokens(e); ok {
			toks = append(toks, t...)
			continue
		}
		out = append(out, projEvent(e)...)
	}
	sort.Strings(toks)
	return M{"idx": w.Idx, "evs": out, "toks": toks, "n": len(evs)}
}

// ---------------------------------------------------------------- direct queries (the oracle)

func rowsOfCSN(nodes structs.CheckServiceNodes) []M {
	rows := []M{}
	for i := range nodes {
		n := nodes[i]
		rows = append(rows, M{"id": csnID(&n), "v": sum(csnDigest(&n)), "ak": csnAK(&n)})
	}
	sortRows(rows)
	return rows
}

func rowsOfCE(es []structs.ConfigEntry) []M {
	rows := []M{}
	for _, e := range es {
		if e != nil {
			rows = append(rows, M{"id": e.GetName(), "v": sum(ceDigest(e)), "ak": e.GetName()})
		}
	}
	sortRows(rows)
	return rows
}

func sortRows(rows []M) {
	sort.Slice(rows, func(i, j int) bool { return rows[i]["id"].(string) < rows[j]["id"].(string) })
}

// Direct runs the query a non-streaming client would run for ts against the current store.
func (w *W) Direct(ts TS) (M, error) {
	s := w.store()
	switch ts.Topic {
	case TopicHealth:
		idx, nodes, err := s.CheckServiceNodes(nil, ts.Subj, nil, "")
		return M{"idx": idx, "rows": rowsOfCSN(nodes)}, err
	case TopicConnect:
		idx, nodes, err := s.CheckConnectServiceNodes(nil, ts.Subj, nil, "")
		return M{"idx": idx, "rows": rowsOfCSN(nodes)}, err
	case TopicResolver:
		if ts.Subj == "*" {
			idx, es, err := s.ConfigEntriesByKind(nil, structs.ServiceResolver, structs.WildcardEnterpriseMetaInPartition(structs.WildcardSpecifier))
			return M{"idx": idx, "rows": rowsOfCE(es)}, err
		}
		idx, e, err := s.ConfigEntry(nil, structs.ServiceResolver, ts.Subj, nil)
		return M{"idx": idx, "rows": rowsOfCE([]structs.ConfigEntry{e})}, err
	}
	return nil, fmt.Errorf("unknown topic %q", ts.Topic)
}

// record stores the direct query result of every subject of the universe for the store as it is
// after the write at raft index idx.
func (w *W) record(idx uint64) {
	r := histRec{idx: idx, q: map[string]M{}}
	for _, ts := range w.Universe {
		q, err := w.Direct(ts)
		if err != nil {
			q = M{"idx": 0, "rows": []M{}, "err": err.Error()}
		}
		r.q[ts.key()] = q
	}
	w.hist = append(w.hist, r)
}

// DirectAt returns the recorded direct query results that a non-streaming client could have been
// given "at index idx" by the current store generation (a restore counts as the first write of a new
// generation and stands for every older index):
//   - the result recorded after the last write with a raft index <= idx, and
//   - every recorded result whose own reported query index equals idx (the store may change a
//     result without moving its query index; which of them "the" result at idx is, is the business
//     of the blocking-query contract, not of streaming).
func (w *W) DirectAt(ts TS, idx uint64) M {
	r := w.hist[0]
	for _, h := range w.hist {
		if h.idx <= idx {
			r = h
		}
	}
	cands := []M{{"at": r.idx, "idx": r.q[ts.key()]["idx"], "rows": r.q[ts.key()]["rows"]}}
	for _, h := range w.hist {
		q := h.q[ts.key()]
		if h.idx != r.idx && toU(q["idx"]) == idx {
			cands = append(cands, M{"at": h.idx, "idx": q["idx"], "rows": q["rows"]})
		}
	}
	return M{"cands": cands}
}

// ---------------------------------------------------------------- commands

func toU(v any) uint64 {
	switch x := v.(type) {
	case float64:
		return uint64(x)
	case int:
		return uint64(x)
	case uint64:
		return x
	}
	return 0
}
func str(v any) string { s, _ := v.(string); return s }

// nodeAddr: the node's address; a non-empty variant makes the same request change the node row too.
func nodeAddr(node, variant string) string {
	if variant == "" {
		return "10.0.0." + fmt.Sprint(1+len(node)%200)
	}
	return "10.9." + fmt.Sprint(len(node)%200) + "." + variant
}

func tokAccessor(tok string) string {
	h := sha1.Sum([]byte("verif-acc:" + tok))
	return fmt.Sprintf("%x-%x-%x-%x-%x", h[0:4], h[4:6], h[6:8], h[8:10], h[10:16])
}

// request translates an abstract write into the raft command a server would apply.
func request(idx uint64, wr M) (structs.MessageType, any, error) {
	id := str(wr["id"])
	node := str(wr["node"])
	if node == "" {
		node = "n" + id
	}
	switch str(wr["op"]) + "/" + str(wr["kind"]) {
	case "put/svc":
		status := str(wr["status"])
		if status == "" {
			status = "passing"
		}
		svc := &structs.NodeService{ID: id, Service: str(wr["name"]), Port: 1000, Meta: map[string]string{"ver": fmt.Sprint(idx)}}
		if d := str(wr["dest"]); d != "" {
			svc.Kind = structs.ServiceKindConnectProxy
			svc.Proxy = structs.ConnectProxyConfig{DestinationServiceName: d}
		}
		req := &structs.RegisterRequest{
			Datacenter: "dc1", Node: node, Address: nodeAddr(node, str(wr["addr"])), Service: svc,
			Checks: structs.HealthChecks{{Node: node, CheckID: types.CheckID("chk-" + id), Name: "chk-" + id, Status: status, ServiceID: id}},
		}
		if nc := str(wr["nchk"]); nc != "" { // a node-level check in the same request
			req.Checks = append(req.Checks, &structs.HealthCheck{Node: node, CheckID: "nodechk", Name: "nodechk", Status: nc})
		}
		return structs.RegisterRequestType, req, nil
	case "multi/svc":
		// ONE transaction: the node (its address changes with every write) and three sidecar proxies of
		// `dest` on it, registered under three different service names.
		node = "nm"
		ops := structs.TxnOps{{Node: &structs.TxnNodeOp{Verb: api.NodeSet, Node: structs.Node{Node: node, Address: nodeAddr(node, fmt.Sprint(idx%200))}}}}
		for j, name := range []string{"px", "py", "pz"} {
			ops = append(ops, &structs.TxnOp{Service: &structs.TxnServiceOp{Verb: api.ServiceSet, Node: node, Service: structs.NodeService{
				ID: fmt.Sprintf("%s%d", id, j+1), Service: name, Port: 1000, Meta: map[string]string{"ver": fmt.Sprint(idx)},
				Kind: structs.ServiceKindConnectProxy, Proxy: structs.ConnectProxyConfig{DestinationServiceName: str(wr["dest"])}}}})
		}
		return structs.TxnRequestType, &structs.TxnRequest{Datacenter: "dc1", Ops: ops}, nil
	case "del/svc":
		return structs.DeregisterRequestType, &structs.DeregisterRequest{Datacenter: "dc1", Node: node, ServiceID: id}, nil
	case "delnode/svc":
		return structs.DeregisterRequestType, &structs.DeregisterRequest{Datacenter: "dc1", Node: node}, nil
	case "put/ce":
		return structs.ConfigEntryRequestType, &structs.ConfigEntryRequest{Op: structs.ConfigEntryUpsert, Datacenter: "dc1",
			Entry: &structs.ServiceResolverConfigEntry{Kind: structs.ServiceResolver, Name: id, ConnectTimeout: time.Duration(idx) * time.Second}}, nil
	case "del/ce":
		return structs.ConfigEntryRequestType, &structs.ConfigEntryRequest{Op: structs.ConfigEntryDelete, Datacenter: "dc1",
			Entry: &structs.ServiceResolverConfigEntry{Kind: structs.ServiceResolver, Name: id}}, nil
	case "acl/":
		tok := str(wr["tok"])
		return structs.ACLTokenSetRequestType, &structs.ACLTokenBatchSetRequest{Tokens: structs.ACLTokens{
			&structs.ACLToken{AccessorID: tokAccessor(tok), SecretID: tok, Description: fmt.Sprint("v", idx)}}}, nil
	}
	return 0, nil, fmt.Errorf("unknown write %v", wr)
}

// Commit applies one raft command through FSM.Apply: a real state-store write transaction whose
// Commit hands the events to Publish (which only queues them: the publisher is not running).
func (w *W) Commit(c M) (M, error) {
	idx := toU(c["idx"])
	t, req, err := request(idx, c["w"].(M))
	if err != nil {
		return nil, err
	}
	buf, err := structs.Encode(t, req)
	if err != nil {
		return nil, err
	}
	w.Idx = idx
	before := w.publishes
	var raw any
	func() {
		defer func() {
			if r := recover(); r != nil {
				err = fmt.Errorf("panic in FSM.Apply: %v", r)
			}
		}()
		raw = w.FSM.Apply(&raft.Log{Index: idx, Data: buf, Type: raft.LogCommand})
	}()
	if err != nil {
		return nil, err
	}
	res := M{"ok": true, "n": w.publishes - before}
	if e, isErr := raw.(error); isErr && e != nil {
		res["ok"] = false
	}
	if tr, isTxn := raw.(structs.TxnResponse); isTxn && len(tr.Errors) > 0 {
		res["ok"] = false
		res["err"] = tr.Errors[0].What
	}
	w.record(idx)
	if w.keepSnaps {
		b, err := w.snapshotBytes()
		if err != nil {
			return nil, err
		}
		w.snaps[idx] = b
	}
	return res, nil
}

// Drain runs one iteration of EventPublisher.Run's loop body.
func (w *W) Drain() M {
	ok := w.Pub.VerifDrainOne()
	if ok && len(w.Queue) > 0 {
		w.Queue = w.Queue[1:]
	}
	return M{"ok": ok}
}

type memSink struct{ buf bytes.Buffer }

func (m *memSink) Write(p []byte) (int, error) { return m.buf.Write(p) }
func (m *memSink) Close() error                { return nil }
func (m *memSink) ID() string                  { return "verif" }
func (m *memSink) Cancel() error               { return nil }

func (w *W) snapshotBytes() ([]byte, error) {
	snap, err := w.FSM.Snapshot()
	if err != nil {
		return nil, err
	}
	defer snap.Release()
	sink := &memSink{}
	if err := snap.Persist(sink); err != nil {
		return nil, err
	}
	return sink.buf.Bytes(), nil
}

// Restore installs the snapshot that was taken after raft index `to` through FSM.Restore (new
// state store, RefreshAllTopics under the state lock, old store abandoned) at raft index idx.
func (w *W) Restore(c M) (M, error) {
	// the store as it was at raft index `to` = the snapshot taken after the last write <= to
	var b []byte
	best, ok := uint64(0), false
	for k := range w.snaps {
		if k <= toU(c["to"]) && (!ok || k >= best) {
			best, ok = k, true
		}
	}
	if !ok {
		return nil, fmt.Errorf("no snapshot for index %v", c["to"])
	}
	b = w.snaps[best]
	if err := w.FSM.Restore(io.NopCloser(bytes.NewReader(b))); err != nil {
		return nil, err
	}
	w.Idx = toU(c["idx"])
	w.Ridx = w.Idx
	w.hist = nil
	w.record(0)
	if w.keepSnaps {
		nb, err := w.snapshotBytes()
		if err != nil {
			return nil, err
		}
		w.snaps[w.Idx] = nb
	}
	return M{"ok": true}, nil
}

func newView(ts TS) (submatview.View, error) {
	switch ts.Topic {
	case TopicHealth:
		return health.NewHealthView(structs.ServiceSpecificRequest{ServiceName: ts.Subj})
	case TopicConnect:
		return health.NewHealthView(structs.ServiceSpecificRequest{ServiceName: ts.Subj, Connect: true})
	case TopicResolver:
		if ts.Subj == "*" {
			return configentry.NewConfigEntryListView(structs.ServiceResolver, *structs.DefaultEnterpriseMetaInDefaultPartition()), nil
		}
		return &configentry.ConfigEntryView{}, nil
	}
	return nil, fmt.Errorf("unknown topic %q", ts.Topic)
}

// Subscribe does what submatview.LocalMaterializer.subscribeOnce does up to and including
// Backend.Subscribe: request from the client's current index, initialHandler(index).
// from = "fresh": a new client (index 0, empty view); from = "resume": the client keeps its view
// and asks to resume at its index (LocalMaterializer after a closed subscription).
func (w *W) Subscribe(c M) (M, M, error) {
	cl := w.Cl[int(toU(c["c"]))-1]
	if cl.live {
		return nil, nil, fmt.Errorf("client %v still has a subscription", c["c"])
	}
	ts := TS{str(c["topic"]), str(c["subj"])}
	var from uint64
	if str(c["from"]) == "resume" && cl.ever && cl.ts == ts {
		from = cl.vidx
	}
	q, err := w.Direct(ts)
	if err != nil {
		return nil, nil, err
	}
	if from == 0 {
		v, err := newView(ts)
		if err != nil {
			return nil, nil, err
		}
		cl.view, cl.vidx, cl.mode = v, 0, "snap" // initialHandler(0) = snapshotHandler
	} else {
		cl.mode = "resume" // initialHandler(index>0) = resumeStreamHandler
	}
	cl.acc, cl.accProj = nil, nil
	req := &pbsubscribe.SubscribeRequest{Topic: topics[ts.Topic], Token: str(c["tok"]), Index: from}
	if ts.Subj == "*" {
		req.Subject = &pbsubscribe.SubscribeRequest_WildcardSubject{WildcardSubject: true}
	} else {
		req.Subject = &pbsubscribe.SubscribeRequest_NamedSubject{NamedSubject: &pbsubscribe.NamedSubject{Key: ts.Subj}}
	}
	subReq, err := state.PBToStreamSubscribeRequest(req, *structs.DefaultEnterpriseMetaInDefaultPartition())
	if err != nil {
		return nil, nil, err
	}
	t0, s0 := w.topicSubject(ts)
	_, cerr, cached := w.Pub.VerifSnapCache(t0, s0)
	cached = cached && cerr == nil
	sub, err := w.Pub.Subscribe(subReq)
	if err != nil {
		return M{"ok": false}, M{"fromidx": from, "q": q, "skey": w.SKey(ts)}, nil
	}
	cl.sub, cl.ts, cl.tok, cl.live, cl.ever = sub, ts, str(c["tok"]), true, true
	cl.snapidx, cl.ridx = 0, w.Ridx
	// raft index of the store the subscription's snapshot was read from (a cached snapshot is older than the
	// subscription); 0 when the subscription was resumed without a snapshot
	key := ts.key()
	switch {
	case from > 0 && len(pendK(sub)) == 0 || from > 0 && pendK(sub)[0] != "nstf":
		cl.sbirth = 0
	case cached:
		cl.sbirth = w.snapBirth[key]
	default:
		cl.sbirth = w.Idx
		if w.TTL {
			w.snapBirth[key] = w.Idx
		}
	}
	return M{"ok": true, "direct": w.DirectAt(ts, from)}, M{"fromidx": from, "q": q, "skey": w.SKey(ts)}, nil
}

func pendK(sub *stream.Subscription) []string {
	bs, _ := sub.VerifPending()
	out := []string{}
	for _, b := range bs {
		out = append(out, projItem(b)["k"].(string))
	}
	return out
}

func eventsFromEvent(e *pbsubscribe.Event) []*pbsubscribe.Event {
	if b := e.GetEventBatch(); b != nil {
		return b.Events
	}
	return []*pbsubscribe.Event{e}
}

// apply mirrors submatview/handler.go + materializer.updateView/reset on the real View.
func (cl *Client) apply(e *pbsubscribe.Event, item M) error {
	update := func(evs []*pbsubscribe.Event, idx uint64) error {
		if err := cl.view.Update(evs); err != nil {
			return err
		}
		cl.vidx = idx // materializer.updateView: m.index = index
		return nil
	}
	switch cl.mode {
	case "snap": // snapshotHandler.handle
		if e.GetEndOfSnapshot() {
			err := update(cl.acc, e.Index)
			cl.acc, cl.accProj = nil, nil
			cl.mode = "stream"
			return err
		}
		cl.acc = append(cl.acc, eventsFromEvent(e)...)
		cl.accProj = append(cl.accProj, item["evs"].([]M)...)
		return nil
	case "resume": // resumeStreamHandler
		if e.GetNewSnapshotToFollow() {
			cl.view.Reset() // materializer.reset
			cl.vidx = 0
			cl.mode = "snap"
			cl.acc, cl.accProj = nil, nil
			return nil
		}
	}
	cl.mode = "stream" // eventStreamHandler
	return update(eventsFromEvent(e), e.Index)
}

// Next calls the real Subscription.Next and applies the delivery like the materializer.
func (w *W) Next(c M) (M, error) {
	cl := w.Cl[int(toU(c["c"]))-1]
	if !cl.live {
		return nil, fmt.Errorf("client %v has no subscription", c["c"])
	}
	// The context is already cancelled, so Next can never block. Its select may then prefer the
	// cancellation over an available item (or give up after passing over items it does not deliver);
	// in that case nothing was delivered and the call is simply repeated. "blocked" is recorded only
	// when nothing is buffered any more, so the recorded outcome does not depend on the select.
	ctx, cancel := context.WithCancel(context.Background())
	cancel()
	var ev stream.Event
	var err error
	for tries := 0; ; tries++ {
		ev, err = cl.sub.Next(ctx)
		if !errors.Is(err, context.Canceled) {
			break
		}
		pend, perr := cl.sub.VerifPending()
		if len(pend) == 0 && perr == nil {
			break
		}
		if tries > 100000 {
			return nil, fmt.Errorf("Next keeps returning context.Canceled although %d items are buffered", len(pend))
		}
	}
	res := M{}
	switch {
	case errors.Is(err, stream.ErrACLChanged):
		res = M{"k": "closed", "why": "acl"}
	case errors.Is(err, stream.ErrSubForceClosed):
		res = M{"k": "closed", "why": "force"}
	case errors.Is(err, stream.ErrShuttingDown):
		res = M{"k": "closed", "why": "shutdown"}
	case errors.Is(err, context.Canceled):
		res = M{"k": "blocked"}
	case err != nil:
		res = M{"k": "err", "msg": err.Error()}
	default:
		var item M
		switch {
		case ev.IsEndOfSnapshot():
			item = M{"k": "eos", "idx": ev.Index, "evs": []M{}}
		case ev.IsNewSnapshotToFollow():
			item = M{"k": "nstf", "idx": ev.Index, "evs": []M{}}
		default:
			item = M{"k": "ev", "idx": ev.Index, "evs": append([]M{}, projEvent(ev)...)}
		}
		res = M{"k": "data", "item": item}
		// LocalMaterializer.subscribeOnce: `if !event.Payload.HasReadPermission(authz) { continue }`
		// (a PayloadEvents batch filters its items for this subscriber on the way)
		if !ev.Payload.HasReadPermission(w.authorizer(cl.tok)) {
			res["filtered"] = true
			break
		}
		if ev.IsEndOfSnapshot() {
			cl.snapidx = ev.Index
		}
		// what is left of the delivery for this subscriber (a batch has been filtered by HasReadPermission)
		seen := M{"k": item["k"], "idx": item["idx"], "evs": []M{}}
		if item["k"] == "ev" {
			seen["evs"] = append([]M{}, projEvent(ev)...)
		}
		res["seen"] = seen["evs"]
		if PerturbAt > 0 && cl.mode == "stream" && item["k"] == "ev" {
			perturbSeen++
			if perturbSeen == PerturbAt {
				cl.vidx = ev.Index
				res["perturbed"] = true
				break
			}
		}
		if aerr := cl.apply(ev.Payload.ToSubscriptionEvent(ev.Index), seen); aerr != nil {
			res["applyerr"] = aerr.Error()
			cl.view.Reset()
			cl.vidx = 0
		}
	}
	res["direct"] = w.DirectAt(cl.ts, cl.vidx)
	cur, err := w.Direct(cl.ts)
	if err != nil {
		return nil, err
	}
	res["cur"] = cur
	return res, nil
}

func (w *W) Unsubscribe(c M) (M, error) {
	cl := w.Cl[int(toU(c["c"]))-1]
	if !cl.live {
		return nil, fmt.Errorf("client %v has no subscription", c["c"])
	}
	cl.sub.Unsubscribe()
	cl.live = false
	return M{"ok": true}, nil
}

func (w *W) Expire(c M) (M, M) {
	ts := TS{str(c["topic"]), str(c["subj"])}
	t, s := w.topicSubject(ts)
	w.Pub.VerifExpireSnapCache(t, s)
	return M{"ok": true}, M{"skey": w.SKey(ts)}
}

// SKey is the string under which the publisher files the subject (Subject.String(), "*" for the
// wildcard): the name that buffers, cached snapshots, subscriptions and published events share.
func (w *W) SKey(ts TS) string {
	if ts.Topic == "" {
		return ""
	}
	_, s := w.topicSubject(ts)
	return subjString(s)
}

func (w *W) topicSubject(ts TS) (stream.Topic, stream.Subject) {
	var subj stream.Subject
	switch {
	case ts.Subj == "*":
		subj = stream.SubjectWildcard
	case ts.Topic == TopicResolver:
		subj = state.EventSubjectConfigEntry{Name: ts.Subj, EnterpriseMeta: structs.DefaultEnterpriseMetaInDefaultPartition()}
	default:
		subj = state.EventSubjectService{Key: ts.Subj, EnterpriseMeta: *structs.DefaultEnterpriseMetaInDefaultPartition()}
	}
	return topics[ts.Topic], subj
}

// ---------------------------------------------------------------- state projection

var stateNames = map[uint32]string{0: "open", 1: "force", 2: "unsub", 3: "shutdown", 4: "acl"}

func (w *W) viewRows(cl *Client) []M {
	rows := []M{}
	if cl.view == nil {
		return rows
	}
	switch r := cl.view.Result(cl.vidx).(type) {
	case *structs.IndexedCheckServiceNodes:
		rows = rowsOfCSN(r.Nodes)
	case *structs.ConfigEntryResponse:
		rows = rowsOfCE([]structs.ConfigEntry{r.Entry})
	case *structs.IndexedConfigEntries:
		rows = rowsOfCE(r.Entries)
	}
	out := []M{}
	for _, r := range rows {
		out = append(out, M{"id": r["id"], "v": r["v"]})
	}
	return out
}

// Project copies the publisher's and the clients' state.
func (w *W) Project() (M, error) {
	if w.Pub.VerifQueueLen() != len(w.Queue) {
		return nil, fmt.Errorf("shadow queue has %d batches, publishCh has %d", len(w.Queue), w.Pub.VerifQueueLen())
	}
	tbs, cache := []M{}, []M{}
	for _, ts := range w.Universe {
		t, s := w.topicSubject(ts)
		if refs, last, ok := w.Pub.VerifTopicBuffer(t, s); ok {
			tbs = append(tbs, M{"topic": ts.Topic, "subj": w.SKey(ts), "refs": refs, "last": projItem(last)})
		}
		if bs, err, ok := w.Pub.VerifSnapCache(t, s); ok {
			e := M{"topic": ts.Topic, "subj": w.SKey(ts), "pend": projItems(bs), "err": err != nil}
			cache = append(cache, e)
		}
	}
	cls := []M{}
	for _, cl := range w.Cl {
		m := M{"state": "none", "live": cl.live, "topic": cl.ts.Topic, "subj": w.SKey(cl.ts), "tok": cl.tok, "pend": []M{}, "perr": false,
			"snapidx": cl.snapidx, "sbirth": cl.sbirth, "ridx": cl.ridx, "view": w.viewRows(cl), "vidx": cl.vidx, "mode": cl.mode, "acc": append([]M{}, cl.accProj...)}
		if cl.sub != nil {
			m["state"] = stateNames[cl.sub.VerifState()]
			if cl.live {
				bs, err := cl.sub.VerifPending()
				m["pend"] = projItems(bs)
				m["perr"] = err != nil
			}
		}
		cls = append(cls, m)
	}
	queue := append([]M{}, w.Queue...)
	deny := M{}
	for t, n := range w.Deny {
		deny[t] = append([]string{}, n...)
	}
	return M{"idx": w.Idx, "ridx": w.Ridx, "ttl": w.TTL, "wild": WildTopics, "deny": deny, "queue": queue, "qlen": w.Pub.VerifQueueLen(), "tbs": tbs, "cache": cache, "cl": cls}, nil
}
