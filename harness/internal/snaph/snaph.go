// Package snaph is the executor/recorder for property C20 (snapshot archives).
//
// It mirrors spec/Archive.tla at the byte level: an archive is held as a list of
// regions (Seg) obtained by parsing the tar / gzip framing of an archive that the
// REAL writer produced (snapshot.VerifWrite = archive.go write, gzip-wrapped like
// snapshot.New, or snapshot.New itself on an in-memory Raft).  A fault of the spec is
// applied to the bytes of the addressed region, the real readers are called
// (snapshot.VerifRead = archive.go read for plain archives; snapshot.Verify,
// snapshot.Read and snapshot.Restore on a real in-memory Raft with a recording FSM
// for gzip-wrapped ones) and what they did is recorded.  Nothing is decided here:
// TLC (spec/ArchiveTrace.tla) computes the required outcome class of every scenario
// and judges the recorded counts.
package snaph

import (
	"archive/tar"
	"bytes"
	"compress/gzip"
	"crypto/sha256"
	"encoding/hex"
	"encoding/json"
	"fmt"
	"io"
	"math/rand"
	"os"
	"path/filepath"
	"strings"
	"sync"
	"time"
	"unicode"

	"github.com/hashicorp/go-hclog"
	"github.com/hashicorp/raft"

	"github.com/hashicorp/consul/snapshot"
)

// ---------------------------------------------------------------- regions

// Seg is one region of the archive: K/M are the spec's region kind and member.
type Seg struct {
	K, M string
	B    []byte
	D    string // ok | flip | neutral | cut (mirrors the spec; used only to pick enabled faults)
	// Lines: only for the content of SHA256SUMS - the checksum lines it decodes to (spec field ls)
	Lines []Line
}

// Line is one checksum line: N = meta | state | x (anything else / unparseable), Dg = ok (the saved
// SHA-256 of that member) | wrong.  Raw is the text of the line (valid while the region is intact).
type Line struct {
	N, Dg string
	Raw   string
}

// Fault is one fault record of the spec (Archive!Fault).
type Fault struct {
	T    string `json:"t"`
	I    int    `json:"i"`
	Src  int    `json:"src"`
	K    string `json:"k"`
	M    string `json:"m"`
	Fx   string `json:"fx"`
	Perm []int  `json:"perm"`
}

// Scenario is one behaviour printed by TLC (ArchiveMC!Scenario).
type Scenario struct {
	Wrap    string   `json:"wrap"`
	Faults  []Fault  `json:"faults"`
	Class   string   `json:"class,omitempty"`
	Reasons []string `json:"reasons,omitempty"`
}

// P is the concrete parameter of one fault instance: the byte position and XOR pattern of a
// flip, the number of bytes kept by a cut inside a region, the variant of an injected member.
type P struct {
	Pos  int `json:"pos"`
	Pat  int `json:"pat"`
	Keep int `json:"keep"`
	Var  int `json:"var"`
}

type Drift struct{ Msg string }

func (d Drift) Error() string { return "model drift: " + d.Msg }

func nameClass(n string) string {
	switch n {
	case "meta.json":
		return "meta"
	case "state.bin":
		return "state"
	case "SHA256SUMS":
		return "sums"
	}
	return "x"
}

func allZero(b []byte) bool {
	for _, c := range b {
		if c != 0 {
			return false
		}
	}
	return true
}

// ParseTar computes the region map of a tar stream written by archive.go write():
// 512-byte ustar headers, octal size field at [124:136), content, zero padding to the next
// block, then the end-of-archive zero blocks.  It is independent of archive/tar.
func ParseTar(b []byte) ([]Seg, error) {
	var segs []Seg
	off := 0
	for {
		if off+512 > len(b) {
			return nil, fmt.Errorf("tar: short header at %d", off)
		}
		blk := b[off : off+512]
		if allZero(blk) {
			if !allZero(b[off:]) || len(b)-off != 1024 {
				return nil, fmt.Errorf("tar: end-of-archive is not exactly two zero blocks (%d bytes)", len(b)-off)
			}
			segs = append(segs, Seg{K: "eoa", M: "-", B: b[off:], D: "ok"})
			return segs, nil
		}
		if tf := blk[156]; tf != '0' && tf != 0 {
			return nil, fmt.Errorf("tar: member with typeflag %q: the region model covers regular ustar members only", tf)
		}
		if string(blk[257:262]) != "ustar" {
			return nil, fmt.Errorf("tar: not a ustar header at %d", off)
		}
		name := string(bytes.TrimRight(blk[0:100], "\x00"))
		var size int
		for _, c := range bytes.Trim(blk[124:136], " \x00") {
			if c < '0' || c > '7' {
				return nil, fmt.Errorf("tar: size field not octal at %d", off)
			}
			size = size*8 + int(c-'0')
		}
		m := nameClass(name)
		end := off + 512 + size
		padded := off + 512 + (size+511)/512*512
		if padded > len(b) {
			return nil, fmt.Errorf("tar: member %q exceeds the archive", name)
		}
		if !allZero(b[end:padded]) {
			return nil, fmt.Errorf("tar: non-zero padding after %q", name)
		}
		segs = append(segs, Seg{K: "hdr", M: m, B: blk, D: "ok"}, Seg{K: "content", M: m, B: b[off+512 : end], D: "ok"},
			Seg{K: "pad", M: m, B: b[end:padded], D: "ok"})
		off = padded
	}
}

// ParseGz computes the three regions of a single-member gzip file (RFC 1952).
func ParseGz(b []byte) ([]Seg, error) {
	if len(b) < 18 || b[0] != 0x1f || b[1] != 0x8b || b[2] != 8 {
		return nil, fmt.Errorf("gzip: bad magic")
	}
	flg := b[3]
	h := 10
	if flg&4 != 0 {
		h += 2 + int(b[h]) + int(b[h+1])<<8
	}
	for _, bit := range []byte{8, 16} {
		if flg&bit != 0 {
			for b[h] != 0 {
				h++
			}
			h++
		}
	}
	if flg&2 != 0 {
		h += 2
	}
	if h > len(b)-8 {
		return nil, fmt.Errorf("gzip: header exceeds file")
	}
	return []Seg{{K: "gzhdr", M: "-", B: b[:h], D: "ok"}, {K: "deflate", M: "-", B: b[h : len(b)-8], D: "ok"},
		{K: "gztrl", M: "-", B: b[len(b)-8:], D: "ok"}}, nil
}

func Concat(segs []Seg) []byte {
	n := 0
	for _, s := range segs {
		n += len(s.B)
	}
	out := make([]byte, 0, n)
	for _, s := range segs {
		out = append(out, s.B...)
	}
	return out
}

// ---------------------------------------------------------------- base archives

type Base struct {
	ID        string
	Size      int
	Kind      string // random | compressible
	Src       string // verifwrite | new
	NoRestore bool   // metadata with extreme indexes: not fed to the Raft instance
	Payload   []byte
	Meta      raft.SnapshotMeta
	Tar       []Seg  // pristine regions
	Gz        []byte // pristine gzip-wrapped archive as the real writer path produced it
	SumsFirst string // meta | state : order of the lines in SHA256SUMS (Go map order in hashList.Encode)
	digests   map[string][32]byte
}

func (b *Base) Info() map[string]any {
	return map[string]any{"id": b.ID, "size": b.Size, "kind": b.Kind, "src": b.Src, "empty": b.Size == 0, "sums_first": b.SumsFirst,
		"tar_len": len(Concat(b.Tar)), "gz_len": len(b.Gz), "norestore": b.NoRestore}
}

func MakePayload(r *rand.Rand, size int, kind string) []byte {
	p := make([]byte, size)
	if kind == "random" {
		r.Read(p)
		return p
	}
	unit := []byte("consul/kv/service-é/instance-0001 {\"Flags\":0,\"Value\":\"aGVsbG8=\"}\n")
	for i := range p {
		p[i] = unit[i%len(unit)]
	}
	return p
}

// non-ASCII configuration (valid UTF-8; JSON escapes < > & U+2028 U+2029)
func FixedMeta(size int) raft.SnapshotMeta {
	return raft.SnapshotMeta{
		Version: raft.SnapshotVersionMax, ID: "7-1048581-1700000000123-ünï", Index: 1<<40 + 5, Term: 7,
		Peers: []byte{0x93, 0xc3, 0xa9, 0x00, 0xff, 0x7f},
		Configuration: raft.Configuration{Servers: []raft.Server{
			{Suffrage: raft.Voter, ID: "sérvér-1", Address: "10.0.0.1:8300"},
			{Suffrage: raft.Nonvoter, ID: "サーバー2 <&>", Address: "[fe80::1%eth0]:8300"},
			{Suffrage: raft.Staging, ID: "node\u2028sep\"quote\\", Address: "hôte.example:8300"},
		}},
		ConfigurationIndex: 3, Size: int64(size),
	}
}

func ExtremeMeta(size int) raft.SnapshotMeta {
	m := raft.SnapshotMeta{Version: raft.SnapshotVersionMax, ID: strings.Repeat("𝔘", 40), Index: ^uint64(0), Term: ^uint64(0) - 1,
		Peers: nil, ConfigurationIndex: 1<<63 + 1, Size: int64(size)}
	for i := 0; i < 40; i++ {
		m.Configuration.Servers = append(m.Configuration.Servers, raft.Server{Suffrage: raft.ServerSuffrage(i % 3),
			ID: raft.ServerID(fmt.Sprintf("ñ-%d-\t-\u00a0", i)), Address: raft.ServerAddress(fmt.Sprintf("[2001:db8::%x]:8300", i))})
	}
	return m
}

var runes = []rune("abcXYZ019 -_/.:<>&\"\\'\t\u00e9\u00fc\u00a0\u0416\u4e2d\u6587\u2028\u2029\U0001F600\ufffd")

func randString(r *rand.Rand, max int) string {
	n := r.Intn(max + 1)
	out := make([]rune, n)
	for i := range out {
		out[i] = runes[r.Intn(len(runes))]
	}
	return string(out)
}

func RandomMeta(r *rand.Rand, size int) raft.SnapshotMeta {
	m := raft.SnapshotMeta{Version: raft.SnapshotVersionMax, ID: randString(r, 40), Index: uint64(r.Int63n(1 << 50)), Term: uint64(r.Int63n(1 << 30)),
		ConfigurationIndex: uint64(r.Int63n(1 << 50)), Size: int64(size)}
	if r.Intn(3) > 0 {
		m.Peers = make([]byte, r.Intn(60))
		r.Read(m.Peers)
	}
	for i, n := 0, r.Intn(8); i < n; i++ {
		m.Configuration.Servers = append(m.Configuration.Servers, raft.Server{Suffrage: raft.ServerSuffrage(r.Intn(3)),
			ID: raft.ServerID(randString(r, 30)), Address: raft.ServerAddress(randString(r, 30))})
	}
	return m
}

// finish fills the region map and reference digests of a base from its pristine tar bytes
func (b *Base) finish(tarBytes []byte) error {
	segs, err := ParseTar(tarBytes)
	if err != nil {
		return err
	}
	if len(segs) != 10 {
		return fmt.Errorf("base %s: %d regions, want 10", b.ID, len(segs))
	}
	want := []string{"meta", "state", "sums"}
	for j, m := range want {
		if segs[3*j].M != m {
			return fmt.Errorf("base %s: member %d is %s, want %s", b.ID, j+1, segs[3*j].M, m)
		}
	}
	if !bytes.Equal(segs[4].B, b.Payload) {
		return fmt.Errorf("base %s: state.bin region differs from the payload handed to the writer", b.ID)
	}
	b.Tar = segs
	b.digests = map[string][32]byte{"meta.json": sha256.Sum256(segs[1].B), "state.bin": sha256.Sum256(segs[4].B)}
	ls := b.DecodeLines(segs[7].B)
	if len(ls) != 2 || ls[0].Dg != "ok" || ls[1].Dg != "ok" || ls[0].N == ls[1].N || ls[0].N == "x" || ls[1].N == "x" {
		return fmt.Errorf("base %s: SHA256SUMS does not decode to one correct line per member: %q", b.ID, segs[7].B)
	}
	segs[7].Lines = ls
	b.SumsFirst = ls[0].N
	if h := reframeHdr(segs[6].B, len(segs[7].B)); !bytes.Equal(h, segs[6].B) {
		return fmt.Errorf("base %s: cannot reproduce the writer's tar header (size / checksum encoding differs)", b.ID)
	}
	if _, err := ParseGz(b.Gz); err != nil {
		return err
	}
	return nil
}

// NewBase writes a FRESH archive with the real writer: archive.go write() for the tar stream and,
// exactly as snapshot.New does, the same writer behind a gzip.NewWriter for the wrapped form.
// sumsFirst != "" repeats the write until SHA256SUMS has that line order (replay determinism).
func NewBase(id string, payload []byte, kind string, meta raft.SnapshotMeta, sumsFirst string) (*Base, error) {
	b := &Base{ID: id, Size: len(payload), Kind: kind, Src: "verifwrite", Payload: payload, Meta: meta}
	for try := 0; ; try++ {
		var plain, gz bytes.Buffer
		m := meta
		if err := snapshot.VerifWrite(&plain, &m, bytes.NewReader(payload)); err != nil {
			return nil, fmt.Errorf("VerifWrite: %v", err)
		}
		// the gzip form carries the same tar bytes (one write, teed) so that both wraps share the line order
		zw := gzip.NewWriter(&gz)
		if _, err := zw.Write(plain.Bytes()); err != nil {
			return nil, err
		}
		if err := zw.Close(); err != nil {
			return nil, err
		}
		b.Gz = gz.Bytes()
		if err := b.finish(plain.Bytes()); err != nil {
			return nil, err
		}
		if sumsFirst == "" || b.SumsFirst == sumsFirst {
			return b, nil
		}
		if try > 200 {
			return nil, fmt.Errorf("cannot obtain SHA256SUMS order %q", sumsFirst)
		}
	}
}

// ---------------------------------------------------------------- Raft with a recording FSM

type RecFSM struct {
	mu       sync.Mutex
	Restores int
	Last     []byte
	Snap     []byte
}

func (f *RecFSM) Apply(*raft.Log) interface{} { return nil }
func (f *RecFSM) Snapshot() (raft.FSMSnapshot, error) {
	f.mu.Lock()
	defer f.mu.Unlock()
	return recSnap(append([]byte(nil), f.Snap...)), nil
}
func (f *RecFSM) Restore(rc io.ReadCloser) error {
	defer rc.Close()
	b, err := io.ReadAll(rc)
	f.mu.Lock()
	f.Restores++
	f.Last = b
	f.mu.Unlock()
	return err
}
func (f *RecFSM) count() int { f.mu.Lock(); defer f.mu.Unlock(); return f.Restores }

type recSnap []byte

func (s recSnap) Persist(sink raft.SnapshotSink) error {
	if _, err := sink.Write(s); err != nil {
		sink.Cancel()
		return err
	}
	return sink.Close()
}
func (recSnap) Release() {}

type World struct {
	Raft   *raft.Raft
	FSM    *RecFSM
	Snaps  *raft.InmemSnapshotStore
	Log    hclog.Logger
	TmpDir string
	zw     *gzip.Writer
	// Perturb > 0 (self-test of the binding only): every Perturb-th rejection by archive.go read is
	// recorded as if the archive had been accepted with its original content.
	Perturb  int
	rejected int
}

// NewWorld starts a single-server in-memory Raft (non-ASCII server id / address) whose FSM records
// every Restore, and points os.TempDir at tmp so that temp files left by snapshot.Read can be removed.
func NewWorld(tmp string) (*World, error) {
	if err := os.MkdirAll(tmp, 0o755); err != nil {
		return nil, err
	}
	os.Setenv("TMPDIR", tmp)
	w := &World{FSM: &RecFSM{}, Snaps: raft.NewInmemSnapshotStore(), Log: hclog.NewNullLogger(), TmpDir: tmp}
	store := raft.NewInmemStore()
	addr, trans := raft.NewInmemTransport("adresse-ü:8300")
	c := raft.DefaultConfig()
	c.LocalID = "sérveur-✓-1"
	c.HeartbeatTimeout = 50 * time.Millisecond
	c.ElectionTimeout = 50 * time.Millisecond
	c.LeaderLeaseTimeout = 50 * time.Millisecond
	c.CommitTimeout = 2 * time.Millisecond
	c.Logger = w.Log
	c.SnapshotInterval = time.Hour
	c.SnapshotThreshold = 1 << 40
	conf := raft.Configuration{Servers: []raft.Server{{Suffrage: raft.Voter, ID: c.LocalID, Address: addr}}}
	if err := raft.BootstrapCluster(c, store, store, w.Snaps, trans, conf); err != nil {
		return nil, err
	}
	r, err := raft.NewRaft(c, w.FSM, store, store, w.Snaps, trans)
	if err != nil {
		return nil, err
	}
	deadline := time.Now().Add(20 * time.Second)
	for r.State() != raft.Leader {
		if time.Now().After(deadline) {
			return nil, fmt.Errorf("in-memory raft: no leader")
		}
		time.Sleep(5 * time.Millisecond)
	}
	if err := r.Barrier(10 * time.Second).Error(); err != nil {
		return nil, err
	}
	w.Raft = r
	return w, nil
}

func (w *World) Close() {
	if w.Raft != nil {
		w.Raft.Shutdown().Error()
	}
}

// CleanTmp removes what snapshot.Read left behind in the private temp dir (it does not remove
// its scratch file when the archive is rejected).
func (w *World) CleanTmp() int {
	es, _ := os.ReadDir(w.TmpDir)
	for _, e := range es {
		os.Remove(filepath.Join(w.TmpDir, e.Name()))
	}
	return len(es)
}

// NewBaseViaSnapshotNew goes through the public path: snapshot.New on the live in-memory Raft
// (FSM snapshot = payload), metadata as Raft generated it.
func (w *World) NewBaseViaSnapshotNew(id string, payload []byte, kind string) (*Base, error) {
	w.FSM.mu.Lock()
	w.FSM.Snap = payload
	w.FSM.mu.Unlock()
	if err := w.Raft.Apply([]byte("x"), 5*time.Second).Error(); err != nil {
		return nil, err
	}
	s, err := snapshot.New(w.Log, w.Raft)
	if err != nil {
		return nil, fmt.Errorf("snapshot.New: %v", err)
	}
	gz, err := io.ReadAll(s)
	s.Close()
	if err != nil {
		return nil, err
	}
	metas, err := w.Snaps.List()
	if err != nil || len(metas) == 0 {
		return nil, fmt.Errorf("snapshot store has no snapshot: %v", err)
	}
	b := &Base{ID: id, Size: len(payload), Kind: kind, Src: "new", Payload: payload, Meta: *metas[0], Gz: gz}
	zr, err := gzip.NewReader(bytes.NewReader(gz))
	if err != nil {
		return nil, err
	}
	plain, err := io.ReadAll(zr)
	if err != nil {
		return nil, err
	}
	if err := b.finish(plain); err != nil {
		return nil, err
	}
	return b, nil
}

// ---------------------------------------------------------------- faults on bytes

// DecodeLines is the reference decoder of the SHA256SUMS text format ("<64 hex>  <name>\n"),
// independent of archive.go.  Per line: optional white space, a run of hex digits, optional white
// space, one name token; the rest of the line is ignored.  The line is (n, ok) when the name is an
// expected member and the hex run is exactly its saved SHA-256, (n, wrong) when only the name is,
// x otherwise (also for empty / unparseable lines).
func (b *Base) DecodeLines(content []byte) []Line {
	parts := strings.Split(string(content), "\n")
	if parts[len(parts)-1] == "" {
		parts = parts[:len(parts)-1]
	}
	out := make([]Line, 0, len(parts))
	for _, l := range parts {
		rest := strings.TrimLeftFunc(l, unicode.IsSpace)
		h := 0
		for h < len(rest) && strings.IndexByte("0123456789abcdefABCDEF", rest[h]) >= 0 {
			h++
		}
		hexrun := rest[:h]
		rest = strings.TrimLeftFunc(rest[h:], unicode.IsSpace)
		name := rest
		if i := strings.IndexFunc(rest, unicode.IsSpace); i >= 0 {
			name = rest[:i]
		}
		ln := Line{N: nameClass(name), Dg: "wrong", Raw: l}
		if ln.N == "sums" {
			ln.N = "x"
		}
		if ln.N != "x" {
			want := b.digests[name]
			if d, err := hex.DecodeString(hexrun); err == nil && bytes.Equal(d, want[:]) {
				ln.Dg = "ok"
			}
		}
		out = append(out, ln)
	}
	return out
}

func sameLines(a, b []Line) bool {
	if len(a) != len(b) {
		return false
	}
	for i := range a {
		if a[i].N != b[i].N || a[i].Dg != b[i].Dg {
			return false
		}
	}
	return true
}

// LineEffect names the effect of a byte flip on the decoded lines in the spec's terms
// (Archive!SumsFlipFaults): neutral | wrong(j) | x(j) | ok(j) | drop(j); "" = none of these.
func LineEffect(old, neu []Line) (string, int) {
	if sameLines(old, neu) {
		return "neutral", 0
	}
	if len(old) == len(neu) {
		j := -1
		for i := range old {
			if old[i].N != neu[i].N || old[i].Dg != neu[i].Dg {
				if j >= 0 {
					return "", 0
				}
				j = i
			}
		}
		o, n := old[j], neu[j]
		switch {
		case o.N != "x" && n.N == "x":
			return "x", j + 1
		case o.N == n.N && o.Dg == "ok" && n.Dg == "wrong":
			return "wrong", j + 1
		case o.N == n.N && o.Dg == "wrong" && n.Dg == "ok":
			return "ok", j + 1
		}
		return "", 0
	}
	if len(neu) == len(old)-1 {
		for j := 1; j < len(old); j++ {
			if sameLines(append(append([]Line(nil), old[:j]...), old[j+1:]...), neu) {
				return "drop", j + 1
			}
		}
	}
	return "", 0
}

// reframeHdr returns the ustar header with a new size (size field and header checksum re-encoded
// the way archive/tar's Writer does: 11 octal digits + NUL; 6 octal digits + NUL + space).
func reframeHdr(hdr []byte, size int) []byte {
	h := append([]byte(nil), hdr...)
	copy(h[124:136], fmt.Sprintf("%011o\x00", size))
	copy(h[148:156], "        ")
	sum := 0
	for _, c := range h {
		sum += int(c)
	}
	copy(h[148:156], fmt.Sprintf("%06o\x00 ", sum))
	return h
}

var lineXNames = []string{"extra.bin", "META.JSON", "./state.bin", "state.bin.bak", "SHA256SUMS", "méta.json", "sha256sums"}

// NumLineVariants: concrete variants of the line faults addx / addwrong
func NumLineVariants(op string) int {
	switch op {
	case "addx":
		return len(lineXNames)
	case "addwrong":
		return 3
	}
	return 1
}

var memberFile = map[string]string{"meta": "meta.json", "state": "state.bin"}

// wrongLine: a line for member n whose digest is not the saved one: 0 = the OTHER member's digest,
// 1 = all zeros, 2 = the saved digest with the low bit of one hex character changed
func (b *Base) wrongLine(n string, v int) string {
	good := b.digests[memberFile[n]]
	hx := hex.EncodeToString(good[:])
	switch v % 3 {
	case 0:
		o := b.digests[memberFile[map[string]string{"meta": "state", "state": "meta"}[n]]]
		hx = hex.EncodeToString(o[:])
	case 1:
		hx = strings.Repeat("0", 64)
	default:
		for i := 0; i < len(hx); i++ {
			if c := hx[i] ^ 1; strings.IndexByte("0123456789abcdef", c) >= 0 {
				hx = hx[:i] + string(c) + hx[i+1:]
				break
			}
		}
	}
	return hx + "  " + memberFile[n]
}

var xNames = []string{"extra.bin", "META.JSON", "./state.bin", "state.bin.bak", "SHA256SUMS.old", "méta.json", "state.bin ", "sha256sums"}

// NumXVariants: variants of an injected unexpected member (name x {empty, 100-byte, 600-byte content})
func NumXVariants() int { return len(xNames) * 3 }

func xMember(v int) []Seg {
	name := xNames[v%len(xNames)]
	size := []int{0, 100, 600}[(v/len(xNames))%3]
	content := bytes.Repeat([]byte{0x5a}, size)
	var buf bytes.Buffer
	tw := tar.NewWriter(&buf)
	if err := tw.WriteHeader(&tar.Header{Name: name, Mode: 0600, Size: int64(size), Format: tar.FormatGNU}); err != nil {
		panic(err)
	}
	tw.Write(content)
	tw.Flush()
	b := buf.Bytes()
	padded := 512 + (size+511)/512*512
	if len(b) != padded {
		panic(fmt.Sprintf("injected member %q: %d bytes, want %d", name, len(b), padded))
	}
	return []Seg{{K: "hdr", M: "x", B: b[:512], D: "ok"}, {K: "content", M: "x", B: b[512 : 512+size], D: "ok"}, {K: "pad", M: "x", B: b[512+size : padded], D: "ok"}}
}

// Arch is the concrete archive during fault application (mirrors the spec's record `a`).
type Arch struct {
	Wrap    string
	Tar     []Seg
	Gz      []Seg // nil until the first gzip-level fault
	Trunc   bool
	GzPhase bool
	tarHit  bool // a tar-level fault was applied: the gzip form must be re-wrapped
}

func (w *World) rewrap(plain []byte) []byte {
	var out bytes.Buffer
	out.Grow(len(plain)/2 + 256)
	if w.zw == nil {
		w.zw, _ = gzip.NewWriterLevel(&out, gzip.BestSpeed)
	} else {
		w.zw.Reset(&out)
	}
	w.zw.Write(plain)
	w.zw.Close()
	return out.Bytes()
}

// GzBytes is the gzip-wrapped file of the current tar regions: the real writer's output while the
// tar stream is untouched, otherwise a valid gzip member around the faulted tar bytes.
func (w *World) GzBytes(b *Base, a *Arch) []byte {
	if !a.tarHit {
		return b.Gz
	}
	return w.rewrap(Concat(a.Tar))
}

func Start(b *Base, wrap string) *Arch {
	return &Arch{Wrap: wrap, Tar: append([]Seg(nil), b.Tar...)}
}

func checkLabel(f Fault, s Seg) error {
	if s.K != f.K || s.M != f.M {
		return Drift{fmt.Sprintf("fault %s #%d addresses (%s,%s) in the spec but (%s,%s) in the archive", f.T, f.I, f.K, f.M, s.K, s.M)}
	}
	return nil
}

// RegionLen returns the length of the region a flip / cut-inside fault addresses (after ensuring
// the gzip form exists for gzip-level faults).
func (w *World) Region(b *Base, a *Arch, f Fault) (*Seg, error) {
	switch f.T {
	case "flip", "truncin":
		if f.I < 1 || f.I > len(a.Tar) {
			return nil, Drift{"tar region index out of range"}
		}
		return &a.Tar[f.I-1], checkLabel(f, a.Tar[f.I-1])
	case "gzflip", "gztruncin":
		if err := w.ensureGz(b, a); err != nil {
			return nil, err
		}
		if f.I < 1 || f.I > len(a.Gz) {
			return nil, Drift{"gz region index out of range"}
		}
		return &a.Gz[f.I-1], checkLabel(f, a.Gz[f.I-1])
	}
	return nil, nil
}

func (w *World) ensureGz(b *Base, a *Arch) error {
	if a.Gz != nil {
		return nil
	}
	g, err := ParseGz(w.GzBytes(b, a))
	if err != nil {
		return err
	}
	a.Gz = g
	return nil
}

func nmembers(a *Arch) int { return (len(a.Tar) - 1) / 3 }

// Apply is Archive!Apply on bytes.
func (w *World) Apply(b *Base, a *Arch, f Fault, p P) error {
	tarLevel := !strings.HasPrefix(f.T, "gz")
	if tarLevel && a.GzPhase {
		return Drift{"tar-level fault after a gzip-level fault"}
	}
	if !tarLevel && a.Wrap != "gz" {
		return Drift{"gzip-level fault on a plain archive"}
	}
	structural := f.T == "remove" || f.T == "reorder" || f.T == "inject" || f.T == "sumsline"
	if structural && a.Trunc {
		return Drift{"structural fault after a truncation"}
	}
	if tarLevel {
		a.tarHit = true
	}
	switch f.T {
	case "flip", "gzflip":
		s, err := w.Region(b, a, f)
		if err != nil {
			return err
		}
		if s.D == "cut" || p.Pos < 0 || p.Pos >= len(s.B) || p.Pat&0xff == 0 {
			return Drift{"flip not enabled / bad parameter"}
		}
		nb := append([]byte(nil), s.B...)
		nb[p.Pos] ^= byte(p.Pat)
		s.B = nb
		if f.T == "flip" && s.K == "content" && s.M == "sums" {
			neu := b.DecodeLines(nb)
			fx, j := LineEffect(s.Lines, neu)
			if fx == "" || fx != f.Fx || j != f.Src {
				return Drift{fmt.Sprintf("SHA256SUMS flip labelled %s(%d) has effect %q(%d)", f.Fx, f.Src, fx, j)}
			}
			s.Lines = neu
			if fx != "neutral" {
				s.D = "flip"
			} else if s.D == "ok" {
				s.D = "neutral"
			}
		} else {
			s.D = "flip"
		}
		if f.T == "gzflip" {
			a.GzPhase = true
		}
	case "truncin", "gztruncin":
		s, err := w.Region(b, a, f)
		if err != nil {
			return err
		}
		if s.D == "cut" || p.Keep < 1 || p.Keep >= len(s.B) {
			return Drift{"cut inside region not enabled / bad parameter"}
		}
		s.B = s.B[:p.Keep]
		s.D = "cut"
		if f.T == "truncin" {
			a.Tar = a.Tar[:f.I]
			a.Trunc = true
		} else {
			a.Gz = a.Gz[:f.I]
			a.GzPhase = true
		}
	case "sumsline":
		if f.I < 2 || f.I >= len(a.Tar) {
			return Drift{"sumsline: region index"}
		}
		s := &a.Tar[f.I-1]
		if err := checkLabel(f, *s); err != nil {
			return err
		}
		if s.D != "ok" || a.Tar[f.I-2].D != "ok" || a.Tar[f.I].D != "ok" || a.Tar[f.I-2].K != "hdr" || a.Tar[f.I].K != "pad" {
			return Drift{"sumsline: member not intact"}
		}
		ls := append([]Line(nil), s.Lines...)
		j := f.Src - 1
		need := func(ok bool) error {
			if !ok {
				return Drift{"sumsline: line index"}
			}
			return nil
		}
		switch f.Fx {
		case "dup":
			if err := need(j >= 0 && j < len(ls)); err != nil {
				return err
			}
			ls = append(ls[:j+1], append([]Line{ls[j]}, ls[j+1:]...)...)
		case "copy", "swap":
			if err := need(len(f.Perm) == 1 && j >= 0 && j < len(ls) && f.Perm[0] >= 1 && f.Perm[0] <= len(ls)); err != nil {
				return err
			}
			k := f.Perm[0] - 1
			if f.Fx == "copy" {
				ls[j] = ls[k]
			} else {
				ls[j], ls[k] = ls[k], ls[j]
			}
		case "drop":
			if err := need(j >= 0 && j < len(ls)); err != nil {
				return err
			}
			ls = append(ls[:j], ls[j+1:]...)
		case "addx":
			ls = append(ls, Line{N: "x", Dg: "wrong", Raw: strings.Repeat("5a", 32) + "  " + lineXNames[p.Var%len(lineXNames)]})
		case "addwrong":
			if err := need(j >= 0 && j < len(ls) && ls[j].N != "x"); err != nil {
				return err
			}
			ls = append(ls, Line{N: ls[j].N, Dg: "wrong", Raw: b.wrongLine(ls[j].N, p.Var)})
		default:
			return Drift{"sumsline: unknown op " + f.Fx}
		}
		var txt []byte
		for _, l := range ls {
			txt = append(txt, l.Raw...)
			txt = append(txt, '\n')
		}
		if got := b.DecodeLines(txt); !sameLines(got, ls) {
			return Drift{fmt.Sprintf("sumsline %s: text decodes differently from the abstract lines", f.Fx)}
		}
		s.B, s.Lines = txt, ls
		a.Tar[f.I-2].B = reframeHdr(a.Tar[f.I-2].B, len(txt))
		a.Tar[f.I].B = make([]byte, (512-len(txt)%512)%512)
	case "truncat":
		if f.I < 0 || f.I >= len(a.Tar) {
			return Drift{"truncat index"}
		}
		if err := checkLabel(f, a.Tar[f.I]); err != nil {
			return err
		}
		a.Tar = a.Tar[:f.I]
		a.Trunc = true
	case "gztruncat":
		if err := w.ensureGz(b, a); err != nil {
			return err
		}
		if f.I < 0 || f.I >= len(a.Gz) {
			return Drift{"gztruncat index"}
		}
		if err := checkLabel(f, a.Gz[f.I]); err != nil {
			return err
		}
		a.Gz = a.Gz[:f.I]
		a.GzPhase = true
	case "remove":
		if f.I < 1 || f.I > nmembers(a) || a.Tar[3*f.I-3].M != f.M {
			return Drift{"remove: member index / name"}
		}
		a.Tar = append(append([]Seg(nil), a.Tar[:3*f.I-3]...), a.Tar[3*f.I:]...)
	case "reorder":
		n := nmembers(a)
		if len(f.Perm) != n {
			return Drift{"reorder: permutation length"}
		}
		nt := make([]Seg, 0, len(a.Tar))
		for _, j := range f.Perm {
			if j < 1 || j > n {
				return Drift{"reorder: permutation entry"}
			}
			nt = append(nt, a.Tar[3*j-3:3*j]...)
		}
		a.Tar = append(nt, a.Tar[len(a.Tar)-1])
	case "inject":
		n := nmembers(a)
		if f.I < 1 || f.I > n+1 || f.Src < 0 || f.Src > n {
			return Drift{"inject: index"}
		}
		var g []Seg
		if f.Src == 0 {
			if f.M != "x" {
				return Drift{"inject: label"}
			}
			g = xMember(p.Var)
		} else {
			if a.Tar[3*f.Src-3].M != f.M {
				return Drift{"inject: source label"}
			}
			g = append([]Seg(nil), a.Tar[3*f.Src-3:3*f.Src]...)
		}
		nt := append([]Seg(nil), a.Tar[:3*f.I-3]...)
		nt = append(nt, g...)
		a.Tar = append(nt, a.Tar[3*f.I-3:]...)
	default:
		return Drift{"unknown fault " + f.T}
	}
	return nil
}

// ---------------------------------------------------------------- calling the real code

func MetaEqual(a, b *raft.SnapshotMeta) bool {
	if a.Version != b.Version || a.ID != b.ID || a.Index != b.Index || a.Term != b.Term || !bytes.Equal(a.Peers, b.Peers) ||
		a.ConfigurationIndex != b.ConfigurationIndex || a.Size != b.Size || len(a.Configuration.Servers) != len(b.Configuration.Servers) {
		return false
	}
	for i, s := range a.Configuration.Servers {
		if s != b.Configuration.Servers[i] {
			return false
		}
	}
	return true
}

// Obs is what the real code did with one faulted archive, per entry point:
// rejected | same | different | "" (not called)
type Obs struct {
	VerifRead, Verify, Read, Restore string
	FsmCalls                         int  // FSM.Restore invocations during snapshot.Restore
	FsmAfterReject                   bool // FSM.Restore reached although snapshot.Restore returned an error
	FsmDiff                          bool // bytes handed to FSM.Restore differ from the original state
	TmpLeaked                        int
	Errs                             map[string]string // error texts, informational only (never compared)
}

func kind(err error, stateSame, metaSame bool) string {
	if err != nil {
		return "rejected"
	}
	if stateSame && metaSame {
		return "same"
	}
	return "different"
}

// Run calls the real readers on the current bytes of the archive.
func (w *World) Run(b *Base, a *Arch) (Obs, []byte) {
	o := Obs{Errs: map[string]string{}}
	note := func(api string, err error) {
		if err != nil {
			o.Errs[api] = err.Error()
		}
	}
	if a.Wrap == "plain" {
		data := Concat(a.Tar)
		var m raft.SnapshotMeta
		var out bytes.Buffer
		err := snapshot.VerifRead(bytes.NewReader(data), &m, &out)
		note("verifread", err)
		o.VerifRead = kind(err, bytes.Equal(out.Bytes(), b.Payload), MetaEqual(&m, &b.Meta))
		if err != nil && w.Perturb > 0 {
			if w.rejected++; w.rejected%w.Perturb == 0 {
				o.VerifRead = "same"
			}
		}
		return o, data
	}
	var data []byte
	if a.Gz != nil {
		data = Concat(a.Gz)
	} else {
		data = w.GzBytes(b, a)
	}
	// snapshot.Verify (consul snapshot save / inspect)
	m, err := snapshot.Verify(bytes.NewReader(data))
	note("verify", err)
	if err != nil {
		o.Verify = "rejected"
	} else {
		o.Verify = kind(nil, true, MetaEqual(m, &b.Meta))
	}
	// snapshot.Read (extracts state.bin into a temp file)
	f, m2, err := snapshot.Read(w.Log, bytes.NewReader(data))
	note("read", err)
	if err != nil {
		o.Read = "rejected"
	} else {
		got, rerr := io.ReadAll(f)
		f.Close()
		os.Remove(f.Name())
		o.Read = kind(rerr, bytes.Equal(got, b.Payload), MetaEqual(m2, &b.Meta))
	}
	// snapshot.Restore against the live Raft; the FSM records whether the Raft restore was reached
	if !b.NoRestore {
		before := w.FSM.count()
		err = snapshot.Restore(w.Log, bytes.NewReader(data), w.Raft)
		note("restore", err)
		o.FsmCalls = w.FSM.count() - before
		if err != nil {
			o.Restore = "rejected"
			o.FsmAfterReject = o.FsmCalls > 0
		} else {
			w.FSM.mu.Lock()
			same := o.FsmCalls == 1 && bytes.Equal(w.FSM.Last, b.Payload)
			w.FSM.mu.Unlock()
			o.Restore = kind(nil, same, true)
			o.FsmDiff = !same
		}
	}
	o.TmpLeaked = w.CleanTmp()
	return o, data
}

// ---------------------------------------------------------------- candidates

type Tier struct {
	Pats       []int
	SumsPats   []int // additional patterns inside SHA256SUMS (hex letter case, LF -> other white space)
	Exhaust    int // regions up to this length get every byte position
	Stride     int // number of strided positions in larger regions
	PairK      int // position pairs per two-fault scenario and base
	PairBases  int // bases per two-fault scenario (0 = all)
	GzTarEvery int // single tar-level faults inside the gzip wrap: every n-th candidate (plain gets all)
}

var Quick = Tier{Pats: []int{0x01, 0x80, 0xff}, SumsPats: []int{0x20, 0x07}, Exhaust: 4096, Stride: 96, PairK: 3, PairBases: 1, GzTarEvery: 12}
var Thorough = Tier{Pats: []int{0x01, 0x80, 0xff, 0x20, 0x10, 0x55}, SumsPats: []int{0x07, 0x2a, 0x03, 0x06}, Exhaust: 4096, Stride: 512, PairK: 12, PairBases: 6, GzTarEvery: 1}

func positions(n int, t Tier, r *rand.Rand, lo int) []int {
	// positions lo..n-1 ; every one for small regions, boundaries +-3 and a seeded stride for large
	var out []int
	if n-lo <= t.Exhaust {
		for i := lo; i < n; i++ {
			out = append(out, i)
		}
		return out
	}
	seen := map[int]bool{}
	add := func(i int) {
		if i >= lo && i < n && !seen[i] {
			seen[i] = true
			out = append(out, i)
		}
	}
	for d := 0; d < 4; d++ {
		add(lo + d)
		add(n - 1 - d)
	}
	for _, blk := range []int{512, 1024, 32768, 65536} { // block / window boundaries +-2
		for d := -2; d <= 2; d++ {
			add(blk + d)
		}
	}
	step := (n - lo) / t.Stride
	off := r.Intn(step)
	for i := lo + off; i < n; i += step {
		add(i)
	}
	return out
}

// Candidates enumerates the concrete parameters of fault f on the current archive.
// For flips of the SHA256SUMS content only the parameters whose effect (reference decoder)
// matches the scenario's fx are returned.
func (w *World) Candidates(b *Base, a *Arch, f Fault, t Tier, r *rand.Rand) ([]P, error) {
	switch f.T {
	case "flip", "gzflip":
		s, err := w.Region(b, a, f)
		if err != nil {
			return nil, err
		}
		var out []P
		sums := f.T == "flip" && s.K == "content" && s.M == "sums"
		var probe []byte
		if sums {
			probe = append([]byte(nil), s.B...)
		}
		pats := t.Pats
		if sums {
			pats = append(append([]int(nil), t.Pats...), t.SumsPats...)
		}
		for _, pos := range positions(len(s.B), t, r, 0) {
			for _, pat := range pats {
				if sums {
					probe[pos] ^= byte(pat)
					fx, j := LineEffect(s.Lines, b.DecodeLines(probe))
					probe[pos] = s.B[pos]
					if fx != f.Fx || j != f.Src {
						continue
					}
				}
				out = append(out, P{Pos: pos, Pat: pat})
			}
		}
		return out, nil
	case "truncin", "gztruncin":
		s, err := w.Region(b, a, f)
		if err != nil {
			return nil, err
		}
		var out []P
		for _, k := range positions(len(s.B), t, r, 1) {
			out = append(out, P{Keep: k})
		}
		return out, nil
	case "sumsline":
		out := make([]P, NumLineVariants(f.Fx))
		for i := range out {
			out[i] = P{Var: i}
		}
		return out, nil
	case "inject":
		if f.Src == 0 {
			out := make([]P, NumXVariants())
			for i := range out {
				out[i] = P{Var: i}
			}
			return out, nil
		}
	}
	return []P{{}}, nil
}

// ---------------------------------------------------------------- JSON helpers

func MustJSON(v any) []byte {
	b, err := json.Marshal(v)
	if err != nil {
		panic(err)
	}
	return b
}
