// Package replh executes one replication round of the real consul code for property C19.
//
// A case is an abstract pair (secondary, primary) of object sets plus a lastRemoteIndex. For the
// case the package
//   - populates a REAL primary state store and a REAL secondary state store (through fsm.FSM.Apply,
//     i.e. msgpack + the real batch set commands) with real objects whose content really differs,
//   - builds the remote listing the way the primary's list endpoints do (store list, Stub()),
//   - calls the REAL diff (diffACLType over the real aclTypeReplicator implementations,
//     diffConfigEntries, FederationStateReplicator.DiffRemoteAndLocalState),
//   - applies the returned deletions and upserts to the secondary with the same raft commands the
//     replicators submit (deletions first, then upserts),
//   - projects inputs, diff and resulting state back to abstract objects.
//
// It decides nothing: spec/ReplDiffTrace.tla judges the recorded event.
package replh

import (
	"crypto/sha1"
	"encoding/hex"
	"encoding/json"
	"fmt"
	"io"
	"math/rand"
	"sort"
	"strings"
	"sync"
	"time"

	"github.com/hashicorp/go-hclog"
	"github.com/hashicorp/raft"

	"github.com/hashicorp/consul/agent/consul"
	"github.com/hashicorp/consul/agent/consul/fsm"
	"github.com/hashicorp/consul/agent/consul/state"
	"github.com/hashicorp/consul/agent/structs"
)

// Obj is the abstract object of spec/ReplDiff.tla.
type Obj struct {
	ID int    `json:"id"` // 0 = empty identifier
	MI uint64 `json:"mi"`
	C  int    `json:"c"`
	H  int    `json:"h"` // 0 = no hash
	LO bool   `json:"lo"`
	// PMI is the primary modify index a federation state of the secondary remembers (0 for everything else)
	PMI uint64 `json:"pmi"`
}

// Fault is a fault of the fetch-updated step of an ACL round: the batch read is answered by a lagging server of
// the primary that still has an OLDER version of one listed object (stale, content OC) or does not have it at all
// (omit; Mod = the object was modified after its creation, so its listed modify index differs from its create index).
type Fault struct {
	T   string `json:"t"` // none | stale | omit
	ID  int    `json:"id"`
	OC  int    `json:"oc"`
	Mod bool   `json:"mod"`
}

// Case is the abstract input: mi/last are abstract (small) numbers, scaled by IndexScale.
type Case struct {
	Typ   string `json:"typ"`  // policy | role | token | config | fed
	Kind  string `json:"kind"` // acl | config | fed
	Last  uint64 `json:"last"`
	Sec   []Obj  `json:"sec"`   // everything stored in the secondary (ids # 0)
	InL   []Obj  `json:"inL"`   // local listing order; entries with id 0 are legacy entries injected into the listing
	InR   []Obj  `json:"inR"`   // remote listing in arrival order (id 0 = legacy entries of the primary)
	Order string `json:"order"` // config/fed: "given" = feed the local listing in InL order (standalone diff only), else store order
	Seed  int64  `json:"seed"`  // permutation of the listings the primary returns during the real round
	// Back: the primary's index went backwards (it was rebuilt / restored from an older snapshot): its table index
	// stays below lastRemoteIndex, no Consistent assumption holds
	Back  bool  `json:"back"`
	Fault Fault `json:"fault"`
}

// Cmd is one raft command the real round submitted to the secondary.
type Cmd struct {
	Op  string `json:"op"` // delete | upsert
	IDs []int  `json:"ids"`
	OK  bool   `json:"ok"` // accepted by the FSM
}

// Event is what the real code did.
type Event struct {
	Typ    string `json:"typ"`
	Kind   string `json:"kind"`
	Last   uint64 `json:"last"`
	Pre    []Obj  `json:"pre"`
	InL    []Obj  `json:"inL"`
	InR    []Obj  `json:"inR"`
	Dels   []int  `json:"dels"`
	Ups    []int  `json:"ups"`
	LSkip  int    `json:"lskip"`
	RSkip  int    `json:"rskip"`
	Post   []Obj  `json:"post"`
	Err    string `json:"err"` // none | diff | stale | apply-delete | apply-upsert | setup
	ErrMsg string `json:"errmsg"`
	// ErrClass names the reason of a rejected write for the finding signature only (never for a verdict):
	// unique-name | graph-validation | other
	ErrClass string `json:"errclass"`
	Writes   int    `json:"writes"` // raft commands submitted to the secondary
	Cmds     []Cmd  `json:"cmds"`   // ... in submission order, recorded from the real round
	RIdx     uint64 `json:"ridx"`   // index the real round returned
	PIdx     uint64 `json:"pidx"`   // index of the primary's table, i.e. the remote index the round sees
	Fault    Fault  `json:"fault"`
	Shape    string `json:"shape"` // none | stale | omit-new | omit-modified
	// after a round with a fetch fault: a second, fault-free real round started from what the first one returned
	Last2 uint64 `json:"last2"`
	Err2  string `json:"err2"`
	RIdx2 uint64 `json:"ridx2"`
	Post2 []Obj  `json:"post2"`
	Case  Case   `json:"case"`
}

// Perturb, when set (h-repl -perturb, used only by the self-test of the check), corrupts what the
// real diff returned before it is recorded and applied: "drop-upsert" forgets the last upsert,
// "drop-delete" forgets the last deletion. It demonstrates that a wrong diff is rejected.
var Perturb string

func perturbIDs(dels, ups []string) ([]string, []string) {
	switch Perturb {
	case "drop-upsert":
		if len(ups) > 0 {
			ups = ups[:len(ups)-1]
		}
	case "drop-delete":
		if len(dels) > 0 {
			dels = dels[:len(dels)-1]
		}
	}
	return dels, ups
}

// IndexScale spreads abstract modify indexes so that every primary write has its own raft index:
// the j-th object written with abstract index mi gets mi*IndexScale+j; abstract last becomes
// last*IndexScale+IndexScale-1.
const IndexScale = 100

var baseTime = time.Date(2024, 1, 2, 3, 4, 5, 0, time.UTC)

func NewFSM() *fsm.FSM {
	logger := hclog.New(&hclog.LoggerOptions{Output: io.Discard, Level: hclog.Off})
	return fsm.NewFromDeps(fsm.Deps{
		Logger:         logger,
		NewStateStore:  func() *state.Store { return state.NewStateStore(nil) },
		StorageBackend: fsm.NullStorageBackend,
	})
}

func apply(f *fsm.FSM, t structs.MessageType, req any, idx uint64) (err error) {
	defer func() {
		if r := recover(); r != nil {
			err = fmt.Errorf("panic in FSM.Apply: %v", r)
		}
	}()
	if idx == 0 {
		return nil
	}
	buf, err := structs.Encode(t, req)
	if err != nil {
		return err
	}
	raw := f.Apply(&raft.Log{Index: idx, Data: buf, Type: raft.LogCommand})
	if e, ok := raw.(error); ok && e != nil {
		return e
	}
	return nil
}

// ---------------------------------------------------------------- identifiers

func aclID(k int) string {
	if k == 0 {
		return ""
	}
	return fmt.Sprintf("a0000000-0000-4000-8000-%012d", k)
}
func secretID(k int) string { return fmt.Sprintf("5ec4e700-0000-4000-8000-%012d", k) }

const linkPolicyID = "b0000000-0000-4000-8000-000000000001"

// config entry universe, in (kind, name) order: 1 proxy-defaults/global, 2..7 service-defaults/a..f,
// 8..13 service-resolver/a..f
type kindName struct{ kind, name string }

var cfgUniverse = func() []kindName {
	u := []kindName{{structs.ProxyDefaults, structs.ProxyConfigGlobal}}
	for _, k := range []string{structs.ServiceDefaults, structs.ServiceResolver} {
		for _, n := range []string{"a", "b", "c", "d", "e", "f"} {
			u = append(u, kindName{k, n})
		}
	}
	if !sort.SliceIsSorted(u, func(i, j int) bool {
		return u[i].kind < u[j].kind || (u[i].kind == u[j].kind && u[i].name < u[j].name)
	}) {
		panic("config universe not in key order")
	}
	return u
}()

func cfgKey(k int) kindName { return cfgUniverse[k-1] }
func cfgIDOf(kind, name string) int {
	for i, kn := range cfgUniverse {
		if kn.kind == kind && kn.name == name {
			return i + 1
		}
	}
	return -1
}
func fedDC(k int) string { return fmt.Sprintf("dc%02d", k) }

var (
	aclRev = map[string]int{}
	fedRev = map[string]int{}
)

func init() {
	for k := 1; k <= 99; k++ {
		aclRev[aclID(k)] = k
		fedRev[fedDC(k)] = k
	}
	aclRev[""] = 0
}

func revACL(id string) int {
	if k, ok := aclRev[id]; ok {
		return k
	}
	return -1
}
func revFed(dc string) int {
	if k, ok := fedRev[dc]; ok {
		return k
	}
	return -1
}

// ---------------------------------------------------------------- content

// digest of the content of a real object: its JSON form without hash and raft indexes.
func digest(v any) string {
	b, err := json.Marshal(v)
	if err != nil {
		panic(err)
	}
	var m map[string]any
	if err := json.Unmarshal(b, &m); err != nil {
		panic(err)
	}
	for _, k := range []string{"Hash", "CreateIndex", "ModifyIndex", "PrimaryModifyIndex"} {
		delete(m, k)
	}
	b, _ = json.Marshal(m) // map keys are sorted
	s := sha1.Sum(b)
	return hex.EncodeToString(s[:])
}

var (
	contentMu sync.RWMutex
	contentOf = map[string]int{} // digest -> abstract content
)

func register(v any, c int) {
	d := digest(v)
	contentMu.Lock()
	contentOf[d] = c
	contentMu.Unlock()
}
func contentClass(v any) int {
	d := digest(v)
	contentMu.RLock()
	defer contentMu.RUnlock()
	if c, ok := contentOf[d]; ok {
		return c
	}
	return -1
}

func mkPolicy(k, c int) *structs.ACLPolicy {
	p := &structs.ACLPolicy{ID: aclID(k), Name: fmt.Sprintf("pol-%02d", k), Description: "base",
		Rules: `key_prefix "" { policy = "read" }`}
	switch c {
	case 1:
	case 2:
		p.Description = "changed"
	case 3:
		p.Rules = `key_prefix "" { policy = "write" }`
	case 4:
		p.Datacenters = []string{"dc1"}
	case 5:
		p.Name += "-renamed"
	case 6:
		p.Datacenters = []string{"dc1", "dc2"}
	case 7:
		p.Name = "shared-name" // a name that moves from one policy to another (unique per datacenter)
	case 8: // 8 and 9 differ in Name and Description but not in Name+Description
		p.Description = "xbase"
	case 9:
		p.Name += "x"
	default:
		p.Description = fmt.Sprintf("variant-%d", c)
	}
	p.SetHash(true) // as ACL.PolicySet does before the raft apply
	register(p, c)
	return p
}

func mkRole(k, c int) *structs.ACLRole {
	r := &structs.ACLRole{ID: aclID(k), Name: fmt.Sprintf("role-%02d", k), Description: "base"}
	switch c {
	case 1:
	case 2:
		r.Description = "changed"
	case 3:
		r.ServiceIdentities = structs.ACLServiceIdentities{{ServiceName: "web"}}
	case 4:
		r.NodeIdentities = structs.ACLNodeIdentities{{NodeName: "n1", Datacenter: "dc1"}}
	case 5:
		r.Name += "-renamed"
	case 6:
		r.Policies = []structs.ACLRolePolicyLink{{ID: linkPolicyID}}
	case 7:
		r.Name = "shared-name" // a name that moves from one role to another (unique per datacenter)
	case 8: // 8 and 9 differ in Name and Description but not in Name+Description
		r.Description = "xbase"
	case 9:
		r.Name += "x"
	default:
		r.Description = fmt.Sprintf("variant-%d", c)
	}
	r.SetHash(true)
	return r
}

func mkToken(k, c int, local bool) *structs.ACLToken {
	t := &structs.ACLToken{AccessorID: aclID(k), SecretID: secretID(k), Description: "base", Local: local, CreateTime: baseTime}
	switch c {
	case 1:
	case 2:
		t.Description = "changed"
	case 3:
		t.ServiceIdentities = structs.ACLServiceIdentities{{ServiceName: "web"}}
	case 4:
		t.NodeIdentities = structs.ACLNodeIdentities{{NodeName: "n1", Datacenter: "dc1"}}
	case 5:
		t.Policies = []structs.ACLTokenPolicyLink{{ID: linkPolicyID}}
	case 6:
		t.ServiceIdentities = structs.ACLServiceIdentities{{ServiceName: "web", Datacenters: []string{"dc2"}}}
	default:
		t.Description = fmt.Sprintf("variant-%d", c)
	}
	t.SetHash(true)
	return t
}

func u32(v uint32) *uint32 { return &v }

func mkConfig(k, c int, unhashed bool) structs.ConfigEntry {
	kn := cfgKey(k)
	var e structs.ConfigEntry
	switch kn.kind {
	case structs.ProxyDefaults:
		p := &structs.ProxyConfigEntry{Kind: kn.kind, Name: kn.name, Config: map[string]interface{}{"k": "base"}}
		switch c {
		case 1:
		case 2:
			p.Meta = map[string]string{"v": "2"}
		case 3:
			p.Config = map[string]interface{}{"k": "changed"}
		case 4:
			p.Mode = structs.ProxyModeTransparent
		case 5:
			p.MeshGateway = structs.MeshGatewayConfig{Mode: structs.MeshGatewayModeLocal}
		case 6:
			p.Expose = structs.ExposeConfig{Checks: true}
		default:
			p.Meta = map[string]string{"v": fmt.Sprint(c)}
		}
		e = p
	case structs.ServiceDefaults:
		s := &structs.ServiceConfigEntry{Kind: kn.kind, Name: kn.name, Protocol: "tcp"}
		switch c {
		case 1:
		case 2:
			s.Meta = map[string]string{"v": "2"}
		case 3:
			s.MaxInboundConnections = 3
		case 4:
			s.BalanceInboundConnections = "exact_balance"
		case 7:
			s.ExternalSNI = "sni.example" // excludes subsets on the resolver of the same service
		case 5:
			s.LocalConnectTimeoutMs = 5000
		case 6:
			s.MaxRequestHeadersKB = u32(96)
		default:
			s.Meta = map[string]string{"v": fmt.Sprint(c)}
		}
		e = s
	default:
		r := &structs.ServiceResolverConfigEntry{Kind: kn.kind, Name: kn.name, ConnectTimeout: time.Second}
		switch c {
		case 1:
		case 2:
			r.Meta = map[string]string{"v": "2"}
		case 3:
			r.ConnectTimeout = 3 * time.Second
		case 4:
			r.RequestTimeout = 4 * time.Second
		case 5:
			r.Subsets = map[string]structs.ServiceResolverSubset{"v1": {Filter: "Service.Meta.version == v1"}}
		case 6:
			r.Subsets = map[string]structs.ServiceResolverSubset{"v1": {OnlyPassing: true}}
			r.DefaultSubset = "v1"
		default:
			r.Meta = map[string]string{"v": fmt.Sprint(c)}
		}
		e = r
	}
	// as ConfigEntry.Apply does before the raft apply (this computes the hash)
	if err := e.Normalize(); err != nil {
		panic(err)
	}
	if err := e.Validate(); err != nil {
		panic(err)
	}
	if unhashed {
		e.SetHash(0) // an entry written before hashes existed
	}
	register(e, c)
	return e
}

func mkFed(k, c int) *structs.FederationState {
	s := &structs.FederationState{Datacenter: fedDC(k), UpdatedAt: baseTime.Add(time.Duration(c) * time.Hour)}
	if c%2 == 0 {
		s.MeshGateways = structs.CheckServiceNodes{{
			Node:    &structs.Node{Node: "gw", Address: fmt.Sprintf("10.0.0.%d", c), Datacenter: fedDC(k)},
			Service: &structs.NodeService{ID: "mgw", Service: "mgw", Kind: structs.ServiceKindMeshGateway, Port: 443},
		}}
	}
	register(s, c)
	return s
}

// hashes of one event: 0 = absent, otherwise numbered in order of first appearance
type hashTab map[string]int

func (h hashTab) of(b []byte) int {
	if len(b) == 0 {
		return 0
	}
	k := string(b)
	if v, ok := h[k]; ok {
		return v
	}
	h[k] = len(h) + 1
	return h[k]
}
func (h hashTab) ofU64(v uint64) int {
	if v == 0 {
		return 0
	}
	return h.of([]byte(fmt.Sprintf("%016x", v)))
}

// ---------------------------------------------------------------- one round

type round struct {
	lag     *fsm.FSM // lagging server of the primary that answers the batch read (fetch fault), nil = none
	node    *consul.VerifReplNode
	c       Case
	pri     *fsm.FSM
	sec     *fsm.FSM
	ht      hashTab
	ev      *Event
	secIdx  uint64
	legacyC map[string]int // hash (string) of a legacy entry -> abstract content
}

func scaleLast(last uint64) uint64 { return last*IndexScale + IndexScale - 1 }

// sorted copy by (mi, position) so that primary writes happen in index order
func writeOrder(objs []Obj) []Obj {
	out := append([]Obj(nil), objs...)
	sort.SliceStable(out, func(i, j int) bool { return out[i].MI < out[j].MI })
	return out
}

func (r *round) nextSecIdx() uint64 { r.secIdx++; return r.secIdx }

// bumpIndex: index of the unrelated write that lifts the primary's table index to at least lastRemoteIndex; when the
// primary's index went backwards there is no such write.
func (r *round) bumpIndex() uint64 {
	if r.c.Back {
		return 0 // apply() skips index 0
	}
	idx := r.ev.Last
	for j, o := range writeOrder(r.c.InR) {
		if o.ID != 0 && remoteMI(o.MI, j+1) > idx {
			idx = remoteMI(o.MI, j+1) // the unrelated write is the latest one, indexes only grow
		}
	}
	return idx
}

// oldVersionIndex is the index at which the earlier version of the faulted object was created.
func oldVersionIndex(id int) uint64 { return uint64(5 + id) }

// primaryWrites says, for the remote object o, which versions to write where:
// old = content of an earlier version created at oldVersionIndex (0 = none), lagHasOld / lagHasNew = what the lagging
// server holds.
func (r *round) primaryWrites(o Obj) (old int, lagHasOld, lagHasNew bool) {
	f := r.c.Fault
	if f.T == "none" || f.T == "" || f.ID != o.ID {
		return 0, false, true
	}
	switch f.T {
	case "stale":
		return f.OC, true, false
	default: // omit
		if f.Mod {
			return f.OC, false, false
		}
		return 0, false, false
	}
}

func (r *round) faultShape() string {
	switch f := r.c.Fault; {
	case f.T == "stale":
		return "stale"
	case f.T == "omit" && f.Mod:
		return "omit-modified"
	case f.T == "omit":
		return "omit-new"
	}
	return "none"
}

func ids(l []int) []int {
	if l == nil {
		return []int{}
	}
	return l
}

// Run executes one case against the real code.
func Run(node *consul.VerifReplNode, c Case) (ev *Event) {
	r := &round{node: node, c: c, pri: NewFSM(), sec: NewFSM(), ht: hashTab{}, legacyC: map[string]int{}, secIdx: 10}
	ev = &Event{Typ: c.Typ, Kind: c.Kind, Last: scaleLast(c.Last), Err: "none", Case: c,
		Pre: []Obj{}, InL: []Obj{}, InR: []Obj{}, Post: []Obj{}, Dels: []int{}, Ups: []int{}, Cmds: []Cmd{}, Post2: []Obj{}, Err2: "none"}
	if c.Fault.T == "" {
		c.Fault = Fault{T: "none"}
		r.c.Fault = c.Fault
	}
	ev.Fault = c.Fault
	ev.Shape = r.faultShape()
	if c.Fault.T != "none" {
		r.lag = NewFSM()
	}
	r.ev = ev
	defer func() {
		if p := recover(); p != nil {
			ev.Err, ev.ErrMsg = "setup", fmt.Sprintf("panic: %v", p)
		}
	}()
	var err error
	switch c.Typ {
	case "policy":
		err = r.policies()
	case "role":
		err = r.roles()
	case "token":
		err = r.tokens()
	case "config":
		err = r.configs()
	case "fed":
		err = r.feds()
	default:
		err = fmt.Errorf("unknown typ %q", c.Typ)
	}
	if err != nil && ev.Err == "none" {
		ev.Err, ev.ErrMsg = "setup", err.Error()
	}
	ev.Dels, ev.Ups = ids(ev.Dels), ids(ev.Ups)
	return ev
}

func (r *round) fail(class string, err error) {
	if r.ev.Err == "none" {
		r.ev.Err, r.ev.ErrMsg = class, err.Error()
		switch {
		case strings.Contains(err.Error(), "stale data"):
			r.ev.ErrClass = "stale-data"
		case strings.Contains(err.Error(), "already exists"):
			r.ev.ErrClass = "unique-name"
		case strings.Contains(err.Error(), "cannot define subsets for external services"):
			r.ev.ErrClass = "graph-validation"
		default:
			r.ev.ErrClass = "other"
		}
	}
}

// realRound runs the REAL round function of the type (replicateACLType via replicateACLPolicies /
// Roles / Tokens, replicateConfig, IndexReplicator.Replicate) on the secondary FSM against the
// primary store and records the raft commands it submitted, in order.
func (r *round) realRound(extraLocal interface{}, pri *consul.VerifPrimary) {
	pri.Store = r.pri.State()
	shuffle := rand.New(rand.NewSource(r.c.Seed)).Shuffle
	pri.Shuffle = shuffle
	if r.lag != nil {
		// the listing is answered by an up-to-date server; every later RPC of the round (the batch read) by the
		// lagging one: the stand-in endpoints read pri.Store at call time
		pri.Shuffle = func(n int, swap func(i, j int)) {
			shuffle(n, swap)
			pri.Store = r.lag.State()
		}
	}
	res, err := r.node.Round(r.c.Typ, r.sec, pri, extraLocal, r.ev.Last)
	if err != nil {
		r.fail("setup", err)
		return
	}
	r.ev.RIdx = res.RemoteIndex
	failed := ""
	for _, a := range res.Applied {
		c := r.decodeCmd(a)
		r.ev.Cmds = append(r.ev.Cmds, c)
		r.ev.Writes++
		if !c.OK && failed == "" {
			failed = "apply-" + c.Op
		}
	}
	switch {
	case res.Err != nil && failed != "":
		r.fail(failed, res.Err)
	case res.Err != nil:
		r.fail("round", res.Err)
	case res.Exit:
		r.fail("round", fmt.Errorf("round asked to exit"))
	case failed != "":
		r.fail(failed, fmt.Errorf("a raft command was rejected but the round reported success"))
	}
}

// secondRound: after a round with a fetch fault, one more REAL round without fault, started with the index the
// first round returned (or the old lastRemoteIndex when it returned an error, as Replicator.Run does).
func (r *round) secondRound(extraLocal interface{}, pri *consul.VerifPrimary, list func() []Obj) {
	if r.lag == nil || r.ev.Err == "setup" {
		return
	}
	r.ev.Last2 = r.ev.Last
	if r.ev.Err == "none" {
		r.ev.Last2 = r.ev.RIdx
	}
	pri.Store = r.pri.State()
	pri.Shuffle = rand.New(rand.NewSource(r.c.Seed + 1)).Shuffle
	res, err := r.node.Round(r.c.Typ, r.sec, pri, extraLocal, r.ev.Last2)
	switch {
	case err != nil:
		r.ev.Err2 = "setup: " + err.Error()
	case res.Err != nil:
		r.ev.Err2 = "round"
	case res.Exit:
		r.ev.Err2 = "exit"
	}
	for _, a := range res.Applied {
		if a.Err != "" && r.ev.Err2 == "none" {
			r.ev.Err2 = "apply"
		}
	}
	r.ev.RIdx2 = res.RemoteIndex
	r.ev.Post2 = list()
}

func (r *round) decodeCmd(a consul.VerifApplied) Cmd {
	c := Cmd{OK: a.Err == "", IDs: []int{}}
	bad := func(err error) Cmd { c.Op = "undecodable: " + err.Error(); return c }
	switch a.Type {
	case structs.ACLPolicyDeleteRequestType:
		var req structs.ACLPolicyBatchDeleteRequest
		if err := structs.Decode(a.Data, &req); err != nil {
			return bad(err)
		}
		c.Op = "delete"
		for _, id := range req.PolicyIDs {
			c.IDs = append(c.IDs, revACL(id))
		}
	case structs.ACLPolicySetRequestType:
		var req structs.ACLPolicyBatchSetRequest
		if err := structs.Decode(a.Data, &req); err != nil {
			return bad(err)
		}
		c.Op = "upsert"
		for _, p := range req.Policies {
			c.IDs = append(c.IDs, revACL(p.ID))
		}
	case structs.ACLRoleDeleteRequestType:
		var req structs.ACLRoleBatchDeleteRequest
		if err := structs.Decode(a.Data, &req); err != nil {
			return bad(err)
		}
		c.Op = "delete"
		for _, id := range req.RoleIDs {
			c.IDs = append(c.IDs, revACL(id))
		}
	case structs.ACLRoleSetRequestType:
		var req structs.ACLRoleBatchSetRequest
		if err := structs.Decode(a.Data, &req); err != nil {
			return bad(err)
		}
		c.Op = "upsert"
		for _, p := range req.Roles {
			c.IDs = append(c.IDs, revACL(p.ID))
		}
	case structs.ACLTokenDeleteRequestType:
		var req structs.ACLTokenBatchDeleteRequest
		if err := structs.Decode(a.Data, &req); err != nil {
			return bad(err)
		}
		c.Op = "delete"
		for _, id := range req.TokenIDs {
			c.IDs = append(c.IDs, revACL(id))
		}
	case structs.ACLTokenSetRequestType:
		var req structs.ACLTokenBatchSetRequest
		if err := structs.Decode(a.Data, &req); err != nil {
			return bad(err)
		}
		c.Op = "upsert"
		for _, p := range req.Tokens {
			c.IDs = append(c.IDs, revACL(p.AccessorID))
		}
	case structs.ConfigEntryRequestType:
		var req structs.ConfigEntryRequest
		if err := structs.Decode(a.Data, &req); err != nil {
			return bad(err)
		}
		c.Op = "upsert"
		if req.Op == structs.ConfigEntryDelete || req.Op == structs.ConfigEntryDeleteCAS {
			c.Op = "delete"
		}
		c.IDs = append(c.IDs, cfgIDOf(req.Entry.GetKind(), req.Entry.GetName()))
	case structs.FederationStateRequestType:
		var req structs.FederationStateRequest
		if err := structs.Decode(a.Data, &req); err != nil {
			return bad(err)
		}
		c.Op = "upsert"
		if req.Op == structs.FederationStateDelete {
			c.Op = "delete"
		}
		c.IDs = append(c.IDs, revFed(req.State.Datacenter))
	default:
		c.Op = fmt.Sprintf("other-%d", a.Type)
	}
	return c
}

// harnessCmd records a command the harness itself applied (self-test -perturb path only).
func (r *round) harnessCmd(op string, ids []int, err error) {
	r.ev.Writes++
	r.ev.Cmds = append(r.ev.Cmds, Cmd{Op: op, IDs: ids, OK: err == nil})
	if err != nil {
		r.fail("apply-"+op, err)
	}
}

// remoteMI: real index of the j-th write (1-based) with abstract index mi
func remoteMI(mi uint64, j int) uint64 { return mi*IndexScale + uint64(j) }

// ---------------------------------------------------------------- policies

func (r *round) projPolicy(p *structs.ACLPolicy) Obj {
	return Obj{ID: revACL(p.ID), MI: p.ModifyIndex, C: contentClass(p), H: r.ht.of(p.Hash)}
}

func (r *round) listPolicies(f *fsm.FSM) []Obj {
	_, l, err := f.State().ACLPolicyList(nil, nil)
	if err != nil {
		panic(err)
	}
	out := []Obj{}
	for _, p := range l {
		out = append(out, r.projPolicy(p))
	}
	return out
}

func (r *round) policies() error {
	c := r.c
	for _, o := range c.Sec {
		if err := apply(r.sec, structs.ACLPolicySetRequestType, &structs.ACLPolicyBatchSetRequest{Policies: structs.ACLPolicies{mkPolicy(o.ID, o.C)}}, r.nextSecIdx()); err != nil {
			return err
		}
	}
	for j, o := range writeOrder(c.InR) {
		if o.ID == 0 {
			continue
		}
		set := func(f *fsm.FSM, c int, idx uint64) error {
			return apply(f, structs.ACLPolicySetRequestType, &structs.ACLPolicyBatchSetRequest{Policies: structs.ACLPolicies{mkPolicy(o.ID, c)}}, idx)
		}
		old, lagOld, lagNew := r.primaryWrites(o)
		if old != 0 {
			if err := set(r.pri, old, oldVersionIndex(o.ID)); err != nil {
				return err
			}
			if lagOld {
				if err := set(r.lag, old, oldVersionIndex(o.ID)); err != nil {
					return err
				}
			}
		}
		if err := set(r.pri, o.C, remoteMI(o.MI, j+1)); err != nil {
			return err
		}
		if r.lag != nil && lagNew {
			if err := set(r.lag, o.C, remoteMI(o.MI, j+1)); err != nil {
				return err
			}
		}
	}
	// the primary's table index is at least lastRemoteIndex (it handed that index out earlier): an unrelated
	// policy came and went at that index
	bump := &structs.ACLPolicy{ID: aclID(98), Name: "zz-bump", Rules: ""}
	bump.SetHash(true)
	if err := apply(r.pri, structs.ACLPolicySetRequestType, &structs.ACLPolicyBatchSetRequest{Policies: structs.ACLPolicies{bump}}, r.bumpIndex()); err != nil {
		return err
	}
	if err := apply(r.pri, structs.ACLPolicyDeleteRequestType, &structs.ACLPolicyBatchDeleteRequest{PolicyIDs: []string{bump.ID}}, r.bumpIndex()); err != nil {
		return err
	}
	r.ev.Pre = r.listPolicies(r.sec)
	// remote listing as ACL.PolicyList builds it: store list, Stub()
	pidx, plist, err := r.pri.State().ACLPolicyList(nil, nil)
	if err != nil {
		return err
	}
	r.ev.PIdx = pidx
	byID := map[string]*structs.ACLPolicy{}
	for _, p := range plist {
		byID[p.ID] = p
	}
	var remote structs.ACLPolicyListStubs
	for _, o := range c.InR {
		if o.ID == 0 {
			lp := mkPolicy(90, o.C)
			st := &structs.ACLPolicyListStub{ID: "", Name: "legacy", Hash: lp.Hash, ModifyIndex: o.MI * IndexScale, CreateIndex: 1}
			remote = append(remote, st)
			r.ev.InR = append(r.ev.InR, Obj{ID: 0, MI: st.ModifyIndex, C: o.C, H: r.ht.of(st.Hash)})
			continue
		}
		p := byID[aclID(o.ID)]
		if p == nil {
			return fmt.Errorf("primary lost policy %d", o.ID)
		}
		remote = append(remote, p.Stub())
		r.ev.InR = append(r.ev.InR, r.projPolicy(p))
	}
	var extra structs.ACLPolicies
	for _, o := range c.InL {
		if o.ID == 0 {
			lp := mkPolicy(90, o.C)
			lp.ID, lp.Name = "", "legacy"
			r.legacyC[string(lp.Hash)] = o.C
			extra = append(extra, lp)
		}
	}
	fetch := func(want []string) structs.ACLPolicies { // ACL.PolicyBatchRead
		_, l, err := r.pri.State().ACLPolicyBatchGet(nil, want)
		if err != nil {
			panic(err)
		}
		return l
	}
	res, local, updated, derr := consul.VerifDiffACLPolicies(r.sec, extra, remote, r.ev.Last, fetch)
	if Perturb != "" {
		res.LocalDeletes, res.LocalUpserts = perturbIDs(res.LocalDeletes, res.LocalUpserts)
		if len(updated) > len(res.LocalUpserts) {
			updated = updated[:len(res.LocalUpserts)]
		}
	}
	for _, p := range local {
		o := r.projPolicy(p)
		if p.ID == "" {
			o.C = r.legacyC[string(p.Hash)]
		}
		r.ev.InL = append(r.ev.InL, o)
	}
	r.recordDiff(res)
	if derr != nil {
		r.fail("stale", derr)
	}
	if Perturb == "" {
		var legacy structs.ACLPolicyListStubs
		for _, st := range remote {
			if st.ID == "" {
				legacy = append(legacy, st)
			}
		}
		r.realRound(extra, &consul.VerifPrimary{ExtraPolicies: legacy})
		r.ev.Post = r.listPolicies(r.sec)
		r.secondRound(extra, &consul.VerifPrimary{ExtraPolicies: legacy}, func() []Obj { return r.listPolicies(r.sec) })
		return nil
	} else { // self-test only: the harness applies the corrupted diff itself
		if len(res.LocalDeletes) > 0 {
			r.harnessCmd("delete", r.ev.Dels, apply(r.sec, structs.ACLPolicyDeleteRequestType, &structs.ACLPolicyBatchDeleteRequest{PolicyIDs: res.LocalDeletes}, r.nextSecIdx()))
		}
		if len(res.LocalUpserts) > 0 {
			r.harnessCmd("upsert", r.ev.Ups, apply(r.sec, structs.ACLPolicySetRequestType, &structs.ACLPolicyBatchSetRequest{Policies: updated}, r.nextSecIdx()))
		}
	}
	r.ev.Post = r.listPolicies(r.sec)
	return nil
}

func (r *round) recordDiff(res consul.VerifDiff) {
	for _, id := range res.LocalDeletes {
		r.ev.Dels = append(r.ev.Dels, revACL(id))
	}
	for _, id := range res.LocalUpserts {
		r.ev.Ups = append(r.ev.Ups, revACL(id))
	}
	r.ev.LSkip, r.ev.RSkip = res.LocalSkipped, res.RemoteSkipped
}

// ---------------------------------------------------------------- roles

func (r *round) projRole(p *structs.ACLRole) Obj {
	return Obj{ID: revACL(p.ID), MI: p.ModifyIndex, C: roleClass(p), H: r.ht.of(p.Hash)}
}

// roles read from the store carry resolved policy link names; the content class ignores them
func roleClass(p *structs.ACLRole) int {
	q := p.Clone()
	for i := range q.Policies {
		q.Policies[i].Name = ""
	}
	return contentClass(q)
}

func mkRoleReg(k, c int) *structs.ACLRole {
	r := mkRole(k, c)
	register(r, c)
	return r
}

func (r *round) listRoles(f *fsm.FSM) []Obj {
	_, l, err := f.State().ACLRoleList(nil, "", nil)
	if err != nil {
		panic(err)
	}
	out := []Obj{}
	for _, p := range l {
		out = append(out, r.projRole(p))
	}
	return out
}

func linkPolicy() *structs.ACLPolicy {
	p := &structs.ACLPolicy{ID: linkPolicyID, Name: "linked", Rules: `node_prefix "" { policy = "read" }`}
	p.SetHash(true)
	return p
}

func (r *round) roles() error {
	c := r.c
	for _, f := range []*fsm.FSM{r.pri, r.sec} { // policies replicate before roles: the linked policy is on both sides
		if err := apply(f, structs.ACLPolicySetRequestType, &structs.ACLPolicyBatchSetRequest{Policies: structs.ACLPolicies{linkPolicy()}}, 1); err != nil {
			return err
		}
	}
	for _, o := range c.Sec {
		if err := apply(r.sec, structs.ACLRoleSetRequestType, &structs.ACLRoleBatchSetRequest{Roles: structs.ACLRoles{mkRoleReg(o.ID, o.C)}}, r.nextSecIdx()); err != nil {
			return err
		}
	}
	for j, o := range writeOrder(c.InR) {
		if o.ID == 0 {
			continue
		}
		if err := apply(r.pri, structs.ACLRoleSetRequestType, &structs.ACLRoleBatchSetRequest{Roles: structs.ACLRoles{mkRoleReg(o.ID, o.C)}}, remoteMI(o.MI, j+1)); err != nil {
			return err
		}
	}
	bump := &structs.ACLRole{ID: aclID(98), Name: "zz-bump"}
	bump.SetHash(true)
	if err := apply(r.pri, structs.ACLRoleSetRequestType, &structs.ACLRoleBatchSetRequest{Roles: structs.ACLRoles{bump}}, r.bumpIndex()); err != nil {
		return err
	}
	if err := apply(r.pri, structs.ACLRoleDeleteRequestType, &structs.ACLRoleBatchDeleteRequest{RoleIDs: []string{bump.ID}}, r.bumpIndex()); err != nil {
		return err
	}
	r.ev.Pre = r.listRoles(r.sec)
	pidx, plist, err := r.pri.State().ACLRoleList(nil, "", nil) // ACL.RoleList
	if err != nil {
		return err
	}
	r.ev.PIdx = pidx
	byID := map[string]*structs.ACLRole{}
	for _, p := range plist {
		byID[p.ID] = p
	}
	var remote structs.ACLRoles
	for _, o := range c.InR {
		if o.ID == 0 {
			lp := mkRoleReg(90, o.C)
			lp.ID, lp.Name = "", "legacy"
			lp.ModifyIndex = o.MI * IndexScale
			remote = append(remote, lp)
			r.ev.InR = append(r.ev.InR, Obj{ID: 0, MI: lp.ModifyIndex, C: o.C, H: r.ht.of(lp.Hash)})
			continue
		}
		p := byID[aclID(o.ID)]
		if p == nil {
			return fmt.Errorf("primary lost role %d", o.ID)
		}
		remote = append(remote, p)
		r.ev.InR = append(r.ev.InR, r.projRole(p))
	}
	var extra structs.ACLRoles
	for _, o := range c.InL {
		if o.ID == 0 {
			lp := mkRoleReg(90, o.C)
			lp.ID, lp.Name = "", "legacy"
			r.legacyC[string(lp.Hash)] = o.C
			extra = append(extra, lp)
		}
	}
	res, local, updated, derr := consul.VerifDiffACLRoles(r.sec, extra, remote, r.ev.Last)
	if Perturb != "" {
		res.LocalDeletes, res.LocalUpserts = perturbIDs(res.LocalDeletes, res.LocalUpserts)
		if len(updated) > len(res.LocalUpserts) {
			updated = updated[:len(res.LocalUpserts)]
		}
	}
	for _, p := range local {
		o := r.projRole(p)
		if p.ID == "" {
			o.C = r.legacyC[string(p.Hash)]
		}
		r.ev.InL = append(r.ev.InL, o)
	}
	r.recordDiff(res)
	if derr != nil {
		r.fail("diff", derr)
	}
	if Perturb == "" {
		var legacy structs.ACLRoles
		for _, st := range remote {
			if st.ID == "" {
				legacy = append(legacy, st)
			}
		}
		r.realRound(extra, &consul.VerifPrimary{ExtraRoles: legacy})
	} else { // self-test only
		if len(res.LocalDeletes) > 0 {
			r.harnessCmd("delete", r.ev.Dels, apply(r.sec, structs.ACLRoleDeleteRequestType, &structs.ACLRoleBatchDeleteRequest{RoleIDs: res.LocalDeletes}, r.nextSecIdx()))
		}
		if len(res.LocalUpserts) > 0 && derr == nil {
			r.harnessCmd("upsert", r.ev.Ups, apply(r.sec, structs.ACLRoleSetRequestType, &structs.ACLRoleBatchSetRequest{Roles: updated, AllowMissingLinks: true}, r.nextSecIdx()))
		}
	}
	r.ev.Post = r.listRoles(r.sec)
	return nil
}

// ---------------------------------------------------------------- tokens

func tokenClass(t *structs.ACLToken) int {
	q := *t
	q.Policies = append([]structs.ACLTokenPolicyLink(nil), t.Policies...)
	for i := range q.Policies {
		q.Policies[i].Name = ""
	}
	q.Local = false // locality is the lo flag of the abstract object, not content
	return contentClass(&q)
}

func mkTokenReg(k, c int, local bool) *structs.ACLToken {
	t := mkToken(k, c, local)
	q := *t
	q.Local = false
	register(&q, c)
	return t
}

func (r *round) projToken(t *structs.ACLToken) Obj {
	return Obj{ID: revACL(t.AccessorID), MI: t.ModifyIndex, C: tokenClass(t), H: r.ht.of(t.Hash), LO: t.Local}
}

func (r *round) listTokens(f *fsm.FSM) []Obj {
	_, l, err := f.State().ACLTokenList(nil, true, true, "", "", "", nil, nil)
	if err != nil {
		panic(err)
	}
	out := []Obj{}
	for _, p := range l {
		out = append(out, r.projToken(p))
	}
	return out
}

func (r *round) tokens() error {
	c := r.c
	for _, f := range []*fsm.FSM{r.pri, r.sec, r.lag} {
		if f == nil {
			continue
		}
		if err := apply(f, structs.ACLPolicySetRequestType, &structs.ACLPolicyBatchSetRequest{Policies: structs.ACLPolicies{linkPolicy()}}, 1); err != nil {
			return err
		}
	}
	for _, o := range c.Sec {
		if err := apply(r.sec, structs.ACLTokenSetRequestType, &structs.ACLTokenBatchSetRequest{Tokens: structs.ACLTokens{mkTokenReg(o.ID, o.C, o.LO)}}, r.nextSecIdx()); err != nil {
			return err
		}
	}
	for j, o := range writeOrder(c.InR) {
		if o.ID == 0 {
			continue
		}
		set := func(f *fsm.FSM, c int, idx uint64) error {
			return apply(f, structs.ACLTokenSetRequestType, &structs.ACLTokenBatchSetRequest{Tokens: structs.ACLTokens{mkTokenReg(o.ID, c, false)}}, idx)
		}
		old, lagOld, lagNew := r.primaryWrites(o)
		if old != 0 {
			if err := set(r.pri, old, oldVersionIndex(o.ID)); err != nil {
				return err
			}
			if lagOld {
				if err := set(r.lag, old, oldVersionIndex(o.ID)); err != nil {
					return err
				}
			}
		}
		if err := set(r.pri, o.C, remoteMI(o.MI, j+1)); err != nil {
			return err
		}
		if r.lag != nil && lagNew {
			if err := set(r.lag, o.C, remoteMI(o.MI, j+1)); err != nil {
				return err
			}
		}
	}
	bump := mkToken(98, 1, false)
	if err := apply(r.pri, structs.ACLTokenSetRequestType, &structs.ACLTokenBatchSetRequest{Tokens: structs.ACLTokens{bump}}, r.bumpIndex()); err != nil {
		return err
	}
	if err := apply(r.pri, structs.ACLTokenDeleteRequestType, &structs.ACLTokenBatchDeleteRequest{TokenIDs: []string{bump.AccessorID}}, r.bumpIndex()); err != nil {
		return err
	}
	r.ev.Pre = r.listTokens(r.sec)
	// ACL.TokenList with IncludeLocal=false, IncludeGlobal=true, then Stub()
	pidx, plist, err := r.pri.State().ACLTokenList(nil, false, true, "", "", "", nil, nil)
	if err != nil {
		return err
	}
	r.ev.PIdx = pidx
	byID := map[string]*structs.ACLToken{}
	for _, p := range plist {
		byID[p.AccessorID] = p
	}
	var remote structs.ACLTokenListStubs
	for _, o := range c.InR {
		if o.ID == 0 {
			lp := mkTokenReg(90, o.C, false)
			st := lp.Stub()
			st.AccessorID = ""
			st.ModifyIndex, st.CreateIndex = o.MI*IndexScale, 1
			remote = append(remote, st)
			r.ev.InR = append(r.ev.InR, Obj{ID: 0, MI: st.ModifyIndex, C: o.C, H: r.ht.of(st.Hash)})
			continue
		}
		p := byID[aclID(o.ID)]
		if p == nil {
			return fmt.Errorf("primary lost token %d", o.ID)
		}
		remote = append(remote, p.Stub())
		r.ev.InR = append(r.ev.InR, r.projToken(p))
	}
	var extra structs.ACLTokens
	for _, o := range c.InL {
		if o.ID == 0 {
			lp := mkTokenReg(90, o.C, false)
			lp.AccessorID = ""
			r.legacyC[string(lp.Hash)] = o.C
			extra = append(extra, lp)
		}
	}
	fetch := func(want []string) structs.ACLTokens { // ACL.TokenBatchRead
		_, l, err := r.pri.State().ACLTokenBatchGet(nil, want)
		if err != nil {
			panic(err)
		}
		return l
	}
	res, local, updated, derr := consul.VerifDiffACLTokens(r.sec, extra, remote, r.ev.Last, fetch)
	if Perturb != "" {
		res.LocalDeletes, res.LocalUpserts = perturbIDs(res.LocalDeletes, res.LocalUpserts)
		if len(updated) > len(res.LocalUpserts) {
			updated = updated[:len(res.LocalUpserts)]
		}
	}
	for _, p := range local {
		o := r.projToken(p)
		if p.AccessorID == "" {
			o.C = r.legacyC[string(p.Hash)]
		}
		r.ev.InL = append(r.ev.InL, o)
	}
	r.recordDiff(res)
	if derr != nil {
		r.fail("stale", derr)
	}
	if Perturb == "" {
		var legacy structs.ACLTokenListStubs
		for _, st := range remote {
			if st.AccessorID == "" {
				legacy = append(legacy, st)
			}
		}
		r.realRound(extra, &consul.VerifPrimary{ExtraTokens: legacy})
		r.ev.Post = r.listTokens(r.sec)
		r.secondRound(extra, &consul.VerifPrimary{ExtraTokens: legacy}, func() []Obj { return r.listTokens(r.sec) })
		return nil
	} else { // self-test only
		if len(res.LocalDeletes) > 0 {
			r.harnessCmd("delete", r.ev.Dels, apply(r.sec, structs.ACLTokenDeleteRequestType, &structs.ACLTokenBatchDeleteRequest{TokenIDs: res.LocalDeletes}, r.nextSecIdx()))
		}
		if len(res.LocalUpserts) > 0 {
			req := &structs.ACLTokenBatchSetRequest{Tokens: updated, CAS: false, AllowMissingLinks: true, FromReplication: true}
			r.harnessCmd("upsert", r.ev.Ups, apply(r.sec, structs.ACLTokenSetRequestType, req, r.nextSecIdx()))
		}
	}
	r.ev.Post = r.listTokens(r.sec)
	return nil
}

// ---------------------------------------------------------------- config entries

func (r *round) projConfig(e structs.ConfigEntry) Obj {
	return Obj{ID: cfgIDOf(e.GetKind(), e.GetName()), MI: e.GetRaftIndex().ModifyIndex, C: contentClass(e), H: r.ht.ofU64(e.GetHash())}
}

func (r *round) listConfigs(f *fsm.FSM) ([]structs.ConfigEntry, []Obj) {
	_, l, err := f.State().ConfigEntries(nil, structs.ReplicationEnterpriseMeta())
	if err != nil {
		panic(err)
	}
	out := []Obj{}
	for _, e := range l {
		out = append(out, r.projConfig(e))
	}
	return l, out
}

func cfgIDs(l []structs.ConfigEntry) []int {
	out := []int{}
	for _, e := range l {
		out = append(out, cfgIDOf(e.GetKind(), e.GetName()))
	}
	return out
}

func (r *round) configs() error {
	c := r.c
	for _, o := range c.Sec {
		req := &structs.ConfigEntryRequest{Op: structs.ConfigEntryUpsert, Datacenter: "dc2", Entry: mkConfig(o.ID, o.C, o.H == 0)}
		if err := apply(r.sec, structs.ConfigEntryRequestType, req, r.nextSecIdx()); err != nil {
			return err
		}
	}
	for j, o := range writeOrder(c.InR) {
		req := &structs.ConfigEntryRequest{Op: structs.ConfigEntryUpsert, Datacenter: "dc1", Entry: mkConfig(o.ID, o.C, o.H == 0)}
		if err := apply(r.pri, structs.ConfigEntryRequestType, req, remoteMI(o.MI, j+1)); err != nil {
			return err
		}
	}
	bump := &structs.ServiceConfigEntry{Kind: structs.ServiceDefaults, Name: "zz-bump", Protocol: "tcp"}
	if err := bump.Normalize(); err != nil {
		return err
	}
	for _, op := range []structs.ConfigEntryOp{structs.ConfigEntryUpsert, structs.ConfigEntryDelete} {
		if err := apply(r.pri, structs.ConfigEntryRequestType, &structs.ConfigEntryRequest{Op: op, Datacenter: "dc1", Entry: bump}, r.bumpIndex()); err != nil {
			return err
		}
	}
	_, r.ev.Pre = r.listConfigs(r.sec)
	plist, _ := r.listConfigs(r.pri) // ConfigEntry.ListAll
	r.ev.PIdx, _, _ = r.pri.State().ConfigEntries(nil, structs.ReplicationEnterpriseMeta())
	byID := map[int]structs.ConfigEntry{}
	for _, e := range plist {
		byID[cfgIDOf(e.GetKind(), e.GetName())] = e
	}
	var remote []structs.ConfigEntry
	for _, o := range c.InR {
		e := byID[o.ID]
		if e == nil {
			return fmt.Errorf("primary lost config entry %d", o.ID)
		}
		remote = append(remote, e)
		r.ev.InR = append(r.ev.InR, r.projConfig(e))
	}
	var local, deletions, updates []structs.ConfigEntry
	if c.Order == "given" {
		slist, _ := r.listConfigs(r.sec)
		sby := map[int]structs.ConfigEntry{}
		for _, e := range slist {
			sby[cfgIDOf(e.GetKind(), e.GetName())] = e
		}
		for _, o := range c.InL {
			if e := sby[o.ID]; e != nil {
				local = append(local, e)
				delete(sby, o.ID)
			}
		}
		for _, e := range slist { // anything the case did not mention keeps store order
			if _, ok := sby[cfgIDOf(e.GetKind(), e.GetName())]; ok {
				local = append(local, e)
			}
		}
		deletions, updates = consul.VerifDiffConfigEntryLists(local, remote, r.ev.Last)
	} else {
		var err error
		local, deletions, updates, err = consul.VerifDiffConfigEntries(r.sec, remote, r.ev.Last)
		if err != nil {
			r.fail("diff", err)
		}
	}
	for _, e := range local {
		r.ev.InL = append(r.ev.InL, r.projConfig(e))
	}
	if Perturb == "drop-upsert" && len(updates) > 0 {
		updates = updates[:len(updates)-1]
	}
	if Perturb == "drop-delete" && len(deletions) > 0 {
		deletions = deletions[:len(deletions)-1]
	}
	r.ev.Dels, r.ev.Ups = cfgIDs(deletions), cfgIDs(updates)
	if Perturb == "" {
		r.realRound(nil, &consul.VerifPrimary{})
	} else { // self-test only
		for _, e := range deletions {
			req := &structs.ConfigEntryRequest{Op: structs.ConfigEntryDelete, Datacenter: "dc2", Entry: e}
			r.harnessCmd("delete", cfgIDs([]structs.ConfigEntry{e}), apply(r.sec, structs.ConfigEntryRequestType, req, r.nextSecIdx()))
		}
		for _, e := range updates {
			req := &structs.ConfigEntryRequest{Op: structs.ConfigEntryUpsert, Datacenter: "dc2", Entry: e}
			r.harnessCmd("upsert", cfgIDs([]structs.ConfigEntry{e}), apply(r.sec, structs.ConfigEntryRequestType, req, r.nextSecIdx()))
		}
	}
	_, r.ev.Post = r.listConfigs(r.sec)
	return nil
}

// ---------------------------------------------------------------- federation states

func (r *round) projFed(s *structs.FederationState) Obj {
	return Obj{ID: revFed(s.Datacenter), MI: s.ModifyIndex, C: contentClass(s), H: 0, PMI: s.PrimaryModifyIndex}
}

func (r *round) listFeds(f *fsm.FSM) ([]*structs.FederationState, []Obj) {
	_, l, err := f.State().FederationStateList(nil)
	if err != nil {
		panic(err)
	}
	out := []Obj{}
	for _, s := range l {
		out = append(out, r.projFed(s))
	}
	return l, out
}

func fedIDs(l []*structs.FederationState) []int {
	out := []int{}
	for _, s := range l {
		out = append(out, revFed(s.Datacenter))
	}
	return out
}

func (r *round) feds() error {
	c := r.c
	for _, o := range c.Sec {
		s := mkFed(o.ID, o.C)
		s.PrimaryModifyIndex = r.ev.Last - 10 // replicated earlier, shortly before lastRemoteIndex
		req := &structs.FederationStateRequest{Op: structs.FederationStateUpsert, Datacenter: "dc2", State: s}
		if err := apply(r.sec, structs.FederationStateRequestType, req, r.nextSecIdx()); err != nil {
			return err
		}
	}
	for j, o := range writeOrder(c.InR) {
		req := &structs.FederationStateRequest{Op: structs.FederationStateUpsert, Datacenter: "dc1", State: mkFed(o.ID, o.C)}
		if err := apply(r.pri, structs.FederationStateRequestType, req, remoteMI(o.MI, j+1)); err != nil {
			return err
		}
	}
	for _, op := range []structs.FederationStateOp{structs.FederationStateUpsert, structs.FederationStateDelete} {
		bump := &structs.FederationState{Datacenter: "zz-bump", UpdatedAt: baseTime}
		if err := apply(r.pri, structs.FederationStateRequestType, &structs.FederationStateRequest{Op: op, Datacenter: "dc1", State: bump}, r.bumpIndex()); err != nil {
			return err
		}
	}
	slist, pre := r.listFeds(r.sec)
	r.ev.Pre = pre
	plist, _ := r.listFeds(r.pri) // FederationState.List
	r.ev.PIdx, _, _ = r.pri.State().FederationStateList(nil)
	byID := map[int]*structs.FederationState{}
	for _, s := range plist {
		byID[revFed(s.Datacenter)] = s
	}
	var remote []*structs.FederationState
	for _, o := range c.InR {
		s := byID[o.ID]
		if s == nil {
			return fmt.Errorf("primary lost federation state %d", o.ID)
		}
		remote = append(remote, s)
		r.ev.InR = append(r.ev.InR, r.projFed(s))
	}
	local := slist // FederationStateReplicator.FetchLocal
	if c.Order == "given" {
		sby := map[int]*structs.FederationState{}
		for _, s := range slist {
			sby[revFed(s.Datacenter)] = s
		}
		local = nil
		for _, o := range c.InL {
			if s := sby[o.ID]; s != nil {
				local = append(local, s)
				delete(sby, o.ID)
			}
		}
		for _, s := range slist {
			if _, ok := sby[revFed(s.Datacenter)]; ok {
				local = append(local, s)
			}
		}
	}
	diff, err := (&consul.FederationStateReplicator{}).DiffRemoteAndLocalState(local, remote, r.ev.Last)
	if err != nil {
		r.fail("diff", err)
		return nil
	}
	for _, s := range local {
		r.ev.InL = append(r.ev.InL, r.projFed(s))
	}
	deletions, _ := diff.Deletions.([]*structs.FederationState)
	updates, _ := diff.Updates.([]*structs.FederationState)
	if Perturb == "drop-upsert" && len(updates) > 0 {
		updates = updates[:len(updates)-1]
	}
	if Perturb == "drop-delete" && len(deletions) > 0 {
		deletions = deletions[:len(deletions)-1]
	}
	r.ev.Dels, r.ev.Ups = fedIDs(deletions), fedIDs(updates)
	if Perturb == "" {
		r.realRound(nil, &consul.VerifPrimary{})
	} else { // self-test only
		for _, s := range deletions {
			req := &structs.FederationStateRequest{Op: structs.FederationStateDelete, Datacenter: "dc2", State: s}
			r.harnessCmd("delete", fedIDs([]*structs.FederationState{s}), apply(r.sec, structs.FederationStateRequestType, req, r.nextSecIdx()))
		}
		for _, s := range updates {
			dup := *s
			dup.PrimaryModifyIndex = s.ModifyIndex
			req := &structs.FederationStateRequest{Op: structs.FederationStateUpsert, Datacenter: "dc2", State: &dup}
			r.harnessCmd("upsert", fedIDs([]*structs.FederationState{s}), apply(r.sec, structs.FederationStateRequestType, req, r.nextSecIdx()))
		}
	}
	_, r.ev.Post = r.listFeds(r.sec)
	return nil
}
