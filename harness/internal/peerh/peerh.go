// Package peerh drives the real peering importer (agent/grpc-external/services/peerstream
// replication handlers on a real peerstream.Server whose Backend applies catalog writes through the
// real fsm.FSM into a real state.Store) and the real exporter query
// (state.Store.ExportedServicesForPeer) with the abstract commands of spec/Peering.tla, and projects
// the real state back to the abstract one.
//
// The projection is deliberately dumb: field copies and sorting. Nothing here decides anything;
// spec/PeeringTrace.tla does.
package peerh

import (
	"crypto/sha1"
	"encoding/hex"
	"fmt"
	"io"
	"sort"
	"strconv"
	"strings"
	"sync"

	"github.com/davecgh/go-spew/spew"
	"github.com/hashicorp/go-hclog"
	"github.com/hashicorp/raft"
	"google.golang.org/protobuf/proto"
	"google.golang.org/protobuf/types/known/anypb"

	"github.com/hashicorp/consul/agent/consul/fsm"
	"github.com/hashicorp/consul/agent/consul/state"
	"github.com/hashicorp/consul/agent/consul/stream"
	"github.com/hashicorp/consul/agent/grpc-external/services/peerstream"
	"github.com/hashicorp/consul/agent/netutil"
	"github.com/hashicorp/consul/agent/structs"
	"github.com/hashicorp/consul/api"
	"github.com/hashicorp/consul/proto/private/pbcommon"
	"github.com/hashicorp/consul/proto/private/pbpeering"
	"github.com/hashicorp/consul/proto/private/pbpeerstream"
	"github.com/hashicorp/consul/proto/private/pbservice"
	"github.com/hashicorp/consul/types"
)

type M = map[string]any

const SidecarSuffix = structs.SidecarProxySuffix

// UUID maps an abstract identifier to a stable UUID.
func UUID(name string) string {
	h := sha1.Sum([]byte("verif:" + name))
	return fmt.Sprintf("%x-%x-%x-%x-%x", h[0:4], h[4:6], h[6:8], h[8:10], h[10:16])
}

func Str(v any) string { s, _ := v.(string); return s }
func List(v any) []any { l, _ := v.([]any); return l }
func Int(v any) int {
	switch x := v.(type) {
	case float64:
		return int(x)
	case int:
		return x
	}
	return 0
}

// ---------------------------------------------------------------- backend

// Fault selects a deliberate perturbation of the shim around the real calls (binding
// demonstration only, never set by a normal run).
type Fault string

const (
	FaultNone       Fault = ""
	FaultDropDereg  Fault = "dropdereg"  // the backend swallows one service deregistration
	FaultTouchLocal Fault = "touchlocal" // the backend rewrites a local node row during a peer registration
	FaultOverExport Fault = "overexport" // one extra name is appended to the exporter's reply
)

// backend implements peerstream.Backend; catalog writes go through the real FSM as raft log
// entries (what PeeringBackend.CatalogRegister does via leaderRaftApply), at increasing indexes.
type backend struct {
	w *World
}

var _ peerstream.Backend = (*backend)(nil)

func (b *backend) Subscribe(req *stream.SubscribeRequest) (*stream.Subscription, error) {
	if b.w.Pub == nil {
		return nil, fmt.Errorf("not supported")
	}
	return b.w.Pub.Subscribe(req)
}
func (b *backend) IsLeader() bool                                     { return true }
func (b *backend) SetLeaderAddress(string)                            {}
func (b *backend) GetLeaderAddress() string                           { return "" }
func (b *backend) ValidateProposedPeeringSecret(string) (bool, error) { return true, nil }
func (b *backend) PeeringSecretsWrite(*pbpeering.SecretsWriteRequest) error {
	return fmt.Errorf("unexpected PeeringSecretsWrite")
}
func (b *backend) PeeringTerminateByID(*pbpeering.PeeringTerminateByIDRequest) error {
	return fmt.Errorf("unexpected PeeringTerminateByID")
}
func (b *backend) PeeringTrustBundleWrite(*pbpeering.PeeringTrustBundleWriteRequest) error {
	return fmt.Errorf("unexpected PeeringTrustBundleWrite")
}
func (b *backend) PeeringWrite(*pbpeering.PeeringWriteRequest) error {
	return fmt.Errorf("unexpected PeeringWrite")
}

func (b *backend) CatalogRegister(req *structs.RegisterRequest) error {
	b.w.Writes++
	err := b.w.apply(structs.RegisterRequestType, req)
	if err == nil && b.w.armed && b.w.Fault == FaultTouchLocal && req.PeerName != "" && !b.w.faultDone {
		// perturbation: a peer registration also rewrites the local node of the same name
		if _, n, _ := b.w.Store().GetNode(req.Node, nil, ""); n != nil {
			b.w.faultDone = true
			_ = b.w.apply(structs.RegisterRequestType, &structs.RegisterRequest{Node: n.Node, ID: n.ID, Address: n.Address + "0", Datacenter: n.Datacenter})
		}
	}
	return err
}

func (b *backend) CatalogDeregister(req *structs.DeregisterRequest) error {
	b.w.Writes++
	if b.w.armed && b.w.Fault == FaultDropDereg && req.ServiceID != "" && !b.w.faultDone {
		b.w.faultDone = true
		return nil
	}
	return b.w.apply(structs.DeregisterRequestType, req)
}

// ---------------------------------------------------------------- world

type World struct {
	FSM              *fsm.FSM
	Srv              *peerstream.Server
	Pub              *stream.EventPublisher // only in end-to-end worlds
	mu               sync.Mutex             // raft index and FSM.Apply (end-to-end worlds write from several goroutines)
	idx              uint64
	msts             map[string]*peerstream.MutableStatus
	Writes           int
	Fault            Fault
	armed, faultDone bool // faults only fire inside the handlers under test
}

func init() {
	// virtual-IP allocation asks the local agent for its bind address (IPv4 / dual stack); there is
	// no agent here, so answer like the package's own tests do.
	netutil.GetAgentBindAddrFunc = netutil.GetMockGetAgentBindAddrFunc("127.0.0.1")
}

func NewWorld(peers []string) (*World, error) { return newWorld(peers, nil, true, "dc1") }

// newWorld: with a publisher the store emits change events into it (what a real server does) and
// Backend.Subscribe serves them - needed on the exporting side of an end-to-end stream.
func newWorld(peers []string, pub *stream.EventPublisher, connect bool, dc string) (*World, error) {
	logger := hclog.New(&hclog.LoggerOptions{Output: io.Discard, Level: hclog.Off})
	w := &World{msts: map[string]*peerstream.MutableStatus{}, idx: 10, Pub: pub}
	w.FSM = fsm.NewFromDeps(fsm.Deps{
		Logger: logger,
		NewStateStore: func() *state.Store {
			if pub != nil {
				return state.NewStateStoreWithEventPublisher(nil, pub)
			}
			return state.NewStateStore(nil)
		},
		StorageBackend: fsm.NullStorageBackend,
	})
	w.Srv = peerstream.NewServer(peerstream.Config{
		Backend:        &backend{w: w},
		GetStore:       func() peerstream.StateStore { return w.FSM.State() },
		Logger:         logger,
		Datacenter:     dc,
		ConnectEnabled: connect,
	})
	// what a real leader sets once all servers support virtual IPs (leader_connect / system metadata)
	w.idx++
	if err := w.Store().SystemMetadataSet(w.idx, &structs.SystemMetadataEntry{Key: structs.SystemMetadataVirtualIPsEnabled, Value: "true"}); err != nil {
		return nil, err
	}
	for _, p := range peers {
		if err := w.AddPeer(p); err != nil {
			return nil, err
		}
	}
	return w, nil
}

func (w *World) Store() *state.Store { return w.FSM.State() }

func (w *World) AddPeer(p string) error {
	if _, ok := w.msts[p]; ok {
		return nil
	}
	w.idx++
	id := UUID("peering:" + p)
	if err := w.Store().PeeringWrite(w.idx, &pbpeering.PeeringWriteRequest{
		Peering: &pbpeering.Peering{ID: id, Name: p, State: pbpeering.PeeringState_ACTIVE},
	}); err != nil {
		return err
	}
	mst, err := w.Srv.Tracker.Connected(id)
	if err != nil {
		return err
	}
	w.msts[p] = mst
	return nil
}

func (w *World) apply(t structs.MessageType, req any) (err error) {
	defer func() {
		if r := recover(); r != nil {
			err = fmt.Errorf("panic in FSM.Apply: %v", r)
		}
	}()
	buf, err := structs.Encode(t, req)
	if err != nil {
		return err
	}
	w.mu.Lock()
	defer w.mu.Unlock()
	w.idx++
	raw := w.FSM.Apply(&raft.Log{Index: w.idx, Data: buf, Type: raft.LogCommand})
	if e, ok := raw.(error); ok {
		return e
	}
	return nil
}

// ---------------------------------------------------------------- abstract -> real

func nodeID(name string) types.NodeID { return types.NodeID(UUID("node:" + name)) }

func svcKind(name string) (string, string) {
	if strings.HasSuffix(name, SidecarSuffix) {
		return string(structs.ServiceKindConnectProxy), strings.TrimSuffix(name, SidecarSuffix)
	}
	return "", ""
}

// ExportedService builds the real message for an abstract snapshot, shaped like the exporter's
// CheckServiceNodes reply: one CheckServiceNode per instance, carrying the node, the node-level
// checks and the instance's own checks.
func ExportedService(svc string, snap []any) *pbpeerstream.ExportedService {
	out := &pbpeerstream.ExportedService{}
	em := pbcommon.NewEnterpriseMetaFromStructs(*structs.DefaultEnterpriseMetaInDefaultPartition())
	for _, e0 := range snap {
		e := e0.(map[string]any)
		node := Str(e["node"])
		for _, i0 := range List(e["insts"]) {
			i := i0.(map[string]any)
			id := Str(i["id"])
			kind, dest := svcKind(svc)
			ns := &pbservice.NodeService{
				Kind: kind, ID: id, Service: svc, Port: int32(port(i["ver"])),
				Tags: []string{Str(i["ver"])}, Meta: map[string]string{"v": Str(i["ver"])},
				Weights:        &pbservice.Weights{Passing: 1, Warning: 1},
				EnterpriseMeta: em,
			}
			if kind != "" {
				ns.Proxy = &pbservice.ConnectProxyConfig{DestinationServiceName: dest, DestinationServiceID: dest}
			}
			csn := &pbservice.CheckServiceNode{
				Node: &pbservice.Node{ID: string(nodeID(node)), Node: node, Address: Str(e["addr"]), Datacenter: "dc-remote",
					Meta: map[string]string{"a": Str(e["addr"])}, TaggedAddresses: map[string]string{"lan": Str(e["addr"])}},
				Service: ns,
			}
			for _, c0 := range List(e["nchk"]) {
				c := c0.(map[string]any)
				csn.Checks = append(csn.Checks, &pbservice.HealthCheck{Node: node, CheckID: Str(c["cid"]), Name: "chk " + Str(c["cid"]),
					Status: Str(c["st"]), Output: Str(c["st"]), EnterpriseMeta: em})
			}
			for _, c0 := range List(i["schk"]) {
				c := c0.(map[string]any)
				csn.Checks = append(csn.Checks, &pbservice.HealthCheck{Node: node, CheckID: Str(c["cid"]), Name: "chk " + Str(c["cid"]),
					Status: Str(c["st"]), Output: Str(c["st"]), ServiceID: id, ServiceName: svc, EnterpriseMeta: em})
			}
			out.Nodes = append(out.Nodes, csn)
		}
	}
	return out
}

func errRes(err error) M {
	if err != nil {
		return M{"ok": false, "err": err.Error()}
	}
	return M{"ok": true, "err": ""}
}

// Update pushes one exported-service snapshot through the real processResponse ->
// handleUpsert -> handleUpdateService path (or handleUpdateService(nil) when the command
// says "nil", the deletion form).
func (w *World) Update(c M) M {
	p, svc := Str(c["peer"]), Str(c["svc"])
	if err := w.AddPeer(p); err != nil {
		return errRes(err)
	}
	w.armed = true
	defer func() { w.armed = false }()
	if b, _ := c["nil"].(bool); b {
		return errRes(w.Srv.VerifHandleUpdateService(p, "default", structs.NewServiceName(svc, nil), nil))
	}
	any, err := anypb.New(ExportedService(svc, List(c["snap"])))
	if err != nil {
		return errRes(err)
	}
	_, err = w.Srv.VerifProcessResponse(p, "default", w.msts[p], &pbpeerstream.ReplicationMessage_Response{
		ResourceURL: pbpeerstream.TypeURLExportedService, ResourceID: svc, Nonce: "n",
		Operation: pbpeerstream.Operation_OPERATION_UPSERT, Resource: any,
	})
	return errRes(err)
}

// ExportList pushes one ExportedServiceList through processResponse -> handleUpsertExportedServiceList.
func (w *World) ExportList(c M) M {
	p := Str(c["peer"])
	if err := w.AddPeer(p); err != nil {
		return errRes(err)
	}
	w.armed = true
	defer func() { w.armed = false }()
	names := []string{}
	for _, n := range List(c["names"]) {
		names = append(names, Str(n))
	}
	any, err := anypb.New(&pbpeerstream.ExportedServiceList{Services: names})
	if err != nil {
		return errRes(err)
	}
	_, err = w.Srv.VerifProcessResponse(p, "default", w.msts[p], &pbpeerstream.ReplicationMessage_Response{
		ResourceURL: pbpeerstream.TypeURLExportedServiceList, ResourceID: "exported-service-list", Nonce: "n",
		Operation: pbpeerstream.Operation_OPERATION_UPSERT, Resource: any,
	})
	return errRes(err)
}

// Seed registers rows directly (prior states: local cluster, other peers, arbitrary imports)
// through the same backend, then gives the local nodes some non-catalog data (session bound to
// the node's checks, coordinate, KV) so that "everything else" is not empty.
func (w *World) Seed(c M) M {
	rows, _ := c["rows"].(map[string]any)
	b := &backend{w: w}
	addr := map[string]string{}
	for _, r0 := range List(rows["nodes"]) {
		r := r0.(map[string]any)
		p, n := Str(r["peer"]), Str(r["node"])
		addr[p+"/"+n] = Str(r["addr"])
		if p != "" {
			if err := w.AddPeer(p); err != nil {
				return errRes(err)
			}
		}
		if err := b.CatalogRegister(&structs.RegisterRequest{Datacenter: "dc1", ID: nodeID(n), Node: n, Address: Str(r["addr"]), PeerName: p,
			NodeMeta: map[string]string{"a": Str(r["addr"])}, TaggedAddresses: map[string]string{"lan": Str(r["addr"])}}); err != nil {
			return errRes(err)
		}
	}
	for _, r0 := range List(rows["svcs"]) {
		r := r0.(map[string]any)
		p, n, name := Str(r["peer"]), Str(r["node"]), Str(r["name"])
		kind, dest := svcKind(name)
		ns := &structs.NodeService{Kind: structs.ServiceKind(kind), ID: Str(r["id"]), Service: name, Port: port(r["ver"]),
			Tags: []string{Str(r["ver"])}, Meta: map[string]string{"v": Str(r["ver"])},
			Weights: &structs.Weights{Passing: 1, Warning: 1}, PeerName: p}
		if kind != "" {
			ns.Proxy.DestinationServiceName = dest
			ns.Proxy.DestinationServiceID = dest
		}
		if err := b.CatalogRegister(&structs.RegisterRequest{Datacenter: "dc1", Node: n, SkipNodeUpdate: true, PeerName: p, Service: ns}); err != nil {
			return errRes(err)
		}
	}
	for _, r0 := range List(rows["chks"]) {
		r := r0.(map[string]any)
		p, n := Str(r["peer"]), Str(r["node"])
		hc := &structs.HealthCheck{Node: n, CheckID: types.CheckID(Str(r["cid"])), Name: "chk " + Str(r["cid"]), Status: Str(r["st"]),
			Output: Str(r["st"]), ServiceID: Str(r["sid"]), PeerName: p}
		if err := b.CatalogRegister(&structs.RegisterRequest{Datacenter: "dc1", Node: n, SkipNodeUpdate: true, PeerName: p, Check: hc}); err != nil {
			return errRes(err)
		}
	}
	// non-catalog local data hanging off the local nodes
	s := w.Store()
	if b, _ := c["gw"].(bool); b {
		// a local ingress gateway that serves every local mesh service (wildcard): its
		// gateway-services rows are derived data of the LOCAL cluster
		w.idx++
		if err := s.EnsureConfigEntry(w.idx, &structs.IngressGatewayConfigEntry{Kind: structs.IngressGateway, Name: "igw",
			Listeners: []structs.IngressListener{{Port: 8080, Protocol: "http", Services: []structs.IngressService{{Name: "*"}}}}}); err != nil {
			return errRes(err)
		}
	}
	_, lnodes, _ := s.Nodes(nil, nil, "")
	for _, n := range lnodes {
		sid := UUID("session:" + n.Node)
		if _, ex, _ := s.SessionGet(nil, sid, nil); ex != nil {
			continue
		}
		_, chks, _ := s.NodeChecks(nil, n.Node, nil, "")
		sess := &structs.Session{ID: sid, Node: n.Node, Behavior: structs.SessionKeysRelease}
		for _, c := range chks {
			if c.ServiceID == "" && c.Status == api.HealthPassing {
				sess.NodeChecks = append(sess.NodeChecks, string(c.CheckID))
			}
		}
		w.idx++
		_ = s.SessionCreate(w.idx, sess)
		w.idx++
		_ = s.KVSSet(w.idx, &structs.DirEntry{Key: "verif/" + n.Node, Value: []byte("v")})
	}
	return errRes(nil)
}

// ---------------------------------------------------------------- real -> abstract

var spewCfg = spew.ConfigState{Indent: " ", SortKeys: true, DisablePointerAddresses: true, DisableCapacities: true,
	SpewKeys: true, DisableMethods: true}

func hashOf(item any) string {
	var b []byte
	if pm, ok := item.(proto.Message); ok {
		b, _ = proto.MarshalOptions{Deterministic: true}.Marshal(pm)
	} else {
		b = []byte(spewCfg.Sdump(item))
	}
	h := sha1.Sum(b)
	return hex.EncodeToString(h[:6])
}

// port encodes the abstract instance version (a decimal string) as the service port.
func port(ver any) int {
	n, _ := strconv.Atoi(Str(ver))
	return 8000 + n
}

func first(l []string) string {
	if len(l) > 0 {
		return l[0]
	}
	return ""
}

// Catalog walks EVERY table of the real store. The three catalog tables are projected row by
// row (modelled fields + x = hash of the complete row including its raft indexes); every other
// row becomes an opaque [peer, tbl, x]. The raft index table, the usage counters and the
// virtual-IP free list / counter are bookkeeping shared by construction and are left out.
func (w *World) Catalog() M {
	nodes, svcs, chks, rest := []M{}, []M{}, []M{}, []M{}
	_ = w.Store().WalkAllTables(func(table string, item any) bool {
		switch table {
		case "index", "free-virtual-ips", "usage":
			return true
		}
		switch r := item.(type) {
		case *structs.Node:
			nodes = append(nodes, M{"peer": r.PeerName, "node": r.Node, "addr": r.Address, "maddr": r.Meta["a"], "taddr": r.TaggedAddresses["lan"], "x": hashOf(r)})
		case *structs.ServiceNode:
			svcs = append(svcs, M{"peer": r.PeerName, "node": r.Node, "id": r.ServiceID, "name": r.ServiceName, "ver": strconv.Itoa(r.ServicePort - 8000),
				"tag": first(r.ServiceTags), "meta": r.ServiceMeta["v"], "x": hashOf(r)})
		case *structs.HealthCheck:
			chks = append(chks, M{"peer": r.PeerName, "node": r.Node, "cid": string(r.CheckID), "sid": r.ServiceID, "st": r.Status, "out": r.Output, "x": hashOf(r)})
		case state.ServiceVirtualIP:
			rest = append(rest, M{"peer": r.Service.Peer, "tbl": table, "x": hashOf(r)})
		case *state.ServiceVirtualIP:
			rest = append(rest, M{"peer": r.Service.Peer, "tbl": table, "x": hashOf(r)})
		case *pbpeering.Peering:
			rest = append(rest, M{"peer": r.Name, "tbl": table, "x": hashOf(r)})
		case *pbpeering.PeeringTrustBundle:
			rest = append(rest, M{"peer": r.PeerName, "tbl": table, "x": hashOf(r)})
		default:
			rest = append(rest, M{"peer": "", "tbl": table, "x": hashOf(item)})
		}
		return true
	})
	key := func(m M, ks ...string) string {
		s := ""
		for _, k := range ks {
			s += fmt.Sprint(m[k]) + "\x00"
		}
		return s
	}
	sort.Slice(nodes, func(i, j int) bool { return key(nodes[i], "peer", "node") < key(nodes[j], "peer", "node") })
	sort.Slice(svcs, func(i, j int) bool { return key(svcs[i], "peer", "node", "id") < key(svcs[j], "peer", "node", "id") })
	sort.Slice(chks, func(i, j int) bool { return key(chks[i], "peer", "node", "cid") < key(chks[j], "peer", "node", "cid") })
	sort.Slice(rest, func(i, j int) bool { return key(rest[i], "peer", "tbl", "x") < key(rest[j], "peer", "tbl", "x") })
	return M{"nodes": nodes, "svcs": svcs, "chks": chks, "rest": rest}
}

// CSN is the real read API the property is stated on: Store.CheckServiceNodes(svc, peer).
func (w *World) CSN(svc, peer string) ([]M, error) {
	_, csns, err := w.Store().CheckServiceNodes(nil, svc, nil, peer)
	if err != nil {
		return []M{}, err
	}
	out := []M{}
	for _, c := range csns {
		cks := []M{}
		for _, k := range c.Checks {
			cks = append(cks, M{"cid": string(k.CheckID), "sid": k.ServiceID, "st": k.Status, "out": k.Output})
		}
		sort.Slice(cks, func(i, j int) bool { return Str(cks[i]["cid"]) < Str(cks[j]["cid"]) })
		out = append(out, M{"node": c.Node.Node, "addr": c.Node.Address, "maddr": c.Node.Meta["a"], "taddr": c.Node.TaggedAddresses["lan"],
			"id": c.Service.ID, "ver": strconv.Itoa(c.Service.Port - 8000), "tag": first(c.Service.Tags), "meta": c.Service.Meta["v"], "checks": cks})
	}
	sort.Slice(out, func(i, j int) bool {
		return Str(out[i]["node"])+"\x00"+Str(out[i]["id"]) < Str(out[j]["node"])+"\x00"+Str(out[j]["id"])
	})
	return out, nil
}

// ServiceList is Store.ServiceList(peer), the query the exported-list handler prunes from.
func (w *World) ServiceList(peer string) []string {
	_, l, _ := w.Store().ServiceList(nil, nil, peer)
	out := []string{}
	for _, s := range l {
		out = append(out, s.Name)
	}
	sort.Strings(out)
	return out
}

// ---------------------------------------------------------------- exporter

// Export builds a fresh store holding the local services, peerings for every peer named in the
// command and ONE exported-services config entry with the command's Services list, and asks the
// real Store.ExportedServicesForPeer what is offered to the command's peer.
func Export(c M, fault Fault) M {
	w, err := NewWorld(nil)
	if err != nil {
		return errRes(err)
	}
	s := w.Store()
	peers := map[string]bool{Str(c["peer"]): true}
	entry := &structs.ExportedServicesConfigEntry{Name: "default"}
	for _, e0 := range List(c["cfg"]) {
		e := e0.(map[string]any)
		es := structs.ExportedService{Name: Str(e["name"])}
		for _, p := range List(e["peers"]) {
			es.Consumers = append(es.Consumers, structs.ServiceConsumer{Peer: Str(p)})
			peers[Str(p)] = true
		}
		entry.Services = append(entry.Services, es)
	}
	names := []string{}
	for p := range peers {
		names = append(names, p)
	}
	sort.Strings(names)
	for _, p := range names {
		if err := w.AddPeer(p); err != nil {
			return errRes(err)
		}
	}
	b := &backend{w: w}
	if err := b.CatalogRegister(&structs.RegisterRequest{Datacenter: "dc1", ID: nodeID("ln"), Node: "ln", Address: "10.9.9.9"}); err != nil {
		return errRes(err)
	}
	for k, l0 := range List(c["lsvcs"]) {
		l := l0.(map[string]any)
		name := Str(l["name"])
		ns := &structs.NodeService{Kind: structs.ServiceKind(Str(l["kind"])), ID: fmt.Sprintf("%s-%d", name, k), Service: name, Port: 8000}
		if ns.Kind == structs.ServiceKindConnectProxy {
			ns.Proxy.DestinationServiceName = strings.TrimSuffix(name, SidecarSuffix)
		}
		if err := b.CatalogRegister(&structs.RegisterRequest{Datacenter: "dc1", Node: "ln", SkipNodeUpdate: true, Service: ns}); err != nil {
			return errRes(err)
		}
	}
	// discovery chains of connect-enabled exports are compiled against the cluster's trust domain
	w.idx++
	if err := s.CASetConfig(w.idx, &structs.CAConfiguration{ClusterID: "11111111-2222-3333-4444-555555555555"}); err != nil {
		return errRes(err)
	}
	for _, r := range List(c["resolvers"]) {
		w.idx++
		if err := s.EnsureConfigEntry(w.idx, &structs.ServiceResolverConfigEntry{Kind: structs.ServiceResolver, Name: Str(r)}); err != nil {
			return errRes(err)
		}
	}
	if len(entry.Services) > 0 {
		if err := entry.Normalize(); err != nil {
			return errRes(err)
		}
		if err := entry.Validate(); err != nil {
			return errRes(err)
		}
		w.idx++
		if err := s.EnsureConfigEntry(w.idx, entry); err != nil {
			return errRes(err)
		}
	}
	_, list, err := s.ExportedServicesForPeer(nil, UUID("peering:"+Str(c["peer"])), "dc1")
	if err != nil {
		return errRes(err)
	}
	svcs, chains := []string{}, []string{}
	for _, sn := range list.Services {
		svcs = append(svcs, sn.Name)
	}
	for sn := range list.DiscoChains {
		chains = append(chains, sn.Name)
	}
	if fault == FaultOverExport {
		svcs = append(svcs, "leaked")
	}
	sort.Strings(svcs)
	sort.Strings(chains)
	return M{"ok": true, "err": "", "services": svcs, "chains": chains}
}
