package peerh

// End-to-end profile: a real EXPORTING cluster X (fsm.FSM + state.Store with its event
// publisher + peerstream.Server) and a real IMPORTING cluster I are joined by an in-memory
// stream; both ends run the real (*peerstream.Server).HandleStream. Commands change X's
// exported-services config entry (the whole Services list in ONE write) and X's local catalog;
// after every command the harness waits until the replication has settled and records X's config
// entry and catalog and I's complete store. spec/PeeringTrace.tla judges whether I holds exactly
// what X exports now.
//
// Settling is not a verdict: the harness waits until (a) every Response one end sent has been
// acknowledged by the other end (the receiver applies a Response before it acknowledges it),
// (b) nothing moved for a quiet window, and (c) the importer's view of the peer equals what X's
// store says is exported - or, when (c) does not become true, until nothing at all has moved for
// a long patience window. Windows scale with the replication latency measured in this run.

import (
	"context"
	"fmt"
	"io"
	"sort"
	"sync"
	"sync/atomic"
	"time"

	"github.com/hashicorp/consul/agent/consul/autopilotevents"
	"github.com/hashicorp/consul/agent/consul/state"
	"github.com/hashicorp/consul/agent/consul/stream"
	"github.com/hashicorp/consul/agent/grpc-external/services/peerstream"
	"github.com/hashicorp/consul/agent/structs"
	"github.com/hashicorp/consul/api"
	"github.com/hashicorp/consul/proto/private/pbpeering"
	"github.com/hashicorp/consul/proto/private/pbpeerstream"
	"github.com/hashicorp/consul/types"
)

// pipeEnd is one end of the in-memory bidirectional stream.
type pipeEnd struct {
	ctx  context.Context
	in   <-chan *pbpeerstream.ReplicationMessage
	out  chan<- *pbpeerstream.ReplicationMessage
	resp *int64 // Responses sent by this end
	acks *int64 // ACK / NACK requests sent by this end
	nack *int64
	log  *[]string
	mu   *sync.Mutex
}

var _ peerstream.BidirectionalStream = (*pipeEnd)(nil)

func (p *pipeEnd) Context() context.Context { return p.ctx }

func (p *pipeEnd) Send(m *pbpeerstream.ReplicationMessage) error {
	if r := m.GetResponse(); r != nil {
		atomic.AddInt64(p.resp, 1)
		if p.log != nil {
			p.mu.Lock()
			*p.log = append(*p.log, r.ResourceURL[len("type.googleapis.com/hashicorp.consul.internal.peerstream."):]+":"+r.ResourceID)
			p.mu.Unlock()
		}
	}
	select {
	case p.out <- m:
	case <-p.ctx.Done():
		return p.ctx.Err()
	}
	// count the acknowledgement only after it is on the wire
	if r := m.GetRequest(); r != nil && r.ResponseNonce != "" {
		atomic.AddInt64(p.acks, 1)
		if r.Error != nil {
			atomic.AddInt64(p.nack, 1)
		}
	}
	return nil
}

func (p *pipeEnd) Recv() (*pbpeerstream.ReplicationMessage, error) {
	select {
	case m := <-p.in:
		return m, nil
	case <-p.ctx.Done():
		return nil, io.EOF
	}
}

// E2E is the pair of clusters.
type E2E struct {
	X, I     *World
	Peer     string // I's name for X (key of the imported rows)
	Consumer string // X's name for I (consumer name in exported-services entries)
	cancel   context.CancelFunc
	wg       sync.WaitGroup

	xResp, xAcks, iResp, iAcks, nacks int64
	sent                              []string // Responses X sent, "<type>:<id>", in order
	mu                                sync.Mutex
	streamErr                         []string

	maxLat time.Duration // longest command -> mirrored latency seen so far
	Settle SettleOpts
}

type SettleOpts struct {
	Quiet    time.Duration // minimum quiet window
	Patience time.Duration // minimum wait when the mirror is not reached
	Max      time.Duration // hard limit per command
}

func DefaultSettle() SettleOpts {
	return SettleOpts{Quiet: 120 * time.Millisecond, Patience: 6 * time.Second, Max: 90 * time.Second}
}

func (w *World) next() uint64 {
	w.mu.Lock()
	defer w.mu.Unlock()
	w.idx++
	return w.idx
}

func readyServers(req stream.SubscribeRequest, buf stream.SnapshotAppender) (uint64, error) {
	buf.Append([]stream.Event{{Topic: autopilotevents.EventTopicReadyServers, Index: 1, Payload: autopilotevents.EventPayloadReadyServers{}}})
	return 1, nil
}

func newStreamWorld(ctx context.Context, dc string) (*World, error) {
	pub := stream.NewEventPublisher(10 * time.Second)
	w, err := newWorld(nil, pub, false, dc)
	if err != nil {
		return nil, err
	}
	s := w.Store()
	for _, e := range []error{
		pub.RegisterHandler(state.EventTopicServiceHealth, s.ServiceHealthSnapshot, false),
		pub.RegisterHandler(state.EventTopicServiceHealthConnect, s.ServiceHealthSnapshot, false),
		pub.RegisterHandler(state.EventTopicCARoots, s.CARootsSnapshot, false),
		pub.RegisterHandler(autopilotevents.EventTopicReadyServers, readyServers, false),
	} {
		if e != nil {
			return nil, e
		}
	}
	go pub.Run(ctx)
	return w, nil
}

// NewE2E builds both clusters, the peerings on both sides and opens the stream (I dials X).
func NewE2E(peer, consumer string, otherPeers []string) (*E2E, error) {
	ctx, cancel := context.WithCancel(context.Background())
	e := &E2E{Peer: peer, Consumer: consumer, cancel: cancel, Settle: DefaultSettle()}
	var err error
	if e.X, err = newStreamWorld(ctx, "dc-x"); err != nil {
		cancel()
		return nil, err
	}
	if e.I, err = newStreamWorld(ctx, "dc1"); err != nil {
		cancel()
		return nil, err
	}
	idX, idI := UUID("peering-x:"+consumer), UUID("peering:"+peer)
	// X accepts (no PeerID), I dials
	if err = e.X.Store().PeeringWrite(e.X.next(), &pbpeering.PeeringWriteRequest{
		Peering: &pbpeering.Peering{ID: idX, Name: consumer, State: pbpeering.PeeringState_ACTIVE}}); err != nil {
		cancel()
		return nil, err
	}
	if err = e.I.Store().PeeringWrite(e.I.next(), &pbpeering.PeeringWriteRequest{
		Peering: &pbpeering.Peering{ID: idI, Name: peer, PeerID: idX, PeerServerAddresses: []string{"127.0.0.1:1"}, State: pbpeering.PeeringState_ACTIVE}}); err != nil {
		cancel()
		return nil, err
	}
	for _, p := range otherPeers {
		if p != peer {
			if err = e.I.AddPeer(p); err != nil {
				cancel()
				return nil, err
			}
		}
	}
	return e, nil
}

// Open starts HandleStream on both ends.
func (e *E2E) Open() {
	ctx, cancel := context.WithCancel(context.Background())
	prev := e.cancel
	e.cancel = func() { cancel(); prev() }
	x2i := make(chan *pbpeerstream.ReplicationMessage, 256)
	i2x := make(chan *pbpeerstream.ReplicationMessage, 256)
	xEnd := &pipeEnd{ctx: ctx, in: i2x, out: x2i, resp: &e.xResp, acks: &e.xAcks, nack: &e.nacks, log: &e.sent, mu: &e.mu}
	iEnd := &pipeEnd{ctx: ctx, in: x2i, out: i2x, resp: &e.iResp, acks: &e.iAcks, nack: &e.nacks, mu: &e.mu}
	idX, idI := UUID("peering-x:"+e.Consumer), UUID("peering:"+e.Peer)
	run := func(s *peerstream.Server, req peerstream.HandleStreamRequest) {
		defer e.wg.Done()
		if err := s.HandleStream(req); err != nil && ctx.Err() == nil {
			e.mu.Lock()
			e.streamErr = append(e.streamErr, err.Error())
			e.mu.Unlock()
		}
	}
	e.wg.Add(2)
	go run(e.X.Srv, peerstream.HandleStreamRequest{LocalID: idX, RemoteID: "", PeerName: e.Consumer, Partition: "default", Stream: xEnd})
	go run(e.I.Srv, peerstream.HandleStreamRequest{LocalID: idI, RemoteID: idX, PeerName: e.Peer, Partition: "default", Stream: iEnd})
}

func (e *E2E) Close() {
	e.cancel()
	done := make(chan struct{})
	go func() { e.wg.Wait(); close(done) }()
	select {
	case <-done:
	case <-time.After(5 * time.Second):
	}
}

// ---------------------------------------------------------------- commands on X

// XConfig replaces the Services list of X's exported-services config entry in ONE write
// (an empty list deletes the entry).
func (e *E2E) XConfig(c M) M {
	s := e.X.Store()
	entry := &structs.ExportedServicesConfigEntry{Name: "default"}
	for _, e0 := range List(c["cfg"]) {
		m := e0.(map[string]any)
		es := structs.ExportedService{Name: Str(m["name"])}
		for _, p := range List(m["peers"]) {
			es.Consumers = append(es.Consumers, structs.ServiceConsumer{Peer: Str(p)})
		}
		entry.Services = append(entry.Services, es)
	}
	if len(entry.Services) == 0 {
		return errRes(s.DeleteConfigEntry(e.X.next(), structs.ExportedServices, "default", nil))
	}
	if err := entry.Normalize(); err != nil {
		return errRes(err)
	}
	if err := entry.Validate(); err != nil {
		return errRes(err)
	}
	return errRes(s.EnsureConfigEntry(e.X.next(), entry))
}

// XRegister upserts one instance (with its node, an optional node-level check "nc" and an
// optional service check) in X's LOCAL catalog; XDeregister removes an instance.
func (e *E2E) XRegister(c M) M {
	b := &backend{w: e.X}
	n, id, name := Str(c["node"]), Str(c["id"]), Str(c["name"])
	req := &structs.RegisterRequest{Datacenter: "dc-x", ID: nodeID(n), Node: n, Address: Str(c["addr"]),
		NodeMeta: map[string]string{"a": Str(c["addr"])}, TaggedAddresses: map[string]string{"lan": Str(c["addr"])},
		Service: &structs.NodeService{ID: id, Service: name, Port: port(c["ver"]), Tags: []string{Str(c["ver"])},
			Meta: map[string]string{"v": Str(c["ver"])}, Weights: &structs.Weights{Passing: 1, Warning: 1}}}
	cid := types.CheckID(Str(c["cid"]))
	if st := Str(c["st"]); st != "none" {
		req.Checks = append(req.Checks, &structs.HealthCheck{Node: n, CheckID: cid, Name: "chk " + id, Status: st, Output: st,
			ServiceID: id, ServiceName: name})
	}
	if st := Str(c["nst"]); st != "none" {
		req.Checks = append(req.Checks, &structs.HealthCheck{Node: n, CheckID: "nc", Name: "chk nc", Status: st, Output: st})
	}
	if err := b.CatalogRegister(req); err != nil {
		return errRes(err)
	}
	if Str(c["st"]) == "none" {
		if err := b.CatalogDeregister(&structs.DeregisterRequest{Datacenter: "dc-x", Node: n, CheckID: cid}); err != nil {
			return errRes(err)
		}
	}
	if Str(c["nst"]) == "none" {
		if err := b.CatalogDeregister(&structs.DeregisterRequest{Datacenter: "dc-x", Node: n, CheckID: "nc"}); err != nil {
			return errRes(err)
		}
	}
	return errRes(nil)
}

func (e *E2E) XDeregister(c M) M {
	b := &backend{w: e.X}
	return errRes(b.CatalogDeregister(&structs.DeregisterRequest{Datacenter: "dc-x", Node: Str(c["node"]), ServiceID: Str(c["id"])}))
}

// XConfigRead projects the config entry as stored (not as commanded).
func (e *E2E) XConfigRead() []M {
	out := []M{}
	_, raw, err := e.X.Store().ConfigEntry(nil, structs.ExportedServices, "default", nil)
	if err != nil || raw == nil {
		return out
	}
	entry, ok := raw.(*structs.ExportedServicesConfigEntry)
	if !ok {
		return out
	}
	for _, s := range entry.Services {
		ps := []string{}
		for _, c := range s.Consumers {
			ps = append(ps, c.Peer)
		}
		out = append(out, M{"name": s.Name, "peers": ps})
	}
	return out
}

// ---------------------------------------------------------------- settling

type instKey struct{ svc, node, id, port, health string }

func worst(checks structs.HealthChecks) string {
	if len(checks) == 0 {
		return "none"
	}
	score := map[string]int{api.HealthMaint: 1, api.HealthCritical: 2, api.HealthWarning: 3, api.HealthPassing: 4}
	best := api.HealthPassing
	for _, c := range checks {
		if score[c.Status] < score[best] {
			best = c.Status
		}
	}
	return best
}

// mirrored: does I's view of the peer equal what X's store exports now? (settle heuristic only)
func (e *E2E) mirrored() bool {
	xs, is := e.X.Store(), e.I.Store()
	_, list, err := xs.ExportedServicesForPeer(nil, UUID("peering-x:"+e.Consumer), "dc-x")
	if err != nil {
		return false
	}
	want := map[instKey]bool{}
	names := map[string]bool{}
	for _, sn := range list.Services {
		_, csns, _ := xs.CheckServiceNodes(nil, sn.Name, nil, "")
		for _, c := range csns {
			names[sn.Name] = true
			want[instKey{sn.Name, c.Node.Node, c.Service.ID, fmt.Sprint(c.Service.Port), worst(c.Checks)}] = true
		}
	}
	_, have, _ := is.ServiceList(nil, nil, e.Peer)
	got := map[instKey]bool{}
	for _, sn := range have {
		if !names[sn.Name] {
			return false
		}
		_, csns, _ := is.CheckServiceNodes(nil, sn.Name, nil, e.Peer)
		for _, c := range csns {
			got[instKey{sn.Name, c.Node.Node, c.Service.ID, fmt.Sprint(c.Service.Port), worst(c.Checks)}] = true
		}
	}
	if len(got) != len(want) {
		return false
	}
	for k := range want {
		if !got[k] {
			return false
		}
	}
	return true
}

type snap struct{ xr, xa, ir, ia int64 }

func (e *E2E) counters() snap {
	return snap{atomic.LoadInt64(&e.xResp), atomic.LoadInt64(&e.xAcks), atomic.LoadInt64(&e.iResp), atomic.LoadInt64(&e.iAcks)}
}

// WaitSettled returns facts about the wait (recorded, not judged).
func (e *E2E) WaitSettled(final bool) M {
	start := time.Now()
	last := e.counters()
	lastMove := start
	var reached time.Time
	for {
		time.Sleep(3 * time.Millisecond)
		now := time.Now()
		cur := e.counters()
		if cur != last {
			last, lastMove = cur, now
		}
		balanced := cur.xr == cur.ia && cur.ir == cur.xa
		quiet := e.Settle.Quiet
		if q := 3 * e.maxLat; q > quiet {
			quiet = q
		}
		if final {
			quiet *= 3
		}
		patience := e.Settle.Patience
		if p := 20 * e.maxLat; p > patience {
			patience = p
		}
		still := now.Sub(lastMove)
		if balanced && e.mirrored() {
			if reached.IsZero() {
				reached = now
				if lat := now.Sub(start); lat > e.maxLat {
					e.maxLat = lat
				}
			}
			if still >= quiet && now.Sub(reached) >= quiet {
				return M{"mirrored": true, "ms": now.Sub(start).Milliseconds(), "lat_ms": reached.Sub(start).Milliseconds()}
			}
		} else {
			reached = time.Time{}
			if balanced && still >= patience {
				return M{"mirrored": false, "ms": now.Sub(start).Milliseconds()}
			}
		}
		if now.Sub(start) >= e.Settle.Max {
			return M{"mirrored": false, "timeout": true, "ms": now.Sub(start).Milliseconds()}
		}
	}
}

// Facts: what went over the wire so far (recorded for diagnosis).
func (e *E2E) Facts() M {
	e.mu.Lock()
	defer e.mu.Unlock()
	sent := append([]string{}, e.sent...)
	errs := append([]string{}, e.streamErr...)
	sort.Strings(errs)
	return M{"sent": sent, "nacks": atomic.LoadInt64(&e.nacks), "stream_errors": errs}
}
