// Package cah drives the real Connect CA (agent/consul CAManager with the built-in consul provider
// over a real state.Store, and the raw replicated CA commands of agent/consul/fsm) with the abstract
// commands of spec/CA.tla and projects results back to the abstract vocabulary.
//
// Nothing here decides anything: shapes are concretised into real CSRs / policies / CARequests,
// results are classified by table lookups that invert the concretisation. TLC (spec/CATrace.tla)
// is the only judge.
package cah

import (
	"bytes"
	"crypto/ecdsa"
	"crypto/elliptic"
	"crypto/rand"
	"crypto/x509"
	"crypto/x509/pkix"
	"encoding/asn1"
	"encoding/pem"
	"errors"
	"fmt"
	"math/big"
	"net"
	"net/url"
	"sort"
	"strings"
	"time"

	"github.com/hashicorp/consul/acl"
	"github.com/hashicorp/consul/agent/connect"
	"github.com/hashicorp/consul/agent/consul"
	"github.com/hashicorp/consul/agent/consul/fsm"
	"github.com/hashicorp/consul/agent/consul/state"
	"github.com/hashicorp/consul/agent/structs"
)

type M = map[string]any

const (
	ClusterID = "aabbccdd-1122-4e5f-8a9b-c0d1e2f3a4b5"
	OwnDC     = "dc1"
	OtherDC   = "dc2"
)

var (
	TrustDomain  = strings.ToLower(ClusterID + ".consul")
	ForeignHost  = "11111111-2222-3333-4444-555555555555.consul"
	KnownBases   = []string{"web", "db", "other", "api-v2", "n1", "node.example", "a_b"}
	csrKey       *ecdsa.PrivateKey
	oidSAN       = asn1.ObjectIdentifier{2, 5, 29, 17}
	ErrInfra     = errors.New("infrastructure")
	keyBitsCycle = []int{256, 384, 521, 224}
)

func init() {
	k, err := ecdsa.GenerateKey(elliptic.P256(), rand.Reader)
	if err != nil {
		panic(err)
	}
	csrKey = k
}

// ------------------------------------------------------------------ concretisation

func str(m M, k string) string {
	if v, ok := m[k].(string); ok {
		return v
	}
	return ""
}

func num(m M, k string) int {
	if v, ok := m[k].(float64); ok {
		return int(v)
	}
	return 0
}

func boolean(m M, k string) bool {
	v, _ := m[k].(bool)
	return v
}

func list(m M, k string) []M {
	var out []M
	if l, ok := m[k].([]any); ok {
		for _, x := range l {
			if mm, ok := x.(M); ok {
				out = append(out, mm)
			}
		}
	}
	return out
}

// ConcName is the concrete spelling of (base, variant).
func ConcName(base, variant string) string {
	switch variant {
	case "upper":
		return strings.ToUpper(base)
	case "slash":
		return base + "/x"
	}
	return base
}

// ClassName inverts ConcName over the known base names.
func ClassName(s string) (string, string) {
	for _, b := range KnownBases {
		switch s {
		case b:
			return b, "exact"
		case strings.ToUpper(b):
			return b, "upper"
		case b + "/x":
			return b, "slash"
		}
	}
	return s, "unknown"
}

func pctAll(s string) string {
	// escape the second character (or the only one)
	i := 0
	if len(s) > 1 {
		i = 1
	}
	return s[:i] + fmt.Sprintf("%%%02X", s[i]) + s[i+1:]
}

// segment writes the principal segment of a URI for an encoding.
func segment(base, enc string) string {
	switch enc {
	case "pct":
		return pctAll(base)
	case "case":
		return strings.ToUpper(base)
	case "slash":
		return base + "%2Fx"
	}
	return base
}

// hostOf spells the authority part of the URI for a trust-domain class. Only "own", "ownUpper" and
// "ownUser" have a HOST component equal to the cluster's trust domain (ASCII case folding); the
// others are spellings a URL parser tolerates around the very same name.
func hostOf(td string) string {
	switch td {
	case "ownUpper":
		return strings.ToUpper(TrustDomain)
	case "ownUser":
		return "user@" + TrustDomain
	case "ownPort":
		return TrustDomain + ":8443"
	case "ownUpperPort":
		return strings.ToUpper(TrustDomain) + ":8443"
	case "ownEmptyPort":
		return TrustDomain + ":"
	case "ownUserPort":
		return "user:pw@" + TrustDomain + ":1"
	case "ipv6":
		return "[::1]"
	case "ownDot":
		return TrustDomain + "."
	case "ownBracket":
		return "[" + TrustDomain + "]"
	case "foreign":
		return ForeignHost
	}
	return TrustDomain
}

// HostOf is hostOf for the random driver.
func HostOf(td string) string { return hostOf(td) }

func dcOf(dc string) string {
	if dc == "other" {
		return OtherDC
	}
	return OwnDC
}

func apOf(ap string) string {
	switch ap {
	case "default":
		return "/ap/default"
	case "other":
		return "/ap/foo"
	}
	return ""
}

// ConcURI turns an IdShape into the text of a URI SAN. A shape may carry "raw" (used verbatim).
func ConcURI(s M) string {
	if raw := str(s, "raw"); raw != "" {
		return raw
	}
	host := hostOf(str(s, "td"))
	dc := dcOf(str(s, "dc"))
	name, enc, ap := str(s, "name"), str(s, "enc"), apOf(str(s, "ap"))
	switch str(s, "kind") {
	case "service":
		return "spiffe://" + host + ap + "/ns/default/dc/" + dc + "/svc/" + segment(name, enc)
	case "agent":
		return "spiffe://" + host + ap + "/agent/client/dc/" + dc + "/id/" + segment(name, enc)
	case "mesh-gateway":
		return "spiffe://" + host + ap + "/gateway/mesh/dc/" + segment(dc, enc)
	case "server":
		return "spiffe://" + host + "/agent/server/dc/" + segment(dc, enc)
	case "signing":
		return "spiffe://" + host
	}
	// garbage, one form per encoding
	switch enc {
	case "pct":
		return "spiffe://" + host + "/ns/default/dc/" + dc + "/svc"
	case "case":
		return "spiffe://" + host + "/NS/default/DC/" + dc + "/SVC/" + name
	case "slash":
		return "spiffe://" + host + "/ns/default/dc/" + dc + "/svc/" + name + "/extra"
	}
	return "https://" + host + "/ns/default/dc/" + dc + "/svc/" + name
}

// BuildCSR makes a real PKCS#10 request whose SAN extension is crafted by hand so that any URI text
// survives (x509.CreateCertificateRequest only signs and wraps it).
func BuildCSR(csr M) (string, []string, error) {
	var raw []asn1.RawValue
	uris := []string{}
	for _, s := range list(csr, "uris") {
		u := ConcURI(s)
		uris = append(uris, u)
		raw = append(raw, asn1.RawValue{Tag: 6, Class: 2, Bytes: []byte(u)})
	}
	for i := 0; i < num(csr, "dns"); i++ {
		n := []string{"server.dc1.consul", "localhost", "web.service.consul"}[i%3]
		raw = append(raw, asn1.RawValue{Tag: 2, Class: 2, Bytes: []byte(n)})
	}
	for i := 0; i < num(csr, "emails"); i++ {
		raw = append(raw, asn1.RawValue{Tag: 1, Class: 2, Bytes: []byte(fmt.Sprintf("u%d@example.com", i))})
	}
	for i := 0; i < num(csr, "ips"); i++ {
		raw = append(raw, asn1.RawValue{Tag: 7, Class: 2, Bytes: net.IPv4(127, 0, 0, byte(i+1)).To4()})
	}
	tpl := &x509.CertificateRequest{
		Subject:            pkix.Name{CommonName: "verif"},
		SignatureAlgorithm: x509.ECDSAWithSHA256,
	}
	if len(raw) > 0 {
		val, err := asn1.Marshal(raw)
		if err != nil {
			return "", uris, err
		}
		tpl.ExtraExtensions = []pkix.Extension{{Id: oidSAN, Critical: true, Value: val}}
	}
	if str(csr, "ext") == "ca" {
		// the request asks to be a CA: basicConstraints CA:TRUE and keyUsage digitalSignature|keyCertSign|cRLSign
		bc, _ := asn1.Marshal(struct {
			IsCA bool `asn1:"optional"`
		}{true})
		ku, _ := asn1.Marshal(asn1.BitString{Bytes: []byte{0x86}, BitLength: 7})
		tpl.ExtraExtensions = append(tpl.ExtraExtensions,
			pkix.Extension{Id: asn1.ObjectIdentifier{2, 5, 29, 19}, Critical: true, Value: bc},
			pkix.Extension{Id: asn1.ObjectIdentifier{2, 5, 29, 15}, Critical: true, Value: ku})
	}
	der, err := x509.CreateCertificateRequest(rand.Reader, tpl, csrKey)
	if err != nil {
		return "", uris, err
	}
	return string(pem.EncodeToMemory(&pem.Block{Type: "CERTIFICATE REQUEST", Bytes: der})), uris, nil
}

// PolicyRules compiles abstract scopes (write grants) and optional read grants into policy source.
func PolicyRules(scopes, reads []M) string {
	var b strings.Builder
	emit := func(sc M, level string) {
		name := ConcName(str(sc, "name"), str(sc, "var"))
		switch str(sc, "res") {
		case "service":
			fmt.Fprintf(&b, "service %q { policy = %q }\n", name, level)
		case "node":
			fmt.Fprintf(&b, "node %q { policy = %q }\n", name, level)
		case "mesh":
			fmt.Fprintf(&b, "mesh = %q\n", level)
		case "acl":
			fmt.Fprintf(&b, "acl = %q\n", level)
		}
	}
	for _, sc := range scopes {
		emit(sc, "write")
	}
	for _, sc := range reads {
		emit(sc, "read")
	}
	return b.String()
}

// Authorizer compiles the real authorizer (default deny) from policy source.
func Authorizer(rules string) (acl.Authorizer, error) {
	if strings.TrimSpace(rules) == "" {
		return acl.NewPolicyAuthorizerWithDefaults(acl.DenyAll(), nil, nil)
	}
	p, err := acl.NewPolicyFromSource(rules, nil, nil)
	if err != nil {
		return nil, err
	}
	return acl.NewPolicyAuthorizerWithDefaults(acl.DenyAll(), []*acl.Policy{p}, nil)
}

// ------------------------------------------------------------------ projection helpers

func tdClass(host string) string {
	switch {
	case host == TrustDomain:
		return "own"
	case strings.EqualFold(host, TrustDomain):
		return "ownUpper"
	}
	return "foreign"
}

func dcClass(dc string) string {
	if dc == OwnDC {
		return "own"
	}
	return "other"
}

func apClass(p string) string {
	if p == "" || p == "default" {
		return "default"
	}
	return "other"
}

// ClassID is what a verifier sees: connect.ParseCertURI on a URI SAN, mapped to the abstract vocabulary.
func ClassID(id connect.CertURI, err error) M {
	out := M{"kind": "garbage", "td": "own", "dc": "own", "name": "", "var": "exact", "ap": "default"}
	if err != nil {
		return out
	}
	switch v := id.(type) {
	case *connect.SpiffeIDService:
		n, vr := ClassName(v.Service)
		out = M{"kind": "service", "td": tdClass(v.Host), "dc": dcClass(v.Datacenter), "name": n, "var": vr, "ap": apClass(v.Partition)}
		if v.Namespace != "default" {
			out["ap"] = "other"
		}
	case *connect.SpiffeIDAgent:
		n, vr := ClassName(v.Agent)
		out = M{"kind": "agent", "td": tdClass(v.Host), "dc": dcClass(v.Datacenter), "name": n, "var": vr, "ap": apClass(v.Partition)}
	case *connect.SpiffeIDMeshGateway:
		out = M{"kind": "mesh-gateway", "td": tdClass(v.Host), "dc": dcClass(v.Datacenter), "name": "", "var": "exact", "ap": apClass(v.Partition)}
	case *connect.SpiffeIDServer:
		out = M{"kind": "server", "td": tdClass(v.Host), "dc": dcClass(v.Datacenter), "name": "", "var": "exact", "ap": "default"}
	case *connect.SpiffeIDSigning:
		out = M{"kind": "signing", "td": tdClass(v.Host()), "dc": "own", "name": "", "var": "exact", "ap": "default"}
	}
	return out
}

func cfgName(c *structs.CAConfiguration) string {
	if c == nil {
		return ""
	}
	if v, ok := c.Config["v"]; ok {
		return fmt.Sprint(v)
	}
	return fmt.Sprintf("%s/%v/%v/%v", c.Provider, c.Config["PrivateKeyType"], c.Config["PrivateKeyBits"], c.Config["LeafCertTTL"])
}

func rootsJ(rs []*structs.CARoot) []any {
	out := []any{}
	for _, r := range rs {
		out = append(out, M{"id": r.ID, "active": r.Active})
	}
	sort.Slice(out, func(i, j int) bool { return out[i].(M)["id"].(string) < out[j].(M)["id"].(string) })
	return out
}

func certSerials(pems ...string) []uint64 {
	var out []uint64
	for _, p := range pems {
		rest := []byte(p)
		for {
			var blk *pem.Block
			blk, rest = pem.Decode(rest)
			if blk == nil {
				break
			}
			if c, err := x509.ParseCertificate(blk.Bytes); err == nil && c.SerialNumber.IsUint64() {
				out = append(out, c.SerialNumber.Uint64())
			}
		}
	}
	return out
}

// World is one history: a state store, optionally the real CAManager on top of it.
type World struct {
	Store  *state.Store
	Del    *consul.VerifCADelegate
	Mgr    *consul.CAManager
	Emit   func(M)
	serial map[uint64]bool // serial numbers handed out so far (leafs, counter results)
	idx    uint64          // raw-command index (roots profile)
	nconf  int
	bits   int
	pre    M
	preCmd M

	conf      map[string]any        // CA configuration in force (last successful UpdateConfiguration)
	named     map[string]*namedRoot // operator-supplied roots ("A", "B"): same key and certificate every time
	raceArmed bool                  // commit a competing CAOpSetRoots ahead of the manager's next roots-bearing request
	raceFired bool
	inRace    bool
}

// Project copies the CA tables: roots (id, active), roots index, config (name, modify index), serials seen.
func (w *World) Project() M {
	ridx, roots, err := w.Store.CARoots(nil)
	if err != nil {
		panic(err)
	}
	_, conf, err := w.Store.CAConfig(nil)
	if err != nil {
		panic(err)
	}
	cfg := M{"v": "", "mi": 0}
	if conf != nil {
		cfg = M{"v": cfgName(conf), "mi": conf.ModifyIndex}
	}
	seen := map[uint64]bool{}
	for s := range w.serial {
		seen[s] = true
	}
	active := ""
	for _, r := range roots {
		if r.Active {
			active = r.ID
		}
		for _, s := range certSerials(append([]string{r.RootCert}, r.IntermediateCerts...)...) {
			seen[s] = true
		}
	}
	sl := []uint64{}
	for s := range seen {
		sl = append(sl, s)
	}
	sort.Slice(sl, func(i, j int) bool { return sl[i] < sl[j] })
	signer := ""
	if w.Mgr != nil {
		signer = w.Mgr.VerifActiveProviderRootID()
	}
	return M{"roots": rootsJ(roots), "ridx": ridx, "cfg": cfg, "seen": sl, "active": active, "signer": signer}
}

// absReq maps a real CARequest to the command vocabulary of spec/CA.tla.
func absReq(req *structs.CARequest, idx uint64) M {
	c := M{"idx": idx}
	switch req.Op {
	case structs.CAOpSetRoots:
		c["t"], c["cas"], c["roots"] = "set-roots", req.Index, rootsJ(req.Roots)
	case structs.CAOpSetConfig:
		c["t"], c["ccas"], c["cfg"] = "set-config", req.Config.ModifyIndex, cfgName(req.Config)
	case structs.CAOpSetRootsAndConfig:
		c["t"], c["cas"], c["roots"], c["ccas"], c["cfg"] = "set-roots-and-config", req.Index, rootsJ(req.Roots), req.Config.ModifyIndex, cfgName(req.Config)
	case structs.CAOpIncrementProviderSerialNumber:
		c["t"] = "inc-serial"
	default:
		c["t"] = "provider-state"
	}
	return c
}

func absResult(c M, result any) M {
	if c["t"] == "inc-serial" {
		if sn, ok := result.(uint64); ok {
			return M{"t": "serial", "serial": sn}
		}
		return M{"t": "op", "ok": "no"}
	}
	switch v := result.(type) {
	case error:
		return M{"t": "op", "ok": "no", "err": true}
	case bool:
		if !v {
			return M{"t": "op", "ok": "no"}
		}
	}
	return M{"t": "op", "ok": "yes"}
}

func (w *World) onApply(before bool, a consul.VerifCAApplied) {
	if before {
		w.pre = w.Project()
		// abstracted BEFORE the apply: the store stamps indexes into the request's config/roots
		w.preCmd = absReq(a.Req, a.Index)
		return
	}
	c := w.preCmd
	c["via"] = "manager"
	if w.inRace {
		c["via"] = "race"
	}
	res := absResult(c, a.Result)
	ev := M{"cmd": c, "res": res, "pre": w.pre, "post": nil}
	if sn, ok := a.Result.(uint64); ok && c["t"] == "inc-serial" {
		defer func() { w.serial[sn] = true }()
	}
	ev["post"] = w.Project()
	if w.Emit != nil {
		w.Emit(ev)
	}
}

// beforeApply is the armed fault RacingRootWrite: just before the manager's own CAOpSetRootsAndConfig /
// CAOpSetRoots gets its index, another writer (Server.pruneCARoots runs outside the manager's lock)
// commits a CAOpSetRoots that re-writes the CURRENT roots at the CURRENT index, so only the index of
// the roots table moves and the manager's conditional write is stale.
func (w *World) beforeApply(req *structs.CARequest) {
	if !w.raceArmed || w.inRace {
		return
	}
	if req.Op != structs.CAOpSetRootsAndConfig && req.Op != structs.CAOpSetRoots {
		return
	}
	ridx, roots, err := w.Store.CARoots(nil)
	if err != nil || len(roots) == 0 {
		return
	}
	var cp []*structs.CARoot
	for _, r := range roots {
		d := *r
		cp = append(cp, &d)
	}
	w.raceArmed, w.inRace = false, true
	defer func() { w.inRace = false }()
	// The competing write is recorded as an event of its own (via = "race"). If the store refuses it - it can,
	// when the implementation has already left the root set in a state the store itself rejects - the fault
	// simply did not fire; nothing is decided here.
	resp, err := w.Del.ApplyCARequest(&structs.CARequest{Op: structs.CAOpSetRoots, Index: ridx, Roots: cp})
	if ok, isBool := resp.(bool); err == nil && isBool && ok {
		w.raceFired = true
	}
}

func baseCAConfig(bits int, ttl string) map[string]any {
	return map[string]any{
		"LeafCertTTL": ttl, "IntermediateCertTTL": "8760h", "RootCertTTL": "87600h",
		"PrivateKeyType": "ec", "PrivateKeyBits": bits,
		"CSRMaxPerSecond": 0, "CSRMaxConcurrent": 0,
	}
}

// NewRoots is a bare store for the raw replicated CA commands.
func NewRoots(emit func(M)) *World {
	return &World{Store: state.NewStateStore(nil), Emit: emit, serial: map[uint64]bool{}}
}

// NewIssue is a primary-datacenter leader: real CAManager + built-in provider, initialised.
func NewIssue(emit func(M)) (*World, error) {
	w := &World{Store: state.NewStateStore(nil), Emit: emit, serial: map[uint64]bool{}, bits: 0}
	w.Del = consul.VerifNewCADelegate(w.Store, OwnDC, 0)
	w.Del.OnApply = w.onApply
	w.Del.BeforeApply = w.beforeApply
	m, err := consul.VerifNewCAManager(w.Del, &structs.CAConfiguration{
		ClusterID: ClusterID, Provider: structs.ConsulCAProvider, Config: baseCAConfig(keyBitsCycle[0], "72h"),
	})
	if err != nil {
		return nil, err
	}
	w.Mgr = m
	return w, nil
}

func errClass(err error) string {
	switch {
	case acl.IsErrPermissionDenied(err):
		return "permission-denied"
	case connect.IsInvalidCSRError(err):
		return "invalid-csr"
	}
	return "other"
}

// Sign executes sign(csr, authz) against the real AuthorizeAndSignCertificate, the way ConnectCA.Sign does
// (connect.ParseCSR on the PEM, then the manager), and projects the reply.
func (w *World) Sign(c M) (M, error) {
	csrM, _ := c["csr"].(M)
	pemCSR, uris, err := BuildCSR(csrM)
	if err != nil {
		return nil, fmt.Errorf("%w: build csr: %v", ErrInfra, err)
	}
	rules := PolicyRules(list(c, "authz"), list(c, "reads"))
	authz, err := Authorizer(rules)
	if err != nil {
		return nil, fmt.Errorf("%w: policy %q: %v", ErrInfra, rules, err)
	}
	res := M{"t": "refused", "uris_sent": uris}
	csr, err := connect.ParseCSR(pemCSR)
	if err != nil {
		res["cls"], res["msg"] = "csr-parse", err.Error()
		return res, nil
	}
	reply, err := w.Mgr.AuthorizeAndSignCertificate(csr, authz)
	if err != nil {
		if errors.Is(err, consul.ErrRateLimited) || strings.Contains(err.Error(), "uninitialized") {
			return nil, fmt.Errorf("%w: %v", ErrInfra, err)
		}
		res["cls"], res["msg"] = errClass(err), err.Error()
		return res, nil
	}
	return w.projectLeaf(reply, uris)
}

func (w *World) projectLeaf(reply *structs.IssuedCert, sent []string) (M, error) {
	var certs []*x509.Certificate
	rest := []byte(reply.CertPEM)
	for {
		var blk *pem.Block
		blk, rest = pem.Decode(rest)
		if blk == nil {
			break
		}
		c, err := x509.ParseCertificate(blk.Bytes)
		if err != nil {
			return nil, fmt.Errorf("%w: issued PEM does not parse: %v", ErrInfra, err)
		}
		certs = append(certs, c)
	}
	if len(certs) == 0 {
		return nil, fmt.Errorf("%w: empty issued PEM", ErrInfra)
	}
	leaf := certs[0]
	ids, texts := []any{}, []any{}
	for _, u := range leaf.URIs {
		ids = append(ids, ClassID(connect.ParseCertURI(u)))
		texts = append(texts, u.String())
	}
	verifies, issuerActive := false, false
	_, active, err := w.Store.CARootActive(nil)
	if err != nil {
		return nil, err
	}
	if active != nil {
		pool := x509.NewCertPool()
		pool.AppendCertsFromPEM([]byte(active.RootCert))
		inter := x509.NewCertPool()
		for _, c := range certs[1:] {
			inter.AddCert(c)
		}
		_, verr := leaf.Verify(x509.VerifyOptions{Roots: pool, Intermediates: inter,
			KeyUsages: []x509.ExtKeyUsage{x509.ExtKeyUsageClientAuth, x509.ExtKeyUsageServerAuth}})
		verifies = verr == nil
		if rc, err := connect.ParseCert(active.RootCert); err == nil {
			issuerActive = bytes.Equal(leaf.AuthorityKeyId, rc.SubjectKeyId) && leaf.CheckSignatureFrom(rc) == nil
		}
	}
	var sn uint64
	if leaf.SerialNumber.IsUint64() {
		sn = leaf.SerialNumber.Uint64()
	}
	res := M{"t": "issued", "uris_sent": sent, "cert": M{
		"ids": ids, "uris": texts, "isca": leaf.IsCA, "serial": sn, "verifies": verifies, "issuer_active": issuerActive,
		"dns": len(leaf.DNSNames), "ips": len(leaf.IPAddresses), "emails": len(leaf.EmailAddresses), "chain": len(certs) - 1,
		"reply": M{"service": reply.Service, "agent": reply.Agent, "kind": string(reply.Kind),
			"uri": reply.ServiceURI + reply.AgentURI + reply.KindURI + reply.ServerURI, "serial": reply.SerialNumber},
	}}
	w.serial[sn] = true
	return res, nil
}

// namedRoot is operator-supplied root material: a private key and a self-signed CA certificate built
// like ConsulProvider.generateCA builds its own (signing SPIFFE ID of the cluster, CA key usages).
// Configuring the built-in provider with the same PrivateKey + RootCert again yields the same root
// (same certificate, same root ID) - that is how an operator rolls a rotation back.
type namedRoot struct {
	Key, Cert, ID string
}

func (w *World) namedRoot(name string) (*namedRoot, error) {
	if nr, ok := w.named[name]; ok {
		return nr, nil
	}
	signer, keyPEM, err := connect.GeneratePrivateKey()
	if err != nil {
		return nil, err
	}
	keyID, err := connect.KeyId(signer.Public())
	if err != nil {
		return nil, err
	}
	// serial numbers of operator-supplied roots are outside the CA's own counter; 1 and 2 are below
	// everything the counter hands out (it starts above the provider table's first index)
	sn := int64(1 + len(w.named))
	tpl := x509.Certificate{
		SerialNumber:          big.NewInt(sn),
		Subject:               pkix.Name{CommonName: "verif supplied root " + name},
		URIs:                  []*url.URL{connect.SpiffeIDSigningForCluster(ClusterID).URI()},
		BasicConstraintsValid: true,
		KeyUsage:              x509.KeyUsageCertSign | x509.KeyUsageCRLSign | x509.KeyUsageDigitalSignature,
		IsCA:                  true,
		NotBefore:             time.Now().Add(-time.Minute),
		NotAfter:              time.Now().Add(87600 * time.Hour),
		AuthorityKeyId:        keyID,
		SubjectKeyId:          keyID,
	}
	der, err := x509.CreateCertificate(rand.Reader, &tpl, &tpl, signer.Public(), signer)
	if err != nil {
		return nil, err
	}
	nr := &namedRoot{Key: keyPEM, Cert: string(pem.EncodeToMemory(&pem.Block{Type: "CERTIFICATE", Bytes: der})),
		ID: connect.CalculateCertFingerprint(der)}
	if w.named == nil {
		w.named = map[string]*namedRoot{}
	}
	w.named[name] = nr
	return nr, nil
}

// Reconfigure goes through the real CAManager.UpdateConfiguration.
//   - rotate, to = "fresh": new key parameters (new provider id, generated key, new root, cross-signing,
//     CAOpSetRootsAndConfig);
//   - rotate, to = "A" | "B": the built-in provider configured with the supplied PrivateKey + RootCert of that
//     named root - a root that may already be in the root set (rolling a rotation back) or even be the active one;
//   - rotate=false: only the leaf TTL changes (same root, CAOpSetConfig).
//
// race arms the RacingRootWrite fault for this call. Afterwards a probe leaf (one plain service identity,
// write granted) is requested from the manager as it now is and projected like any other leaf.
func (w *World) Reconfigure(rotate bool, to string, race bool) (M, error) {
	w.nconf++
	bits := w.bits
	ttl := fmt.Sprintf("%dh", 72+w.nconf)
	target := ""
	var conf map[string]any
	switch {
	case rotate && to != "" && to != "fresh":
		nr, err := w.namedRoot(to)
		if err != nil {
			return nil, fmt.Errorf("%w: supplied root: %v", ErrInfra, err)
		}
		target = nr.ID
		conf = baseCAConfig(keyBitsCycle[0], ttl)
		conf["PrivateKey"], conf["RootCert"] = nr.Key, nr.Cert
	case rotate:
		bits = (w.bits + 1) % len(keyBitsCycle)
		conf = baseCAConfig(keyBitsCycle[bits], ttl)
	default:
		conf = w.lastConf(ttl)
	}
	req := &structs.CARequest{Config: &structs.CAConfiguration{Provider: structs.ConsulCAProvider, Config: conf}}
	w.raceArmed, w.raceFired = race, false
	err := w.Mgr.UpdateConfiguration(req)
	w.raceArmed = false
	res := M{"t": "ok", "raced": w.raceFired, "target": target}
	if err != nil {
		res["t"], res["msg"] = "err", err.Error()
	} else {
		w.bits = bits
		w.conf = conf
	}
	res["signing_root"] = w.Mgr.VerifActiveProviderRootID()
	probe, perr := w.Sign(M{"csr": M{"uris": []any{M{"kind": "service", "td": "own", "dc": "own", "name": "web", "enc": "plain", "ap": "none"}},
		"dns": float64(0), "ips": float64(0), "emails": float64(0)},
		"authz": []any{M{"res": "service", "name": "web", "var": "exact"}}})
	if perr != nil {
		return nil, perr
	}
	res["probe"] = probe
	return res, nil
}

// lastConf is the configuration in force with another leaf TTL (a change that keeps the root).
func (w *World) lastConf(ttl string) map[string]any {
	out := map[string]any{}
	src := w.conf
	if src == nil {
		src = baseCAConfig(keyBitsCycle[0], "72h")
	}
	for k, v := range src {
		out[k] = v
	}
	out["LeafCertTTL"] = ttl
	return out
}

// Raw applies one replicated CA command of the roots profile exactly as the FSM would: msgpack
// round trip, then fsm.ApplyConnectCAOperationFromRequest at the command's index.
func (w *World) Raw(c M) (M, error) {
	idx := uint64(num(c, "idx"))
	req := &structs.CARequest{}
	mkRoots := func() []*structs.CARoot {
		var rs []*structs.CARoot
		for _, r := range list(c, "roots") {
			rs = append(rs, &structs.CARoot{ID: str(r, "id"), Name: "verif " + str(r, "id"), Active: boolean(r, "active")})
		}
		return rs
	}
	mkCfg := func() *structs.CAConfiguration {
		return &structs.CAConfiguration{ClusterID: ClusterID, Provider: structs.ConsulCAProvider,
			Config:    map[string]any{"v": str(c, "cfg")},
			RaftIndex: structs.RaftIndex{ModifyIndex: uint64(num(c, "ccas"))}}
	}
	switch str(c, "t") {
	case "set-roots":
		req.Op, req.Index, req.Roots = structs.CAOpSetRoots, uint64(num(c, "cas")), mkRoots()
	case "set-config":
		req.Op, req.Config = structs.CAOpSetConfig, mkCfg()
	case "set-roots-and-config":
		req.Op, req.Index, req.Roots, req.Config = structs.CAOpSetRootsAndConfig, uint64(num(c, "cas")), mkRoots(), mkCfg()
	case "inc-serial":
		req.Op = structs.CAOpIncrementProviderSerialNumber
	default:
		return nil, fmt.Errorf("%w: unknown raw command %v", ErrInfra, c["t"])
	}
	buf, err := structs.Encode(structs.ConnectCARequestType, req)
	if err != nil {
		return nil, err
	}
	var dec structs.CARequest
	if err := structs.Decode(buf[1:], &dec); err != nil {
		return nil, err
	}
	result := fsm.ApplyConnectCAOperationFromRequest(w.Store, &dec, idx)
	res := absResult(c, result)
	if sn, ok := result.(uint64); ok && c["t"] == "inc-serial" {
		defer func() { w.serial[sn] = true }()
	}
	return res, nil
}
