// Package discoh drives the real discovery-chain compiler (agent/consul/discoverychain) and the
// real config-entry store (agent/consul/state) with the abstract commands of spec/DiscoChain.tla
// and projects entries, compiled graphs and outcomes back to the abstract vocabulary.
//
// Nothing is decided here: the projection copies fields, errors are mapped to a class by the
// words of their message, and full outputs are reduced to a digest so that TLC can compare runs.
package discoh

import (
	"crypto/sha1"
	"encoding/hex"
	"encoding/json"
	"fmt"
	"math/rand"
	"sort"
	"strconv"
	"strings"
	"sync/atomic"
	"time"

	"github.com/davecgh/go-spew/spew"

	"github.com/hashicorp/consul/agent/configentry"
	"github.com/hashicorp/consul/agent/consul/discoverychain"
	"github.com/hashicorp/consul/agent/consul/state"
	"github.com/hashicorp/consul/agent/structs"
)

// ---------------------------------------------------------------- abstract vocabulary

type Ref struct {
	Svc string `json:"svc"`
	Sub string `json:"sub"`
	Dc  string `json:"dc"`
}

type FoSec struct {
	Key     string `json:"key"`
	Form    string `json:"form"` // targets | single | dcs
	Targets []Ref  `json:"targets"`
}

// Entry is the uniform entry record of the specification. Mi is only set on stored entries.
type Entry struct {
	Kind     string   `json:"kind"` // defaults | proxy | router | splitter | resolver
	Name     string   `json:"name"`
	Protocol string   `json:"protocol"`
	Routes   []Ref    `json:"routes"`
	Legs     []Ref    `json:"legs"`
	Subsets  []string `json:"subsets"`
	Defsub   string   `json:"defsub"`
	Redirect Ref      `json:"redirect"`
	Failover []FoSec  `json:"failover"`
	Wp       int      `json:"wp"`
	Mi       *uint64  `json:"mi,omitempty"`
}

type Ctx struct {
	Dc string `json:"dc"` // EvaluateInDatacenter
	Op string `json:"op"` // OverrideProtocol
	Mg string `json:"mg"` // OverrideMeshGateway.Mode
	Ct int    `json:"ct"` // OverrideConnectTimeout, seconds
}

type Cmd struct {
	T    string `json:"t"` // write | delete | compile
	E    *Entry `json:"e,omitempty"`
	Kind string `json:"kind,omitempty"`
	Name string `json:"name,omitempty"`
	Mode string `json:"mode,omitempty"` // set | cas
	Cidx uint64 `json:"cidx"`
	Idx  uint64 `json:"idx"`
	Svc  string `json:"svc,omitempty"`
	Ctx  *Ctx   `json:"ctx,omitempty"`
	Src  string `json:"src,omitempty"` // direct | store
	// Set, when present, is the entry set a direct compile command compiles INSTEAD of the stored
	// one (the proposed set of a rejected write: sets the store refuses still go through the compiler)
	Set *[]Entry `json:"set,omitempty"`
}

// Proposed is the entry set the store would hold if command c (write/delete) were applied to st.
func Proposed(st State, c *Cmd) []Entry {
	kind, name := c.Kind, c.Name
	if c.T == "write" {
		kind, name = c.E.Kind, c.E.Name
	}
	out := []Entry{}
	for _, e := range st.Ents {
		if e.Kind == kind && e.Name == name {
			continue
		}
		e.Mi = nil
		out = append(out, e)
	}
	if c.T == "write" {
		e := *c.E
		e.Mi = nil
		out = append(out, e)
	}
	return out
}

func (e *Entry) norm() {
	if e.Routes == nil {
		e.Routes = []Ref{}
	}
	if e.Legs == nil {
		e.Legs = []Ref{}
	}
	if e.Subsets == nil {
		e.Subsets = []string{}
	}
	if e.Failover == nil {
		e.Failover = []FoSec{}
	}
	for i := range e.Failover {
		if e.Failover[i].Targets == nil {
			e.Failover[i].Targets = []Ref{}
		}
	}
	// Subsets and Failover are maps in the real entry: canonical order by key
	sort.Strings(e.Subsets)
	sort.SliceStable(e.Failover, func(i, j int) bool { return e.Failover[i].Key < e.Failover[j].Key })
}

// NormEntry makes every list field non-nil (JSON [] instead of null).
func NormEntry(e *Entry) { e.norm() }

var realKind = map[string]string{
	"defaults": structs.ServiceDefaults, "proxy": structs.ProxyDefaults, "router": structs.ServiceRouter,
	"splitter": structs.ServiceSplitter, "resolver": structs.ServiceResolver,
}
var absKind = map[string]string{
	structs.ServiceDefaults: "defaults", structs.ProxyDefaults: "proxy", structs.ServiceRouter: "router",
	structs.ServiceSplitter: "splitter", structs.ServiceResolver: "resolver",
}

// weights of the legs of a splitter for a weight pattern; always sums to 100
func weights(n, wp int) []float32 {
	pat := map[int][][]float32{
		1: {{100}},
		2: {{50, 50}, {0.25, 99.75}, {10, 90}, {33.33, 66.67}, {0.03, 99.97}},
		3: {{33.34, 33.33, 33.33}, {0.25, 0.5, 99.25}, {10, 10, 80}, {0.03, 0.25, 99.72}},
	}
	if n == 0 {
		return nil
	}
	if p, ok := pat[n]; ok {
		return p[((wp%len(p))+len(p))%len(p)]
	}
	out := make([]float32, n)
	for i := range out {
		out[i] = 1
	}
	out[0] = float32(100 - (n - 1))
	return out
}

// Build makes the real config entry of an abstract one. rnd (may be nil) shuffles the insertion
// order of map-valued fields. Duplicate failover keys cannot be represented: error.
func Build(e *Entry, rnd *rand.Rand) (structs.ConfigEntry, error) {
	meta := map[string]string{"wp": strconv.Itoa(e.Wp)}
	switch e.Kind {
	case "defaults":
		return &structs.ServiceConfigEntry{Kind: structs.ServiceDefaults, Name: e.Name, Protocol: e.Protocol}, nil
	case "proxy":
		p := &structs.ProxyConfigEntry{Kind: structs.ProxyDefaults, Name: e.Name}
		if e.Protocol != "" {
			p.Config = map[string]interface{}{"protocol": e.Protocol}
		}
		return p, nil
	case "router":
		r := &structs.ServiceRouterConfigEntry{Kind: structs.ServiceRouter, Name: e.Name, Meta: meta}
		for i, rt := range e.Routes {
			sr := structs.ServiceRoute{Match: &structs.ServiceRouteMatch{HTTP: &structs.ServiceRouteHTTPMatch{PathPrefix: fmt.Sprintf("/r%d", i)}}}
			if rt.Svc != "" || rt.Sub != "" || i%2 == 0 {
				sr.Destination = &structs.ServiceRouteDestination{Service: rt.Svc, ServiceSubset: rt.Sub}
			} // else: nil destination = the router's own service
			r.Routes = append(r.Routes, sr)
		}
		return r, nil
	case "splitter":
		s := &structs.ServiceSplitterConfigEntry{Kind: structs.ServiceSplitter, Name: e.Name, Meta: meta}
		w := weights(len(e.Legs), e.Wp)
		for i, l := range e.Legs {
			s.Splits = append(s.Splits, structs.ServiceSplit{Weight: w[i], Service: l.Svc, ServiceSubset: l.Sub})
		}
		return s, nil
	case "resolver":
		r := &structs.ServiceResolverConfigEntry{Kind: structs.ServiceResolver, Name: e.Name, DefaultSubset: e.Defsub, Meta: meta}
		subs := append([]string{}, e.Subsets...)
		if rnd != nil {
			rnd.Shuffle(len(subs), func(i, j int) { subs[i], subs[j] = subs[j], subs[i] })
		}
		for _, s := range subs {
			if r.Subsets == nil {
				r.Subsets = map[string]structs.ServiceResolverSubset{}
			}
			if _, dup := r.Subsets[s]; dup {
				return nil, fmt.Errorf("duplicate subset %q", s)
			}
			r.Subsets[s] = structs.ServiceResolverSubset{Filter: "Service.Meta.version == " + s}
		}
		if e.Redirect != (Ref{}) {
			r.Redirect = &structs.ServiceResolverRedirect{Service: e.Redirect.Svc, ServiceSubset: e.Redirect.Sub, Datacenter: e.Redirect.Dc}
		}
		fos := append([]FoSec{}, e.Failover...)
		if rnd != nil {
			rnd.Shuffle(len(fos), func(i, j int) { fos[i], fos[j] = fos[j], fos[i] })
		}
		for _, f := range fos {
			if r.Failover == nil {
				r.Failover = map[string]structs.ServiceResolverFailover{}
			}
			if _, dup := r.Failover[f.Key]; dup {
				return nil, fmt.Errorf("duplicate failover key %q", f.Key)
			}
			var rf structs.ServiceResolverFailover
			switch f.Form {
			case "single":
				if len(f.Targets) > 0 {
					rf.Service, rf.ServiceSubset = f.Targets[0].Svc, f.Targets[0].Sub
				}
			case "dcs":
				for i, t := range f.Targets {
					if i == 0 {
						rf.Service, rf.ServiceSubset = t.Svc, t.Sub
					}
					rf.Datacenters = append(rf.Datacenters, t.Dc)
				}
			default:
				for _, t := range f.Targets {
					rf.Targets = append(rf.Targets, structs.ServiceResolverFailoverTarget{Service: t.Svc, ServiceSubset: t.Sub, Datacenter: t.Dc})
				}
			}
			r.Failover[f.Key] = rf
		}
		return r, nil
	}
	return nil, fmt.Errorf("unknown kind %q", e.Kind)
}

// Project copies a stored config entry back to the abstract record.
func Project(c structs.ConfigEntry) (Entry, bool) {
	e := Entry{Kind: absKind[c.GetKind()], Name: c.GetName()}
	e.norm()
	mi := c.GetRaftIndex().ModifyIndex
	e.Mi = &mi
	if m := c.GetMeta(); m != nil {
		e.Wp, _ = strconv.Atoi(m["wp"])
	}
	switch x := c.(type) {
	case *structs.ServiceConfigEntry:
		e.Protocol = x.Protocol
	case *structs.ProxyConfigEntry:
		if p, ok := x.Config["protocol"].(string); ok {
			e.Protocol = p
		}
	case *structs.ServiceRouterConfigEntry:
		for _, r := range x.Routes {
			if r.Destination == nil {
				e.Routes = append(e.Routes, Ref{})
			} else {
				e.Routes = append(e.Routes, Ref{Svc: r.Destination.Service, Sub: r.Destination.ServiceSubset})
			}
		}
	case *structs.ServiceSplitterConfigEntry:
		for _, s := range x.Splits {
			e.Legs = append(e.Legs, Ref{Svc: s.Service, Sub: s.ServiceSubset})
		}
	case *structs.ServiceResolverConfigEntry:
		for s := range x.Subsets {
			e.Subsets = append(e.Subsets, s)
		}
		sort.Strings(e.Subsets)
		e.Defsub = x.DefaultSubset
		if x.Redirect != nil {
			e.Redirect = Ref{Svc: x.Redirect.Service, Sub: x.Redirect.ServiceSubset, Dc: x.Redirect.Datacenter}
		}
		for k, f := range x.Failover {
			fs := FoSec{Key: k, Targets: []Ref{}}
			switch {
			case len(f.Targets) > 0:
				fs.Form = "targets"
				for _, t := range f.Targets {
					fs.Targets = append(fs.Targets, Ref{Svc: t.Service, Sub: t.ServiceSubset, Dc: t.Datacenter})
				}
			case len(f.Datacenters) > 0:
				fs.Form = "dcs"
				for _, dc := range f.Datacenters {
					fs.Targets = append(fs.Targets, Ref{Svc: f.Service, Sub: f.ServiceSubset, Dc: dc})
				}
			default:
				fs.Form = "single"
				fs.Targets = append(fs.Targets, Ref{Svc: f.Service, Sub: f.ServiceSubset})
			}
			e.Failover = append(e.Failover, fs)
		}
		sort.Slice(e.Failover, func(i, j int) bool { return e.Failover[i].Key < e.Failover[j].Key })
	default:
		return e, false
	}
	return e, true
}

// ---------------------------------------------------------------- the store

type H struct {
	S *state.Store
}

const clusterID = "11111111-2222-3333-4444-555555555555"

func New() (*H, error) {
	s := state.NewStateStore(nil)
	// the run-time path Store.ServiceDiscoveryChain derives the trust domain from the CA config
	if err := s.CASetConfig(1, &structs.CAConfiguration{ClusterID: clusterID, Provider: "consul"}); err != nil {
		return nil, err
	}
	return &H{S: s}, nil
}

type State struct {
	Ents []Entry `json:"ents"`
}

func (h *H) stored() ([]structs.ConfigEntry, error) {
	_, l, err := h.S.ConfigEntries(nil, structs.WildcardEnterpriseMetaInDefaultPartition())
	return l, err
}

func (h *H) State() (State, error) {
	l, err := h.stored()
	if err != nil {
		return State{}, err
	}
	st := State{Ents: []Entry{}}
	for _, c := range l {
		e, ok := Project(c)
		if !ok {
			return st, fmt.Errorf("unexpected stored kind %s", c.GetKind())
		}
		st.Ents = append(st.Ents, e)
	}
	sort.Slice(st.Ents, func(i, j int) bool {
		if st.Ents[i].Kind != st.Ents[j].Kind {
			return st.Ents[i].Kind < st.Ents[j].Kind
		}
		return st.Ents[i].Name < st.Ents[j].Name
	})
	return st, nil
}

var spewCfg = spew.ConfigState{Indent: " ", DisablePointerAddresses: true, DisableCapacities: true, SortKeys: true, SpewKeys: true}

// Dump is a digest of every row of every table of the store.
func (h *H) Dump() string {
	rows := []string{}
	_ = h.S.WalkAllTables(func(table string, item interface{}) bool {
		rows = append(rows, table+"|"+spewCfg.Sdump(item))
		return true
	})
	sort.Strings(rows)
	sum := sha1.Sum([]byte(strings.Join(rows, "\n")))
	return hex.EncodeToString(sum[:])
}

// Class maps an error of the compiler / the graph validation to its class by the words of the
// message (messages themselves are never compared).
func Class(err error) string {
	if err == nil {
		return "ok"
	}
	m := err.Error()
	switch {
	case strings.Contains(m, "verif-panic"):
		return "panic"
	case strings.Contains(m, "circular"):
		return "cycle"
	case strings.Contains(m, "inconsistent protocols"), strings.Contains(m, "does not permit advanced routing"):
		return "protocol"
	case strings.Contains(m, "does not have a subset"):
		return "missingSubset"
	}
	return "other"
}

type WriteRes struct {
	Class       string `json:"class"` // ok | reject | casfail | invalid
	Err         string `json:"err"`   // class of the rejection ("" otherwise), informational
	DumpChanged bool   `json:"dump_changed"`
}

// Write runs Normalize+Validate (as the ConfigEntry.Apply endpoint does) and then the real
// Store.EnsureConfigEntry / EnsureConfigEntryCAS.
func (h *H) Write(c *Cmd) (WriteRes, error) {
	ce, err := Build(c.E, nil)
	if err != nil {
		return WriteRes{}, err
	}
	if err := ce.Normalize(); err != nil {
		return WriteRes{Class: "invalid"}, nil
	}
	if err := ce.Validate(); err != nil {
		return WriteRes{Class: "invalid"}, nil
	}
	before := h.Dump()
	var res WriteRes
	if c.Mode == "cas" {
		ok, err := h.S.EnsureConfigEntryCAS(c.Idx, c.Cidx, ce)
		switch {
		case err != nil:
			res = WriteRes{Class: "reject", Err: Class(err)}
		case !ok:
			res = WriteRes{Class: "casfail"}
		default:
			res = WriteRes{Class: "ok"}
		}
	} else {
		if err := h.S.EnsureConfigEntry(c.Idx, ce); err != nil {
			res = WriteRes{Class: "reject", Err: Class(err)}
		} else {
			res = WriteRes{Class: "ok"}
		}
	}
	res.DumpChanged = h.Dump() != before
	return res, nil
}

// Delete runs the real Store.DeleteConfigEntry / DeleteConfigEntryCAS.
func (h *H) Delete(c *Cmd) (WriteRes, error) {
	kind, ok := realKind[c.Kind]
	if !ok {
		return WriteRes{}, fmt.Errorf("unknown kind %q", c.Kind)
	}
	before := h.Dump()
	var res WriteRes
	if c.Mode == "cas" {
		stub, err := Build(&Entry{Kind: c.Kind, Name: c.Name}, nil)
		if err != nil {
			return res, err
		}
		ok, err := h.S.DeleteConfigEntryCAS(c.Idx, c.Cidx, stub)
		switch {
		case err != nil:
			res = WriteRes{Class: "reject", Err: Class(err)}
		case !ok:
			res = WriteRes{Class: "casfail"}
		default:
			res = WriteRes{Class: "ok"}
		}
	} else {
		if err := h.S.DeleteConfigEntry(c.Idx, kind, c.Name, nil); err != nil {
			res = WriteRes{Class: "reject", Err: Class(err)}
		} else {
			res = WriteRes{Class: "ok"}
		}
	}
	res.DumpChanged = h.Dump() != before
	return res, nil
}

// ---------------------------------------------------------------- the compiler

type Node struct {
	ID       string   `json:"id"`
	Type     string   `json:"type"`
	Svc      string   `json:"svc"` // router/splitter: service part of Name ; resolver: ""
	Next     []string `json:"next"`
	Target   string   `json:"target"`
	Failover []string `json:"failover"`
}

type Target struct {
	ID  string `json:"id"`
	Svc string `json:"svc"`
	Sub string `json:"sub"`
	Dc  string `json:"dc"`
}

type Graph struct {
	Start   string   `json:"start"`
	Nodes   []Node   `json:"nodes"`
	Targets []Target `json:"targets"`
}

type CompileRes struct {
	Hung        bool     `json:"hung"`
	Runs        []string `json:"runs"`  // digest of the complete output (or of the error class) of every run
	GRuns       []string `json:"gruns"` // digest of the projected graph + protocol of every run
	Class       string   `json:"class"`
	Proto       string   `json:"proto"`
	G           Graph    `json:"g"`
	DumpChanged bool     `json:"dump_changed"`
	Full        []string `json:"full,omitempty"` // complete outputs, only with Debug (diagnosis of a replay)
}

// Debug adds the complete JSON of every distinct output to compile results.
var Debug = false

func emptyGraph() Graph { return Graph{Nodes: []Node{}, Targets: []Target{}} }

// ProjectChain copies the compiled graph: node ids, types, edges in order, targets.
func ProjectChain(ch *structs.CompiledDiscoveryChain) Graph {
	g := emptyGraph()
	g.Start = ch.StartNode
	for key, n := range ch.Nodes {
		pn := Node{ID: key, Type: n.Type, Next: []string{}, Failover: []string{}}
		switch n.Type {
		case structs.DiscoveryGraphNodeTypeRouter:
			pn.Svc = strings.SplitN(n.Name, ".", 2)[0]
			for _, r := range n.Routes {
				pn.Next = append(pn.Next, r.NextNode)
			}
		case structs.DiscoveryGraphNodeTypeSplitter:
			pn.Svc = strings.SplitN(n.Name, ".", 2)[0]
			for _, s := range n.Splits {
				pn.Next = append(pn.Next, s.NextNode)
			}
		case structs.DiscoveryGraphNodeTypeResolver:
			if n.Resolver != nil {
				pn.Target = n.Resolver.Target
				if n.Resolver.Failover != nil {
					pn.Failover = append(pn.Failover, n.Resolver.Failover.Targets...)
				}
			}
		}
		g.Nodes = append(g.Nodes, pn)
	}
	sort.Slice(g.Nodes, func(i, j int) bool { return g.Nodes[i].ID < g.Nodes[j].ID })
	for key, t := range ch.Targets {
		g.Targets = append(g.Targets, Target{ID: key, Svc: t.Service, Sub: t.ServiceSubset, Dc: t.Datacenter})
	}
	sort.Slice(g.Targets, func(i, j int) bool { return g.Targets[i].ID < g.Targets[j].ID })
	return g
}

func digest(v interface{}) string {
	b, err := json.Marshal(v)
	if err != nil {
		return "marshal-error:" + err.Error()
	}
	sum := sha1.Sum(b)
	return hex.EncodeToString(sum[:8])
}

func request(svc string, ctx *Ctx) discoverychain.CompileRequest {
	return discoverychain.CompileRequest{
		ServiceName:            svc,
		EvaluateInNamespace:    "default",
		EvaluateInPartition:    "default",
		EvaluateInDatacenter:   ctx.Dc,
		EvaluateInTrustDomain:  clusterID + ".consul",
		OverrideProtocol:       ctx.Op,
		OverrideMeshGateway:    structs.MeshGatewayConfig{Mode: structs.MeshGatewayMode(ctx.Mg)},
		OverrideConnectTimeout: time.Duration(ctx.Ct) * time.Second,
	}
}

type runOut struct {
	chain *structs.CompiledDiscoveryChain
	err   error
}

// Watchdog bounds one compilation (the property is termination, not speed: the bound is generous
// and must expire twice, see Compile).
var Watchdog = 20 * time.Second

// MemHigh is set by the process when its heap passes the limit: a call that has been running for
// more than two seconds is then given up at once (a compilation that loops while allocating would
// otherwise take the process down before the watchdog expires).
var MemHigh atomic.Bool

// WaitChan waits for a value on done until the bound expires or memory runs away (ok = false).
func WaitChan[T any](done <-chan T, bound time.Duration) (v T, ok bool) {
	start := time.Now()
	deadline := time.NewTimer(bound)
	defer deadline.Stop()
	tick := time.NewTicker(250 * time.Millisecond)
	defer tick.Stop()
	for {
		select {
		case v = <-done:
			return v, true
		case <-deadline.C:
			return v, false
		case <-tick.C:
			if MemHigh.Load() && time.Since(start) > 2*time.Second {
				return v, false
			}
		}
	}
}

// Compile compiles the chain of c.Svc reps times and records a digest of each complete output.
//
//	src "direct": discoverychain.Compile over ALL stored entries, every time rebuilt from the
//	              abstract entries with shuffled insertion orders of every map
//	src "store":  Store.ServiceDiscoveryChain (entries fetched by readDiscoveryChainConfigEntriesTxn)
func (h *H) Compile(c *Cmd, reps int, rnd *rand.Rand) (CompileRes, error) {
	res := CompileRes{Runs: []string{}, GRuns: []string{}, G: emptyGraph()}
	st, err := h.State()
	if err != nil {
		return res, err
	}
	if c.Set != nil {
		if c.Src == "store" {
			return res, fmt.Errorf("an explicit entry set can only be compiled directly")
		}
		st = State{Ents: *c.Set}
	}
	before := h.Dump()
	for i := 0; i < reps; i++ {
		req := request(c.Svc, c.Ctx)
		var fn func() runOut
		if c.Src == "store" {
			fn = func() runOut {
				_, ch, _, err := h.S.ServiceDiscoveryChain(nil, c.Svc, structs.DefaultEnterpriseMetaInDefaultPartition(), req)
				return runOut{ch, err}
			}
		} else {
			order := rnd.Perm(len(st.Ents))
			set := configentry.NewDiscoveryChainSet()
			for _, k := range order {
				e := st.Ents[k]
				ce, err := Build(&e, rnd)
				if err != nil {
					return res, err
				}
				if err := ce.Normalize(); err != nil {
					return res, fmt.Errorf("normalize stored entry: %v", err)
				}
				set.AddEntries(ce)
			}
			req.Entries = set
			fn = func() runOut {
				ch, err := discoverychain.Compile(req)
				return runOut{ch, err}
			}
		}
		// A compilation that has not returned after the watchdog is started a second time: only two
		// expiries in a row count as "does not terminate" (a starved goroutine on a loaded machine
		// must not look like a hang; a real loop never returns, however often it is tried).
		var out runOut
		returned := false
		for attempt := 0; attempt < 2 && !returned; attempt++ {
			done := make(chan runOut, 1)
			go func() {
				defer func() {
					if p := recover(); p != nil {
						done <- runOut{nil, fmt.Errorf("verif-panic: %v", p)}
					}
				}()
				done <- fn()
			}()
			out, returned = WaitChan(done, Watchdog)
			if MemHigh.Load() {
				break
			}
		}
		if !returned {
			// the goroutine is abandoned; "no-return" is a result class of its own
			res.Hung = true
			res.Class = "no-return"
			return res, nil
		}
		if out.err != nil {
			cl := Class(out.err)
			res.Runs = append(res.Runs, "err:"+cl)
			res.GRuns = append(res.GRuns, "err:"+cl)
			if i == 0 {
				res.Class = cl
			}
			continue
		}
		// the trust domain / virtual IPs of the store path are not part of the compared output
		res.Runs = append(res.Runs, digest(out.chain))
		pg := ProjectChain(out.chain)
		res.GRuns = append(res.GRuns, digest([]interface{}{out.chain.Protocol, pg}))
		if Debug {
			b, _ := json.Marshal(out.chain)
			seen := false
			for _, f := range res.Full {
				seen = seen || f == string(b)
			}
			if !seen {
				res.Full = append(res.Full, string(b))
			}
		}
		if i == 0 {
			res.Class = "ok"
			res.Proto = out.chain.Protocol
			res.G = pg
		}
	}
	res.DumpChanged = h.Dump() != before
	return res, nil
}
