package storeh

// Seeded generator of raft log entries over EVERY registered FSM command type (C01, C02, C06,
// C07).  Entries are produced as real request structs and encoded exactly as the servers encode
// them, so that decode + dispatch are in the loop.  The generator looks at nothing but its own
// random source and small fixed universes of names: it must produce the same log for every replica.

import (
	"fmt"
	"math/rand"
	"time"

	"github.com/hashicorp/serf/coordinate"
	"google.golang.org/protobuf/proto"

	"github.com/hashicorp/consul/acl"
	"github.com/hashicorp/consul/agent/consul/state"
	"github.com/hashicorp/consul/agent/structs"
	"github.com/hashicorp/consul/api"
	"github.com/hashicorp/consul/proto/private/pbpeering"
	"github.com/hashicorp/consul/types"
)

type Entry struct {
	Type  structs.MessageType
	Desc  string
	Data  []byte // full raft payload (type byte + body)
	Index uint64
}

type Gen struct {
	R   *rand.Rand
	Idx uint64
	// light bookkeeping so that conditional commands sometimes match
	lastKVIdx    map[string]uint64
	Weights      map[string]int
	lastRootsIdx uint64
	script       []func() (structs.MessageType, any, string) // scripted multi-step scenarios, consumed before random commands
	NoSerf       bool                                        // a running leader reaps nodes carrying a serfHealth check that are no serf members
	lastStatus   map[string]string                           // last status registered per check (peer/node/id)
	lastCreate   *structs.SessionRequest
	lastEst      map[string]string // peering id -> last establishment / pending secret written (so that exchanges and promotions sometimes match)
	lastPend     map[string]string
	nsess        int // sessions are minted with fresh ids, as the Session endpoint does
	lastProxy    map[string]*structs.NodeService // last sidecar proxy registered per peer/node
}

// recentSess picks one of the last few minted session ids (or a never-minted one)
func (g *Gen) recentSess() string {
	if g.nsess == 0 || g.chance(8) {
		return "s0"
	}
	k := g.nsess - g.R.Intn(4)
	if k < 1 {
		k = 1
	}
	return fmt.Sprintf("s%d", k)
}

func NewGen(seed int64) *Gen {
	// raft indexes of client commands never start at 1 (bootstrap configuration entries come first)
	g := &Gen{R: rand.New(rand.NewSource(seed)), lastKVIdx: map[string]uint64{}, Idx: 10, lastEst: map[string]string{}, lastPend: map[string]string{}, lastStatus: map[string]string{}}
	g.loadScripts(seed)
	return g
}

var (
	gNodes    = []string{"n1", "n2", "n3", "n4"}
	gNodeIDs  = []string{"", "", "id1", "id2", "id3"}
	gSvcNames = []string{"web", "api", "db", "cache"}
	gSvcIDs   = []string{"web1", "web2", "api1", "db1", "gw1", "px1", "px2"}
	gChecks   = []string{"c1", "c2", "c3", "serfHealth"}
	gKeys     = []string{"a", "a/", "a/b", "a/b/c", "ab", "b", "b/x", "\xc3\xa9", "a/\xc3\xa9", "zz/y"}
	gPrefixes = []string{"", "a", "a/", "a/b", "b", "z"}
	gSess     = []string{"s1", "s2", "s3", "s4"}
	gPeers    = []string{"peer-a", "peer-b"}
	gVals     = []string{"x", "y", "", "zzz"}
	gStatuses = []string{api.HealthPassing, api.HealthWarning, api.HealthCritical, api.HealthMaint, ""}
)

func (g *Gen) pick(l []string) string {
	x := l[g.R.Intn(len(l))]
	if g.NoSerf && x == "serfHealth" {
		return "c3"
	}
	return x
}
func (g *Gen) chance(n int) bool { return g.R.Intn(n) == 0 }

func (g *Gen) someIdx() uint64 {
	switch g.R.Intn(4) {
	case 0:
		return 0
	case 1:
		return g.Idx + 5
	case 2:
		if g.Idx > 3 {
			return g.Idx - uint64(g.R.Intn(3)) - 1
		}
		return 1
	}
	return g.Idx - 1
}

func (g *Gen) nodeService(peer string, node ...string) *structs.NodeService {
	name := g.pick(gSvcNames)
	id := name + fmt.Sprint(1+g.R.Intn(2))
	ns := &structs.NodeService{ID: id, Service: name, Port: 1000 + g.R.Intn(3), Tags: []string{g.pick([]string{"v1", "v1", "v2"})},
		Meta: map[string]string{"m": g.pick(gVals)}, PeerName: peer}
	switch g.R.Intn(12) {
	case 0, 1:
		ns.Kind = structs.ServiceKindConnectProxy
		ns.ID = name + "-sidecar" + fmt.Sprint(1+g.R.Intn(2))
		ns.Service = name + "-sidecar-proxy"
		ns.Proxy = structs.ConnectProxyConfig{DestinationServiceName: name, DestinationServiceID: id,
			Upstreams: structs.Upstreams{{DestinationName: g.pick(gSvcNames), LocalBindPort: 9000 + g.R.Intn(3)}}}
		if g.chance(3) {
			ns.Proxy.Upstreams = append(ns.Proxy.Upstreams, structs.Upstream{DestinationName: g.pick(gSvcNames), DestinationPeer: g.pick(gPeers), LocalBindPort: 9100})
		}
		if g.chance(4) {
			ns.Proxy.Mode = structs.ProxyModeTransparent
		}
		if g.chance(3) {
			// a proxy need not declare any upstream (also: an instance re-registered without the ones it had)
			ns.Proxy.Upstreams = nil
		}
	case 2:
		// connect-native-ness is a property of the instance id for its whole life (toggling it on a live id is
		// the update path behind the recorded C07 finding, which its replay demonstrates)
		ns.ID, ns.Service = name+"-native"+fmt.Sprint(1+g.R.Intn(2)), name
		ns.Connect.Native = true
	case 3:
		ns.Kind = structs.ServiceKindTerminatingGateway
		ns.ID, ns.Service = "tgw"+fmt.Sprint(1+g.R.Intn(2)), "tgw"
	case 4:
		ns.Kind = structs.ServiceKindIngressGateway
		ns.ID, ns.Service = "igw"+fmt.Sprint(1+g.R.Intn(2)), "igw"
	case 5:
		ns.Kind = structs.ServiceKindMeshGateway
		ns.ID, ns.Service = "mgw1", "mgw"
	}
	if g.chance(8) {
		// the same instance id re-registered under changing kinds (typical <-> gateway <-> other gateway)
		// (one service name per instance: a name served under two kinds at once is not a situation the catalog's
		// per-name bookkeeping is meant for)
		nn := "x"
		if len(node) > 0 {
			nn = node[0]
		}
		ns.ID, ns.Service = "shape", "shape-"+nn
		ns.Proxy = structs.ConnectProxyConfig{}
		ns.Connect.Native = false
		switch g.R.Intn(4) {
		case 0:
			ns.Kind = structs.ServiceKindTypical
		case 1:
			ns.Kind = structs.ServiceKindTerminatingGateway
		case 2:
			ns.Kind = structs.ServiceKindMeshGateway
		case 3:
			ns.Kind = structs.ServiceKindIngressGateway
		}
	}
	if g.chance(6) {
		ns.TaggedAddresses = map[string]structs.ServiceAddress{"lan": {Address: "10.9.9." + fmt.Sprint(g.R.Intn(4)), Port: 80}}
	}
	return ns
}

func (g *Gen) check(node, svcID, peer string) *structs.HealthCheck {
	// a check id belongs to one service for its whole life, as with real agents (moving a check between
	// services is a recorded known finding of C06 and is demonstrated by its replay, not by the sweep)
	cid := g.pick(gChecks)
	if svcID != "" {
		cid = "chk-" + svcID + "-" + g.pick([]string{"a", "b"})
	}
	hc := &structs.HealthCheck{Node: node, CheckID: types.CheckID(cid), Name: "chk", Status: g.pick(gStatuses),
		ServiceID: svcID, Output: g.pick(gVals), PeerName: peer}
	// an output-only refresh of a check (same status as the last registration of that check id) is the most common
	// check write of a real agent
	key := peer + "/" + node + "/" + cid
	if last, ok := g.lastStatus[key]; ok && g.chance(3) {
		hc.Status = last
	}
	g.lastStatus[key] = hc.Status
	if g.chance(5) {
		hc.Type = "session"
		hc.Definition.SessionName = g.pick([]string{"sn", "sm"})
	}
	if g.chance(8) {
		hc.Notes = "note " + g.pick(gVals)
	}
	return hc
}

func (g *Gen) register() (structs.MessageType, any, string) {
	peer := ""
	if g.chance(6) {
		peer = g.pick(gPeers)
	}
	n := g.pick(gNodes)
	req := &structs.RegisterRequest{Datacenter: "dc1", Node: n, Address: nodeAddr(n), PeerName: peer}
	if g.chance(3) {
		req.ID = types.NodeID(UUID(g.pick(gNodeIDs)))
	}
	if g.chance(5) {
		req.NodeMeta = map[string]string{"rack": g.pick(gVals)}
	}
	if g.chance(8) {
		req.TaggedAddresses = map[string]string{"wan": "1.2.3." + fmt.Sprint(g.R.Intn(3))}
	}
	switch g.R.Intn(5) {
	case 0:
	case 1, 2:
		req.Service = g.nodeService(peer, n)
		if k := peer + "/" + n; req.Service.Kind == structs.ServiceKindConnectProxy {
			// a sidecar is often re-registered IN PLACE with another set of upstreams (or none): remember the last one per node
			if last, ok := g.lastProxy[k]; ok && g.chance(2) {
				cp := *last
				cp.Proxy.Upstreams = nil
				if g.chance(2) {
					cp.Proxy.Upstreams = structs.Upstreams{{DestinationName: g.pick(gSvcNames), LocalBindPort: 9000 + g.R.Intn(3)}}
				}
				req.Service = &cp
			}
			if g.lastProxy == nil {
				g.lastProxy = map[string]*structs.NodeService{}
			}
			keep := *req.Service
			g.lastProxy[k] = &keep
		}
		if g.chance(2) {
			req.Checks = structs.HealthChecks{g.check(n, req.Service.ID, peer)}
			if g.chance(3) {
				req.Checks = append(req.Checks, g.check(n, "", peer))
			}
		}
	case 3:
		req.Check = g.check(n, "", peer)
	case 4:
		req.Check = g.check(n, g.pick(gSvcNames)+fmt.Sprint(1+g.R.Intn(2)), peer)
	}
	if g.chance(10) {
		req.SkipNodeUpdate = true
	}
	return structs.RegisterRequestType, req, "register " + n
}

func (g *Gen) deregister() (structs.MessageType, any, string) {
	req := &structs.DeregisterRequest{Datacenter: "dc1", Node: g.pick(gNodes)}
	if g.chance(6) {
		req.PeerName = g.pick(gPeers)
	}
	switch g.R.Intn(3) {
	case 0:
		name := g.pick(gSvcNames)
		req.ServiceID = name + fmt.Sprint(1+g.R.Intn(2))
		if g.chance(4) {
			req.ServiceID = g.pick([]string{"tgw1", "igw1", "mgw1", "web-sidecar1"})
		}
	case 1:
		req.CheckID = types.CheckID(g.pick(gChecks))
	}
	return structs.DeregisterRequestType, req, "deregister"
}

func (g *Gen) kvs() (structs.MessageType, any, string) {
	k := g.pick(gKeys)
	op := g.pick([]string{"set", "set", "cas", "delete", "delete-cas", "delete-tree", "lock", "unlock"})
	d := structs.DirEntry{Key: k, Flags: uint64(g.R.Intn(2) * 42)}
	if v := g.pick(gVals); v != "" {
		d.Value = []byte(v)
	}
	switch op {
	case "cas", "delete-cas":
		d.ModifyIndex = g.someIdx()
		if g.chance(2) {
			d.ModifyIndex = g.lastKVIdx[k]
		}
	case "lock", "unlock":
		d.Session = UUID(g.recentSess())
	case "delete-tree":
		d.Key = g.pick(gPrefixes)
	}
	if op == "set" || op == "cas" || op == "lock" {
		g.lastKVIdx[k] = g.Idx + 1
	}
	return structs.KVSRequestType, &structs.KVSRequest{Datacenter: "dc1", Op: api.KVOp(op), DirEnt: d}, "kv " + op
}

func (g *Gen) session() (structs.MessageType, any, string) {
	req := &structs.SessionRequest{Datacenter: "dc1"}
	if g.chance(3) {
		req.Op = structs.SessionDestroy
		req.Session = structs.Session{ID: UUID(g.recentSess())}
		return structs.SessionRequestType, req, "session destroy"
	}
	req.Op = structs.SessionCreate
	if g.lastCreate != nil && g.chance(10) {
		// the previous create committed a second time (a retried forward); same id, same node, same checks
		dup := *g.lastCreate
		return structs.SessionRequestType, &dup, "session create (resubmitted)"
	}
	// a fresh id per create, as the endpoint does; drawn from the generator's own stream
	g.nsess++
	id := fmt.Sprintf("s%d", g.nsess)
	req.Session = structs.Session{ID: UUID(id), Node: g.pick(gNodes), Name: g.pick([]string{"", "sn", "sm"}),
		Behavior: structs.SessionBehavior(g.pick([]string{"release", "delete", ""})), TTL: g.pick([]string{"", "30s"}),
		// short lock delays so that a paced replica applies later entries on the other side of the delay's expiry
		LockDelay: []time.Duration{0, 0, 20 * time.Millisecond, 15 * time.Second}[g.R.Intn(4)]}
	if g.chance(2) {
		req.Session.NodeChecks = []string{g.pick(gChecks)}
	}
	if g.chance(6) {
		req.Session.ServiceChecks = []structs.ServiceCheck{{ID: g.pick(gChecks)}}
	}
	g.lastCreate = req
	return structs.SessionRequestType, req, "session create"
}

func (g *Gen) txn() (structs.MessageType, any, string) {
	n := 1 + g.R.Intn(4)
	req := &structs.TxnRequest{Datacenter: "dc1"}
	for i := 0; i < n; i++ {
		op := &structs.TxnOp{}
		switch g.R.Intn(10) {
		case 0:
			nn := structs.Node{Node: g.pick(gNodes), Address: "10.1.1.1"}
			nn.ModifyIndex = g.someIdx()
			op.Node = &structs.TxnNodeOp{Verb: api.NodeOp(g.pick([]string{"set", "cas", "get", "delete", "delete-cas"})), Node: nn}
		case 1:
			s := *g.nodeService("")
			s.ModifyIndex = g.someIdx()
			op.Service = &structs.TxnServiceOp{Verb: api.ServiceOp(g.pick([]string{"set", "cas", "get", "delete", "delete-cas"})), Node: g.pick(gNodes), Service: s}
		case 2:
			c := *g.check(g.pick(gNodes), "", "")
			c.ModifyIndex = g.someIdx()
			op.Check = &structs.TxnCheckOp{Verb: api.CheckOp(g.pick([]string{"set", "cas", "get", "delete", "delete-cas"})), Check: c}
		case 3:
			op.Session = &structs.TxnSessionOp{Verb: api.SessionDelete, Session: structs.Session{ID: UUID(g.recentSess())}}
		default:
			k := g.pick(gKeys)
			verb := g.pick([]string{"set", "cas", "delete", "delete-cas", "delete-tree", "lock", "unlock", "get", "get-tree", "get-or-empty",
				"check-index", "check-session", "check-not-exists"})
			d := structs.DirEntry{Key: k, Value: []byte(g.pick(gVals))}
			switch verb {
			case "cas", "delete-cas", "check-index":
				d.ModifyIndex = g.someIdx()
				if g.chance(2) {
					d.ModifyIndex = g.lastKVIdx[k]
				}
			case "lock", "unlock", "check-session":
				d.Session = UUID(g.recentSess())
			case "delete-tree", "get-tree":
				d.Key = g.pick(gPrefixes)
			}
			op.KV = &structs.TxnKVOp{Verb: api.KVOp(verb), DirEnt: d}
		}
		req.Ops = append(req.Ops, op)
	}
	return structs.TxnRequestType, req, "txn"
}

func (g *Gen) coords() (structs.MessageType, any, string) {
	var cs structs.Coordinates
	for i := 0; i < 1+g.R.Intn(3); i++ {
		c := coordinate.NewCoordinate(coordinate.DefaultConfig())
		c.Vec[0] = float64(g.R.Intn(100)) / 1000
		c.Height = 0.01 + float64(g.R.Intn(10))/1000
		cs = append(cs, &structs.Coordinate{Node: g.pick(gNodes), Segment: g.pick([]string{"", "", "alpha"}), Coord: c})
	}
	return structs.CoordinateBatchUpdateType, cs, "coordinates"
}

func (g *Gen) pq() (structs.MessageType, any, string) {
	id := g.pick([]string{"q1", "q2", "q3"})
	req := &structs.PreparedQueryRequest{Datacenter: "dc1", Query: &structs.PreparedQuery{ID: UUID(id)}}
	if g.chance(3) {
		req.Op = structs.PreparedQueryDelete
		return structs.PreparedQueryRequestType, req, "pq delete"
	}
	req.Op = structs.PreparedQueryCreate
	req.Query.Name = g.pick([]string{"", "", "qn1", "qn2"})
	req.Query.Service = structs.ServiceQuery{Service: g.pick(gSvcNames), OnlyPassing: g.chance(2)}
	if g.chance(3) {
		req.Query.Session = UUID(g.recentSess())
	}
	if g.chance(5) {
		req.Query.Template = structs.QueryTemplateOptions{Type: structs.QueryTemplateTypeNamePrefixMatch}
	}
	return structs.PreparedQueryRequestType, req, "pq set"
}

func (g *Gen) configEntry() (structs.MessageType, any, string) {
	var e structs.ConfigEntry
	name := g.pick(gSvcNames)
	switch g.R.Intn(9) {
	case 0:
		sd := &structs.ServiceConfigEntry{Kind: structs.ServiceDefaults, Name: name, Protocol: g.pick([]string{"tcp", "http", "http", "grpc"}),
			Meta: map[string]string{"m": g.pick(gVals)}}
		if g.chance(3) {
			// a destination outside the mesh (reached through terminating gateways): its name enters kind-service-names and
			// the gateway-services rows of wildcard terminating gateways
			sd.Destination = &structs.DestinationConfig{Addresses: []string{"dest." + name + ".example.com"}, Port: 443}
		}
		e = sd
	case 1:
		e = &structs.ProxyConfigEntry{Kind: structs.ProxyDefaults, Name: structs.ProxyConfigGlobal, Config: map[string]interface{}{"protocol": g.pick([]string{"tcp", "http"})}}
	case 2:
		r := &structs.ServiceResolverConfigEntry{Kind: structs.ServiceResolver, Name: name}
		if g.chance(2) {
			r.Subsets = map[string]structs.ServiceResolverSubset{"v1": {Filter: "Service.Meta.m == x"}}
			r.DefaultSubset = g.pick([]string{"", "v1"})
		}
		if g.chance(3) {
			r.Redirect = &structs.ServiceResolverRedirect{Service: g.pick(gSvcNames)}
			r.Subsets, r.DefaultSubset = nil, ""
		} else if g.chance(3) {
			r.Failover = map[string]structs.ServiceResolverFailover{"*": {Service: g.pick(gSvcNames)}}
		}
		e = r
	case 3:
		e = &structs.ServiceSplitterConfigEntry{Kind: structs.ServiceSplitter, Name: name,
			Splits: []structs.ServiceSplit{{Weight: 50, Service: g.pick(gSvcNames)}, {Weight: 50, Service: g.pick(gSvcNames)}}}
	case 4:
		e = &structs.ServiceRouterConfigEntry{Kind: structs.ServiceRouter, Name: name,
			Routes: []structs.ServiceRoute{{Match: &structs.ServiceRouteMatch{HTTP: &structs.ServiceRouteHTTPMatch{PathPrefix: "/" + g.pick(gVals)}},
				Destination: &structs.ServiceRouteDestination{Service: g.pick(gSvcNames)}}}}
	case 5:
		t := &structs.TerminatingGatewayConfigEntry{Kind: structs.TerminatingGateway, Name: "tgw"}
		for i := 0; i < g.R.Intn(3); i++ {
			t.Services = append(t.Services, structs.LinkedService{Name: g.pick(append([]string{"*"}, gSvcNames...))})
		}
		e = t
	case 6:
		ig := &structs.IngressGatewayConfigEntry{Kind: structs.IngressGateway, Name: "igw"}
		proto := g.pick([]string{"tcp", "http"})
		l := structs.IngressListener{Port: 8080 + g.R.Intn(2), Protocol: proto}
		if proto == "tcp" {
			l.Services = []structs.IngressService{{Name: g.pick(gSvcNames)}}
		} else {
			l.Services = []structs.IngressService{{Name: g.pick(append([]string{"*"}, gSvcNames...))}}
		}
		ig.Listeners = []structs.IngressListener{l}
		e = ig
	case 7:
		si := &structs.ServiceIntentionsConfigEntry{Kind: structs.ServiceIntentions, Name: g.pick(append([]string{"*"}, gSvcNames...))}
		for i := 0; i < 1+g.R.Intn(2); i++ {
			src := &structs.SourceIntention{Name: g.pick(append([]string{"*"}, gSvcNames...)), Action: structs.IntentionAction(g.pick([]string{"allow", "deny"})),
				Precedence: 9, Type: structs.IntentionSourceConsul}
			dup := false
			for _, o := range si.Sources {
				if o.Name == src.Name {
					dup = true
				}
			}
			if !dup {
				si.Sources = append(si.Sources, src)
			}
		}
		e = si
	case 8:
		ex := &structs.ExportedServicesConfigEntry{Name: "default"}
		for i := 0; i < 1+g.R.Intn(2); i++ {
			ex.Services = append(ex.Services, structs.ExportedService{Name: g.pick(append([]string{"*"}, gSvcNames...)),
				Consumers: []structs.ServiceConsumer{{Peer: g.pick(gPeers)}}})
		}
		e = ex
	}
	// the RPC endpoint normalises and validates before raft; do the same so that stored entries are well-formed
	_ = e.Normalize()
	if err := e.Validate(); err != nil {
		e = &structs.ServiceConfigEntry{Kind: structs.ServiceDefaults, Name: name, Protocol: "tcp"}
		_ = e.Normalize()
	}
	op := structs.ConfigEntryOp(g.pick([]string{"upsert", "upsert", "upsert", "upsert-cas", "delete", "delete-cas"}))
	if op == structs.ConfigEntryUpsertCAS || op == structs.ConfigEntryDeleteCAS {
		e.GetRaftIndex().ModifyIndex = g.someIdx()
	}
	return structs.ConfigEntryRequestType, &structs.ConfigEntryRequest{Datacenter: "dc1", Op: op, Entry: e}, "config-entry " + string(op) + " " + e.GetKind()
}

func (g *Gen) intention() (structs.MessageType, any, string) {
	// legacy intention table commands are still accepted by the FSM
	id := g.pick([]string{"i1", "i2", "i3"})
	ixn := &structs.Intention{ID: UUID(id), SourceNS: "default", SourceName: g.pick(append([]string{"*"}, gSvcNames...)),
		DestinationNS: "default", DestinationName: g.pick(append([]string{"*"}, gSvcNames...)), SourceType: structs.IntentionSourceConsul,
		Action: structs.IntentionAction(g.pick([]string{"allow", "deny"})), Meta: map[string]string{},
		CreatedAt: time.Unix(1600000000, 0).UTC(), UpdatedAt: time.Unix(1600000000+int64(g.R.Intn(100)), 0).UTC()}
	//nolint:staticcheck
	ixn.UpdatePrecedence()
	//nolint:staticcheck
	ixn.SetHash()
	op := g.pick([]string{"create", "update", "delete", "delete-all"})
	if g.chance(3) {
		// config-entry based mutation
		m := &structs.IntentionMutation{Destination: structs.NewServiceName(ixn.DestinationName, nil), Source: structs.NewServiceName(ixn.SourceName, nil),
			Value: &structs.SourceIntention{Name: ixn.SourceName, Action: ixn.Action, Type: structs.IntentionSourceConsul, Precedence: ixn.Precedence,
				LegacyMeta: map[string]string{}, LegacyID: ixn.ID}}
		mop := structs.IntentionOp(g.pick([]string{"upsert", "delete"}))
		if mop == structs.IntentionOpDelete {
			m.Value = nil
		}
		return structs.IntentionRequestType, &structs.IntentionRequest{Datacenter: "dc1", Op: mop, Mutation: m}, "intention mutation " + string(mop)
	}
	return structs.IntentionRequestType, &structs.IntentionRequest{Datacenter: "dc1", Op: structs.IntentionOp(op), Intention: ixn}, "intention " + op
}

func (g *Gen) ca() (structs.MessageType, any, string) {
	tag := g.pick([]string{"r1", "r2", "r3"})
	switch g.R.Intn(7) {
	case 0:
		c := &structs.CAConfiguration{ClusterID: "11111111-2222-3333-4444-555555555555", Provider: "consul", Config: map[string]interface{}{"tag": tag}}
		if g.chance(2) {
			c.ModifyIndex = g.someIdx()
		}
		return structs.ConnectCARequestType, &structs.CARequest{Datacenter: "dc1", Op: structs.CAOpSetConfig, Config: c}, "ca set-config"
	case 1, 2:
		roots := []*structs.CARoot{{ID: "root-" + tag, Name: tag, Active: true, RootCert: "cert-" + tag, SigningKeyID: "aa"}}
		if g.chance(2) {
			roots = append(roots, &structs.CARoot{ID: "root-old", Name: "old", RootCert: "cert-old", SigningKeyID: "bb", RotatedOutAt: time.Unix(1600000000, 0).UTC()})
		}
		if g.chance(2) {
			// a previously active root kept in the set as inactive, with and without a rotation time
			for _, o := range []string{"r1", "r2", "r3"} {
				if o != tag && g.chance(2) {
					r := &structs.CARoot{ID: "root-" + o, Name: o, RootCert: "cert-" + o, SigningKeyID: "aa"}
					if g.chance(2) {
						r.RotatedOutAt = time.Unix(1600000100, 0).UTC()
					}
					roots = append(roots, r)
				}
			}
		}
		idx := g.someIdx()
		if g.chance(2) {
			idx = g.lastRootsIdx
		}
		g.lastRootsIdx = g.Idx + 1
		return structs.ConnectCARequestType, &structs.CARequest{Datacenter: "dc1", Op: structs.CAOpSetRoots, Index: idx, Roots: roots}, "ca set-roots"
	case 3:
		roots := []*structs.CARoot{{ID: "root-" + tag, Name: tag, Active: true, RootCert: "cert-" + tag, SigningKeyID: "aa"}}
		c := &structs.CAConfiguration{ClusterID: "11111111-2222-3333-4444-555555555555", Provider: "consul", Config: map[string]interface{}{"tag": tag}}
		c.ModifyIndex = g.someIdx()
		return structs.ConnectCARequestType, &structs.CARequest{Datacenter: "dc1", Op: structs.CAOpSetRootsAndConfig, Index: g.someIdx(), Roots: roots, Config: c}, "ca set-roots-and-config"
	case 4:
		return structs.ConnectCARequestType, &structs.CARequest{Datacenter: "dc1", Op: structs.CAOpSetProviderState,
			ProviderState: &structs.CAConsulProviderState{ID: "ps-" + tag, PrivateKey: "k", RootCert: "c"}}, "ca provider-state"
	case 5:
		return structs.ConnectCARequestType, &structs.CARequest{Datacenter: "dc1", Op: structs.CAOpIncrementProviderSerialNumber}, "ca increment-serial"
	}
	return structs.ConnectCALeafRequestType, &structs.CALeafRequest{Datacenter: "dc1", Op: structs.CALeafOpIncrementIndex}, "ca leaf-index"
}

func (g *Gen) aclCmd() (structs.MessageType, any, string) {
	pid := g.pick([]string{"p1", "p2", "p3"})
	rid := g.pick([]string{"r1", "r2"})
	tid := g.pick([]string{"t1", "t2", "t3"})
	switch g.R.Intn(12) {
	case 0, 1:
		p := &structs.ACLPolicy{ID: UUID(pid), Name: "pol-" + pid, Rules: `service "` + g.pick(gSvcNames) + `" { policy = "` + g.pick([]string{"read", "write"}) + `" }`}
		p.SetHash(true)
		return structs.ACLPolicySetRequestType, &structs.ACLPolicyBatchSetRequest{Policies: structs.ACLPolicies{p}}, "acl policy set"
	case 2:
		return structs.ACLPolicyDeleteRequestType, &structs.ACLPolicyBatchDeleteRequest{PolicyIDs: []string{UUID(pid)}}, "acl policy delete"
	case 3, 4:
		r := &structs.ACLRole{ID: UUID(rid), Name: "role-" + rid, Policies: []structs.ACLRolePolicyLink{{ID: UUID(pid)}}}
		r.SetHash(true)
		return structs.ACLRoleSetRequestType, &structs.ACLRoleBatchSetRequest{Roles: structs.ACLRoles{r}, AllowMissingLinks: g.chance(2)}, "acl role set"
	case 5:
		return structs.ACLRoleDeleteRequestType, &structs.ACLRoleBatchDeleteRequest{RoleIDs: []string{UUID(rid)}}, "acl role delete"
	case 6, 7, 8:
		t := &structs.ACLToken{AccessorID: UUID(tid), SecretID: UUID("secret-" + tid), Description: g.pick(gVals), Local: g.chance(4),
			CreateTime: time.Unix(1600000000, 0).UTC()}
		if g.chance(2) {
			t.Policies = []structs.ACLTokenPolicyLink{{ID: UUID(pid)}}
		}
		if g.chance(3) {
			t.Roles = []structs.ACLTokenRoleLink{{ID: UUID(rid)}}
		}
		if g.chance(4) {
			t.ServiceIdentities = []*structs.ACLServiceIdentity{{ServiceName: g.pick(gSvcNames)}}
		}
		if g.chance(3) {
			// far in the future, or already passed and waiting for the reaper
			exp := time.Unix([]int64{1900000000, 1500000000}[g.R.Intn(2)], 0).UTC()
			t.ExpirationTime = &exp
		}
		t.ModifyIndex = g.someIdx()
		t.SetHash(true)
		return structs.ACLTokenSetRequestType, &structs.ACLTokenBatchSetRequest{Tokens: structs.ACLTokens{t}, CAS: g.chance(3), AllowMissingLinks: g.chance(2)}, "acl token set"
	case 9:
		return structs.ACLTokenDeleteRequestType, &structs.ACLTokenBatchDeleteRequest{TokenIDs: []string{UUID(tid)}}, "acl token delete"
	case 10:
		m := &structs.ACLAuthMethod{Name: "am-" + g.pick([]string{"1", "2"}), Type: "jwt", Description: g.pick(gVals), Config: map[string]interface{}{"k": g.pick(gVals)}}
		if g.chance(4) {
			return structs.ACLAuthMethodDeleteRequestType, &structs.ACLAuthMethodBatchDeleteRequest{AuthMethodNames: []string{m.Name}}, "acl auth-method delete"
		}
		return structs.ACLAuthMethodSetRequestType, &structs.ACLAuthMethodBatchSetRequest{AuthMethods: structs.ACLAuthMethods{m}}, "acl auth-method set"
	}
	b := &structs.ACLBindingRule{ID: UUID("b" + g.pick([]string{"1", "2"})), AuthMethod: "am-" + g.pick([]string{"1", "2"}), BindType: structs.BindingRuleBindTypeService,
		BindName: g.pick(gSvcNames), Description: g.pick(gVals)}
	if g.chance(4) {
		return structs.ACLBindingRuleDeleteRequestType, &structs.ACLBindingRuleBatchDeleteRequest{BindingRuleIDs: []string{b.ID}}, "acl binding-rule delete"
	}
	return structs.ACLBindingRuleSetRequestType, &structs.ACLBindingRuleBatchSetRequest{BindingRules: structs.ACLBindingRules{b}}, "acl binding-rule set"
}

func (g *Gen) misc() (structs.MessageType, any, string) {
	switch g.R.Intn(9) {
	case 0:
		return structs.TombstoneRequestType, &structs.TombstoneRequest{Datacenter: "dc1", Op: structs.TombstoneReap, ReapIndex: uint64(g.R.Intn(int(g.Idx) + 2))}, "tombstone reap"
	case 1:
		c := structs.AutopilotConfig{CleanupDeadServers: g.chance(2), MaxTrailingLogs: uint64(100 + g.R.Intn(3)), LastContactThreshold: time.Second}
		c.ModifyIndex = g.someIdx()
		return structs.AutopilotRequestType, &structs.AutopilotSetConfigRequest{Datacenter: "dc1", Config: c, CAS: g.chance(2)}, "autopilot"
	case 2:
		key := g.pick([]string{structs.SystemMetadataVirtualIPsEnabled, structs.SystemMetadataTermGatewayVirtualIPsEnabled, "other"})
		op := structs.SystemMetadataUpsert
		if g.chance(5) {
			// the two feature flags are only ever SET by a leader (once every server supports the feature); switching one
			// off under data that was written while it was on is not a history the servers produce, and the catalog does not
			// claim to handle it (a virtual IP freed while a gateway still advertises it): deletes go to another key
			op, key = structs.SystemMetadataDelete, "other"
		}
		return structs.SystemMetadataRequestType, &structs.SystemMetadataRequest{Datacenter: "dc1", Op: op, Entry: &structs.SystemMetadataEntry{Key: key, Value: "true"}}, "system-metadata"
	case 3:
		fs := &structs.FederationState{Datacenter: g.pick([]string{"dc1", "dc2"}), UpdatedAt: time.Unix(1600000000+int64(g.R.Intn(50)), 0).UTC(),
			PrimaryModifyIndex: uint64(g.R.Intn(5))}
		op := structs.FederationStateUpsert
		if g.chance(4) {
			op = structs.FederationStateDelete
		}
		return structs.FederationStateRequestType, &structs.FederationStateRequest{Datacenter: "dc1", Op: op, State: fs}, "federation-state"
	case 4:
		psn := structs.PeeredServiceName{ServiceName: structs.NewServiceName(g.pick(gSvcNames), nil)}
		ips := []string{"240.1.0." + fmt.Sprint(1+g.R.Intn(3))}
		if g.chance(3) {
			ips = append(ips, "240.1.0."+fmt.Sprint(4+g.R.Intn(2)))
		}
		return structs.UpdateVirtualIPRequestType, state.ServiceVirtualIP{Service: psn, ManualIPs: ips}, "manual-vips"
	case 5:
		p := g.pick(gPeers)
		pr := &pbpeering.Peering{ID: UUID("peering-" + p), Name: p, State: pbpeering.PeeringState_ACTIVE, Meta: map[string]string{"m": g.pick(gVals)}}
		if p == "peer-a" {
			// peer-a was established from a token (this side dials); peer-b generated the token (this side accepts)
			pr.PeerServerName, pr.PeerServerAddresses = "srv."+p, []string{"10.0.0.9:8502"}
		}
		if g.chance(5) {
			pr.State = pbpeering.PeeringState_DELETING
		}
		return structs.PeeringWriteType, &pbpeering.PeeringWriteRequest{Peering: pr}, "peering write"
	case 6:
		p := g.pick(gPeers)
		if g.chance(2) {
			return structs.PeeringTerminateByIDType, &pbpeering.PeeringTerminateByIDRequest{ID: UUID("peering-" + p)}, "peering terminate"
		}
		return structs.PeeringDeleteType, &pbpeering.PeeringDeleteRequest{Name: p}, "peering delete"
	case 7:
		p := g.pick(gPeers)
		if g.chance(3) {
			return structs.PeeringTrustBundleDeleteType, &pbpeering.PeeringTrustBundleDeleteRequest{Name: p}, "trust-bundle delete"
		}
		return structs.PeeringTrustBundleWriteType, &pbpeering.PeeringTrustBundleWriteRequest{PeeringTrustBundle: &pbpeering.PeeringTrustBundle{
			PeerName: p, TrustDomain: p + ".consul", RootPEMs: []string{"pem-" + g.pick(gVals)}}}, "trust-bundle write"
	}
	return g.peeringSecrets(g.pick(gPeers), g.R.Intn(4))
}

// peeringSecrets walks the secret life cycle of a peering: establishment secret (token generated), exchange for a
// pending stream secret, promotion to the active stream secret (accepting side); the single Establish write of a
// dialing side.  Secret ids come from a small pool so that uniqueness rejections happen too.
func (g *Gen) peeringSecrets(p string, step int) (structs.MessageType, any, string) {
	id := UUID("peering-" + p)
	sec := func() string { return UUID("sec-" + fmt.Sprint(g.R.Intn(6))) }
	req := &pbpeering.SecretsWriteRequest{PeerID: id}
	desc := ""
	switch step {
	case 0:
		s := sec()
		g.lastEst[p] = s
		req.Request = &pbpeering.SecretsWriteRequest_GenerateToken{GenerateToken: &pbpeering.SecretsWriteRequest_GenerateTokenRequest{EstablishmentSecret: s}}
		desc = "generate-token"
	case 1:
		est, pend := g.lastEst[p], sec()
		if est == "" || g.chance(5) {
			est = sec()
		}
		g.lastPend[p] = pend
		req.Request = &pbpeering.SecretsWriteRequest_ExchangeSecret{ExchangeSecret: &pbpeering.SecretsWriteRequest_ExchangeSecretRequest{EstablishmentSecret: est, PendingStreamSecret: pend}}
		desc = "exchange-secret"
	case 2:
		pend := g.lastPend[p]
		if pend == "" || g.chance(5) {
			pend = sec()
		}
		req.Request = &pbpeering.SecretsWriteRequest_PromotePending{PromotePending: &pbpeering.SecretsWriteRequest_PromotePendingRequest{ActiveStreamSecret: pend}}
		desc = "promote-pending"
	default:
		req.Request = &pbpeering.SecretsWriteRequest_Establish{Establish: &pbpeering.SecretsWriteRequest_EstablishRequest{ActiveStreamSecret: sec()}}
		desc = "establish"
	}
	return structs.PeeringSecretsWriteType, req, "peering secrets " + desc
}

// Req is a generated command before encoding.
type Req struct {
	Type structs.MessageType
	Req  any
	Desc string
}

// NextReq returns the next command as a request struct (mix "rotate3" alternates catalog / kv / all).
func (g *Gen) NextReq(mix string) Req {
	if mix == "rotate3" {
		mix = []string{"catalog", "kv", "all"}[g.R.Intn(3)]
	}
	t, req, desc := g.nextReq(mix)
	g.Idx++
	return Req{t, req, desc}
}

// Next returns the next log entry. Mix selects the emphasis: "all", "catalog", "kv".
func (g *Gen) Next(mix string) Entry {
	scripted := len(g.script) > 0
	t, req, desc := g.nextReq(mix)
	if scripted {
		g.Idx++
	} else {
		g.Idx += uint64(1 + g.R.Intn(3)/2)
	}
	var data []byte
	var err error
	if pm, ok := req.(proto.Message); ok {
		data, err = structs.EncodeProto(t, pm)
	} else {
		data, err = structs.Encode(t, req)
	}
	if err != nil {
		panic(fmt.Sprintf("encode %s: %v", desc, err))
	}
	return Entry{Type: t, Desc: desc, Data: data, Index: g.Idx}
}

// Scenarios that need several cooperating commands in a row are scripted (a random mix almost never lines them
// up): a lock released by a session with a short lock delay and re-acquired at once, directly and inside a
// transaction; a CA root rotation that keeps the old root in the set as inactive.
func (g *Gen) loadScripts(seed int64) {
	type step = func() (structs.MessageType, any, string)
	kv := func(op string, key, sess string) step {
		return func() (structs.MessageType, any, string) {
			d := structs.DirEntry{Key: key, Value: []byte("x"), Session: UUID(sess)}
			return structs.KVSRequestType, &structs.KVSRequest{Datacenter: "dc1", Op: api.KVOp(op), DirEnt: d}, "kv " + op
		}
	}
	sess := func(id string, delay time.Duration) step {
		return func() (structs.MessageType, any, string) {
			return structs.SessionRequestType, &structs.SessionRequest{Datacenter: "dc1", Op: structs.SessionCreate,
				Session: structs.Session{ID: UUID(id), Node: "n1", Behavior: structs.SessionKeysRelease, LockDelay: delay}}, "session create"
		}
	}
	reg := func(node string, svc *structs.NodeService) step {
		return func() (structs.MessageType, any, string) {
			return structs.RegisterRequestType, &structs.RegisterRequest{Datacenter: "dc1", Node: node, Address: nodeAddr(node), Service: svc}, "register " + node
		}
	}
	sysmeta := func(key string) step {
		return func() (structs.MessageType, any, string) {
			return structs.SystemMetadataRequestType, &structs.SystemMetadataRequest{Datacenter: "dc1", Op: structs.SystemMetadataUpsert,
				Entry: &structs.SystemMetadataEntry{Key: key, Value: "true"}}, "system-metadata"
		}
	}
	ce := func(e structs.ConfigEntry) step {
		return func() (structs.MessageType, any, string) {
			_ = e.Normalize()
			return structs.ConfigEntryRequestType, &structs.ConfigEntryRequest{Datacenter: "dc1", Op: structs.ConfigEntryUpsert, Entry: e}, "config-entry upsert " + e.GetKind()
		}
	}
	tgw := func(names ...string) step {
		t := &structs.TerminatingGatewayConfigEntry{Kind: structs.TerminatingGateway, Name: "tgw"}
		for _, n := range names {
			t.Services = append(t.Services, structs.LinkedService{Name: n})
		}
		return ce(t)
	}
	switch seed % 6 {
	case 2:
		// virtual IPs of services behind a terminating gateway: both feature flags on (as the leader sets them), a gateway
		// instance, its config entry created with one service and then UPDATED to link several more in one write, an
		// ingress gateway (sorting before the terminating one in gateway-services) exposing one of them, and the last
		// catalog instance of that service going away while the terminating gateway still links it
		g.script = []step{
			sysmeta(structs.SystemMetadataVirtualIPsEnabled), sysmeta(structs.SystemMetadataTermGatewayVirtualIPsEnabled),
			reg("n1", &structs.NodeService{Kind: structs.ServiceKindTerminatingGateway, ID: "tgw1", Service: "tgw", Port: 8443}),
			tgw("web"),
			tgw("web", "api", "db", "cache", "ext1", "ext2"),
			ce(&structs.IngressGatewayConfigEntry{Kind: structs.IngressGateway, Name: "igw",
				Listeners: []structs.IngressListener{{Port: 8080, Protocol: "tcp", Services: []structs.IngressService{{Name: "db"}}}}}),
			reg("n2", &structs.NodeService{ID: "db1", Service: "db", Port: 1000, Tags: []string{"v1"}}),
			func() (structs.MessageType, any, string) {
				return structs.DeregisterRequestType, &structs.DeregisterRequest{Datacenter: "dc1", Node: "n2", ServiceID: "db1"}, "deregister"
			},
			reg("n2", &structs.NodeService{ID: "ext9", Service: "ext9", Port: 1000, Connect: structs.ServiceConnect{Native: true}}),
		}
	case 3:
		// a session create committed twice (retried forward), then used; the accepting side of a peering taking its
		// stream secret through establishment -> pending -> active, and a second token generated afterwards
		g.script = []step{
			reg("n1", nil), sess("dup1", 0), sess("dup1", 0), kv("lock", "dup/key", "dup1"),
			func() (structs.MessageType, any, string) {
				return structs.PeeringWriteType, &pbpeering.PeeringWriteRequest{Peering: &pbpeering.Peering{ID: UUID("peering-peer-b"), Name: "peer-b",
					State: pbpeering.PeeringState_PENDING, Meta: map[string]string{}}}, "peering write"
			},
			func() (structs.MessageType, any, string) { return g.peeringSecrets("peer-b", 0) },
			func() (structs.MessageType, any, string) { return g.peeringSecrets("peer-b", 1) },
			func() (structs.MessageType, any, string) { return g.peeringSecrets("peer-b", 2) },
			func() (structs.MessageType, any, string) { return g.peeringSecrets("peer-b", 0) },
			func() (structs.MessageType, any, string) { return g.peeringSecrets("peer-b", 1) },
			func() (structs.MessageType, any, string) { return g.peeringSecrets("peer-b", 2) },
		}
	case 4:
		// ACL objects with a lifetime: a login-style token that is already past its expiration time and waits for the
		// reaper, one that expires far in the future, both linked to a policy and a role
		tok := func(id string, exp int64) step {
			return func() (structs.MessageType, any, string) {
				e := time.Unix(exp, 0).UTC()
				t := &structs.ACLToken{AccessorID: UUID(id), SecretID: UUID("secret-" + id), Description: "scripted", CreateTime: time.Unix(1400000000, 0).UTC(),
					ExpirationTime: &e, Policies: []structs.ACLTokenPolicyLink{{ID: UUID("p1")}}, Roles: []structs.ACLTokenRoleLink{{ID: UUID("r1")}}}
				t.SetHash(true)
				return structs.ACLTokenSetRequestType, &structs.ACLTokenBatchSetRequest{Tokens: structs.ACLTokens{t}}, "acl token set"
			}
		}
		g.script = []step{
			func() (structs.MessageType, any, string) {
				p := &structs.ACLPolicy{ID: UUID("p1"), Name: "pol-p1", Rules: `service "web" { policy = "read" }`}
				p.SetHash(true)
				return structs.ACLPolicySetRequestType, &structs.ACLPolicyBatchSetRequest{Policies: structs.ACLPolicies{p}}, "acl policy set"
			},
			func() (structs.MessageType, any, string) {
				r := &structs.ACLRole{ID: UUID("r1"), Name: "role-r1", Policies: []structs.ACLRolePolicyLink{{ID: UUID("p1")}}}
				r.SetHash(true)
				return structs.ACLRoleSetRequestType, &structs.ACLRoleBatchSetRequest{Roles: structs.ACLRoles{r}}, "acl role set"
			},
			tok("t-expired", 1500000000), tok("t-later", 1900000000),
		}
	case 0:
		g.script = []step{
			func() (structs.MessageType, any, string) {
				return structs.RegisterRequestType, &structs.RegisterRequest{Datacenter: "dc1", Node: "n1", Address: nodeAddr("n1")}, "register n1"
			},
			sess("ld1", 20*time.Millisecond), kv("lock", "ld/key", "ld1"), sess("ld2", 0),
			func() (structs.MessageType, any, string) {
				return structs.SessionRequestType, &structs.SessionRequest{Datacenter: "dc1", Op: structs.SessionDestroy, Session: structs.Session{ID: UUID("ld1")}}, "session destroy"
			},
			func() (structs.MessageType, any, string) {
				d := structs.DirEntry{Key: "ld/key", Value: []byte("y"), Session: UUID("ld2")}
				return structs.TxnRequestType, &structs.TxnRequest{Datacenter: "dc1", Ops: structs.TxnOps{{KV: &structs.TxnKVOp{Verb: api.KVLock, DirEnt: d}}}}, "txn"
			},
			kv("lock", "ld/key", "ld2"),
		}
	case 1:
		root := func(tag string, active bool) *structs.CARoot {
			return &structs.CARoot{ID: "root-" + tag, Name: tag, Active: active, RootCert: "cert-" + tag, SigningKeyID: "aa"}
		}
		g.script = []step{
			func() (structs.MessageType, any, string) {
				g.lastRootsIdx = g.Idx + 1
				return structs.ConnectCARequestType, &structs.CARequest{Datacenter: "dc1", Op: structs.CAOpSetRoots, Index: 0, Roots: []*structs.CARoot{root("r1", true)}}, "ca set-roots"
			},
			func() (structs.MessageType, any, string) {
				idx := g.lastRootsIdx
				g.lastRootsIdx = g.Idx + 1
				return structs.ConnectCARequestType, &structs.CARequest{Datacenter: "dc1", Op: structs.CAOpSetRoots, Index: idx,
					Roots: []*structs.CARoot{root("r2", true), root("r1", false)}}, "ca set-roots"
			},
		}
	}
}

func (g *Gen) nextReq(mix string) (structs.MessageType, any, string) {
	if len(g.script) > 0 {
		st := g.script[0]
		g.script = g.script[1:]
		return st()
	}
	var t structs.MessageType
	var req any
	var desc string
	x := g.R.Intn(100)
	switch mix {
	case "catalog":
		switch {
		case x < 40:
			t, req, desc = g.register()
		case x < 55:
			t, req, desc = g.deregister()
		case x < 75:
			t, req, desc = g.configEntry()
		case x < 82:
			t, req, desc = g.txn()
		case x < 88:
			t, req, desc = g.session()
		case x < 92:
			t, req, desc = g.coords()
		default:
			t, req, desc = g.misc()
		}
	case "kv":
		switch {
		case x < 55:
			t, req, desc = g.kvs()
		case x < 70:
			t, req, desc = g.txn()
		case x < 82:
			t, req, desc = g.session()
		case x < 92:
			t, req, desc = g.register()
		default:
			t, req, desc = g.misc()
		}
	default:
		switch {
		case x < 18:
			t, req, desc = g.register()
		case x < 25:
			t, req, desc = g.deregister()
		case x < 37:
			t, req, desc = g.kvs()
		case x < 44:
			t, req, desc = g.session()
		case x < 52:
			t, req, desc = g.txn()
		case x < 55:
			t, req, desc = g.coords()
		case x < 59:
			t, req, desc = g.pq()
		case x < 70:
			t, req, desc = g.configEntry()
		case x < 75:
			t, req, desc = g.intention()
		case x < 81:
			t, req, desc = g.ca()
		case x < 90:
			t, req, desc = g.aclCmd()
		default:
			t, req, desc = g.misc()
		}
	}
	return t, req, desc
}

var _ = acl.EnterpriseMeta{}

// JSONable converts msgpack-decoded generic values (map[interface{}]interface{}, []byte) into JSON-encodable ones.
func JSONable(v any) any {
	switch x := v.(type) {
	case map[any]any:
		m := map[string]any{}
		for k, e := range x {
			m[fmt.Sprint(k)] = JSONable(e)
		}
		return m
	case map[string]any:
		m := map[string]any{}
		for k, e := range x {
			m[k] = JSONable(e)
		}
		return m
	case []any:
		for i := range x {
			x[i] = JSONable(x[i])
		}
		return x
	case []byte:
		return string(x)
	}
	return v
}
