package storeh

import (
	"math/rand"

	"github.com/hashicorp/consul/agent/consul/state"
)

func keyJ(k string) []any {
	out := make([]any, len(k))
	for i := 0; i < len(k); i++ {
		out[i] = float64(k[i])
	}
	return out
}

// AbsGen is the seeded random driver over the abstract commands of spec/Store.tla. It reads the
// CURRENT state only to choose interesting arguments (matching CAS indexes, live sessions).
type AbsGen struct {
	R       *rand.Rand
	Store   func() *state.Store
	Idx     uint64
	Profile string
	NoReap  bool // endpoints have no reap / prepared-query command
	TxnKV   bool // transactions carry KV and session verbs only (the Txn endpoint pre-validates catalog verbs beyond the FSM)
	Delays  bool // some sessions carry a lock delay
	NoSerf  bool // a running leader reaps nodes that carry a serfHealth check but are no serf members
}

func (g *AbsGen) pick(l []string) string {
	x := l[g.R.Intn(len(l))]
	if g.NoSerf && x == "serfHealth" {
		return "c3"
	}
	return x
}

// current modify index of a key (0 if absent) read through the public API
func (g *AbsGen) mi(k string) uint64 {
	_, e, _ := g.Store().KVSGet(nil, k, nil)
	if e == nil {
		return 0
	}
	return e.ModifyIndex
}

func (g *AbsGen) casIdx(k string) float64 {
	cur := g.mi(k)
	switch g.R.Intn(5) {
	case 0:
		return 0
	case 1, 2:
		return float64(cur)
	case 3:
		if cur > 1 {
			return float64(cur - 1)
		}
		return 1
	}
	return float64(g.Idx + 5)
}

var (
	WideKeys     = []string{"a", "a/", "a/b", "a/b/c", "ab", "b", "b/", "\xc3\xa9", "a/\xc3\xa9", "a\x01", "zz/y", "a//", "A"}
	WidePrefixes = []string{"", "a", "a/", "a/b", "a/b/", "b", "\xc3", "\xc3\xa9", "z", "a//", "c"}
	sessIds      = []string{"s1", "s2", "s3", "s4"}
	nodeNms      = []string{"n1", "n2", "n3"}
	chkIds       = []string{"c1", "c2", "serfHealth"}
	vals         = []string{"x", "y", "", "zzz"}
)

func (g *AbsGen) kvCmd() M {
	k := g.pick(WideKeys)
	ops := []string{"set", "set", "cas", "delete", "delete-cas", "delete-tree", "lock", "lock", "unlock"}
	op := g.pick(ops)
	c := M{"t": "kv", "op": op, "k": keyJ(k), "v": g.pick(vals), "f": float64(g.R.Intn(2) * 42), "s": "", "li": float64(0), "mi": float64(0)}
	switch op {
	case "cas", "delete-cas":
		c["mi"] = g.casIdx(k)
	case "lock", "unlock":
		c["s"] = g.pick(sessIds)
		if g.R.Intn(15) == 0 {
			c["s"] = ""
		}
		if g.Delays && op == "lock" {
			// go for a key inside its lock-delay window when there is one
			if d := DelayKeys(g.Store(), 0); len(d) > 0 && g.R.Intn(2) == 0 {
				c["k"] = keyJ(g.pick(d))
			}
		}
	case "delete-tree":
		c["k"] = keyJ(g.pick(WidePrefixes))
	case "set":
		if g.R.Intn(6) == 0 {
			c["li"] = float64(g.R.Intn(3))
		}
	}
	// a plain write may carry a Session field (the HTTP API ignores it for set / cas, a raft command need not):
	// it must never make the key held
	if (op == "set" || op == "cas") && g.R.Intn(5) == 0 {
		c["s"] = g.pick(sessIds)
	}
	return c
}

func (g *AbsGen) chk(id string) M {
	typ := ""
	sname := ""
	if g.R.Intn(4) == 0 {
		typ = "session"
		sname = g.pick([]string{"sn", "sm"})
	}
	svc := ""
	if g.R.Intn(3) == 0 {
		svc = g.pick([]string{"w1", "w2"})
	}
	return M{"id": id, "status": g.pick([]string{"passing", "critical", "warning", ""}), "svc": svc, "typ": typ, "sname": sname}
}

func noSvc() M { return M{"id": "", "name": ""} }
func noChk() M { return M{"id": "", "status": "", "svc": "", "typ": "", "sname": ""} }

func (g *AbsGen) catCmd() M {
	n := g.pick(nodeNms)
	switch g.R.Intn(10) {
	case 0, 1, 2:
		nid := ""
		if g.R.Intn(3) == 0 {
			nid = g.pick([]string{"id1", "id2"})
		}
		return M{"t": "reg", "node": n, "nid": nid, "hassvc": false, "svc": noSvc(), "haschk": false, "chk": noChk()}
	case 3, 4:
		return M{"t": "reg", "node": n, "nid": "", "hassvc": false, "svc": noSvc(), "haschk": true, "chk": g.chk(g.pick(chkIds))}
	case 5, 6:
		sid := g.pick([]string{"w1", "w2"})
		c := M{"t": "reg", "node": n, "nid": "", "hassvc": true, "svc": M{"id": sid, "name": "web"}, "haschk": false, "chk": noChk()}
		if g.R.Intn(2) == 0 {
			ck := g.chk(g.pick(chkIds))
			ck["svc"] = sid
			c["haschk"] = true
			c["chk"] = ck
		}
		return c
	case 7:
		return M{"t": "dereg", "node": n, "svc": "", "chk": g.pick(chkIds)}
	case 8:
		return M{"t": "dereg", "node": n, "svc": g.pick([]string{"w1", "w2"}), "chk": ""}
	}
	return M{"t": "dereg", "node": n, "svc": "", "chk": ""}
}

func (g *AbsGen) sessCmd() M {
	if g.R.Intn(3) == 0 {
		return M{"t": "sess", "op": "destroy", "id": g.pick(sessIds)}
	}
	// never re-create a live session id (the endpoint always mints a fresh UUID)
	live := map[string]bool{}
	_, ss, _ := g.Store().SessionList(nil, nil)
	for _, s := range ss {
		live[Name(s.ID)] = true
	}
	var free []string
	for _, s := range sessIds {
		if !live[s] {
			free = append(free, s)
		}
	}
	if len(free) == 0 {
		return M{"t": "sess", "op": "destroy", "id": g.pick(sessIds)}
	}
	checks := []any{}
	if g.R.Intn(2) == 0 {
		checks = append(checks, g.pick(chkIds))
		if g.R.Intn(4) == 0 {
			c2 := g.pick(chkIds)
			if c2 != checks[0] {
				checks = append(checks, c2)
			}
		}
	}
	c := M{"t": "sess", "op": "create", "id": g.pick(free), "node": g.pick(nodeNms), "beh": g.pick([]string{"release", "delete", "", "release"}),
		"checks": checks, "name": g.pick([]string{"", "sn", "sm"})}
	if g.Delays && g.R.Intn(2) == 0 {
		c["delay"] = "yes" // the session carries the maximum lock delay (60s)
	}
	return c
}

func (g *AbsGen) txnOp() M {
	k0 := g.R.Intn(12)
	if g.TxnKV && k0 >= 1 && k0 <= 3 {
		k0 = 5
	}
	switch k0 {
	case 0:
		live := []string{}
		_, ss, _ := g.Store().SessionList(nil, nil)
		for _, s := range ss {
			live = append(live, Name(s.ID))
		}
		if len(live) > 0 && g.R.Intn(5) != 0 {
			return M{"fam": "sess", "verb": "delete", "id": g.pick(live)}
		}
		return M{"fam": "sess", "verb": "delete", "id": g.pick(sessIds)}
	case 1:
		return M{"fam": "node", "verb": g.pick([]string{"delete", "get", "set"}), "node": g.pick(nodeNms), "nid": ""}
	case 2:
		return M{"fam": "chk", "verb": g.pick([]string{"set", "delete", "get"}), "node": g.pick(nodeNms), "chk": g.chk(g.pick(chkIds))}
	case 3:
		o := M{"fam": "svc", "verb": g.pick([]string{"set", "delete", "get", "cas", "cas"}), "node": g.pick(nodeNms), "id": g.pick([]string{"w1", "w2"}),
			"name": g.pick([]string{"web", "web", "web2"})}
		if o["verb"] == "cas" {
			// supplied index: "must not exist", the instance's current modify index (read through the public API), or a stale one
			cur := uint64(0)
			if _, sv, _ := g.Store().NodeService(nil, o["node"].(string), o["id"].(string), nil, ""); sv != nil {
				cur = sv.ModifyIndex
			}
			o["mi"] = float64([]uint64{0, cur, cur, cur + 1, 1}[g.R.Intn(5)])
		}
		return o
	}
	k := g.pick(WideKeys)
	verbs := []string{"set", "cas", "delete", "delete-cas", "delete-tree", "lock", "unlock", "get", "get-tree", "get-or-empty",
		"check-index", "check-session", "check-not-exists"}
	verb := g.pick(verbs)
	o := M{"fam": "kv", "verb": verb, "k": keyJ(k), "v": g.pick(vals), "f": float64(0), "s": "", "li": float64(0), "mi": float64(0)}
	switch verb {
	case "cas", "delete-cas", "check-index":
		o["mi"] = g.casIdx(k)
	case "lock", "unlock", "check-session":
		o["s"] = g.pick(sessIds)
	case "set":
		if g.R.Intn(5) == 0 {
			o["s"] = g.pick(sessIds)
		}
	case "delete-tree":
		o["k"] = keyJ(g.pick(WidePrefixes))
	case "get-tree":
		p := g.pick(WidePrefixes)
		if g.TxnKV && p == "" {
			p = "a" // the Txn endpoint refuses an empty key for every verb but delete-tree
		}
		o["k"] = keyJ(p)
	}
	return o
}

// Next returns the next abstract command (without its index when NoIdx is set by the caller).
func (g *AbsGen) Next() M {
	var c M
	x := g.R.Intn(100)
	switch g.Profile {
	case "kv":
		switch {
		case x < 70:
			c = g.kvCmd()
		case x < 80:
			c = g.sessCmd()
		case x < 86:
			c = g.catCmd()
		case x < 90:
			if g.NoReap {
				c = g.kvCmd()
			} else {
				c = M{"t": "reap", "upto": float64(g.R.Intn(int(g.Idx) + 2))}
			}
		default:
			n := 1 + g.R.Intn(3)
			ops := []any{}
			for i := 0; i < n; i++ {
				ops = append(ops, g.txnOp())
			}
			c = M{"t": "txn", "ops": ops}
		}
	case "sess":
		switch {
		case x < 30:
			c = g.kvCmd()
		case x < 55:
			c = g.sessCmd()
		case x < 80:
			c = g.catCmd()
		case x < 85:
			if g.NoReap {
				c = g.sessCmd()
			} else {
				c = M{"t": "pq", "op": g.pick([]string{"set", "set", "delete"}), "id": g.pick([]string{"q1", "q2"}), "sess": g.pick(append([]string{""}, sessIds...))}
			}
		default:
			n := 1 + g.R.Intn(3)
			ops := []any{}
			for i := 0; i < n; i++ {
				ops = append(ops, g.txnOp())
			}
			c = M{"t": "txn", "ops": ops}
		}
	default: // txn
		switch {
		case x < 25:
			c = g.kvCmd()
		case x < 33:
			c = g.sessCmd()
		case x < 42:
			c = g.catCmd()
		default:
			n := 1 + g.R.Intn(5)
			ops := []any{}
			for i := 0; i < n; i++ {
				ops = append(ops, g.txnOp())
			}
			c = M{"t": "txn", "ops": ops}
		}
	}
	g.Idx += uint64(1 + g.R.Intn(3)/2) // occasional index gaps, like raft no-ops
	c["idx"] = float64(g.Idx)
	return c
}
