package storeh

// The read battery: every read endpoint family of property C06 evaluated directly on the state
// store, each with its own memdb.WatchSet. Results are canonicalised with the same dumper as the
// table dump; nothing is interpreted here.

import (
	"crypto/sha1"
	"encoding/hex"
	"fmt"
	"reflect"
	"sort"
	"strings"

	memdb "github.com/hashicorp/go-memdb"

	"github.com/hashicorp/consul/acl"
	"github.com/hashicorp/consul/agent/consul/state"
	"github.com/hashicorp/consul/agent/structs"
	"github.com/hashicorp/consul/api"
)

type Query struct {
	Name string
	Run  func(ws memdb.WatchSet, s *state.Store) (uint64, any, error)
}

type QObs struct {
	Name string
	Idx  uint64
	Res  string // digest of canonical result
	Err  bool
	ws   memdb.WatchSet
}

func Digest(s string) string {
	h := sha1.Sum([]byte(s))
	return hex.EncodeToString(h[:8])
}

func Battery() []Query {
	var qs []Query
	add := func(name string, f func(ws memdb.WatchSet, s *state.Store) (uint64, any, error)) {
		qs = append(qs, Query{name, f})
	}
	for _, k := range gKeys {
		k := k
		add("kv-get:"+k, func(ws memdb.WatchSet, s *state.Store) (uint64, any, error) { return s.KVSGet(ws, k, nil) })
	}
	for _, p := range append([]string{"a/b/", "\xc3"}, gPrefixes...) {
		p := p
		add("kv-list:"+p, func(ws memdb.WatchSet, s *state.Store) (uint64, any, error) { return s.KVSList(ws, p, nil) })
	}
	for _, id := range gSess {
		id := id
		add("session-get:"+id, func(ws memdb.WatchSet, s *state.Store) (uint64, any, error) { return s.SessionGet(ws, UUID(id), nil) })
	}
	add("session-list", func(ws memdb.WatchSet, s *state.Store) (uint64, any, error) { return s.SessionList(ws, nil) })
	for _, n := range gNodes {
		n := n
		add("node-sessions:"+n, func(ws memdb.WatchSet, s *state.Store) (uint64, any, error) { return s.NodeSessions(ws, n, nil) })
		add("node-services:"+n, func(ws memdb.WatchSet, s *state.Store) (uint64, any, error) { return s.NodeServices(ws, n, nil, "") })
		add("node-service-list:"+n, func(ws memdb.WatchSet, s *state.Store) (uint64, any, error) { return s.NodeServiceList(ws, n, nil, "") })
		add("node-checks:"+n, func(ws memdb.WatchSet, s *state.Store) (uint64, any, error) { return s.NodeChecks(ws, n, nil, "") })
		add("node-info:"+n, func(ws memdb.WatchSet, s *state.Store) (uint64, any, error) { return s.NodeInfo(ws, n, nil, "") })
		add("coordinate:"+n, func(ws memdb.WatchSet, s *state.Store) (uint64, any, error) { return s.Coordinate(ws, n, nil) })
	}
	for _, peer := range []string{"", gPeers[0]} {
		peer := peer
		sfx := ""
		if peer != "" {
			sfx = "@" + peer
		}
		add("nodes"+sfx, func(ws memdb.WatchSet, s *state.Store) (uint64, any, error) { return s.Nodes(ws, nil, peer) })
		add("services"+sfx, func(ws memdb.WatchSet, s *state.Store) (uint64, any, error) { return s.Services(ws, nil, peer, false) })
		add("service-list"+sfx, func(ws memdb.WatchSet, s *state.Store) (uint64, any, error) { return s.ServiceList(ws, nil, peer) })
		add("node-dump"+sfx, func(ws memdb.WatchSet, s *state.Store) (uint64, any, error) { return s.NodeDump(ws, nil, peer) })
		add("service-dump"+sfx, func(ws memdb.WatchSet, s *state.Store) (uint64, any, error) {
			return s.ServiceDump(ws, "", false, nil, peer)
		})
		for _, st := range []string{api.HealthAny, api.HealthCritical, api.HealthPassing} {
			st := st
			add("checks-in-state:"+st+sfx, func(ws memdb.WatchSet, s *state.Store) (uint64, any, error) {
				return s.ChecksInState(ws, st, nil, peer)
			})
		}
		names := append([]string{"web-sidecar-proxy", "tgw", "igw"}, gSvcNames...)
		for _, name := range names {
			name := name
			add("service-nodes:"+name+sfx, func(ws memdb.WatchSet, s *state.Store) (uint64, any, error) {
				return s.ServiceNodes(ws, name, nil, peer)
			})
			add("service-checks:"+name+sfx, func(ws memdb.WatchSet, s *state.Store) (uint64, any, error) {
				return s.ServiceChecks(ws, name, nil, peer)
			})
			add("health-service:"+name+sfx, func(ws memdb.WatchSet, s *state.Store) (uint64, any, error) {
				return s.CheckServiceNodes(ws, name, nil, peer)
			})
			add("health-connect:"+name+sfx, func(ws memdb.WatchSet, s *state.Store) (uint64, any, error) {
				return s.CheckConnectServiceNodes(ws, name, nil, peer)
			})
			add("connect-service-nodes:"+name+sfx, func(ws memdb.WatchSet, s *state.Store) (uint64, any, error) {
				return s.ConnectServiceNodes(ws, name, nil, peer)
			})
			add("service-tag-nodes:"+name+sfx, func(ws memdb.WatchSet, s *state.Store) (uint64, any, error) {
				return s.ServiceTagNodes(ws, name, []string{"v1"}, nil, peer)
			})
			add("health-service-tag:"+name+sfx, func(ws memdb.WatchSet, s *state.Store) (uint64, any, error) {
				return s.CheckServiceTagNodes(ws, name, []string{"v1"}, nil, peer)
			})
		}
	}
	add("service-dump-kind:connect-proxy", func(ws memdb.WatchSet, s *state.Store) (uint64, any, error) {
		return s.ServiceDump(ws, structs.ServiceKindConnectProxy, true, nil, "")
	})
	for _, gw := range []string{"tgw", "igw"} {
		gw := gw
		add("gateway-services:"+gw, func(ws memdb.WatchSet, s *state.Store) (uint64, any, error) { return s.GatewayServices(ws, gw, nil) })
	}
	for _, kind := range []string{structs.ServiceDefaults, structs.ServiceResolver, structs.ServiceIntentions, structs.TerminatingGateway, structs.IngressGateway} {
		kind := kind
		add("config-entries:"+kind, func(ws memdb.WatchSet, s *state.Store) (uint64, any, error) {
			return s.ConfigEntriesByKind(ws, kind, nil)
		})
	}
	for _, name := range gSvcNames {
		name := name
		add("config-entry:service-defaults/"+name, func(ws memdb.WatchSet, s *state.Store) (uint64, any, error) {
			return s.ConfigEntry(ws, structs.ServiceDefaults, name, nil)
		})
		add("config-entry:service-resolver/"+name, func(ws memdb.WatchSet, s *state.Store) (uint64, any, error) {
			return s.ConfigEntry(ws, structs.ServiceResolver, name, nil)
		})
		for _, mt := range []structs.IntentionMatchType{structs.IntentionMatchSource, structs.IntentionMatchDestination} {
			mt := mt
			add("intention-match:"+string(mt)+"/"+name, func(ws memdb.WatchSet, s *state.Store) (uint64, any, error) {
				return s.IntentionMatch(ws, &structs.IntentionQueryMatch{Type: mt, Entries: []structs.IntentionMatchEntry{{Namespace: "default", Name: name}}})
			})
		}
	}
	for _, name := range gSvcNames {
		name := name
		add("service-topology:"+name, func(ws memdb.WatchSet, s *state.Store) (uint64, any, error) {
			return s.ServiceTopology(ws, "dc1", name, structs.ServiceKindTypical, true, nil)
		})
	}
	add("config-entries", func(ws memdb.WatchSet, s *state.Store) (uint64, any, error) { return s.ConfigEntries(ws, nil) })
	add("intentions", func(ws memdb.WatchSet, s *state.Store) (uint64, any, error) {
		i, r, _, e := s.Intentions(ws, nil)
		return i, r, e
	})
	for _, id := range []string{"q1", "q2", "q3"} {
		id := id
		add("prepared-query:"+id, func(ws memdb.WatchSet, s *state.Store) (uint64, any, error) { return s.PreparedQueryGet(ws, UUID(id)) })
	}
	add("prepared-queries", func(ws memdb.WatchSet, s *state.Store) (uint64, any, error) { return s.PreparedQueryList(ws) })
	add("coordinates", func(ws memdb.WatchSet, s *state.Store) (uint64, any, error) { return s.Coordinates(ws, nil) })
	add("ca-roots", func(ws memdb.WatchSet, s *state.Store) (uint64, any, error) { return s.CARoots(ws) })
	add("ca-config", func(ws memdb.WatchSet, s *state.Store) (uint64, any, error) { return s.CAConfig(ws) })
	for _, p := range gPeers {
		p := p
		add("peering-read:"+p, func(ws memdb.WatchSet, s *state.Store) (uint64, any, error) {
			i, r, e := s.PeeringRead(ws, state.Query{Value: p})
			if r == nil {
				return i, nil, e
			}
			return i, SpewString(r), e
		})
	}
	add("peering-list", func(ws memdb.WatchSet, s *state.Store) (uint64, any, error) {
		i, r, e := s.PeeringList(ws, *acl.DefaultEnterpriseMeta())
		out := []string{}
		for _, p := range r {
			out = append(out, SpewString(p))
		}
		return i, out, e
	})
	add("acl-tokens", func(ws memdb.WatchSet, s *state.Store) (uint64, any, error) {
		return s.ACLTokenList(ws, true, true, "", "", "", nil, nil)
	})
	add("acl-policies", func(ws memdb.WatchSet, s *state.Store) (uint64, any, error) { return s.ACLPolicyList(ws, nil) })
	add("federation-states", func(ws memdb.WatchSet, s *state.Store) (uint64, any, error) { return s.FederationStateList(ws) })
	return qs
}

// Observe runs every query with a fresh WatchSet.
func Observe(s *state.Store, qs []Query) []QObs {
	out := make([]QObs, len(qs))
	for i, q := range qs {
		ws := memdb.NewWatchSet()
		idx, res, err := q.Run(ws, s)
		o := QObs{Name: q.Name, Idx: idx, ws: ws, Err: err != nil}
		if err != nil {
			o.Res = "err"
		} else {
			o.Res = Digest(canonResult(res))
		}
		out[i] = o
	}
	return out
}

// Fired reports whether any channel of the observation's WatchSet has been closed.
func (o QObs) Fired() bool {
	for ch := range o.ws {
		select {
		case <-ch:
			return true
		default:
		}
	}
	return false
}

// BatteryDigest is one digest over all (name, index, result) triples.
func BatteryDigest(obs []QObs) string {
	s := ""
	for _, o := range obs {
		s += fmt.Sprintf("%s|%d|%s\n", o.Name, o.Idx, o.Res)
	}
	return Digest(s)
}

// canonResult renders a query result. Several endpoints build their top-level list from a Go map
// (ServiceList, service names of a kind ...) and promise no order; the top-level order is therefore
// not part of the digest (ordering promises are property C13's business), everything below is.
func canonResult(res any) string {
	v := reflect.ValueOf(res)
	if v.IsValid() && v.Kind() == reflect.Slice {
		parts := make([]string, 0, v.Len())
		for i := 0; i < v.Len(); i++ {
			parts = append(parts, SpewString(v.Index(i).Interface()))
		}
		sort.Strings(parts)
		return fmt.Sprintf("slice[%d]{%s}", v.Len(), strings.Join(parts, ";"))
	}
	return SpewString(res)
}

// Explain returns the index and canonical text of one named query (debugging / replay reports).
func Explain(s *state.Store, name string) (uint64, string) {
	for _, q := range Battery() {
		if q.Name == name {
			idx, res, err := q.Run(memdb.NewWatchSet(), s)
			if err != nil {
				return idx, "error: " + err.Error()
			}
			return idx, strings.Join(strings.Fields(canonResult(res)), " ")
		}
	}
	return 0, "no such query"
}
