package storeh

// Projection of the catalog, its derived tables and the config entries they are derived from
// (property C07). Field copies only: every recomputation lives in spec/Catalog.tla.

import (
	"encoding/json"
	"sort"
	"strings"

	"github.com/hashicorp/consul/agent/consul/state"
	"github.com/hashicorp/consul/agent/structs"
)

// ipTail drops the first octet of a dotted IPv4 address (the virtual IP range offset)
func ipTail(ip string) string {
	if i := strings.IndexByte(ip, '.'); i >= 0 {
		return ip[i+1:]
	}
	return ip
}

func (h *H) ProjectCatalog() M {
	s := h.Store()
	nodes, svcs, chks, coords := []M{}, []M{}, []M{}, []M{}
	gws, topo, kinds, usage, vips, free := []M{}, []M{}, []M{}, M{}, []M{}, []string{}
	tgw, igw, ces := []M{}, []M{}, []M{}
	sdest := []string{}
	nkv := 0
	_ = s.WalkAllTables(func(table string, item any) bool {
		switch table {
		case "nodes":
			n := item.(*structs.Node)
			nodes = append(nodes, M{"name": n.Node, "peer": n.PeerName})
		case "services":
			x := item.(*structs.ServiceNode)
			ups := []M{}
			for _, u := range x.ServiceProxy.Upstreams {
				ups = append(ups, M{"name": u.DestinationName, "peer": u.DestinationPeer, "pq": u.DestinationType == structs.UpstreamDestTypePreparedQuery})
			}
			vip := ""
			if a, ok := x.ServiceTaggedAddresses[structs.TaggedAddressVirtualIP]; ok {
				vip = a.Address
			}
			// every virtual IP the instance advertises: its own ("consul-virtual") and, for terminating gateways, one
			// per linked service ("consul-virtual:<service>"); addresses carry the 240.0.0.0 offset, table rows do not
			adv := []M{}
			for k, a := range x.ServiceTaggedAddresses {
				if k == structs.TaggedAddressVirtualIP {
					adv = append(adv, M{"svc": "", "ip": ipTail(a.Address)})
				} else if strings.HasPrefix(k, structs.TaggedAddressVirtualIP+":") {
					adv = append(adv, M{"svc": strings.TrimPrefix(k, structs.TaggedAddressVirtualIP+":"), "ip": ipTail(a.Address)})
				}
			}
			sortM(adv, "svc")
			svcs = append(svcs, M{"adv": adv, "node": x.Node, "id": x.ServiceID, "name": x.ServiceName, "kind": string(x.ServiceKind), "peer": x.PeerName,
				"dest": x.ServiceProxy.DestinationServiceName, "native": x.ServiceConnect.Native, "ups": ups, "vip": vip})
		case "checks":
			x := item.(*structs.HealthCheck)
			chks = append(chks, M{"node": x.Node, "id": string(x.CheckID), "svc": x.ServiceID, "peer": x.PeerName})
		case "coordinates":
			c := item.(*structs.Coordinate)
			coords = append(coords, M{"node": c.Node})
		case "gateway-services":
			g := item.(*structs.GatewayService)
			gws = append(gws, M{"gw": g.Gateway.Name, "svc": g.Service.Name, "kind": string(g.GatewayKind), "wild": g.FromWildcard})
		case "mesh-topology":
			b, _ := json.Marshal(item)
			var m struct {
				Upstream   struct{ Name string }
				Downstream struct{ Name string }
				Refs       map[string]struct{}
			}
			_ = json.Unmarshal(b, &m)
			refs := []string{}
			for r := range m.Refs {
				refs = append(refs, r)
			}
			sort.Strings(refs)
			topo = append(topo, M{"up": m.Upstream.Name, "down": m.Downstream.Name, "refs": refs})
		case "kind-service-names":
			k := item.(*state.KindServiceName)
			kinds = append(kinds, M{"kind": string(k.Kind), "name": k.Service.Name})
		case "usage":
			u := item.(*state.UsageEntry)
			usage[u.ID] = u.Count
		case "service-virtual-ips":
			v := item.(state.ServiceVirtualIP)
			vips = append(vips, M{"name": v.Service.ServiceName.Name, "peer": v.Service.Peer, "ip": v.IP.String(), "tail": ipTail(v.IP.String())})
		case "free-virtual-ips":
			v := item.(state.FreeVirtualIP)
			if !v.IsCounter {
				free = append(free, v.IP.String())
			}
		case "kvs":
			nkv++
		case "config-entries":
			if ce, ok := item.(structs.ConfigEntry); ok {
				ces = append(ces, M{"kind": ce.GetKind(), "name": ce.GetName()})
			}
			switch e := item.(type) {
			case *structs.ServiceConfigEntry:
				if e.Destination != nil {
					sdest = append(sdest, e.Name)
				}
			case *structs.TerminatingGatewayConfigEntry:
				names := []string{}
				for _, l := range e.Services {
					names = append(names, l.Name)
				}
				sort.Strings(names)
				tgw = append(tgw, M{"gw": e.Name, "svcs": names})
			case *structs.IngressGatewayConfigEntry:
				names := []string{}
				for _, l := range e.Listeners {
					for _, sv := range l.Services {
						names = append(names, sv.Name)
					}
				}
				sort.Strings(names)
				igw = append(igw, M{"gw": e.Name, "svcs": names})
			}
		}
		return true
	})
	sortM(nodes, "peer", "name")
	sortM(svcs, "peer", "node", "id")
	sortM(chks, "peer", "node", "id")
	sortM(gws, "gw", "svc")
	sortM(topo, "up", "down")
	sortM(kinds, "kind", "name")
	sortM(vips, "name", "peer")
	sortM(ces, "kind", "name")
	sort.Strings(free)
	sort.Strings(sdest)
	return M{"sdest": sdest, "nodes": nodes, "svcs": svcs, "chks": chks, "coords": coords, "gws": gws, "topo": topo, "kinds": kinds, "usage": usage,
		"vips": vips, "free": free, "tgw": tgw, "igw": igw, "nkv": nkv, "ces": ces}
}
