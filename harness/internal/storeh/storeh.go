// Package storeh drives the real consul FSM (agent/consul/fsm + agent/consul/state) with the
// abstract commands of spec/Store.tla and projects the real state back to the abstract one.
//
// The projection is deliberately dumb: field copies and sorting, no recomputation of anything
// the specification defines.
package storeh

import (
	"bytes"
	"context"
	"crypto/sha1"
	"encoding/json"
	"errors"
	"fmt"
	"io"
	"net"
	"regexp"
	"sort"
	"strings"
	"sync"
	"time"

	"github.com/davecgh/go-spew/spew"
	"github.com/hashicorp/go-hclog"
	memdb "github.com/hashicorp/go-memdb"
	"github.com/hashicorp/raft"
	"google.golang.org/protobuf/proto"

	"github.com/hashicorp/consul/agent/consul/fsm"
	"github.com/hashicorp/consul/agent/consul/state"
	"github.com/hashicorp/consul/agent/consul/stream"
	"github.com/hashicorp/consul/agent/netutil"
	"github.com/hashicorp/consul/agent/structs"
	"github.com/hashicorp/consul/api"
	raftstorage "github.com/hashicorp/consul/internal/storage/raft"
	"github.com/hashicorp/consul/types"
)

type M = map[string]any

// Virtual-IP allocation asks the local agent over HTTP whether it runs dual-stack unless a bind
// address is cached; a harness has no agent, so the answer is pinned (IPv4) for every replica alike.
func init() {
	netutil.SetAgentBindAddr(&net.IPAddr{IP: net.ParseIP("127.0.0.1")})
}

// ---------------------------------------------------------------- name <-> uuid

var (
	uuidMu  sync.Mutex
	uuidFwd = map[string]string{}
	uuidRev = map[string]string{}
)

// UUID maps an abstract identifier ("s1", "id1", "q1") to a stable UUID; "" stays "".
func UUID(name string) string {
	if name == "" {
		return ""
	}
	uuidMu.Lock()
	defer uuidMu.Unlock()
	if u, ok := uuidFwd[name]; ok {
		return u
	}
	h := sha1.Sum([]byte("verif:" + name))
	u := fmt.Sprintf("%x-%x-%x-%x-%x", h[0:4], h[4:6], h[6:8], h[8:10], h[10:16])
	uuidFwd[name] = u
	uuidRev[u] = name
	return u
}

// Name is the inverse of UUID; unknown values are returned unchanged.
func Name(u string) string {
	uuidMu.Lock()
	defer uuidMu.Unlock()
	if n, ok := uuidRev[u]; ok {
		return n
	}
	return u
}

// ---------------------------------------------------------------- publisher that records

type RecPublisher struct {
	mu      sync.Mutex
	Events  int
	Batches int
}

func (p *RecPublisher) Publish(ev []stream.Event) {
	p.mu.Lock()
	p.Events += len(ev)
	p.Batches++
	p.mu.Unlock()
}
func (p *RecPublisher) RegisterHandler(stream.Topic, stream.SnapshotFunc, bool) error { return nil }
func (p *RecPublisher) Subscribe(*stream.SubscribeRequest) (*stream.Subscription, error) {
	return nil, fmt.Errorf("not supported")
}
func (p *RecPublisher) Count() int {
	p.mu.Lock()
	defer p.mu.Unlock()
	return p.Events
}

// ---------------------------------------------------------------- harness

type H struct {
	FSM *fsm.FSM
	Pub *RecPublisher
	GC  *state.TombstoneGC
	// FailCommit makes the change-event generation step inside the next write transaction's Commit fail (fault point of
	// C05, installed through the verif hook state.VerifFailChangeProcessing); the caller resets it after the command.
	FailCommit bool
}

func New() *H {
	h := &H{Pub: &RecPublisher{}}
	h.FSM = NewFSM(h.Pub)
	h.Store().VerifFailChangeProcessing(func() error {
		if h.FailCommit {
			return errors.New("verif: injected failure of the change-processing step")
		}
		return nil
	})
	return h
}

func NewFSM(pub state.EventPublisher) *fsm.FSM {
	logger := hclog.New(&hclog.LoggerOptions{Output: io.Discard, Level: hclog.Off})
	return fsm.NewFromDeps(fsm.Deps{
		Logger: logger,
		NewStateStore: func() *state.Store {
			if pub == nil {
				return state.NewStateStore(nil)
			}
			return state.NewStateStoreWithEventPublisher(nil, pub)
		},
		StorageBackend: newStorageBackend(logger),
	})
}

// the real raft-backed resource storage backend, so that FSM.Snapshot / Restore work
func newStorageBackend(logger hclog.Logger) *raftstorage.Backend {
	b, err := raftstorage.NewBackend(nil, logger)
	if err != nil {
		panic(err)
	}
	go b.Run(context.Background())
	return b
}

func (h *H) Store() *state.Store { return h.FSM.State() }

func keyOf(v any) string {
	arr, _ := v.([]any)
	b := make([]byte, len(arr))
	for i, x := range arr {
		b[i] = byte(toInt(x))
	}
	return string(b)
}

func keyJSON(k string) []int {
	out := make([]int, len(k))
	for i := 0; i < len(k); i++ {
		out[i] = int(k[i])
	}
	return out
}

func toInt(v any) int64 {
	switch x := v.(type) {
	case float64:
		return int64(x)
	case int:
		return int64(x)
	case int64:
		return x
	case uint64:
		return int64(x)
	case json.Number:
		n, _ := x.Int64()
		return n
	}
	return 0
}
func str(v any) string   { s, _ := v.(string); return s }
func boolean(v any) bool { b, _ := v.(bool); return b }

func dirEnt(c M) structs.DirEntry {
	d := structs.DirEntry{
		Key:       keyOf(c["k"]),
		Flags:     uint64(toInt(c["f"])),
		Session:   UUID(str(c["s"])),
		LockIndex: uint64(toInt(c["li"])),
	}
	if v := str(c["v"]); v != "" {
		d.Value = []byte(v)
	}
	d.ModifyIndex = uint64(toInt(c["mi"]))
	return d
}

func nodeAddr(n string) string {
	h := sha1.Sum([]byte(n))
	return fmt.Sprintf("10.%d.%d.%d", h[0], h[1], h[2])
}

func healthCheck(node string, c M) *structs.HealthCheck {
	hc := &structs.HealthCheck{
		Node:      node,
		CheckID:   types.CheckID(str(c["id"])),
		Name:      "check " + str(c["id"]),
		Status:    str(c["status"]),
		ServiceID: str(c["svc"]),
		Type:      str(c["typ"]),
	}
	hc.Definition.SessionName = str(c["sname"])
	return hc
}

// Request builds the real raft command for an abstract command.
func Request(c M) (structs.MessageType, any, error) {
	switch str(c["t"]) {
	case "kv":
		return structs.KVSRequestType, &structs.KVSRequest{Datacenter: "dc1", Op: api.KVOp(str(c["op"])), DirEnt: dirEnt(c)}, nil
	case "sess":
		req := &structs.SessionRequest{Datacenter: "dc1"}
		if str(c["op"]) == "create" {
			req.Op = structs.SessionCreate
			var checks []types.CheckID
			for _, x := range anyList(c["checks"]) {
				checks = append(checks, types.CheckID(str(x)))
			}
			sort.Slice(checks, func(i, j int) bool { return checks[i] < checks[j] })
			req.Session = structs.Session{ID: UUID(str(c["id"])), Node: str(c["node"]), Name: str(c["name"]),
				Behavior: structs.SessionBehavior(str(c["beh"])), NodeChecks: nil}
			if str(c["delay"]) == "yes" {
				req.Session.LockDelay = structs.MaxLockDelay
			}
			for _, ck := range checks {
				req.Session.NodeChecks = append(req.Session.NodeChecks, string(ck))
			}
		} else {
			req.Op = structs.SessionDestroy
			req.Session = structs.Session{ID: UUID(str(c["id"]))}
		}
		return structs.SessionRequestType, req, nil
	case "reg":
		req := &structs.RegisterRequest{Datacenter: "dc1", Node: str(c["node"]), ID: types.NodeID(UUID(str(c["nid"]))),
			Address: nodeAddr(str(c["node"]))}
		if boolean(c["hassvc"]) {
			s := c["svc"].(map[string]any)
			req.Service = &structs.NodeService{ID: str(s["id"]), Service: str(s["name"]), Port: 8080}
		}
		if boolean(c["haschk"]) {
			req.Check = healthCheck(str(c["node"]), c["chk"].(map[string]any))
		}
		return structs.RegisterRequestType, req, nil
	case "dereg":
		return structs.DeregisterRequestType, &structs.DeregisterRequest{Datacenter: "dc1", Node: str(c["node"]),
			ServiceID: str(c["svc"]), CheckID: types.CheckID(str(c["chk"]))}, nil
	case "reap":
		return structs.TombstoneRequestType, &structs.TombstoneRequest{Datacenter: "dc1", Op: structs.TombstoneReap,
			ReapIndex: uint64(toInt(c["upto"]))}, nil
	case "pq":
		req := &structs.PreparedQueryRequest{Datacenter: "dc1"}
		req.Query = &structs.PreparedQuery{ID: UUID(str(c["id"]))}
		if str(c["op"]) == "set" {
			req.Op = structs.PreparedQueryCreate
			req.Query.Session = UUID(str(c["sess"]))
			req.Query.Service = structs.ServiceQuery{Service: "web"}
		} else {
			req.Op = structs.PreparedQueryDelete
		}
		return structs.PreparedQueryRequestType, req, nil
	case "txn":
		req := &structs.TxnRequest{Datacenter: "dc1"}
		for _, x := range anyList(c["ops"]) {
			o := x.(map[string]any)
			op := &structs.TxnOp{}
			switch str(o["fam"]) {
			case "kv":
				op.KV = &structs.TxnKVOp{Verb: api.KVOp(str(o["verb"])), DirEnt: dirEnt(o)}
			case "sess":
				op.Session = &structs.TxnSessionOp{Verb: api.SessionDelete, Session: structs.Session{ID: UUID(str(o["id"]))}}
			case "node":
				op.Node = &structs.TxnNodeOp{Verb: api.NodeOp(str(o["verb"])), Node: structs.Node{Node: str(o["node"]),
					ID: types.NodeID(UUID(str(o["nid"]))), Address: nodeAddr(str(o["node"]))}}
				if mi, ok := o["mi"]; ok {
					op.Node.Node.ModifyIndex = uint64(toInt(mi))
				}
			case "svc":
				op.Service = &structs.TxnServiceOp{Verb: api.ServiceOp(str(o["verb"])), Node: str(o["node"]),
					Service: structs.NodeService{ID: str(o["id"]), Service: str(o["name"]), Port: 8080}}
				if mi, ok := o["mi"]; ok {
					op.Service.Service.ModifyIndex = uint64(toInt(mi))
				}
			case "chk":
				op.Check = &structs.TxnCheckOp{Verb: api.CheckOp(str(o["verb"])), Check: *healthCheck(str(o["node"]), o["chk"].(map[string]any))}
				if mi, ok := o["mi"]; ok {
					op.Check.Check.ModifyIndex = uint64(toInt(mi))
				}
			default:
				return 0, nil, fmt.Errorf("unknown txn family %v", o["fam"])
			}
			req.Ops = append(req.Ops, op)
		}
		return structs.TxnRequestType, req, nil
	}
	return 0, nil, fmt.Errorf("unknown command %v", c["t"])
}

func anyList(v any) []any { l, _ := v.([]any); return l }

// Encode returns the raft log payload.
func Encode(c M) ([]byte, error) {
	t, req, err := Request(c)
	if err != nil {
		return nil, err
	}
	return structs.Encode(t, req)
}

// Apply pushes the command through FSM.Apply at the command's index and projects the reply.
func (h *H) Apply(c M) (res M, raw any, err error) {
	buf, err := Encode(c)
	if err != nil {
		return nil, nil, err
	}
	return h.ApplyRaw(buf, uint64(toInt(c["idx"])))
}

func (h *H) ApplyRaw(buf []byte, idx uint64) (res M, raw any, err error) {
	defer func() {
		if r := recover(); r != nil {
			err = fmt.Errorf("panic in FSM.Apply: %v", r)
		}
	}()
	raw = h.FSM.Apply(&raft.Log{Index: idx, Data: buf, Type: raft.LogCommand})
	return ProjectResult(raw), raw, nil
}

func projKV(e *structs.DirEntry) M {
	return M{"k": keyJSON(e.Key), "v": string(e.Value), "f": e.Flags, "s": Name(e.Session), "li": e.LockIndex,
		"ci": e.CreateIndex, "mi": e.ModifyIndex}
}

func ProjectResult(raw any) M {
	switch r := raw.(type) {
	case nil:
		return M{"t": "nil"}
	case error:
		return M{"t": "err", "msg": r.Error()}
	case bool:
		return M{"t": "bool", "v": r}
	case string:
		return M{"t": "str", "v": Name(r)}
	case structs.TxnResponse:
		errs := []int{}
		for _, e := range r.Errors {
			errs = append(errs, e.OpIndex)
		}
		outs := []M{}
		other := 0
		for _, x := range r.Results {
			if x.KV != nil {
				outs = append(outs, projKV(x.KV))
			} else {
				other++
			}
		}
		return M{"t": "txn", "ok": len(r.Errors) == 0, "errs": errs, "outs": outs, "other": other}
	}
	return M{"t": "other", "v": fmt.Sprintf("%T", raw)}
}

// Project maps the real state to the abstract state of spec/Store.tla.
func (h *H) Project(idx uint64) M { return ProjectStore(h.Store(), idx, "") }

// ProjectStore projects any state store; rows of the node skipNode (a running server's own
// registration, maintained by its leader loop) are left out.
func ProjectStore(s *state.Store, idx uint64, skipNode string) M {
	out := M{"idx": idx}
	kv := []M{}
	tombs := []M{}
	sess := []M{}
	lds := []string{}
	schk := []M{}
	nodes := []M{}
	svcs := []M{}
	chks := []M{}
	pq := []M{}
	coords := []string{}
	tix := M{}
	_ = s.WalkAllTables(func(table string, item any) bool {
		switch table {
		case "kvs":
			kv = append(kv, projKV(item.(*structs.DirEntry)))
		case "tombstones":
			t := item.(*state.Tombstone)
			tombs = append(tombs, M{"k": keyJSON(t.Key), "i": t.Index})
		case "sessions":
			x := item.(*structs.Session)
			cs := []string{}
			for _, c := range x.CheckIDs() {
				cs = append(cs, string(c))
			}
			sort.Strings(cs)
			if x.LockDelay > 0 {
				lds = append(lds, Name(x.ID))
			}
			sess = append(sess, M{"id": Name(x.ID), "node": x.Node, "beh": string(x.Behavior), "checks": cs, "name": x.Name, "ci": x.CreateIndex})
		case "session_checks":
			// unexported type with exported fields
			b, _ := json.Marshal(item)
			var m struct {
				Node    string
				Session string
				CheckID struct{ ID string }
			}
			_ = json.Unmarshal(b, &m)
			schk = append(schk, M{"node": m.Node, "check": m.CheckID.ID, "sess": Name(m.Session)})
		case "nodes":
			n := item.(*structs.Node)
			if n.PeerName == "" && n.Node != skipNode {
				nodes = append(nodes, M{"name": n.Node, "id": Name(string(n.ID))})
			}
		case "services":
			x := item.(*structs.ServiceNode)
			if x.PeerName == "" && x.Node != skipNode {
				svcs = append(svcs, M{"node": x.Node, "id": x.ServiceID, "name": x.ServiceName, "mi": x.ModifyIndex})
			}
		case "checks":
			x := item.(*structs.HealthCheck)
			if x.PeerName == "" && x.Node != skipNode {
				chks = append(chks, M{"node": x.Node, "id": string(x.CheckID), "status": x.Status, "svc": x.ServiceID,
					"typ": x.Type, "sname": x.Definition.SessionName})
			}
		case "prepared-queries":
			b, _ := json.Marshal(item)
			var m struct {
				ID      string
				Session string
			}
			_ = json.Unmarshal(b, &m)
			pq = append(pq, M{"id": Name(m.ID), "sess": Name(m.Session)})
		case "coordinates":
			c := item.(*structs.Coordinate)
			if c.Node != skipNode {
				coords = append(coords, c.Node)
			}
		case "index":
			e := item.(*state.IndexEntry)
			tix[e.Key] = e.Value
		}
		return true
	})
	sortM(kv, "k")
	sortM(tombs, "k")
	sortM(sess, "id")
	sortM(schk, "sess", "check", "node")
	sortM(nodes, "name")
	sortM(svcs, "node", "id")
	sortM(chks, "node", "id")
	sortM(pq, "id")
	sort.Strings(coords)
	out["kv"], out["tombs"], out["sess"], out["schk"] = kv, tombs, sess, schk
	out["nodes"], out["svcs"], out["chks"], out["pq"], out["coords"], out["tix"] = nodes, svcs, chks, pq, coords, tix
	// lock delay: sessions carrying one, and the keys (of the driver's key universe) inside their window right now
	delayed := []any{}
	for _, k := range DelayKeys(s, 0) {
		delayed = append(delayed, keyJSON(k))
	}
	sort.Strings(lds)
	out["lds"], out["delayed"] = lds, delayed
	return out
}

// EdgeSlack is the clock uncertainty granted around the end of a lock-delay window.
const EdgeSlack = 3 * time.Second

// DelayKeys returns the keys of the driver's universe whose lock-delay window is open (slack == 0), or ends / ended
// within slack of now (slack > 0).
func DelayKeys(s *state.Store, slack time.Duration) []string {
	out := []string{}
	now := time.Now()
	for _, k := range WideKeys {
		exp := s.KVSLockDelay(k, nil)
		if exp.IsZero() {
			continue
		}
		left := exp.Sub(now)
		if slack == 0 && left > 0 {
			out = append(out, k)
		}
		if slack > 0 && left > -slack && left < slack {
			out = append(out, k)
		}
	}
	return out
}

// EdgeKeys is DelayKeys(EdgeSlack) in trace form.
func EdgeKeys(s *state.Store) []any {
	out := []any{}
	for _, k := range DelayKeys(s, EdgeSlack) {
		out = append(out, keyJSON(k))
	}
	return out
}

func sortM(l []M, keys ...string) {
	sort.SliceStable(l, func(i, j int) bool {
		for _, k := range keys {
			a, b := fmt.Sprint(l[i][k]), fmt.Sprint(l[j][k])
			if a != b {
				return a < b
			}
		}
		return false
	})
}

var spewCfg = spew.ConfigState{Indent: " ", SortKeys: true, DisablePointerAddresses: true, DisableCapacities: true,
	SpewKeys: true, DisableMethods: true}

// Dump is a canonical dump of EVERY row of EVERY table (including the index table), used for
// "nothing at all changed" and replica-equality oracles. It is stronger than the abstract view.
func Dump(s *state.Store) string {
	rows := []string{}
	_ = s.WalkAllTables(func(table string, item any) bool {
		rows = append(rows, table+"|"+strings.Join(strings.Fields(SpewString(item)), " "))
		return true
	})
	sort.Strings(rows)
	return strings.Join(rows, "\n")
}

// KVReads evaluates the KV read API on the current state for the given keys/prefixes.
func (h *H) KVReads(keys []string, prefixes []string) []M {
	s := h.Store()
	out := []M{}
	for _, k := range keys {
		idx, e, err := s.KVSGet(nil, k, nil)
		if err != nil {
			continue
		}
		m := M{"q": "get", "k": keyJSON(k), "idx": idx, "found": e != nil}
		if e != nil {
			m["ent"] = projKV(e)
		}
		out = append(out, m)
	}
	for _, p := range prefixes {
		idx, ents, err := s.KVSList(nil, p, nil)
		if err != nil {
			continue
		}
		l := []M{}
		for _, e := range ents {
			l = append(l, projKV(e))
		}
		out = append(out, M{"q": "list", "p": keyJSON(p), "idx": idx, "ents": l})
	}
	return out
}

// WatchAll registers a memdb watch on every read the harness knows for the given keys and
// prefixes and returns a function telling whether any of them fired.
func (h *H) WatchAll(keys []string, prefixes []string) func() bool {
	s := h.Store()
	ws := memdb.NewWatchSet()
	for _, k := range keys {
		_, _, _ = s.KVSGet(ws, k, nil)
	}
	for _, p := range prefixes {
		_, _, _ = s.KVSList(ws, p, nil)
	}
	_, _, _ = s.SessionList(ws, nil)
	_, _, _ = s.Nodes(ws, nil, "")
	_, _, _ = s.ServiceList(ws, nil, "")
	_, _, _ = s.ChecksInState(ws, api.HealthAny, nil, "")
	return func() bool {
		for ch := range ws {
			select {
			case <-ch:
				return true
			default:
			}
		}
		return false
	}
}

// Snapshot/restore through the real persist path.
func (h *H) SnapshotBytes() ([]byte, error) {
	snap, err := h.FSM.Snapshot()
	if err != nil {
		return nil, err
	}
	defer snap.Release()
	sink := &memSink{}
	if err := snap.Persist(sink); err != nil {
		return nil, err
	}
	return sink.buf.Bytes(), nil
}

// SnapshotTake captures the state (fsm.FSM.Snapshot: the point of the log the snapshot stands for); PersistSnapshot
// writes a captured snapshot out later - raft runs Persist concurrently with the entries applied after the capture.
func (h *H) SnapshotTake() (raft.FSMSnapshot, error) { return h.FSM.Snapshot() }

func PersistSnapshot(snap raft.FSMSnapshot) ([]byte, error) {
	defer snap.Release()
	sink := &memSink{}
	if err := snap.Persist(sink); err != nil {
		return nil, err
	}
	return sink.buf.Bytes(), nil
}

func (h *H) Restore(b []byte) error {
	return h.FSM.Restore(io.NopCloser(bytes.NewReader(b)))
}

type memSink struct {
	buf    bytes.Buffer
	cancel bool
}

func (m *memSink) Write(p []byte) (int, error) { return m.buf.Write(p) }
func (m *memSink) Close() error                { return nil }
func (m *memSink) ID() string                  { return "verif" }
func (m *memSink) Cancel() error               { m.cancel = true; return nil }

// SpewString is the canonical text of an arbitrary value (sorted map keys, no addresses).
// Protobuf messages carry runtime type information with cycles: they are rendered through the
// deterministic wire encoding instead.
func SpewString(v any) string {
	if pm, ok := v.(proto.Message); ok {
		b, err := proto.MarshalOptions{Deterministic: true}.Marshal(pm)
		if err != nil {
			return "proto-marshal-error:" + err.Error()
		}
		return fmt.Sprintf("proto %T %x", v, b)
	}
	return spewCfg.Sdump(v)
}

// Tables that hold no client-written object: rows are recomputed from the registrations and
// config entries (on every write and on restore). Their Raft indexes are internal bookkeeping;
// whatever a client can see of them is compared through the read battery instead.
var derivedTables = map[string]bool{"usage": true, "kind-service-names": true, "mesh-topology": true, "gateway-services": true}

// Strict disables every mask (used by the known-finding probes of C02).
var Strict = false

var gwKindRe = regexp.MustCompile(`ServiceKind: \(structs.GatewayServiceKind\) (\(len=\d+\) )?"[a-z]*"`)

var idxRe = regexp.MustCompile(`(Index|CreateIndex|ModifyIndex): \(uint64\) \d+`)

// DumpNorm is Dump with the Raft indexes of derived-table rows (and the index-table rows that
// only describe derived tables) masked.
func DumpNorm(s *state.Store) string {
	rows := []string{}
	_ = s.WalkAllTables(func(table string, item any) bool {
		row := table + "|" + strings.Join(strings.Fields(SpewString(item)), " ")
		if Strict {
			rows = append(rows, row)
			return true
		}
		if derivedTables[table] {
			row = idxRe.ReplaceAllString(row, "$1: _")
		}
		if table == "gateway-services" {
			row = gwKindRe.ReplaceAllString(row, "ServiceKind: _")
		}
		if u, ok := item.(*state.UsageEntry); ok && u.Count == 0 {
			return true // a zero counter and an absent counter are the same count
		}
		if table == "index" {
			if e, ok := item.(*state.IndexEntry); ok && derivedTables[e.Key] {
				return true
			}
		}
		rows = append(rows, row)
		return true
	})
	sort.Strings(rows)
	return strings.Join(rows, "\n")
}

// SetUUID binds an abstract name to a UUID chosen by the code under test (session ids minted by
// the Session endpoint).
func SetUUID(name, u string) {
	uuidMu.Lock()
	defer uuidMu.Unlock()
	uuidFwd[name] = u
	uuidRev[u] = name
}

// DumpTables is Dump restricted to the given tables (and index rows), minus rows naming skipNode.
func DumpTables(s *state.Store, tables map[string]bool, indexRows map[string]bool, skipNode string) string {
	rows := []string{}
	_ = s.WalkAllTables(func(table string, item any) bool {
		if table == "index" {
			if e, ok := item.(*state.IndexEntry); ok && indexRows[e.Key] {
				rows = append(rows, fmt.Sprintf("index|%s=%d", e.Key, e.Value))
			}
			return true
		}
		if !tables[table] {
			return true
		}
		row := table + "|" + strings.Join(strings.Fields(SpewString(item)), " ")
		if skipNode != "" && strings.Contains(row, `"`+skipNode+`"`) {
			return true
		}
		rows = append(rows, row)
		return true
	})
	sort.Strings(rows)
	return strings.Join(rows, "\n")
}
