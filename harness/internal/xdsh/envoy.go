// Package xdsh: an independent interpreter for the subset of Envoy's RBAC filter semantics that
// Consul's intention translation can emit (agent/xds/rbac.go), written from Envoy's documentation
// and source (source/extensions/filters/common/rbac/matchers.cc, source/common/http/header_utility.cc,
// source/common/common/matchers.cc, regex: RE2 full match).  It evaluates the protobuf RETURNED by the
// real translation for a concrete connection/request.  Anything it does not implement is a hard
// error (never silently "no match").
package xdsh

import (
	"fmt"
	"regexp"
	"strings"
	"sync"

	envoy_rbac_v3 "github.com/envoyproxy/go-control-plane/envoy/config/rbac/v3"
	envoy_route_v3 "github.com/envoyproxy/go-control-plane/envoy/config/route/v3"
	envoy_matcher_v3 "github.com/envoyproxy/go-control-plane/envoy/type/matcher/v3"
)

// Conn is one concrete downstream connection (and, for HTTP listeners, one request on it).
type Conn struct {
	// URISAN is the first URI subject alternative name of the validated peer certificate: what
	// principal.authenticated.principal_name is matched against.
	URISAN string
	// HTTP request attributes; IsHTTP=false for the network filter (no headers exist there).
	IsHTTP  bool
	Path    string            // :path (may carry a query string)
	Headers map[string]string // lower-case names, pseudo headers included (":method", ":path")
	Port    uint32
}

type Unsupported struct{ What string }

func (u *Unsupported) Error() string { return "xdsh: unsupported by the interpreter: " + u.What }

func unsupported(f string, a ...any) {
	panic(&Unsupported{What: fmt.Sprintf(f, a...)})
}

var (
	reMu    sync.Mutex
	reCache = map[string]*regexp.Regexp{}
)

// fullMatch: Envoy compiles safe_regex with RE2 and uses RE2::FullMatch.
func fullMatch(pattern, s string) bool {
	reMu.Lock()
	re, ok := reCache[pattern]
	if !ok {
		var err error
		re, err = regexp.Compile(`^(?:` + pattern + `)$`)
		if err != nil {
			reMu.Unlock()
			unsupported("regex %q does not compile: %v", pattern, err)
		}
		reCache[pattern] = re
	}
	reMu.Unlock()
	return re.MatchString(s)
}

func matchString(m *envoy_matcher_v3.StringMatcher, s string) bool {
	ic := m.GetIgnoreCase()
	fold := func(x string) string {
		if ic {
			return strings.ToLower(x)
		}
		return x
	}
	switch p := m.GetMatchPattern().(type) {
	case *envoy_matcher_v3.StringMatcher_Exact:
		return fold(s) == fold(p.Exact)
	case *envoy_matcher_v3.StringMatcher_Prefix:
		return strings.HasPrefix(fold(s), fold(p.Prefix))
	case *envoy_matcher_v3.StringMatcher_Suffix:
		return strings.HasSuffix(fold(s), fold(p.Suffix))
	case *envoy_matcher_v3.StringMatcher_Contains:
		return strings.Contains(fold(s), fold(p.Contains))
	case *envoy_matcher_v3.StringMatcher_SafeRegex:
		if p.SafeRegex == nil {
			unsupported("nil safe_regex")
		}
		return fullMatch(p.SafeRegex.GetRegex(), s)
	default:
		unsupported("string matcher %T", p)
	}
	return false
}

// header_utility.cc matchHeaders
func matchHeader(h *envoy_route_v3.HeaderMatcher, c *Conn) bool {
	if !c.IsHTTP {
		// the network RBAC filter has no request: header rules never match there
		return false
	}
	val, present := c.Headers[strings.ToLower(h.GetName())]
	_, isPresentType := h.GetHeaderMatchSpecifier().(*envoy_route_v3.HeaderMatcher_PresentMatch)
	if !present && !h.GetTreatMissingHeaderAsEmpty() {
		if !isPresentType {
			return false
		}
		want := h.GetPresentMatch()
		if h.GetInvertMatch() {
			return want
		}
		return !want
	}
	var match bool
	switch sp := h.GetHeaderMatchSpecifier().(type) {
	case nil:
		match = true // no specifier: presence
	case *envoy_route_v3.HeaderMatcher_PresentMatch:
		match = sp.PresentMatch == present
	case *envoy_route_v3.HeaderMatcher_StringMatch:
		match = matchString(sp.StringMatch, val)
	case *envoy_route_v3.HeaderMatcher_ExactMatch:
		match = val == sp.ExactMatch
	case *envoy_route_v3.HeaderMatcher_PrefixMatch:
		match = strings.HasPrefix(val, sp.PrefixMatch)
	case *envoy_route_v3.HeaderMatcher_SuffixMatch:
		match = strings.HasSuffix(val, sp.SuffixMatch)
	case *envoy_route_v3.HeaderMatcher_ContainsMatch:
		match = strings.Contains(val, sp.ContainsMatch)
	case *envoy_route_v3.HeaderMatcher_SafeRegexMatch:
		match = fullMatch(sp.SafeRegexMatch.GetRegex(), val)
	default:
		unsupported("header matcher %T", sp)
	}
	return match != h.GetInvertMatch()
}

func matchPath(p *envoy_matcher_v3.PathMatcher, c *Conn) bool {
	if !c.IsHTTP {
		return false
	}
	path := c.Path
	if i := strings.IndexAny(path, "?#"); i >= 0 {
		path = path[:i] // PathMatcher strips query and fragment
	}
	switch r := p.GetRule().(type) {
	case *envoy_matcher_v3.PathMatcher_Path:
		return matchString(r.Path, path)
	default:
		unsupported("path matcher %T", r)
	}
	return false
}

func MatchPrincipal(p *envoy_rbac_v3.Principal, c *Conn) bool {
	switch id := p.GetIdentifier().(type) {
	case *envoy_rbac_v3.Principal_AndIds:
		for _, x := range id.AndIds.GetIds() {
			if !MatchPrincipal(x, c) {
				return false
			}
		}
		return true
	case *envoy_rbac_v3.Principal_OrIds:
		for _, x := range id.OrIds.GetIds() {
			if MatchPrincipal(x, c) {
				return true
			}
		}
		return false
	case *envoy_rbac_v3.Principal_NotId:
		return !MatchPrincipal(id.NotId, c)
	case *envoy_rbac_v3.Principal_Any:
		return id.Any
	case *envoy_rbac_v3.Principal_Authenticated_:
		if c.URISAN == "" {
			return false // not an authenticated (mTLS) connection
		}
		if id.Authenticated.GetPrincipalName() == nil {
			return true
		}
		return matchString(id.Authenticated.GetPrincipalName(), c.URISAN)
	case *envoy_rbac_v3.Principal_Header:
		return matchHeader(id.Header, c)
	case *envoy_rbac_v3.Principal_UrlPath:
		return matchPath(id.UrlPath, c)
	default:
		unsupported("principal %T", id)
	}
	return false
}

func MatchPermission(p *envoy_rbac_v3.Permission, c *Conn) bool {
	switch r := p.GetRule().(type) {
	case *envoy_rbac_v3.Permission_AndRules:
		for _, x := range r.AndRules.GetRules() {
			if !MatchPermission(x, c) {
				return false
			}
		}
		return true
	case *envoy_rbac_v3.Permission_OrRules:
		for _, x := range r.OrRules.GetRules() {
			if MatchPermission(x, c) {
				return true
			}
		}
		return false
	case *envoy_rbac_v3.Permission_NotRule:
		return !MatchPermission(r.NotRule, c)
	case *envoy_rbac_v3.Permission_Any:
		return r.Any
	case *envoy_rbac_v3.Permission_Header:
		return matchHeader(r.Header, c)
	case *envoy_rbac_v3.Permission_UrlPath:
		return matchPath(r.UrlPath, c)
	case *envoy_rbac_v3.Permission_DestinationPort:
		return r.DestinationPort == c.Port
	default:
		unsupported("permission %T", r)
	}
	return false
}

// Allowed: RBAC engine semantics. ALLOW: the request is allowed iff some policy matches;
// DENY: allowed iff no policy matches.  A policy matches iff one of its permissions AND one of its
// principals match.  A nil rule set means the filter does nothing (allow).
func Allowed(r *envoy_rbac_v3.RBAC, c *Conn) bool {
	if r == nil {
		return true
	}
	matched := false
	for _, pol := range r.GetPolicies() {
		if pol.GetCondition() != nil || pol.GetCheckedCondition() != nil {
			unsupported("policy condition")
		}
		perm := false
		for _, p := range pol.GetPermissions() {
			if MatchPermission(p, c) {
				perm = true
				break
			}
		}
		if !perm {
			continue
		}
		for _, p := range pol.GetPrincipals() {
			if MatchPrincipal(p, c) {
				matched = true
				break
			}
		}
		if matched {
			break
		}
	}
	switch r.GetAction() {
	case envoy_rbac_v3.RBAC_ALLOW:
		return matched
	case envoy_rbac_v3.RBAC_DENY:
		return !matched
	default:
		unsupported("rbac action %v", r.GetAction())
	}
	return false
}
