// h-filter: harness of C09 (spec/Filter.tla).
//
//	h-filter filter -in cases.json -out trace.ndjson [-classes a,b] [-reps N] [-xreps N]
//	    every abstract response of cases.json (printed by TLC, Filter_gen.cfg) is instantiated as its
//	    concrete Go type and passed through the real aclfilter.Filter / FilterDirEnt / FilterTxnResults
//	h-filter random -seed S -n N -out trace.ndjson      seeded random responses over a larger universe
//	h-filter expiry -in behaviours.json -out trace.ndjson [-par P] [-lead ms] [-margin ms]
//	    every operation history (printed by TLC, Filter_genx.cfg) against the real consul.ACLResolver
//	h-filter expiry-random -seed S -n N -out trace.ndjson
//
// Events are NDJSON; the process decides nothing.  A JSON summary goes to stdout.
package main

import (
	"bufio"
	"encoding/json"
	"flag"
	"fmt"
	"math/rand"
	"os"
	"strings"
	"time"

	"github.com/hashicorp/consul/verifharness/internal/filterh"
)

func die(f string, a ...any) {
	fmt.Fprintf(os.Stderr, f+"\n", a...)
	os.Exit(3)
}

type sink struct {
	f *os.File
	w *bufio.Writer
	n int
}

func newSink(path string) *sink {
	f, err := os.Create(path)
	if err != nil {
		die("create %s: %v", path, err)
	}
	return &sink{f: f, w: bufio.NewWriterSize(f, 1<<20)}
}
func (s *sink) put(v any) {
	b, err := json.Marshal(v)
	if err != nil {
		die("marshal: %v", err)
	}
	s.w.Write(b)
	s.w.WriteByte('\n')
	s.n++
}
func (s *sink) close() { s.w.Flush(); s.f.Close() }

func repsFor(kind string, reps, xreps int) int {
	if kind == "IndexedExportedServiceList" {
		return xreps
	}
	return reps
}

func runCases(cases []*filterh.Case, classes []string, reps, xreps int, src string, reeval int, out *sink) map[string]any {
	kinds := map[string]int{}
	drift, multi, reevals, runs := 0, 0, 0, 0
	prev := map[string]*filterh.Case{}
	for i, c := range cases {
		if c.Kind == "PreparedQueryOne" && (len(c.Groups) == 0 || len(c.Groups[0].Items) == 0) {
			continue // **PreparedQuery is never nil at the call sites; redactPreparedQueryTokens dereferences it
		}
		cls := classes
		if c.Prior == "yes" && len(classes) > 1 {
			cls = []string{classes[i%len(classes)]} // a reply with the flag already raised: one authorizer class, rotating
		}
		for _, cl := range cls {
			evs, err := filterh.Exec(filterh.Clone(c), cl, repsFor(c.Kind, reps, xreps), src, i)
			if err != nil {
				die("case %d (%s): %v", i, c.Kind, err)
			}
			for _, ev := range evs {
				out.put(ev)
				drift += len(ev.Drift)
			}
			if len(evs) > 1 {
				multi++
			}
			kinds[c.Kind]++
			runs++
		}
		// two evaluations on ONE reply object (blockingquery.Query): the previous response of this type first, this one second
		if reeval > 0 && c.Prior != "yes" && filterh.HasFlagField(c.Kind) {
			if p, ok := prev[c.Kind]; ok && i%reeval == 0 {
				ev, err := filterh.ExecReeval(filterh.Clone(p), filterh.Clone(c), classes[i%len(classes)], src, i)
				if err != nil {
					die("reeval case %d (%s): %v", i, c.Kind, err)
				}
				if ev != nil {
					out.put(ev)
					drift += len(ev.Drift)
					reevals++
					runs++
				}
			}
			prev[c.Kind] = c
		}
	}
	return map[string]any{"events": out.n, "cases": len(cases), "behaviours": runs, "kinds": kinds,
		"drift": drift, "order_dependent_cases": multi, "reevaluations": reevals}
}

func main() {
	if len(os.Args) < 2 {
		die("usage: h-filter filter|random|expiry|expiry-random ...")
	}
	fs := flag.NewFlagSet(os.Args[1], flag.ExitOnError)
	in := fs.String("in", "", "input JSON")
	outp := fs.String("out", "", "output NDJSON")
	classes := fs.String("classes", strings.Join(filterh.AzClasses, ","), "authorizer classes")
	reps := fs.Int("reps", 24, "repetitions with fresh maps for map-backed types")
	xreps := fs.Int("xreps", 200, "repetitions for IndexedExportedServiceList")
	seed := fs.Int64("seed", 1, "seed")
	n := fs.Int("n", 1000, "number of random cases / behaviours")
	par := fs.Int("par", 64, "concurrent expiry histories")
	lead := fs.Int("lead", 150, "ms between token creation and its expiration time")
	margin := fs.Int("margin", 250, "ms after the expiration time at which `expire` returns")
	reeval := fs.Int("reeval", 4, "every n-th case of a flagged type is also run as the second evaluation on a re-used reply object (0: off)")
	perturb := fs.String("perturb", "", "selftest shim: drop-last | flip-flag (falsifies the recorded result of the real call)")
	fs.Parse(os.Args[2:])
	filterh.Perturb = *perturb
	if *outp == "" {
		die("-out required")
	}
	out := newSink(*outp)
	var meta map[string]any
	switch os.Args[1] {
	case "filter":
		var cases []*filterh.Case
		b, err := os.ReadFile(*in)
		if err != nil {
			die("%v", err)
		}
		if err := json.Unmarshal(b, &cases); err != nil {
			die("decode %s: %v", *in, err)
		}
		meta = runCases(cases, strings.Split(*classes, ","), *reps, *xreps, "gen", *reeval, out)
	case "random":
		r := rand.New(rand.NewSource(*seed))
		kinds := filterh.AllKinds()
		cl := strings.Split(*classes, ",")
		kindsCount := map[string]int{}
		drift, multi, reevals, runs := 0, 0, 0, 0
		for i := 0; i < *n; i++ {
			c := filterh.RandCase(r, kinds[i%len(kinds)])
			filterh.RandPrior(r, c)
			class := cl[(i/len(kinds))%len(cl)] // one class per case, rotating
			var first *filterh.Case
			if filterh.HasFlagField(c.Kind) && c.Prior == "no" && r.Intn(3) == 0 {
				// blocking-query history on one reply: a first content, then this one (often with nothing left to remove)
				first = filterh.RandCase(r, c.Kind)
				first.Acl = c.Acl
				if r.Intn(2) == 0 {
					filterh.MakeReadable(c)
				}
			}
			if first != nil {
				ev, err := filterh.ExecReeval(first, c, class, "rnd", i)
				if err != nil {
					die("random reeval case %d (%s): %v", i, c.Kind, err)
				}
				out.put(ev)
				drift += len(ev.Drift)
				reevals++
			} else {
				evs, err := filterh.Exec(c, class, repsFor(c.Kind, *reps, *xreps), "rnd", i)
				if err != nil {
					die("random case %d (%s): %v", i, c.Kind, err)
				}
				for _, ev := range evs {
					out.put(ev)
					drift += len(ev.Drift)
				}
				if len(evs) > 1 {
					multi++
				}
			}
			kindsCount[c.Kind]++
			runs++
		}
		meta = map[string]any{"events": out.n, "cases": *n, "behaviours": runs, "kinds": kindsCount, "drift": drift,
			"order_dependent_cases": multi, "reevaluations": reevals}
	case "expiry", "expiry-random":
		var behs []filterh.ExBehaviour
		src := "gen"
		if os.Args[1] == "expiry" {
			b, err := os.ReadFile(*in)
			if err != nil {
				die("%v", err)
			}
			if err := json.Unmarshal(b, &behs); err != nil {
				die("decode %s: %v", *in, err)
			}
		} else {
			src = "rnd"
			r := rand.New(rand.NewSource(*seed))
			for i := 0; i < *n; i++ {
				behs = append(behs, filterh.RandBehaviour(r))
			}
		}
		evs, err := filterh.RunBehaviours(behs, *par, time.Duration(*lead)*time.Millisecond, time.Duration(*margin)*time.Millisecond, src)
		if err != nil {
			die("%v", err)
		}
		phases := map[string]int{}
		for _, ev := range evs {
			out.put(ev)
			if ev.Cmd.Op == "resolve" {
				phases[ev.Phase]++
			}
		}
		meta = map[string]any{"events": out.n, "behaviours": len(behs), "resolves_by_phase": phases}
	default:
		die("unknown subcommand %s", os.Args[1])
	}
	out.close()
	b, _ := json.Marshal(meta)
	fmt.Println(string(b))
}
