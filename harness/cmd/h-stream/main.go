// h-stream: executor/recorder for property C11 (spec/Stream.tla).
//
//	h-stream replay -in behaviours.json -out trace.ndjson [-flush]    replay TLC-generated schedules
//	h-stream random -seed S -n N -len L -out trace.ndjson             seeded random schedules
//
// A behaviour is a list of commands; the first one is {"t":"cfg","ttl":bool,"nc":int}. Every command
// is executed against the real stream.EventPublisher / fsm.FSM / state.Store / views and recorded
// as one NDJSON event {cmd,res,post,(pre)}. The schedule is imposed: the publisher goroutine is
// never started, "drain" is one iteration of its loop. No verdict is computed here.
//
// With -perturb K the K-th delivered event batch of the run is withheld from the materialized
// view (throw-away mode used only to demonstrate that the check binds to the real code).
package main

import (
	"bufio"
	"encoding/json"
	"flag"
	"fmt"
	"math/rand"
	"os"

	sh "github.com/hashicorp/consul/verifharness/internal/streamh"
)

type M = sh.M

func fatal(f string, a ...any) {
	fmt.Fprintf(os.Stderr, "h-stream: "+f+"\n", a...)
	os.Exit(2)
}

type recorder struct {
	w      *bufio.Writer
	events int
}

func (r *recorder) emit(ev M) {
	b, err := json.Marshal(ev)
	if err != nil {
		fatal("marshal: %v", err)
	}
	r.w.Write(b)
	r.w.WriteByte('\n')
	r.events++
}

func universeOf(cmds []M) []sh.TS {
	seen := map[sh.TS]bool{}
	var out []sh.TS
	for _, c := range cmds {
		if c["t"] == "sub" || c["t"] == "expire" {
			ts := sh.TS{Topic: c["topic"].(string), Subj: c["subj"].(string)}
			if !seen[ts] {
				seen[ts] = true
				out = append(out, ts)
			}
		}
	}
	return out
}

func hasRestore(cmds []M) bool {
	for _, c := range cmds {
		if c["t"] == "restore" {
			return true
		}
	}
	return false
}

type runner struct {
	w     *sh.W
	rec   *recorder
	first bool
}

func (r *runner) project() M {
	p, err := r.w.Project()
	if err != nil {
		fatal("project: %v", err)
	}
	return p
}

// exec runs one command and records it. A command that the real code refuses to start
// (no subscription to read from, ...) is a driver error, not an event.
func (r *runner) exec(c M) M {
	var pre M
	if r.first {
		pre = r.project()
	}
	var res M
	var err error
	cmd := M{}
	for k, v := range c {
		cmd[k] = v
	}
	switch c["t"] {
	case "commit":
		res, err = r.w.Commit(c)
	case "drain":
		res = r.w.Drain()
	case "sub":
		var extra M
		res, extra, err = r.w.Subscribe(c)
		for k, v := range extra {
			cmd[k] = v
		}
	case "next":
		res, err = r.w.Next(c)
	case "unsub":
		res, err = r.w.Unsubscribe(c)
	case "expire":
		var extra M
		res, extra = r.w.Expire(c)
		for k, v := range extra {
			cmd[k] = v
		}
	case "restore":
		res, err = r.w.Restore(c)
	default:
		err = fmt.Errorf("unknown command %v", c)
	}
	if err != nil {
		fatal("exec %v: %v", c, err)
	}
	ev := M{"cmd": cmd, "res": res, "post": r.project()}
	if r.first {
		ev["pre"] = pre
		r.first = false
	}
	r.rec.emit(ev)
	return ev
}

func num(v any) int {
	switch x := v.(type) {
	case float64:
		return int(x)
	case int:
		return x
	}
	return 0
}

// flush appends the fault-free tail of every schedule: the publisher catches up, then every
// subscriber reads until it blocks or is told to resubscribe.
func (r *runner) flush(last M) {
	for {
		post := last["post"].(M)
		if post["qlen"].(int) == 0 {
			break
		}
		last = r.exec(M{"t": "drain"})
	}
	post := last["post"].(M)
	for i, cl := range post["cl"].([]M) {
		if !cl["live"].(bool) {
			continue
		}
		for n := 0; n < 200; n++ {
			ev := r.exec(M{"t": "next", "c": i + 1})
			if ev["res"].(M)["k"] != "data" {
				break
			}
		}
	}
}

func runBehaviour(cmds []M, rec *recorder, flush bool) {
	if len(cmds) == 0 || cmds[0]["t"] != "cfg" {
		fatal("behaviour does not start with cfg: %v", cmds)
	}
	cfg := cmds[0]
	ttl, _ := cfg["ttl"].(bool)
	nc := num(cfg["nc"])
	if nc == 0 {
		nc = 2
	}
	w, err := sh.New(nc, ttl, universeOf(cmds), hasRestore(cmds))
	if err != nil {
		fatal("new: %v", err)
	}
	deny := map[string][]string{}
	if d, ok := cfg["deny"].(map[string]any); ok {
		for tok, l := range d {
			ns, _ := l.([]any)
			for _, n := range ns {
				deny[tok] = append(deny[tok], n.(string))
			}
		}
	}
	if err := w.SetDeny(deny); err != nil {
		fatal("deny: %v", err)
	}
	defer w.Close()
	r := &runner{w: w, rec: rec, first: true}
	var last M
	for _, c := range cmds[1:] {
		last = r.exec(c)
	}
	if last == nil {
		last = r.exec(M{"t": "drain"})
	}
	if flush {
		r.flush(last)
	}
}

func replay(in, out string, flush bool) {
	b, err := os.ReadFile(in)
	if err != nil {
		fatal("%v", err)
	}
	var behs [][]M
	if err := json.Unmarshal(b, &behs); err != nil {
		fatal("decode behaviours: %v", err)
	}
	f, err := os.Create(out)
	if err != nil {
		fatal("%v", err)
	}
	rec := &recorder{w: bufio.NewWriterSize(f, 1<<20)}
	for _, beh := range behs {
		runBehaviour(beh, rec, flush)
	}
	rec.w.Flush()
	f.Close()
	json.NewEncoder(os.Stdout).Encode(M{"behaviours": len(behs), "events": rec.events})
}

// ---------------------------------------------------------------- random schedules

var (
	rSubjects = []sh.TS{
		{Topic: sh.TopicHealth, Subj: "web"}, {Topic: sh.TopicHealth, Subj: "db"}, {Topic: sh.TopicHealth, Subj: "api"},
		{Topic: sh.TopicConnect, Subj: "web"}, {Topic: sh.TopicHealth, Subj: "px"}, {Topic: sh.TopicConnect, Subj: "db"},
		{Topic: sh.TopicResolver, Subj: "web"}, {Topic: sh.TopicResolver, Subj: "db"}, {Topic: sh.TopicResolver, Subj: "*"},
	}
	rNames  = []string{"web", "db", "api"}
	rIDs    = []string{"a", "b", "c", "d", "e"}
	rNodes  = []string{"n1", "n2", "n3"}
	rTokens = []string{"t1", "t2", "t3"}
)

// genRandom builds one schedule. It only needs to know what it has itself done so far (which
// clients hold a subscription, which ids it registered); it never looks at results.
func genRandom(rng *rand.Rand, length int) []M {
	nc := 3
	deny := M{}
	if rng.Intn(2) == 0 { // restricted tokens: subscribers of one subject materialize different subsets
		deny = M{"t2": []any{"px"}, "t3": []any{[]string{"api", "py", "web"}[rng.Intn(3)]}}
	}
	cmds := []M{{"t": "cfg", "ttl": rng.Intn(2) == 0, "nc": nc, "deny": deny}}
	variant := func() string { return []string{"", "", "1", "2", "3"}[rng.Intn(5)] } // node address: "" = unchanged default
	nchk := func() string { return []string{"", "", "", "passing", "critical"}[rng.Intn(5)] }
	idx := uint64(3 + rng.Intn(5))
	live := make([]bool, nc)
	ever := make([]*sh.TS, nc)
	queued := 0
	type inst struct{ node, id string }
	regs := map[inst]bool{}
	ces := map[string]bool{}
	commits := []uint64{0}
	burst := 0
	for len(cmds) < length+1 {
		r := rng.Intn(100)
		if burst > 0 { // a burst of commits without publication: the commit/publish window
			r = 0
			burst--
		} else if rng.Intn(25) == 0 {
			burst = 1 + rng.Intn(3)
		}
		switch {
		case r < 28 && queued < 40:
			idx += uint64(1 + rng.Intn(2))
			var w M
			switch k := rng.Intn(20); {
			case k < 8:
				in := inst{rNodes[rng.Intn(len(rNodes))], rIDs[rng.Intn(len(rIDs))]}
				w = M{"op": "put", "kind": "svc", "node": in.node, "id": in.id, "name": rNames[rng.Intn(len(rNames))], "dest": "",
					"status": []string{"passing", "critical", "warning"}[rng.Intn(3)], "addr": variant(), "nchk": nchk()}
				regs[in] = true
			case k < 10:
				in := inst{rNodes[rng.Intn(len(rNodes))], "p" + rIDs[rng.Intn(2)]}
				w = M{"op": "put", "kind": "svc", "node": in.node, "id": in.id, "name": []string{"px", "py"}[rng.Intn(2)], "dest": rNames[rng.Intn(2)],
					"status": "passing", "addr": variant(), "nchk": nchk()}
				regs[in] = true
			case k < 14:
				var ks []inst
				for in := range regs {
					ks = append(ks, in)
				}
				if len(ks) == 0 {
					continue
				}
				sortInst(ks, func(a, b inst) bool { return a.node+a.id < b.node+b.id })
				in := ks[rng.Intn(len(ks))]
				if rng.Intn(4) == 0 {
					w = M{"op": "delnode", "kind": "svc", "node": in.node, "id": in.id}
					for o := range regs {
						if o.node == in.node {
							delete(regs, o)
						}
					}
				} else {
					w = M{"op": "del", "kind": "svc", "node": in.node, "id": in.id}
					delete(regs, in)
				}
			case k < 17:
				n := rNames[rng.Intn(2)]
				w = M{"op": "put", "kind": "ce", "id": n}
				ces[n] = true
			case k < 18:
				n := rNames[rng.Intn(2)]
				if !ces[n] {
					continue
				}
				w = M{"op": "del", "kind": "ce", "id": n}
				delete(ces, n)
			case k < 19:
				w = M{"op": "multi", "kind": "svc", "id": "m", "dest": rNames[rng.Intn(2)]} // one txn, several events per subject
				for _, id := range []string{"m1", "m2", "m3"} {
					regs[inst{"nm", id}] = true
				}
			default:
				w = M{"op": "acl", "kind": "", "tok": rTokens[rng.Intn(len(rTokens))]}
			}
			cmds = append(cmds, M{"t": "commit", "idx": idx, "w": w})
			commits = append(commits, idx)
			queued++
		case r < 45:
			if queued > 0 {
				queued--
			}
			cmds = append(cmds, M{"t": "drain"})
		case r < 58:
			c := rng.Intn(nc)
			if live[c] {
				cmds = append(cmds, M{"t": "unsub", "c": c + 1})
				live[c] = false
				continue
			}
			ts := rSubjects[rng.Intn(len(rSubjects))]
			if h := rng.Intn(10); h < 3 { // hot subjects, so that subscribers share buffers, cached snapshots and resume points
				ts = rSubjects[0]
			} else if h < 5 {
				ts = rSubjects[3] // connect/web: proxies of several service names, where restricted tokens differ
			}
			from := "fresh"
			if ever[c] != nil && rng.Intn(2) == 0 {
				ts, from = *ever[c], "resume"
			}
			cmds = append(cmds, M{"t": "sub", "c": c + 1, "topic": ts.Topic, "subj": ts.Subj, "tok": rTokens[rng.Intn(len(rTokens))], "from": from})
			live[c] = true
			t := ts
			ever[c] = &t
		case r < 94:
			c := rng.Intn(nc)
			if !live[c] {
				continue
			}
			cmds = append(cmds, M{"t": "next", "c": c + 1})
		case r < 97:
			ts := rSubjects[rng.Intn(len(rSubjects))]
			cmds = append(cmds, M{"t": "expire", "topic": ts.Topic, "subj": ts.Subj})
		default:
			idx += 1
			cmds = append(cmds, M{"t": "restore", "idx": idx, "to": commits[rng.Intn(len(commits))]})
			commits = append(commits, idx)
			regs = map[inst]bool{} // unknown after restore: deletes of absent ids are simply refused by the store
			ces = map[string]bool{}
		}
	}
	// every subject may be subscribed: make the universe explicit for the recorder
	return cmds
}

func sortInst[T any](s []T, less func(a, b T) bool) {
	for i := 1; i < len(s); i++ {
		for j := i; j > 0 && less(s[j], s[j-1]); j-- {
			s[j], s[j-1] = s[j-1], s[j]
		}
	}
}

func random(seed int64, n, length int, out string, dump string) {
	rng := rand.New(rand.NewSource(seed))
	f, err := os.Create(out)
	if err != nil {
		fatal("%v", err)
	}
	rec := &recorder{w: bufio.NewWriterSize(f, 1<<20)}
	var all [][]M
	for i := 0; i < n; i++ {
		beh := genRandom(rng, length)
		all = append(all, beh)
		runBehaviour(beh, rec, true)
	}
	rec.w.Flush()
	f.Close()
	if dump != "" {
		b, _ := json.Marshal(all)
		os.WriteFile(dump, b, 0o644)
	}
	json.NewEncoder(os.Stdout).Encode(M{"behaviours": n, "events": rec.events})
}

func main() {
	if len(os.Args) < 2 {
		fatal("usage: h-stream replay|random ...")
	}
	fs := flag.NewFlagSet(os.Args[1], flag.ExitOnError)
	in := fs.String("in", "", "behaviours json")
	out := fs.String("out", "trace.ndjson", "trace output")
	flush := fs.Bool("flush", false, "append drain-all / read-all to every behaviour")
	seed := fs.Int64("seed", 1, "seed")
	n := fs.Int("n", 10, "number of random schedules")
	length := fs.Int("len", 60, "commands per random schedule")
	dump := fs.String("dump", "", "write the generated schedules here")
	perturb := fs.Int("perturb", 0, "withhold the K-th delivered event batch from the view (binding demonstration only)")
	fs.Parse(os.Args[2:])
	sh.PerturbAt = *perturb
	switch os.Args[1] {
	case "replay":
		replay(*in, *out, *flush)
	case "random":
		random(*seed, *n, *length, *out, *dump)
	default:
		fatal("unknown mode %s", os.Args[1])
	}
}
