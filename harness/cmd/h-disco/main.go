// h-disco: executor/recorder for C15 (discovery-chain compilation and config-entry graph validation).
//
//	h-disco replay -in behaviours.json -out trace.ndjson [-auto] [-lastonly] [-svcs a,b,c] [-reps 5]
//	h-disco random -seed S -n N -len L -out trace.ndjson [-reps 5]
//
// A behaviour is a list of commands {t: write|delete|compile, ...} (spec/DiscoChain.tla). Every
// executed command becomes one self-contained NDJSON event {h,k,cmd,pre,post,res} that TLC judges
// with spec/DiscoChainTrace.tla; with -auto every write/delete is followed by compile events for
// every service (several evaluation contexts, compiler called directly and through the store).
// No verdict is computed here. A call that does not return within the watchdog is recorded with the
// result class "no-return", its behaviour is abandoned and the others go on; exit 3 = some call did
// not return (the one-line summary says which behaviours, and where a fresh process can resume when
// the run was ended early).
package main

import (
	"bufio"
	"encoding/json"
	"flag"
	"fmt"
	"math/rand"
	"os"
	"runtime"
	"strconv"
	"strings"
	"sync"
	"time"

	dh "github.com/hashicorp/consul/verifharness/internal/discoh"
)

type event struct {
	H    int         `json:"h"`
	K    int         `json:"k"`
	Cmd  *dh.Cmd     `json:"cmd"`
	Pre  dh.State    `json:"pre"`
	Post dh.State    `json:"post"`
	Res  interface{} `json:"res"`
}

// recorder is shared by the workers: events are self-contained (they carry h and k), so their
// order in the file does not matter.
type recorder struct {
	mu     sync.Mutex
	w      *bufio.Writer
	events int
}

func (r *recorder) emit(ev event) {
	b, err := json.Marshal(ev)
	if err != nil {
		fatal("marshal: %v", err)
	}
	r.mu.Lock()
	r.w.Write(b)
	r.w.WriteByte('\n')
	r.events++
	r.mu.Unlock()
}

// sched hands out behaviour indices to the workers and knows what is in flight, so that the run can
// be cut short (too many no-returns, memory) and resumed by a fresh process (-from / -skip).
var sched struct {
	mu       sync.Mutex
	inflight map[int]bool
	next     int   // first index not handed out yet
	n        int   // number of behaviours
	noret    []int // behaviours abandoned because a call did not return
	done     int   // behaviours executed to the end
	stop     bool
}

// maxNoReturn: after that many abandoned calls no further behaviour is started (every abandoned
// goroutine keeps a core busy); the summary tells where a fresh process can resume.
const maxNoReturn = 3

type abandon struct{}

// parallel runs fn(i) for i in from..n-1 (except skip) on a few workers (behaviours share nothing:
// one store each). A behaviour whose call did not return is abandoned (panic(abandon{})).
func parallel(from, n int, skip map[int]bool, fn func(i int)) {
	workers := runtime.NumCPU() / 2
	if workers < 1 {
		workers = 1
	}
	if workers > 8 {
		workers = 8
	}
	sched.inflight = map[int]bool{}
	sched.next, sched.n = from, n
	var wg sync.WaitGroup
	for w := 0; w < workers; w++ {
		wg.Add(1)
		go func() {
			defer wg.Done()
			for {
				sched.mu.Lock()
				for sched.next < n && skip[sched.next] {
					sched.next++
				}
				if sched.stop || sched.next >= n {
					sched.mu.Unlock()
					return
				}
				i := sched.next
				sched.next++
				sched.inflight[i] = true
				sched.mu.Unlock()
				func() {
					defer func() {
						if p := recover(); p != nil {
							if _, ok := p.(abandon); !ok {
								panic(p)
							}
						}
						sched.mu.Lock()
						delete(sched.inflight, i)
						sched.done++
						sched.mu.Unlock()
					}()
					fn(i)
				}()
			}
		}()
	}
	wg.Wait()
}

// summary prints the one-line result of the process. resume = -1: everything was executed.
func summary(rec *recorder, forced bool) {
	sched.mu.Lock()
	resume := -1
	if sched.next < sched.n {
		resume = sched.next
	}
	if forced {
		for i := range sched.inflight {
			gone := false
			for _, h := range sched.noret {
				gone = gone || h == i
			}
			if !gone && (resume < 0 || i < resume) {
				resume = i
			}
		}
	}
	nr, _ := json.Marshal(append([]int{}, sched.noret...))
	fmt.Printf("{\"behaviours\":%d,\"events\":%d,\"hung\":%v,\"noreturn\":%s,\"resume\":%d}\n",
		sched.done, rec.events, len(sched.noret) > 0, nr, resume)
}

// finish flushes the trace and ends the process: 0 = all calls returned, 3 = some call did not.
func finish(rec *recorder, forced bool) {
	rec.mu.Lock() // never released: nothing is written afterwards
	rec.w.Flush()
	summary(rec, forced)
	if len(sched.noret) > 0 || forced {
		os.Exit(3)
	}
	os.Exit(0)
}

// memoryGuard gives up calls that run while the heap explodes, and ends the process if that does
// not help (a fresh process resumes behind the culprit).
func memoryGuard(rec *recorder, limit uint64) {
	go func() {
		var ms runtime.MemStats
		high := 0
		for {
			time.Sleep(250 * time.Millisecond)
			runtime.ReadMemStats(&ms)
			if ms.HeapAlloc > limit {
				dh.MemHigh.Store(true)
				high++
				if high > 40 || ms.HeapAlloc > 3*limit { // 10 s over the limit, or far beyond it
					finish(rec, true)
				}
			}
		}
	}()
}

func fatal(f string, a ...interface{}) {
	fmt.Fprintf(os.Stderr, "h-disco: "+f+"\n", a...)
	os.Exit(2)
}

type runner struct {
	h    *dh.H
	rec  *recorder
	rnd  *rand.Rand
	reps int
	hi   int
	k    int
}

// step executes one command against the real code and records it (unless silent).
func (r *runner) step(c *dh.Cmd, silent bool) (accepted bool) {
	acc, _ := r.stepC(c, silent)
	return acc
}

// stepC is step that also returns the outcome class of a store command.
func (r *runner) stepC(c *dh.Cmd, silent bool) (accepted bool, class string) {
	pre, err := r.h.State()
	if err != nil {
		fatal("state: %v", err)
	}
	var res interface{}
	hung := false
	switch c.T {
	case "write", "delete":
		if c.T == "write" && c.E == nil {
			fatal("write without entry")
		}
		// the write-time validation compiles chains inside the store transaction: same watchdog
		type out struct {
			wr  dh.WriteRes
			err error
		}
		done := make(chan out, 1)
		go func() {
			var o out
			if c.T == "write" {
				o.wr, o.err = r.h.Write(c)
			} else {
				o.wr, o.err = r.h.Delete(c)
			}
			done <- o
		}()
		if o, ok := dh.WaitChan(done, 2*dh.Watchdog); ok {
			if o.err != nil {
				fatal("%s %+v: %v", c.T, c, o.err)
			}
			res = o.wr
			accepted = o.wr.Class == "ok"
			class = o.wr.Class
		} else {
			// the goroutine is abandoned (it holds the store's write transaction)
			res = dh.WriteRes{Class: "no-return"}
			hung = true
		}
	case "compile":
		if c.Ctx == nil {
			c.Ctx = &dh.Ctx{Dc: "dc1"}
		}
		cr, err := r.h.Compile(c, r.reps, r.rnd)
		if err != nil {
			fatal("compile: %v", err)
		}
		res = cr
		hung = cr.Hung
	default:
		fatal("unknown command %q", c.T)
	}
	if !silent || hung {
		post := pre
		if !(hung && c.T != "compile") { // a hung write still holds the write transaction
			if post, err = r.h.State(); err != nil {
				fatal("state: %v", err)
			}
		}
		r.rec.emit(event{H: r.hi, K: r.k, Cmd: c, Pre: pre, Post: post, Res: res})
	}
	if hung {
		// this behaviour is abandoned, the others go on; too many abandoned calls end the run early
		sched.mu.Lock()
		sched.noret = append(sched.noret, r.hi)
		if len(sched.noret) >= maxNoReturn {
			sched.stop = true
		}
		sched.mu.Unlock()
		if dh.MemHigh.Load() {
			finish(r.rec, true)
		}
		panic(abandon{})
	}
	return accepted, class
}

// compileProposed sends the entry set of a REJECTED write/delete through the compiler directly.
func (r *runner) compileProposed(c *dh.Cmd, svcs []string) {
	pre, err := r.h.State()
	if err != nil {
		fatal("state: %v", err)
	}
	set := dh.Proposed(pre, c)
	for _, s := range svcs {
		ctx := autoCtx[0]
		r.step(&dh.Cmd{T: "compile", Svc: s, Ctx: &ctx, Src: "direct", Set: &set}, false)
	}
}

var nAutoCtx = 3

var memLimit uint64 = 3 << 30

var autoCtx = []dh.Ctx{
	{Dc: "dc1"},
	{Dc: "dc1", Op: "tcp"},
	{Dc: "dc2", Op: "http", Mg: "local", Ct: 7},
}

func (r *runner) autoCompile(svcs []string) {
	for _, s := range svcs {
		for i := range autoCtx[:nAutoCtx] {
			ctx := autoCtx[i]
			r.step(&dh.Cmd{T: "compile", Svc: s, Ctx: &ctx, Src: "direct"}, false)
		}
		ctx := autoCtx[0]
		r.step(&dh.Cmd{T: "compile", Svc: s, Ctx: &ctx, Src: "store"}, false)
	}
}

func normCmd(c *dh.Cmd) *dh.Cmd {
	// JSON round trip so that the command is exactly what is recorded
	b, _ := json.Marshal(c)
	var c2 dh.Cmd
	if err := json.Unmarshal(b, &c2); err != nil {
		fatal("cmd round trip: %v", err)
	}
	if c2.E != nil {
		dh.NormEntry(c2.E)
	}
	if c2.Set != nil {
		for i := range *c2.Set {
			dh.NormEntry(&(*c2.Set)[i])
		}
	}
	if c2.Mode == "" && c2.T != "compile" {
		c2.Mode = "set"
	}
	return &c2
}

func replay(in, out string, auto, lastonly bool, svcs []string, reps int, seed int64, from int, skip map[int]bool) {
	b, err := os.ReadFile(in)
	if err != nil {
		fatal("%v", err)
	}
	var behs [][]*dh.Cmd
	if err := json.Unmarshal(b, &behs); err != nil {
		fatal("decode behaviours: %v", err)
	}
	f, err := os.Create(out)
	if err != nil {
		fatal("%v", err)
	}
	defer f.Close()
	rec := &recorder{w: bufio.NewWriterSize(f, 1<<20)}
	memoryGuard(rec, memLimit)
	parallel(from, len(behs), skip, func(hi int) {
		beh := behs[hi]
		h, err := dh.New()
		if err != nil {
			fatal("new store: %v", err)
		}
		r := &runner{h: h, rec: rec, rnd: rand.New(rand.NewSource(seed*1000003 + int64(hi))), reps: reps, hi: hi}
		for i, c := range beh {
			c = normCmd(c)
			r.k = i + 1
			last := i == len(beh)-1
			acc, class := r.stepC(c, lastonly && !last)
			// an unchanged state was compiled when it was reached
			if auto && acc && (!lastonly || last) {
				r.autoCompile(svcs)
			}
			if auto && class == "reject" && (!lastonly || last) {
				r.compileProposed(c, svcs)
			}
		}
	})
	finish(rec, false)
}

// ---------------------------------------------------------------- seeded random driver

var (
	rSvcs   = []string{"a", "b", "c", "d", "e"}
	rSubs   = []string{"v1", "v2", "v3"}
	rProtos = []string{"http", "http", "http", "tcp", "", "grpc", "http2"}
	rDcs    = []string{"", "", "", "dc1", "dc2", "dc3"}
)

type gen struct {
	r   *rand.Rand
	h   *dh.H
	idx uint64
}

func (g *gen) pick(l []string) string { return l[g.r.Intn(len(l))] }

func (g *gen) ref(allowEmptySvc bool, withDc bool) dh.Ref {
	ref := dh.Ref{Svc: g.pick(rSvcs)}
	if allowEmptySvc && g.r.Intn(4) == 0 {
		ref.Svc = ""
	}
	if g.r.Intn(3) == 0 {
		ref.Sub = g.pick(rSubs[:2])
	}
	if withDc {
		ref.Dc = g.pick(rDcs)
	}
	return ref
}

func (g *gen) entry() *dh.Entry {
	e := &dh.Entry{Name: g.pick(rSvcs)}
	switch x := g.r.Intn(100); {
	case x < 14:
		e.Kind = "defaults"
		e.Protocol = g.pick(rProtos)
	case x < 20:
		e.Kind, e.Name = "proxy", "global"
		e.Protocol = g.pick([]string{"http", "http", "grpc", "tcp", ""})
	case x < 38:
		e.Kind = "router"
		for i, n := 0, g.r.Intn(3)+1; i < n; i++ {
			e.Routes = append(e.Routes, g.ref(true, false))
		}
	case x < 62:
		e.Kind = "splitter"
		e.Wp = g.r.Intn(5)
		seen := map[dh.Ref]bool{}
		for i, n := 0, g.r.Intn(3)+1; i < n; i++ {
			l := g.ref(true, false)
			key := l
			if key.Svc == "" {
				key.Svc = e.Name
			}
			if seen[key] && g.r.Intn(10) != 0 { // a few duplicate legs stay in (invalid entry)
				continue
			}
			seen[key] = true
			e.Legs = append(e.Legs, l)
		}
		if len(e.Legs) == 0 && g.r.Intn(10) != 0 {
			e.Legs = append(e.Legs, dh.Ref{Svc: g.pick(rSvcs)})
		}
	default:
		e.Kind = "resolver"
		for _, s := range rSubs {
			if g.r.Intn(3) == 0 {
				e.Subsets = append(e.Subsets, s)
			}
		}
		if len(e.Subsets) > 0 && g.r.Intn(3) == 0 {
			e.Defsub = g.pick(e.Subsets)
		} else if g.r.Intn(25) == 0 {
			e.Defsub = "v3" // possibly not a subset (invalid entry)
		}
		y := g.r.Intn(100)
		if y < 40 {
			e.Redirect = g.ref(true, true)
			if e.Redirect == (dh.Ref{}) {
				e.Redirect.Svc = g.pick(rSvcs)
			}
		}
		if (y >= 40 && y < 75) || y < 2 {
			keys := []string{"*"}
			keys = append(keys, e.Subsets...)
			if g.r.Intn(25) == 0 {
				keys = append(keys, "v9")
			}
			g.r.Shuffle(len(keys), func(i, j int) { keys[i], keys[j] = keys[j], keys[i] })
			for i, n := 0, g.r.Intn(2)+1; i < n && i < len(keys); i++ {
				fs := dh.FoSec{Key: keys[i], Form: g.pick([]string{"targets", "targets", "single", "dcs"})}
				switch fs.Form {
				case "single":
					t := g.ref(true, false)
					if t == (dh.Ref{}) {
						t.Svc = g.pick(rSvcs)
					}
					fs.Targets = []dh.Ref{t}
				case "dcs":
					t := g.ref(true, false)
					for j, m := 0, g.r.Intn(2)+1; j < m; j++ {
						t.Dc = g.pick(rDcs[3:])
						fs.Targets = append(fs.Targets, t)
					}
				default:
					for j, m := 0, g.r.Intn(3)+1; j < m; j++ {
						fs.Targets = append(fs.Targets, g.ref(true, true))
					}
				}
				e.Failover = append(e.Failover, fs)
			}
		}
	}
	dh.NormEntry(e)
	return e
}

func (g *gen) casIdx(kind, name string) uint64 {
	st, _ := g.h.State()
	var cur uint64
	for _, e := range st.Ents {
		if e.Kind == kind && e.Name == name && e.Mi != nil {
			cur = *e.Mi
		}
	}
	switch g.r.Intn(5) {
	case 0:
		return 0
	case 1, 2, 3:
		return cur
	}
	return g.idx - 1
}

func (g *gen) next() *dh.Cmd {
	g.idx++
	c := &dh.Cmd{Idx: g.idx, Mode: "set"}
	st, _ := g.h.State()
	if g.r.Intn(100) < 22 && len(st.Ents) > 0 {
		c.T = "delete"
		if g.r.Intn(8) == 0 {
			c.Kind, c.Name = g.pick([]string{"defaults", "router", "splitter", "resolver"}), g.pick(rSvcs)
		} else {
			x := st.Ents[g.r.Intn(len(st.Ents))]
			c.Kind, c.Name = x.Kind, x.Name
		}
		if g.r.Intn(5) == 0 {
			c.Mode = "cas"
			c.Cidx = g.casIdx(c.Kind, c.Name)
		}
		return c
	}
	c.T = "write"
	c.E = g.entry()
	if g.r.Intn(100) < 12 {
		if e := g.loopMaker(st); e != nil {
			c.E = e
		}
	}
	if g.r.Intn(5) == 0 {
		c.Mode = "cas"
		c.Cidx = g.casIdx(c.E.Kind, c.E.Name)
	}
	return c
}

// loopMaker proposes an entry that closes a loop somewhere in the stored graph, or puts a router /
// another splitter in front of stored splitters, so that cycles also lie BEHIND the compiled service
// (not only through it): the back edge goes from the target of a stored splitter leg or redirect to
// its source, or to something upstream of it.
func (g *gen) loopMaker(st dh.State) *dh.Entry {
	type edge struct{ from, to, kind string }
	var edges []edge
	for _, x := range st.Ents {
		switch x.Kind {
		case "splitter":
			for _, l := range x.Legs {
				if l.Svc != "" && l.Svc != x.Name && l.Sub == "" {
					edges = append(edges, edge{x.Name, l.Svc, "splitter"})
				}
			}
		case "resolver":
			if x.Redirect.Svc != "" && x.Redirect.Svc != x.Name {
				edges = append(edges, edge{x.Name, x.Redirect.Svc, "resolver"})
			}
		}
	}
	if len(edges) == 0 {
		return nil
	}
	ed := edges[g.r.Intn(len(edges))]
	e := &dh.Entry{}
	switch x := g.r.Intn(10); {
	case x < 5: // back edge of the same kind: to -> from
		e.Kind, e.Name = ed.kind, ed.to
		if ed.kind == "splitter" {
			e.Legs = []dh.Ref{{Svc: ed.from}}
			if g.r.Intn(2) == 0 {
				e.Legs = append([]dh.Ref{{}}, e.Legs...)
				e.Wp = g.r.Intn(5)
			}
		} else {
			e.Redirect = dh.Ref{Svc: ed.from}
		}
	case x < 8: // a router in front of the source (or of some other service) routing into the edge
		e.Kind, e.Name = "router", g.pick([]string{ed.from, ed.from, g.pick(rSvcs)})
		e.Routes = []dh.Ref{{Svc: ed.from}}
		if g.r.Intn(2) == 0 {
			e.Routes = append(e.Routes, dh.Ref{Svc: ed.to})
		}
	default: // another splitter upstream of the source
		e.Kind, e.Name = "splitter", g.pick(rSvcs)
		if e.Name == ed.from {
			return nil
		}
		e.Legs = []dh.Ref{{Svc: ed.from}}
	}
	dh.NormEntry(e)
	return e
}

var (
	rOps = []string{"", "", "tcp", "http", "grpc", "http2"}
	rMgs = []string{"", "", "local", "remote", "none"}
)

func random(seed int64, n, length int, out string, reps int, from int, skip map[int]bool) {
	f, err := os.Create(out)
	if err != nil {
		fatal("%v", err)
	}
	defer f.Close()
	rec := &recorder{w: bufio.NewWriterSize(f, 1<<20)}
	memoryGuard(rec, memLimit)
	parallel(from, n, skip, func(t int) {
		h, err := dh.New()
		if err != nil {
			fatal("new store: %v", err)
		}
		rr := rand.New(rand.NewSource(seed*100003 + int64(t)))
		g := &gen{r: rr, h: h, idx: 9}
		r := &runner{h: h, rec: rec, rnd: rr, reps: reps, hi: t}
		for i := 0; i < length; i++ {
			var c *dh.Cmd
			if i == 0 && rr.Intn(10) < 7 {
				// most histories start in a mesh whose default protocol is http
				g.idx++
				e := &dh.Entry{Kind: "proxy", Name: "global", Protocol: "http"}
				dh.NormEntry(e)
				c = &dh.Cmd{T: "write", E: e, Mode: "set", Idx: g.idx}
			} else {
				c = g.next()
			}
			r.k = i + 1
			nc := normCmd(c)
			acc, class := r.stepC(nc, false)
			if class == "reject" {
				r.compileProposed(nc, rSvcs)
			}
			// every chain in the default context, and in one random context ; one through the store
			rc := dh.Ctx{Dc: g.pick([]string{"dc1", "dc1", "dc2", "dc3"}), Op: g.pick(rOps), Mg: g.pick(rMgs), Ct: rr.Intn(2) * 7}
			for _, s := range rSvcs {
				if !acc {
					break // unchanged state: only the store-path compile below
				}
				d := dh.Ctx{Dc: "dc1"}
				r.step(&dh.Cmd{T: "compile", Svc: s, Ctx: &d, Src: "direct"}, false)
				x := rc
				r.step(&dh.Cmd{T: "compile", Svc: s, Ctx: &x, Src: "direct"}, false)
			}
			y := rc
			r.step(&dh.Cmd{T: "compile", Svc: g.pick(rSvcs), Ctx: &y, Src: "store"}, false)
		}
	})
	finish(rec, false)
}

func main() {
	if len(os.Args) < 2 {
		fatal("usage: h-disco replay|random ...")
	}
	fs := flag.NewFlagSet(os.Args[1], flag.ExitOnError)
	in := fs.String("in", "", "behaviours json")
	out := fs.String("out", "trace.ndjson", "output trace")
	seed := fs.Int64("seed", 1, "seed")
	n := fs.Int("n", 10, "number of random histories")
	length := fs.Int("len", 30, "length of each history")
	auto := fs.Bool("auto", false, "compile every chain after every write/delete")
	lastonly := fs.Bool("lastonly", false, "record only the last command of each behaviour (and its compile events)")
	svcs := fs.String("svcs", "a,b,c", "services compiled by -auto")
	reps := fs.Int("reps", 5, "compilations per compile command")
	wd := fs.Duration("watchdog", dh.Watchdog, "bound of one compilation")
	actx := fs.Int("actx", 3, "number of evaluation contexts compiled directly by -auto (1..3)")
	from := fs.Int("from", 0, "first behaviour / history to execute (resuming after an early end)")
	skipS := fs.String("skip", "", "comma separated behaviours / histories not to execute (they did not return)")
	memMB := fs.Int("memlimit", 3072, "heap limit in MiB above which running calls are given up")
	debug := fs.Bool("debug", false, "record the complete distinct outputs of compile commands")
	_ = fs.Parse(os.Args[2:])
	dh.Watchdog = *wd
	dh.Debug = *debug
	memLimit = uint64(*memMB) << 20
	skip := map[int]bool{}
	for _, x := range strings.Split(*skipS, ",") {
		if i, err := strconv.Atoi(x); err == nil {
			skip[i] = true
		}
	}
	if *actx >= 1 && *actx <= len(autoCtx) {
		nAutoCtx = *actx
	}
	switch os.Args[1] {
	case "replay":
		replay(*in, *out, *auto, *lastonly, strings.Split(*svcs, ","), *reps, *seed, *from, skip)
	case "random":
		random(*seed, *n, *length, *out, *reps, *from, skip)
	default:
		fatal("unknown mode %s", os.Args[1])
	}
}
