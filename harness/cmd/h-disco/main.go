// h-disco: executor/recorder for C15 (discovery-chain compilation and config-entry graph validation).
//
//	h-disco replay -in behaviours.json -out trace.ndjson [-auto] [-lastonly] [-svcs a,b,c] [-reps 5]
//	h-disco random -seed S -n N -len L -out trace.ndjson [-reps 5]
//
// A behaviour is a list of commands {t: write|delete|compile, ...} (spec/DiscoChain.tla). Every
// executed command becomes one self-contained NDJSON event {h,k,cmd,pre,post,res} that TLC judges
// with spec/DiscoChainTrace.tla; with -auto every write/delete is followed by compile events for
// every service (several evaluation contexts, compiler called directly and through the store).
// No verdict is computed here. Exit 3 = a compilation did not return within the watchdog (the
// event with res.hung = true is the last line of the trace).
package main

import (
	"bufio"
	"encoding/json"
	"flag"
	"fmt"
	"math/rand"
	"os"
	"runtime"
	"strings"
	"sync"
	"time"

	dh "github.com/hashicorp/consul/verifharness/internal/discoh"
)

type event struct {
	H    int         `json:"h"`
	K    int         `json:"k"`
	Cmd  *dh.Cmd     `json:"cmd"`
	Pre  dh.State    `json:"pre"`
	Post dh.State    `json:"post"`
	Res  interface{} `json:"res"`
}

// recorder is shared by the workers: events are self-contained (they carry h and k), so their
// order in the file does not matter.
type recorder struct {
	mu     sync.Mutex
	w      *bufio.Writer
	events int
}

func (r *recorder) emit(ev event) {
	b, err := json.Marshal(ev)
	if err != nil {
		fatal("marshal: %v", err)
	}
	r.mu.Lock()
	r.w.Write(b)
	r.w.WriteByte('\n')
	r.events++
	r.mu.Unlock()
}

// parallel runs fn(0..n-1) on a few workers (behaviours share nothing: one store each).
func parallel(n int, fn func(i int)) {
	workers := runtime.NumCPU() / 2
	if workers < 1 {
		workers = 1
	}
	if workers > 8 {
		workers = 8
	}
	var wg sync.WaitGroup
	next := make(chan int)
	for w := 0; w < workers; w++ {
		wg.Add(1)
		go func() {
			defer wg.Done()
			for i := range next {
				fn(i)
			}
		}()
	}
	for i := 0; i < n; i++ {
		next <- i
	}
	close(next)
	wg.Wait()
}

func fatal(f string, a ...interface{}) {
	fmt.Fprintf(os.Stderr, "h-disco: "+f+"\n", a...)
	os.Exit(2)
}

type runner struct {
	h    *dh.H
	rec  *recorder
	rnd  *rand.Rand
	reps int
	hi   int
	k    int
}

// step executes one command against the real code and records it (unless silent).
func (r *runner) step(c *dh.Cmd, silent bool) (accepted bool) {
	acc, _ := r.stepC(c, silent)
	return acc
}

// stepC is step that also returns the outcome class of a store command.
func (r *runner) stepC(c *dh.Cmd, silent bool) (accepted bool, class string) {
	pre, err := r.h.State()
	if err != nil {
		fatal("state: %v", err)
	}
	var res interface{}
	hung := false
	switch c.T {
	case "write", "delete":
		if c.T == "write" && c.E == nil {
			fatal("write without entry")
		}
		// the write-time validation compiles chains inside the store transaction: same watchdog
		type out struct {
			wr  dh.WriteRes
			err error
		}
		done := make(chan out, 1)
		go func() {
			var o out
			if c.T == "write" {
				o.wr, o.err = r.h.Write(c)
			} else {
				o.wr, o.err = r.h.Delete(c)
			}
			done <- o
		}()
		select {
		case o := <-done:
			if o.err != nil {
				fatal("%s %+v: %v", c.T, c, o.err)
			}
			res = o.wr
			accepted = o.wr.Class == "ok"
			class = o.wr.Class
		case <-time.After(3 * dh.Watchdog):
			res = dh.WriteRes{Class: "hung"}
			hung = true
		}
	case "compile":
		if c.Ctx == nil {
			c.Ctx = &dh.Ctx{Dc: "dc1"}
		}
		cr, err := r.h.Compile(c, r.reps, r.rnd)
		if err != nil {
			fatal("compile: %v", err)
		}
		res = cr
		hung = cr.Hung
	default:
		fatal("unknown command %q", c.T)
	}
	if !silent || hung {
		post := pre
		if !(hung && c.T != "compile") { // a hung write still holds the write transaction
			if post, err = r.h.State(); err != nil {
				fatal("state: %v", err)
			}
		}
		r.rec.emit(event{H: r.hi, K: r.k, Cmd: c, Pre: pre, Post: post, Res: res})
	}
	if hung {
		r.rec.mu.Lock() // never released: nothing is written after the hung event
		r.rec.w.Flush()
		fmt.Printf("{\"behaviours\":%d,\"events\":%d,\"hung\":true}\n", r.hi+1, r.rec.events)
		os.Exit(3)
	}
	return accepted, class
}

// compileProposed sends the entry set of a REJECTED write/delete through the compiler directly.
func (r *runner) compileProposed(c *dh.Cmd, svcs []string) {
	pre, err := r.h.State()
	if err != nil {
		fatal("state: %v", err)
	}
	set := dh.Proposed(pre, c)
	for _, s := range svcs {
		ctx := autoCtx[0]
		r.step(&dh.Cmd{T: "compile", Svc: s, Ctx: &ctx, Src: "direct", Set: &set}, false)
	}
}

var nAutoCtx = 3

var autoCtx = []dh.Ctx{
	{Dc: "dc1"},
	{Dc: "dc1", Op: "tcp"},
	{Dc: "dc2", Op: "http", Mg: "local", Ct: 7},
}

func (r *runner) autoCompile(svcs []string) {
	for _, s := range svcs {
		for i := range autoCtx[:nAutoCtx] {
			ctx := autoCtx[i]
			r.step(&dh.Cmd{T: "compile", Svc: s, Ctx: &ctx, Src: "direct"}, false)
		}
		ctx := autoCtx[0]
		r.step(&dh.Cmd{T: "compile", Svc: s, Ctx: &ctx, Src: "store"}, false)
	}
}

func normCmd(c *dh.Cmd) *dh.Cmd {
	// JSON round trip so that the command is exactly what is recorded
	b, _ := json.Marshal(c)
	var c2 dh.Cmd
	if err := json.Unmarshal(b, &c2); err != nil {
		fatal("cmd round trip: %v", err)
	}
	if c2.E != nil {
		dh.NormEntry(c2.E)
	}
	if c2.Set != nil {
		for i := range *c2.Set {
			dh.NormEntry(&(*c2.Set)[i])
		}
	}
	if c2.Mode == "" && c2.T != "compile" {
		c2.Mode = "set"
	}
	return &c2
}

func replay(in, out string, auto, lastonly bool, svcs []string, reps int, seed int64) {
	b, err := os.ReadFile(in)
	if err != nil {
		fatal("%v", err)
	}
	var behs [][]*dh.Cmd
	if err := json.Unmarshal(b, &behs); err != nil {
		fatal("decode behaviours: %v", err)
	}
	f, err := os.Create(out)
	if err != nil {
		fatal("%v", err)
	}
	defer f.Close()
	rec := &recorder{w: bufio.NewWriterSize(f, 1<<20)}
	parallel(len(behs), func(hi int) {
		beh := behs[hi]
		h, err := dh.New()
		if err != nil {
			fatal("new store: %v", err)
		}
		r := &runner{h: h, rec: rec, rnd: rand.New(rand.NewSource(seed*1000003 + int64(hi))), reps: reps, hi: hi}
		for i, c := range beh {
			c = normCmd(c)
			r.k = i + 1
			last := i == len(beh)-1
			acc, class := r.stepC(c, lastonly && !last)
			// an unchanged state was compiled when it was reached
			if auto && acc && (!lastonly || last) {
				r.autoCompile(svcs)
			}
			if auto && class == "reject" && (!lastonly || last) {
				r.compileProposed(c, svcs)
			}
		}
	})
	rec.w.Flush()
	fmt.Printf("{\"behaviours\":%d,\"events\":%d,\"hung\":false}\n", len(behs), rec.events)
}

// ---------------------------------------------------------------- seeded random driver

var (
	rSvcs   = []string{"a", "b", "c", "d", "e"}
	rSubs   = []string{"v1", "v2", "v3"}
	rProtos = []string{"http", "http", "http", "tcp", "", "grpc", "http2"}
	rDcs    = []string{"", "", "", "dc1", "dc2", "dc3"}
)

type gen struct {
	r   *rand.Rand
	h   *dh.H
	idx uint64
}

func (g *gen) pick(l []string) string { return l[g.r.Intn(len(l))] }

func (g *gen) ref(allowEmptySvc bool, withDc bool) dh.Ref {
	ref := dh.Ref{Svc: g.pick(rSvcs)}
	if allowEmptySvc && g.r.Intn(4) == 0 {
		ref.Svc = ""
	}
	if g.r.Intn(3) == 0 {
		ref.Sub = g.pick(rSubs[:2])
	}
	if withDc {
		ref.Dc = g.pick(rDcs)
	}
	return ref
}

func (g *gen) entry() *dh.Entry {
	e := &dh.Entry{Name: g.pick(rSvcs)}
	switch x := g.r.Intn(100); {
	case x < 14:
		e.Kind = "defaults"
		e.Protocol = g.pick(rProtos)
	case x < 20:
		e.Kind, e.Name = "proxy", "global"
		e.Protocol = g.pick([]string{"http", "http", "grpc", "tcp", ""})
	case x < 38:
		e.Kind = "router"
		for i, n := 0, g.r.Intn(3)+1; i < n; i++ {
			e.Routes = append(e.Routes, g.ref(true, false))
		}
	case x < 62:
		e.Kind = "splitter"
		e.Wp = g.r.Intn(5)
		seen := map[dh.Ref]bool{}
		for i, n := 0, g.r.Intn(3)+1; i < n; i++ {
			l := g.ref(true, false)
			key := l
			if key.Svc == "" {
				key.Svc = e.Name
			}
			if seen[key] && g.r.Intn(10) != 0 { // a few duplicate legs stay in (invalid entry)
				continue
			}
			seen[key] = true
			e.Legs = append(e.Legs, l)
		}
		if len(e.Legs) == 0 && g.r.Intn(10) != 0 {
			e.Legs = append(e.Legs, dh.Ref{Svc: g.pick(rSvcs)})
		}
	default:
		e.Kind = "resolver"
		for _, s := range rSubs {
			if g.r.Intn(3) == 0 {
				e.Subsets = append(e.Subsets, s)
			}
		}
		if len(e.Subsets) > 0 && g.r.Intn(3) == 0 {
			e.Defsub = g.pick(e.Subsets)
		} else if g.r.Intn(25) == 0 {
			e.Defsub = "v3" // possibly not a subset (invalid entry)
		}
		y := g.r.Intn(100)
		if y < 40 {
			e.Redirect = g.ref(true, true)
			if e.Redirect == (dh.Ref{}) {
				e.Redirect.Svc = g.pick(rSvcs)
			}
		}
		if (y >= 40 && y < 75) || y < 2 {
			keys := []string{"*"}
			keys = append(keys, e.Subsets...)
			if g.r.Intn(25) == 0 {
				keys = append(keys, "v9")
			}
			g.r.Shuffle(len(keys), func(i, j int) { keys[i], keys[j] = keys[j], keys[i] })
			for i, n := 0, g.r.Intn(2)+1; i < n && i < len(keys); i++ {
				fs := dh.FoSec{Key: keys[i], Form: g.pick([]string{"targets", "targets", "single", "dcs"})}
				switch fs.Form {
				case "single":
					t := g.ref(true, false)
					if t == (dh.Ref{}) {
						t.Svc = g.pick(rSvcs)
					}
					fs.Targets = []dh.Ref{t}
				case "dcs":
					t := g.ref(true, false)
					for j, m := 0, g.r.Intn(2)+1; j < m; j++ {
						t.Dc = g.pick(rDcs[3:])
						fs.Targets = append(fs.Targets, t)
					}
				default:
					for j, m := 0, g.r.Intn(3)+1; j < m; j++ {
						fs.Targets = append(fs.Targets, g.ref(true, true))
					}
				}
				e.Failover = append(e.Failover, fs)
			}
		}
	}
	dh.NormEntry(e)
	return e
}

func (g *gen) casIdx(kind, name string) uint64 {
	st, _ := g.h.State()
	var cur uint64
	for _, e := range st.Ents {
		if e.Kind == kind && e.Name == name && e.Mi != nil {
			cur = *e.Mi
		}
	}
	switch g.r.Intn(5) {
	case 0:
		return 0
	case 1, 2, 3:
		return cur
	}
	return g.idx - 1
}

func (g *gen) next() *dh.Cmd {
	g.idx++
	c := &dh.Cmd{Idx: g.idx, Mode: "set"}
	st, _ := g.h.State()
	if g.r.Intn(100) < 22 && len(st.Ents) > 0 {
		c.T = "delete"
		if g.r.Intn(8) == 0 {
			c.Kind, c.Name = g.pick([]string{"defaults", "router", "splitter", "resolver"}), g.pick(rSvcs)
		} else {
			x := st.Ents[g.r.Intn(len(st.Ents))]
			c.Kind, c.Name = x.Kind, x.Name
		}
		if g.r.Intn(5) == 0 {
			c.Mode = "cas"
			c.Cidx = g.casIdx(c.Kind, c.Name)
		}
		return c
	}
	c.T = "write"
	c.E = g.entry()
	if g.r.Intn(5) == 0 {
		c.Mode = "cas"
		c.Cidx = g.casIdx(c.E.Kind, c.E.Name)
	}
	return c
}

var (
	rOps = []string{"", "", "tcp", "http", "grpc", "http2"}
	rMgs = []string{"", "", "local", "remote", "none"}
)

func random(seed int64, n, length int, out string, reps int) {
	f, err := os.Create(out)
	if err != nil {
		fatal("%v", err)
	}
	defer f.Close()
	rec := &recorder{w: bufio.NewWriterSize(f, 1<<20)}
	parallel(n, func(t int) {
		h, err := dh.New()
		if err != nil {
			fatal("new store: %v", err)
		}
		rr := rand.New(rand.NewSource(seed*100003 + int64(t)))
		g := &gen{r: rr, h: h, idx: 9}
		r := &runner{h: h, rec: rec, rnd: rr, reps: reps, hi: t}
		for i := 0; i < length; i++ {
			var c *dh.Cmd
			if i == 0 && rr.Intn(10) < 7 {
				// most histories start in a mesh whose default protocol is http
				g.idx++
				e := &dh.Entry{Kind: "proxy", Name: "global", Protocol: "http"}
				dh.NormEntry(e)
				c = &dh.Cmd{T: "write", E: e, Mode: "set", Idx: g.idx}
			} else {
				c = g.next()
			}
			r.k = i + 1
			nc := normCmd(c)
			acc, class := r.stepC(nc, false)
			if class == "reject" {
				r.compileProposed(nc, rSvcs)
			}
			// every chain in the default context, and in one random context ; one through the store
			rc := dh.Ctx{Dc: g.pick([]string{"dc1", "dc1", "dc2", "dc3"}), Op: g.pick(rOps), Mg: g.pick(rMgs), Ct: rr.Intn(2) * 7}
			for _, s := range rSvcs {
				if !acc {
					break // unchanged state: only the store-path compile below
				}
				d := dh.Ctx{Dc: "dc1"}
				r.step(&dh.Cmd{T: "compile", Svc: s, Ctx: &d, Src: "direct"}, false)
				x := rc
				r.step(&dh.Cmd{T: "compile", Svc: s, Ctx: &x, Src: "direct"}, false)
			}
			y := rc
			r.step(&dh.Cmd{T: "compile", Svc: g.pick(rSvcs), Ctx: &y, Src: "store"}, false)
		}
	})
	rec.w.Flush()
	fmt.Printf("{\"behaviours\":%d,\"events\":%d,\"hung\":false}\n", n, rec.events)
}

func main() {
	if len(os.Args) < 2 {
		fatal("usage: h-disco replay|random ...")
	}
	fs := flag.NewFlagSet(os.Args[1], flag.ExitOnError)
	in := fs.String("in", "", "behaviours json")
	out := fs.String("out", "trace.ndjson", "output trace")
	seed := fs.Int64("seed", 1, "seed")
	n := fs.Int("n", 10, "number of random histories")
	length := fs.Int("len", 30, "length of each history")
	auto := fs.Bool("auto", false, "compile every chain after every write/delete")
	lastonly := fs.Bool("lastonly", false, "record only the last command of each behaviour (and its compile events)")
	svcs := fs.String("svcs", "a,b,c", "services compiled by -auto")
	reps := fs.Int("reps", 5, "compilations per compile command")
	wd := fs.Duration("watchdog", dh.Watchdog, "bound of one compilation")
	actx := fs.Int("actx", 3, "number of evaluation contexts compiled directly by -auto (1..3)")
	debug := fs.Bool("debug", false, "record the complete distinct outputs of compile commands")
	_ = fs.Parse(os.Args[2:])
	dh.Watchdog = *wd
	dh.Debug = *debug
	if *actx >= 1 && *actx <= len(autoCtx) {
		nAutoCtx = *actx
	}
	switch os.Args[1] {
	case "replay":
		replay(*in, *out, *auto, *lastonly, strings.Split(*svcs, ","), *reps, *seed)
	case "random":
		random(*seed, *n, *length, *out, *reps)
	default:
		fatal("unknown mode %s", os.Args[1])
	}
}
