// h-res: concurrent executor/recorder for C18 (resource store: version CAS, stable UIDs, ordered watches).
//
//	h-res -backend inmem|store|raft -seed S -n N -ops K [-g G] [-watchers W] -out trace.ndjson
//
// For each of N histories a fresh backend is created and G real goroutines (4..8) run seeded random
// WriteCAS / DeleteCAS / Read / List / ListByOwner calls against it while W watcher goroutines (1..2)
// consume WatchList streams; where the backend supports it a Snapshot is taken at ~40% and restored at
// ~70% of the operations (mutating calls are held back during the restore only, as Raft's FSM does). On the
// store backend most histories drive the restore in the API's two steps - Store.Restore()+Apply at ~65%, Commit
// at ~80% - with every kind of call, writes included, running in between (only Commit itself is exclusive).
//
// Recording is hook-free. A process-wide atomic counter gives every log point a position `at`:
//
//	{e:"inv", at, id, g, op, res}    position taken immediately BEFORE the call (res = the result the call
//	                                 later returned, joined in when the file is written: a prophecy for TLC)
//	{e:"ret", at, id, g}             position taken immediately AFTER the call returned
//	{e:"wopen", at, w, wid, q}       before WatchList
//	{e:"wev", at, w, wid, ph, kind, r}   after Watch.Next returned an event (ph = snap|live)
//	{e:"wrd", at, w, wid, k, res}    after the Read(k) that follows every received upsert/delete event returned
//	{e:"wdone", at, w, wid}          the watcher saw the final fence writes of every tenancy its query matches
//	{e:"reset", h, backend, keys, watches:[{wid,q,snap,eos,first,live,nlive}]}   history header (recorded data
//	                                 re-arranged up front: snap = the initial listing, first = position of the
//	                                 watch's first event (0 if none), live = the first live event of every resource,
//	                                 nlive = number of live events; inv events also carry rat = position of their return)
//	{e:"stall", at, pending}         written by the watchdog when no log point was taken for -stall seconds: the run
//	                                 is stuck; calls that never returned have res.t = "pending"
//
// No verdict is computed here; spec/ResourceStoreTrace.tla decides.
package main

import (
	"bufio"
	"context"
	"encoding/json"
	"errors"
	"flag"
	"fmt"
	"math/rand"
	"os"
	"sort"
	"strconv"
	"strings"
	"sync"
	"sync/atomic"
	"time"

	"github.com/hashicorp/consul/internal/storage"
	"github.com/hashicorp/consul/proto-public/pbresource"
	"github.com/hashicorp/consul/verifharness/internal/resh"
)

type M = map[string]any

type keyT struct{ P, N, Name string }

var stallAfter = 30 * time.Second

var (
	tenancies = [][2]string{{"default", "default"}, {"default", "n2"}, {"p2", "default"}}
	names     = []string{"a", "ab", "b"}
	prefixes  = []string{"", "a", "ab"}
	typ       = &pbresource.Type{Group: "demo", GroupVersion: "v2", Kind: "Artist"}
	utyp      = storage.UnversionedType{Group: "demo", Kind: "Artist"}
)

const fenceName = "abf" // matches every generated name prefix

func fatal(code int, f string, a ...any) {
	fmt.Fprintf(os.Stderr, "h-res: "+f+"\n", a...)
	os.Exit(code)
}

func nameInts(s string) []int {
	out := make([]int, 0, len(s))
	for i := 0; i < len(s); i++ {
		out = append(out, int(s[i]-'a')+1)
	}
	return out
}

func kj(k keyT) M { return M{"p": k.P, "n": k.N, "name": nameInts(k.Name)} }

func keyOf(id *pbresource.ID) keyT {
	return keyT{id.GetTenancy().GetPartition(), id.GetTenancy().GetNamespace(), id.GetName()}
}

func idOf(k keyT, uid string) *pbresource.ID {
	return &pbresource.ID{Type: typ, Tenancy: &pbresource.Tenancy{Partition: k.P, Namespace: k.N}, Name: k.Name, Uid: uid}
}

func resJ(r *pbresource.Resource) M {
	d, _ := strconv.Atoi(r.GetMetadata()["d"])
	own := []any{}
	if r.Owner != nil {
		own = append(own, M{"k": kj(keyOf(r.Owner)), "uid": r.Owner.Uid})
	}
	return M{"k": kj(keyOf(r.Id)), "uid": r.Id.Uid, "ver": r.Version, "d": d, "own": own}
}

func resListJ(rs []*pbresource.Resource) []any {
	out := make([]any, 0, len(rs))
	for _, r := range rs {
		out = append(out, resJ(r))
	}
	return out
}

func errClass(err error) string {
	switch {
	case err == nil:
		return ""
	case errors.Is(err, storage.ErrCASFailure):
		return "cas"
	case errors.Is(err, storage.ErrWrongUid):
		return "uid"
	case errors.Is(err, storage.ErrNotFound):
		return "notfound"
	case errors.Is(err, storage.ErrInconsistent):
		return "inconsistent"
	}
	return "other"
}

func result(err error, rs []any) M {
	if rs == nil {
		rs = []any{}
	}
	if err != nil {
		return M{"t": "err", "e": errClass(err), "rs": []any{}, "msg": err.Error()}
	}
	return M{"t": "ok", "e": "", "rs": rs}
}

type event struct {
	at int64
	m  M
}

type kv struct {
	uid, ver string
	present  bool
}

type queryT struct{ P, N, Pre string }

func (q queryT) j() M { return M{"p": q.P, "n": q.N, "pre": nameInts(q.Pre)} }
func (q queryT) matches(k keyT) bool {
	return (q.P == "*" || q.P == k.P) && (q.N == "*" || q.N == k.N) && strings.HasPrefix(k.Name, q.Pre)
}

type history struct {
	sut   resh.SUT
	seq   *atomic.Int64
	keys  []keyT
	fence []keyT
	ctx   context.Context

	mu     sync.Mutex
	latest map[keyT]kv
	old    map[keyT][]kv

	uidc, widc atomic.Int64
	gate       sync.RWMutex // mutating calls hold it shared; restore holds it exclusively

	snapMu                 sync.Mutex
	snap                   []*pbresource.Resource
	hasSnap                bool
	begun                  bool // RestoreBegin done
	fSnap, fBegin, fCommit atomic.Bool
	window                 bool // restore in two steps with calls running in between (backends implementing resh.Windowed)

	opsDone atomic.Int64
	total   int64
	canSnap bool
}

type logger struct {
	mu sync.Mutex
	ev []event
}

func (l *logger) add(at int64, m M) {
	l.mu.Lock()
	m["at"] = at
	l.ev = append(l.ev, event{at, m})
	l.mu.Unlock()
}

// copyOut returns copies of the logged events; calls that have not returned get res.t = "pending".
func (l *logger) copyOut() []event {
	l.mu.Lock()
	defer l.mu.Unlock()
	out := make([]event, 0, len(l.ev))
	for _, e := range l.ev {
		m := M{}
		for k, v := range e.m {
			m[k] = v
		}
		if m["e"] == "inv" {
			if _, ok := m["res"]; !ok {
				m["res"] = M{"t": "pending", "e": "", "rs": []any{}}
				m["rat"] = 0
			}
		}
		out = append(out, event{e.at, m})
	}
	return out
}

func (h *history) learn(k keyT, v kv) {
	h.mu.Lock()
	if cur, ok := h.latest[k]; ok && cur.present {
		h.old[k] = append(h.old[k], cur)
	}
	h.latest[k] = v
	h.mu.Unlock()
}

func (h *history) known(k keyT) (kv, []kv) {
	h.mu.Lock()
	defer h.mu.Unlock()
	return h.latest[k], append([]kv(nil), h.old[k]...)
}

// call runs fn between an invoke and a return log point.
func (h *history) call(l *logger, g int, op M, gated bool, fn func() M) M {
	if gated {
		h.gate.RLock()
		defer h.gate.RUnlock()
	}
	id := h.seq.Add(1)
	inv := M{"e": "inv", "id": id, "g": g, "op": op}
	l.add(id, inv) // logged before the call so that a call that never returns is on record
	res := fn()
	at := h.seq.Add(1)
	l.mu.Lock()
	inv["res"], inv["rat"] = res, at
	l.mu.Unlock()
	l.add(at, M{"e": "ret", "id": id, "g": g})
	return res
}

func (h *history) write(l *logger, g int, k keyT, uid, pv string, d int, owner *pbresource.ID) {
	own := []any{}
	if owner != nil {
		own = append(own, M{"k": kj(keyOf(owner)), "uid": owner.Uid})
	}
	op := M{"t": "write", "k": kj(k), "uid": uid, "pv": pv, "d": d, "own": own}
	h.call(l, g, op, true, func() M {
		in := &pbresource.Resource{Id: idOf(k, uid), Owner: owner, Version: pv, Metadata: map[string]string{"d": strconv.Itoa(d)}}
		out, err := h.sut.WriteCAS(h.ctx, in)
		if err != nil {
			return result(err, nil)
		}
		h.learn(k, kv{out.Id.Uid, out.Version, true})
		return result(nil, []any{resJ(out)})
	})
}

func (h *history) del(l *logger, g int, k keyT, uid, pv string) {
	op := M{"t": "delete", "k": kj(k), "uid": uid, "pv": pv}
	h.call(l, g, op, true, func() M {
		err := h.sut.DeleteCAS(h.ctx, idOf(k, uid), pv)
		return result(err, nil)
	})
}

func consOf(strong bool) (storage.ReadConsistency, string) {
	if strong {
		return storage.StrongConsistency, "strong"
	}
	return storage.EventualConsistency, "eventual"
}

func (h *history) read(l *logger, g int, k keyT, uid string, strong bool) (kv, bool) {
	c, cs := consOf(strong)
	op := M{"t": "read", "k": kj(k), "uid": uid, "cons": cs}
	var got kv
	var ok bool
	h.call(l, g, op, false, func() M {
		out, err := h.sut.Read(h.ctx, c, idOf(k, uid))
		if err != nil {
			return result(err, nil)
		}
		got, ok = kv{out.Id.Uid, out.Version, true}, true
		if uid == "" {
			h.learn(k, got)
		}
		return result(nil, []any{resJ(out)})
	})
	return got, ok
}

func (h *history) list(l *logger, g int, q queryT, strong bool) {
	c, cs := consOf(strong)
	op := M{"t": "list", "q": q.j(), "cons": cs}
	h.call(l, g, op, false, func() M {
		out, err := h.sut.List(h.ctx, c, utyp, &pbresource.Tenancy{Partition: q.P, Namespace: q.N}, q.Pre)
		if err != nil {
			return result(err, nil)
		}
		return result(nil, resListJ(out))
	})
}

func (h *history) listOwner(l *logger, g int, k keyT, uid string) {
	op := M{"t": "listowner", "k": kj(k), "uid": uid}
	h.call(l, g, op, false, func() M {
		out, err := h.sut.ListByOwner(h.ctx, idOf(k, uid))
		if err != nil {
			return result(err, nil)
		}
		return result(nil, resListJ(out))
	})
}

func (h *history) snapshot(l *logger, g int) {
	h.call(l, g, M{"t": "snapshot"}, false, func() M {
		out, err := h.sut.Snapshot()
		if err != nil {
			return result(err, nil)
		}
		h.snapMu.Lock()
		h.snap, h.hasSnap = out, true
		h.snapMu.Unlock()
		return result(nil, resListJ(out))
	})
}

func (h *history) restore(l *logger, g int) {
	h.snapMu.Lock()
	snap, has := h.snap, h.hasSnap
	h.snapMu.Unlock()
	if !has {
		return
	}
	h.gate.Lock()
	defer h.gate.Unlock()
	h.call(l, g, M{"t": "restore", "rs": resListJ(snap)}, false, func() M {
		return result(h.sut.Restore(snap), nil)
	})
	// everybody's knowledge is stale now; that is the point.
}

// restoreBegin / restoreCommit: the two steps of the storage API's restore with the other goroutines' calls
// (writes included) running in between against the old database; only Restoration.Commit itself is exclusive.
// The calls acknowledged in the window are discarded by the commit, exactly like everything else after the snapshot.
func (h *history) restoreBegin(l *logger, g int) {
	h.snapMu.Lock()
	snap := h.snap
	h.snapMu.Unlock()
	h.call(l, g, M{"t": "rbegin"}, false, func() M {
		err := h.sut.(resh.Windowed).RestoreBegin(snap)
		if err == nil {
			h.snapMu.Lock()
			h.begun = true
			h.snapMu.Unlock()
		}
		return result(err, nil)
	})
}

func (h *history) restoreCommit(l *logger, g int) {
	h.snapMu.Lock()
	snap := h.snap
	h.snapMu.Unlock()
	h.gate.Lock()
	defer h.gate.Unlock()
	h.call(l, g, M{"t": "restore", "rs": resListJ(snap)}, false, func() M {
		h.sut.(resh.Windowed).RestoreCommit()
		return result(nil, nil)
	})
}

func (h *history) state() (hasSnap, begun bool) {
	h.snapMu.Lock()
	defer h.snapMu.Unlock()
	return h.hasSnap, h.begun
}

// phases runs the snapshot / restore steps once each, in order, each as soon as the operation count has
// passed its mark and the previous step has completed.
func (h *history) phases(l *logger, g int, done int64) {
	if !h.canSnap {
		return
	}
	hasSnap, begun := h.state()
	switch {
	case done >= h.total*4/10 && h.fSnap.CompareAndSwap(false, true):
		h.snapshot(l, g)
	case h.window && hasSnap && done >= h.total*13/20 && h.fBegin.CompareAndSwap(false, true):
		h.restoreBegin(l, g)
	case h.window && begun && done >= h.total*16/20 && h.fCommit.CompareAndSwap(false, true):
		h.restoreCommit(l, g)
	case !h.window && hasSnap && done >= h.total*7/10 && h.fCommit.CompareAndSwap(false, true):
		h.restore(l, g)
	}
}

func (h *history) randQuery(r *rand.Rand) queryT {
	t := tenancies[r.Intn(len(tenancies))]
	q := queryT{t[0], t[1], ""}
	if x := r.Intn(100); x >= 85 {
		q.Pre = "ab"
	} else if x >= 55 {
		q.Pre = "a"
	}
	if r.Intn(5) < 2 {
		q.P = "*"
	}
	if r.Intn(5) < 2 {
		q.N = "*"
	}
	return q
}

func (h *history) newUid() string { return "u" + strconv.FormatInt(h.uidc.Add(1), 10) }

func (h *history) worker(g int, r *rand.Rand, n int, l *logger) {
	for i := 0; i < n; i++ {
		k := h.keys[r.Intn(len(h.keys))]
		cur, old := h.known(k)
		pick := func() (string, string) { // (uid, version) a caller might present
			x := r.Intn(100)
			switch {
			case x < 62 && cur.present:
				return cur.uid, cur.ver
			case x < 80 && len(old) > 0:
				o := old[r.Intn(len(old))]
				return o.uid, o.ver
			case x < 86 && cur.present:
				return cur.uid, ""
			case x < 90 && cur.present:
				return h.newUid(), cur.ver
			case x < 93 && len(old) > 0:
				return old[r.Intn(len(old))].uid, "" // re-create under a previously used uid
			}
			return h.newUid(), ""
		}
		owner := func() *pbresource.ID {
			if r.Intn(100) >= 35 {
				return nil
			}
			ok := h.keys[r.Intn(len(h.keys))]
			oc, oo := h.known(ok)
			if oc.uid == "" {
				return nil
			}
			if len(oo) > 0 && r.Intn(4) == 0 {
				return idOf(ok, oo[r.Intn(len(oo))].uid)
			}
			return idOf(ok, oc.uid)
		}
		switch x := r.Intn(100); {
		case x < 30:
			uid, pv := pick()
			h.write(l, g, k, uid, pv, r.Intn(90)+10, owner())
		case x < 42:
			uid, pv := pick()
			h.del(l, g, k, uid, pv)
		case x < 58:
			uid := ""
			if y := r.Intn(10); y < 2 && cur.uid != "" {
				uid = cur.uid
			} else if y == 2 && len(old) > 0 {
				uid = old[r.Intn(len(old))].uid
			}
			h.read(l, g, k, uid, r.Intn(2) == 0)
		case x < 68:
			h.list(l, g, h.randQuery(r), r.Intn(2) == 0)
		case x < 76:
			uid := cur.uid
			if len(old) > 0 && r.Intn(3) == 0 {
				uid = old[r.Intn(len(old))].uid
			}
			if uid == "" {
				uid = "u0"
			}
			h.listOwner(l, g, k, uid)
		default: // read-modify-write, the pattern the docs prescribe
			got, ok := h.read(l, g, k, "", r.Intn(2) == 0)
			i++
			h.opsDone.Add(1)
			if ok {
				if r.Intn(4) == 0 {
					h.del(l, g, k, got.uid, got.ver)
				} else {
					h.write(l, g, k, got.uid, got.ver, r.Intn(90)+10, nil)
				}
			} else {
				h.write(l, g, k, h.newUid(), "", r.Intn(90)+10, owner())
			}
		}
		done := h.opsDone.Add(1)
		h.phases(l, g, done)
	}
}

func (h *history) watcher(w int, r *rand.Rand, l *logger, stop *atomic.Bool) {
	// lagging = a watch that was force-closed (restore) and that this consumer has not Close()d yet: its
	// subscription keeps the publisher's topic buffer referenced while the consumer already re-subscribes,
	// as a slow consumer does. It is closed once the next watch delivered its first event.
	var lagging storage.Watch
	var q queryT
	sameQ := false
	for {
		wid := h.widc.Add(1)
		if !sameQ {
			q = h.randQuery(r)
		}
		sameQ = false
		l.add(h.seq.Add(1), M{"e": "wopen", "w": w, "wid": wid, "q": q.j()})
		watch, err := h.sut.WatchList(h.ctx, utyp, &pbresource.Tenancy{Partition: q.P, Namespace: q.N}, q.Pre)
		if err != nil {
			fatal(2, "WatchList: %v", err)
		}
		need := 0
		for _, f := range h.fence {
			if q.matches(f) {
				need++
			}
		}
		seen := map[keyT]bool{}
		phase, n, limit := "snap", 0, 2+r.Intn(10)
		for {
			ev, err := watch.Next(h.ctx)
			if h.ctx.Err() != nil {
				watch.Close()
				if lagging != nil {
					lagging.Close()
				}
				return
			}
			if err != nil {
				if !errors.Is(err, storage.ErrWatchClosed) {
					fatal(2, "Watch.Next: unexpected error: %v", err)
				}
				l.add(h.seq.Add(1), M{"e": "wev", "w": w, "wid": wid, "ph": phase, "kind": "closed", "r": []any{}})
				if lagging == nil && r.Intn(4) != 0 {
					lagging, watch = watch, nil
					sameQ = r.Intn(4) != 0
				}
				break
			}
			if lagging != nil {
				lagging.Close()
				lagging = nil
			}
			var res *pbresource.Resource
			kind := ""
			switch {
			case ev.GetUpsert() != nil:
				kind, res = "upsert", ev.GetUpsert().GetResource()
			case ev.GetDelete() != nil:
				kind, res = "delete", ev.GetDelete().GetResource()
			case ev.GetEndOfSnapshot() != nil:
				kind = "eos"
			}
			rs := []any{}
			if res != nil {
				rs = append(rs, resJ(res))
			}
			l.add(h.seq.Add(1), M{"e": "wev", "w": w, "wid": wid, "ph": phase, "kind": kind, "r": rs})
			if kind == "eos" {
				phase = "live"
			}
			if res != nil {
				k := keyOf(res.Id)
				out, err := h.sut.Read(h.ctx, storage.EventualConsistency, idOf(k, ""))
				var rr M
				if err != nil {
					rr = result(err, nil)
				} else {
					rr = result(nil, []any{resJ(out)})
				}
				l.add(h.seq.Add(1), M{"e": "wrd", "w": w, "wid": wid, "k": kj(k), "res": rr})
				if kind == "upsert" && k.Name == fenceName {
					seen[k] = true
				}
			}
			if phase == "live" && need > 0 && len(seen) == need {
				l.add(h.seq.Add(1), M{"e": "wdone", "w": w, "wid": wid})
				watch.Close()
				return
			}
			n++
			if phase == "live" && n >= limit && !stop.Load() {
				break // voluntary re-subscription
			}
		}
		if watch != nil {
			watch.Close()
		}
	}
}

type stats struct {
	Histories int            `json:"histories"`
	Events    int            `json:"events"`
	Ops       int            `json:"ops"`
	WatchEv   int            `json:"watch_events"`
	Watches   int            `json:"watches"`
	Restores  int            `json:"restores"`
	Stalls    int            `json:"stalls"`
	Classes   map[string]int `json:"classes"`
	MaxPend   int            `json:"max_pending"`
}

func runHistory(hn int, backend string, seed int64, ops, gN, wN int, seq *atomic.Int64, out *bufio.Writer, st *stats) {
	r := rand.New(rand.NewSource(seed*1000003 + int64(hn)*7919 + 17))
	var sut resh.SUT
	var err error
	switch backend {
	case "inmem":
		sut, err = resh.NewInmem()
	case "store":
		sut, err = resh.NewStore()
	case "raft":
		sut, err = resh.NewRaft()
	default:
		fatal(2, "unknown backend %q", backend)
	}
	if err != nil {
		fatal(2, "backend %s: %v", backend, err)
	}
	ctx, cancel := context.WithCancel(context.Background())
	h := &history{sut: sut, seq: seq, ctx: ctx, latest: map[keyT]kv{}, old: map[keyT][]kv{}, canSnap: backend != "inmem"}
	if _, ok := sut.(resh.Windowed); ok && r.Intn(4) != 0 {
		h.window = true
	}
	// 3..5 contended keys out of 9
	var all []keyT
	for _, t := range tenancies {
		for _, n := range names {
			all = append(all, keyT{t[0], t[1], n})
		}
	}
	r.Shuffle(len(all), func(i, j int) { all[i], all[j] = all[j], all[i] })
	h.keys = all[:3+r.Intn(3)]
	for _, t := range tenancies {
		h.fence = append(h.fence, keyT{t[0], t[1], fenceName})
	}
	if gN == 0 {
		gN = 4 + r.Intn(5)
	}
	if wN == 0 {
		wN = 1 + r.Intn(2)
	}
	per := ops / gN
	if per < 1 {
		per = 1
	}
	h.total = int64(per * gN)

	logs := make([]*logger, gN+wN+1)
	for i := range logs {
		logs[i] = &logger{}
	}
	var wwg, gwg sync.WaitGroup
	var stop atomic.Bool
	for w := 0; w < wN; w++ {
		wwg.Add(1)
		wr := rand.New(rand.NewSource(r.Int63()))
		go func(w int) { defer wwg.Done(); h.watcher(100+w, wr, logs[gN+w], &stop) }(w)
	}
	for g := 0; g < gN; g++ {
		gwg.Add(1)
		gr := rand.New(rand.NewSource(r.Int63()))
		go func(g int) { defer gwg.Done(); h.worker(g, gr, per, logs[g]) }(g)
	}
	finished := make(chan struct{})
	go func() {
		gwg.Wait()
		if _, begun := h.state(); h.window && begun && h.fCommit.CompareAndSwap(false, true) {
			h.restoreCommit(logs[gN+wN], 99) // the window stayed open until the workers were done
		}
		stop.Store(true)
		// fence writes: the last events of every tenancy; watchers stop once they have seen them
		ml := logs[gN+wN]
		for _, f := range h.fence {
			h.write(ml, 99, f, h.newUid(), "", 1, nil)
		}
		wwg.Wait()
		close(finished)
	}()
	// watchdog: no log point taken anywhere for stallAfter => the run is stuck (deadlock, lost event);
	// the history is written out as it stands, ending with a "stall" event, and abandoned.
	stalled := false
	last, since := seq.Load(), time.Now()
wait:
	for {
		select {
		case <-finished:
			break wait
		case <-time.After(100 * time.Millisecond):
			if cur := seq.Load(); cur != last {
				last, since = cur, time.Now()
			} else if time.Since(since) > stallAfter {
				stalled = true
				break wait
			}
		}
	}
	cancel()
	if !stalled {
		sut.Close()
	}

	var evs []event
	for _, l := range logs {
		evs = append(evs, l.copyOut()...)
	}
	if stalled {
		pending := []any{}
		for _, e := range evs {
			if e.m["e"] == "inv" && e.m["res"].(M)["t"] == "pending" {
				pending = append(pending, e.m["id"])
			}
		}
		at := seq.Add(1)
		evs = append(evs, event{at, M{"e": "stall", "at": at, "pending": pending, "after_s": int(stallAfter.Seconds())}})
		st.Stalls++
	}
	writeHistory(hn, backend, gN, wN, h, evs, out, st)
}

func writeHistory(hn int, backend string, gN, wN int, h *history, evs []event, out *bufio.Writer, st *stats) {
	sort.Slice(evs, func(i, j int) bool { return evs[i].at < evs[j].at })

	// history header: keys and the watch instances with their initial listings
	type wd struct {
		q     any
		snap  []any
		eos   bool
		first int64
		live  []any
		seenK map[string]bool
		nlive int
	}
	decl := map[int64]*wd{}
	var order []int64
	pend, maxPend := 0, 0
	for _, e := range evs {
		switch e.m["e"] {
		case "wopen":
			id := e.m["wid"].(int64)
			decl[id] = &wd{q: e.m["q"], snap: []any{}, live: []any{}, seenK: map[string]bool{}}
			order = append(order, id)
		case "wev":
			d := decl[e.m["wid"].(int64)]
			if d.first == 0 {
				d.first = e.at
			}
			if e.m["ph"] == "live" && (e.m["kind"] == "upsert" || e.m["kind"] == "delete") {
				r0 := e.m["r"].([]any)[0].(M)
				kb, _ := json.Marshal(r0["k"])
				d.nlive++
				if !d.seenK[string(kb)] {
					d.seenK[string(kb)] = true
					d.live = append(d.live, M{"k": r0["k"], "kind": e.m["kind"], "ver": r0["ver"]})
				}
			}
			if e.m["ph"] == "snap" {
				if e.m["kind"] == "eos" {
					d.eos = true
				} else if e.m["kind"] == "upsert" {
					d.snap = append(d.snap, e.m["r"].([]any)[0])
				}
			}
			st.WatchEv++
		case "inv":
			pend++
			if pend > maxPend {
				maxPend = pend
			}
			st.Ops++
			op, res := e.m["op"].(M), e.m["res"].(M)
			c := op["t"].(string) + "/" + res["t"].(string)
			if res["e"] != "" {
				c += ":" + res["e"].(string)
			}
			st.Classes[c]++
			if op["t"] == "restore" {
				st.Restores++
			}
		case "ret":
			pend--
		}
	}
	if maxPend > st.MaxPend {
		st.MaxPend = maxPend
	}
	wl := []any{}
	for _, id := range order {
		d := decl[id]
		wl = append(wl, M{"wid": id, "q": d.q, "snap": d.snap, "eos": d.eos, "first": d.first, "live": d.live, "nlive": d.nlive})
	}
	var keys []any
	for _, k := range append(append([]keyT{}, h.keys...), h.fence...) {
		keys = append(keys, kj(k))
	}
	emit := func(m M) {
		b, err := json.Marshal(m)
		if err != nil {
			fatal(2, "marshal: %v", err)
		}
		out.Write(b)
		out.WriteByte('\n')
		st.Events++
	}
	emit(M{"e": "reset", "h": hn, "backend": backend, "g": gN, "watchers": wN, "keys": keys, "watches": wl})
	for _, e := range evs {
		emit(e.m)
	}
	st.Histories++
	st.Watches += len(order)
}

// scenario runs a fixed SEQUENTIAL script (one goroutine, same recording) - used for minimal replays of findings.
//
//	publish-gap:   (inmem.Store whose publisher goroutine is started late = a slow publisher) two writes of X; watch
//	               opened; publisher starts; the listing; whatever the watch delivers within 300ms.
//	restore-window: watch A open; write X; snapshot; Store.Restore()+Apply; write X again (acknowledged, will be
//	               discarded); Restoration.Commit(); A force-closed but not Close()d; watch B; B's listing and whatever
//	               follows; a real write after the restore; what B delivers; B declares itself done.
//	restore-stale: watch A open; write X; snapshot; write X again; restore; watch B opened while A's
//	               subscription still exists; B's listing; then whatever B delivers within 300ms.
func scenario(name, backend string, hn int, seq *atomic.Int64, out *bufio.Writer, st *stats) {
	if name != "restore-stale" && name != "publish-gap" && name != "restore-window" {
		fatal(2, "unknown scenario %q", name)
	}
	var sut resh.SUT
	var err error
	startPublisher := func() {}
	if name == "publish-gap" {
		backend = "store-late-run"
	}
	switch backend {
	case "store-late-run":
		sut, startPublisher, err = resh.NewStoreLateRun()
	case "store":
		sut, err = resh.NewStore()
	case "raft":
		sut, err = resh.NewRaft()
	default:
		fatal(2, "scenario %s needs backend store or raft", name)
	}
	if err != nil {
		fatal(2, "backend %s: %v", backend, err)
	}
	ctx, cancel := context.WithCancel(context.Background())
	defer cancel()
	h := &history{sut: sut, seq: seq, ctx: ctx, latest: map[keyT]kv{}, old: map[keyT][]kv{}, canSnap: true}
	x := keyT{"default", "default", "a"}
	h.keys = []keyT{x}
	l := &logger{}
	q := queryT{"*", "*", ""}
	type wst struct {
		w     storage.Watch
		wid   int64
		phase string
	}
	open := func(w int) *wst {
		wid := h.widc.Add(1)
		l.add(seq.Add(1), M{"e": "wopen", "w": w, "wid": wid, "q": q.j()})
		wa, err := sut.WatchList(ctx, utyp, &pbresource.Tenancy{Partition: q.P, Namespace: q.N}, q.Pre)
		if err != nil {
			fatal(2, "WatchList: %v", err)
		}
		return &wst{wa, wid, "snap"}
	}
	next := func(w int, ws *wst, wait time.Duration) bool {
		c, cc := context.WithTimeout(ctx, wait)
		defer cc()
		ev, err := ws.w.Next(c)
		if err != nil {
			if errors.Is(err, storage.ErrWatchClosed) {
				l.add(seq.Add(1), M{"e": "wev", "w": w, "wid": ws.wid, "ph": ws.phase, "kind": "closed", "r": []any{}})
				return true
			}
			return false // nothing delivered within the wait
		}
		var res *pbresource.Resource
		kind := "eos"
		if ev.GetUpsert() != nil {
			kind, res = "upsert", ev.GetUpsert().GetResource()
		} else if ev.GetDelete() != nil {
			kind, res = "delete", ev.GetDelete().GetResource()
		}
		rs := []any{}
		if res != nil {
			rs = append(rs, resJ(res))
		}
		l.add(seq.Add(1), M{"e": "wev", "w": w, "wid": ws.wid, "ph": ws.phase, "kind": kind, "r": rs})
		if kind == "eos" {
			ws.phase = "live"
		}
		if res != nil {
			k := keyOf(res.Id)
			o, err := sut.Read(ctx, storage.EventualConsistency, idOf(k, ""))
			rr := result(err, nil)
			if err == nil {
				rr = result(nil, []any{resJ(o)})
			}
			l.add(seq.Add(1), M{"e": "wrd", "w": w, "wid": ws.wid, "k": kj(k), "res": rr})
		}
		return true
	}
	if name == "publish-gap" {
		// two committed writes whose events the publisher has not picked up yet; a watch opened now lists the
		// second version; then the publisher runs.
		h.write(l, 0, x, "u1", "", 11, nil)
		cur, _ := h.known(x)
		h.write(l, 0, x, "u1", cur.ver, 22, nil)
		done := make(chan *wst)
		go func() { done <- open(100) }() // Subscribe needs nothing from the publisher goroutine
		a := <-done
		startPublisher()
		next(100, a, 5*time.Second) // listing: X second version
		next(100, a, 5*time.Second) // eos
		for next(100, a, 300*time.Millisecond) {
		}
		a.w.Close()
		sut.Close()
		writeHistory(hn, "store/"+name, 1, 1, h, l.copyOut(), out, st)
		return
	}
	if name == "restore-window" {
		// a write acknowledged between Store.Restore() and Restoration.Commit(): it is discarded by the commit;
		// nobody may be told about it afterwards, and what happens after the restore must still be delivered.
		if _, ok := sut.(resh.Windowed); !ok {
			fatal(2, "scenario %s needs backend store", name)
		}
		a := open(100)
		next(100, a, 5*time.Second) // eos
		h.write(l, 0, x, "u1", "", 11, nil)
		next(100, a, 5*time.Second) // X first version
		h.snapshot(l, 0)
		h.restoreBegin(l, 0)
		cur, _ := h.known(x)
		h.write(l, 0, x, "u1", cur.ver, 22, nil) // in the window
		next(100, a, 5*time.Second)              // A is told (old timeline, fine)
		h.restoreCommit(l, 0)
		next(100, a, 5*time.Second) // closed; A not Close()d yet
		b := open(101)
		next(101, b, 5*time.Second) // listing: X first version
		next(101, b, 5*time.Second) // eos
		for next(101, b, 300*time.Millisecond) {
		}
		rv, ok := h.read(l, 0, x, "", true)
		if ok {
			h.write(l, 0, x, rv.uid, rv.ver, 33, nil) // a real write after the restore
		}
		next(101, b, 10*time.Second) // B must be told
		for next(101, b, 300*time.Millisecond) {
		}
		l.add(seq.Add(1), M{"e": "wdone", "w": 101, "wid": b.wid})
		a.w.Close()
		b.w.Close()
		sut.Close()
		writeHistory(hn, backend+"/"+name, 1, 2, h, l.copyOut(), out, st)
		return
	}
	a := open(100)
	next(100, a, 5*time.Second) // eos
	h.write(l, 0, x, "u1", "", 11, nil)
	next(100, a, 5*time.Second)
	h.snapshot(l, 0)
	cur, _ := h.known(x)
	h.write(l, 0, x, "u1", cur.ver, 22, nil)
	next(100, a, 5*time.Second)
	h.restore(l, 0)
	next(100, a, 5*time.Second) // closed; A is deliberately not Close()d yet: its subscription keeps the topic buffer
	b := open(101)
	next(101, b, 5*time.Second) // listing: X as restored
	next(101, b, 5*time.Second) // eos
	for next(101, b, 300*time.Millisecond) {
	}
	a.w.Close()
	b.w.Close()
	sut.Close()
	h.keys = []keyT{x}
	writeHistory(hn, backend+"/"+name, 1, 2, h, l.copyOut(), out, st)
}

func main() {
	backend := flag.String("backend", "inmem", "inmem | store | raft")
	seed := flag.Int64("seed", 1, "seed")
	n := flag.Int("n", 1, "histories")
	ops := flag.Int("ops", 60, "operations per history (all worker goroutines together)")
	g := flag.Int("g", 0, "worker goroutines (0 = 4..8 at random)")
	w := flag.Int("watchers", 0, "watcher goroutines (0 = 1..2 at random)")
	first := flag.Int("first", 0, "number of the first history")
	outp := flag.String("out", "", "output ndjson")
	stall := flag.Int("stall", 30, "seconds without any progress after which a history is recorded as stalled")
	scen := flag.String("scenario", "", "run a fixed sequential script instead of random histories (restore-stale | restore-window | publish-gap)")
	flag.Parse()
	if *outp == "" {
		fatal(2, "-out required")
	}
	stallAfter = time.Duration(*stall) * time.Second
	f, err := os.Create(*outp)
	if err != nil {
		fatal(2, "%v", err)
	}
	out := bufio.NewWriter(f)
	var seq atomic.Int64
	st := &stats{Classes: map[string]int{}}
	if *scen != "" {
		scenario(*scen, *backend, *first, &seq, out, st)
		*n = 0
	}
	for i := 0; i < *n; i++ {
		runHistory(*first+i, *backend, *seed, *ops, *g, *w, &seq, out, st)
	}
	if err := out.Flush(); err != nil {
		fatal(2, "%v", err)
	}
	f.Close()
	b, _ := json.Marshal(st)
	fmt.Println(string(b))
}
