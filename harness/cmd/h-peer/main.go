// h-peer executes abstract commands of spec/Peering.tla against the real peering importer /
// exporter code and records one NDJSON event per command:
//
//	{b, k, cmd, res, pre?, post, csn?, svclist?}     (b, k = behaviour and step number)
//
// It decides nothing; spec/PeeringTrace.tla (TLC) judges the events.
//
// End-to-end behaviours (commands xcfg / xreg / xdereg) run a real exporting cluster and a real
// importing cluster joined by a stream; their events carry additionally
//
//	{xpre?, xcat, xcfg, settle, wire}   (exporter's catalog / stored config entry, settle facts)
//
//	h-peer replay -in behaviours.json -out trace.ndjson [-fault kind]
//	h-peer random -seed S -n N -len L -out trace.ndjson [-profile import|export|e2e]
package main

import (
	"bufio"
	"crypto/sha1"
	"encoding/json"
	"flag"
	"fmt"
	"math/rand"
	"os"
	"sort"

	ph "github.com/hashicorp/consul/verifharness/internal/peerh"
)

type M = map[string]any

type recorder struct {
	w      *bufio.Writer
	events int
}

func (r *recorder) emit(ev M) {
	b, err := json.Marshal(ev)
	if err != nil {
		fatal("marshal: %v", err)
	}
	r.w.Write(b)
	r.w.WriteByte('\n')
	r.events++
}

func fatal(f string, a ...any) {
	fmt.Fprintf(os.Stderr, f+"\n", a...)
	os.Exit(3)
}

func emptyCat() M { return M{"nodes": []M{}, "svcs": []M{}, "chks": []M{}, "rest": []M{}} }

// peersOf lists the peer names a behaviour mentions; their peerings exist before the first command.
func peersOf(beh []M) []string {
	set := map[string]bool{}
	for _, c := range beh {
		if p := ph.Str(c["peer"]); p != "" {
			set[p] = true
		}
		if rows, ok := c["rows"].(map[string]any); ok {
			for _, k := range []string{"nodes", "svcs", "chks"} {
				for _, r := range ph.List(rows[k]) {
					if p := ph.Str(r.(map[string]any)["peer"]); p != "" {
						set[p] = true
					}
				}
			}
		}
	}
	out := []string{}
	for p := range set {
		out = append(out, p)
	}
	sort.Strings(out)
	return out
}

// run executes one behaviour on a fresh world. With a non-nil `seen` set, events of a command
// prefix that an earlier behaviour already recorded are executed but not recorded again (TLC's
// edge-mode generation yields one behaviour per transition; their common prefixes are judged once).
func run(bi int, beh []M, rec *recorder, fault ph.Fault, seen map[string]bool) {
	var w *ph.World
	first := true
	prefix := ""
	for ki, c := range beh {
		skip := false
		if seen != nil {
			b, _ := json.Marshal(c)
			prefix += string(b) + "\n"
			h := sha1.Sum([]byte(prefix))
			k := string(h[:])
			skip = seen[k]
			seen[k] = true
		}
		t := ph.Str(c["t"])
		if t == "export" {
			res := ph.Export(c, fault)
			if skip {
				continue
			}
			rec.emit(M{"b": bi, "k": ki, "cmd": c, "res": res, "pre": emptyCat(), "post": emptyCat()})
			continue
		}
		if w == nil {
			var err error
			w, err = ph.NewWorld(peersOf(beh))
			if err != nil {
				fatal("world: %v", err)
			}
			w.Fault = fault
		}
		ev := M{"b": bi, "k": ki, "cmd": c}
		if first && !skip {
			ev["pre"] = w.Catalog()
			first = false
		}
		switch t {
		case "seed":
			ev["res"] = w.Seed(c)
		case "upd":
			ev["res"] = w.Update(c)
			csn, err := w.CSN(ph.Str(c["svc"]), ph.Str(c["peer"]))
			if err != nil {
				ev["csnerr"] = err.Error()
			}
			ev["csn"] = csn
		case "list":
			ev["res"] = w.ExportList(c)
			ev["svclist"] = w.ServiceList(ph.Str(c["peer"]))
		default:
			fatal("unknown command %v", c["t"])
		}
		if skip {
			first = true // the next recorded event of this behaviour must carry its own pre-state
			continue
		}
		ev["post"] = w.Catalog()
		rec.emit(ev)
	}
}

func isE2E(beh []M) bool {
	for _, c := range beh {
		switch ph.Str(c["t"]) {
		case "xcfg", "xreg", "xdereg":
			return true
		}
	}
	return false
}

// runE2E executes one end-to-end behaviour: seed (importer's own rows + exporter's initial local
// catalog), open the stream, then one settled observation per command.
func runE2E(bi int, beh []M, rec *recorder) {
	peer, consumer := "p1", "c1"
	for _, c := range beh {
		if p := ph.Str(c["peer"]); p != "" {
			peer = p
		}
		if p := ph.Str(c["consumer"]); p != "" {
			consumer = p
		}
	}
	e, err := ph.NewE2E(peer, consumer, peersOf(beh))
	if err != nil {
		fatal("e2e world: %v", err)
	}
	defer e.Close()
	opened := false
	for ki, c := range beh {
		ev := M{"b": bi, "k": ki, "cmd": c}
		if ki == 0 {
			ev["pre"] = e.I.Catalog()
			ev["xpre"] = e.X.Catalog()
		}
		switch ph.Str(c["t"]) {
		case "seed":
			res := e.I.Seed(c)
			for _, x := range ph.List(c["xrows"]) {
				if r := e.XRegister(x.(map[string]any)); r["ok"] != true {
					res = r
				}
			}
			ev["res"] = res
		case "xcfg":
			ev["res"] = e.XConfig(c)
		case "xreg":
			ev["res"] = e.XRegister(c)
		case "xdereg":
			ev["res"] = e.XDeregister(c)
		default:
			fatal("command %v cannot be mixed into an end-to-end behaviour", c["t"])
		}
		if !opened {
			e.Open()
			opened = true
		}
		ev["settle"] = e.WaitSettled(ki == len(beh)-1)
		ev["wire"] = e.Facts()
		ev["xcfg"] = e.XConfigRead()
		ev["xcat"] = e.X.Catalog()
		ev["post"] = e.I.Catalog()
		rec.emit(ev)
	}
}

func replay(in, out string, fault ph.Fault) {
	raw, err := os.ReadFile(in)
	if err != nil {
		fatal("%v", err)
	}
	var behs [][]M
	if err := json.Unmarshal(raw, &behs); err != nil {
		fatal("decode %s: %v", in, err)
	}
	f, err := os.Create(out)
	if err != nil {
		fatal("%v", err)
	}
	rec := &recorder{w: bufio.NewWriterSize(f, 1<<20)}
	seen := map[string]bool{}
	for bi, b := range behs {
		if isE2E(b) {
			runE2E(bi, b, rec)
			continue
		}
		run(bi, b, rec, fault, seen)
	}
	rec.w.Flush()
	f.Close()
	json.NewEncoder(os.Stdout).Encode(M{"behaviours": len(behs), "events": rec.events})
}

// ---------------------------------------------------------------- random driver
//
// A model of one EXPORTING cluster per peer (nodes with address and node checks, service
// instances with service checks) is mutated at random; every now and then the current state of
// one service is sent to the importer as a snapshot, so successive snapshots of a service differ
// by many changes at once, services lag behind each other, instances move between nodes, nodes
// are shared between services and sidecar proxies live on gateway nodes.

type xinst struct {
	svc, id, node string
	ver           string
	schk          map[string]string
}
type xnode struct {
	addr string
	nchk map[string]string
}
type xworld struct {
	nodes map[string]*xnode
	insts []*xinst
}

type gen struct {
	r      *rand.Rand
	peers  []string
	nodes  []string
	svcs   []string
	worlds map[string]*xworld
}

func (g *gen) pick(l []string) string { return l[g.r.Intn(len(l))] }
func (g *gen) st() string {
	if g.r.Intn(3) == 0 {
		return "critical"
	}
	return "passing"
}

func sortedKeys(m map[string]string) []string {
	ks := []string{}
	for k := range m {
		ks = append(ks, k)
	}
	sort.Strings(ks)
	return ks
}

func chkList(m map[string]string) []any {
	out := []any{}
	for _, k := range sortedKeys(m) {
		out = append(out, M{"cid": k, "st": m[k]})
	}
	return out
}

func (g *gen) world(p string) *xworld {
	w := g.worlds[p]
	if w == nil {
		w = &xworld{nodes: map[string]*xnode{}}
		g.worlds[p] = w
	}
	return w
}

func (w *xworld) node(g *gen, n string) *xnode {
	x := w.nodes[n]
	if x == nil {
		x = &xnode{addr: fmt.Sprintf("10.1.%d.%d", g.r.Intn(3), 1+g.r.Intn(3)), nchk: map[string]string{}}
		w.nodes[n] = x
	}
	return x
}

func (g *gen) mutate(p string) {
	w := g.world(p)
	switch k := g.r.Intn(12); {
	case k < 4: // add (or re-add) an instance somewhere
		svc := g.pick(g.svcs)
		id := fmt.Sprintf("%s-%d", svc, 1+g.r.Intn(3))
		n := g.pick(g.nodes)
		w.node(g, n)
		for _, i := range w.insts {
			if i.id == id && i.node == n {
				i.ver = g.pick([]string{"1", "2", "3"})
				return
			}
		}
		w.insts = append(w.insts, &xinst{svc: svc, id: id, node: n, ver: g.pick([]string{"1", "2", "3"}), schk: map[string]string{}})
	case k < 6: // remove an instance
		if len(w.insts) > 0 {
			i := g.r.Intn(len(w.insts))
			w.insts = append(w.insts[:i], w.insts[i+1:]...)
		}
	case k == 6: // move an instance to another node
		if len(w.insts) > 0 {
			i := w.insts[g.r.Intn(len(w.insts))]
			n := g.pick(g.nodes)
			for _, j := range w.insts {
				if j != i && j.id == i.id && j.node == n {
					return
				}
			}
			w.node(g, n)
			i.node = n
		}
	case k == 7: // node address change
		if len(w.nodes) > 0 {
			w.node(g, g.pick(g.nodes)).addr = fmt.Sprintf("10.1.%d.%d", g.r.Intn(3), 1+g.r.Intn(3))
		}
	case k == 8: // node check appears / changes / disappears
		x := w.node(g, g.pick(g.nodes))
		cid := g.pick([]string{"serfHealth", "nc2"})
		if _, ok := x.nchk[cid]; ok && g.r.Intn(2) == 0 {
			delete(x.nchk, cid)
		} else {
			x.nchk[cid] = g.st()
		}
	case k < 11: // service check appears / changes / disappears
		if len(w.insts) > 0 {
			i := w.insts[g.r.Intn(len(w.insts))]
			cid := i.id + g.pick([]string{":a", ":b"})
			if _, ok := i.schk[cid]; ok && g.r.Intn(2) == 0 {
				delete(i.schk, cid)
			} else {
				i.schk[cid] = g.st()
			}
		}
	default: // a whole node goes away
		n := g.pick(g.nodes)
		delete(w.nodes, n)
		keep := w.insts[:0]
		for _, i := range w.insts {
			if i.node != n {
				keep = append(keep, i)
			}
		}
		w.insts = keep
	}
}

func (g *gen) snapshot(p, svc string) []any {
	w := g.world(p)
	byNode := map[string][]*xinst{}
	for _, i := range w.insts {
		if i.svc == svc {
			byNode[i.node] = append(byNode[i.node], i)
		}
	}
	ns := []string{}
	for n := range byNode {
		ns = append(ns, n)
	}
	sort.Strings(ns)
	out := []any{}
	for _, n := range ns {
		insts := byNode[n]
		sort.Slice(insts, func(a, b int) bool { return insts[a].id < insts[b].id })
		il := []any{}
		for _, i := range insts {
			il = append(il, M{"id": i.id, "ver": i.ver, "schk": chkList(i.schk)})
		}
		x := w.node(g, n)
		out = append(out, M{"node": n, "addr": x.addr, "nchk": chkList(x.nchk), "insts": il})
	}
	return out
}

func (g *gen) seedRows() M {
	nodes, svcs, chks := []any{}, []any{}, []any{}
	for _, p := range []string{"", g.peers[len(g.peers)-1]} {
		for _, n := range g.nodes {
			if g.r.Intn(3) == 0 {
				continue
			}
			nodes = append(nodes, M{"peer": p, "node": n, "addr": "10.9.0.1"})
			chks = append(chks, M{"peer": p, "node": n, "cid": "serfHealth", "sid": "", "st": "passing"})
			for _, s := range g.svcs {
				if g.r.Intn(2) == 0 {
					id := s + "-1"
					svcs = append(svcs, M{"peer": p, "node": n, "id": id, "name": s, "ver": "7"})
					chks = append(chks, M{"peer": p, "node": n, "cid": id + ":a", "sid": id, "st": "passing"})
				}
			}
		}
	}
	return M{"nodes": nodes, "svcs": svcs, "chks": chks}
}

func (g *gen) behaviour(length int) []M {
	g.worlds = map[string]*xworld{}
	beh := []M{{"t": "seed", "rows": g.seedRows(), "gw": g.r.Intn(2) == 0}}
	for len(beh) < length {
		p := g.pick(g.peers)
		for k := g.r.Intn(4); k >= 0; k-- {
			g.mutate(p)
		}
		switch k := g.r.Intn(10); {
		case k < 7:
			svc := g.pick(g.svcs)
			beh = append(beh, M{"t": "upd", "peer": p, "svc": svc, "snap": g.snapshot(p, svc)})
		case k == 7: // the deletion form
			svc := g.pick(g.svcs)
			w := g.world(p)
			keep := w.insts[:0]
			for _, i := range w.insts {
				if i.svc != svc {
					keep = append(keep, i)
				}
			}
			w.insts = keep
			beh = append(beh, M{"t": "upd", "peer": p, "svc": svc, "snap": []any{}, "nil": g.r.Intn(2) == 0})
		default:
			names := []any{}
			twin := M{}
			for _, s := range append([]string{"ghost"}, g.svcs...) {
				if len(s) > len(ph.SidecarSuffix) && s[len(s)-len(ph.SidecarSuffix):] == ph.SidecarSuffix {
					continue
				}
				if g.r.Intn(2) == 0 {
					names = append(names, s)
				}
				twin[s] = s + ph.SidecarSuffix
			}
			// the exporter stops exporting: its instances stay, the importer must forget them
			beh = append(beh, M{"t": "list", "peer": p, "names": names, "twin": twin})
		}
	}
	return beh
}

func (g *gen) export() []M {
	names := []string{"web", "api", "db", "consul", "*", "web" + ph.SidecarSuffix}
	peers := []string{"p1", "p2", "p3", "p10"}
	cfg := []any{}
	for k := g.r.Intn(5); k > 0; k-- {
		ps := []any{}
		for _, p := range peers {
			if g.r.Intn(3) == 0 {
				ps = append(ps, p)
			}
		}
		if len(ps) == 0 {
			ps = append(ps, g.pick(peers))
		}
		cfg = append(cfg, M{"name": g.pick(names), "peers": ps})
	}
	lsvcs := []any{}
	for _, n := range []string{"web", "api", "db", "consul", "cache"} {
		if g.r.Intn(2) == 0 {
			lsvcs = append(lsvcs, M{"name": n, "kind": ""})
		}
	}
	if g.r.Intn(2) == 0 {
		lsvcs = append(lsvcs, M{"name": "web" + ph.SidecarSuffix, "kind": "connect-proxy"})
	}
	if g.r.Intn(3) == 0 {
		lsvcs = append(lsvcs, M{"name": "mgw", "kind": "mesh-gateway"})
	}
	res := []any{}
	for _, n := range []string{"api", "db", "chainonly"} {
		if g.r.Intn(4) == 0 {
			res = append(res, n)
		}
	}
	return []M{{"t": "export", "cfg": cfg, "lsvcs": lsvcs, "resolvers": res, "peer": g.pick(peers[:3])}}
}

// ---------------------------------------------------------------- end-to-end random driver
//
// One exported-services write replaces the whole Services list: add one, remove one, swap
// (remove some, add at least as many), arbitrary replacement, wildcard on / off, consumers of
// other peers mixed in. After a write that un-exported something the next command is, most of the
// time, a catalog change of an un-exported service (new instance, health or version change,
// deregistration) while the stream stays open.

type einst struct{ svc, node, id, ver, st string }

type egen struct {
	g     *gen
	svcs  []string
	nodes []string
	exact map[string]bool // exported by name to c1
	wild  bool
	insts map[string]*einst // key node/id
	nst   map[string]string // node check per node
	chase []string
}

func (e *egen) eff() map[string]bool {
	out := map[string]bool{}
	for s := range e.exact {
		out[s] = true
	}
	if e.wild {
		for _, i := range e.insts {
			out[i.svc] = true
		}
	}
	return out
}

func (e *egen) cfgCmd() M {
	r := e.g.r
	before := e.eff()
	names := append([]string{}, e.svcs...)
	cur := []string{}
	rest := []string{}
	for _, s := range names {
		if e.exact[s] {
			cur = append(cur, s)
		} else {
			rest = append(rest, s)
		}
	}
	r.Shuffle(len(cur), func(i, j int) { cur[i], cur[j] = cur[j], cur[i] })
	r.Shuffle(len(rest), func(i, j int) { rest[i], rest[j] = rest[j], rest[i] })
	switch k := r.Intn(10); {
	case k < 2 && len(rest) > 0: // add one
		e.exact[rest[0]] = true
	case k < 4 && len(cur) > 0: // remove one
		delete(e.exact, cur[0])
	case k < 7 && len(cur) > 0 && len(rest) > 0: // swap: remove m, add at least m
		m := 1 + r.Intn(len(cur))
		if m > len(rest) {
			m = len(rest)
		}
		add := m + r.Intn(len(rest)-m+1)
		for _, s := range cur[:m] {
			delete(e.exact, s)
		}
		for _, s := range rest[:add] {
			e.exact[s] = true
		}
	case k < 8: // wildcard on / off
		e.wild = !e.wild
	default: // arbitrary replacement
		e.exact = map[string]bool{}
		for _, s := range names {
			if r.Intn(2) == 0 {
				e.exact[s] = true
			}
		}
	}
	after := e.eff()
	e.chase = nil
	for s := range before {
		if !after[s] {
			e.chase = append(e.chase, s)
		}
	}
	sort.Strings(e.chase)
	cfg := []any{}
	ex := []string{}
	for s := range e.exact {
		ex = append(ex, s)
	}
	sort.Strings(ex)
	for _, s := range ex {
		ps := []any{"c1"}
		if r.Intn(3) == 0 {
			ps = append(ps, "c2")
		}
		cfg = append(cfg, M{"name": s, "peers": ps})
	}
	if e.wild {
		cfg = append(cfg, M{"name": "*", "peers": []any{"c1"}})
	}
	for _, s := range names { // entries that name only the other consumer
		if !e.exact[s] && r.Intn(3) == 0 {
			cfg = append(cfg, M{"name": s, "peers": []any{"c2"}})
		}
	}
	r.Shuffle(len(cfg), func(i, j int) { cfg[i], cfg[j] = cfg[j], cfg[i] })
	return M{"t": "xcfg", "peer": "p1", "consumer": "c1", "cfg": cfg}
}

func (e *egen) regCmd(svc string) M {
	r := e.g.r
	n := e.g.pick(e.nodes)
	id := fmt.Sprintf("%s-%d", svc, 1+r.Intn(2))
	key := n + "/" + id
	i := e.insts[key]
	if i != nil && r.Intn(4) == 0 {
		delete(e.insts, key)
		return M{"t": "xdereg", "peer": "p1", "consumer": "c1", "node": n, "id": id, "name": svc}
	}
	if i == nil {
		i = &einst{svc: svc, node: n, id: id, ver: "1", st: "passing"}
		e.insts[key] = i
	} else if r.Intn(2) == 0 {
		i.ver = e.g.pick([]string{"1", "2", "3"})
	}
	i.st = e.g.pick([]string{"passing", "critical", "warning", "none"})
	if r.Intn(4) == 0 {
		e.nst[n] = e.g.pick([]string{"passing", "critical", "none"})
	}
	if e.nst[n] == "" {
		e.nst[n] = "none"
	}
	return M{"t": "xreg", "peer": "p1", "consumer": "c1", "node": n, "addr": "10.2.0." + n[1:], "id": id, "name": svc, "cid": id + ":c", "ver": i.ver, "st": i.st, "nst": e.nst[n]}
}

func (g *gen) e2eBehaviour(length int) []M {
	e := &egen{g: g, svcs: []string{"web", "api", "db", "cache"}, nodes: []string{"n1", "n2", "n3"},
		exact: map[string]bool{}, insts: map[string]*einst{}, nst: map[string]string{}}
	xrows := []any{}
	for _, s := range e.svcs {
		if g.r.Intn(4) > 0 {
			c := e.regCmd(s)
			if c["t"] == "xreg" {
				xrows = append(xrows, c)
			}
		}
	}
	beh := []M{{"t": "seed", "rows": g.seedRows(), "xrows": xrows, "peer": "p1", "consumer": "c1"}}
	for len(beh) < length {
		switch {
		case len(e.chase) > 0 && g.r.Intn(5) > 0:
			s := g.pick(e.chase)
			e.chase = nil
			beh = append(beh, e.regCmd(s))
		case g.r.Intn(5) < 2:
			beh = append(beh, e.regCmd(g.pick(e.svcs)))
		default:
			beh = append(beh, e.cfgCmd())
		}
	}
	return beh
}

func random(seed int64, n, length int, profile, out string) {
	f, err := os.Create(out)
	if err != nil {
		fatal("%v", err)
	}
	rec := &recorder{w: bufio.NewWriterSize(f, 1<<20)}
	g := &gen{r: rand.New(rand.NewSource(seed)),
		peers: []string{"p1", "p2", "p3"},
		nodes: []string{"n1", "n2", "n3", "gw1"},
		svcs:  []string{"web", "api", "db", "web" + ph.SidecarSuffix, "api" + ph.SidecarSuffix}}
	for i := 0; i < n; i++ {
		if profile == "export" {
			run(i, g.export(), rec, ph.FaultNone, nil)
		} else if profile == "e2e" {
			runE2E(i, g.e2eBehaviour(length), rec)
		} else {
			run(i, g.behaviour(length), rec, ph.FaultNone, nil)
		}
	}
	rec.w.Flush()
	f.Close()
	json.NewEncoder(os.Stdout).Encode(M{"behaviours": n, "events": rec.events})
}

func main() {
	if len(os.Args) < 2 {
		fatal("usage: h-peer replay|random ...")
	}
	fs := flag.NewFlagSet(os.Args[1], flag.ExitOnError)
	in := fs.String("in", "", "behaviours (JSON list of command lists)")
	out := fs.String("out", "trace.ndjson", "trace output")
	seed := fs.Int64("seed", 1, "random seed")
	n := fs.Int("n", 10, "number of random behaviours")
	length := fs.Int("len", 20, "commands per random behaviour")
	profile := fs.String("profile", "import", "import | export | e2e")
	fault := fs.String("fault", "", "binding demonstration only: dropdereg | touchlocal | overexport")
	fs.Parse(os.Args[2:])
	switch os.Args[1] {
	case "replay":
		replay(*in, *out, ph.Fault(*fault))
	case "random":
		random(*seed, *n, *length, *profile, *out)
	default:
		fatal("unknown mode %s", os.Args[1])
	}
}
