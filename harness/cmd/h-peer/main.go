// h-peer executes abstract commands of spec/Peering.tla against the real peering importer /
// exporter code and records one NDJSON event per command:
//
//	{b, k, cmd, res, pre?, post, csn?, svclist?}     (b, k = behaviour and step number)
//
// It decides nothing; spec/PeeringTrace.tla (TLC) judges the events.
//
//	h-peer replay -in behaviours.json -out trace.ndjson [-fault kind]
//	h-peer random -seed S -n N -len L -out trace.ndjson [-profile import|export]
package main

import (
	"bufio"
	"crypto/sha1"
	"encoding/json"
	"flag"
	"fmt"
	"math/rand"
	"os"
	"sort"

	ph "github.com/hashicorp/consul/verifharness/internal/peerh"
)

type M = map[string]any

type recorder struct {
	w      *bufio.Writer
	events int
}

func (r *recorder) emit(ev M) {
	b, err := json.Marshal(ev)
	if err != nil {
		fatal("marshal: %v", err)
	}
	r.w.Write(b)
	r.w.WriteByte('\n')
	r.events++
}

func fatal(f string, a ...any) {
	fmt.Fprintf(os.Stderr, f+"\n", a...)
	os.Exit(3)
}

func emptyCat() M { return M{"nodes": []M{}, "svcs": []M{}, "chks": []M{}, "rest": []M{}} }

// peersOf lists the peer names a behaviour mentions; their peerings exist before the first command.
func peersOf(beh []M) []string {
	set := map[string]bool{}
	for _, c := range beh {
		if p := ph.Str(c["peer"]); p != "" {
			set[p] = true
		}
		if rows, ok := c["rows"].(map[string]any); ok {
			for _, k := range []string{"nodes", "svcs", "chks"} {
				for _, r := range ph.List(rows[k]) {
					if p := ph.Str(r.(map[string]any)["peer"]); p != "" {
						set[p] = true
					}
				}
			}
		}
	}
	out := []string{}
	for p := range set {
		out = append(out, p)
	}
	sort.Strings(out)
	return out
}

// run executes one behaviour on a fresh world. With a non-nil `seen` set, events of a command
// prefix that an earlier behaviour already recorded are executed but not recorded again (TLC's
// edge-mode generation yields one behaviour per transition; their common prefixes are judged once).
func run(bi int, beh []M, rec *recorder, fault ph.Fault, seen map[string]bool) {
	var w *ph.World
	first := true
	prefix := ""
	for ki, c := range beh {
		skip := false
		if seen != nil {
			b, _ := json.Marshal(c)
			prefix += string(b) + "\n"
			h := sha1.Sum([]byte(prefix))
			k := string(h[:])
			skip = seen[k]
			seen[k] = true
		}
		t := ph.Str(c["t"])
		if t == "export" {
			res := ph.Export(c, fault)
			if skip {
				continue
			}
			rec.emit(M{"b": bi, "k": ki, "cmd": c, "res": res, "pre": emptyCat(), "post": emptyCat()})
			continue
		}
		if w == nil {
			var err error
			w, err = ph.NewWorld(peersOf(beh))
			if err != nil {
				fatal("world: %v", err)
			}
			w.Fault = fault
		}
		ev := M{"b": bi, "k": ki, "cmd": c}
		if first && !skip {
			ev["pre"] = w.Catalog()
			first = false
		}
		switch t {
		case "seed":
			ev["res"] = w.Seed(c)
		case "upd":
			ev["res"] = w.Update(c)
			csn, err := w.CSN(ph.Str(c["svc"]), ph.Str(c["peer"]))
			if err != nil {
				ev["csnerr"] = err.Error()
			}
			ev["csn"] = csn
		case "list":
			ev["res"] = w.ExportList(c)
			ev["svclist"] = w.ServiceList(ph.Str(c["peer"]))
		default:
			fatal("unknown command %v", c["t"])
		}
		if skip {
			first = true // the next recorded event of this behaviour must carry its own pre-state
			continue
		}
		ev["post"] = w.Catalog()
		rec.emit(ev)
	}
}

func replay(in, out string, fault ph.Fault) {
	raw, err := os.ReadFile(in)
	if err != nil {
		fatal("%v", err)
	}
	var behs [][]M
	if err := json.Unmarshal(raw, &behs); err != nil {
		fatal("decode %s: %v", in, err)
	}
	f, err := os.Create(out)
	if err != nil {
		fatal("%v", err)
	}
	rec := &recorder{w: bufio.NewWriterSize(f, 1<<20)}
	seen := map[string]bool{}
	for bi, b := range behs {
		run(bi, b, rec, fault, seen)
	}
	rec.w.Flush()
	f.Close()
	json.NewEncoder(os.Stdout).Encode(M{"behaviours": len(behs), "events": rec.events})
}

// ---------------------------------------------------------------- random driver
//
// A model of one EXPORTING cluster per peer (nodes with address and node checks, service
// instances with service checks) is mutated at random; every now and then the current state of
// one service is sent to the importer as a snapshot, so successive snapshots of a service differ
// by many changes at once, services lag behind each other, instances move between nodes, nodes
// are shared between services and sidecar proxies live on gateway nodes.

type xinst struct {
	svc, id, node string
	ver           string
	schk          map[string]string
}
type xnode struct {
	addr string
	nchk map[string]string
}
type xworld struct {
	nodes map[string]*xnode
	insts []*xinst
}

type gen struct {
	r      *rand.Rand
	peers  []string
	nodes  []string
	svcs   []string
	worlds map[string]*xworld
}

func (g *gen) pick(l []string) string { return l[g.r.Intn(len(l))] }
func (g *gen) st() string {
	if g.r.Intn(3) == 0 {
		return "critical"
	}
	return "passing"
}

func sortedKeys(m map[string]string) []string {
	ks := []string{}
	for k := range m {
		ks = append(ks, k)
	}
	sort.Strings(ks)
	return ks
}

func chkList(m map[string]string) []any {
	out := []any{}
	for _, k := range sortedKeys(m) {
		out = append(out, M{"cid": k, "st": m[k]})
	}
	return out
}

func (g *gen) world(p string) *xworld {
	w := g.worlds[p]
	if w == nil {
		w = &xworld{nodes: map[string]*xnode{}}
		g.worlds[p] = w
	}
	return w
}

func (w *xworld) node(g *gen, n string) *xnode {
	x := w.nodes[n]
	if x == nil {
		x = &xnode{addr: fmt.Sprintf("10.1.%d.%d", g.r.Intn(3), 1+g.r.Intn(3)), nchk: map[string]string{}}
		w.nodes[n] = x
	}
	return x
}

func (g *gen) mutate(p string) {
	w := g.world(p)
	switch k := g.r.Intn(12); {
	case k < 4: // add (or re-add) an instance somewhere
		svc := g.pick(g.svcs)
		id := fmt.Sprintf("%s-%d", svc, 1+g.r.Intn(3))
		n := g.pick(g.nodes)
		w.node(g, n)
		for _, i := range w.insts {
			if i.id == id && i.node == n {
				i.ver = g.pick([]string{"1", "2", "3"})
				return
			}
		}
		w.insts = append(w.insts, &xinst{svc: svc, id: id, node: n, ver: g.pick([]string{"1", "2", "3"}), schk: map[string]string{}})
	case k < 6: // remove an instance
		if len(w.insts) > 0 {
			i := g.r.Intn(len(w.insts))
			w.insts = append(w.insts[:i], w.insts[i+1:]...)
		}
	case k == 6: // move an instance to another node
		if len(w.insts) > 0 {
			i := w.insts[g.r.Intn(len(w.insts))]
			n := g.pick(g.nodes)
			for _, j := range w.insts {
				if j != i && j.id == i.id && j.node == n {
					return
				}
			}
			w.node(g, n)
			i.node = n
		}
	case k == 7: // node address change
		if len(w.nodes) > 0 {
			w.node(g, g.pick(g.nodes)).addr = fmt.Sprintf("10.1.%d.%d", g.r.Intn(3), 1+g.r.Intn(3))
		}
	case k == 8: // node check appears / changes / disappears
		x := w.node(g, g.pick(g.nodes))
		cid := g.pick([]string{"serfHealth", "nc2"})
		if _, ok := x.nchk[cid]; ok && g.r.Intn(2) == 0 {
			delete(x.nchk, cid)
		} else {
			x.nchk[cid] = g.st()
		}
	case k < 11: // service check appears / changes / disappears
		if len(w.insts) > 0 {
			i := w.insts[g.r.Intn(len(w.insts))]
			cid := i.id + g.pick([]string{":a", ":b"})
			if _, ok := i.schk[cid]; ok && g.r.Intn(2) == 0 {
				delete(i.schk, cid)
			} else {
				i.schk[cid] = g.st()
			}
		}
	default: // a whole node goes away
		n := g.pick(g.nodes)
		delete(w.nodes, n)
		keep := w.insts[:0]
		for _, i := range w.insts {
			if i.node != n {
				keep = append(keep, i)
			}
		}
		w.insts = keep
	}
}

func (g *gen) snapshot(p, svc string) []any {
	w := g.world(p)
	byNode := map[string][]*xinst{}
	for _, i := range w.insts {
		if i.svc == svc {
			byNode[i.node] = append(byNode[i.node], i)
		}
	}
	ns := []string{}
	for n := range byNode {
		ns = append(ns, n)
	}
	sort.Strings(ns)
	out := []any{}
	for _, n := range ns {
		insts := byNode[n]
		sort.Slice(insts, func(a, b int) bool { return insts[a].id < insts[b].id })
		il := []any{}
		for _, i := range insts {
			il = append(il, M{"id": i.id, "ver": i.ver, "schk": chkList(i.schk)})
		}
		x := w.node(g, n)
		out = append(out, M{"node": n, "addr": x.addr, "nchk": chkList(x.nchk), "insts": il})
	}
	return out
}

func (g *gen) seedRows() M {
	nodes, svcs, chks := []any{}, []any{}, []any{}
	for _, p := range []string{"", g.peers[len(g.peers)-1]} {
		for _, n := range g.nodes {
			if g.r.Intn(3) == 0 {
				continue
			}
			nodes = append(nodes, M{"peer": p, "node": n, "addr": "10.9.0.1"})
			chks = append(chks, M{"peer": p, "node": n, "cid": "serfHealth", "sid": "", "st": "passing"})
			for _, s := range g.svcs {
				if g.r.Intn(2) == 0 {
					id := s + "-1"
					svcs = append(svcs, M{"peer": p, "node": n, "id": id, "name": s, "ver": "7"})
					chks = append(chks, M{"peer": p, "node": n, "cid": id + ":a", "sid": id, "st": "passing"})
				}
			}
		}
	}
	return M{"nodes": nodes, "svcs": svcs, "chks": chks}
}

func (g *gen) behaviour(length int) []M {
	g.worlds = map[string]*xworld{}
	beh := []M{{"t": "seed", "rows": g.seedRows(), "gw": g.r.Intn(2) == 0}}
	for len(beh) < length {
		p := g.pick(g.peers)
		for k := g.r.Intn(4); k >= 0; k-- {
			g.mutate(p)
		}
		switch k := g.r.Intn(10); {
		case k < 7:
			svc := g.pick(g.svcs)
			beh = append(beh, M{"t": "upd", "peer": p, "svc": svc, "snap": g.snapshot(p, svc)})
		case k == 7: // the deletion form
			svc := g.pick(g.svcs)
			w := g.world(p)
			keep := w.insts[:0]
			for _, i := range w.insts {
				if i.svc != svc {
					keep = append(keep, i)
				}
			}
			w.insts = keep
			beh = append(beh, M{"t": "upd", "peer": p, "svc": svc, "snap": []any{}, "nil": g.r.Intn(2) == 0})
		default:
			names := []any{}
			twin := M{}
			for _, s := range append([]string{"ghost"}, g.svcs...) {
				if len(s) > len(ph.SidecarSuffix) && s[len(s)-len(ph.SidecarSuffix):] == ph.SidecarSuffix {
					continue
				}
				if g.r.Intn(2) == 0 {
					names = append(names, s)
				}
				twin[s] = s + ph.SidecarSuffix
			}
			// the exporter stops exporting: its instances stay, the importer must forget them
			beh = append(beh, M{"t": "list", "peer": p, "names": names, "twin": twin})
		}
	}
	return beh
}

func (g *gen) export() []M {
	names := []string{"web", "api", "db", "consul", "*", "web" + ph.SidecarSuffix}
	peers := []string{"p1", "p2", "p3", "p10"}
	cfg := []any{}
	for k := g.r.Intn(5); k > 0; k-- {
		ps := []any{}
		for _, p := range peers {
			if g.r.Intn(3) == 0 {
				ps = append(ps, p)
			}
		}
		if len(ps) == 0 {
			ps = append(ps, g.pick(peers))
		}
		cfg = append(cfg, M{"name": g.pick(names), "peers": ps})
	}
	lsvcs := []any{}
	for _, n := range []string{"web", "api", "db", "consul", "cache"} {
		if g.r.Intn(2) == 0 {
			lsvcs = append(lsvcs, M{"name": n, "kind": ""})
		}
	}
	if g.r.Intn(2) == 0 {
		lsvcs = append(lsvcs, M{"name": "web" + ph.SidecarSuffix, "kind": "connect-proxy"})
	}
	if g.r.Intn(3) == 0 {
		lsvcs = append(lsvcs, M{"name": "mgw", "kind": "mesh-gateway"})
	}
	res := []any{}
	for _, n := range []string{"api", "db", "chainonly"} {
		if g.r.Intn(4) == 0 {
			res = append(res, n)
		}
	}
	return []M{{"t": "export", "cfg": cfg, "lsvcs": lsvcs, "resolvers": res, "peer": g.pick(peers[:3])}}
}

func random(seed int64, n, length int, profile, out string) {
	f, err := os.Create(out)
	if err != nil {
		fatal("%v", err)
	}
	rec := &recorder{w: bufio.NewWriterSize(f, 1<<20)}
	g := &gen{r: rand.New(rand.NewSource(seed)),
		peers: []string{"p1", "p2", "p3"},
		nodes: []string{"n1", "n2", "n3", "gw1"},
		svcs:  []string{"web", "api", "db", "web" + ph.SidecarSuffix, "api" + ph.SidecarSuffix}}
	for i := 0; i < n; i++ {
		if profile == "export" {
			run(i, g.export(), rec, ph.FaultNone, nil)
		} else {
			run(i, g.behaviour(length), rec, ph.FaultNone, nil)
		}
	}
	rec.w.Flush()
	f.Close()
	json.NewEncoder(os.Stdout).Encode(M{"behaviours": n, "events": rec.events})
}

func main() {
	if len(os.Args) < 2 {
		fatal("usage: h-peer replay|random ...")
	}
	fs := flag.NewFlagSet(os.Args[1], flag.ExitOnError)
	in := fs.String("in", "", "behaviours (JSON list of command lists)")
	out := fs.String("out", "trace.ndjson", "trace output")
	seed := fs.Int64("seed", 1, "random seed")
	n := fs.Int("n", 10, "number of random behaviours")
	length := fs.Int("len", 20, "commands per random behaviour")
	profile := fs.String("profile", "import", "import | export")
	fault := fs.String("fault", "", "binding demonstration only: dropdereg | touchlocal | overexport")
	fs.Parse(os.Args[2:])
	switch os.Args[1] {
	case "replay":
		replay(*in, *out, ph.Fault(*fault))
	case "random":
		random(*seed, *n, *length, *profile, *out)
	default:
		fatal("unknown mode %s", os.Args[1])
	}
}
