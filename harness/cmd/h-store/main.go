// h-store: executor/recorder for the Store family (C01-C07, C10).
//
//	h-store replay -in behaviours.json -out trace.ndjson     replay TLC-generated behaviours
//	h-store random -seed S -n N -len L -profile P -out trace.ndjson   seeded random driver
//
// Every applied command becomes one NDJSON event {cmd,res,post,(pre),facts,reads} that TLC
// validates against spec/StoreTrace.tla. No verdict is computed here.
package main

import (
	"bufio"
	"encoding/json"
	"flag"
	"fmt"
	"math/rand"
	"os"

	sh "github.com/hashicorp/consul/verifharness/internal/storeh"
)

type M = sh.M

var (
	modelKeys     = []string{"a", "a/", "a/b", "\xc3\xa9"}
	modelPrefixes = []string{"", "a", "a/", "a/b"}
)

type recorder struct {
	w      *bufio.Writer
	events int
}

func (r *recorder) emit(ev M) {
	b, err := json.Marshal(ev)
	if err != nil {
		fatal("marshal: %v", err)
	}
	r.w.Write(b)
	r.w.WriteByte('\n')
	r.events++
}

func fatal(f string, a ...any) {
	fmt.Fprintf(os.Stderr, "h-store: "+f+"\n", a...)
	os.Exit(2)
}

// step applies one command and records the event.
func step(h *sh.H, rec *recorder, c M, first bool, prevIdx uint64, keys, prefixes []string) {
	var pre M
	if first {
		pre = h.Project(prevIdx)
	}
	edge := sh.EdgeKeys(h.Store())
	dumpBefore := sh.Dump(h.Store())
	fired := h.WatchAll(keys, prefixes)
	evBefore := h.Pub.Count()
	h.FailCommit = c["fault"] == "yes"
	res, _, err := h.Apply(c)
	h.FailCommit = false
	if err != nil {
		fatal("apply %v: %v", c, err)
	}
	idx := uint64(c["idx"].(float64))
	ev := M{"cmd": c, "res": res, "post": h.Project(idx),
		"facts": M{"dump_changed": sh.Dump(h.Store()) != dumpBefore, "watch_fired": fired(), "events": h.Pub.Count() - evBefore},
		"reads": h.KVReads(keys, prefixes), "edge": edge}
	if first {
		ev["pre"] = pre
	}
	rec.emit(ev)
}

func replay(in, out string) {
	b, err := os.ReadFile(in)
	if err != nil {
		fatal("%v", err)
	}
	var behs [][]M
	if err := json.Unmarshal(b, &behs); err != nil {
		fatal("decode behaviours: %v", err)
	}
	f, err := os.Create(out)
	if err != nil {
		fatal("%v", err)
	}
	defer f.Close()
	rec := &recorder{w: bufio.NewWriterSize(f, 1<<20)}
	for _, beh := range behs {
		h := sh.New()
		for i, c := range beh {
			step(h, rec, c, i == 0, 0, modelKeys, modelPrefixes)
		}
	}
	rec.w.Flush()
	fmt.Printf("{\"behaviours\":%d,\"events\":%d}\n", len(behs), rec.events)
}

func random(seed int64, n, length int, profile, out string, faults bool) {
	f, err := os.Create(out)
	if err != nil {
		fatal("%v", err)
	}
	defer f.Close()
	rec := &recorder{w: bufio.NewWriterSize(f, 1<<20)}
	for t := 0; t < n; t++ {
		h := sh.New()
		g := &sh.AbsGen{R: rand.New(rand.NewSource(seed*100003 + int64(t))), Store: h.Store, Profile: profile, Delays: true}
		// fault schedule from a stream of its own: about one command in fourteen commits into a failing change-processing step
		rf := rand.New(rand.NewSource(seed*7 + int64(t)*13 + 5))
		for i := 0; i < length; i++ {
			prev := g.Idx
			c := g.Next()
			// JSON round trip so that the command is exactly what is recorded
			b, _ := json.Marshal(c)
			var c2 M
			_ = json.Unmarshal(b, &c2)
			if faults && rf.Intn(14) == 0 {
				c2["fault"] = "yes"
			}
			step(h, rec, c2, i == 0, prev, sh.WideKeys, sh.WidePrefixes)
		}
	}
	rec.w.Flush()
	fmt.Printf("{\"behaviours\":%d,\"events\":%d}\n", n, rec.events)
}

func main() {
	if len(os.Args) < 2 {
		fatal("usage: h-store replay|random ...")
	}
	fs := flag.NewFlagSet(os.Args[1], flag.ExitOnError)
	in := fs.String("in", "", "behaviours json")
	out := fs.String("out", "trace.ndjson", "output trace")
	seed := fs.Int64("seed", 1, "seed")
	n := fs.Int("n", 10, "number of random histories")
	length := fs.Int("len", 100, "length of each history")
	profile := fs.String("profile", "kv", "kv|sess|txn")
	faults := fs.Bool("faults", true, "inject commit-time failures (change-event generation) into some commands")
	_ = fs.Parse(os.Args[2:])
	switch os.Args[1] {
	case "replay":
		replay(*in, *out)
	case "random":
		random(*seed, *n, *length, *profile, *out, *faults)
	default:
		fatal("unknown mode %s", os.Args[1])
	}
}
