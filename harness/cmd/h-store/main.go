// h-store: executor/recorder for the Store family (C01-C07, C10).
//
//	h-store replay -in behaviours.json -out trace.ndjson     replay TLC-generated behaviours
//	h-store random -seed S -n N -len L -profile P -out trace.ndjson   seeded random driver
//
// Every applied command becomes one NDJSON event {cmd,res,post,(pre),facts,reads} that TLC
// validates against spec/StoreTrace.tla. No verdict is computed here.
package main

import (
	"bufio"
	"encoding/json"
	"flag"
	"fmt"
	"math/rand"
	"os"

	sh "github.com/hashicorp/consul/verifharness/internal/storeh"
)

type M = sh.M

var (
	modelKeys     = []string{"a", "a/", "a/b", "\xc3\xa9"}
	modelPrefixes = []string{"", "a", "a/", "a/b"}
	wideKeys      = []string{"a", "a/", "a/b", "a/b/c", "ab", "b", "b/", "\xc3\xa9", "a/\xc3\xa9", "a\x01", "zz/y", "a//", "A"}
	widePrefixes  = []string{"", "a", "a/", "a/b", "a/b/", "b", "\xc3", "\xc3\xa9", "z", "a//", "c"}
)

type recorder struct {
	w      *bufio.Writer
	events int
}

func (r *recorder) emit(ev M) {
	b, err := json.Marshal(ev)
	if err != nil {
		fatal("marshal: %v", err)
	}
	r.w.Write(b)
	r.w.WriteByte('\n')
	r.events++
}

func fatal(f string, a ...any) {
	fmt.Fprintf(os.Stderr, "h-store: "+f+"\n", a...)
	os.Exit(2)
}

// step applies one command and records the event.
func step(h *sh.H, rec *recorder, c M, first bool, prevIdx uint64, keys, prefixes []string) {
	var pre M
	if first {
		pre = h.Project(prevIdx)
	}
	dumpBefore := sh.Dump(h.Store())
	fired := h.WatchAll(keys, prefixes)
	evBefore := h.Pub.Count()
	res, _, err := h.Apply(c)
	if err != nil {
		fatal("apply %v: %v", c, err)
	}
	idx := uint64(c["idx"].(float64))
	ev := M{"cmd": c, "res": res, "post": h.Project(idx),
		"facts": M{"dump_changed": sh.Dump(h.Store()) != dumpBefore, "watch_fired": fired(), "events": h.Pub.Count() - evBefore},
		"reads": h.KVReads(keys, prefixes)}
	if first {
		ev["pre"] = pre
	}
	rec.emit(ev)
}

func replay(in, out string) {
	b, err := os.ReadFile(in)
	if err != nil {
		fatal("%v", err)
	}
	var behs [][]M
	if err := json.Unmarshal(b, &behs); err != nil {
		fatal("decode behaviours: %v", err)
	}
	f, err := os.Create(out)
	if err != nil {
		fatal("%v", err)
	}
	defer f.Close()
	rec := &recorder{w: bufio.NewWriterSize(f, 1<<20)}
	for _, beh := range behs {
		h := sh.New()
		for i, c := range beh {
			step(h, rec, c, i == 0, 0, modelKeys, modelPrefixes)
		}
	}
	rec.w.Flush()
	fmt.Printf("{\"behaviours\":%d,\"events\":%d}\n", len(behs), rec.events)
}

func keyJ(k string) []any {
	out := make([]any, len(k))
	for i := 0; i < len(k); i++ {
		out[i] = float64(k[i])
	}
	return out
}

type gen struct {
	r       *rand.Rand
	h       *sh.H
	idx     uint64
	profile string
}

func (g *gen) pick(l []string) string { return l[g.r.Intn(len(l))] }

// current modify index of a key (0 if absent) read through the public API
func (g *gen) mi(k string) uint64 {
	_, e, _ := g.h.Store().KVSGet(nil, k, nil)
	if e == nil {
		return 0
	}
	return e.ModifyIndex
}

func (g *gen) casIdx(k string) float64 {
	cur := g.mi(k)
	switch g.r.Intn(5) {
	case 0:
		return 0
	case 1, 2:
		return float64(cur)
	case 3:
		if cur > 1 {
			return float64(cur - 1)
		}
		return 1
	}
	return float64(g.idx + 5)
}

var (
	sessIds = []string{"s1", "s2", "s3", "s4"}
	nodeNms = []string{"n1", "n2", "n3"}
	chkIds  = []string{"c1", "c2", "serfHealth"}
	vals    = []string{"x", "y", "", "zzz"}
)

func (g *gen) kvCmd() M {
	k := g.pick(wideKeys)
	ops := []string{"set", "set", "cas", "delete", "delete-cas", "delete-tree", "lock", "lock", "unlock"}
	op := g.pick(ops)
	c := M{"t": "kv", "op": op, "k": keyJ(k), "v": g.pick(vals), "f": float64(g.r.Intn(2) * 42), "s": "", "li": float64(0), "mi": float64(0)}
	switch op {
	case "cas", "delete-cas":
		c["mi"] = g.casIdx(k)
	case "lock", "unlock":
		c["s"] = g.pick(sessIds)
		if g.r.Intn(15) == 0 {
			c["s"] = ""
		}
	case "delete-tree":
		c["k"] = keyJ(g.pick(widePrefixes))
	case "set":
		if g.r.Intn(6) == 0 {
			c["li"] = float64(g.r.Intn(3))
		}
	}
	return c
}

func (g *gen) chk(id string) M {
	typ := ""
	sname := ""
	if g.r.Intn(4) == 0 {
		typ = "session"
		sname = g.pick([]string{"sn", "sm"})
	}
	svc := ""
	if g.r.Intn(3) == 0 {
		svc = g.pick([]string{"w1", "w2"})
	}
	return M{"id": id, "status": g.pick([]string{"passing", "critical", "warning", ""}), "svc": svc, "typ": typ, "sname": sname}
}

func noSvc() M { return M{"id": "", "name": ""} }
func noChk() M { return M{"id": "", "status": "", "svc": "", "typ": "", "sname": ""} }

func (g *gen) catCmd() M {
	n := g.pick(nodeNms)
	switch g.r.Intn(10) {
	case 0, 1, 2:
		nid := ""
		if g.r.Intn(3) == 0 {
			nid = g.pick([]string{"id1", "id2"})
		}
		return M{"t": "reg", "node": n, "nid": nid, "hassvc": false, "svc": noSvc(), "haschk": false, "chk": noChk()}
	case 3, 4:
		return M{"t": "reg", "node": n, "nid": "", "hassvc": false, "svc": noSvc(), "haschk": true, "chk": g.chk(g.pick(chkIds))}
	case 5, 6:
		sid := g.pick([]string{"w1", "w2"})
		c := M{"t": "reg", "node": n, "nid": "", "hassvc": true, "svc": M{"id": sid, "name": "web"}, "haschk": false, "chk": noChk()}
		if g.r.Intn(2) == 0 {
			ck := g.chk(g.pick(chkIds))
			ck["svc"] = sid
			c["haschk"] = true
			c["chk"] = ck
		}
		return c
	case 7:
		return M{"t": "dereg", "node": n, "svc": "", "chk": g.pick(chkIds)}
	case 8:
		return M{"t": "dereg", "node": n, "svc": g.pick([]string{"w1", "w2"}), "chk": ""}
	}
	return M{"t": "dereg", "node": n, "svc": "", "chk": ""}
}

func (g *gen) sessCmd() M {
	if g.r.Intn(3) == 0 {
		return M{"t": "sess", "op": "destroy", "id": g.pick(sessIds)}
	}
	// never re-create a live session id (the endpoint always mints a fresh UUID)
	live := map[string]bool{}
	_, ss, _ := g.h.Store().SessionList(nil, nil)
	for _, s := range ss {
		live[sh.Name(s.ID)] = true
	}
	var free []string
	for _, s := range sessIds {
		if !live[s] {
			free = append(free, s)
		}
	}
	if len(free) == 0 {
		return M{"t": "sess", "op": "destroy", "id": g.pick(sessIds)}
	}
	checks := []any{}
	if g.r.Intn(2) == 0 {
		checks = append(checks, g.pick(chkIds))
		if g.r.Intn(4) == 0 {
			c2 := g.pick(chkIds)
			if c2 != checks[0] {
				checks = append(checks, c2)
			}
		}
	}
	return M{"t": "sess", "op": "create", "id": g.pick(free), "node": g.pick(nodeNms), "beh": g.pick([]string{"release", "delete", "", "release"}),
		"checks": checks, "name": g.pick([]string{"", "sn", "sm"})}
}

func (g *gen) txnOp() M {
	switch g.r.Intn(12) {
	case 0:
		live := []string{}
		_, ss, _ := g.h.Store().SessionList(nil, nil)
		for _, s := range ss {
			live = append(live, sh.Name(s.ID))
		}
		if len(live) > 0 && g.r.Intn(5) != 0 {
			return M{"fam": "sess", "verb": "delete", "id": g.pick(live)}
		}
		return M{"fam": "sess", "verb": "delete", "id": g.pick(sessIds)}
	case 1:
		return M{"fam": "node", "verb": g.pick([]string{"delete", "get", "set"}), "node": g.pick(nodeNms), "nid": ""}
	case 2:
		return M{"fam": "chk", "verb": g.pick([]string{"set", "delete", "get"}), "node": g.pick(nodeNms), "chk": g.chk(g.pick(chkIds))}
	case 3:
		return M{"fam": "svc", "verb": g.pick([]string{"set", "delete", "get"}), "node": g.pick(nodeNms), "id": g.pick([]string{"w1", "w2"}), "name": "web"}
	}
	k := g.pick(wideKeys)
	verbs := []string{"set", "cas", "delete", "delete-cas", "delete-tree", "lock", "unlock", "get", "get-tree", "get-or-empty",
		"check-index", "check-session", "check-not-exists"}
	verb := g.pick(verbs)
	o := M{"fam": "kv", "verb": verb, "k": keyJ(k), "v": g.pick(vals), "f": float64(0), "s": "", "li": float64(0), "mi": float64(0)}
	switch verb {
	case "cas", "delete-cas", "check-index":
		o["mi"] = g.casIdx(k)
	case "lock", "unlock", "check-session":
		o["s"] = g.pick(sessIds)
	case "delete-tree", "get-tree":
		o["k"] = keyJ(g.pick(widePrefixes))
	}
	return o
}

func (g *gen) next() M {
	var c M
	x := g.r.Intn(100)
	switch g.profile {
	case "kv":
		switch {
		case x < 70:
			c = g.kvCmd()
		case x < 80:
			c = g.sessCmd()
		case x < 86:
			c = g.catCmd()
		case x < 90:
			c = M{"t": "reap", "upto": float64(g.r.Intn(int(g.idx) + 2))}
		default:
			n := 1 + g.r.Intn(3)
			ops := []any{}
			for i := 0; i < n; i++ {
				ops = append(ops, g.txnOp())
			}
			c = M{"t": "txn", "ops": ops}
		}
	case "sess":
		switch {
		case x < 30:
			c = g.kvCmd()
		case x < 55:
			c = g.sessCmd()
		case x < 80:
			c = g.catCmd()
		case x < 85:
			c = M{"t": "pq", "op": g.pick([]string{"set", "set", "delete"}), "id": g.pick([]string{"q1", "q2"}), "sess": g.pick(append([]string{""}, sessIds...))}
		default:
			n := 1 + g.r.Intn(3)
			ops := []any{}
			for i := 0; i < n; i++ {
				ops = append(ops, g.txnOp())
			}
			c = M{"t": "txn", "ops": ops}
		}
	default: // txn
		switch {
		case x < 25:
			c = g.kvCmd()
		case x < 33:
			c = g.sessCmd()
		case x < 42:
			c = g.catCmd()
		default:
			n := 1 + g.r.Intn(5)
			ops := []any{}
			for i := 0; i < n; i++ {
				ops = append(ops, g.txnOp())
			}
			c = M{"t": "txn", "ops": ops}
		}
	}
	g.idx += uint64(1 + g.r.Intn(3)/2) // occasional index gaps, like raft no-ops
	c["idx"] = float64(g.idx)
	return c
}

func random(seed int64, n, length int, profile, out string) {
	f, err := os.Create(out)
	if err != nil {
		fatal("%v", err)
	}
	defer f.Close()
	rec := &recorder{w: bufio.NewWriterSize(f, 1<<20)}
	for t := 0; t < n; t++ {
		g := &gen{r: rand.New(rand.NewSource(seed*100003 + int64(t))), h: sh.New(), profile: profile}
		for i := 0; i < length; i++ {
			prev := g.idx
			c := g.next()
			// JSON round trip so that the command is exactly what is recorded
			b, _ := json.Marshal(c)
			var c2 M
			_ = json.Unmarshal(b, &c2)
			step(g.h, rec, c2, i == 0, prev, wideKeys, widePrefixes)
		}
	}
	rec.w.Flush()
	fmt.Printf("{\"behaviours\":%d,\"events\":%d}\n", n, rec.events)
}

func main() {
	if len(os.Args) < 2 {
		fatal("usage: h-store replay|random ...")
	}
	fs := flag.NewFlagSet(os.Args[1], flag.ExitOnError)
	in := fs.String("in", "", "behaviours json")
	out := fs.String("out", "trace.ndjson", "output trace")
	seed := fs.Int64("seed", 1, "seed")
	n := fs.Int("n", 10, "number of random histories")
	length := fs.Int("len", 100, "length of each history")
	profile := fs.String("profile", "kv", "kv|sess|txn")
	_ = fs.Parse(os.Args[2:])
	switch os.Args[1] {
	case "replay":
		replay(*in, *out)
	case "random":
		random(*seed, *n, *length, *profile, *out)
	default:
		fatal("unknown mode %s", os.Args[1])
	}
}
