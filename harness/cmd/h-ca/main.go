// h-ca: executor/recorder for the Connect CA property (C12), spec/CA.tla.
//
//	h-ca replay -profile issue|roots [-initops K] -in behaviours.json -out trace.ndjson
//	h-ca random -profile issue|roots -seed S -n N -len L -out trace.ndjson
//
// profile issue: a real CAManager (built-in provider) over a real state.Store; commands
//
//	{t:"sign", csr:{uris:[IdShape..], dns, ips, emails}, authz:[scope..]}  {t:"rotate"}  {t:"reconfig"}
//
// Every CA command the manager replicates while executing them is recorded as an event of its own
// (cmd.via = "manager") before the event of the command itself.
// profile roots: raw replicated CA commands (set-roots, set-config, set-roots-and-config, inc-serial)
// applied through fsm.ApplyConnectCAOperationFromRequest.
//
// One NDJSON event per command: {cmd, res, pre, post}. No verdict is computed here.
package main

import (
	"bufio"
	"encoding/json"
	"errors"
	"flag"
	"fmt"
	"math/rand"
	"os"
	"strings"

	"github.com/hashicorp/consul/verifharness/internal/cah"
)

type M = cah.M

type recorder struct {
	w      *bufio.Writer
	events int
}

func (r *recorder) emit(ev M) {
	b, err := json.Marshal(ev)
	if err != nil {
		fatal("marshal: %v", err)
	}
	r.w.Write(b)
	r.w.WriteByte('\n')
	r.events++
}

func fatal(f string, a ...any) {
	fmt.Fprintf(os.Stderr, "h-ca: "+f+"\n", a...)
	os.Exit(2)
}

// initOps: the CA commands replicated by CAManager.Initialize are identical in every history; they are
// recorded for every initOps-th history only (1 = all), everything after initialisation always is.
var initOps = 1

func newWorld(profile string, rec *recorder, beh int) *cah.World {
	emit := func(ev M) { ev["beh"] = beh; rec.emit(ev) }
	if profile == "roots" {
		return cah.NewRoots(emit)
	}
	initEmit := emit
	if beh%initOps != 0 {
		initEmit = nil
	}
	w, err := cah.NewIssue(initEmit)
	if err != nil {
		fatal("CAManager.Initialize: %v", err)
	}
	w.Emit = emit
	return w
}

func step(w *cah.World, rec *recorder, c M, beh int) {
	pre := w.Project()
	var res M
	var err error
	switch c["t"] {
	case "sign":
		res, err = w.Sign(c)
	case "rotate", "reconfig":
		// defaults are written into the recorded command so that the trace is self-describing
		if _, ok := c["race"].(bool); !ok {
			c["race"] = false
		}
		if _, ok := c["to"].(string); !ok {
			c["to"] = "fresh"
		}
		res, err = w.Reconfigure(c["t"] == "rotate", c["to"].(string), c["race"] == true)
	default:
		res, err = w.Raw(c)
	}
	if err != nil {
		if errors.Is(err, cah.ErrInfra) {
			fatal("%v (cmd %v)", err, c)
		}
		fatal("apply %v: %v", c, err)
	}
	rec.emit(M{"cmd": c, "res": res, "pre": pre, "post": w.Project(), "beh": beh})
}

func roundTrip(c M) M {
	b, _ := json.Marshal(c)
	var c2 M
	_ = json.Unmarshal(b, &c2)
	return c2
}

func replay(profile, in, out string) {
	b, err := os.ReadFile(in)
	if err != nil {
		fatal("%v", err)
	}
	var behs [][]M
	if err := json.Unmarshal(b, &behs); err != nil {
		fatal("decode behaviours: %v", err)
	}
	f, err := os.Create(out)
	if err != nil {
		fatal("%v", err)
	}
	defer f.Close()
	rec := &recorder{w: bufio.NewWriterSize(f, 1<<20)}
	for i, beh := range behs {
		w := newWorld(profile, rec, i)
		for _, c := range beh {
			step(w, rec, c, i)
		}
	}
	rec.w.Flush()
	fmt.Printf("{\"behaviours\":%d,\"events\":%d}\n", len(behs), rec.events)
}

// ------------------------------------------------------------------ random driver (wider universe)

type gen struct {
	r *rand.Rand
	w *cah.World
}

func (g *gen) pick(l []string) string { return l[g.r.Intn(len(l))] }

var (
	names        = []string{"web", "db", "api-v2", "n1", "node.example", "a_b"}
	foreignHosts = []string{cah.ForeignHost, "dummy.trustdomain", "unknown.consul", "consul", "evil." + cah.TrustDomain, cah.TrustDomain + ".evil.example", "AABBCCDD-1122-4e5f-8a9b-c0d1e2f3a4b6.consul"}
)

func flipCase(r *rand.Rand, s string) string {
	b := []byte(s)
	changed := false
	for i := range b {
		if b[i] >= 'a' && b[i] <= 'z' && r.Intn(2) == 0 {
			b[i] -= 32
			changed = true
		}
	}
	if !changed {
		return strings.ToUpper(s)
	}
	return string(b)
}

func pctSome(r *rand.Rand, s string) string {
	var b strings.Builder
	n := 0
	for i := 0; i < len(s); i++ {
		if r.Intn(3) == 0 || (n == 0 && i == len(s)-1) {
			if r.Intn(2) == 0 {
				fmt.Fprintf(&b, "%%%02X", s[i])
			} else {
				fmt.Fprintf(&b, "%%%02x", s[i])
			}
			n++
		} else {
			b.WriteByte(s[i])
		}
	}
	return b.String()
}

// shape draws an abstract IdShape and a concrete spelling ("raw") inside that class, using more
// spellings than the model's constants: several foreign hosts, mixed-case hosts, escapes at random
// positions with either hex case, partitions.
func (g *gen) shape() M {
	r := g.r
	kinds := []string{"service", "service", "service", "agent", "agent", "agent", "mesh-gateway", "server", "signing", "garbage"}
	s := M{"kind": g.pick(kinds), "td": g.pick([]string{"own", "own", "own", "own", "ownUpper", "ownUser", "foreign", "foreign", "ownPort", "ownUpperPort", "ownEmptyPort", "ownUserPort", "ipv6", "ownDot", "ownBracket"}),
		"dc": g.pick([]string{"own", "own", "own", "other"}), "name": g.pick(names),
		"enc": g.pick([]string{"plain", "plain", "pct", "pct", "case", "slash"}), "ap": g.pick([]string{"none", "none", "none", "default", "other"})}
	kind := s["kind"].(string)
	if kind == "server" || kind == "signing" || kind == "garbage" {
		s["ap"] = "none"
	}
	if kind == "mesh-gateway" || kind == "server" || kind == "signing" {
		s["name"] = ""
	}
	if kind == "signing" {
		s["dc"], s["enc"] = "own", "plain"
	}
	if kind == "garbage" {
		s["td"], s["dc"] = "own", "own"
		return s
	}
	if r.Intn(3) == 0 {
		return s // default spelling
	}
	host := cah.HostOf(s["td"].(string))
	port := fmt.Sprintf(":%d", r.Intn(65536))
	switch s["td"] {
	case "ownUpper":
		host = flipCase(r, cah.TrustDomain)
	case "ownUser":
		host = g.pick([]string{"user@", "u:p@", "@", "a%40b@"}) + g.pick([]string{cah.TrustDomain, flipCase(r, cah.TrustDomain)})
	case "ownPort":
		host = cah.TrustDomain + port
	case "ownUpperPort":
		host = flipCase(r, cah.TrustDomain) + port
	case "ownUserPort":
		host = "user@" + g.pick([]string{cah.TrustDomain, flipCase(r, cah.TrustDomain)}) + g.pick([]string{port, ":"})
	case "ipv6":
		host = g.pick([]string{"[::1]", "[::1]:8443", "[fe80::1%25en0]", "[2001:db8::1]"})
	case "foreign":
		host = g.pick(foreignHosts)
	}
	dc := cah.OwnDC
	if s["dc"] == "other" {
		dc = g.pick([]string{cah.OtherDC, "dc10", "dc", "Dc1"})
	}
	seg := func(base string) string {
		switch s["enc"] {
		case "pct":
			return pctSome(r, base)
		case "case":
			return strings.ToUpper(base)
		case "slash":
			return base + g.pick([]string{"%2Fx", "%2fx"})
		}
		return base
	}
	ap := ""
	switch s["ap"] {
	case "default":
		ap = "/ap/default"
	case "other":
		ap = "/ap/" + g.pick([]string{"foo", "Default", "team-a"})
	}
	name := s["name"].(string)
	switch kind {
	case "service":
		s["raw"] = "spiffe://" + host + ap + "/ns/default/dc/" + dc + "/svc/" + seg(name)
	case "agent":
		s["raw"] = "spiffe://" + host + ap + "/agent/client/dc/" + dc + "/id/" + seg(name)
	case "mesh-gateway":
		s["raw"] = "spiffe://" + host + ap + "/gateway/mesh/dc/" + seg(dc)
	case "server":
		s["raw"] = "spiffe://" + host + "/agent/server/dc/" + seg(dc)
	case "signing":
		s["raw"] = "spiffe://" + host
	}
	// spellings that leave host and path alone: user-info, query, fragment
	if kind != "signing" {
		switch r.Intn(12) {
		case 0:
			if !strings.Contains(s["raw"].(string), "@") && s["td"] != "ownDot" && s["td"] != "ownBracket" {
				s["raw"] = strings.Replace(s["raw"].(string), "spiffe://", "spiffe://user@", 1)
			}
		case 1:
			s["raw"] = s["raw"].(string) + "?x=1"
		case 2:
			s["raw"] = s["raw"].(string) + "#frag"
		}
	}
	return s
}

func scope(res, name, v string) M { return M{"res": res, "name": name, "var": v} }

// needed returns the scope that the parsed identity of shape s requires (used only to bias the
// generator towards authorized requests; TLC recomputes it from the spec).
func needed(s M) M {
	v := "exact"
	switch s["enc"] {
	case "case":
		v = "upper"
	case "slash":
		v = "slash"
	}
	switch s["kind"] {
	case "service":
		return scope("service", s["name"].(string), v)
	case "agent":
		return scope("node", s["name"].(string), v)
	case "mesh-gateway":
		return scope("mesh", "", "exact")
	}
	return scope("acl", "", "exact")
}

func (g *gen) authz(uris []any) ([]any, []any) {
	r := g.r
	grants, reads := []any{}, []any{}
	seen := map[string]bool{}
	add := func(l *[]any, sc M) {
		k := fmt.Sprint(sc["res"], "/", sc["name"], "/", sc["var"])
		if !seen[k] {
			seen[k] = true
			*l = append(*l, sc)
		}
	}
	for _, u := range uris {
		s := u.(M)
		switch r.Intn(10) {
		case 0, 1, 2, 3, 4, 5:
			add(&grants, needed(s))
		case 6:
			add(&reads, needed(s)) // read is not write
		case 7:
			n := needed(s)
			if n["res"] == "service" || n["res"] == "node" {
				n["var"] = g.pick([]string{"exact", "upper", "slash"})
			}
			add(&grants, n)
		}
	}
	for i := r.Intn(3); i > 0; i-- {
		res := g.pick([]string{"service", "node", "mesh", "acl"})
		if res == "mesh" || res == "acl" {
			if res == "acl" && r.Intn(3) != 0 {
				continue
			}
			add(&grants, scope(res, "", "exact"))
		} else {
			add(&grants, scope(res, g.pick(names), g.pick([]string{"exact", "exact", "upper", "slash"})))
		}
	}
	return grants, reads
}

func (g *gen) signCmd() M {
	r := g.r
	n := 1
	switch r.Intn(20) {
	case 0:
		n = 0
	case 1, 2:
		n = 2
	case 3:
		n = 3
	}
	uris := []any{}
	for i := 0; i < n; i++ {
		uris = append(uris, g.shape())
	}
	csr := M{"uris": uris, "dns": 0, "ips": 0, "emails": 0}
	if r.Intn(4) == 0 {
		csr["dns"] = r.Intn(3)
	}
	if r.Intn(5) == 0 {
		csr["ips"] = r.Intn(3)
	}
	if r.Intn(8) == 0 {
		csr["emails"] = 1 + r.Intn(2)
	}
	if r.Intn(5) == 0 {
		csr["ext"] = "ca" // the request asks to be a CA
	}
	grants, reads := g.authz(uris)
	return M{"t": "sign", "csr": csr, "authz": grants, "reads": reads}
}

func (g *gen) rootsCmd(idx uint64) M {
	r := g.r
	ridx, _, _ := g.w.Store.CARoots(nil)
	_, conf, _ := g.w.Store.CAConfig(nil)
	var cmi uint64
	if conf != nil {
		cmi = conf.ModifyIndex
	}
	cas := func(cur uint64) uint64 {
		switch r.Intn(6) {
		case 0:
			return 0
		case 1:
			if cur > 0 {
				return cur - 1
			}
			return 1
		case 2:
			return cur + 1 + uint64(r.Intn(3))
		}
		return cur
	}
	roots := func() []any {
		ids := []string{"r1", "r2", "r3", "r4"}
		r.Shuffle(len(ids), func(i, j int) { ids[i], ids[j] = ids[j], ids[i] })
		n := r.Intn(4)
		if r.Intn(4) != 0 && n == 0 {
			n = 1
		}
		out := []any{}
		act := r.Intn(n + 1)
		for i := 0; i < n; i++ {
			a := i == act
			if r.Intn(8) == 0 {
				a = !a
			}
			id := ids[i]
			if r.Intn(25) == 0 {
				id = ""
			}
			out = append(out, M{"id": id, "active": a})
		}
		return out
	}
	c := M{"idx": idx}
	switch x := r.Intn(10); {
	case x < 4:
		c["t"], c["cas"], c["roots"] = "set-roots", cas(ridx), roots()
	case x < 6:
		c["t"], c["ccas"], c["cfg"] = "set-config", cas(cmi), g.pick([]string{"c1", "c2", "c3", "c4"})
	case x < 9:
		c["t"], c["cas"], c["roots"], c["ccas"], c["cfg"] = "set-roots-and-config", cas(ridx), roots(), cas(cmi), g.pick([]string{"c1", "c2", "c3", "c4"})
	default:
		c["t"] = "inc-serial"
	}
	return c
}

func random(profile string, seed int64, n, length int, out string) {
	f, err := os.Create(out)
	if err != nil {
		fatal("%v", err)
	}
	defer f.Close()
	rec := &recorder{w: bufio.NewWriterSize(f, 1<<20)}
	for t := 0; t < n; t++ {
		g := &gen{r: rand.New(rand.NewSource(seed*100003 + int64(t)))}
		g.w = newWorld(profile, rec, t)
		var idx uint64
		for i := 0; i < length; i++ {
			var c M
			if profile == "roots" {
				idx += uint64(1 + g.r.Intn(3)/2)
				c = g.rootsCmd(idx)
			} else {
				switch x := g.r.Intn(100); {
				case x < 7:
					c = M{"t": "rotate", "race": g.r.Intn(2) == 0, "to": g.pick([]string{"fresh", "fresh", "A", "A", "B", "B", "C"})}
				case x < 10:
					c = M{"t": "reconfig", "race": g.r.Intn(2) == 0}
				default:
					c = g.signCmd()
				}
			}
			step(g.w, rec, roundTrip(c), t)
		}
	}
	rec.w.Flush()
	fmt.Printf("{\"behaviours\":%d,\"events\":%d}\n", n, rec.events)
}

func main() {
	if len(os.Args) < 2 {
		fatal("usage: h-ca replay|random ...")
	}
	fs := flag.NewFlagSet(os.Args[1], flag.ExitOnError)
	in := fs.String("in", "", "behaviours json")
	out := fs.String("out", "trace.ndjson", "output trace")
	seed := fs.Int64("seed", 1, "seed")
	n := fs.Int("n", 10, "number of random histories")
	length := fs.Int("len", 100, "length of each history")
	profile := fs.String("profile", "issue", "issue|roots")
	fs.IntVar(&initOps, "initops", 1, "record the manager's initialisation commands for every n-th history only")
	_ = fs.Parse(os.Args[2:])
	if initOps < 1 {
		initOps = 1
	}
	switch os.Args[1] {
	case "replay":
		replay(*profile, *in, *out)
	case "random":
		random(*profile, *seed, *n, *length, *out)
	default:
		fatal("unknown mode %s", os.Args[1])
	}
}
