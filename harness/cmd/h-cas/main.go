// h-cas: executor/recorder for property C10 (conditional writes are honest).
//
// For every conditional command type of the FSM it replays TLC-generated cell histories
// (put / del / cond(class)) through the REAL fsm.FSM.Apply and records, for each conditional
// command, the facts spec/CAS.tla judges: entity existence and modify index before, table index,
// supplied index, reply, entity after, and whether ANY row of ANY table changed.
package main

import (
	"strings"
	"bufio"
	"encoding/json"
	"flag"
	"fmt"
	"math/rand"
	"os"
	"strconv"

	"github.com/hashicorp/consul/agent/structs"
	"github.com/hashicorp/consul/api"
	"github.com/hashicorp/consul/types"
	sh "github.com/hashicorp/consul/verifharness/internal/storeh"
)

type M = sh.M

func fatal(f string, a ...any) {
	fmt.Fprintf(os.Stderr, "h-cas: "+f+"\n", a...)
	os.Exit(2)
}

// cellState is what the harness reads back through the public read API.
type cellState struct {
	exists bool
	mi     uint64 // entity modify index (0 if absent)
	tix    uint64 // index the command fences on when it fences on a table (CA roots)
	tag    string
}

// reply classes: "yes" success, "no" failure reported (false or error), "none" the reply cannot express failure
type adapter struct {
	name   string
	kind   string // Matched variant of spec/CAS.tla
	isdel  bool
	setup  func(h *sh.H, idx *uint64)
	put    func(h *sh.H, idx uint64, tag string) // unconditional create/update ; nil: use cond with the current index
	del    func(h *sh.H, idx uint64)             // unconditional delete ; nil: type cannot be deleted
	read   func(h *sh.H) cellState
	cond   func(h *sh.H, idx, sup uint64, tag string) string
	noZero bool // supplied index 0 means "unconditional" for this command: skip the class
}

func apply(h *sh.H, t structs.MessageType, req any, idx uint64) any {
	buf, err := structs.Encode(t, req)
	if err != nil {
		fatal("encode: %v", err)
	}
	_, raw, err := h.ApplyRaw(buf, idx)
	if err != nil {
		fatal("apply: %v", err)
	}
	return raw
}

func boolReply(raw any) string {
	switch r := raw.(type) {
	case bool:
		if r {
			return "yes"
		}
		return "no"
	case error:
		return "no"
	case nil:
		return "yes"
	case structs.TxnResponse:
		if len(r.Errors) == 0 {
			return "yes"
		}
		return "no"
	}
	return "yes"
}

const (
	node = "n1"
	key  = "cas/key"
)

func regNode(h *sh.H, idx uint64, tag string) {
	apply(h, structs.RegisterRequestType, &structs.RegisterRequest{Datacenter: "dc1", Node: node, Address: "10.0.0.1",
		NodeMeta: map[string]string{"tag": tag}}, idx)
}
func regService(h *sh.H, idx uint64, tag string) {
	apply(h, structs.RegisterRequestType, &structs.RegisterRequest{Datacenter: "dc1", Node: node, Address: "10.0.0.1", SkipNodeUpdate: true,
		Service: &structs.NodeService{ID: "w1", Service: "web", Port: 80, Meta: map[string]string{"tag": tag}}}, idx)
}
func regCheck(h *sh.H, idx uint64, tag string) {
	apply(h, structs.RegisterRequestType, &structs.RegisterRequest{Datacenter: "dc1", Node: node, Address: "10.0.0.1", SkipNodeUpdate: true,
		Check: &structs.HealthCheck{Node: node, CheckID: "c1", Name: "c1", Status: api.HealthPassing, Notes: tag}}, idx)
}

// txnPrefix, when set, is an operation placed IN FRONT of the conditional operation inside the same transaction
// (the conditional operation must then be judged against the state the transaction has reached, not the committed one)
var txnPrefix *structs.TxnOp

func txn1(h *sh.H, idx uint64, op *structs.TxnOp) string {
	ops := structs.TxnOps{op}
	if txnPrefix != nil {
		ops = structs.TxnOps{txnPrefix, op}
	}
	return boolReply(apply(h, structs.TxnRequestType, &structs.TxnRequest{Datacenter: "dc1", Ops: ops}, idx))
}

// writeOpFor returns the unconditional write of the adapter's entity as a transaction operation (nil: not a txn adapter)
func writeOpFor(name, tag string) *structs.TxnOp {
	switch {
	case strings.HasPrefix(name, "txn-kv"):
		return &structs.TxnOp{KV: &structs.TxnKVOp{Verb: api.KVSet, DirEnt: structs.DirEntry{Key: key, Value: []byte(tag)}}}
	case strings.HasPrefix(name, "txn-node"):
		return &structs.TxnOp{Node: &structs.TxnNodeOp{Verb: api.NodeSet, Node: structs.Node{Node: node, Address: "10.0.0.1", Meta: map[string]string{"tag": tag}}}}
	case strings.HasPrefix(name, "txn-service"):
		return &structs.TxnOp{Service: &structs.TxnServiceOp{Verb: api.ServiceSet, Node: node,
			Service: structs.NodeService{ID: "w1", Service: "web", Port: 80, Meta: map[string]string{"tag": tag}}}}
	case strings.HasPrefix(name, "txn-check"):
		return &structs.TxnOp{Check: &structs.TxnCheckOp{Verb: api.CheckSet, Check: structs.HealthCheck{Node: node, CheckID: "c1", Name: "c1", Status: api.HealthPassing, Notes: tag}}}
	}
	return nil
}

func kvRead(h *sh.H) cellState {
	_, e, _ := h.Store().KVSGet(nil, key, nil)
	if e == nil {
		return cellState{}
	}
	return cellState{exists: true, mi: e.ModifyIndex, tag: string(e.Value)}
}
func kvPut(h *sh.H, idx uint64, tag string) {
	apply(h, structs.KVSRequestType, &structs.KVSRequest{Datacenter: "dc1", Op: api.KVSet, DirEnt: structs.DirEntry{Key: key, Value: []byte(tag)}}, idx)
}
func kvDel(h *sh.H, idx uint64) {
	apply(h, structs.KVSRequestType, &structs.KVSRequest{Datacenter: "dc1", Op: api.KVDelete, DirEnt: structs.DirEntry{Key: key}}, idx)
}
func kvEnt(sup uint64, tag string) structs.DirEntry {
	d := structs.DirEntry{Key: key, Value: []byte(tag)}
	d.ModifyIndex = sup
	return d
}

func nodeRead(h *sh.H) cellState {
	_, n, _ := h.Store().GetNode(node, nil, "")
	if n == nil {
		return cellState{}
	}
	return cellState{exists: true, mi: n.ModifyIndex, tag: n.Meta["tag"]}
}
func svcRead(h *sh.H) cellState {
	_, s, _ := h.Store().NodeService(nil, node, "w1", nil, "")
	if s == nil {
		return cellState{}
	}
	return cellState{exists: true, mi: s.ModifyIndex, tag: s.Meta["tag"]}
}
func chkRead(h *sh.H) cellState {
	_, c, _ := h.Store().NodeCheck(node, "c1", nil, "")
	if c == nil {
		return cellState{}
	}
	return cellState{exists: true, mi: c.ModifyIndex, tag: c.Notes}
}
func dereg(h *sh.H, idx uint64, svc, chk string) {
	apply(h, structs.DeregisterRequestType, &structs.DeregisterRequest{Datacenter: "dc1", Node: node, ServiceID: svc, CheckID: types.CheckID(chk)}, idx)
}

func ceEntry(sup uint64, tag string) structs.ConfigEntry {
	e := &structs.ServiceConfigEntry{Kind: structs.ServiceDefaults, Name: "web", Protocol: "tcp", Meta: map[string]string{"tag": tag}}
	e.ModifyIndex = sup
	return e
}
func ceRead(h *sh.H) cellState {
	_, e, _ := h.Store().ConfigEntry(nil, structs.ServiceDefaults, "web", nil)
	if e == nil {
		return cellState{}
	}
	return cellState{exists: true, mi: e.GetRaftIndex().ModifyIndex, tag: e.GetMeta()["tag"]}
}
func ceApply(h *sh.H, idx uint64, op structs.ConfigEntryOp, e structs.ConfigEntry) any {
	return apply(h, structs.ConfigEntryRequestType, &structs.ConfigEntryRequest{Datacenter: "dc1", Op: op, Entry: e}, idx)
}

func caCfg(sup uint64, tag string) *structs.CAConfiguration {
	c := &structs.CAConfiguration{ClusterID: "11111111-2222-3333-4444-555555555555", Provider: "consul", Config: map[string]interface{}{"tag": tag}}
	c.ModifyIndex = sup
	return c
}
func caCfgRead(h *sh.H) cellState {
	_, c, _ := h.Store().CAConfig(nil)
	if c == nil {
		return cellState{}
	}
	t, _ := c.Config["tag"].(string)
	return cellState{exists: true, mi: c.ModifyIndex, tag: t}
}
func caRoots(tag string) []*structs.CARoot {
	return []*structs.CARoot{{ID: "root-" + tag, Name: tag, Active: true, RootCert: "cert-" + tag, SigningKeyID: "aa:bb"}}
}
func caRootsRead(h *sh.H) cellState {
	idx, roots, _ := h.Store().CARoots(nil)
	cs := cellState{tix: idx, mi: idx}
	for _, r := range roots {
		cs.exists = true
		if r.Active {
			cs.tag = r.Name
		}
	}
	return cs
}
func caApply(h *sh.H, idx uint64, req *structs.CARequest) any {
	req.Datacenter = "dc1"
	return apply(h, structs.ConnectCARequestType, req, idx)
}

func apRead(h *sh.H) cellState {
	_, c, _ := h.Store().AutopilotConfig()
	if c == nil {
		return cellState{}
	}
	return cellState{exists: true, mi: c.ModifyIndex, tag: strconv.FormatUint(c.MaxTrailingLogs, 10)}
}
func apCfg(sup uint64, tag string) structs.AutopilotConfig {
	n, _ := strconv.ParseUint(tag, 10, 64)
	c := structs.AutopilotConfig{MaxTrailingLogs: n, CleanupDeadServers: true}
	c.ModifyIndex = sup
	return c
}

var tokAccessor = sh.UUID("token-accessor")
var tokSecret = sh.UUID("token-secret")

func tokRead(h *sh.H) cellState {
	_, t, _ := h.Store().ACLTokenGetByAccessor(nil, tokAccessor, nil)
	if t == nil {
		return cellState{}
	}
	return cellState{exists: true, mi: t.ModifyIndex, tag: t.Description}
}
func tok(sup uint64, tag string) *structs.ACLToken {
	t := &structs.ACLToken{AccessorID: tokAccessor, SecretID: tokSecret, Description: tag}
	t.ModifyIndex = sup
	t.SetHash(true)
	return t
}

func adapters() []*adapter {
	needNode := func(h *sh.H, idx *uint64) { *idx++; regNode(h, *idx, "base") }
	return []*adapter{
		{name: "kv-cas", kind: "set", read: kvRead, put: kvPut, del: kvDel,
			cond: func(h *sh.H, idx, sup uint64, tag string) string {
				return boolReply(apply(h, structs.KVSRequestType, &structs.KVSRequest{Datacenter: "dc1", Op: api.KVCAS, DirEnt: kvEnt(sup, tag)}, idx))
			}},
		{name: "kv-delete-cas", kind: "del", isdel: true, read: kvRead, put: kvPut, del: kvDel,
			cond: func(h *sh.H, idx, sup uint64, tag string) string {
				return boolReply(apply(h, structs.KVSRequestType, &structs.KVSRequest{Datacenter: "dc1", Op: api.KVDeleteCAS, DirEnt: kvEnt(sup, "")}, idx))
			}},
		{name: "txn-kv-cas", kind: "set", read: kvRead, put: kvPut, del: kvDel,
			cond: func(h *sh.H, idx, sup uint64, tag string) string {
				return txn1(h, idx, &structs.TxnOp{KV: &structs.TxnKVOp{Verb: api.KVCAS, DirEnt: kvEnt(sup, tag)}})
			}},
		{name: "txn-kv-delete-cas", kind: "del", isdel: true, read: kvRead, put: kvPut, del: kvDel,
			cond: func(h *sh.H, idx, sup uint64, tag string) string {
				return txn1(h, idx, &structs.TxnOp{KV: &structs.TxnKVOp{Verb: api.KVDeleteCAS, DirEnt: kvEnt(sup, "")}})
			}},
		{name: "txn-node-cas", kind: "set", read: nodeRead, put: regNode, del: func(h *sh.H, idx uint64) { dereg(h, idx, "", "") },
			cond: func(h *sh.H, idx, sup uint64, tag string) string {
				n := structs.Node{Node: node, Address: "10.0.0.1", Meta: map[string]string{"tag": tag}}
				n.ModifyIndex = sup
				return txn1(h, idx, &structs.TxnOp{Node: &structs.TxnNodeOp{Verb: api.NodeCAS, Node: n}})
			}},
		// the same verb carrying a node ID that does not (yet) belong to the node registered under the name: the object
		// the write lands on - and the one whose index must match - is still the node of that NAME
		{name: "txn-node-cas-with-id", kind: "set", read: nodeRead, put: regNode, del: func(h *sh.H, idx uint64) { dereg(h, idx, "", "") },
			cond: func(h *sh.H, idx, sup uint64, tag string) string {
				n := structs.Node{ID: types.NodeID(sh.UUID("cas-node-id")), Node: node, Address: "10.0.0.1", Meta: map[string]string{"tag": tag}}
				n.ModifyIndex = sup
				return txn1(h, idx, &structs.TxnOp{Node: &structs.TxnNodeOp{Verb: api.NodeCAS, Node: n}})
			}},
		{name: "txn-node-delete-cas", kind: "del", isdel: true, read: nodeRead, put: regNode, del: func(h *sh.H, idx uint64) { dereg(h, idx, "", "") },
			cond: func(h *sh.H, idx, sup uint64, tag string) string {
				n := structs.Node{Node: node}
				n.ModifyIndex = sup
				return txn1(h, idx, &structs.TxnOp{Node: &structs.TxnNodeOp{Verb: api.NodeDeleteCAS, Node: n}})
			}},
		{name: "txn-service-cas", kind: "set", setup: needNode, read: svcRead, put: regService, del: func(h *sh.H, idx uint64) { dereg(h, idx, "w1", "") },
			cond: func(h *sh.H, idx, sup uint64, tag string) string {
				s := structs.NodeService{ID: "w1", Service: "web", Port: 80, Meta: map[string]string{"tag": tag}}
				s.ModifyIndex = sup
				return txn1(h, idx, &structs.TxnOp{Service: &structs.TxnServiceOp{Verb: api.ServiceCAS, Node: node, Service: s}})
			}},
		{name: "txn-service-delete-cas", kind: "del", isdel: true, setup: needNode, read: svcRead, put: regService, del: func(h *sh.H, idx uint64) { dereg(h, idx, "w1", "") },
			cond: func(h *sh.H, idx, sup uint64, tag string) string {
				s := structs.NodeService{ID: "w1"}
				s.ModifyIndex = sup
				return txn1(h, idx, &structs.TxnOp{Service: &structs.TxnServiceOp{Verb: api.ServiceDeleteCAS, Node: node, Service: s}})
			}},
		{name: "txn-check-cas", kind: "set", setup: needNode, read: chkRead, put: regCheck, del: func(h *sh.H, idx uint64) { dereg(h, idx, "", "c1") },
			cond: func(h *sh.H, idx, sup uint64, tag string) string {
				c := structs.HealthCheck{Node: node, CheckID: "c1", Name: "c1", Status: api.HealthPassing, Notes: tag}
				c.ModifyIndex = sup
				return txn1(h, idx, &structs.TxnOp{Check: &structs.TxnCheckOp{Verb: api.CheckCAS, Check: c}})
			}},
		{name: "txn-check-delete-cas", kind: "del", isdel: true, setup: needNode, read: chkRead, put: regCheck, del: func(h *sh.H, idx uint64) { dereg(h, idx, "", "c1") },
			cond: func(h *sh.H, idx, sup uint64, tag string) string {
				c := structs.HealthCheck{Node: node, CheckID: "c1"}
				c.ModifyIndex = sup
				return txn1(h, idx, &structs.TxnOp{Check: &structs.TxnCheckOp{Verb: api.CheckDeleteCAS, Check: c}})
			}},
		{name: "config-entry-upsert-cas", kind: "set", read: ceRead,
			put: func(h *sh.H, idx uint64, tag string) { ceApply(h, idx, structs.ConfigEntryUpsert, ceEntry(0, tag)) },
			del: func(h *sh.H, idx uint64) { ceApply(h, idx, structs.ConfigEntryDelete, ceEntry(0, "")) },
			cond: func(h *sh.H, idx, sup uint64, tag string) string {
				return boolReply(ceApply(h, idx, structs.ConfigEntryUpsertCAS, ceEntry(sup, tag)))
			}},
		{name: "config-entry-upsert-with-status-cas", kind: "set", read: ceRead,
			put: func(h *sh.H, idx uint64, tag string) { ceApply(h, idx, structs.ConfigEntryUpsert, ceEntry(0, tag)) },
			del: func(h *sh.H, idx uint64) { ceApply(h, idx, structs.ConfigEntryDelete, ceEntry(0, "")) },
			cond: func(h *sh.H, idx, sup uint64, tag string) string {
				return boolReply(ceApply(h, idx, structs.ConfigEntryUpsertWithStatusCAS, ceEntry(sup, tag)))
			}},
		{name: "config-entry-delete-cas", kind: "del", isdel: true, read: ceRead,
			put: func(h *sh.H, idx uint64, tag string) { ceApply(h, idx, structs.ConfigEntryUpsert, ceEntry(0, tag)) },
			del: func(h *sh.H, idx uint64) { ceApply(h, idx, structs.ConfigEntryDelete, ceEntry(0, "")) },
			cond: func(h *sh.H, idx, sup uint64, tag string) string {
				return boolReply(ceApply(h, idx, structs.ConfigEntryDeleteCAS, ceEntry(sup, "")))
			}},
		{name: "ca-config-cas", kind: "cfg", noZero: true, read: caCfgRead,
			put: func(h *sh.H, idx uint64, tag string) {
				caApply(h, idx, &structs.CARequest{Op: structs.CAOpSetConfig, Config: caCfg(0, tag)})
			},
			cond: func(h *sh.H, idx, sup uint64, tag string) string {
				return boolReply(caApply(h, idx, &structs.CARequest{Op: structs.CAOpSetConfig, Config: caCfg(sup, tag)}))
			}},
		{name: "ca-roots-cas", kind: "table", read: caRootsRead,
			cond: func(h *sh.H, idx, sup uint64, tag string) string {
				return boolReply(caApply(h, idx, &structs.CARequest{Op: structs.CAOpSetRoots, Index: sup, Roots: caRoots(tag)}))
			}},
		{name: "autopilot-cas", kind: "exist", read: apRead,
			put: func(h *sh.H, idx uint64, tag string) {
				apply(h, structs.AutopilotRequestType, &structs.AutopilotSetConfigRequest{Datacenter: "dc1", Config: apCfg(0, tag)}, idx)
			},
			cond: func(h *sh.H, idx, sup uint64, tag string) string {
				return boolReply(apply(h, structs.AutopilotRequestType, &structs.AutopilotSetConfigRequest{Datacenter: "dc1", Config: apCfg(sup, tag), CAS: true}, idx))
			}},
		{name: "acl-token-cas", kind: "set", read: tokRead,
			put: func(h *sh.H, idx uint64, tag string) {
				apply(h, structs.ACLTokenSetRequestType, &structs.ACLTokenBatchSetRequest{Tokens: structs.ACLTokens{tok(0, tag)}}, idx)
			},
			del: func(h *sh.H, idx uint64) {
				apply(h, structs.ACLTokenDeleteRequestType, &structs.ACLTokenBatchDeleteRequest{TokenIDs: []string{tokAccessor}}, idx)
			},
			cond: func(h *sh.H, idx, sup uint64, tag string) string {
				raw := apply(h, structs.ACLTokenSetRequestType, &structs.ACLTokenBatchSetRequest{Tokens: structs.ACLTokens{tok(sup, tag)}, CAS: true}, idx)
				if _, isErr := raw.(error); isErr {
					return "no"
				}
				return "none" // the command's reply is nil whether or not the token was written
			}},
	}
}

type recorder struct {
	w      *bufio.Writer
	events int
}

func (r *recorder) emit(ev M) {
	b, _ := json.Marshal(ev)
	r.w.Write(b)
	r.w.WriteByte('\n')
	r.events++
}

func supOf(class string, cs cellState, kind string, idx uint64) uint64 {
	cur := cs.mi
	if kind == "table" {
		cur = cs.tix
	}
	switch class {
	case "zero":
		return 0
	case "current":
		return cur
	case "stale":
		if cur > 1 {
			return cur - 1
		}
		return cur + 1
	}
	return idx + 7
}

func part(a *adapter, pre cellState, sup, idx uint64, tag string, reported string, post cellState, dumpChanged bool) M {
	return M{"type": a.name, "kind": a.kind, "isdel": a.isdel, "exists": pre.exists, "mi": pre.mi, "tix": pre.tix, "sup": sup, "idx": idx,
		"newtag": tag, "post_exists": post.exists, "post_mi": post.mi, "post_tag": post.tag, "reported": reported, "dump_changed": dumpChanged}
}

// run one generated cell history against one adapter
func runHistory(a *adapter, hist []M, rec *recorder, hid int) {
	h := sh.New()
	var idx uint64
	if a.setup != nil {
		a.setup(h, &idx)
	}
	step := 0
	for _, op := range hist {
		idx += 2
		step++
		tag := fmt.Sprintf("%d", 100*hid%9000+step+1000)
		switch op["op"] {
		case "put":
			if a.put != nil {
				a.put(h, idx, tag)
			} else {
				cs := a.read(h)
				a.cond(h, idx, supOf("current", cs, a.kind, idx), tag)
			}
			if got := a.read(h); !got.exists || got.tag != tag {
				fatal("%s: unconditional put did not take effect (%+v)", a.name, got)
			}
		case "del":
			if a.del == nil {
				return // this type cannot be deleted: history not applicable
			}
			a.del(h, idx)
			if got := a.read(h); got.exists {
				fatal("%s: unconditional delete did not take effect", a.name)
			}
		case "cond":
			class := op["class"].(string)
			if class == "zero" && a.noZero {
				continue
			}
			pre := a.read(h)
			sup := supOf(class, pre, a.kind, idx)
			before := sh.Dump(h.Store())
			reported := a.cond(h, idx, sup, tag)
			post := a.read(h)
			rec.emit(M{"cmd": M{"type": a.name, "class": class, "history": hist[:step]},
				"parts": []M{part(a, pre, sup, idx, tag, reported, post, sh.Dump(h.Store()) != before)}})
			// the same conditional operation as the SECOND operation of a transaction whose first operation writes the same
			// entity: what it is compared with is the state inside the transaction (the entity exists, modified at this
			// transaction's index); a transaction that fails leaves nothing of its first operation either
			if w := writeOpFor(a.name, tag+"w"); w != nil && pre.exists && strings.HasPrefix(a.name, "txn-") && a.name != "txn-node-cas-with-id" {
				for _, cl := range []string{"stale", "current"} {
					idx += 2
					pre2 := a.read(h)
					if !pre2.exists {
						break // the entity must exist before the transaction, so that a rolled-back transaction leaves it visible
					}
					sup2 := pre2.mi // "stale": the index the entity had before the transaction
					if cl == "current" {
						sup2 = idx // the index the first operation gives it
					}
					before2 := sh.Dump(h.Store())
					txnPrefix = w
					rep2 := a.cond(h, idx, sup2, tag+cl)
					txnPrefix = nil
					post2 := a.read(h)
					inTxn := cellState{exists: true, mi: idx, tix: pre2.tix, tag: tag + "w"}
					rec.emit(M{"cmd": M{"type": a.name, "class": "after-write-in-txn:" + cl, "history": hist[:step]},
						"parts": []M{part(a, inTxn, sup2, idx, tag+cl, rep2, post2, sh.Dump(h.Store()) != before2)}})
				}
			}
		}
	}
}

// token batch: ONE conditional command carrying several tokens. The tokens are independent cells: each is written iff
// its own expectation matches (the first token follows the generated cell history, the second always carries its
// current index, the third is a create-only of a fresh accessor); both orders of the first two.
func runTokenBatch(hist []M, rec *recorder, hid int) {
	acc2, sec2 := sh.UUID("token-accessor-2"), sh.UUID("token-secret-2")
	read := func(h *sh.H, acc string) cellState {
		_, t, _ := h.Store().ACLTokenGetByAccessor(nil, acc, nil)
		if t == nil {
			return cellState{}
		}
		return cellState{exists: true, mi: t.ModifyIndex, tag: t.Description}
	}
	mk := func(acc, sec string, sup uint64, tag string) *structs.ACLToken {
		t := &structs.ACLToken{AccessorID: acc, SecretID: sec, Description: tag}
		t.ModifyIndex = sup
		t.SetHash(true)
		return t
	}
	var a *adapter
	for _, x := range adapters() {
		if x.name == "acl-token-cas" {
			a = x
		}
	}
	for order := 0; order < 2; order++ {
		h := sh.New()
		var idx uint64 = 2
		apply(h, structs.ACLTokenSetRequestType, &structs.ACLTokenBatchSetRequest{Tokens: structs.ACLTokens{mk(acc2, sec2, 0, "second")}}, idx)
		step := 0
		for _, op := range hist {
			idx += 2
			step++
			tag := fmt.Sprintf("%d", 100*hid%9000+step+1000)
			switch op["op"] {
			case "put":
				a.put(h, idx, tag)
			case "del":
				a.del(h, idx)
			case "cond":
				class := op["class"].(string)
				acc3, sec3 := sh.UUID(fmt.Sprintf("token-accessor-3-%d-%d", hid, step)), sh.UUID(fmt.Sprintf("token-secret-3-%d-%d", hid, step))
				pre1, pre2, pre3 := read(h, tokAccessor), read(h, acc2), read(h, acc3)
				sup1 := supOf(class, pre1, "set", idx)
				t1, t2, t3 := tok(sup1, tag), mk(acc2, sec2, pre2.mi, tag+"b"), mk(acc3, sec3, 0, tag+"c")
				toks := structs.ACLTokens{t1, t2, t3}
				if order == 1 {
					toks = structs.ACLTokens{t2, t3, t1}
				}
				raw := apply(h, structs.ACLTokenSetRequestType, &structs.ACLTokenBatchSetRequest{Tokens: toks, CAS: true}, idx)
				reported := "none"
				if _, isErr := raw.(error); isErr {
					reported = "no"
				}
				post1, post2, post3 := read(h, tokAccessor), read(h, acc2), read(h, acc3)
				p1 := part(a, pre1, sup1, idx, tag, reported, post1, post1 != pre1)
				p2 := part(a, pre2, pre2.mi, idx, tag+"b", reported, post2, post2 != pre2)
				p3 := part(a, pre3, 0, idx, tag+"c", reported, post3, post3 != pre3)
				p1["type"], p2["type"], p3["type"] = "acl-token-batch.first", "acl-token-batch.second", "acl-token-batch.fresh"
				rec.emit(M{"cmd": M{"type": "acl-token-cas", "batch": 3, "class": class, "order": order, "history": hist[:step]}, "independent": true, "parts": []M{p1, p2, p3}})
			}
		}
	}
}

// composite: CA roots + CA config in one command. Cell histories drive both cells; the conditional
// step is expanded over every class for the config half.
func runComposite(hist []M, rec *recorder, hid int) {
	ads := adapters()
	var roots, cfg *adapter
	for _, a := range ads {
		if a.name == "ca-roots-cas" {
			roots = a
		}
		if a.name == "ca-config-cas" {
			cfg = a
		}
	}
	for _, cfgClass := range []string{"zero", "current", "stale", "future"} {
		h := sh.New()
		var idx uint64
		step := 0
		ok := true
		for _, op := range hist {
			idx += 2
			step++
			tag := fmt.Sprintf("%d", 100*hid%9000+step+1000)
			switch op["op"] {
			case "put":
				cs := roots.read(h)
				roots.cond(h, idx, cs.tix, tag)
				idx++
				cfg.put(h, idx, tag)
			case "del":
				ok = false
			case "cond":
				class := op["class"].(string)
				preR, preC := roots.read(h), cfg.read(h)
				supR := supOf(class, preR, "table", idx)
				supC := supOf(cfgClass, preC, "cfg", idx)
				before := sh.Dump(h.Store())
				reported := boolReply(caApply(h, idx, &structs.CARequest{Op: structs.CAOpSetRootsAndConfig, Index: supR, Roots: caRoots(tag), Config: caCfg(supC, tag)}))
				postR, postC := roots.read(h), cfg.read(h)
				changed := sh.Dump(h.Store()) != before
				pr := part(roots, preR, supR, idx, tag, reported, postR, changed)
				pc := part(cfg, preC, supC, idx, tag, reported, postC, changed)
				pr["type"], pc["type"] = "ca-composite.roots", "ca-composite.config"
				rec.emit(M{"cmd": M{"type": "ca-roots-and-config", "class": class, "class2": cfgClass, "history": hist[:step]}, "composite": true, "parts": []M{pr, pc}})
			}
			if !ok {
				break
			}
		}
	}
}

// feature gates: one command fenced on two singleton cells (policy, status)
func runFeatureGate(r *rand.Rand, n int, rec *recorder) {
	classes := []string{"zero", "current", "stale", "future"}
	read := func(h *sh.H) (cellState, cellState) {
		_, p, s, _ := h.Store().FeatureGatePolicyAndStatus(nil)
		var a, b cellState
		if p != nil {
			a = cellState{exists: true, mi: p.ModifyIndex, tag: fmt.Sprint(p.Settings["f"].Enabled, p.Settings["tag"].Source)}
		}
		if s != nil {
			b = cellState{exists: true, mi: s.ModifyIndex, tag: s.RegistryDigest}
		}
		return a, b
	}
	seqs := [][][2]string{}
	for _, c1 := range classes {
		for _, c2 := range classes {
			seqs = append(seqs, [][2]string{{c1, c2}})
			for _, c3 := range classes {
				for _, c4 := range classes {
					seqs = append(seqs, [][2]string{{"zero", "zero"}, {c1, c2}, {c3, c4}})
				}
			}
		}
	}
	for i := 0; i < n; i++ {
		l := 2 + r.Intn(4)
		s := [][2]string{}
		for j := 0; j < l; j++ {
			s = append(s, [2]string{classes[r.Intn(4)], classes[r.Intn(4)]})
		}
		seqs = append(seqs, s)
	}
	pa := &adapter{name: "feature-gate.policy", kind: "cfg"}
	sa := &adapter{name: "feature-gate.status", kind: "cfg"}
	for hid, seq := range seqs {
		h := sh.New()
		var idx uint64
		for step, cl := range seq {
			idx += 2
			tag := fmt.Sprintf("%d", 100*hid%9000+step+1000)
			preP, preS := read(h)
			supP, supS := supOf(cl[0], preP, "cfg", idx), supOf(cl[1], preS, "cfg", idx)
			req := &structs.FeatureGateUpdateRequest{
				Policy:              &structs.FeatureGatePolicy{Settings: map[string]structs.FeatureGateSetting{"f": {Enabled: true}, "tag": {Source: structs.FeatureGateSettingSource(tag)}}},
				Status:              &structs.FeatureGateStatus{RegistryDigest: tag},
				ExpectedPolicyIndex: supP, ExpectedStatusIndex: supS}
			before := sh.Dump(h.Store())
			reported := boolReply(apply(h, structs.FeatureGateRequestType, req, idx))
			postP, postS := read(h)
			changed := sh.Dump(h.Store()) != before
			ptag := fmt.Sprint(true, structs.FeatureGateSettingSource(tag))
			pp := part(pa, preP, supP, idx, ptag, reported, postP, changed)
			ps := part(sa, preS, supS, idx, tag, reported, postS, changed)
			hist := []M{}
			for _, c := range seq[:step+1] {
				hist = append(hist, M{"op": "cond", "class": c[0], "class2": c[1]})
			}
			rec.emit(M{"cmd": M{"type": "feature-gate", "class": cl[0], "class2": cl[1], "history": hist}, "composite": true, "parts": []M{pp, ps}})
		}
	}
}

func main() {
	in := flag.String("in", "", "generated cell histories (json)")
	out := flag.String("out", "trace.ndjson", "output")
	seed := flag.Int64("seed", 1, "seed")
	nrand := flag.Int("random", 200, "random cell histories per type")
	rlen := flag.Int("len", 12, "length of random histories")
	flag.Parse()
	var hists [][]M
	if *in != "" {
		b, err := os.ReadFile(*in)
		if err != nil {
			fatal("%v", err)
		}
		if err := json.Unmarshal(b, &hists); err != nil {
			fatal("%v", err)
		}
	}
	r := rand.New(rand.NewSource(*seed))
	classes := []string{"zero", "current", "current", "stale", "future"}
	for i := 0; i < *nrand; i++ {
		h := []M{}
		for j := 0; j < *rlen; j++ {
			switch r.Intn(5) {
			case 0:
				h = append(h, M{"op": "put"})
			case 1:
				h = append(h, M{"op": "del"})
			default:
				h = append(h, M{"op": "cond", "class": classes[r.Intn(len(classes))]})
			}
		}
		hists = append(hists, h)
	}
	f, err := os.Create(*out)
	if err != nil {
		fatal("%v", err)
	}
	defer f.Close()
	rec := &recorder{w: bufio.NewWriterSize(f, 1<<20)}
	for _, a := range adapters() {
		for hid, h := range hists {
			runHistory(a, h, rec, hid)
		}
	}
	for hid, h := range hists {
		runComposite(h, rec, hid)
	}
	for hid, h := range hists {
		runTokenBatch(h, rec, hid)
	}
	runFeatureGate(r, *nrand, rec)
	rec.w.Flush()
	fmt.Printf("{\"histories\":%d,\"types\":%d,\"events\":%d}\n", len(hists), len(adapters())+2, rec.events)
}
