// h-intent: executor/recorder for C13 (intention precedence, order independence).
//
//	h-intent replay -in groups.json -out trace.ndjson      replay TLC-generated write histories
//	h-intent random -seed S -n N -out trace.ndjson         seeded random driver over a larger universe
//
// A group is a set of write histories (usually all permutations of the same writes) for one
// representation: "ce-entry" (service-intentions config entries written with EnsureConfigEntry),
// "ce-upsert" (Store.IntentionMutation upsert/delete), "legacy" (connect-intentions table,
// LegacyIntentionSet/Delete).  Every history is applied to a FRESH real state.Store and the
// public read API is recorded: Store.Intentions (list order), Store.IntentionMatch and
// Store.IntentionMatchOne by source and by destination, Store.IntentionDecision through both
// routes, connect.AuthorizeIntentionTarget.  One NDJSON event per group; a run whose recorded
// observation is byte-identical to an earlier run of the group is written as {"same": k}
// (lossless compression, no judgement).  TLC (spec/IntentionsTrace.tla) decides.
package main

import (
	"bufio"
	"bytes"
	"crypto/sha1"
	"encoding/json"
	"flag"
	"fmt"
	"math/rand"
	"os"
	"runtime"
	"sort"
	"sync"
	"time"

	"github.com/hashicorp/consul/agent/connect"
	"github.com/hashicorp/consul/agent/consul/state"
	"github.com/hashicorp/consul/agent/structs"
)

type M = map[string]any

type Ixn struct {
	Src  string `json:"src"`
	Peer string `json:"peer"`
	Dst  string `json:"dst"`
	Act  string `json:"act"`
}

type Op struct {
	Op  string `json:"op"` // name-keyed: upsert | delete ; identity-addressed: create | update | remove
	ID  string `json:"id"` // abstract identity ("" for name-keyed writes)
	Ixn Ixn    `json:"ixn"`
}

type Group struct {
	Rep   string `json:"rep"`
	Hists [][]Op `json:"hists"`
}

type Input struct {
	Names   []string    `json:"names"`   // exact names to query (the fresh name included)
	Callers [][2]string `json:"callers"` // (name, peer) callers to query ("" = local)
	Groups  []Group     `json:"groups"`
}

func fatal(f string, a ...any) {
	fmt.Fprintf(os.Stderr, "h-intent: "+f+"\n", a...)
	os.Exit(2)
}

const ns = "default"

func l7perms() []*structs.IntentionPermission {
	return []*structs.IntentionPermission{{Action: structs.IntentionActionAllow, HTTP: &structs.IntentionHTTPPermission{PathPrefix: "/"}}}
}

func sourceOf(i Ixn) *structs.SourceIntention {
	s := &structs.SourceIntention{Name: i.Src, Peer: i.Peer, Type: structs.IntentionSourceConsul}
	if i.Act == "l7" {
		s.Permissions = l7perms()
	} else {
		s.Action = structs.IntentionAction(i.Act)
	}
	return s
}

func legacyID(i Ixn) string {
	return uuidOf(i.Src + "\x00" + i.Peer + "\x00" + i.Dst)
}

func uuidOf(s string) string {
	h := sha1.Sum([]byte(s))
	return fmt.Sprintf("%x-%x-%x-%x-%x", h[0:4], h[4:6], h[6:8], h[8:10], h[10:16])
}

// legacyTime: the endpoint stamps legacy writes with time.Now(); a constant keeps the harness off the wall clock
var legacyTime = time.Unix(1600000000, 0).UTC()

type runner struct {
	rep string
	s   *state.Store
	idx uint64
}

func newRunner(rep string, names []string) *runner {
	r := &runner{rep: rep, s: state.NewStateStore(nil), idx: 1}
	// the catalog the intention topology scans: one typical instance per service of the universe
	for k, n := range names {
		r.idx++
		req := &structs.RegisterRequest{Node: "n1", Address: "10.0.0.1",
			Service: &structs.NodeService{ID: n, Service: n, Port: 8000 + k}}
		if err := r.s.EnsureRegistration(r.idx, req); err != nil {
			fatal("register %q: %v", n, err)
		}
	}
	if rep != "legacy" && rep != "legacy-id" {
		// what the leader does once at startup (LegacyIntentionDeleteAll sets the same key)
		r.idx++
		if err := r.s.SystemMetadataSet(r.idx, &structs.SystemMetadataEntry{
			Key: structs.SystemMetadataIntentionFormatKey, Value: structs.SystemMetadataIntentionFormatConfigValue}); err != nil {
			fatal("system metadata: %v", err)
		}
		// permissions are only accepted on HTTP destinations
		r.idx++
		pd := &structs.ProxyConfigEntry{Kind: structs.ProxyDefaults, Name: structs.ProxyConfigGlobal, Config: map[string]interface{}{"protocol": "http"}}
		if err := pd.Normalize(); err != nil {
			fatal("proxy-defaults: %v", err)
		}
		if err := r.s.EnsureConfigEntry(r.idx, pd); err != nil {
			fatal("proxy-defaults: %v", err)
		}
	}
	return r
}

// apply executes one abstract write; the returned error is recorded as a class only.
func (r *runner) apply(o Op) error {
	r.idx++
	i := o.Ixn
	switch r.rep {
	case "legacy":
		if o.Op == "delete" {
			return r.s.LegacyIntentionDelete(r.idx, legacyID(i))
		}
		ixn := &structs.Intention{ID: legacyID(i), SourceNS: ns, SourceName: i.Src, DestinationNS: ns, DestinationName: i.Dst,
			SourceType: structs.IntentionSourceConsul, Action: structs.IntentionAction(i.Act)}
		//nolint:staticcheck
		if err := ixn.Validate(); err != nil {
			return err
		}
		return r.s.LegacyIntentionSet(r.idx, ixn)
	case "legacy-id":
		// the legacy table addressed by UUID: a Set under an existing ID replaces the whole record
		id := uuidOf("id:" + o.ID)
		if o.Op == "remove" {
			return r.s.LegacyIntentionDelete(r.idx, id)
		}
		ixn := &structs.Intention{ID: id, SourceNS: ns, SourceName: i.Src, DestinationNS: ns, DestinationName: i.Dst,
			SourceType: structs.IntentionSourceConsul, Action: structs.IntentionAction(i.Act)}
		//nolint:staticcheck
		if err := ixn.Validate(); err != nil {
			return err
		}
		return r.s.LegacyIntentionSet(r.idx, ixn)
	case "ce-legacyid":
		// the legacy API after the migration: Intention.Apply create/update/delete by ID becomes an
		// IntentionMutation keyed by SourceIntention.LegacyID (computeApplyChangesLegacy*)
		id := uuidOf("id:" + o.ID)
		if o.Op == "remove" {
			return r.s.IntentionMutation(r.idx, structs.IntentionOpDelete, &structs.IntentionMutation{ID: id})
		}
		ixn := &structs.Intention{ID: id, SourceNS: ns, SourceName: i.Src, DestinationNS: ns, DestinationName: i.Dst,
			SourceType: structs.IntentionSourceConsul, Action: structs.IntentionAction(i.Act), CreatedAt: legacyTime, UpdatedAt: legacyTime}
		//nolint:staticcheck
		if err := ixn.Validate(); err != nil {
			return err
		}
		val := ixn.ToSourceIntention(true)
		if o.Op == "create" {
			return r.s.IntentionMutation(r.idx, structs.IntentionOpCreate, &structs.IntentionMutation{Destination: ixn.DestinationServiceName(), Value: val})
		}
		return r.s.IntentionMutation(r.idx, structs.IntentionOpUpdate, &structs.IntentionMutation{ID: id, Value: val})
	case "ce-upsert":
		mut := &structs.IntentionMutation{Destination: structs.NewServiceName(i.Dst, nil), Source: structs.NewServiceName(i.Src, nil)}
		if o.Op == "delete" {
			return r.s.IntentionMutation(r.idx, structs.IntentionOpDelete, mut)
		}
		mut.Value = sourceOf(i)
		return r.s.IntentionMutation(r.idx, structs.IntentionOpUpsert, mut)
	case "ce-entry":
		_, cur, err := r.s.ConfigEntry(nil, structs.ServiceIntentions, i.Dst, nil)
		if err != nil {
			return err
		}
		var e *structs.ServiceIntentionsConfigEntry
		if cur != nil {
			e = cur.(*structs.ServiceIntentionsConfigEntry).Clone()
		} else {
			e = &structs.ServiceIntentionsConfigEntry{Kind: structs.ServiceIntentions, Name: i.Dst}
		}
		at := -1
		for k, s := range e.Sources {
			if s.Name == i.Src && s.Peer == i.Peer {
				at = k
			}
		}
		if o.Op == "delete" {
			if at < 0 {
				return nil
			}
			e.Sources = append(e.Sources[:at:at], e.Sources[at+1:]...)
			if len(e.Sources) == 0 {
				return r.s.DeleteConfigEntry(r.idx, structs.ServiceIntentions, i.Dst, nil)
			}
		} else if at >= 0 {
			e.Sources[at] = sourceOf(i)
		} else {
			e.Sources = append(e.Sources, sourceOf(i))
		}
		// ConfigEntry.Apply: Normalize + Validate, then the FSM calls EnsureConfigEntry
		if err := e.Normalize(); err != nil {
			return err
		}
		if err := e.Validate(); err != nil {
			return err
		}
		return r.s.EnsureConfigEntry(r.idx, e)
	}
	fatal("unknown representation %q", r.rep)
	return nil
}

func rec(x *structs.Intention) []any {
	act := string(x.Action)
	if len(x.Permissions) > 0 {
		act = "l7"
	}
	return []any{x.SourceName, x.SourcePeer, x.DestinationName, act, x.Precedence}
}

func bits(d structs.IntentionDecisionSummary) string {
	b := []byte("0000")
	for k, v := range []bool{d.Allowed, d.HasPermissions, d.HasExact, d.DefaultAllow} {
		if v {
			b[k] = '1'
		}
	}
	return string(b)
}

func recs(l structs.Intentions) [][]any {
	out := make([][]any, 0, len(l))
	for _, x := range l {
		out = append(out, rec(x))
	}
	return out
}

// observe records the public read API.  Tuples (positional, to keep the trace small):
//
//	list : [src, peer, dst, act, prec]                          Store.Intentions, in returned order
//	msrc/mdst : [name, "match"|"matchone", [list tuples]]       Store.IntentionMatch / IntentionMatchOne
//	dec  : [route, s, speer, d, default, summary(AllowPermissions=false), summary(AllowPermissions=true)]
//	        summary = 4 chars '0'/'1': Allowed, HasPermissions, HasExact, DefaultAllow
//	        route "src": IntentionMatchOne(source s) then IntentionDecision(target d)   (Intention.Check)
//	        route "dst": IntentionMatchOne(destination d) then IntentionDecision(target s, peer)
//	topo : [target, "up"|"down", default, [sorted service names]]      Store.IntentionTopology
//	cands: the services registered in the catalog (typical instances)
//	auth : [index into list, "source"|"destination", target, target peer, match, auth]   connect.AuthorizeIntentionTarget
func (r *runner) observe(names []string, callers [][2]string) M {
	s := r.s
	_, all, _, err := s.Intentions(nil, structs.WildcardEnterpriseMetaInDefaultPartition())
	if err != nil {
		fatal("Intentions: %v", err)
	}
	obs := M{"list": recs(all)}

	match := func(t structs.IntentionMatchType, qn []string) [][]any {
		out := [][]any{}
		for _, n := range qn {
			entry := structs.IntentionMatchEntry{Namespace: ns, Partition: "default", Name: n}
			_, ms, err := s.IntentionMatch(nil, &structs.IntentionQueryMatch{Type: t, Entries: []structs.IntentionMatchEntry{entry}})
			if err != nil {
				fatal("IntentionMatch: %v", err)
			}
			if len(ms) != 1 {
				fatal("IntentionMatch returned %d lists for one entry", len(ms))
			}
			out = append(out, []any{n, "match", recs(ms[0])})
			_, one, err := s.IntentionMatchOne(nil, entry, t, structs.IntentionTargetService)
			if err != nil {
				fatal("IntentionMatchOne: %v", err)
			}
			out = append(out, []any{n, "matchone", recs(structs.Intentions(one))})
		}
		return out
	}
	withWild := append(append([]string{}, names...), structs.WildcardSpecifier)
	obs["msrc"] = match(structs.IntentionMatchSource, withWild)
	obs["mdst"] = match(structs.IntentionMatchDestination, withWild)

	dec := [][]any{}
	decide := func(route string, sn, sp, dn string, list structs.SimplifiedIntentions) {
		for _, def := range []bool{false, true} {
			var got [2]structs.IntentionDecisionSummary
			for k, ap := range []bool{false, true} {
				o := state.IntentionDecisionOpts{Namespace: ns, Partition: "default", Intentions: list, DefaultAllow: def, AllowPermissions: ap}
				if route == "src" {
					o.Target, o.MatchType = dn, structs.IntentionMatchDestination
				} else {
					o.Target, o.Peer, o.MatchType = sn, sp, structs.IntentionMatchSource
				}
				d, err := s.IntentionDecision(o)
				if err != nil {
					fatal("IntentionDecision: %v", err)
				}
				got[k] = d
			}
			defs := "deny"
			if def {
				defs = "allow"
			}
			dec = append(dec, []any{route, sn, sp, dn, defs, bits(got[0]), bits(got[1])})
		}
	}
	for _, sn := range names {
		_, bySrc, err := s.IntentionMatchOne(nil, structs.IntentionMatchEntry{Namespace: ns, Partition: "default", Name: sn}, structs.IntentionMatchSource, structs.IntentionTargetService)
		if err != nil {
			fatal("IntentionMatchOne: %v", err)
		}
		for _, dn := range names {
			decide("src", sn, "", dn, bySrc)
		}
	}
	for _, dn := range names {
		_, byDst, err := s.IntentionMatchOne(nil, structs.IntentionMatchEntry{Namespace: ns, Partition: "default", Name: dn}, structs.IntentionMatchDestination, structs.IntentionTargetService)
		if err != nil {
			fatal("IntentionMatchOne: %v", err)
		}
		for _, c := range callers {
			decide("dst", c[0], c[1], dn, byDst)
		}
	}
	obs["dec"] = dec

	auth := [][]any{}
	for k, x := range all {
		for _, c := range callers {
			a, m := connect.AuthorizeIntentionTarget(c[0], ns, "", c[1], x, structs.IntentionMatchSource)
			auth = append(auth, []any{k + 1, "source", c[0], c[1], m, a})
		}
		for _, n := range names {
			a, m := connect.AuthorizeIntentionTarget(n, ns, "", "", x, structs.IntentionMatchDestination)
			auth = append(auth, []any{k + 1, "destination", n, "", m, a})
		}
	}
	obs["auth"] = auth

	// Store.IntentionTopology (ServiceTopology / IntentionUpstreams endpoints): the registered services
	// the target may call ("up") or may be called by ("down"), per default policy.  Result order comes
	// from a Go map; the names are sorted (a set has no order).
	topo := [][]any{}
	for _, t := range names {
		for _, down := range []bool{false, true} {
			for _, def := range []bool{false, true} {
				_, list, err := s.IntentionTopology(nil, structs.NewServiceName(t, nil), down, def, structs.IntentionTargetService)
				if err != nil {
					fatal("IntentionTopology: %v", err)
				}
				got := make([]string, 0, len(list))
				for _, sn := range list {
					got = append(got, sn.Name)
				}
				sort.Strings(got)
				dir, defs := "up", "deny"
				if down {
					dir = "down"
				}
				if def {
					defs = "allow"
				}
				topo = append(topo, []any{t, dir, defs, got})
			}
		}
	}
	obs["topo"] = topo
	obs["cands"] = names
	return obs
}

func runGroup(g Group, names []string, callers [][2]string) []byte {
	var runs []M
	var seen [][]byte
	for _, h := range g.Hists {
		r := newRunner(g.Rep, names)
		werr := make([]bool, 0, len(h))
		for _, o := range h {
			werr = append(werr, r.apply(o) != nil)
		}
		ob, err := json.Marshal(r.observe(names, callers))
		if err != nil {
			fatal("marshal: %v", err)
		}
		run := M{"hist": h, "werr": werr}
		same := 0
		for k, prev := range seen {
			if prev != nil && bytes.Equal(prev, ob) {
				same = k + 1
				break
			}
		}
		if same > 0 {
			run["same"] = same
			seen = append(seen, nil)
		} else {
			run["obs"] = json.RawMessage(ob)
			seen = append(seen, ob)
		}
		runs = append(runs, run)
	}
	b, err := json.Marshal(M{"rep": g.Rep, "runs": runs})
	if err != nil {
		fatal("marshal: %v", err)
	}
	return b
}

func runAll(in Input, out string) {
	res := make([][]byte, len(in.Groups))
	var wg sync.WaitGroup
	ch := make(chan int, 64)
	nw := runtime.NumCPU()
	if nw > 8 {
		nw = 8
	}
	for w := 0; w < nw; w++ {
		wg.Add(1)
		go func() {
			defer wg.Done()
			for k := range ch {
				res[k] = runGroup(in.Groups[k], in.Names, in.Callers)
			}
		}()
	}
	for k := range in.Groups {
		ch <- k
	}
	close(ch)
	wg.Wait()
	f, err := os.Create(out)
	if err != nil {
		fatal("%v", err)
	}
	w := bufio.NewWriterSize(f, 1<<20)
	nh := 0
	for k, b := range res {
		w.Write(b)
		w.WriteByte('\n')
		nh += len(in.Groups[k].Hists)
	}
	w.Flush()
	f.Close()
	fmt.Printf("{\"behaviours\":%d,\"events\":%d}\n", nh, len(res))
}

// ---------------------------------------------------------------- random driver

func permute(r *rand.Rand, ops []Op) []Op {
	p := append([]Op{}, ops...)
	r.Shuffle(len(p), func(a, b int) { p[a], p[b] = p[b], p[a] })
	return p
}

func randomInput(seed int64, n int) Input {
	r := rand.New(rand.NewSource(seed))
	names := []string{"web", "api", "db", "web-2", "a.b", "cache", "zz-fresh"}
	srcNames := names[:6]
	peers := []string{"", "p", "q"}
	reps := []string{"ce-entry", "ce-entry", "ce-upsert", "legacy"}
	in := Input{Names: names}
	for _, n := range names {
		for _, p := range peers {
			in.Callers = append(in.Callers, [2]string{n, p})
		}
	}
	in.Callers = append(in.Callers, [2]string{"web", "otherpeer"})
	for g := 0; g < n; g++ {
		rep := reps[r.Intn(len(reps))]
		size := 1 + r.Intn(7)
		keys := map[string]bool{}
		var ops []Op
		for len(ops) < size {
			i := Ixn{Src: srcNames[r.Intn(len(srcNames))], Dst: srcNames[r.Intn(4)], Peer: peers[r.Intn(3)], Act: []string{"allow", "deny", "l7"}[r.Intn(3)]}
			if r.Intn(3) == 0 {
				i.Src = "*"
			}
			if r.Intn(3) == 0 {
				i.Dst = "*"
			}
			if rep != "ce-entry" {
				i.Peer = ""
			}
			if rep == "legacy" && i.Act == "l7" {
				i.Act = "deny"
			}
			if i.Act == "l7" && i.Dst == "*" {
				i.Act = "allow"
			}
			k := i.Src + "|" + i.Peer + "|" + i.Dst
			if keys[k] {
				continue
			}
			keys[k] = true
			ops = append(ops, Op{Op: "upsert", Ixn: i})
		}
		grp := Group{Rep: rep}
		if g%5 == 4 {
			// identity-addressed history: creations, updates by identity that move the source and/or the
			// destination between exact and wildcard, removals
			grp.Rep = []string{"legacy-id", "ce-legacyid"}[r.Intn(2)]
			var h []Op
			live := map[string]Ixn{}
			n := 0
			steps := 2 + r.Intn(7)
			for k := 0; k < steps; k++ {
				pick := func() Ixn {
					i := Ixn{Src: srcNames[r.Intn(4)], Dst: srcNames[r.Intn(3)], Act: []string{"allow", "deny"}[r.Intn(2)]}
					if r.Intn(3) == 0 {
						i.Src = "*"
					}
					if r.Intn(3) == 0 {
						i.Dst = "*"
					}
					return i
				}
				var ids []string
				for id := range live {
					ids = append(ids, id)
				}
				sort.Strings(ids)
				switch x := r.Intn(6); {
				case len(ids) == 0 || x < 2:
					n++
					id := fmt.Sprintf("i%d", n)
					i := pick()
					h = append(h, Op{Op: "create", ID: id, Ixn: i})
					taken := false
					for _, l := range live {
						if l.Src == i.Src && l.Dst == i.Dst {
							taken = true
						}
					}
					if !taken {
						live[id] = i
					}
				case x < 5:
					id := ids[r.Intn(len(ids))]
					i := pick()
					if grp.Rep == "ce-legacyid" {
						i.Dst = live[id].Dst
					}
					h = append(h, Op{Op: "update", ID: id, Ixn: i})
					taken := false
					for lid, l := range live {
						if lid != id && l.Src == i.Src && l.Dst == i.Dst {
							taken = true
						}
					}
					if !taken {
						live[id] = i
					}
				default:
					id := ids[r.Intn(len(ids))]
					h = append(h, Op{Op: "remove", ID: id, Ixn: live[id]})
					delete(live, id)
				}
			}
			grp.Hists = append(grp.Hists, h)
		} else if r.Intn(4) > 0 {
			// permutations of the same creations
			grp.Hists = append(grp.Hists, ops)
			rev := make([]Op, 0, len(ops))
			for k := len(ops) - 1; k >= 0; k-- {
				rev = append(rev, ops[k])
			}
			grp.Hists = append(grp.Hists, rev)
			for k := 0; k < 4; k++ {
				grp.Hists = append(grp.Hists, permute(r, ops))
			}
		} else {
			// edit history: creations interleaved with updates and deletes
			h := permute(r, ops)
			extra := 1 + r.Intn(4)
			for k := 0; k < extra; k++ {
				o := ops[r.Intn(len(ops))]
				if r.Intn(2) == 0 {
					o.Op = "delete"
				} else if o.Ixn.Act == "allow" {
					o.Ixn.Act = "deny"
				} else {
					o.Ixn.Act = "allow"
				}
				at := r.Intn(len(h) + 1)
				h = append(h[:at:at], append([]Op{o}, h[at:]...)...)
			}
			grp.Hists = append(grp.Hists, h)
		}
		in.Groups = append(in.Groups, grp)
	}
	return in
}

func main() {
	if len(os.Args) < 2 {
		fatal("usage: h-intent replay|random ...")
	}
	fs := flag.NewFlagSet(os.Args[1], flag.ExitOnError)
	inF := fs.String("in", "", "groups json")
	outF := fs.String("out", "", "trace ndjson")
	seed := fs.Int64("seed", 1, "seed")
	n := fs.Int("n", 100, "random groups")
	fs.Parse(os.Args[2:])
	switch os.Args[1] {
	case "replay":
		b, err := os.ReadFile(*inF)
		if err != nil {
			fatal("%v", err)
		}
		var in Input
		if err := json.Unmarshal(b, &in); err != nil {
			fatal("decode: %v", err)
		}
		runAll(in, *outF)
	case "random":
		runAll(randomInput(*seed, *n), *outF)
	default:
		fatal("unknown command %q", os.Args[1])
	}
}
