// h-rpc: endpoint-level executor/recorder for the Store family (C03, C04, C05 and the endpoint
// halves of C01 / C06).
//
// One REAL single-node consul.Server (real Raft, real RPC endpoints, real leader loop) is started
// per history through the verif hook agent/consul/verif_export_server.go. The abstract commands of
// spec/Store.tla are issued through KVS.Apply, Session.Apply, Txn.Apply, Catalog.Register /
// Deregister; session TTL expiry is awaited for real. After every command the state machine behind
// the server is projected exactly as h-store does, plus the read endpoints KVS.Get / KVS.List /
// KVS.ListKeys. spec/StoreTrace.tla judges every step.
package main

import (
	"bufio"
	"context"
	"encoding/json"
	"flag"
	"fmt"
	"math/rand"
	"os"
	"sort"
	"time"

	"github.com/hashicorp/consul/agent/consul"
	"github.com/hashicorp/consul/agent/structs"
	"github.com/hashicorp/consul/api"
	sh "github.com/hashicorp/consul/verifharness/internal/storeh"
)

type M = sh.M

const serverNode = "verif-server"

func fatal(f string, a ...any) {
	fmt.Fprintf(os.Stderr, "h-rpc: "+f+"\n", a...)
	os.Exit(2)
}

type recorder struct {
	w      *bufio.Writer
	events int
}

func (r *recorder) emit(ev M) {
	b, err := json.Marshal(ev)
	if err != nil {
		fatal("marshal: %v", err)
	}
	r.w.Write(b)
	r.w.WriteByte('\n')
	r.events++
}

var (
	dumpTables = map[string]bool{"kvs": true, "tombstones": true, "sessions": true, "session_checks": true, "prepared-queries": true,
		"nodes": true, "services": true, "checks": true}
	dumpIndex = map[string]bool{"kvs": true, "tombstones": true, "sessions": true, "prepared-queries": true}
)

type env struct {
	vs  *consul.VerifServer
	ctx context.Context
}

func (e *env) rpc(method string, args, reply any) error {
	return e.vs.Server.RPC(e.ctx, method, args, reply)
}

func errRes(err error) M { return M{"t": "err", "msg": err.Error()} }

// apply issues one abstract command through the RPC endpoints and returns the FSM-level result class.
func (e *env) apply(c M) M {
	t, req, err := sh.Request(c)
	if err != nil {
		fatal("request: %v", err)
	}
	_ = t
	switch r := req.(type) {
	case *structs.KVSRequest:
		var ok bool
		if err := e.rpc("KVS.Apply", r, &ok); err != nil {
			return errRes(err)
		}
		switch r.Op {
		case api.KVSet, api.KVDelete, api.KVDeleteTree:
			return M{"t": "nil"}
		}
		return M{"t": "bool", "v": ok}
	case *structs.SessionRequest:
		if r.Op == structs.SessionCreate {
			abstract := c["id"].(string)
			r.Session.ID = ""
			var id string
			if err := e.rpc("Session.Apply", r, &id); err != nil {
				return errRes(err)
			}
			sh.SetUUID(abstract, id)
			return M{"t": "str", "v": abstract}
		}
		var id string
		if err := e.rpc("Session.Apply", r, &id); err != nil {
			return errRes(err)
		}
		return M{"t": "nil"}
	case *structs.RegisterRequest:
		var out struct{}
		if err := e.rpc("Catalog.Register", r, &out); err != nil {
			return errRes(err)
		}
		return M{"t": "nil"}
	case *structs.DeregisterRequest:
		var out struct{}
		if err := e.rpc("Catalog.Deregister", r, &out); err != nil {
			return errRes(err)
		}
		return M{"t": "nil"}
	case *structs.TxnRequest:
		var out structs.TxnResponse
		if err := e.rpc("Txn.Apply", r, &out); err != nil {
			return errRes(err)
		}
		return sh.ProjectResult(out)
	}
	fatal("no endpoint for %T", req)
	return nil
}

func keyJ(k string) []int {
	out := make([]int, len(k))
	for i := 0; i < len(k); i++ {
		out[i] = int(k[i])
	}
	return out
}

func projEnt(d *structs.DirEntry) M {
	return M{"k": keyJ(d.Key), "v": string(d.Value), "f": d.Flags, "s": sh.Name(d.Session), "li": d.LockIndex, "ci": d.CreateIndex, "mi": d.ModifyIndex}
}

// reads through the RPC read endpoints (default consistency; single server, so they see the write)
func (e *env) reads(keys, prefixes []string) []M {
	out := []M{}
	for _, k := range keys {
		var r structs.IndexedDirEntries
		if err := e.rpc("KVS.Get", &structs.KeyRequest{Datacenter: "dc1", Key: k}, &r); err != nil {
			continue
		}
		m := M{"q": "rget", "k": keyJ(k), "idx": r.Index, "found": len(r.Entries) > 0}
		if len(r.Entries) > 0 {
			m["ent"] = projEnt(r.Entries[0])
		}
		out = append(out, m)
	}
	for _, p := range prefixes {
		var r structs.IndexedDirEntries
		if err := e.rpc("KVS.List", &structs.KeyRequest{Datacenter: "dc1", Key: p}, &r); err == nil {
			l := []M{}
			for _, d := range r.Entries {
				l = append(l, projEnt(d))
			}
			out = append(out, M{"q": "rlist", "p": keyJ(p), "idx": r.Index, "ents": l})
		}
		for _, sep := range []string{"", "/"} {
			var kr structs.IndexedKeyList
			if err := e.rpc("KVS.ListKeys", &structs.KeyListRequest{Datacenter: "dc1", Prefix: p, Seperator: sep}, &kr); err == nil {
				ks := [][]int{}
				for _, k := range kr.Keys {
					ks = append(ks, keyJ(k))
				}
				out = append(out, M{"q": "keys", "p": keyJ(p), "sep": keyJ(sep), "idx": kr.Index, "keys": ks})
			}
		}
	}
	return out
}

func (e *env) project() M {
	return sh.ProjectStore(e.vs.State(), e.vs.LastIndex(), serverNode)
}

func (e *env) dump() string {
	return sh.DumpTables(e.vs.State(), dumpTables, dumpIndex, serverNode)
}

// liveTTLSessions returns abstract ids of sessions that carry a TTL
func (e *env) liveSessions() []string {
	_, ss, _ := e.vs.State().SessionList(nil, nil)
	out := []string{}
	for _, s := range ss {
		if s.TTL != "" {
			out = append(out, sh.Name(s.ID))
		}
	}
	sort.Strings(out)
	return out
}

var skipped int

func history(seed int64, length int, profile string, rec *recorder, ttl bool) {
	vs, err := consul.VerifNewServer(serverNode, func(c *consul.Config) {
		c.SessionTTLMin = 150 * time.Millisecond
	})
	if err != nil {
		fatal("server: %v", err)
	}
	defer vs.Stop()
	if err := vs.WaitLeader(30 * time.Second); err != nil {
		fatal("%v", err)
	}
	// let the leader finish its own bootstrap writes (self registration, CA, system metadata)
	time.Sleep(1500 * time.Millisecond)
	e := &env{vs: vs, ctx: context.Background()}
	g := &sh.AbsGen{R: rand.New(rand.NewSource(seed)), Store: vs.State, Profile: profile, NoReap: true, NoSerf: true, TxnKV: true, Delays: true}
	r2 := rand.New(rand.NewSource(seed ^ 0x5eed))
	armed := map[string]time.Time{} // abstract session id -> instant just before its TTL timer was last (re-)armed
	// every history starts with the lock-delay situation that a random mix rarely lines up: a session carrying a lock
	// delay takes a lock and is destroyed; another session then asks for the same key directly and inside a transaction
	kvc := func(op, key, sess string) M {
		return M{"t": "kv", "op": op, "k": keyJ(key), "v": "x", "f": float64(0), "s": sess, "li": float64(0), "mi": float64(0)}
	}
	script := []M{
		{"t": "reg", "node": "n1", "nid": "", "hassvc": false, "svc": M{"id": "", "name": ""}, "haschk": false,
			"chk": M{"id": "", "status": "", "svc": "", "typ": "", "sname": ""}},
		{"t": "sess", "op": "create", "id": "s4", "node": "n1", "beh": "release", "checks": []any{}, "name": "", "delay": "yes"},
		kvc("lock", "ab", "s4"),
		{"t": "sess", "op": "create", "id": "s3", "node": "n1", "beh": "release", "checks": []any{}, "name": ""},
		{"t": "sess", "op": "destroy", "id": "s4"},
		kvc("lock", "ab", "s3"),
		{"t": "txn", "ops": []any{M{"fam": "kv", "verb": "lock", "k": keyJ("ab"), "v": "y", "f": float64(0), "s": "s3", "li": float64(0), "mi": float64(0)},
			M{"fam": "kv", "verb": "set", "k": keyJ("b"), "v": "y", "f": float64(0), "s": "", "li": float64(0), "mi": float64(0)}}},
		kvc("lock", "b", "s3"),
	}
	for i := 0; i < length; i++ {
		var c M
		if i < len(script) {
			c = script[i]
		} else {
			c = g.Next()
		}
		expire := ""
		if ttl && i >= len(script) && r2.Intn(12) == 0 {
			if live := e.liveSessions(); len(live) > 0 {
				expire = live[r2.Intn(len(live))]
				c = M{"t": "sess", "op": "destroy", "id": expire, "via": "ttl"}
			}
		}
		if ttl && i >= len(script) && c["t"] == "sess" && c["op"] == "create" && r2.Intn(3) == 0 {
			c["ttl"] = "150ms"
		}
		if ttl && i >= len(script) && expire == "" && r2.Intn(10) == 0 {
			// renew a live TTL session: its timer starts over
			if live := e.liveSessions(); len(live) > 0 {
				c = M{"t": "sess", "op": "renew", "id": live[r2.Intn(len(live))]}
			}
		}
		b, _ := json.Marshal(c)
		var cj M
		_ = json.Unmarshal(b, &cj)
		pre := e.project()
		edge := sh.EdgeKeys(vs.State())
		before := e.dump()
		i0 := vs.LastIndex()
		var res M
		if c["t"] == "sess" && (c["op"] == "renew" || (c["op"] == "create" && c["ttl"] != nil)) {
			armed[c["id"].(string)] = time.Now()
		}
		if c["t"] == "sess" && c["op"] == "renew" {
			var out structs.IndexedSessions
			if err := e.rpc("Session.Renew", &structs.SessionSpecificRequest{Datacenter: "dc1", SessionID: sh.UUID(c["id"].(string))}, &out); err != nil {
				res = errRes(err)
			} else {
				res = M{"t": "nil"}
			}
		} else if expire != "" {
			// wait for the leader's TTL timer (2 x TTL) to invalidate the session through raft
			deadline := time.Now().Add(5 * time.Second)
			res = M{"t": "err", "msg": "session did not expire"}
			for time.Now().Before(deadline) {
				if _, s, _ := vs.State().SessionGet(nil, sh.UUID(expire), nil); s == nil {
					res = M{"t": "nil"}
					if t0, ok := armed[expire]; ok {
						// an upper bound of the timer's true age (armed no earlier than t0, fired no later than now)
						cj["age_ms"] = float64(time.Since(t0).Milliseconds())
						cj["ttl_ms"] = float64(150)
					}
					break
				}
				time.Sleep(20 * time.Millisecond)
			}
		} else {
			if c["t"] == "sess" && c["op"] == "create" {
				// the TTL is not part of the abstract command's request builder
				res = e.applySessionCreate(cj)
			} else {
				res = e.apply(cj)
			}
		}
		post := e.project()
		if expire != "" && len(pre["sess"].([]M))-len(post["sess"].([]M)) != 1 {
			// another session's TTL fired during the wait: two invalidations cannot be told apart in one event
			skipped++
			continue
		}
		if i1 := vs.LastIndex(); i1 > i0+1 && expire == "" {
			// some leader-loop entry was committed around the command: its raft index is ambiguous
			skipped++
			continue
		}
		cj["idx"] = post["idx"]
		ev := M{"cmd": cj, "res": res, "pre": pre, "post": post, "level": "endpoint", "edge": edge,
			"facts": M{"dump_changed": e.dump() != before, "watch_fired": false, "events": 0},
			"reads": e.reads(touched(cj), sh.WidePrefixes[:6])}
		rec.emit(ev)
	}
}

func (e *env) applySessionCreate(c M) M {
	_, req, err := sh.Request(c)
	if err != nil {
		fatal("%v", err)
	}
	r := req.(*structs.SessionRequest)
	r.Session.ID = ""
	if t, ok := c["ttl"].(string); ok {
		r.Session.TTL = t
	}
	var id string
	if err := e.rpc("Session.Apply", r, &id); err != nil {
		return errRes(err)
	}
	sh.SetUUID(c["id"].(string), id)
	return M{"t": "str", "v": c["id"].(string)}
}

// keys a command mentions (read back through KVS.Get)
func touched(c M) []string {
	set := map[string]bool{}
	add := func(v any) {
		arr, _ := v.([]any)
		b := make([]byte, len(arr))
		for i, x := range arr {
			b[i] = byte(x.(float64))
		}
		if len(b) > 0 {
			set[string(b)] = true
		}
	}
	if k, ok := c["k"]; ok {
		add(k)
	}
	if ops, ok := c["ops"].([]any); ok {
		for _, o := range ops {
			if k, ok := o.(map[string]any)["k"]; ok {
				add(k)
			}
		}
	}
	out := []string{}
	for k := range set {
		out = append(out, k)
	}
	sort.Strings(out)
	return out
}

func main() {
	out := flag.String("out", "trace.ndjson", "trace output")
	seed := flag.Int64("seed", 1, "seed")
	n := flag.Int("n", 3, "histories (one server each)")
	length := flag.Int("len", 80, "commands per history")
	profile := flag.String("profile", "kv", "kv|sess|txn")
	ttl := flag.Bool("ttl", true, "create some sessions with a TTL and wait for real expiry")
	flag.Parse()
	f, err := os.Create(*out)
	if err != nil {
		fatal("%v", err)
	}
	defer f.Close()
	rec := &recorder{w: bufio.NewWriterSize(f, 1<<20)}
	for i := 0; i < *n; i++ {
		history(*seed*7919+int64(i), *length, *profile, rec, *ttl)
	}
	rec.w.Flush()
	fmt.Printf("{\"behaviours\":%d,\"events\":%d,\"skipped_ambiguous\":%d}\n", *n, rec.events, skipped)
}
