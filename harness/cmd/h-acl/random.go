package main

import (
	"fmt"
	"math/rand"
)

// Seeded random driver over a universe wider than TLC's constants: mixed kinds in one policy,
// longer and nested names, explicit intentions, roles with identities, policy updates and
// deletions, three cache sizes, both resolution paths. Full decision tables are recorded.

var (
	rndNames    = []string{"", "a", "ab", "abc", "b", "ac", "a/b", "a/", "web", "web-sidecar-proxy", "db", "a-sidecar-proxy", "w", "we", "abcd"}
	rndIdent    = []string{"a", "web", "db", "b", "ab"}
	rndNamed    = []string{"service", "service", "service", "key", "key", "node", "node", "agent", "event", "query", "session"}
	rndScalar   = []string{"acl", "keyring", "operator", "mesh", "peering"}
	rndLevels   = []string{"deny", "read", "write"}
	rndKeyLevel = []string{"deny", "read", "list", "write"}
)

type rgen struct {
	r     *rand.Rand
	names []string // the history's own small name pool (collisions are the point)
}

func (g *rgen) pick(l []string) string { return l[g.r.Intn(len(l))] }

func (g *rgen) rule() Rule {
	if g.r.Intn(8) == 0 {
		return Rule{K: g.pick(rndScalar), N: []int{}, M: "exact", Lv: g.pick(rndLevels)}
	}
	k := g.pick(rndNamed)
	m := "exact"
	if g.r.Intn(2) == 0 {
		m = "prefix"
	}
	lv := g.pick(rndLevels)
	if k == "key" {
		lv = g.pick(rndKeyLevel)
	}
	ru := Rule{K: k, N: ints(g.pick(g.names)), M: m, Lv: lv}
	if k == "service" && g.r.Intn(3) == 0 {
		ru.Int = g.pick(rndLevels)
	}
	return ru
}

func (g *rgen) rules(max int) []Rule {
	n := g.r.Intn(max + 1)
	out := make([]Rule, 0, n)
	seenScalar := map[string]bool{}
	for i := 0; i < n; i++ {
		ru := g.rule()
		if scalarKinds[ru.K] {
			if seenScalar[ru.K] {
				continue
			}
			seenScalar[ru.K] = true
		}
		out = append(out, ru)
	}
	return out
}

func (g *rgen) subset(l []string, p float64) []string {
	out := []string{}
	for _, x := range l {
		if g.r.Float64() < p {
			out = append(out, x)
		}
	}
	return out
}

func (g *rgen) identNames(p float64) [][]int {
	out := [][]int{}
	for _, x := range g.subset(rndIdent, p) {
		out = append(out, ints(x))
	}
	return out
}

func allNames() [][]int {
	out := make([][]int, len(rndNames))
	for i, n := range rndNames {
		out[i] = ints(n)
	}
	return out
}

func randomDriver(rec *recorder, seed int64, n, length int) {
	r := rand.New(rand.NewSource(seed))
	names := allNames()
	for h := 0; h < n; h++ {
		g := &rgen{r: r}
		perm := r.Perm(len(rndNames))
		for _, i := range perm[:3+r.Intn(3)] {
			g.names = append(g.names, rndNames[i])
		}
		if h%4 == 0 {
			// pure half: a random rule set realised in many ways
			for i := 0; i < length; i++ {
				decide(rec, RuleSet{Rules: g.rules(6), Fams: []string{"*"}}, names, r, 8)
			}
			rec.behaviours++
			continue
		}
		pols := []string{"p1", "p2", "p3", "p4"}
		env := Env{Pol: map[string][]Rule{}, Roles: map[string]Role{}, Tok: map[string]Tok{}}
		for _, p := range pols {
			env.Pol[p] = g.rules(3)
		}
		for i := 1; i <= 2; i++ {
			env.Roles[fmt.Sprintf("r%d", i)] = Role{Pols: g.subset(pols, 0.4), Svc: g.identNames(0.15), Node: g.identNames(0.1),
				TSvc: g.identNames(0.1), TNode: g.identNames(0.06)}
		}
		toks := []string{}
		for i := 1; i <= 6; i++ {
			t := fmt.Sprintf("t%d", i)
			toks = append(toks, t)
			env.Tok[t] = Tok{Pols: g.subset(pols, 0.45), Roles: g.subset([]string{"r1", "r2"}, 0.25), Svc: g.identNames(0.12), Node: g.identNames(0.08),
				TSvc: g.identNames(0.08), TNode: g.identNames(0.05)}
		}
		// every other history: t6 = t5 plus the SAME synthetic policy twice (identity X + templated policy X,
		// the latter possibly through a role r3 that holds nothing else), so that t5 and t6 differ by a
		// duplicate pair only
		if r.Intn(2) == 0 {
			x := ints(g.pick(rndIdent))
			t5 := env.Tok["t5"]
			t6 := Tok{Pols: append([]string{}, t5.Pols...), Roles: append([]string{}, t5.Roles...),
				Svc: append([][]int{}, t5.Svc...), Node: append([][]int{}, t5.Node...),
				TSvc: append([][]int{}, t5.TSvc...), TNode: append([][]int{}, t5.TNode...)}
			viaRole := r.Intn(3) == 0
			r3 := Role{Pols: []string{}, Svc: [][]int{}, Node: [][]int{}, TSvc: [][]int{}, TNode: [][]int{}}
			if r.Intn(2) == 0 {
				t6.Svc = append(t6.Svc, x)
				if viaRole {
					r3.TSvc = append(r3.TSvc, x)
				} else {
					t6.TSvc = append(t6.TSvc, x)
				}
			} else {
				t6.Node = append(t6.Node, x)
				if viaRole {
					r3.TNode = append(r3.TNode, x)
				} else {
					t6.TNode = append(t6.TNode, x)
				}
			}
			if viaRole {
				env.Roles["r3"] = r3
				t6.Roles = append(t6.Roles, "r3")
			}
			env.Tok["t6"] = t6
		}
		w := World{Env: env, Names: names, Fams: []string{"*"},
			Dflt:  []string{"deny", "allow"}[r.Intn(2)],
			Via:   []string{"compile", "resolver"}[h%2],
			Cache: []string{"big", "noauthz", "tiny"}[r.Intn(3)]}
		var cmds []Cmd
		for i := 0; i < length; i++ {
			switch x := r.Intn(20); {
			case x < 15:
				cmds = append(cmds, Cmd{T: "resolve", Tok: g.pick(toks)})
			case x < 19:
				cmds = append(cmds, Cmd{T: "setpolicy", P: g.pick(pols), Rules: g.rules(3)})
			default:
				cmds = append(cmds, Cmd{T: "delpolicy", P: g.pick(pols)})
			}
		}
		// a deleted policy may be set again later; keep the command list consistent with that
		alive := map[string]bool{"p1": true, "p2": true, "p3": true, "p4": true}
		var kept []Cmd
		for _, c := range cmds {
			if c.T == "delpolicy" {
				cnt := 0
				for _, a := range alive {
					if a {
						cnt++
					}
				}
				if !alive[c.P] || cnt <= 1 {
					continue
				}
				alive[c.P] = false
			}
			if c.T == "setpolicy" {
				alive[c.P] = true
			}
			kept = append(kept, c)
		}
		runBehaviour(rec, Behaviour{World: w, Cmds: kept})
	}
}
