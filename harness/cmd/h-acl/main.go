// h-acl: executor/recorder for property C08 (spec/ACL.tla, spec/ACLTrace.tla).
//
//	h-acl decide -in rulesets.json -out trace.ndjson          realise TLC-enumerated rule sets
//	h-acl replay -in behaviours.json -out trace.ndjson        replay TLC-generated resolution histories
//	h-acl random -seed S -n N -len L -out trace.ndjson        seeded random driver (wider universe)
//
// Rule sets become real HCL policies parsed by acl.NewPolicyFromSource and compiled by
// acl.NewPolicyAuthorizerWithDefaults / structs.ACLPolicies.Compile; histories run against ONE
// structs.ACLCaches (via=compile) or ONE real consul.ACLResolver over a real state.Store
// (via=resolver).  After every resolution every acl.Authorizer method is called for every name
// and the answers are written out.  Nothing is judged here: TLC (ACLTrace) is the arbiter.
package main

import (
	"bufio"
	"context"
	"crypto/sha1"
	"encoding/json"
	"errors"
	"flag"
	"fmt"
	"io"
	"math/rand"
	"os"
	"sort"
	"strconv"
	"strings"
	"time"

	"github.com/hashicorp/go-hclog"

	"github.com/hashicorp/consul/acl"
	"github.com/hashicorp/consul/agent/consul"
	"github.com/hashicorp/consul/agent/consul/state"
	"github.com/hashicorp/consul/agent/structs"
	"github.com/hashicorp/consul/api"
)

type M = map[string]any

func fatal(f string, a ...any) {
	fmt.Fprintf(os.Stderr, "h-acl: "+f+"\n", a...)
	os.Exit(2)
}

// ---------------------------------------------------------------- abstract inputs

type Rule struct {
	K   string `json:"k"`
	N   []int  `json:"n"`
	M   string `json:"m"`
	Lv  string `json:"lv"`
	Int string `json:"int"`
}

type Role struct {
	Pols  []string `json:"pols"`
	Svc   [][]int  `json:"svc"`
	Node  [][]int  `json:"node"`
	TSvc  [][]int  `json:"tsvc"`  // templated policies builtin/service {name}
	TNode [][]int  `json:"tnode"` // templated policies builtin/node {name}, scoped to dc1
}

type Tok struct {
	Pols  []string `json:"pols"`
	Roles []string `json:"roles"`
	Svc   [][]int  `json:"svc"`
	Node  [][]int  `json:"node"`
	TSvc  [][]int  `json:"tsvc"`
	TNode [][]int  `json:"tnode"`
}

type Env struct {
	Pol   map[string][]Rule `json:"pol"`
	Roles map[string]Role   `json:"roles"`
	Tok   map[string]Tok    `json:"tok"`
}

type World struct {
	Env   Env      `json:"env"`
	Names [][]int  `json:"names"`
	Dflt  string   `json:"dflt"`
	Fams  []string `json:"fams"`
	Via   string   `json:"via"`   // "compile" | "resolver"
	Cache string   `json:"cache"` // "big" | "noauthz" | "tiny"
}

type Cmd struct {
	T     string `json:"t"`
	Tok   string `json:"tok,omitempty"`
	P     string `json:"p,omitempty"`
	Rules []Rule `json:"rules,omitempty"`
}

type Behaviour struct {
	World World `json:"world"`
	Cmds  []Cmd `json:"cmds"`
}

type RuleSet struct {
	Rules []Rule   `json:"rules"`
	Fams  []string `json:"fams"`
}

func str(n []int) string {
	b := make([]byte, len(n))
	for i, c := range n {
		b[i] = byte(c)
	}
	return string(b)
}

func ints(s string) []int {
	out := make([]int, len(s))
	for i := 0; i < len(s); i++ {
		out[i] = int(s[i])
	}
	return out
}

func strs(ns [][]int) []string {
	out := make([]string, len(ns))
	for i, n := range ns {
		out[i] = str(n)
	}
	return out
}

func normRules(rs []Rule) []Rule {
	out := make([]Rule, len(rs))
	for i, r := range rs {
		if r.N == nil {
			r.N = []int{}
		}
		out[i] = r
	}
	return out
}

// ---------------------------------------------------------------- rules -> HCL

var scalarKinds = map[string]bool{"acl": true, "keyring": true, "operator": true, "mesh": true, "peering": true}

func hclName(s string) string {
	for i := 0; i < len(s); i++ {
		c := s[i]
		if !(c >= 'a' && c <= 'z' || c >= 'A' && c <= 'Z' || c >= '0' && c <= '9' || c == '-' || c == '_' || c == '/' || c == '.' || c >= 0x80) {
			fatal("name %q is outside the harness alphabet", s)
		}
	}
	return `"` + s + `"`
}

func hclOf(rules []Rule) string {
	var b strings.Builder
	for _, r := range rules {
		if scalarKinds[r.K] {
			fmt.Fprintf(&b, "%s = %q\n", r.K, r.Lv)
			continue
		}
		kw := r.K
		if r.M == "prefix" {
			kw += "_prefix"
		}
		fmt.Fprintf(&b, "%s %s {\n  policy = %q\n", kw, hclName(str(r.N)), r.Lv)
		if r.Int != "" {
			fmt.Fprintf(&b, "  intentions = %q\n", r.Int)
		}
		b.WriteString("}\n")
	}
	return b.String()
}

// ---------------------------------------------------------------- observation: the decision table

type method struct {
	name   string
	fam    []string
	scalar bool
	call   func(a acl.Authorizer, n string) acl.EnforcementDecision
}

var peerCtx = &acl.AuthorizerContext{Peer: "peer1"}

func sc(f func(a acl.Authorizer) acl.EnforcementDecision) func(acl.Authorizer, string) acl.EnforcementDecision {
	return func(a acl.Authorizer, _ string) acl.EnforcementDecision { return f(a) }
}

var methods = []method{
	{"ACLRead", []string{"scalar"}, true, sc(func(a acl.Authorizer) acl.EnforcementDecision { return a.ACLRead(nil) })},
	{"ACLWrite", []string{"scalar"}, true, sc(func(a acl.Authorizer) acl.EnforcementDecision { return a.ACLWrite(nil) })},
	{"Snapshot", []string{"scalar"}, true, sc(func(a acl.Authorizer) acl.EnforcementDecision { return a.Snapshot(nil) })},
	{"KeyringRead", []string{"scalar"}, true, sc(func(a acl.Authorizer) acl.EnforcementDecision { return a.KeyringRead(nil) })},
	{"KeyringWrite", []string{"scalar"}, true, sc(func(a acl.Authorizer) acl.EnforcementDecision { return a.KeyringWrite(nil) })},
	{"MeshRead", []string{"scalar"}, true, sc(func(a acl.Authorizer) acl.EnforcementDecision { return a.MeshRead(nil) })},
	{"MeshWrite", []string{"scalar"}, true, sc(func(a acl.Authorizer) acl.EnforcementDecision { return a.MeshWrite(nil) })},
	{"PeeringRead", []string{"scalar"}, true, sc(func(a acl.Authorizer) acl.EnforcementDecision { return a.PeeringRead(nil) })},
	{"PeeringWrite", []string{"scalar"}, true, sc(func(a acl.Authorizer) acl.EnforcementDecision { return a.PeeringWrite(nil) })},
	{"OperatorRead", []string{"scalar"}, true, sc(func(a acl.Authorizer) acl.EnforcementDecision { return a.OperatorRead(nil) })},
	{"OperatorWrite", []string{"scalar"}, true, sc(func(a acl.Authorizer) acl.EnforcementDecision { return a.OperatorWrite(nil) })},
	{"IntentionDefaultAllow", []string{"scalar"}, true, sc(func(a acl.Authorizer) acl.EnforcementDecision {
		//nolint:staticcheck
		return a.IntentionDefaultAllow(nil)
	})},
	{"TrafficPermissionsRead", []string{"scalar"}, false, func(a acl.Authorizer, n string) acl.EnforcementDecision { return a.TrafficPermissionsRead(n, nil) }},
	{"TrafficPermissionsWrite", []string{"scalar"}, false, func(a acl.Authorizer, n string) acl.EnforcementDecision { return a.TrafficPermissionsWrite(n, nil) }},
	{"AgentRead", []string{"agent"}, false, func(a acl.Authorizer, n string) acl.EnforcementDecision { return a.AgentRead(n, nil) }},
	{"AgentWrite", []string{"agent"}, false, func(a acl.Authorizer, n string) acl.EnforcementDecision { return a.AgentWrite(n, nil) }},
	{"EventRead", []string{"event"}, false, func(a acl.Authorizer, n string) acl.EnforcementDecision { return a.EventRead(n, nil) }},
	{"EventWrite", []string{"event"}, false, func(a acl.Authorizer, n string) acl.EnforcementDecision { return a.EventWrite(n, nil) }},
	{"KeyRead", []string{"key"}, false, func(a acl.Authorizer, n string) acl.EnforcementDecision { return a.KeyRead(n, nil) }},
	{"KeyList", []string{"key"}, false, func(a acl.Authorizer, n string) acl.EnforcementDecision { return a.KeyList(n, nil) }},
	{"KeyWrite", []string{"key"}, false, func(a acl.Authorizer, n string) acl.EnforcementDecision { return a.KeyWrite(n, nil) }},
	{"KeyWritePrefix", []string{"key"}, false, func(a acl.Authorizer, n string) acl.EnforcementDecision { return a.KeyWritePrefix(n, nil) }},
	{"NodeRead", []string{"node"}, false, func(a acl.Authorizer, n string) acl.EnforcementDecision { return a.NodeRead(n, nil) }},
	{"NodeWrite", []string{"node"}, false, func(a acl.Authorizer, n string) acl.EnforcementDecision { return a.NodeWrite(n, nil) }},
	{"NodeReadAll", []string{"node"}, true, sc(func(a acl.Authorizer) acl.EnforcementDecision { return a.NodeReadAll(nil) })},
	{"NodeReadPeer", []string{"node", "service"}, true, sc(func(a acl.Authorizer) acl.EnforcementDecision { return a.NodeRead("imported", peerCtx) })},
	{"PreparedQueryRead", []string{"query"}, false, func(a acl.Authorizer, n string) acl.EnforcementDecision { return a.PreparedQueryRead(n, nil) }},
	{"PreparedQueryWrite", []string{"query"}, false, func(a acl.Authorizer, n string) acl.EnforcementDecision { return a.PreparedQueryWrite(n, nil) }},
	{"ServiceRead", []string{"service"}, false, func(a acl.Authorizer, n string) acl.EnforcementDecision { return a.ServiceRead(n, nil) }},
	{"ServiceWrite", []string{"service"}, false, func(a acl.Authorizer, n string) acl.EnforcementDecision { return a.ServiceWrite(n, nil) }},
	{"ServiceReadAll", []string{"service"}, true, sc(func(a acl.Authorizer) acl.EnforcementDecision { return a.ServiceReadAll(nil) })},
	{"ServiceReadPrefix", []string{"service"}, false, func(a acl.Authorizer, n string) acl.EnforcementDecision { return a.ServiceReadPrefix(n, nil) }},
	{"ServiceWriteAny", []string{"service"}, true, sc(func(a acl.Authorizer) acl.EnforcementDecision { return a.ServiceWriteAny(nil) })},
	{"ServiceReadPeer", []string{"service"}, true, sc(func(a acl.Authorizer) acl.EnforcementDecision { return a.ServiceRead("imported", peerCtx) })},
	{"IntentionRead", []string{"service"}, false, func(a acl.Authorizer, n string) acl.EnforcementDecision { return a.IntentionRead(n, nil) }},
	{"IntentionWrite", []string{"service"}, false, func(a acl.Authorizer, n string) acl.EnforcementDecision { return a.IntentionWrite(n, nil) }},
	{"IntentionReadAny", []string{"service"}, true, sc(func(a acl.Authorizer) acl.EnforcementDecision { return a.IntentionRead("*", nil) })},
	{"IntentionWriteAll", []string{"service"}, true, sc(func(a acl.Authorizer) acl.EnforcementDecision { return a.IntentionWrite("*", nil) })},
	{"SessionRead", []string{"session"}, false, func(a acl.Authorizer, n string) acl.EnforcementDecision { return a.SessionRead(n, nil) }},
	{"SessionWrite", []string{"session"}, false, func(a acl.Authorizer, n string) acl.EnforcementDecision { return a.SessionWrite(n, nil) }},
}

func decStr(d acl.EnforcementDecision) string {
	switch d {
	case acl.Allow:
		return "allow"
	case acl.Deny:
		return "deny"
	default:
		return "default"
	}
}

// perturb > 0: flip the perturb-th recorded decision (binding self-test only, see checks/c08.py)
var perturb, decisions int

// table calls every selected method for every name.
func table(a acl.Authorizer, names []string, fams []string) M {
	want := func(m method) bool {
		for _, f := range fams {
			if f == "*" {
				return true
			}
			for _, mf := range m.fam {
				if mf == f {
					return true
				}
			}
		}
		return false
	}
	out := M{}
	for _, m := range methods {
		if !want(m) {
			continue
		}
		var col []string
		if m.scalar {
			col = []string{decStr(m.call(a, ""))}
		} else {
			col = make([]string, len(names))
			for i, n := range names {
				col[i] = decStr(m.call(a, n))
			}
		}
		for i := range col {
			decisions++
			if perturb > 0 && decisions == perturb {
				if col[i] == "allow" {
					col[i] = "deny"
				} else {
					col[i] = "allow"
				}
			}
		}
		out[m.name] = col
	}
	return out
}

// ---------------------------------------------------------------- fresh authorizers (no history)

func parseFresh(hcl string) *acl.Policy {
	p, err := acl.NewPolicyFromSource(hcl, nil, nil)
	if err != nil {
		fatal("parse %q: %v", hcl, err)
	}
	return p
}

// freshAuthorizer: every policy text parsed anew, merged by acl.NewPolicyAuthorizerWithDefaults.
func freshAuthorizer(texts []string, dflt string) acl.Authorizer {
	ps := make([]*acl.Policy, len(texts))
	for i, t := range texts {
		ps[i] = parseFresh(t)
	}
	a, err := acl.NewPolicyAuthorizerWithDefaults(acl.RootAuthorizer(dflt), ps, nil)
	if err != nil {
		fatal("authorizer: %v", err)
	}
	return a
}

func chain(a acl.Authorizer, dflt string) acl.Authorizer {
	return acl.NewChainedAuthorizer([]acl.Authorizer{a, acl.RootAuthorizer(dflt)})
}

func polID(name string) string {
	// p<N> -> UUID whose order is the numeric order (Compile sees policies sorted by ID)
	if len(name) > 1 && (name[0] == 'p' || name[0] == 'r') {
		if n, err := strconv.Atoi(name[1:]); err == nil {
			return fmt.Sprintf("%08x-0000-0000-0000-%012d", int(name[0]), n)
		}
	}
	return uuidOf(name)
}

func uuidOf(name string) string {
	h := sha1.Sum([]byte("verif-acl:" + name))
	return fmt.Sprintf("%x-%x-%x-%x-%x", h[0:4], h[4:6], h[6:8], h[8:10], h[10:16])
}

// ---------------------------------------------------------------- decide: one rule set, many realisations

func permutations(n int, limit int, r *rand.Rand) [][]int {
	var out [][]int
	idx := make([]int, n)
	for i := range idx {
		idx[i] = i
	}
	if n <= 4 {
		var rec func(k int)
		rec = func(k int) {
			if k == n {
				out = append(out, append([]int(nil), idx...))
				return
			}
			for i := k; i < n; i++ {
				idx[k], idx[i] = idx[i], idx[k]
				rec(k + 1)
				idx[k], idx[i] = idx[i], idx[k]
			}
		}
		rec(0)
		if len(out) > limit && r != nil {
			r.Shuffle(len(out), func(i, j int) { out[i], out[j] = out[j], out[i] })
			out = out[:limit]
		}
		return out
	}
	out = append(out, append([]int(nil), idx...))
	rev := make([]int, n)
	for i := range rev {
		rev[i] = n - 1 - i
	}
	out = append(out, rev)
	for len(out) < limit {
		p := r.Perm(n)
		out = append(out, p)
	}
	return out
}

// singlePolicyOK: all rules fit into ONE policy text without relying on how the HCL decoder treats
// a repeated scalar attribute (acl = .. twice) - that is outside the property.
func singlePolicyOK(rules []Rule) bool {
	seen := map[string]bool{}
	for _, r := range rules {
		if scalarKinds[r.K] {
			if seen[r.K] {
				return false
			}
			seen[r.K] = true
		}
	}
	return true
}

func decide(rec *recorder, rs RuleSet, names [][]int, r *rand.Rand, permLimit int) {
	rules := normRules(rs.Rules)
	nm := strs(names)
	for _, dflt := range []string{"deny", "allow"} {
		var tables []M
		var keys []string
		var hows []string
		n := 0
		add := func(how string, a acl.Authorizer) {
			n++
			t := table(a, nm, rs.Fams)
			b, _ := json.Marshal(t)
			for _, k := range keys {
				if k == string(b) {
					return
				}
			}
			keys = append(keys, string(b))
			tables = append(tables, t)
			hows = append(hows, how)
		}
		// (1) one policy per rule, every order of the policy list
		for _, p := range permutations(len(rules), permLimit, r) {
			texts := make([]string, len(p))
			for i, j := range p {
				texts[i] = hclOf(rules[j : j+1])
			}
			add(fmt.Sprintf("policy-per-rule order=%v", p), freshAuthorizer(texts, dflt))
		}
		// (2) all rules in one policy, forward and reverse
		if singlePolicyOK(rules) && len(rules) > 0 {
			add("single-policy", freshAuthorizer([]string{hclOf(rules)}, dflt))
			rev := make([]Rule, len(rules))
			for i := range rules {
				rev[i] = rules[len(rules)-1-i]
			}
			add("single-policy reversed", freshAuthorizer([]string{hclOf(rev)}, dflt))
		}
		// (3) through structs.ACLPolicies.Compile with a fresh cache, policies in ID order
		{
			cache, err := structs.NewACLCaches(&structs.ACLCachesConfig{ParsedPolicies: 64, Authorizers: 64})
			if err != nil {
				fatal("caches: %v", err)
			}
			var ps structs.ACLPolicies
			for i := range rules {
				p := &structs.ACLPolicy{ID: polID(fmt.Sprintf("p%d", i+1)), Name: fmt.Sprintf("p%d", i+1), Rules: hclOf(rules[i : i+1])}
				p.SetHash(true)
				ps = append(ps, p)
			}
			a, err := ps.Compile(cache, &acl.Config{})
			if err != nil {
				fatal("compile: %v", err)
			}
			add("ACLPolicies.Compile", chain(a, dflt))
		}
		rec.emit(M{"cmd": M{"t": "decide", "rules": rules, "dflt": dflt, "names": names},
			"res": M{"n": n, "tables": tables, "hows": hows}})
	}
}

// ---------------------------------------------------------------- worlds (histories through shared caches)

type world interface {
	setPolicy(name string, rules []Rule)
	delPolicy(name string)
	resolve(tok string) acl.Authorizer
}

func cacheCfg(kind string) *structs.ACLCachesConfig {
	switch kind {
	case "noauthz":
		return &structs.ACLCachesConfig{Identities: 64, Policies: 64, ParsedPolicies: 64, Authorizers: 0, Roles: 64}
	case "tiny":
		return &structs.ACLCachesConfig{Identities: 2, Policies: 2, ParsedPolicies: 2, Authorizers: 2, Roles: 2}
	default:
		return &structs.ACLCachesConfig{Identities: 256, Policies: 256, ParsedPolicies: 256, Authorizers: 256, Roles: 256}
	}
}

// the harness' own copy of the abstract world (inputs only) - used to build the policy list for
// via=compile and for the "fresh" authorizer
type abstractWorld struct {
	env  Env
	dflt string
}

func svcIdentities(ns []string) structs.ACLServiceIdentities {
	var out structs.ACLServiceIdentities
	for _, n := range ns {
		out = append(out, &structs.ACLServiceIdentity{ServiceName: n})
	}
	return out
}

func nodeIdentities(ns []string) structs.ACLNodeIdentities {
	var out structs.ACLNodeIdentities
	for _, n := range ns {
		out = append(out, &structs.ACLNodeIdentity{NodeName: n, Datacenter: "dc1"})
	}
	return out
}

// templatedPolicies: builtin/service {name} and builtin/node {name} (the latter scoped to dc1, like a
// node identity) as they are stored on a real structs.ACLToken / structs.ACLRole.
func templatedPolicies(tsvc, tnode []string) structs.ACLTemplatedPolicies {
	var out structs.ACLTemplatedPolicies
	for _, n := range tsvc {
		out = append(out, &structs.ACLTemplatedPolicy{TemplateID: structs.ACLTemplatedPolicyServiceID,
			TemplateName: api.ACLTemplatedPolicyServiceName, TemplateVariables: &structs.ACLTemplatedPolicyVariables{Name: n}})
	}
	for _, n := range tnode {
		out = append(out, &structs.ACLTemplatedPolicy{TemplateID: structs.ACLTemplatedPolicyNodeID,
			TemplateName: api.ACLTemplatedPolicyNodeName, TemplateVariables: &structs.ACLTemplatedPolicyVariables{Name: n},
			Datacenters: []string{"dc1"}})
	}
	return out
}

// identity-like links of a token (its own and those of its roles), each kind in the order the
// resolver appends them
type idLinks struct {
	svc, node []string
	tp        structs.ACLTemplatedPolicies // owner by owner (token, then its roles), as the resolver appends them
}

// links mirrors ACLResolver.resolvePoliciesForIdentity: token links + role links (not yet deduplicated).
func (w *abstractWorld) links(tok string) (pols []string, ids idLinks) {
	t := w.env.Tok[tok]
	pols = append(pols, t.Pols...)
	ids.svc = append(ids.svc, strs(t.Svc)...)
	ids.node = append(ids.node, strs(t.Node)...)
	ids.tp = append(ids.tp, templatedPolicies(strs(t.TSvc), strs(t.TNode))...)
	for _, rn := range t.Roles {
		r, ok := w.env.Roles[rn]
		if !ok {
			continue
		}
		pols = append(pols, r.Pols...)
		ids.svc = append(ids.svc, strs(r.Svc)...)
		ids.node = append(ids.node, strs(r.Node)...)
		ids.tp = append(ids.tp, templatedPolicies(strs(r.TSvc), strs(r.TNode))...)
	}
	return
}

// syntheticPolicies mirrors resolvePoliciesForIdentity: every KIND is de-duplicated on its own
// (ACLServiceIdentities / ACLNodeIdentities / ACLTemplatedPolicies .Deduplicate), then synthetic
// policies are generated for service identities, node identities, templated policies - in this order.
// A service identity X and a templated policy builtin/service X therefore give the SAME synthetic
// policy twice in the list (same for node identities / builtin/node).
func syntheticPolicies(ids idLinks) []*structs.ACLPolicy {
	var out []*structs.ACLPolicy
	em := structs.DefaultEnterpriseMetaInDefaultPartition()
	for _, s := range svcIdentities(ids.svc).Deduplicate() {
		out = append(out, s.SyntheticPolicy(em))
	}
	for _, n := range nodeIdentities(ids.node).Deduplicate() {
		out = append(out, n.SyntheticPolicy(em))
	}
	for _, tp := range ids.tp.Deduplicate() {
		p, err := tp.SyntheticPolicy(em)
		if err != nil {
			fatal("templated policy %s: %v", tp.TemplateName, err)
		}
		out = append(out, p)
	}
	return out
}

// freshFor: the token's own policies, parsed anew, no caches, no history.
func (w *abstractWorld) freshFor(tok string) acl.Authorizer {
	pols, ids := w.links(tok)
	seen := map[string]bool{}
	var texts []string
	for _, p := range pols {
		if rules, ok := w.env.Pol[p]; ok && !seen[p] {
			seen[p] = true
			texts = append(texts, hclOf(rules))
		}
	}
	for _, sp := range syntheticPolicies(ids) {
		texts = append(texts, sp.Rules)
	}
	return freshAuthorizer(texts, w.dflt)
}

// --- via=compile : structs.ACLPolicies.Compile with ONE structs.ACLCaches

type compileWorld struct {
	abs   *abstractWorld
	cache *structs.ACLCaches
	pols  map[string]*structs.ACLPolicy // by abstract name
	idx   uint64
}

func newCompileWorld(w World, abs *abstractWorld) *compileWorld {
	cache, err := structs.NewACLCaches(cacheCfg(w.Cache))
	if err != nil {
		fatal("caches: %v", err)
	}
	cw := &compileWorld{abs: abs, cache: cache, pols: map[string]*structs.ACLPolicy{}}
	for _, name := range sortedKeys(w.Env.Pol) {
		cw.setPolicy(name, w.Env.Pol[name])
	}
	return cw
}

func (cw *compileWorld) setPolicy(name string, rules []Rule) {
	cw.idx++
	p := &structs.ACLPolicy{ID: polID(name), Name: name, Rules: hclOf(rules)}
	p.CreateIndex = cw.idx
	if old, ok := cw.pols[name]; ok {
		p.CreateIndex = old.CreateIndex
	}
	p.ModifyIndex = cw.idx
	p.SetHash(true)
	cw.pols[name] = p
}

func (cw *compileWorld) delPolicy(name string) { delete(cw.pols, name) }

func (cw *compileWorld) resolve(tok string) acl.Authorizer {
	pols, idl := cw.abs.links(tok)
	ids := map[string]*structs.ACLPolicy{}
	var order []string
	for _, p := range pols {
		if sp, ok := cw.pols[p]; ok {
			if _, dup := ids[sp.ID]; !dup {
				ids[sp.ID] = sp
				order = append(order, sp.ID)
			}
		}
	}
	sort.Strings(order)
	var list structs.ACLPolicies
	for _, id := range order {
		list = append(list, ids[id])
	}
	list = append(list, syntheticPolicies(idl)...)
	a, err := list.Compile(cw.cache, &acl.Config{})
	if err != nil {
		fatal("compile: %v", err)
	}
	return chain(a, cw.abs.dflt)
}

// --- via=resolver : the real consul.ACLResolver over a real state.Store

type backend struct{ st *state.Store }

func (b *backend) ACLDatacenter() string { return "dc1" }
func (b *backend) ResolveIdentityFromToken(token string) (bool, structs.ACLIdentity, error) {
	_, t, err := b.st.ACLTokenGetBySecret(nil, token, nil)
	if err != nil {
		return true, nil, err
	} else if t != nil && !t.IsExpired(time.Now()) {
		return true, t, nil
	}
	return true, nil, acl.ErrNotFound
}
func (b *backend) ResolvePolicyFromID(id string) (bool, *structs.ACLPolicy, error) {
	_, p, err := b.st.ACLPolicyGetByID(nil, id, nil)
	if err != nil {
		return true, nil, err
	} else if p != nil {
		return true, p, nil
	}
	return true, nil, acl.ErrNotFound
}
func (b *backend) ResolveRoleFromID(id string) (bool, *structs.ACLRole, error) {
	_, r, err := b.st.ACLRoleGetByID(nil, id, nil)
	if err != nil {
		return true, nil, err
	} else if r != nil {
		return true, r, nil
	}
	return true, nil, acl.ErrNotFound
}
func (b *backend) IsServerManagementToken(string) bool { return false }
func (b *backend) RPC(context.Context, string, interface{}, interface{}) error {
	return errors.New("h-acl: no RPC in a server-style backend")
}

type resolverWorld struct {
	abs *abstractWorld
	st  *state.Store
	res *consul.ACLResolver
	idx uint64
}

func newResolverWorld(w World, abs *abstractWorld) *resolverWorld {
	st := state.NewStateStore(nil)
	rw := &resolverWorld{abs: abs, st: st}
	res, err := consul.NewACLResolver(&consul.ACLResolverConfig{
		Config: consul.ACLResolverSettings{
			ACLsEnabled: true, Datacenter: "dc1", NodeName: "verif-node",
			ACLPolicyTTL: 30 * time.Second, ACLTokenTTL: 30 * time.Second, ACLRoleTTL: 30 * time.Second,
			ACLDownPolicy: "extend-cache", ACLDefaultPolicy: w.Dflt,
		},
		Logger:      hclog.New(&hclog.LoggerOptions{Output: io.Discard}),
		CacheConfig: cacheCfg(w.Cache),
		Backend:     &backend{st: st},
		ACLConfig:   &acl.Config{},
	})
	if err != nil {
		fatal("NewACLResolver: %v", err)
	}
	rw.res = res
	for _, name := range sortedKeys(w.Env.Pol) {
		rw.setPolicy(name, w.Env.Pol[name])
	}
	for _, name := range sortedKeys(w.Env.Roles) {
		r := w.Env.Roles[name]
		role := &structs.ACLRole{ID: polID(name), Name: name,
			ServiceIdentities: svcIdentities(strs(r.Svc)), NodeIdentities: nodeIdentities(strs(r.Node)),
			TemplatedPolicies: templatedPolicies(strs(r.TSvc), strs(r.TNode))}
		for _, p := range r.Pols {
			role.Policies = append(role.Policies, structs.ACLRolePolicyLink{ID: polID(p)})
		}
		role.SetHash(true)
		rw.idx++
		if err := st.ACLRoleSet(rw.idx, role); err != nil {
			fatal("ACLRoleSet %s: %v", name, err)
		}
	}
	for _, name := range sortedKeys(w.Env.Tok) {
		t := w.Env.Tok[name]
		tok := &structs.ACLToken{AccessorID: uuidOf("acc:" + name), SecretID: uuidOf("sec:" + name),
			ServiceIdentities: svcIdentities(strs(t.Svc)), NodeIdentities: nodeIdentities(strs(t.Node)),
			TemplatedPolicies: templatedPolicies(strs(t.TSvc), strs(t.TNode))}
		for _, p := range t.Pols {
			tok.Policies = append(tok.Policies, structs.ACLTokenPolicyLink{ID: polID(p)})
		}
		for _, r := range t.Roles {
			tok.Roles = append(tok.Roles, structs.ACLTokenRoleLink{ID: polID(r)})
		}
		tok.SetHash(true)
		rw.idx++
		if err := st.ACLTokenSet(rw.idx, tok); err != nil {
			fatal("ACLTokenSet %s: %v", name, err)
		}
	}
	return rw
}

func (rw *resolverWorld) setPolicy(name string, rules []Rule) {
	rw.idx++
	p := &structs.ACLPolicy{ID: polID(name), Name: name, Rules: hclOf(rules)}
	p.SetHash(true)
	if err := rw.st.ACLPolicySet(rw.idx, p); err != nil {
		fatal("ACLPolicySet %s: %v", name, err)
	}
}

func (rw *resolverWorld) delPolicy(name string) {
	rw.idx++
	if err := rw.st.ACLPolicyDeleteByID(rw.idx, polID(name), nil); err != nil {
		fatal("ACLPolicyDeleteByID %s: %v", name, err)
	}
}

func (rw *resolverWorld) resolve(tok string) acl.Authorizer {
	r, err := rw.res.ResolveToken(uuidOf("sec:" + tok))
	if err != nil {
		fatal("ResolveToken %s: %v", tok, err)
	}
	return r.Authorizer
}

func sortedKeys[V any](m map[string]V) []string {
	out := make([]string, 0, len(m))
	for k := range m {
		out = append(out, k)
	}
	sort.Strings(out)
	return out
}

// ---------------------------------------------------------------- running one history

func normEnv(e Env) Env {
	for k, v := range e.Pol {
		e.Pol[k] = normRules(v)
	}
	nn := func(x [][]int) [][]int {
		if x == nil {
			return [][]int{}
		}
		for i := range x {
			if x[i] == nil {
				x[i] = []int{}
			}
		}
		return x
	}
	ns := func(x []string) []string {
		if x == nil {
			return []string{}
		}
		return x
	}
	for k, r := range e.Roles {
		r.Pols, r.Svc, r.Node, r.TSvc, r.TNode = ns(r.Pols), nn(r.Svc), nn(r.Node), nn(r.TSvc), nn(r.TNode)
		e.Roles[k] = r
	}
	for k, t := range e.Tok {
		t.Pols, t.Roles, t.Svc, t.Node, t.TSvc, t.TNode = ns(t.Pols), ns(t.Roles), nn(t.Svc), nn(t.Node), nn(t.TSvc), nn(t.TNode)
		e.Tok[k] = t
	}
	return e
}

func runBehaviour(rec *recorder, b Behaviour) {
	w := b.World
	w.Env = normEnv(w.Env)
	if len(w.Fams) == 0 {
		w.Fams = []string{"*"}
	}
	abs := &abstractWorld{env: w.Env, dflt: w.Dflt}
	var wd world
	switch w.Via {
	case "compile":
		wd = newCompileWorld(w, abs)
	case "resolver":
		wd = newResolverWorld(w, abs)
	default:
		fatal("unknown via %q", w.Via)
	}
	rec.emit(M{"cmd": M{"t": "world", "env": w.Env, "names": w.Names, "dflt": w.Dflt, "via": w.Via, "cache": w.Cache, "fams": w.Fams}})
	names := strs(w.Names)
	for _, c := range b.Cmds {
		switch c.T {
		case "resolve":
			a := wd.resolve(c.Tok)
			shared := table(a, names, w.Fams)
			fresh := table(abs.freshFor(c.Tok), names, w.Fams)
			rec.emit(M{"cmd": M{"t": "resolve", "tok": c.Tok}, "res": M{"shared": shared, "fresh": fresh}})
		case "setpolicy":
			rules := normRules(c.Rules)
			wd.setPolicy(c.P, rules)
			abs.env.Pol[c.P] = rules
			rec.emit(M{"cmd": M{"t": "setpolicy", "p": c.P, "rules": rules}})
		case "delpolicy":
			if len(abs.env.Pol) <= 1 {
				continue
			}
			wd.delPolicy(c.P)
			delete(abs.env.Pol, c.P)
			rec.emit(M{"cmd": M{"t": "delpolicy", "p": c.P}})
		default:
			fatal("unknown command %q", c.T)
		}
	}
	rec.behaviours++
}

// ---------------------------------------------------------------- recorder / main

type recorder struct {
	w          *bufio.Writer
	events     int
	behaviours int
}

func (r *recorder) emit(ev M) {
	b, err := json.Marshal(ev)
	if err != nil {
		fatal("marshal: %v", err)
	}
	r.w.Write(b)
	r.w.WriteByte('\n')
	r.events++
}

func openOut(path string) (*recorder, func()) {
	f, err := os.Create(path)
	if err != nil {
		fatal("%v", err)
	}
	rec := &recorder{w: bufio.NewWriterSize(f, 1<<20)}
	return rec, func() {
		rec.w.Flush()
		f.Close()
		fmt.Printf("{\"behaviours\":%d,\"events\":%d,\"decisions\":%d}\n", rec.behaviours, rec.events, decisions)
	}
}

func readJSON(path string, v any) {
	b, err := os.ReadFile(path)
	if err != nil {
		fatal("%v", err)
	}
	if err := json.Unmarshal(b, v); err != nil {
		fatal("decode %s: %v", path, err)
	}
}

func main() {
	if len(os.Args) < 2 {
		fatal("usage: h-acl decide|replay|random ...")
	}
	fs := flag.NewFlagSet(os.Args[1], flag.ExitOnError)
	in := fs.String("in", "", "input json")
	out := fs.String("out", "", "output ndjson")
	seed := fs.Int64("seed", 1, "seed")
	n := fs.Int("n", 10, "histories / rule sets")
	length := fs.Int("len", 10, "commands per history")
	fs.IntVar(&perturb, "perturb", 0, "self-test: flip the N-th recorded decision")
	fs.Parse(os.Args[2:])
	switch os.Args[1] {
	case "decide":
		var inp struct {
			Names [][]int   `json:"names"`
			Sets  []RuleSet `json:"sets"`
		}
		readJSON(*in, &inp)
		rec, done := openOut(*out)
		r := rand.New(rand.NewSource(*seed))
		for _, rs := range inp.Sets {
			decide(rec, rs, inp.Names, r, 24)
			rec.behaviours++
		}
		done()
	case "replay":
		var behs []Behaviour
		readJSON(*in, &behs)
		rec, done := openOut(*out)
		for _, b := range behs {
			runBehaviour(rec, b)
		}
		done()
	case "random":
		rec, done := openOut(*out)
		randomDriver(rec, *seed, *n, *length)
		done()
	default:
		fatal("unknown mode %q", os.Args[1])
	}
}
