// h-repl: executor/recorder for property C19 (one replication round makes a secondary equal to
// the primary).
//
//	h-repl replay -in cases.json -out trace.ndjson        run TLC-generated (or replay-file) cases
//	h-repl random -seed S -n N -max M -out trace.ndjson   seeded random cases over a larger universe
//
// Every case is executed against the real diff functions and two real state stores
// (internal/replh); one NDJSON event per case is written for spec/ReplDiffTrace.tla.
// No verdict is computed here.
package main

import (
	"bufio"
	"encoding/json"
	"flag"
	"fmt"
	"math/rand"
	"os"
	"runtime"
	"sync"
	"sync/atomic"

	"github.com/hashicorp/consul/agent/consul"
	rh "github.com/hashicorp/consul/verifharness/internal/replh"
)

func fatal(f string, a ...any) {
	fmt.Fprintf(os.Stderr, "h-repl: "+f+"\n", a...)
	os.Exit(2)
}

type recorder struct {
	w      *bufio.Writer
	events int
}

func (r *recorder) emit(ev *rh.Event) {
	b, err := json.Marshal(ev)
	if err != nil {
		fatal("marshal: %v", err)
	}
	r.w.Write(b)
	r.w.WriteByte('\n')
	r.events++
}

func kindOf(typ string) string {
	switch typ {
	case "config":
		return "config"
	case "fed":
		return "fed"
	}
	return "acl"
}

func replay(in, out string) {
	b, err := os.ReadFile(in)
	if err != nil {
		fatal("%v", err)
	}
	var cases []rh.Case
	if err := json.Unmarshal(b, &cases); err != nil {
		fatal("decode cases: %v", err)
	}
	f, err := os.Create(out)
	if err != nil {
		fatal("%v", err)
	}
	defer f.Close()
	rec := &recorder{w: bufio.NewWriterSize(f, 1<<20)}
	for i := range cases {
		if cases[i].Kind == "" {
			cases[i].Kind = kindOf(cases[i].Typ)
		}
	}
	runAll(cases, rec)
	rec.w.Flush()
	fmt.Printf("{\"behaviours\":%d,\"events\":%d}\n", len(cases), rec.events)
}

// runAll executes the cases on a few goroutines (every case has its own stores) and records the
// events in case order.
func runAll(cases []rh.Case, rec *recorder) {
	const chunk = 2048
	workers := runtime.GOMAXPROCS(0)
	if workers > 8 {
		workers = 8
	}
	for lo := 0; lo < len(cases); lo += chunk {
		hi := lo + chunk
		if hi > len(cases) {
			hi = len(cases)
		}
		evs := make([]*rh.Event, hi-lo)
		var wg sync.WaitGroup
		next := int64(lo - 1)
		for w := 0; w < workers; w++ {
			wg.Add(1)
			go func() {
				defer wg.Done()
				node, err := consul.VerifNewReplNode() // one real single-node raft per worker, reused for its rounds
				if err != nil {
					fatal("raft node: %v", err)
				}
				defer node.Close()
				for {
					i := int(atomic.AddInt64(&next, 1))
					if i >= hi {
						return
					}
					evs[i-lo] = rh.Run(node, cases[i])
				}
			}()
		}
		wg.Wait()
		for _, ev := range evs {
			rec.emit(ev)
		}
	}
}

// randomCase draws a case that satisfies the environment assumption of spec/ReplDiff.tla (Env):
// unique ids per side, Consistent(local, remote, last), local-only ids unused by the primary.
func randomCase(r *rand.Rand, typ string, max int) rh.Case {
	c := rh.Case{Typ: typ, Kind: kindOf(typ), Last: uint64(r.Intn(10))}
	universe := 12
	if typ == "config" {
		universe = 13
	}
	n := 1 + r.Intn(max)
	perm := r.Perm(universe)
	pL, pR := 0.35+0.5*r.Float64(), 0.35+0.5*r.Float64()
	equalRun := r.Intn(6) == 0 // the secondary already equals the primary
	nContents := 2 + r.Intn(5)
	var local, remote []rh.Obj
	used := map[int]bool{}
	for _, k0 := range perm {
		if len(local)+len(remote) >= n {
			break
		}
		k := k0 + 1
		inL, inR := r.Float64() < pL, r.Float64() < pR
		if equalRun {
			inL, inR = true, true
		}
		if !inL && !inR {
			continue
		}
		used[k] = true
		cr := 1 + r.Intn(nContents)
		cl := 1 + r.Intn(nContents)
		mi := uint64(1 + r.Intn(9))
		if inL && inR && (mi <= c.Last || equalRun || r.Intn(2) == 0) {
			cl = cr
		}
		hl, hr := cl, cr
		if typ == "config" && !equalRun {
			if r.Intn(7) == 0 {
				hl = 0
			}
			if r.Intn(7) == 0 {
				hr = 0
			}
		}
		if typ == "fed" {
			hl, hr = 0, 0
		}
		if inL {
			local = append(local, rh.Obj{ID: k, MI: 1, C: cl, H: hl})
		}
		if inR {
			remote = append(remote, rh.Obj{ID: k, MI: mi, C: cr, H: hr})
		}
	}
	// Scenario family "order-sensitive writes" (about 1 case in 12 of policy / role / config): content 7 is a
	// value that the store only accepts for one object at a time (a datacenter-unique name; an ExternalSNI that
	// excludes resolver subsets of the same service). It moves between two objects a < b, in either direction.
	if (typ == "policy" || typ == "role" || typ == "config") && r.Intn(12) == 0 && c.Last <= 8 {
		a, b := 1+r.Intn(6), 7+r.Intn(6)
		other := 5
		if typ == "config" { // service-defaults/x and service-resolver/x
			a = 2 + r.Intn(6)
			b = a + 6
		} else {
			other = 1 + r.Intn(6)
		}
		put := func(l []rh.Obj, o rh.Obj) []rh.Obj {
			for i := range l {
				if l[i].ID == o.ID {
					l[i] = o
					return l
				}
			}
			return append(l, o)
		}
		mi := c.Last + 1
		if typ == "config" {
			if r.Intn(2) == 0 { // resolver drops its subsets, service-defaults gains ExternalSNI
				local = put(put(local, rh.Obj{ID: a, MI: 1, C: 1, H: 1}), rh.Obj{ID: b, MI: 1, C: other, H: other})
				remote = put(put(remote, rh.Obj{ID: a, MI: mi, C: 7, H: 7}), rh.Obj{ID: b, MI: mi, C: 1, H: 1})
			} else { // service-defaults drops ExternalSNI, resolver gains subsets
				local = put(put(local, rh.Obj{ID: a, MI: 1, C: 7, H: 7}), rh.Obj{ID: b, MI: 1, C: 1, H: 1})
				remote = put(put(remote, rh.Obj{ID: a, MI: mi, C: 1, H: 1}), rh.Obj{ID: b, MI: mi, C: other, H: other})
			}
		} else if v := r.Intn(4); v >= 2 { // the holder of the name is deleted and another object is created with it
			del := func(l []rh.Obj, id int) []rh.Obj {
				out := l[:0]
				for _, o := range l {
					if o.ID != id {
						out = append(out, o)
					}
				}
				return out
			}
			holder, taker := a, b
			if v == 3 {
				holder, taker = b, a
			}
			local = put(del(local, taker), rh.Obj{ID: holder, MI: 1, C: 7, H: 7})
			remote = put(del(remote, holder), rh.Obj{ID: taker, MI: uint64(1 + r.Intn(9)), C: 7, H: 7})
		} else if v == 0 { // the name moves from b to a
			local = put(put(local, rh.Obj{ID: a, MI: 1, C: other, H: other}), rh.Obj{ID: b, MI: 1, C: 7, H: 7})
			remote = put(put(remote, rh.Obj{ID: a, MI: mi, C: 7, H: 7}), rh.Obj{ID: b, MI: mi, C: other, H: other})
		} else { // the name moves from a to b
			local = put(put(local, rh.Obj{ID: a, MI: 1, C: 7, H: 7}), rh.Obj{ID: b, MI: 1, C: other, H: other})
			remote = put(put(remote, rh.Obj{ID: a, MI: mi, C: other, H: other}), rh.Obj{ID: b, MI: mi, C: 7, H: 7})
		}
	}
	// Scenario family "text moves across a field boundary" (about 1 case in 25 of policy / role): contents 8 and 9
	// differ in Name and in Description while the concatenation Name+Description is the same.
	if (typ == "policy" || typ == "role") && r.Intn(25) == 0 && c.Last <= 8 {
		k := 1 + r.Intn(12)
		cl, cr := 8, 9
		if r.Intn(2) == 0 {
			cl, cr = 9, 8
		}
		putk := func(l []rh.Obj, o rh.Obj) []rh.Obj {
			for i := range l {
				if l[i].ID == o.ID {
					l[i] = o
					return l
				}
			}
			return append(l, o)
		}
		local = putk(local, rh.Obj{ID: k, MI: 1, C: cl, H: cl})
		remote = putk(remote, rh.Obj{ID: k, MI: c.Last + 1, C: cr, H: cr})
	}
	c.Sec = append([]rh.Obj(nil), local...)
	if c.Kind == "acl" {
		for i := r.Intn(3); i > 0 && r.Intn(2) == 0; i-- { // legacy entries without id, both sides
			cc := 1 + r.Intn(2)
			local = append(local, rh.Obj{ID: 0, MI: 1, C: cc, H: cc})
		}
		for i := r.Intn(3); i > 0 && r.Intn(2) == 0; i-- {
			cc := 1 + r.Intn(2)
			remote = append(remote, rh.Obj{ID: 0, MI: uint64(1 + r.Intn(9)), C: cc, H: cc})
		}
	}
	if typ == "token" {
		for i := r.Intn(3); i > 0; i-- { // local-scoped tokens: ids the primary does not use
			k := 1 + r.Intn(20)
			if !used[k] {
				used[k] = true
				c.Sec = append(c.Sec, rh.Obj{ID: k, MI: 1, C: 1 + r.Intn(nContents), H: 1, LO: true})
			}
		}
	}
	r.Shuffle(len(local), func(i, j int) { local[i], local[j] = local[j], local[i] })
	r.Shuffle(len(remote), func(i, j int) { remote[i], remote[j] = remote[j], remote[i] })
	r.Shuffle(len(c.Sec), func(i, j int) { c.Sec[i], c.Sec[j] = c.Sec[j], c.Sec[i] })
	c.Fault = rh.Fault{T: "none"}
	switch {
	case r.Intn(8) == 0:
		// the primary was rebuilt / restored from an older snapshot: every remote index is below lastRemoteIndex and
		// what the secondary holds is unrelated to it
		c.Back, c.Last = true, 9
		for i := range local {
			if local[i].ID == 0 {
				continue
			}
			nc := 1 + r.Intn(nContents)
			local[i].C = nc
			if local[i].H != 0 {
				local[i].H = nc
			}
			for j := range c.Sec {
				if c.Sec[j].ID == local[i].ID && !c.Sec[j].LO {
					c.Sec[j].C, c.Sec[j].H = local[i].C, local[i].H
				}
			}
		}
	case (typ == "policy" || typ == "token") && r.Intn(5) == 0:
		// the batch read of this round is answered by a lagging server of the primary
		var cand []rh.Obj
		for _, o := range remote {
			if o.ID != 0 {
				cand = append(cand, o)
			}
		}
		if len(cand) > 0 {
			k := cand[r.Intn(len(cand))]
			oc := 1 + r.Intn(6)
			if oc == k.C {
				oc = oc%6 + 1
			}
			c.Fault = rh.Fault{T: []string{"stale", "omit"}[r.Intn(2)], ID: k.ID, OC: oc, Mod: r.Intn(2) == 0}
			if c.Fault.T == "stale" {
				c.Fault.Mod = true
			}
		}
	}
	c.InL, c.InR = local, remote
	c.Seed = r.Int63()
	if r.Intn(2) == 0 {
		c.Order = "given"
	}
	if c.InL == nil {
		c.InL = []rh.Obj{}
	}
	if c.InR == nil {
		c.InR = []rh.Obj{}
	}
	if c.Sec == nil {
		c.Sec = []rh.Obj{}
	}
	return c
}

func random(seed int64, n, max int, typs []string, out string) {
	f, err := os.Create(out)
	if err != nil {
		fatal("%v", err)
	}
	defer f.Close()
	rec := &recorder{w: bufio.NewWriterSize(f, 1<<20)}
	r := rand.New(rand.NewSource(seed))
	cases := make([]rh.Case, n)
	for i := 0; i < n; i++ {
		cases[i] = randomCase(r, typs[i%len(typs)], max)
	}
	runAll(cases, rec)
	rec.w.Flush()
	fmt.Printf("{\"behaviours\":%d,\"events\":%d}\n", n, rec.events)
}

func main() {
	if len(os.Args) < 2 {
		fatal("usage: h-repl replay|random ...")
	}
	fs := flag.NewFlagSet(os.Args[1], flag.ExitOnError)
	in := fs.String("in", "", "cases json")
	out := fs.String("out", "trace.ndjson", "output trace")
	seed := fs.Int64("seed", 1, "seed")
	n := fs.Int("n", 100, "number of random cases")
	max := fs.Int("max", 12, "max objects per case")
	typ := fs.String("typ", "all", "policy|role|token|config|fed|all")
	perturb := fs.String("perturb", "", "self-test only: drop-upsert | drop-delete (corrupts the real diff's result)")
	fs.Parse(os.Args[2:])
	rh.Perturb = *perturb
	typs := []string{"policy", "role", "token", "config", "fed"}
	if *typ != "all" {
		typs = []string{*typ}
	}
	switch os.Args[1] {
	case "replay":
		replay(*in, *out)
	case "random":
		random(*seed, *n, *max, typs, *out)
	default:
		fatal("unknown mode %q", os.Args[1])
	}
}
