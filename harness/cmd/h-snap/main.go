// h-snap: executor/recorder for C20 (snapshot archives), see internal/snaph.
//
//	h-snap run    -scn scenarios.json -tier quick|thorough -seed S -shard i/n -tmp DIR -out trace.ndjson
//	h-snap random -seed S -n N -tmp DIR -out trace.ndjson
//	h-snap one    -in instance.json -tmp DIR -out trace.ndjson
//
// One NDJSON event per (scenario, base archive): how often each real entry point rejected /
// accepted-same / accepted-different over all byte positions tried, what the recording FSM saw,
// and the first concrete instance of every (entry point, outcome).  No verdict is computed here.
package main

import (
	"bufio"
	"encoding/json"
	"flag"
	"fmt"
	"hash/fnv"
	"math/rand"
	"os"
	"runtime/debug"
	"runtime/pprof"
	"strings"

	sh "github.com/hashicorp/consul/verifharness/internal/snaph"
)

type M = map[string]any

func fatal(f string, a ...any) {
	fmt.Fprintf(os.Stderr, "h-snap: "+f+"\n", a...)
	os.Exit(2)
}

func check(err error) {
	if err != nil {
		fatal("%v", err)
	}
}

func hash(s string) int64 {
	h := fnv.New32a()
	h.Write([]byte(s))
	return int64(h.Sum32())
}

var baseIDs = []string{"r0", "r1", "r511", "r512", "r513", "r70000", "c1", "c511", "c512", "c513", "c70000", "new", "xmeta"}

// makeBase builds the base archive `id` deterministically from the seed (the payload and metadata
// are; header mtime and SHA256SUMS line order are the writer's).
func makeBase(w *sh.World, id string, seed int64, sumsFirst string) *sh.Base {
	r := rand.New(rand.NewSource(seed*1000003 + hash(id)))
	switch {
	case id == "new":
		p := sh.MakePayload(r, 1000, "random")
		for try := 0; ; try++ {
			b, err := w.NewBaseViaSnapshotNew(id, p, "random")
			check(err)
			if sumsFirst == "" || b.SumsFirst == sumsFirst || try > 200 {
				return b
			}
		}
	case id == "xmeta":
		p := sh.MakePayload(r, 300, "random")
		b, err := sh.NewBase(id, p, "random", sh.ExtremeMeta(len(p)), sumsFirst)
		check(err)
		b.NoRestore = true
		return b
	case strings.HasPrefix(id, "rnd"): // random driver: rnd-<size>-<kind>
		var size int
		var kind string
		fmt.Sscanf(id, "rnd-%d-%s", &size, &kind)
		p := sh.MakePayload(r, size, kind)
		b, err := sh.NewBase(id, p, kind, sh.RandomMeta(r, size), sumsFirst)
		check(err)
		return b
	}
	var size int
	fmt.Sscanf(id[1:], "%d", &size)
	kind := map[byte]string{'r': "random", 'c': "compressible"}[id[0]]
	p := sh.MakePayload(r, size, kind)
	b, err := sh.NewBase(id, p, kind, sh.FixedMeta(size), sumsFirst)
	check(err)
	return b
}

type counts struct{ Rejected, Same, Different int }

func (c *counts) add(o string) {
	switch o {
	case "rejected":
		c.Rejected++
	case "same":
		c.Same++
	case "different":
		c.Different++
	}
}
func (c counts) json() M { return M{"rejected": c.Rejected, "same": c.Same, "different": c.Different} }

// agg accumulates the observations of one (scenario, base)
type agg struct {
	n                                  int
	api                                map[string]*counts
	fsmCalls, fsmAfterReject, fsmDiff  int
	restoreAccepted, tmpLeaked, maxLen int
	ex                                 []M
	seen                               map[string]bool
}

func newAgg() *agg { return &agg{api: map[string]*counts{}, seen: map[string]bool{}, ex: []M{}} }

func (g *agg) add(o sh.Obs, params []sh.P, n int) {
	g.n++
	if params == nil {
		params = []sh.P{}
	}
	note := func(api, out string) {
		if k := api + "/" + out; !g.seen[k] {
			g.seen[k] = true
			g.ex = append(g.ex, M{"api": api, "outcome": out, "params": append([]sh.P{}, params...), "len": n, "err": o.Errs[api]})
		}
	}
	if o.FsmAfterReject {
		note("fsm", "after_reject")
	}
	if o.FsmDiff {
		note("fsm", "diff")
	}
	for api, out := range map[string]string{"verifread": o.VerifRead, "verify": o.Verify, "read": o.Read, "restore": o.Restore} {
		if out == "" {
			continue
		}
		if g.api[api] == nil {
			g.api[api] = &counts{}
		}
		g.api[api].add(out)
		note(api, out)
	}
	g.fsmCalls += o.FsmCalls
	if o.FsmAfterReject {
		g.fsmAfterReject++
	}
	if o.FsmDiff {
		g.fsmDiff++
	}
	if o.Restore == "same" || o.Restore == "different" {
		g.restoreAccepted++
	}
	g.tmpLeaked += o.TmpLeaked
}

func (g *agg) event(sc sh.Scenario, b *sh.Base, seed int64) M {
	api := M{}
	for k, c := range g.api {
		api[k] = c.json()
	}
	return M{"scn": M{"wrap": sc.Wrap, "faults": sc.Faults}, "base": b.Info(), "n": g.n, "api": api, "seed": seed,
		"restore":    M{"fsm_calls": g.fsmCalls, "fsm_after_reject": g.fsmAfterReject, "fsm_diff": g.fsmDiff, "accepted": g.restoreAccepted},
		"tmp_leaked": g.tmpLeaked, "ex": g.ex}
}

// instance applies the scenario with the given parameters and calls the real code.
func instance(w *sh.World, b *sh.Base, sc sh.Scenario, ps []sh.P) (sh.Obs, int) {
	a := sh.Start(b, sc.Wrap)
	for i, f := range sc.Faults {
		check(w.Apply(b, a, f, ps[i]))
	}
	o, data := w.Run(b, a)
	return o, len(data)
}

func clash(f1, f2 sh.Fault, p1, p2 sh.P) bool {
	return f1.T == f2.T && (f1.T == "flip" || f1.T == "gzflip") && f1.I == f2.I && p1.Pos == p2.Pos
}

// runItem executes one (scenario, base): every candidate position for <= 1 fault, K sampled
// position pairs (first/first, last/last, seeded random) for two faults.
func runItem(w *sh.World, b *sh.Base, sc sh.Scenario, t sh.Tier, r *rand.Rand) *agg {
	g := newAgg()
	switch len(sc.Faults) {
	case 0:
		o, n := instance(w, b, sc, nil)
		g.add(o, nil, n)
	case 1:
		a := sh.Start(b, sc.Wrap)
		cs, err := w.Candidates(b, a, sc.Faults[0], t, r)
		check(err)
		every := 1
		if sc.Wrap == "gz" && !strings.HasPrefix(sc.Faults[0].T, "gz") && t.GzTarEvery > 1 && len(cs) > 2*t.GzTarEvery {
			every = t.GzTarEvery // the same tar-level fault is tried at EVERY position on the plain form
		}
		off := r.Intn(every)
		for ci, p := range cs {
			if every > 1 && ci%every != off && ci != 0 && ci != len(cs)-1 {
				continue
			}
			o, n := instance(w, b, sc, []sh.P{p})
			g.add(o, []sh.P{p}, n)
		}
	default:
		// all faults but the last get a sampled parameter, the last one too (K combinations)
		for k := 0; k < t.PairK; k++ {
			a := sh.Start(b, sc.Wrap)
			ps := make([]sh.P, 0, len(sc.Faults))
			ok := true
			for i, f := range sc.Faults {
				cs, err := w.Candidates(b, a, f, t, r)
				check(err)
				if len(cs) == 0 {
					ok = false
					break
				}
				var p sh.P
				for try := 0; try < 20; try++ {
					switch {
					case k == 0 && try == 0:
						p = cs[0]
					case k == 1 && try == 0:
						p = cs[len(cs)-1]
					default:
						p = cs[r.Intn(len(cs))]
					}
					if i == 0 || !clash(sc.Faults[i-1], f, ps[i-1], p) {
						break
					}
					if try == 19 {
						ok = false
					}
				}
				if !ok {
					break
				}
				check(w.Apply(b, a, f, p))
				ps = append(ps, p)
			}
			if !ok {
				continue
			}
			o, data := w.Run(b, a)
			g.add(o, ps, len(data))
		}
	}
	return g
}

func world(tmp string) *sh.World {
	w, err := sh.NewWorld(tmp)
	check(err)
	if v := os.Getenv("H_SNAP_PERTURB"); v != "" {
		fmt.Sscanf(v, "%d", &w.Perturb)
	}
	return w
}

func openOut(path string) (*os.File, *bufio.Writer) {
	f, err := os.Create(path)
	check(err)
	return f, bufio.NewWriterSize(f, 1<<20)
}

func emit(w *bufio.Writer, ev M) {
	w.Write(sh.MustJSON(ev))
	w.WriteByte('\n')
}

func cmdRun(args []string) {
	fs := flag.NewFlagSet("run", flag.ExitOnError)
	scn := fs.String("scn", "", "scenarios.json (list of TLC scenarios)")
	tier := fs.String("tier", "quick", "")
	seed := fs.Int64("seed", 1, "")
	shard := fs.String("shard", "0/1", "")
	tmp := fs.String("tmp", "", "private temp dir")
	out := fs.String("out", "", "")
	only := fs.String("bases", "", "comma separated base ids (default all)")
	prof := fs.String("cpuprofile", "", "")
	fs.Parse(args)
	if *prof != "" {
		pf, err := os.Create(*prof)
		check(err)
		pprof.StartCPUProfile(pf)
		defer pprof.StopCPUProfile()
	}
	if *only != "" {
		baseIDs = strings.Split(*only, ",")
	}
	var si, sn int
	fmt.Sscanf(*shard, "%d/%d", &si, &sn)
	raw, err := os.ReadFile(*scn)
	check(err)
	var scs []sh.Scenario
	check(json.Unmarshal(raw, &scs))
	t := sh.Quick
	if *tier == "thorough" {
		t = sh.Thorough
	}
	w := world(*tmp)
	defer w.Close()
	bases := make([]*sh.Base, len(baseIDs))
	for i, id := range baseIDs {
		bases[i] = makeBase(w, id, *seed, "")
	}
	f, bw := openOut(*out)
	defer f.Close()
	item, events, instances := 0, 0, 0
	for s, sc := range scs {
		var sel []int
		if len(sc.Faults) >= 2 && t.PairBases > 0 {
			for j := 0; j < t.PairBases; j++ {
				sel = append(sel, (s*5+j*7+int(*seed))%len(bases))
			}
		} else {
			for j := range bases {
				sel = append(sel, j)
			}
		}
		for _, j := range sel {
			item++
			if item%sn != si {
				continue
			}
			r := rand.New(rand.NewSource(*seed*7919 + int64(s)*131 + int64(j)))
			g := runItem(w, bases[j], sc, t, r)
			if g.n == 0 {
				continue
			}
			emit(bw, g.event(sc, bases[j], *seed))
			events++
			instances += g.n
		}
	}
	bw.Flush()
	fmt.Printf("{\"events\":%d,\"instances\":%d,\"behaviours\":%d}\n", events, instances, events)
}

// ---------------------------------------------------------------- random driver

// enabled faults are chosen on the harness' mirror of the abstract state; TLC re-checks
// Archive!Applicable on every recorded fault list (a mismatch is reported as drift).
func randomFault(r *rand.Rand, a *sh.Arch) (sh.Fault, bool) {
	n := (len(a.Tar) - 1) / 3
	var kinds []string
	if !a.GzPhase {
		kinds = append(kinds, "flip", "flip", "flip", "truncin", "truncat")
		if !a.Trunc {
			kinds = append(kinds, "remove", "reorder", "inject", "inject", "sumsline", "sumsline")
		}
	}
	if a.Wrap == "gz" {
		kinds = append(kinds, "gzflip", "gztruncin", "gztruncat")
	}
	t := kinds[r.Intn(len(kinds))]
	f := sh.Fault{T: t, Perm: []int{}}
	switch t {
	case "flip", "truncin":
		if len(a.Tar) == 0 {
			return f, false
		}
		f.I = 1 + r.Intn(len(a.Tar))
		s := a.Tar[f.I-1]
		f.K, f.M = s.K, s.M
		if s.D == "cut" {
			return f, false
		}
	case "truncat":
		if len(a.Tar) == 0 {
			return f, false
		}
		f.I = r.Intn(len(a.Tar))
		f.K, f.M = a.Tar[f.I].K, a.Tar[f.I].M
	case "sumsline":
		// an intact SHA256SUMS member (header, text and padding untouched)
		var idx []int
		for i := 1; i+1 < len(a.Tar); i++ {
			if s := a.Tar[i]; s.K == "content" && s.M == "sums" && s.D == "ok" && a.Tar[i-1].D == "ok" && a.Tar[i+1].D == "ok" {
				idx = append(idx, i)
			}
		}
		if len(idx) == 0 {
			return f, false
		}
		i := idx[r.Intn(len(idx))]
		ls := a.Tar[i].Lines
		f.I, f.K, f.M = i+1, "content", "sums"
		f.Fx = []string{"dup", "copy", "copy", "swap", "drop", "addx", "addwrong"}[r.Intn(7)]
		if len(ls) == 0 && f.Fx != "addx" {
			return f, false
		}
		switch f.Fx {
		case "dup", "drop":
			f.Src = 1 + r.Intn(len(ls))
		case "addwrong":
			f.Src = 1 + r.Intn(len(ls))
			if ls[f.Src-1].N == "x" {
				return f, false
			}
		case "copy", "swap":
			j, k := r.Intn(len(ls)), r.Intn(len(ls))
			if ls[j].N == ls[k].N && ls[j].Dg == ls[k].Dg {
				return f, false
			}
			if f.Fx == "swap" && j > k {
				j, k = k, j
			}
			f.Src, f.Perm = j+1, []int{k + 1}
		}
	case "remove":
		if n == 0 {
			return f, false
		}
		f.I = 1 + r.Intn(n)
		f.K, f.M = "member", a.Tar[3*f.I-3].M
	case "reorder":
		if n < 2 {
			return f, false
		}
		f.K, f.M = "member", "-"
		p := make([]int, n)
		for i := range p {
			p[i] = i + 1
		}
		i, j := r.Intn(n), r.Intn(n)
		if i == j {
			j = (i + 1) % n
		}
		p[i], p[j] = p[j], p[i]
		if n == 3 && r.Intn(3) == 0 {
			p = [][]int{{2, 3, 1}, {3, 1, 2}}[r.Intn(2)]
		}
		f.Perm = p
	case "inject":
		f.I = 1 + r.Intn(n+1)
		f.Src = r.Intn(n + 1)
		f.K, f.M = "member", "x"
		if f.Src > 0 {
			f.M = a.Tar[3*f.Src-3].M
		}
	}
	return f, true
}

func cmdRandom(args []string) {
	fs := flag.NewFlagSet("random", flag.ExitOnError)
	seed := fs.Int64("seed", 1, "")
	n := fs.Int("n", 100, "")
	tmp := fs.String("tmp", "", "")
	out := fs.String("out", "", "")
	fs.Parse(args)
	w := world(*tmp)
	defer w.Close()
	r := rand.New(rand.NewSource(*seed))
	f, bw := openOut(*out)
	defer f.Close()
	t := sh.Thorough
	events := 0
	sizes := []int{0, 1, 2, 100, 510, 511, 512, 513, 1023, 1024, 1025, 4096, 10000, 65535, 65536, 65537, 200000}
	var b *sh.Base
	for it := 0; it < *n; it++ {
		if it%8 == 0 { // a fresh archive every 8 fault sequences
			size := sizes[r.Intn(len(sizes))]
			if r.Intn(3) == 0 {
				size = r.Intn(3000)
			}
			kind := []string{"random", "compressible"}[r.Intn(2)]
			b = makeBase(w, fmt.Sprintf("rnd-%d-%s", size, kind), *seed+int64(it), "")
		}
		sc := sh.Scenario{Wrap: []string{"plain", "gz"}[r.Intn(2)], Faults: []sh.Fault{}}
		a := sh.Start(b, sc.Wrap)
		var ps []sh.P
		nf := r.Intn(4) // up to THREE faults (TLC generation stops at two)
		for len(sc.Faults) < nf {
			fl, ok := randomFault(r, a)
			if !ok {
				break
			}
			var p sh.P
			switch fl.T {
			case "flip", "gzflip", "truncin", "gztruncin":
				// label first (gz regions only exist after wrapping), then choose the parameter
				if strings.HasPrefix(fl.T, "gz") {
					fl.I = 1 + r.Intn(3)
				}
				s, err := w.Region(b, a, withLabel(w, b, a, fl))
				if err != nil || s == nil || s.D == "cut" {
					ok = false
					break
				}
				fl.K, fl.M = s.K, s.M
				if fl.T == "flip" || fl.T == "gzflip" {
					if len(s.B) == 0 {
						ok = false
						break
					}
					p = sh.P{Pos: r.Intn(len(s.B)), Pat: 1 + r.Intn(255)}
					if fl.T == "flip" && s.K == "content" && s.M == "sums" {
						probe := append([]byte(nil), s.B...)
						probe[p.Pos] ^= byte(p.Pat)
						fl.Fx, fl.Src = sh.LineEffect(s.Lines, b.DecodeLines(probe))
						if fl.Fx == "" {
							ok = false
						}
					}
				} else {
					if len(s.B) < 2 {
						ok = false
						break
					}
					p = sh.P{Keep: 1 + r.Intn(len(s.B)-1)}
				}
			case "gztruncat":
				fl.I = r.Intn(3)
				fl = withLabel(w, b, a, fl)
				if fl.K == "" {
					ok = false
				}
			case "inject":
				p = sh.P{Var: r.Intn(sh.NumXVariants())}
			case "sumsline":
				p = sh.P{Var: r.Intn(sh.NumLineVariants(fl.Fx))}
			}
			if !ok {
				break
			}
			check(w.Apply(b, a, fl, p))
			sc.Faults = append(sc.Faults, fl)
			ps = append(ps, p)
		}
		o, data := w.Run(b, a)
		g := newAgg()
		g.add(o, ps, len(data))
		_ = t
		emit(bw, g.event(sc, b, *seed+int64(it-it%8)))
		events++
	}
	bw.Flush()
	fmt.Printf("{\"events\":%d,\"instances\":%d,\"behaviours\":%d}\n", events, events, events)
}

// withLabel fills K/M of a gzip-level fault from the current gzip regions (creating them)
func withLabel(w *sh.World, b *sh.Base, a *sh.Arch, f sh.Fault) sh.Fault {
	if !strings.HasPrefix(f.T, "gz") {
		return f
	}
	if a.Gz == nil {
		g, err := sh.ParseGz(w.GzBytes(b, a))
		check(err)
		a.Gz = g
	}
	idx := f.I - 1
	if f.T == "gztruncat" {
		idx = f.I
	}
	if idx < 0 || idx >= len(a.Gz) {
		f.K = ""
		return f
	}
	f.K, f.M = a.Gz[idx].K, a.Gz[idx].M
	return f
}

// ---------------------------------------------------------------- single instance (replay)

func cmdOne(args []string) {
	fs := flag.NewFlagSet("one", flag.ExitOnError)
	in := fs.String("in", "", "")
	tmp := fs.String("tmp", "", "")
	out := fs.String("out", "", "")
	dump := fs.String("dump", "", "write the faulted archive bytes here")
	fs.Parse(args)
	raw, err := os.ReadFile(*in)
	check(err)
	var inst struct {
		Wrap   string     `json:"wrap"`
		Faults []sh.Fault `json:"faults"`
		Params []sh.P     `json:"params"`
		Seed   int64      `json:"seed"`
		Base   struct {
			ID        string `json:"id"`
			SumsFirst string `json:"sums_first"`
		} `json:"base"`
	}
	check(json.Unmarshal(raw, &inst))
	w := world(*tmp)
	defer w.Close()
	b := makeBase(w, inst.Base.ID, inst.Seed, inst.Base.SumsFirst)
	sc := sh.Scenario{Wrap: inst.Wrap, Faults: inst.Faults}
	if sc.Faults == nil {
		sc.Faults = []sh.Fault{}
	}
	if len(inst.Params) != len(sc.Faults) {
		fatal("params/faults length mismatch")
	}
	a := sh.Start(b, sc.Wrap)
	for i, f := range sc.Faults {
		check(w.Apply(b, a, f, inst.Params[i]))
	}
	o, data := w.Run(b, a)
	if *dump != "" {
		check(os.WriteFile(*dump, data, 0o644))
	}
	g := newAgg()
	g.add(o, inst.Params, len(data))
	f, bw := openOut(*out)
	defer f.Close()
	emit(bw, g.event(sc, b, inst.Seed))
	bw.Flush()
	fmt.Printf("{\"events\":1,\"instances\":1,\"behaviours\":1}\n")
}

func main() {
	if os.Getenv("GOGC") == "" {
		debug.SetGCPercent(400) // many short-lived 32 KiB buffers; fewer collections, but keep the heap cache-warm
	}
	if len(os.Args) < 2 {
		fatal("usage: h-snap run|random|one ...")
	}
	switch os.Args[1] {
	case "run":
		cmdRun(os.Args[2:])
	case "random":
		cmdRandom(os.Args[2:])
	case "one":
		cmdOne(os.Args[2:])
	default:
		fatal("unknown mode %s", os.Args[1])
	}
}
