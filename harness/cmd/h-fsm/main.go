// h-fsm: executor/recorder over raft logs of EVERY FSM command type.
//
//	h-fsm replica -log L.json                       child process: apply a log to a fresh FSM, print digests
//	h-fsm c01 -seed S -n N -len L -mix M -out T -logs DIR   replicas that apply the same log (C01)
//	h-fsm c02 -seed S -n N -len L -mix M -out T -logs DIR   snapshot/restore at every cut (C02)
//	h-fsm c06 -seed S -n N -len L -mix M -out T -logs DIR   read battery around every write (C06)
//	(each of c01/c02/c06 also accepts -log L.json to run one given log: replay)
//
// It records; spec/ReplicasTrace.tla and spec/QueriesTrace.tla judge.
package main

import (
	"bufio"
	"encoding/base64"
	"encoding/json"
	"flag"
	"fmt"
	"os"
	"os/exec"
	"path/filepath"
	"sort"
	"strings"
	"sync"
	"time"

	"github.com/hashicorp/consul/agent/structs"
	sh "github.com/hashicorp/consul/verifharness/internal/storeh"
)

type M = sh.M

func fatal(f string, a ...any) {
	fmt.Fprintf(os.Stderr, "h-fsm: "+f+"\n", a...)
	os.Exit(2)
}

type logEntry struct {
	Idx  uint64 `json:"idx"`
	Data string `json:"data"`
	Desc string `json:"desc"`
	Type int    `json:"type"`
}

func genLog(seed int64, length int, mix string) []logEntry {
	g := sh.NewGen(seed)
	out := make([]logEntry, 0, length)
	for i := 0; i < length; i++ {
		e := g.Next(mix)
		out = append(out, logEntry{Idx: e.Index, Data: base64.StdEncoding.EncodeToString(e.Data), Desc: e.Desc, Type: int(e.Type)})
	}
	return out
}

func readLog(path string) []logEntry {
	b, err := os.ReadFile(path)
	if err != nil {
		fatal("%v", err)
	}
	var l []logEntry
	if err := json.Unmarshal(b, &l); err != nil {
		fatal("decode log: %v", err)
	}
	return l
}

func writeLog(path string, l []logEntry) {
	b, _ := json.Marshal(l)
	if err := os.WriteFile(path, b, 0o644); err != nil {
		fatal("%v", err)
	}
}

func applyEntry(h *sh.H, e logEntry) string {
	data, _ := base64.StdEncoding.DecodeString(e.Data)
	_, raw, err := h.ApplyRaw(data, e.Idx)
	if err != nil {
		return "PANIC:" + err.Error()
	}
	return resultString(raw)
}

// canonical text of what fsm.Apply returned
func resultString(raw any) string {
	switch raw.(type) {
	case nil:
		return "nil"
	case error:
		// the TEXT of an error may name whichever of several offending objects a Go map iteration met
		// first; replicas must agree on failure, not on the wording
		return "error"
	}
	return fmt.Sprintf("%T:%s", raw, sh.SpewString(raw))
}

type recorder struct {
	w      *bufio.Writer
	events int
}

func (r *recorder) emit(ev M) {
	b, err := json.Marshal(ev)
	if err != nil {
		fatal("marshal: %v", err)
	}
	r.w.Write(b)
	r.w.WriteByte('\n')
	r.events++
}

// ---------------------------------------------------------------- replica child

func replicaChild(logPath string) {
	l := readLog(logPath)
	h := sh.New()
	w := bufio.NewWriter(os.Stdout)
	pace, _ := time.ParseDuration(os.Getenv("VERIF_PACE"))
	for _, e := range l {
		res := applyEntry(h, e)
		if pace > 0 {
			time.Sleep(pace) // this replica applies the log at another pace: nothing replicated may depend on it
		}
		fmt.Fprintf(w, "%s %s\n", sh.Digest(res), sh.Digest(sh.Dump(h.Store())))
	}
	w.Flush()
}

func runChild(logPath string, gomaxprocs string) [][2]string {
	cmd := exec.Command(os.Args[0], "replica", "-log", logPath)
	cmd.Env = append(os.Environ(), "GOMAXPROCS="+gomaxprocs, "TZ=Pacific/Kiritimati", "VERIF_CHILD=1", "VERIF_PACE=25ms")
	out, err := cmd.Output()
	if err != nil {
		fatal("replica child failed: %v", err)
	}
	var res [][2]string
	for _, line := range strings.Split(strings.TrimSpace(string(out)), "\n") {
		f := strings.Fields(line)
		if len(f) == 2 {
			res = append(res, [2]string{f[0], f[1]})
		}
	}
	return res
}

// ---------------------------------------------------------------- C01

func c01One(hid int, l []logEntry, child [][2]string, rec *recorder) {
	a1, a2 := sh.New(), sh.New()
	if len(child) != len(l) {
		fatal("child replica applied %d of %d entries", len(child), len(l))
	}
	for i, e := range l {
		r1 := applyEntry(a1, e)
		r2 := applyEntry(a2, e)
		rec.emit(M{"h": hid, "i": i + 1, "idx": e.Idx, "desc": e.Desc,
			"res":  []string{sh.Digest(r1), sh.Digest(r2), child[i][0]},
			"dump": []string{sh.Digest(sh.Dump(a1.Store())), sh.Digest(sh.Dump(a2.Store())), child[i][1]},
			"q":    []string{"", "", ""}, "sample": trunc(r1, 120)})
	}
}

func trunc(s string, n int) string {
	if len(s) > n {
		return s[:n]
	}
	return s
}

// ---------------------------------------------------------------- C02

// read families whose reported index (and, for gateway-services, row indexes) come from tables that
// restore recomputes; the divergence is a recorded known finding (findings/C02-*.json, run with
// -strict) and is left out of the sweep so that every other divergence stays visible
var c02Skip = map[string]bool{"gateway-services": true, "service-topology": true, "connect-service-nodes": true, "health-connect": true}

func c02Battery() []sh.Query {
	all := sh.Battery()
	if sh.Strict {
		return all
	}
	var out []sh.Query
	for _, q := range all {
		if !c02Skip[strings.SplitN(q.Name, ":", 2)[0]] {
			out = append(out, q)
		}
	}
	return out
}

func c02One(hid int, l []logEntry, rec *recorder, cuts []int) {
	qs := c02Battery()
	for _, k := range cuts {
		a := sh.New()
		for _, e := range l[:k] {
			applyEntry(a, e)
		}
		snap, err := a.SnapshotBytes()
		if err != nil {
			fatal("snapshot: %v", err)
		}
		b := sh.New()
		if err := b.Restore(snap); err != nil {
			rec.emit(M{"h": hid, "i": k, "cut": k, "idx": 0, "desc": "restore failed: " + err.Error(),
				"res": []string{"ok", "restore-error"}, "dump": []string{"", ""}, "q": []string{"", ""}})
			continue
		}
		da, db := sh.DumpNorm(a.Store()), sh.DumpNorm(b.Store())
		ev := M{"h": hid, "i": k, "cut": k, "idx": 0, "desc": fmt.Sprintf("snapshot+restore at cut %d", k),
			"res":  []string{"", ""},
			"dump": []string{sh.Digest(da), sh.Digest(db)},
			"q":    []string{sh.BatteryDigest(sh.Observe(a.Store(), qs)), sh.BatteryDigest(sh.Observe(b.Store(), qs))}}
		if da != db {
			ev["diff"] = firstDiff(da, db)
			ev["difftables"] = diffTables(da, db)
		}
		if ev["q"].([]string)[0] != ev["q"].([]string)[1] {
			oa, ob := sh.Observe(a.Store(), qs), sh.Observe(b.Store(), qs)
			ev["qdiff"] = queryDiff(oa, ob)
			ev["diffqueries"] = diffQueries(oa, ob)
		}
		rec.emit(ev)
		// the same cut with the snapshot CAPTURED at the cut but written out only after later entries were applied
		// (Replicas!Take / Install: a snapshot stands for the log prefix it was taken at, whenever it is persisted)
		if k < len(l) {
			c := sh.New()
			for _, e := range l[:k] {
				applyEntry(c, e)
			}
			held, err := c.SnapshotTake()
			if err != nil {
				fatal("snapshot: %v", err)
			}
			late := k + 4
			if late > len(l) {
				late = len(l)
			}
			for _, e := range l[k:late] {
				applyEntry(c, e)
			}
			lateBytes, err := sh.PersistSnapshot(held)
			if err != nil {
				fatal("persist: %v", err)
			}
			d := sh.New()
			if err := d.Restore(lateBytes); err != nil {
				rec.emit(M{"h": hid, "i": k, "cut": k, "idx": 0, "desc": "restore of a late-persisted snapshot failed: " + err.Error(),
					"res": []string{"ok", "restore-error"}, "dump": []string{"", ""}, "q": []string{"", ""}})
			} else {
				dd := sh.DumpNorm(d.Store())
				ev := M{"h": hid, "i": k, "cut": k, "idx": 0, "desc": fmt.Sprintf("snapshot captured at cut %d, persisted after entry %d, restored", k, late),
					"res":  []string{"", ""},
					"dump": []string{sh.Digest(db), sh.Digest(dd)},
					"q":    []string{sh.BatteryDigest(sh.Observe(b.Store(), qs)), sh.BatteryDigest(sh.Observe(d.Store(), qs))}}
				if db != dd {
					ev["diff"] = firstDiff(db, dd)
					ev["difftables"] = diffTables(db, dd)
				}
				if ev["q"].([]string)[0] != ev["q"].([]string)[1] {
					ob, od := sh.Observe(b.Store(), qs), sh.Observe(d.Store(), qs)
					ev["qdiff"] = queryDiff(ob, od)
					ev["diffqueries"] = diffQueries(ob, od)
				}
				rec.emit(ev)
			}
		}
		for j, e := range l[k:] {
			ra, rb := applyEntry(a, e), applyEntry(b, e)
			da, db := sh.DumpNorm(a.Store()), sh.DumpNorm(b.Store())
			ev := M{"h": hid, "i": k + j + 1, "cut": k, "idx": e.Idx, "desc": e.Desc,
				"res":  []string{sh.Digest(ra), sh.Digest(rb)},
				"dump": []string{sh.Digest(da), sh.Digest(db)}, "q": []string{"", ""}}
			if da != db {
				ev["diff"] = firstDiff(da, db)
				ev["difftables"] = diffTables(da, db)
			}
			if ra != rb {
				ev["diff"] = "result A: " + trunc(ra, 200) + " | result B: " + trunc(rb, 200)
			}
			rec.emit(ev)
			if da != db {
				break // later entries only repeat the same divergence
			}
		}
	}
}

// diffTables names the tables that have a row on one side only
func diffTables(a, b string) []string {
	la, lb := strings.Split(a, "\n"), strings.Split(b, "\n")
	sa, sb := map[string]bool{}, map[string]bool{}
	for _, x := range la {
		sa[x] = true
	}
	for _, x := range lb {
		sb[x] = true
	}
	t := map[string]bool{}
	for _, x := range la {
		if !sb[x] {
			t[strings.SplitN(x, "|", 2)[0]] = true
		}
	}
	for _, x := range lb {
		if !sa[x] {
			t[strings.SplitN(x, "|", 2)[0]] = true
		}
	}
	out := []string{}
	for k := range t {
		out = append(out, k)
	}
	sort.Strings(out)
	return out
}

func diffQueries(a, b []sh.QObs) []string {
	t := map[string]bool{}
	for i := range a {
		if a[i].Idx != b[i].Idx || a[i].Res != b[i].Res {
			t[strings.SplitN(a[i].Name, ":", 2)[0]] = true
		}
	}
	out := []string{}
	for k := range t {
		out = append(out, k)
	}
	sort.Strings(out)
	return out
}

func firstDiff(a, b string) string {
	la, lb := strings.Split(a, "\n"), strings.Split(b, "\n")
	sa, sb := map[string]bool{}, map[string]bool{}
	for _, x := range la {
		sa[x] = true
	}
	for _, x := range lb {
		sb[x] = true
	}
	out := ""
	n := 0
	for _, x := range la {
		if !sb[x] && n < 6 {
			out += "A-only: " + trunc(x, 700) + "\n"
			n++
		}
	}
	n = 0
	for _, x := range lb {
		if !sa[x] && n < 6 {
			out += "B-only: " + trunc(x, 700) + "\n"
			n++
		}
	}
	return out
}

func queryDiff(a, b []sh.QObs) string {
	out := ""
	for i := range a {
		if a[i].Idx != b[i].Idx || a[i].Res != b[i].Res {
			out += fmt.Sprintf("%s: A=(%d,%s) B=(%d,%s)\n", a[i].Name, a[i].Idx, a[i].Res, b[i].Idx, b[i].Res)
			if len(out) > 1500 {
				break
			}
		}
	}
	return out
}

// ---------------------------------------------------------------- C06

// reads outside the endpoint list of property C06
var c06Skip = map[string]bool{"service-topology": true, "acl-tokens": true, "acl-policies": true, "federation-states": true}

func c06One(hid int, l []logEntry, rec *recorder) {
	var qs []sh.Query
	for _, q := range sh.Battery() {
		if !c06Skip[strings.SplitN(q.Name, ":", 2)[0]] {
			qs = append(qs, q)
		}
	}
	h := sh.New()
	for i, e := range l {
		pre := sh.Observe(h.Store(), qs)
		pre2 := sh.Observe(h.Store(), qs)
		for j := range pre {
			if pre[j].Res != pre2[j].Res || pre[j].Idx != pre2[j].Idx {
				fmt.Fprintf(os.Stderr, "UNSTABLE query %s: (%d,%s) vs (%d,%s)\n", pre[j].Name, pre[j].Idx, pre[j].Res, pre2[j].Idx, pre2[j].Res)
			}
		}
		desc := e.Desc + movedCheckTag(h, e)
		applyEntry(h, e)
		post := sh.Observe(h.Store(), qs)
		obs := []M{}
		for j := range pre {
			fired := pre[j].Fired()
			if pre[j].Idx != post[j].Idx || pre[j].Res != post[j].Res || fired {
				obs = append(obs, M{"q": pre[j].Name, "fam": strings.SplitN(pre[j].Name, ":", 2)[0], "i0": pre[j].Idx, "r0": pre[j].Res, "i1": post[j].Idx, "r1": post[j].Res, "fired": fired})
			}
		}
		rec.emit(M{"h": hid, "i": i + 1, "idx": e.Idx, "desc": desc, "reap": structs.MessageType(e.Type) == structs.TombstoneRequestType,
			"nq": len(qs), "obs": obs})
	}
}

// movedCheckTag marks a register command that re-registers an EXISTING check id under another service of the node (or
// turns a service check into a node check or back): an observation about command and pre-state, used only to name the
// situation in a verdict's signature.
func movedCheckTag(h *sh.H, e logEntry) string {
	if structs.MessageType(e.Type) != structs.RegisterRequestType {
		return ""
	}
	raw, _ := base64.StdEncoding.DecodeString(e.Data)
	var req structs.RegisterRequest
	if len(raw) < 2 || structs.Decode(raw[1:], &req) != nil {
		return ""
	}
	checks := req.Checks
	if req.Check != nil {
		checks = append(structs.HealthChecks{req.Check}, checks...)
	}
	for _, c := range checks {
		if _, old, _ := h.Store().NodeCheck(req.Node, c.CheckID, nil, req.PeerName); old != nil && old.ServiceID != c.ServiceID {
			return " [moved-check]"
		}
	}
	return ""
}

// ---------------------------------------------------------------- C07

func c07One(hid int, l []logEntry, rec *recorder) {
	h := sh.New()
	for i, e := range l {
		ev := M{"h": hid, "i": i + 1, "idx": e.Idx, "desc": e.Desc}
		if i == 0 {
			ev["pre"] = h.ProjectCatalog()
		}
		res := applyEntry(h, e)
		ev["post"] = h.ProjectCatalog()
		ev["ok"] = res != "error"
		rec.emit(ev)
	}
}

// ----------------------------------------------------------------

func main() {
	if len(os.Args) < 2 {
		fatal("usage")
	}
	mode := os.Args[1]
	fs := flag.NewFlagSet(mode, flag.ExitOnError)
	logPath := fs.String("log", "", "one log to run")
	out := fs.String("out", "trace.ndjson", "trace output")
	logs := fs.String("logs", "", "directory to store generated logs")
	seed := fs.Int64("seed", 1, "seed")
	n := fs.Int("n", 5, "histories")
	length := fs.Int("len", 60, "entries per history")
	mix := fs.String("mix", "all", "all|catalog|kv")
	ncuts := fs.Int("cuts", 0, "number of cut points per history (0 = every cut)")
	strict := fs.Bool("strict", false, "no masks, full battery (known-finding probes)")
	_ = fs.Parse(os.Args[2:])
	sh.Strict = *strict
	if mode == "show" {
		// print the decoded request of the last -len entries of a log (msgpack-encoded command types)
		l := readLog(*logPath)
		for i, e := range l {
			if i+*length < len(l) {
				continue
			}
			var m any
			raw, _ := base64.StdEncoding.DecodeString(e.Data)
			if err := structs.Decode(raw[1:], &m); err != nil {
				fmt.Printf("entry %d idx %d %s (not msgpack)\n", i+1, e.Idx, e.Desc)
				continue
			}
			b, _ := json.Marshal(sh.JSONable(m))
			fmt.Printf("entry %d idx %d %s %s\n", i+1, e.Idx, e.Desc, b)
		}
		return
	}
	if mode == "explain" {
		l := readLog(*logPath)
		h := sh.New()
		for i, e := range l {
			if i+1 == *length {
				i0, r0 := sh.Explain(h.Store(), *mix)
				res := applyEntry(h, e)
				i1, r1 := sh.Explain(h.Store(), *mix)
				fmt.Printf("entry %d idx %d %s -> %s\nBEFORE idx=%d %s\nAFTER  idx=%d %s\n", i+1, e.Idx, e.Desc, trunc(res, 300), i0, r0, i1, r1)
				return
			}
			applyEntry(h, e)
		}
		return
	}
	if mode == "replica" {
		replicaChild(*logPath)
		return
	}
	f, err := os.Create(*out)
	if err != nil {
		fatal("%v", err)
	}
	defer f.Close()
	rec := &recorder{w: bufio.NewWriterSize(f, 1<<20)}
	type hist struct {
		l    []logEntry
		path string
	}
	var hs []hist
	if *logPath != "" {
		hs = append(hs, hist{readLog(*logPath), *logPath})
	} else {
		if *logs == "" {
			fatal("-logs required")
		}
		for i := 0; i < *n; i++ {
			m := *mix
			if m == "rotate" {
				m = []string{"all", "catalog", "kv"}[i%3]
			}
			l := genLog(*seed*1000003+int64(i), *length, m)
			p := filepath.Join(*logs, fmt.Sprintf("log-%d.json", i))
			writeLog(p, l)
			hs = append(hs, hist{l, p})
		}
	}
	var children [][][2]string
	if mode == "c01" {
		// the paced replicas of all histories run concurrently, each in its own OS process
		children = make([][][2]string, len(hs))
		sem := make(chan struct{}, 12)
		var wg sync.WaitGroup
		for i := range hs {
			wg.Add(1)
			go func(i int) {
				defer wg.Done()
				sem <- struct{}{}
				children[i] = runChild(hs[i].path, "1")
				<-sem
			}(i)
		}
		wg.Wait()
	}
	for hid, h := range hs {
		switch mode {
		case "c01":
			c01One(hid, h.l, children[hid], rec)
		case "c02":
			var cuts []int
			if *ncuts <= 0 || *ncuts >= len(h.l) {
				for k := 0; k <= len(h.l); k++ {
					cuts = append(cuts, k)
				}
			} else {
				for c := 0; c < *ncuts; c++ {
					cuts = append(cuts, (c*7919+int(*seed)*31+hid*13)%(len(h.l)+1))
				}
			}
			c02One(hid, h.l, rec, cuts)
		case "c06":
			c06One(hid, h.l, rec)
		case "c07":
			c07One(hid, h.l, rec)
		default:
			fatal("unknown mode %s", mode)
		}
	}
	rec.w.Flush()
	fmt.Printf("{\"histories\":%d,\"events\":%d}\n", len(hs), rec.events)
}
