// h-bq: real blocking queries against a real single-node consul.Server (property C06, loop half).
//
// For every write of a seeded history, ONE blocking RPC per read of the battery is parked first
// (MinQueryIndex = the index the same read just reported, MaxQueryTime = T); then the write is
// issued through its RPC endpoint; then every parked call is collected. The event records, per
// read: (index, result) before, what the blocked call returned and after how long, and
// (index, result) after. spec/BlockingQueryTrace.tla judges: a read whose result changed was
// returned by its blocked call before the timeout, with the new result and a larger index; a call
// that returned before the timeout carries a larger index; no index below 1.
package main

import (
	"bufio"
	"bytes"
	"context"
	"encoding/json"
	"flag"
	"fmt"
	"os"
	"reflect"
	"sort"
	"strings"
	"sync"
	"time"

	"google.golang.org/protobuf/proto"

	"github.com/hashicorp/consul/agent/consul"
	"github.com/hashicorp/consul/agent/structs"
	"github.com/hashicorp/consul/api"
	sh "github.com/hashicorp/consul/verifharness/internal/storeh"
)

type M = sh.M

func fatal(f string, a ...any) {
	fmt.Fprintf(os.Stderr, "h-bq: "+f+"\n", a...)
	os.Exit(2)
}

type read struct {
	name string
	call func(s *consul.Server, opts structs.QueryOptions) (uint64, string, error)
}

// canonical text of a reply with its QueryMeta blanked
func canon(reply any) string {
	if is, ok := reply.(*structs.IndexedServices); ok {
		// the tag list of a service is a set (the store collects it through a Go map)
		for _, tags := range is.Services {
			sort.Strings(tags)
		}
	}
	v := reflect.ValueOf(reply).Elem()
	if f := v.FieldByName("QueryMeta"); f.IsValid() && f.CanSet() {
		f.Set(reflect.Zero(f.Type()))
	}
	return sh.Digest(strings.Join(strings.Fields(sh.SpewString(reply)), " "))
}

func mk[Req any, Rep any](name, method string, build func(structs.QueryOptions) *Req, idx func(*Rep) uint64) read {
	return read{name: name, call: func(s *consul.Server, opts structs.QueryOptions) (uint64, string, error) {
		req := build(opts)
		var rep Rep
		if err := s.RPC(context.Background(), method, req, &rep); err != nil {
			return 0, "", err
		}
		i := idx(&rep)
		return i, canon(&rep), nil
	}}
}

func battery() []read {
	var rs []read
	dc := "dc1"
	for _, k := range []string{"a", "a/b", "b", "zz/y"} {
		k := k
		rs = append(rs, mk("kv-get:"+k, "KVS.Get", func(o structs.QueryOptions) *structs.KeyRequest {
			return &structs.KeyRequest{Datacenter: dc, Key: k, QueryOptions: o}
		}, func(r *structs.IndexedDirEntries) uint64 { return r.Index }))
	}
	for _, p := range []string{"", "a", "a/", "b"} {
		p := p
		rs = append(rs, mk("kv-list:"+p, "KVS.List", func(o structs.QueryOptions) *structs.KeyRequest {
			return &structs.KeyRequest{Datacenter: dc, Key: p, QueryOptions: o}
		}, func(r *structs.IndexedDirEntries) uint64 { return r.Index }))
		rs = append(rs, mk("kv-keys:"+p, "KVS.ListKeys", func(o structs.QueryOptions) *structs.KeyListRequest {
			return &structs.KeyListRequest{Datacenter: dc, Prefix: p, Seperator: "/", QueryOptions: o}
		}, func(r *structs.IndexedKeyList) uint64 { return r.Index }))
	}
	rs = append(rs, mk("session-list", "Session.List", func(o structs.QueryOptions) *structs.SessionSpecificRequest {
		return &structs.SessionSpecificRequest{Datacenter: dc, QueryOptions: o}
	}, func(r *structs.IndexedSessions) uint64 { return r.Index }))
	for _, n := range []string{"n1", "n2"} {
		n := n
		rs = append(rs, mk("node-sessions:"+n, "Session.NodeSessions", func(o structs.QueryOptions) *structs.NodeSpecificRequest {
			return &structs.NodeSpecificRequest{Datacenter: dc, Node: n, QueryOptions: o}
		}, func(r *structs.IndexedSessions) uint64 { return r.Index }))
		rs = append(rs, mk("node-services:"+n, "Catalog.NodeServices", func(o structs.QueryOptions) *structs.NodeSpecificRequest {
			return &structs.NodeSpecificRequest{Datacenter: dc, Node: n, QueryOptions: o}
		}, func(r *structs.IndexedNodeServices) uint64 { return r.Index }))
		rs = append(rs, mk("node-checks:"+n, "Health.NodeChecks", func(o structs.QueryOptions) *structs.NodeSpecificRequest {
			return &structs.NodeSpecificRequest{Datacenter: dc, Node: n, QueryOptions: o}
		}, func(r *structs.IndexedHealthChecks) uint64 { return r.Index }))
	}
	rs = append(rs, mk("nodes", "Catalog.ListNodes", func(o structs.QueryOptions) *structs.DCSpecificRequest {
		return &structs.DCSpecificRequest{Datacenter: dc, QueryOptions: o}
	}, func(r *structs.IndexedNodes) uint64 { return r.Index }))
	rs = append(rs, mk("services", "Catalog.ListServices", func(o structs.QueryOptions) *structs.DCSpecificRequest {
		return &structs.DCSpecificRequest{Datacenter: dc, QueryOptions: o}
	}, func(r *structs.IndexedServices) uint64 { return r.Index }))
	for _, svc := range []string{"web", "api", "db"} {
		svc := svc
		rs = append(rs, mk("service-nodes:"+svc, "Catalog.ServiceNodes", func(o structs.QueryOptions) *structs.ServiceSpecificRequest {
			return &structs.ServiceSpecificRequest{Datacenter: dc, ServiceName: svc, QueryOptions: o}
		}, func(r *structs.IndexedServiceNodes) uint64 { return r.Index }))
		rs = append(rs, mk("service-checks:"+svc, "Health.ServiceChecks", func(o structs.QueryOptions) *structs.ServiceSpecificRequest {
			return &structs.ServiceSpecificRequest{Datacenter: dc, ServiceName: svc, QueryOptions: o}
		}, func(r *structs.IndexedHealthChecks) uint64 { return r.Index }))
		rs = append(rs, mk("health-service:"+svc, "Health.ServiceNodes", func(o structs.QueryOptions) *structs.ServiceSpecificRequest {
			return &structs.ServiceSpecificRequest{Datacenter: dc, ServiceName: svc, QueryOptions: o}
		}, func(r *structs.IndexedCheckServiceNodes) uint64 { return r.Index }))
		rs = append(rs, mk("health-service-tag:"+svc, "Health.ServiceNodes", func(o structs.QueryOptions) *structs.ServiceSpecificRequest {
			return &structs.ServiceSpecificRequest{Datacenter: dc, ServiceName: svc, ServiceTags: []string{"v1"}, TagFilter: true, QueryOptions: o}
		}, func(r *structs.IndexedCheckServiceNodes) uint64 { return r.Index }))
		rs = append(rs, mk("config-entry:service-defaults/"+svc, "ConfigEntry.Get", func(o structs.QueryOptions) *structs.ConfigEntryQuery {
			return &structs.ConfigEntryQuery{Datacenter: dc, Kind: structs.ServiceDefaults, Name: svc, QueryOptions: o}
		}, func(r *structs.ConfigEntryResponse) uint64 { return r.Index }))
	}
	for _, st := range []string{api.HealthAny, api.HealthCritical} {
		st := st
		rs = append(rs, mk("checks-in-state:"+st, "Health.ChecksInState", func(o structs.QueryOptions) *structs.ChecksInStateRequest {
			return &structs.ChecksInStateRequest{Datacenter: dc, State: st, QueryOptions: o}
		}, func(r *structs.IndexedHealthChecks) uint64 { return r.Index }))
	}
	rs = append(rs, mk("config-entries:service-defaults", "ConfigEntry.List", func(o structs.QueryOptions) *structs.ConfigEntryQuery {
		return &structs.ConfigEntryQuery{Datacenter: dc, Kind: structs.ServiceDefaults, QueryOptions: o}
	}, func(r *structs.IndexedConfigEntries) uint64 { return r.Index }))
	rs = append(rs, mk("coordinates", "Coordinate.ListNodes", func(o structs.QueryOptions) *structs.DCSpecificRequest {
		return &structs.DCSpecificRequest{Datacenter: dc, QueryOptions: o}
	}, func(r *structs.IndexedCoordinates) uint64 { return r.Index }))
	return rs
}

// issue a raft-level request of the all-command generator through its RPC endpoint; false if it has none
func issue(s *consul.Server, t structs.MessageType, req any) (bool, error) {
	ctx := context.Background()
	switch r := req.(type) {
	case *structs.RegisterRequest:
		if r.PeerName != "" {
			return false, nil
		}
		var out struct{}
		return true, s.RPC(ctx, "Catalog.Register", r, &out)
	case *structs.DeregisterRequest:
		if r.PeerName != "" {
			return false, nil
		}
		var out struct{}
		return true, s.RPC(ctx, "Catalog.Deregister", r, &out)
	case *structs.KVSRequest:
		var out bool
		return true, s.RPC(ctx, "KVS.Apply", r, &out)
	case *structs.SessionRequest:
		if r.Op == structs.SessionCreate {
			r.Session.ID = ""
			r.Session.TTL = ""
		}
		var out string
		return true, s.RPC(ctx, "Session.Apply", r, &out)
	case *structs.TxnRequest:
		var out structs.TxnResponse
		return true, s.RPC(ctx, "Txn.Apply", r, &out)
	case *structs.ConfigEntryRequest:
		var out bool
		return true, s.RPC(ctx, "ConfigEntry.Apply", r, &out)
	}
	return false, nil
}

type parked struct {
	idx     uint64
	res     string
	err     bool
	elapsed time.Duration
}

func history(seed int64, length int, T time.Duration, w *bufio.Writer, events *int) {
	vs, err := consul.VerifNewServer(fmt.Sprintf("verif-server-%d", seed%1000), nil)
	if err != nil {
		fatal("server: %v", err)
	}
	defer vs.Stop()
	if err := vs.WaitLeader(30 * time.Second); err != nil {
		fatal("%v", err)
	}
	time.Sleep(1500 * time.Millisecond)
	s := vs.Server
	g := sh.NewGen(seed)
	g.NoSerf = true
	rs := battery()
	// a short directed prefix: create / delete / re-create of single items and of a subtree, so that every
	// found <-> not-found transition of the single-item reads is exercised in every history
	kvreq := func(op api.KVOp, k, v string) sh.Req {
		return sh.Req{Type: structs.KVSRequestType, Desc: "directed kv " + string(op) + " " + k,
			Req: &structs.KVSRequest{Datacenter: "dc1", Op: op, DirEnt: structs.DirEntry{Key: k, Value: []byte(v)}}}
	}
	directed := []sh.Req{
		kvreq(api.KVSet, "a", "1"), kvreq(api.KVDelete, "a", ""), kvreq(api.KVSet, "a", "2"), kvreq(api.KVSet, "a/b", "1"),
		kvreq(api.KVDeleteTree, "a", ""), kvreq(api.KVSet, "b", "1"), kvreq(api.KVSet, "b", "2"), kvreq(api.KVDeleteTree, "", ""),
		{Type: structs.RegisterRequestType, Desc: "directed register n1 web", Req: &structs.RegisterRequest{Datacenter: "dc1", Node: "n1", Address: "10.0.0.1",
			Service: &structs.NodeService{ID: "web1", Service: "web", Port: 80, Tags: []string{"v1"}},
			Check:   &structs.HealthCheck{Node: "n1", CheckID: "chk-web1", Name: "c", Status: api.HealthPassing, ServiceID: "web1"}}},
		{Type: structs.RegisterRequestType, Desc: "directed check critical", Req: &structs.RegisterRequest{Datacenter: "dc1", Node: "n1", Address: "10.0.0.1", SkipNodeUpdate: true,
			Check: &structs.HealthCheck{Node: "n1", CheckID: "chk-web1", Name: "c", Status: api.HealthCritical, ServiceID: "web1"}}},
		{Type: structs.ConfigEntryRequestType, Desc: "directed config-entry upsert", Req: &structs.ConfigEntryRequest{Datacenter: "dc1", Op: structs.ConfigEntryUpsert,
			Entry: &structs.ServiceConfigEntry{Kind: structs.ServiceDefaults, Name: "web", Protocol: "http"}}},
		{Type: structs.ConfigEntryRequestType, Desc: "directed config-entry delete", Req: &structs.ConfigEntryRequest{Datacenter: "dc1", Op: structs.ConfigEntryDelete,
			Entry: &structs.ServiceConfigEntry{Kind: structs.ServiceDefaults, Name: "web"}}},
		{Type: structs.DeregisterRequestType, Desc: "directed deregister service", Req: &structs.DeregisterRequest{Datacenter: "dc1", Node: "n1", ServiceID: "web1"}},
		{Type: structs.DeregisterRequestType, Desc: "directed deregister node", Req: &structs.DeregisterRequest{Datacenter: "dc1", Node: "n1"}},
	}
	done := 0
	for done < length {
		var e sh.Req
		if len(directed) > 0 {
			e, directed = directed[0], directed[1:]
		} else {
			e = g.NextReq("rotate3")
		}
		if pm, ok := e.Req.(proto.Message); ok && pm != nil {
			continue
		}
		// only commands that have a client endpoint
		switch e.Req.(type) {
		case *structs.RegisterRequest, *structs.DeregisterRequest, *structs.KVSRequest, *structs.SessionRequest, *structs.TxnRequest, *structs.ConfigEntryRequest:
		default:
			continue
		}
		// before
		type obs struct {
			idx uint64
			res string
			ok  bool
		}
		before := make([]obs, len(rs))
		for i, r := range rs {
			idx, res, err := r.call(s, structs.QueryOptions{})
			before[i] = obs{idx, res, err == nil}
		}
		// park one blocking call per read
		out := make([]parked, len(rs))
		var wg sync.WaitGroup
		for i, r := range rs {
			if !before[i].ok {
				continue
			}
			wg.Add(1)
			go func(i int, r read) {
				defer wg.Done()
				t0 := time.Now()
				idx, res, err := r.call(s, structs.QueryOptions{MinQueryIndex: before[i].idx, MaxQueryTime: T})
				out[i] = parked{idx, res, err != nil, time.Since(t0)}
			}(i, r)
		}
		time.Sleep(150 * time.Millisecond) // let every call reach its watch
		ok, werr := issue(s, e.Type, e.Req)
		if !ok {
			wg.Wait()
			continue
		}
		tWrite := time.Now()
		wg.Wait()
		_ = tWrite
		reads := []M{}
		for i, r := range rs {
			if !before[i].ok {
				continue
			}
			idx, res, err := r.call(s, structs.QueryOptions{})
			if err != nil {
				continue
			}
			reads = append(reads, M{"q": r.name, "fam": strings.SplitN(r.name, ":", 2)[0], "i0": before[i].idx, "r0": before[i].res,
				"bi": out[i].idx, "br": out[i].res, "berr": out[i].err, "ms": out[i].elapsed.Milliseconds(),
				"i1": idx, "r1": res})
		}
		werrs := ""
		if werr != nil {
			werrs = werr.Error()
		}
		ev := M{"desc": e.Desc, "werr": werr != nil, "werrs": werrs, "T": T.Milliseconds(), "reads": reads}
		b, _ := json.Marshal(ev)
		w.Write(b)
		w.WriteByte('\n')
		*events++
		done++
	}
}

func main() {
	out := flag.String("out", "trace.ndjson", "trace output")
	seed := flag.Int64("seed", 1, "seed")
	n := flag.Int("n", 1, "histories (one server each)")
	length := flag.Int("len", 25, "writes per history")
	tms := flag.Int("T", 3000, "MaxQueryTime of the blocked calls in ms")
	flag.Parse()
	f, err := os.Create(*out)
	if err != nil {
		fatal("%v", err)
	}
	defer f.Close()
	w := bufio.NewWriterSize(f, 1<<20)
	events := 0
	// histories run concurrently (one server each): the wall time is dominated by parked calls timing out
	bufs := make([]*bytes.Buffer, *n)
	counts := make([]int, *n)
	var wg sync.WaitGroup
	for i := 0; i < *n; i++ {
		bufs[i] = &bytes.Buffer{}
		wg.Add(1)
		go func(i int) {
			defer wg.Done()
			bw := bufio.NewWriter(bufs[i])
			history(*seed*7919+int64(i), *length, time.Duration(*tms)*time.Millisecond, bw, &counts[i])
			bw.Flush()
		}(i)
	}
	wg.Wait()
	for i := 0; i < *n; i++ {
		w.Write(bufs[i].Bytes())
		events += counts[i]
	}
	w.Flush()
	fmt.Printf("{\"behaviours\":%d,\"events\":%d,\"reads\":%d}\n", *n, events, len(battery()))
}
