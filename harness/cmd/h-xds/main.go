// h-xds: executor/recorder for C14 (the proxy authorization policy enforces exactly the intention
// decision) - translation validation of agent/xds/rbac.go.
//
//	h-xds replay -in cases.json -out trace.ndjson [-verbose]   TLC-generated intention sets x universes
//	h-xds random -seed S -n N -out trace.ndjson                seeded random larger sets
//
// For every (intention set, naming universe, default policy, protocol) the harness builds REAL
// structs.Intention values (ServiceIntentionsConfigEntry.Normalize/Validate/ToIntentions), calls the
// REAL translation through the verif hook (xds.VerifMakeRBACRules and the network/http filter
// builders) and evaluates the RETURNED Envoy RBAC proto with the independent interpreter
// internal/xdsh for concrete callers (SPIFFE URI SANs, XFCC headers) and requests.  It records
// (caller identity, how it presented itself, allowed?) - it does not know what the answer should be.
// TLC (spec/RBACTrace.tla) compares with Decision7 of spec/RBAC.tla.
package main

import (
	"bufio"
	"encoding/json"
	"flag"
	"fmt"
	"math/rand"
	"os"
	"sort"
	"strings"

	envoy_rbac_v3 "github.com/envoyproxy/go-control-plane/envoy/config/rbac/v3"
	envoy_http_rbac_v3 "github.com/envoyproxy/go-control-plane/envoy/extensions/filters/http/rbac/v3"
	envoy_network_rbac_v3 "github.com/envoyproxy/go-control-plane/envoy/extensions/filters/network/rbac/v3"

	"github.com/hashicorp/consul/agent/connect"
	"github.com/hashicorp/consul/agent/structs"
	"github.com/hashicorp/consul/agent/xds"
	"github.com/hashicorp/consul/proto/private/pbpeering"
	"github.com/hashicorp/consul/verifharness/internal/xdsh"
)

type M = map[string]any

type Perm struct {
	Act     string   `json:"act"`
	PK      string   `json:"pk"` // "none" | "exact" | "prefix"
	PV      []int    `json:"pv"` // path bytes
	Methods []string `json:"methods"`
	HK      string   `json:"hk"` // "none" | "present" | "exact"
	HV      string   `json:"hv"`
}

type Ixn struct {
	Src   string `json:"src"`
	Peer  string `json:"peer"`
	Dst   string `json:"dst"`
	Act   string `json:"act"`
	Perms []Perm `json:"perms"`
}

type Universe struct {
	ID    string            `json:"id"`
	Meta  bool              `json:"meta"`  // some name carries regex/URL-significant runes
	Names map[string]string `json:"names"` // abstract -> concrete service name ("d" = the destination)
}

type Case struct {
	Ixns []Ixn `json:"ixns"`
}

type Input struct {
	Universes []Universe `json:"universes"`
	Cases     []Case     `json:"cases"`
	Seed      int64      `json:"seed"`
	Defaults  []string   `json:"defaults"` // default: both
	Protos    []string   `json:"protos"`   // default: both
	Full      bool       `json:"full"`     // all near-misses also for universes without special runes
}

const (
	localTD  = "11111111-2222-3333-4444-555555555555.consul"
	otherTD  = "99999999-8888-7777-6666-555555555555.consul"
	hdrName  = "x-h"
	freshSvc = "unrelated"
)

type peerInfo struct{ td, ap string }

var peersInfo = map[string]peerInfo{
	"p": {"aaaaaaaa-bbbb-cccc-dddd-eeeeeeeeeeee.consul", ""},
	"q": {"bbbbbbbb-cccc-dddd-eeee-ffffffffffff.consul", "part1"},
}

func fatal(f string, a ...any) {
	fmt.Fprintf(os.Stderr, "h-xds: "+f+"\n", a...)
	os.Exit(2)
}

func bstr(v []int) string {
	b := make([]byte, len(v))
	for i, x := range v {
		b[i] = byte(x)
	}
	return string(b)
}

func ints(s string) []int {
	out := make([]int, len(s))
	for i := 0; i < len(s); i++ {
		out[i] = int(s[i])
	}
	return out
}

func bundles() []*pbpeering.PeeringTrustBundle {
	var out []*pbpeering.PeeringTrustBundle
	for _, p := range []string{"p", "q"} {
		out = append(out, &pbpeering.PeeringTrustBundle{PeerName: p, TrustDomain: peersInfo[p].td, ExportedPartition: peersInfo[p].ap})
	}
	return out
}

// realIntentions builds the intentions the way the servers do: one service-intentions entry per
// destination, Normalize (computes Precedence), Validate, ToIntentions.
func realIntentions(ixns []Ixn) (structs.SimplifiedIntentions, error) {
	byDst := map[string]*structs.ServiceIntentionsConfigEntry{}
	var order []string
	for _, i := range ixns {
		e := byDst[i.Dst]
		if e == nil {
			e = &structs.ServiceIntentionsConfigEntry{Kind: structs.ServiceIntentions, Name: i.Dst}
			byDst[i.Dst] = e
			order = append(order, i.Dst)
		}
		s := &structs.SourceIntention{Name: i.Src, Peer: i.Peer, Type: structs.IntentionSourceConsul}
		if i.Act == "l7" {
			for _, p := range i.Perms {
				hp := &structs.IntentionHTTPPermission{Methods: append([]string{}, p.Methods...)}
				switch p.PK {
				case "exact":
					hp.PathExact = bstr(p.PV)
				case "prefix":
					hp.PathPrefix = bstr(p.PV)
				}
				switch p.HK {
				case "present":
					hp.Header = []structs.IntentionHTTPHeaderPermission{{Name: hdrName, Present: true}}
				case "exact":
					hp.Header = []structs.IntentionHTTPHeaderPermission{{Name: hdrName, Exact: p.HV}}
				}
				s.Permissions = append(s.Permissions, &structs.IntentionPermission{Action: structs.IntentionAction(p.Act), HTTP: hp})
			}
		} else {
			s.Action = structs.IntentionAction(i.Act)
		}
		e.Sources = append(e.Sources, s)
	}
	var out structs.SimplifiedIntentions
	for _, d := range order {
		e := byDst[d]
		if err := e.Normalize(); err != nil {
			return nil, err
		}
		if err := e.Validate(); err != nil {
			return nil, err
		}
		out = append(out, e.ToIntentions()...)
	}
	return out, nil
}

type caller struct {
	cls  string // named | fresh | nearmiss | otherdc | peer | peer-nearmiss | othertd
	name string
	peer string // "" local trust domain, peer name, or "otherpeer"
	how  string // how it presents itself: cert | xfcc1 | xfcc2
	san  string
	xfcc string
}

const metaRunes = `.+*?()[]{}|^$\`

// nearMisses: names that differ from n only where pattern syntax could blur the difference.
func nearMisses(n string) []string {
	set := map[string]bool{}
	for i := 0; i < len(n); i++ {
		if strings.ContainsRune(metaRunes, rune(n[i])) {
			set[n[:i]+"x"+n[i+1:]] = true // what "." or a class would also accept
			set[n[:i]+n[i+1:]] = true     // what "?" / "*" would also accept
		} else {
			set[n[:i]+"."+n[i+1:]] = true
			set[n[:i]+"*"+n[i+1:]] = true
		}
	}
	for _, part := range strings.FieldsFunc(n, func(r rune) bool { return r == '|' || r == '(' || r == ')' }) {
		set[part] = true
	}
	if i := strings.IndexByte(n, '+'); i > 0 {
		set[n[:i]+string(n[i-1])+n[i+1:]] = true // a+b : aab
		set[n[:i]+n[i+1:]] = true
	}
	set[n+"x"] = true
	set["x"+n] = true
	set[n+"*"] = true
	set[n+"."] = true
	set["("+n+")"] = true
	if len(n) > 1 {
		set[n[:len(n)-1]] = true
	}
	delete(set, n)
	delete(set, "")
	out := make([]string, 0, len(set))
	for k := range set {
		if !strings.ContainsAny(k, "/") {
			out = append(out, k)
		}
	}
	sort.Strings(out)
	return out
}

func svcURI(td, ap, dc, name string) string {
	id := connect.SpiffeIDService{Host: td, Namespace: "default", Datacenter: dc, Service: name}
	id.Partition = ap
	return id.URI().String()
}

func gatewayURI() string {
	return (&connect.SpiffeIDMeshGateway{Host: localTD, Datacenter: "dc1"}).URI().String()
}

// callersFor: every concrete caller for the given mentioned names.
func callersFor(mentioned []string, peers []string, isHTTP bool, full bool) []caller {
	var out []caller
	add := func(cls, name, peer, td, ap, dc string) {
		san := svcURI(td, ap, dc, name)
		if peer != "" && peer != "otherpeer" && isHTTP {
			// L7 traffic from a peer is terminated by the local mesh gateway, which forwards the
			// original client certificate in x-forwarded-client-cert
			gw := gatewayURI()
			x1 := `By=` + gw + `;Hash=2a2db78ac351a05854a0abd350631bf98cc0eb827d21f4ed5935ccd287779eb6;Cert="-----BEGIN%20CERTIFICATE-----%0AMIIC";Chain="-----BEGIN%20CERTIFICATE-----%0AMIIC";Subject="";URI=` + san
			out = append(out, caller{cls, name, peer, "xfcc1", gw, x1})
			if full {
				x2 := x1 + `,By=` + svcURI(localTD, "", "dc1", "db") + `;Hash=396218588ebc1655d32a49b68cedd6b66b9de7b3d69d0c0451bc5818132377d0;Subject="";URI=` + gw
				out = append(out, caller{cls, name, peer, "xfcc2", gw, x2})
			}
			return
		}
		out = append(out, caller{cls, name, peer, "cert", san, ""})
	}
	seen := map[string]bool{}
	for _, n := range mentioned {
		seen[n] = true
	}
	for _, n := range mentioned {
		add("named", n, "", localTD, "", "dc1")
		add("otherdc", n, "", localTD, "", "dc2")
		add("othertd", n, "otherpeer", otherTD, "", "dc1")
		for _, p := range peers {
			add("peer", n, p, peersInfo[p].td, peersInfo[p].ap, "dc9")
		}
	}
	add("fresh", freshSvc, "", localTD, "", "dc1")
	for _, p := range peers {
		add("peer", freshSvc, p, peersInfo[p].td, peersInfo[p].ap, "dc9")
	}
	for _, n := range mentioned {
		nm := nearMisses(n)
		if !full && len(nm) > 6 {
			// universes without special runes: a fixed sample (first, last and every fourth)
			var pick []string
			for k, m := range nm {
				if k == 0 || k == len(nm)-1 || k%4 == 1 {
					pick = append(pick, m)
				}
			}
			nm = pick
		}
		for k, m := range nm {
			cls := "nearmiss"
			if seen[m] {
				cls = "named"
			}
			add(cls, m, "", localTD, "", "dc1")
			if full || k%3 == 0 {
				for _, p := range peers {
					add("peer-"+cls, m, p, peersInfo[p].td, peersInfo[p].ap, "dc9")
				}
			}
		}
	}
	return out
}

type request struct {
	path   string
	method string
	hdr    *string
}

func reqGrid(hasL7 bool, paths []string) []request {
	if !hasL7 {
		v := "v"
		return []request{{"/a", "GET", nil}, {"/b?x=1", "POST", &v}}
	}
	v, w := "v", "w"
	var out []request
	for _, p := range paths {
		for _, m := range []string{"GET", "POST", "PUT"} {
			for _, h := range []*string{nil, &v, &w} {
				out = append(out, request{p, m, h})
			}
		}
	}
	return out
}

func evalAll(rules *envoy_rbac_v3.RBAC, cs []caller, reqs []request, isHTTP bool) (obs [][]any, err error) {
	defer func() {
		if r := recover(); r != nil {
			if u, ok := r.(*xdsh.Unsupported); ok {
				err = u
				return
			}
			panic(r)
		}
	}()
	for _, c := range cs {
		bits := make([]byte, 0, len(reqs))
		for _, rq := range reqs {
			conn := &xdsh.Conn{URISAN: c.san, IsHTTP: isHTTP, Port: 20000}
			if isHTTP {
				conn.Path = rq.path
				conn.Headers = map[string]string{":method": rq.method, ":path": rq.path}
				if rq.hdr != nil {
					conn.Headers[hdrName] = *rq.hdr
				}
				if c.xfcc != "" {
					conn.Headers["x-forwarded-client-cert"] = c.xfcc
				}
			}
			if xdsh.Allowed(rules, conn) {
				bits = append(bits, '1')
			} else {
				bits = append(bits, '0')
			}
		}
		obs = append(obs, []any{c.cls, c.name, c.peer, c.how, string(bits)})
	}
	return obs, nil
}

func translate(ixns structs.SimplifiedIntentions, defAllow, isHTTP bool) (rules, frules *envoy_rbac_v3.RBAC, err error) {
	defer func() {
		if r := recover(); r != nil {
			err = fmt.Errorf("panic in translation: %v", r)
		}
	}()
	li := xds.VerifRBACLocalInfo{TrustDomain: localTD, Datacenter: "dc1", Partition: "default"}
	clone := func() structs.SimplifiedIntentions {
		out := make(structs.SimplifiedIntentions, len(ixns))
		for i, x := range ixns {
			out[i] = x.Clone()
		}
		return out
	}
	rules, err = xds.VerifMakeRBACRules(clone(), defAllow, li, isHTTP, bundles(), nil)
	if err != nil {
		return nil, nil, err
	}
	if isHTTP {
		f, err := xds.VerifMakeRBACHTTPFilter(clone(), defAllow, li, bundles(), nil)
		if err != nil {
			return nil, nil, err
		}
		var cfg envoy_http_rbac_v3.RBAC
		if err := f.GetTypedConfig().UnmarshalTo(&cfg); err != nil {
			return nil, nil, err
		}
		frules = cfg.GetRules()
	} else {
		f, err := xds.VerifMakeRBACNetworkFilter(clone(), defAllow, li, bundles())
		if err != nil {
			return nil, nil, err
		}
		var cfg envoy_network_rbac_v3.RBAC
		if err := f.GetTypedConfig().UnmarshalTo(&cfg); err != nil {
			return nil, nil, err
		}
		frules = cfg.GetRules()
	}
	return rules, frules, nil
}

type emitter struct {
	w       *bufio.Writer
	events  int
	callers int
	verbose bool
}

// runCase: one (concrete intention set, default, protocol).
func (em *emitter) runCase(r *rand.Rand, uid string, meta bool, dst string, ixns []Ixn, def string, proto string, full bool) {
	isHTTP := proto == "http"
	real, err := realIntentions(ixns)
	ev := M{"u": uid, "meta": meta, "d": dst, "ixns": ixns, "def": def, "proto": proto}
	if err != nil {
		// the set cannot be stored (validation): nothing to translate; recorded for the spec to notice
		ev["invalid"] = err.Error()
		em.emit(ev)
		return
	}
	r.Shuffle(len(real), func(a, b int) { real[a], real[b] = real[b], real[a] })
	rules, frules, err := translate(real, def == "allow", isHTTP)
	if err != nil {
		ev["terr"] = true
		ev["terrmsg"] = err.Error()
		em.emit(ev)
		return
	}
	ev["terr"] = false
	mentioned := map[string]bool{}
	peers := map[string]bool{"p": true}
	hasL7 := false
	pathSet := map[string]bool{"/a": true, "/ab": true, "/b": true}
	for _, i := range ixns {
		if i.Src != "*" {
			mentioned[i.Src] = true
		}
		if i.Peer != "" {
			peers[i.Peer] = true
		}
		if i.Act == "l7" {
			hasL7 = true
			for _, p := range i.Perms {
				if p.PK != "none" {
					pv := bstr(p.PV)
					pathSet[pv] = true
					pathSet[pv+"z"] = true
				}
			}
		}
	}
	mentioned[dst] = true
	var ml, pl, paths []string
	for n := range mentioned {
		ml = append(ml, n)
	}
	for p := range peers {
		pl = append(pl, p)
	}
	for p := range pathSet {
		paths = append(paths, p)
	}
	sort.Strings(ml)
	sort.Strings(pl)
	sort.Strings(paths)
	cs := callersFor(ml, pl, isHTTP, full)
	var reqs []request
	if isHTTP {
		reqs = reqGrid(hasL7, paths)
	} else {
		reqs = []request{{"", "", nil}}
	}
	jr := make([]M, 0, len(reqs))
	for _, q := range reqs {
		h := []string{}
		if q.hdr != nil {
			h = []string{*q.hdr}
		}
		p := q.path
		if i := strings.IndexByte(p, '?'); i >= 0 {
			p = p[:i]
		}
		jr = append(jr, M{"path": ints(p), "method": q.method, "hdr": h})
	}
	ev["reqs"] = jr
	obs, err := evalAll(rules, cs, reqs, isHTTP)
	if err != nil {
		fatal("%v", err)
	}
	ev["obs"] = obs
	fobs, err := evalAll(frules, cs, reqs, isHTTP)
	if err != nil {
		fatal("%v", err)
	}
	a, _ := json.Marshal(obs)
	b, _ := json.Marshal(fobs)
	if string(a) == string(b) {
		ev["fobs"] = []any{} // the filter builder's rules answered byte-identically (lossless compression)
		ev["fsame"] = true
	} else {
		ev["fobs"] = fobs
		ev["fsame"] = false
	}
	if em.verbose {
		var cc []M
		for _, c := range cs {
			cc = append(cc, M{"cls": c.cls, "name": c.name, "peer": c.peer, "how": c.how, "uri_san": c.san, "xfcc": c.xfcc})
		}
		ev["callers_verbose"] = cc
		ev["rbac_verbose"] = rules.String()
	}
	em.callers += len(cs)
	em.emit(ev)
}

func (em *emitter) emit(ev M) {
	b, err := json.Marshal(ev)
	if err != nil {
		fatal("marshal: %v", err)
	}
	em.w.Write(b)
	em.w.WriteByte('\n')
	em.events++
}

func concretize(c Case, u Universe) (string, []Ixn) {
	m := func(n string) string {
		if n == "*" {
			return n
		}
		if v, ok := u.Names[n]; ok {
			return v
		}
		return n
	}
	out := make([]Ixn, 0, len(c.Ixns))
	for _, i := range c.Ixns {
		j := i
		j.Src, j.Dst = m(i.Src), m(i.Dst)
		if j.Perms == nil {
			j.Perms = []Perm{}
		}
		for k := range j.Perms {
			if j.Perms[k].PV == nil {
				j.Perms[k].PV = []int{}
			}
			if j.Perms[k].Methods == nil {
				j.Perms[k].Methods = []string{}
			}
		}
		out = append(out, j)
	}
	return m("d"), out
}

func replay(in Input, em *emitter) {
	r := rand.New(rand.NewSource(in.Seed))
	if len(in.Defaults) == 0 {
		in.Defaults = []string{"deny", "allow"}
	}
	if len(in.Protos) == 0 {
		in.Protos = []string{"tcp", "http"}
	}
	for _, c := range in.Cases {
		for _, u := range in.Universes {
			dst, ixns := concretize(c, u)
			for _, def := range in.Defaults {
				for _, proto := range in.Protos {
					em.runCase(r, u.ID, u.Meta, dst, ixns, def, proto, in.Full || u.Meta)
				}
			}
		}
	}
}

func random(seed int64, n int, em *emitter) {
	r := rand.New(rand.NewSource(seed))
	pools := []struct {
		id    string
		meta  bool
		names []string
	}{
		{"plain", false, []string{"web", "api", "cache", "web-2", "db"}},
		{"plain2", false, []string{"frontend", "front", "end", "frontend-v2", "billing"}},
		{"meta-dot", true, []string{"web.v1", "webxv1", "web", "api.internal", "db"}},
		{"meta-mix", true, []string{"a+b", "aab", "a|b", "(x)", "db"}},
	}
	pathsPool := []string{"/a", "/ab", "/a/x", "/b", "/", "/v1.0", "/v1x0"}
	for k := 0; k < n; k++ {
		pool := pools[r.Intn(len(pools))]
		if r.Intn(3) > 0 {
			pool = pools[r.Intn(2)]
		}
		dst := pool.names[4]
		size := 1 + r.Intn(8)
		seen := map[string]bool{}
		var ixns []Ixn
		for len(ixns) < size {
			i := Ixn{Src: pool.names[r.Intn(4)], Dst: dst, Peer: []string{"", "", "p", "q"}[r.Intn(4)], Perms: []Perm{}}
			if r.Intn(3) == 0 {
				i.Src = "*"
			}
			if r.Intn(3) == 0 {
				i.Dst = "*"
			}
			key := i.Src + "|" + i.Peer + "|" + i.Dst
			if seen[key] {
				continue
			}
			seen[key] = true
			switch x := r.Intn(5); {
			case x < 2:
				i.Act = "allow"
			case x < 4 || i.Dst == "*":
				i.Act = "deny"
			default:
				i.Act = "l7"
				np := 1 + r.Intn(3)
				for j := 0; j < np; j++ {
					p := Perm{Act: []string{"allow", "deny"}[r.Intn(2)], PK: []string{"none", "exact", "prefix"}[r.Intn(3)], PV: []int{},
						Methods: []string{}, HK: []string{"none", "none", "present", "exact"}[r.Intn(4)]}
					if p.PK != "none" {
						p.PV = ints(pathsPool[r.Intn(len(pathsPool))])
					}
					if p.HK == "exact" {
						p.HV = []string{"v", "w"}[r.Intn(2)]
					}
					switch r.Intn(4) {
					case 0:
						p.Methods = []string{"GET"}
					case 1:
						p.Methods = []string{"POST", "GET"}
					}
					if p.PK == "none" && p.HK == "none" && len(p.Methods) == 0 {
						p.Methods = []string{"PUT"}
					}
					i.Perms = append(i.Perms, p)
				}
			}
			ixns = append(ixns, i)
		}
		def := []string{"deny", "allow"}[r.Intn(2)]
		proto := []string{"tcp", "http"}[r.Intn(2)]
		em.runCase(r, pool.id, pool.meta, dst, ixns, def, proto, pool.meta || k%4 == 0)
	}
}

func main() {
	if len(os.Args) < 2 {
		fatal("usage: h-xds replay|random ...")
	}
	fs := flag.NewFlagSet(os.Args[1], flag.ExitOnError)
	inF := fs.String("in", "", "cases json")
	outF := fs.String("out", "", "trace ndjson")
	seed := fs.Int64("seed", 1, "seed")
	n := fs.Int("n", 100, "random cases")
	verbose := fs.Bool("verbose", false, "include concrete URIs and the RBAC proto text")
	fs.Parse(os.Args[2:])
	f, err := os.Create(*outF)
	if err != nil {
		fatal("%v", err)
	}
	em := &emitter{w: bufio.NewWriterSize(f, 1<<20), verbose: *verbose}
	switch os.Args[1] {
	case "replay":
		b, err := os.ReadFile(*inF)
		if err != nil {
			fatal("%v", err)
		}
		var in Input
		if err := json.Unmarshal(b, &in); err != nil {
			fatal("decode: %v", err)
		}
		replay(in, em)
	case "random":
		random(*seed, *n, em)
	default:
		fatal("unknown command %q", os.Args[1])
	}
	em.w.Flush()
	f.Close()
	fmt.Printf("{\"behaviours\":%d,\"events\":%d,\"callers\":%d}\n", em.events, em.events, em.callers)
}
