// h-local: executor/recorder for C16 (anti-entropy, agent/local.State against a real catalog store).
//
//	h-local replay -in behaviours.json -out trace.ndjson [-cui=true] [-perturb ack-err]
//	h-local random -seed S -n N -len L -out trace.ndjson
//
// behaviours.json is a list of command lists (TLC-generated, spec/AntiEntropyMC.tla). Every command
// becomes one NDJSON event {cmd,cfg,res,post,(pre),rpcs} that TLC validates against
// spec/AntiEntropyTrace.tla. No verdict is computed here.
package main

import (
	"bufio"
	"crypto/sha1"
	"encoding/json"
	"flag"
	"fmt"
	"math/rand"
	"os"

	lh "github.com/hashicorp/consul/verifharness/internal/localh"
)

type M = lh.M

type recorder struct {
	w      *bufio.Writer
	events int
}

func (r *recorder) emit(ev M) {
	b, err := json.Marshal(ev)
	if err != nil {
		fatal("marshal: %v", err)
	}
	r.w.Write(b)
	r.w.WriteByte('\n')
	r.events++
}

func fatal(f string, a ...any) {
	fmt.Fprintf(os.Stderr, "h-local: "+f+"\n", a...)
	os.Exit(2)
}

// step executes one command; the event is recorded unless emit is false (a prefix already recorded for
// another behaviour). b,i identify the behaviour and the position, for replay files.
func step(h *lh.H, rec *recorder, c M, withPre, emit bool, b, i int) {
	var pre M
	if withPre && emit {
		pre = h.Project()
	}
	res, rpcs := h.Exec(c)
	if !emit {
		return
	}
	ev := M{"cmd": c, "cfg": M{"cui": h.CUI}, "res": res, "post": h.Project(), "rpcs": rpcs, "b": b, "i": i}
	if withPre {
		ev["pre"] = pre
	}
	rec.emit(ev)
}

func roundTrip(c M) M {
	b, _ := json.Marshal(c)
	var c2 M
	_ = json.Unmarshal(b, &c2)
	return c2
}

func replay(in, out string, cui bool, perturb string) {
	b, err := os.ReadFile(in)
	if err != nil {
		fatal("%v", err)
	}
	var behs [][]M
	if err := json.Unmarshal(b, &behs); err != nil {
		fatal("decode behaviours: %v", err)
	}
	f, err := os.Create(out)
	if err != nil {
		fatal("%v", err)
	}
	defer f.Close()
	rec := &recorder{w: bufio.NewWriterSize(f, 1<<20)}
	// every step is judged from its own pre-state, so a command prefix shared by several behaviours is
	// recorded once (it is still executed every time)
	seen := map[[20]byte]bool{}
	for b, beh := range behs {
		h := lh.New(cui)
		h.Perturb = perturb
		hash := sha1.New()
		prevEmitted := false
		for i, c := range beh {
			cb, _ := json.Marshal(c)
			hash.Write(cb)
			hash.Write([]byte{0})
			var key [20]byte
			copy(key[:], hash.Sum(nil))
			emit := !seen[key]
			seen[key] = true
			step(h, rec, c, !prevEmitted, emit, b, i)
			prevEmitted = emit
		}
	}
	rec.w.Flush()
	fmt.Printf("{\"behaviours\":%d,\"events\":%d}\n", len(behs), rec.events)
}

// ------------------------------------------------------------------ seeded random driver
// Universe larger than TLC's: 4 services + the server-managed "consul" service, 6 checks + "serfHealth",
// 3 ports, 3 tag values, 2 tokens, 3 statuses, 3 outputs, 4 outcome classes (acl "not found" is handled
// like "permission denied" by the code), checks that move between services.

var (
	svcIDs   = []string{"s1", "s2", "s3", "s4"}
	chkIDs   = []string{"c1", "c2", "c3", "c4", "c5", "c6"}
	tagVals  = []string{"", "a", "b"}
	tokVals  = []string{"", "", "", "t1"}
	statuses = []string{"passing", "warning", "critical"}
	outputs  = []string{"", "o1", "o2"}
)

type gen struct {
	r *rand.Rand
}

func (g *gen) pick(l []string) string { return l[g.r.Intn(len(l))] }

func (g *gen) svcDef() M {
	return M{"port": 1 + g.r.Intn(3), "eto": g.r.Intn(3) == 0, "tag": g.pick(tagVals), "native": g.r.Intn(4) == 0}
}

func (g *gen) chkSvc() string {
	if g.r.Intn(3) == 0 {
		return ""
	}
	return g.pick(svcIDs)
}

func (g *gen) outcomes(p int) []any {
	out := []any{}
	roll := func(m, k, id string) {
		if g.r.Intn(100) >= p {
			return
		}
		o := "err"
		switch g.r.Intn(5) {
		case 0, 1:
			o = "denied"
		case 2:
			o = "notfound"
		}
		out = append(out, M{"m": m, "k": k, "id": id, "o": o})
	}
	roll("reg", "n", "")
	for _, s := range append([]string{"consul", "sx"}, svcIDs...) {
		roll("reg", "s", s)
		roll("dereg", "s", s)
	}
	for _, c := range append([]string{"serfHealth", "cx"}, chkIDs...) {
		roll("reg", "c", c)
		roll("dereg", "c", c)
	}
	return out
}

func (g *gen) next() M {
	x := g.r.Intn(100)
	switch {
	case x < 14:
		id := g.pick(svcIDs)
		chks := []any{}
		for n := g.r.Intn(3); n > 0; n-- {
			chks = append(chks, M{"id": g.pick(chkIDs), "status": g.pick(statuses), "output": g.pick(outputs)})
		}
		if len(chks) == 2 && chks[0].(M)["id"] == chks[1].(M)["id"] {
			chks = chks[:1]
		}
		return M{"t": "add-svc", "id": id, "def": g.svcDef(), "tok": g.pick(tokVals), "chks": chks}
	case x < 24:
		return M{"t": "add-chk", "id": g.pick(chkIDs), "svc": g.chkSvc(), "status": g.pick([]string{"passing", "passing", "warning", "critical"}), "output": g.pick(outputs), "tok": g.pick(tokVals)}
	case x < 36:
		// mostly output-only changes of a passing check: with CheckUpdateInterval they are deferred
		return M{"t": "upd-chk", "id": g.pick(chkIDs), "status": g.pick([]string{"passing", "passing", "passing", "warning", "critical"}), "output": g.pick(outputs)}
	case x < 43:
		return M{"t": "rm-svc", "id": g.pick(svcIDs)}
	case x < 47:
		return M{"t": "rm-chk", "id": g.pick(chkIDs)}
	case x < 52:
		return M{"t": "fire", "id": g.pick(chkIDs)}
	case x < 58:
		return M{"t": "drift", "op": "set-svc", "id": g.pick(append([]string{"sx", "consul"}, svcIDs...)), "def": g.svcDef()}
	case x < 62:
		return M{"t": "drift", "op": "rm-svc", "id": g.pick(svcIDs)}
	case x < 67:
		svc := g.chkSvc()
		if g.r.Intn(5) == 0 {
			svc = "sx"
		}
		return M{"t": "drift", "op": "set-chk", "id": g.pick(append([]string{"cx", "serfHealth"}, chkIDs...)), "svc": svc, "status": g.pick(statuses), "output": g.pick(outputs)}
	case x < 70:
		return M{"t": "drift", "op": "rm-chk", "id": g.pick(chkIDs)}
	case x < 72:
		return M{"t": "drift", "op": "node-meta"}
	case x < 73:
		return M{"t": "drift", "op": "node-rm"}
	case x < 86:
		p := []int{0, 0, 15, 40}[g.r.Intn(4)]
		return M{"t": "sync", "full": false, "read": "ok", "out": g.outcomes(p)}
	default:
		p := []int{0, 0, 0, 15, 40}[g.r.Intn(5)]
		read := "ok"
		if g.r.Intn(10) == 0 {
			read = g.pick([]string{"err1", "err2"})
		}
		return M{"t": "sync", "full": true, "read": read, "out": g.outcomes(p)}
	}
}

func random(seed int64, n, length int, out string) {
	f, err := os.Create(out)
	if err != nil {
		fatal("%v", err)
	}
	defer f.Close()
	rec := &recorder{w: bufio.NewWriterSize(f, 1<<20)}
	for t := 0; t < n; t++ {
		g := &gen{r: rand.New(rand.NewSource(seed*100003 + int64(t)))}
		h := lh.New(g.r.Intn(3) != 0)
		for i := 0; i < length; i++ {
			step(h, rec, roundTrip(g.next()), i == 0, true, t, i)
		}
	}
	rec.w.Flush()
	fmt.Printf("{\"behaviours\":%d,\"events\":%d}\n", n, rec.events)
}

func main() {
	if len(os.Args) < 2 {
		fatal("usage: h-local replay|random ...")
	}
	fs := flag.NewFlagSet(os.Args[1], flag.ExitOnError)
	in := fs.String("in", "", "behaviours json")
	out := fs.String("out", "trace.ndjson", "output trace")
	seed := fs.Int64("seed", 1, "seed")
	n := fs.Int("n", 10, "number of random histories")
	length := fs.Int("len", 60, "length of each history")
	cui := fs.Bool("cui", true, "CheckUpdateInterval > 0")
	perturb := fs.String("perturb", "", "self-test only: ack-err")
	_ = fs.Parse(os.Args[2:])
	switch os.Args[1] {
	case "replay":
		replay(*in, *out, *cui, *perturb)
	case "random":
		random(*seed, *n, *length, *out)
	default:
		fatal("unknown mode %s", os.Args[1])
	}
}
