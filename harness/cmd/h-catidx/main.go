// h-catidx: executor/recorder for spec/CatIndex.tla (the catalog's index rules, property C06).
//
//	h-catidx replay -in behaviours.json -out trace.ndjson      replay TLC-generated behaviours
//	h-catidx random -seed S -n N -len L -out trace.ndjson      seeded random driver over a wider universe
//
// Every command goes through fsm.FSM.Apply as a real RegisterRequest / DeregisterRequest. One NDJSON event per
// command: {cmd, err, (pre), post, reads, obs}. post/pre = projection of nodes, services, checks and the rows of the
// index table; reads = every read of the battery evaluated on the real store AFTER the command with its abstract
// result and reported index; obs = the same reads observed around the command (index and result before/after, and
// whether the WatchSet registered before the command fired). No verdict is computed here: spec/CatIndexTrace.tla.
package main

import (
	"bufio"
	"encoding/json"
	"flag"
	"fmt"
	"math/rand"
	"os"
	"sort"
	"strings"

	memdb "github.com/hashicorp/go-memdb"

	"github.com/hashicorp/consul/agent/consul/state"
	"github.com/hashicorp/consul/agent/structs"
	"github.com/hashicorp/consul/api"
	sh "github.com/hashicorp/consul/verifharness/internal/storeh"
	"github.com/hashicorp/consul/types"
)

type M = map[string]any

func fatal(f string, a ...any) {
	fmt.Fprintf(os.Stderr, "h-catidx: "+f+"\n", a...)
	os.Exit(2)
}

func str(v any) string   { s, _ := v.(string); return s }
func boolean(v any) bool { b, _ := v.(bool); return b }
func num(v any) int {
	switch x := v.(type) {
	case float64:
		return int(x)
	case int:
		return x
	}
	return 0
}

// request builds the real raft command
func request(c M) (structs.MessageType, any) {
	if str(c["t"]) == "creg" {
		req := &structs.RegisterRequest{Datacenter: "dc1", Node: str(c["node"]), Address: str(c["addr"])}
		if boolean(c["hassvc"]) {
			req.Service = &structs.NodeService{ID: str(c["sid"]), Service: str(c["sname"]), Port: num(c["port"]), Tags: []string{"t1"}}
		}
		if boolean(c["haschk"]) {
			req.Check = &structs.HealthCheck{Node: str(c["node"]), CheckID: types.CheckID(str(c["cid"])), Name: "check " + str(c["cid"]),
				Status: str(c["cstatus"]), ServiceID: str(c["csvc"]), Output: str(c["cout"])}
		}
		return structs.RegisterRequestType, req
	}
	return structs.DeregisterRequestType, &structs.DeregisterRequest{Datacenter: "dc1", Node: str(c["node"]),
		ServiceID: str(c["sid"]), CheckID: types.CheckID(str(c["cid"]))}
}

const localPrefix = "peer." + structs.LocalPeerKeyword + ":"

func project(s *state.Store) M {
	nodes, svcs, chks, tix := []M{}, []M{}, []M{}, M{}
	_ = s.WalkAllTables(func(table string, item any) bool {
		switch table {
		case "nodes":
			n := item.(*structs.Node)
			if n.PeerName == "" {
				nodes = append(nodes, M{"name": n.Node, "addr": n.Address})
			}
		case "services":
			x := item.(*structs.ServiceNode)
			if x.PeerName == "" {
				svcs = append(svcs, M{"node": x.Node, "id": x.ServiceID, "name": x.ServiceName, "port": x.ServicePort})
			}
		case "checks":
			x := item.(*structs.HealthCheck)
			if x.PeerName == "" {
				chks = append(chks, chk(x))
			}
		case "index":
			e := item.(*state.IndexEntry)
			if strings.HasPrefix(e.Key, localPrefix) {
				k := strings.TrimPrefix(e.Key, localPrefix)
				if k == "nodes" || k == "services" || k == "checks" || k == "service_last_extinction" || k == "node_last_extinction" ||
					k == "service_kind.typical" || strings.HasPrefix(k, "service.") || strings.HasPrefix(k, "node.") {
					tix[k] = e.Value
				}
			}
		}
		return true
	})
	return M{"nodes": nodes, "svcs": svcs, "chks": chks, "tix": tix}
}

func chk(x *structs.HealthCheck) M {
	return M{"node": x.Node, "id": string(x.CheckID), "svc": x.ServiceID, "sname": x.ServiceName, "status": x.Status, "out": x.Output}
}
func svc(x *structs.ServiceNode) M {
	return M{"node": x.Node, "id": x.ServiceID, "name": x.ServiceName, "port": x.ServicePort}
}

type query struct {
	q   M
	run func(ws memdb.WatchSet, s *state.Store) (uint64, any, error)
}

// battery: the reads of CatIndex!Read over the given universe; the result is rendered in the abstract form of the spec
func battery(nodes, names []string) []query {
	qs := []query{
		{M{"q": "nodes"}, func(ws memdb.WatchSet, s *state.Store) (uint64, any, error) {
			idx, ns, err := s.Nodes(ws, nil, "")
			out := []M{}
			for _, n := range ns {
				out = append(out, M{"name": n.Node, "addr": n.Address})
			}
			return idx, out, err
		}},
		{M{"q": "services"}, func(ws memdb.WatchSet, s *state.Store) (uint64, any, error) {
			idx, l, err := s.ServiceList(ws, nil, "")
			set := map[string]bool{}
			for _, x := range l {
				set[x.Name] = true
			}
			out := []string{}
			for k := range set {
				out = append(out, k)
			}
			sort.Strings(out)
			return idx, out, err
		}},
	}
	for _, nm := range names {
		nm := nm
		qs = append(qs, query{M{"q": "service-nodes", "name": nm}, func(ws memdb.WatchSet, s *state.Store) (uint64, any, error) {
			idx, l, err := s.ServiceNodes(ws, nm, nil, "")
			out := []M{}
			for _, x := range l {
				out = append(out, M{"s": svc(x), "addr": x.Address})
			}
			return idx, out, err
		}})
		qs = append(qs, query{M{"q": "health", "name": nm}, func(ws memdb.WatchSet, s *state.Store) (uint64, any, error) {
			idx, l, err := s.CheckServiceNodes(ws, nm, nil, "")
			out := []M{}
			for _, x := range l {
				cs := []M{}
				for _, k := range x.Checks {
					cs = append(cs, chk(k))
				}
				out = append(out, M{"s": M{"node": x.Node.Node, "id": x.Service.ID, "name": x.Service.Service, "port": x.Service.Port},
					"addr": x.Node.Address, "chks": cs})
			}
			return idx, out, err
		}})
		qs = append(qs, query{M{"q": "service-checks", "name": nm}, func(ws memdb.WatchSet, s *state.Store) (uint64, any, error) {
			idx, l, err := s.ServiceChecks(ws, nm, nil, "")
			out := []M{}
			for _, k := range l {
				out = append(out, chk(k))
			}
			return idx, out, err
		}})
	}
	for _, nd := range nodes {
		nd := nd
		qs = append(qs, query{M{"q": "node-services", "node": nd}, func(ws memdb.WatchSet, s *state.Store) (uint64, any, error) {
			idx, ns, err := s.NodeServices(ws, nd, nil, "")
			if ns == nil || ns.Node == nil {
				return idx, M{"node": M{"name": "", "addr": ""}, "svcs": []M{}}, err
			}
			out := []M{}
			for _, x := range ns.Services {
				out = append(out, M{"node": nd, "id": x.ID, "name": x.Service, "port": x.Port})
			}
			return idx, M{"node": M{"name": ns.Node.Node, "addr": ns.Node.Address}, "svcs": out}, err
		}})
		qs = append(qs, query{M{"q": "node-checks", "node": nd}, func(ws memdb.WatchSet, s *state.Store) (uint64, any, error) {
			idx, l, err := s.NodeChecks(ws, nd, nil, "")
			out := []M{}
			for _, k := range l {
				out = append(out, chk(k))
			}
			return idx, out, err
		}})
	}
	for _, st := range []string{api.HealthAny, api.HealthPassing, api.HealthCritical} {
		st := st
		qs = append(qs, query{M{"q": "checks-in-state", "status": st}, func(ws memdb.WatchSet, s *state.Store) (uint64, any, error) {
			idx, l, err := s.ChecksInState(ws, st, nil, "")
			out := []M{}
			for _, k := range l {
				out = append(out, chk(k))
			}
			return idx, out, err
		}})
	}
	return qs
}

func qname(q M) string {
	s := str(q["q"])
	for _, k := range []string{"name", "node", "status"} {
		if v, ok := q[k]; ok {
			s += ":" + str(v)
		}
	}
	return s
}

type obs struct {
	idx uint64
	res string
	raw any
	ws  memdb.WatchSet
}

func observe(s *state.Store, qs []query) []obs {
	out := make([]obs, len(qs))
	for i, q := range qs {
		ws := memdb.NewWatchSet()
		idx, res, err := q.run(ws, s)
		if err != nil {
			fatal("read %s: %v", qname(q.q), err)
		}
		b, _ := json.Marshal(canon(res))
		out[i] = obs{idx: idx, res: sh.Digest(string(b)), raw: res, ws: ws}
	}
	return out
}

// canon sorts every list of the abstract result (the spec compares sets)
func canon(v any) any {
	switch x := v.(type) {
	case []M:
		l := make([]string, 0, len(x))
		for _, e := range x {
			b, _ := json.Marshal(canon(e))
			l = append(l, string(b))
		}
		sort.Strings(l)
		return l
	case M:
		o := M{}
		for k, e := range x {
			o[k] = canon(e)
		}
		return o
	}
	return v
}

func fired(o obs) bool {
	for ch := range o.ws {
		select {
		case <-ch:
			return true
		default:
		}
	}
	return false
}

type recorder struct {
	w      *bufio.Writer
	events int
}

func (r *recorder) emit(ev M) {
	b, err := json.Marshal(ev)
	if err != nil {
		fatal("marshal: %v", err)
	}
	r.w.Write(b)
	r.w.WriteByte('\n')
	r.events++
}

func step(h *sh.H, rec *recorder, c M, first bool, qs []query, hist, i int) {
	var pre M
	if first {
		pre = project(h.Store())
	}
	before := observe(h.Store(), qs)
	t, req := request(c)
	buf, err := structs.Encode(t, req)
	if err != nil {
		fatal("encode: %v", err)
	}
	_, raw, err := h.ApplyRaw(buf, uint64(num(c["idx"])))
	if err != nil {
		fatal("apply %v: %v", c, err)
	}
	_, isErr := raw.(error)
	after := observe(h.Store(), qs)
	reads, ob := []M{}, []M{}
	for k, q := range qs {
		r := M{"idx": after[k].idx, "res": after[k].raw}
		for kk, v := range q.q {
			r[kk] = v
		}
		reads = append(reads, r)
		f := fired(before[k])
		if before[k].idx != after[k].idx || before[k].res != after[k].res || f {
			ob = append(ob, M{"q": qname(q.q), "fam": str(q.q["q"]), "i0": before[k].idx, "r0": before[k].res, "i1": after[k].idx, "r1": after[k].res, "fired": f})
		}
	}
	ev := M{"cmd": c, "err": isErr, "post": project(h.Store()), "reads": reads, "obs": ob, "reap": false, "h": hist, "i": i,
		"desc": str(c["t"])}
	if first {
		ev["pre"] = pre
	}
	rec.emit(ev)
}

func replay(in, out string) {
	b, err := os.ReadFile(in)
	if err != nil {
		fatal("%v", err)
	}
	var behs [][]M
	if err := json.Unmarshal(b, &behs); err != nil {
		fatal("decode behaviours: %v", err)
	}
	f, err := os.Create(out)
	if err != nil {
		fatal("%v", err)
	}
	defer f.Close()
	rec := &recorder{w: bufio.NewWriterSize(f, 1<<20)}
	qs := battery([]string{"n1", "n2"}, []string{"web", "api"})
	for hi, beh := range behs {
		h := sh.New()
		for i, c := range beh {
			step(h, rec, c, i == 0, qs, hi, i)
		}
	}
	rec.w.Flush()
	fmt.Printf("{\"behaviours\":%d,\"events\":%d,\"nq\":%d}\n", len(behs), rec.events, len(qs))
}

// random driver: 4 nodes, 5 service ids per node over 4 names, 5 check ids; a check id is never re-registered under
// another service of its node (the situation of a recorded finding, shown by its own replay)
func random(seed int64, n, length int, out string) {
	f, err := os.Create(out)
	if err != nil {
		fatal("%v", err)
	}
	defer f.Close()
	rec := &recorder{w: bufio.NewWriterSize(f, 1<<20)}
	nodes := []string{"n1", "n2", "n3", "n4"}
	names := []string{"web", "api", "db", "web2"}
	sids := []string{"s1", "s2", "s3", "s4", "s5"}
	cids := []string{"c1", "c2", "c3", "c4", "c5"}
	addrs := []string{"a1", "a2", "a3"}
	stats := []string{api.HealthPassing, api.HealthCritical, api.HealthWarning}
	qs := battery(nodes, names)
	for t := 0; t < n; t++ {
		h := sh.New()
		r := rand.New(rand.NewSource(seed*100003 + int64(t)))
		idx := 10
		for i := 0; i < length; i++ {
			idx += 1 + r.Intn(3)
			nd := nodes[r.Intn(len(nodes))]
			var c M
			if r.Intn(100) < 72 {
				// current address of the node most of the time, so that the node row is usually not touched
				addr := addrs[0]
				if _, cur, _ := h.Store().GetNode(nd, nil, ""); cur != nil && r.Intn(6) != 0 {
					addr = cur.Address
				} else {
					addr = addrs[r.Intn(len(addrs))]
				}
				c = M{"t": "creg", "node": nd, "addr": addr, "hassvc": false, "sid": "", "sname": "", "port": 0,
					"haschk": false, "cid": "", "csvc": "", "cstatus": "", "cout": ""}
				if r.Intn(10) < 7 {
					c["hassvc"], c["sid"], c["sname"], c["port"] = true, sids[r.Intn(len(sids))], names[r.Intn(len(names))], 1+r.Intn(2)
				}
				if r.Intn(10) < 6 {
					cid := cids[r.Intn(len(cids))]
					csvc := ""
					if _, ex, _ := h.Store().NodeCheck(nd, types.CheckID(cid), nil, ""); ex != nil {
						csvc = ex.ServiceID // never moved
					} else if r.Intn(2) == 0 {
						if boolean(c["hassvc"]) && r.Intn(2) == 0 {
							csvc = str(c["sid"])
						} else {
							csvc = sids[r.Intn(len(sids))] // may not exist: the whole registration fails
						}
					}
					c["haschk"], c["cid"], c["csvc"], c["cstatus"], c["cout"] = true, cid, csvc, stats[r.Intn(len(stats))], []string{"", "x", "y"}[r.Intn(3)]
				}
			} else {
				c = M{"t": "cdereg", "node": nd, "sid": "", "cid": ""}
				switch r.Intn(5) {
				case 0:
				case 1, 2:
					c["sid"] = sids[r.Intn(len(sids))]
				default:
					c["cid"] = cids[r.Intn(len(cids))]
				}
			}
			c["idx"] = idx
			b, _ := json.Marshal(c)
			var c2 M
			_ = json.Unmarshal(b, &c2)
			step(h, rec, c2, i == 0, qs, t, i)
		}
	}
	rec.w.Flush()
	fmt.Printf("{\"behaviours\":%d,\"events\":%d,\"nq\":%d}\n", n, rec.events, len(qs))
}

// scale: one service with n instances (one per node, each with a service check) - more than a third of the state
// store's watch limit, where reads switch from per-row to table-wide watch channels - then single changes deep inside
// the instance list, each observed by the reads that carry the big result. Observations only (no model conformance:
// the state is far outside the model's universe); judged by the C06 predicates of CatIndexTrace.
func scale(n int, out string) {
	f, err := os.Create(out)
	if err != nil {
		fatal("%v", err)
	}
	defer f.Close()
	rec := &recorder{w: bufio.NewWriterSize(f, 1<<20)}
	h := sh.New()
	idx := 10
	apply := func(t structs.MessageType, req any) {
		idx++
		buf, err := structs.Encode(t, req)
		if err != nil {
			fatal("encode: %v", err)
		}
		if _, raw, err := h.ApplyRaw(buf, uint64(idx)); err != nil {
			fatal("apply: %v", err)
		} else if e, ok := raw.(error); ok {
			fatal("apply: %v", e)
		}
	}
	node := func(i int) string { return fmt.Sprintf("big%05d", i) }
	reg := func(i int, addr, status string) *structs.RegisterRequest {
		return &structs.RegisterRequest{Datacenter: "dc1", Node: node(i), Address: addr,
			Service: &structs.NodeService{ID: "b", Service: "big", Port: 1, Tags: []string{"t1"}},
			Checks: structs.HealthChecks{
				&structs.HealthCheck{Node: node(i), CheckID: "cn", Name: "cn", Status: api.HealthPassing},
				&structs.HealthCheck{Node: node(i), CheckID: "cb", Name: "cb", Status: status, ServiceID: "b"}}}
	}
	for i := 1; i <= n; i++ {
		apply(structs.RegisterRequestType, reg(i, "a1", api.HealthPassing))
	}
	qs := []query{
		{M{"q": "health", "name": "big"}, func(ws memdb.WatchSet, s *state.Store) (uint64, any, error) {
			idx, l, err := s.CheckServiceNodes(ws, "big", nil, "")
			return idx, sh.Digest(sh.SpewString(l)), err
		}},
		{M{"q": "health-tag", "name": "big"}, func(ws memdb.WatchSet, s *state.Store) (uint64, any, error) {
			idx, l, err := s.CheckServiceTagNodes(ws, "big", []string{"t1"}, nil, "")
			return idx, sh.Digest(sh.SpewString(l)), err
		}},
		{M{"q": "service-nodes", "name": "big"}, func(ws memdb.WatchSet, s *state.Store) (uint64, any, error) {
			idx, l, err := s.ServiceNodes(ws, "big", nil, "")
			return idx, sh.Digest(sh.SpewString(l)), err
		}},
		{M{"q": "service-tag-nodes", "name": "big"}, func(ws memdb.WatchSet, s *state.Store) (uint64, any, error) {
			idx, l, err := s.ServiceTagNodes(ws, "big", []string{"t1"}, nil, "")
			return idx, sh.Digest(sh.SpewString(l)), err
		}},
		{M{"q": "service-checks", "name": "big"}, func(ws memdb.WatchSet, s *state.Store) (uint64, any, error) {
			idx, l, err := s.ServiceChecks(ws, "big", nil, "")
			return idx, sh.Digest(sh.SpewString(l)), err
		}},
		{M{"q": "checks-in-state", "status": "critical"}, func(ws memdb.WatchSet, s *state.Store) (uint64, any, error) {
			idx, l, err := s.ChecksInState(ws, api.HealthCritical, nil, "")
			return idx, sh.Digest(sh.SpewString(l)), err
		}},
		{M{"q": "service-dump"}, func(ws memdb.WatchSet, s *state.Store) (uint64, any, error) {
			idx, l, err := s.ServiceDump(ws, "", false, nil, "")
			return idx, sh.Digest(sh.SpewString(l)), err
		}},
		{M{"q": "node-dump"}, func(ws memdb.WatchSet, s *state.Store) (uint64, any, error) {
			idx, l, err := s.NodeDump(ws, nil, "")
			return idx, sh.Digest(sh.SpewString(l)), err
		}},
	}
	k := 0
	observeStep := func(desc string, t structs.MessageType, req any) {
		before := observe(h.Store(), qs)
		apply(t, req)
		after := observe(h.Store(), qs)
		ob := []M{}
		for j, q := range qs {
			fd := fired(before[j])
			if before[j].idx != after[j].idx || before[j].res != after[j].res || fd {
				ob = append(ob, M{"q": qname(q.q), "fam": str(q.q["q"]), "i0": before[j].idx, "r0": before[j].res, "i1": after[j].idx, "r1": after[j].res, "fired": fd})
			}
		}
		rec.emit(M{"cmd": M{"t": "scale", "idx": idx, "what": desc}, "nomodel": true, "obs": ob, "reap": false, "h": -1, "i": k, "desc": desc})
		k++
	}
	targets := []int{n, n - 40, n/2 + 1, 1}
	for _, i := range targets {
		observeStep(fmt.Sprintf("scale(%d): check of instance %d goes critical", n, i), structs.RegisterRequestType, reg(i, "a1", api.HealthCritical))
		observeStep(fmt.Sprintf("scale(%d): node of instance %d changes its address", n, i), structs.RegisterRequestType, reg(i, "a2", api.HealthCritical))
		observeStep(fmt.Sprintf("scale(%d): check of instance %d is deregistered", n, i), structs.DeregisterRequestType,
			&structs.DeregisterRequest{Datacenter: "dc1", Node: node(i), CheckID: "cb"})
		observeStep(fmt.Sprintf("scale(%d): instance %d is deregistered", n, i), structs.DeregisterRequestType,
			&structs.DeregisterRequest{Datacenter: "dc1", Node: node(i), ServiceID: "b"})
	}
	rec.w.Flush()
	fmt.Printf("{\"behaviours\":1,\"events\":%d,\"nq\":%d}\n", rec.events, len(qs))
}

func main() {
	if len(os.Args) < 2 {
		fatal("usage: h-catidx replay|random ...")
	}
	fs := flag.NewFlagSet(os.Args[1], flag.ExitOnError)
	in := fs.String("in", "", "behaviours json")
	out := fs.String("out", "trace.ndjson", "output trace")
	seed := fs.Int64("seed", 1, "seed")
	n := fs.Int("n", 10, "number of random histories")
	length := fs.Int("len", 100, "length of each history")
	_ = fs.Parse(os.Args[2:])
	switch os.Args[1] {
	case "replay":
		replay(*in, *out)
	case "random":
		random(*seed, *n, *length, *out)
	case "scale":
		scale(*n, *out)
	default:
		fatal("unknown mode %s", os.Args[1])
	}
}
