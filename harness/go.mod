// Placeholder module root. Builds always use -modfile=/verif/.build/go-<hash>.mod, which lib/vf.py
// derives from /repo/go.mod (same versions, excludes, nested-module replaces) plus
// `replace github.com/hashicorp/consul => <repo working tree>`.
module github.com/hashicorp/consul/verifharness

go 1.26.6
