\* exhaustive check of the property-conforming variant (checks/c11.py generates the same text with other constants)
SPECIFICATION Spec
CONSTANTS
  NC = 2
  MaxCommits = 2
  MaxSubs = 1
  MaxRestores = 0
  Profile = "health"
  GGap = TRUE
  GRestore = TRUE
  Ttls = {FALSE}
VIEW View
INVARIANTS InvViewExact InvNoSkip InvRestoreCloses InvAclCloses InvClosedNeverData
PROPERTIES PropIdxMonotone
CHECK_DEADLOCK FALSE
