SPECIFICATION Spec
CONSTANTS
  Profile = "kv"
  MaxDepth = 3
VIEW View
INVARIANTS InvLock InvOrphans InvSessChecks
PROPERTIES PropEndsCascade PropCreateIndexStable PropModifyIndexRule
CHECK_DEADLOCK FALSE
