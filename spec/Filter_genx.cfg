SPECIFICATION Spec
CONSTANTS
  Part = "expiry"
  MaxSmall = 0
  MaxMid = 0
  MaxBig = 0
  MaxGroups = 0
  MaxOps = 4
PROPERTIES EmitHistProp
CHECK_DEADLOCK FALSE
