---------------------------- MODULE PeeringTrace ----------------------------
(* Trace validation for spec/Peering.tla (DESIGN.md 2.2, C17).                *)
(* trace.ndjson holds one event per command executed by harness/cmd/h-peer    *)
(* against the REAL code:  [cmd, res, post, (pre), (csn), (svclist)].         *)
(*   pre/post = every row of the real state.Store, the three catalog tables   *)
(*              row by row (modelled fields, each attribute with its copies:  *)
(*              addr/maddr/taddr, ver/tag/meta, st/out; x = hash of the       *)
(*              complete row including raft indexes), everything else as      *)
(*              [peer, tbl, x]                                                *)
(*   csn      = the real Store.CheckServiceNodes(svc, peer) after an update   *)
(*   svclist  = the real Store.ServiceList(peer) after an exported list       *)
(* Each step is judged locally: the property's predicates are evaluated on    *)
(* the IMPLEMENTATION's pre/post states.  Mirror* and conformance compare the *)
(* modelled fields; the NonInterference predicates compare COMPLETE rows (x), *)
(* so a foreign row that is rewritten with the same content is still caught.  *)
(* A failed predicate is printed as <<"REJECT", line, {names}>>.              *)
EXTENDS Peering, Json, SequencesExt

Trace == ndJsonDeserialize("trace.ndjson")
VARIABLE l

Set(s) == ToSet(s)
AbsCat(j) == [nodes |-> Set(j.nodes), svcs |-> Set(j.svcs), chks |-> Set(j.chks), rest |-> Set(j.rest)]
\* every abstract attribute is stored in several real fields; all copies must agree
Addr(r) == IF r.maddr = r.addr /\ r.taddr = r.addr THEN r.addr ELSE "inconsistent"
Ver(r) == IF r.tag = r.ver /\ r.meta = r.ver THEN r.ver ELSE "inconsistent"
Stat(r) == IF r.out = r.st THEN r.st ELSE "inconsistent"
CoreN(r) == [peer |-> r.peer, node |-> r.node, addr |-> Addr(r)]
CoreS(r) == [peer |-> r.peer, node |-> r.node, id |-> r.id, name |-> r.name, ver |-> Ver(r)]
CoreC(r) == [peer |-> r.peer, node |-> r.node, cid |-> r.cid, sid |-> r.sid, st |-> Stat(r)]
Core(cat) == [nodes |-> {CoreN(r) : r \in cat.nodes}, svcs |-> {CoreS(r) : r \in cat.svcs},
              chks |-> {CoreC(r) : r \in cat.chks}, rest |-> cat.rest]

AbsChk(s) == {[cid |-> c.cid, st |-> c.st] : c \in Set(s)}
AbsSnap(j) == {[node |-> e.node, addr |-> e.addr, nchk |-> AbsChk(e.nchk),
                insts |-> {[id |-> i.id, ver |-> i.ver, schk |-> AbsChk(i.schk)] : i \in Set(e.insts)}] : e \in Set(j)}
AbsRows(j) == [nodes |-> Set(j.nodes), svcs |-> Set(j.svcs), chks |-> Set(j.chks)]
AbsCfg(j) == {[name |-> e.name, peers |-> Set(e.peers)] : e \in Set(j)}
AbsCmd(c) ==
  CASE c.t = "upd"    -> [t |-> "upd", peer |-> c.peer, svc |-> c.svc, snap |-> AbsSnap(c.snap)]
    [] c.t = "list"   -> [t |-> "list", peer |-> c.peer, names |-> Set(c.names), twin |-> c.twin]
    [] c.t = "seed"   -> [t |-> "seed", rows |-> AbsRows(c.rows)]
    [] c.t = "export" -> [t |-> "export", peer |-> c.peer, cfg |-> AbsCfg(c.cfg), lsvcs |-> Set(c.lsvcs)]
    [] OTHER -> c
AbsCSN(j) == {[node |-> e.node, id |-> e.id, ver |-> Ver(e), addr |-> {Addr(e)},
               checks |-> {[cid |-> c.cid, sid |-> c.sid, st |-> Stat(c)] : c \in Set(e.checks)}] : e \in Set(j)}

PreF(i) == IF "pre" \in DOMAIN Trace[i] THEN AbsCat(Trace[i].pre) ELSE AbsCat(Trace[i - 1].post)
F(name, ok) == IF ok THEN {} ELSE {name}
SameCatalog(a, b) == a.nodes = b.nodes /\ a.svcs = b.svcs /\ a.chks = b.chks

JudgeUpd(e, c, preF, postF) ==
  LET pre == Core(preF)
      post == Core(postF)
      p == c.peer
  IN   F("input", WellFormed(c.snap))
  \cup F("res", e.res.ok)
  \* --- MirrorExact: the catalog for (p, svc) equals the received snapshot
  \cup F("MirrorInstances", MirrorInstances(post, p, c.svc, c.snap))
  \cup F("MirrorNodes", MirrorNodes(post, p, c.snap))
  \cup F("MirrorSvcChecks", MirrorSvcChecks(post, p, c.svc, c.snap))
  \cup F("MirrorNodeChecks", MirrorNodeChecks(post, p, c.snap))
  \* a node check the snapshot does not have must be gone; reported by cause
  \cup F("StaleNodeCheckCarried", NoStaleCarried(pre, post, p, c.svc, c.snap))
  \cup F("StaleNodeCheckNoCarrier", NoStaleNoCarrier(pre, post, p, c.svc, c.snap))
  \cup F("QueryAgrees", AbsCSN(e.csn) = CSN(post, p, c.svc))      \* the read API agrees with the tables
  \* --- entries no longer present are removed
  \cup F("NoOrphanChecks", NoOrphanChecks(post, p) \/ ~NoOrphanChecks(pre, p))
  \cup F("NodesExist", NodesExist(post, p) \/ ~NodesExist(pre, p))
  \cup F("UnusedNodesGone", UnusedNodesGone(pre, post, p, c.svc, c.snap))
  \* --- NonInterference (complete rows)
  \cup F("NIOtherPeers", NIOtherPeers(preF, postF, p))
  \cup F("NILocal", NILocal(preF, postF, p))
  \cup F("NIRest", NIRestOther(preF, postF, p))
  \cup F("NIRestGateway", NIRestGateway(preF, postF, p))
  \cup F("NISamePeer", NISamePeer(preF, postF, p, c.svc, c.snap))
  \cup F("SharedNodeKept", SharedNodeKept(preF, postF, p, c.svc, c.snap))
  \* --- conformance with the constructive specification (stale node checks are reported above, once)
  \cup F("conf", SameCatalog(Apply(pre, c), [post EXCEPT !.chks = @ \ StaleNodeChecks(post, p, c.snap)]))

JudgeList(e, c, preF, postF) ==
  LET pre == Core(preF)
      post == Core(postF)
      p == c.peer
  IN   F("res", e.res.ok)
  \cup F("ListPrunes", ListPrunes(post, p, c.names, c.twin))
  \cup F("ListKeeps", ListKeeps(preF, postF, p, c.names, c.twin))     \* complete rows: kept services are not rewritten
  \cup F("ListNoEmptyNodes", ListNoEmptyNodes(pre, post, p))
  \cup F("QueryAgrees", Set(e.svclist) = ServicesOf(post, p))
  \cup F("NoOrphanChecks", NoOrphanChecks(post, p) \/ ~NoOrphanChecks(pre, p))
  \cup F("NodesExist", NodesExist(post, p) \/ ~NodesExist(pre, p))
  \cup F("NIOtherPeers", NIOtherPeers(preF, postF, p))
  \cup F("NILocal", NILocal(preF, postF, p))
  \cup F("NIRest", NIRestOther(preF, postF, p))
  \cup F("NIRestGateway", NIRestGateway(preF, postF, p))
  \cup F("conf", SameCatalog(Apply(pre, c), post))

JudgeExport(e, c) ==
  IF ~e.res.ok THEN {"res"}
  ELSE LET offered == Set(e.res.services) \cup Set(e.res.chains) IN
          F("ExportOnlyIfConsumer", ExportOnlyIfConsumer(c.cfg, c.peer, offered))
     \cup F("ExportNoConsul", ConsulService \notin offered)
     \cup F("ExportExact", Set(e.res.services) = Exported(c.cfg, c.lsvcs, c.peer))
     \cup F("ExportChainsAreServices", Set(e.res.chains) \subseteq Set(e.res.services) \/ \E x \in c.cfg : x.name = Wildcard /\ c.peer \in x.peers)

(* ---- end to end: the importer holds exactly what the exporter exports NOW ----------------- *)
(* xcat / xcfg = exporter's local catalog and its STORED exported-services entry after the step, *)
(* post = importer's complete store after the replication settled.  Imported checks are the      *)
(* exporter's flattened "overall" checks: their status is compared raw (they carry no output).    *)
CoreE(cat) == [nodes |-> {CoreN(r) : r \in cat.nodes}, svcs |-> {CoreS(r) : r \in cat.svcs},
               chks |-> {[peer |-> r.peer, node |-> r.node, cid |-> r.cid, sid |-> r.sid, st |-> r.st] : r \in cat.chks},
               rest |-> cat.rest]
AbsXCmd(c) ==
  CASE c.t = "xcfg" -> [t |-> "xcfg", cfg |-> AbsCfg(c.cfg)]
    [] OTHER -> c
PreX(i) == IF "xpre" \in DOMAIN Trace[i] THEN Core(AbsCat(Trace[i].xpre)) ELSE Core(AbsCat(Trace[i - 1].xcat))
PreXCfg(i) == IF "xpre" \in DOMAIN Trace[i] THEN {} ELSE AbsCfg(Trace[i - 1].xcfg)
JudgeE2E(i, e, c, preF, postF) ==
  LET x == Core(AbsCat(e.xcat))
      cfg == AbsCfg(e.xcfg)
      post == CoreE(postF)
      p == e.cmd.peer
      k == e.cmd.consumer
      xexp == IF c.t = "seed" THEN ApplyXSeq(PreX(i), c.xrows) ELSE ApplyX(PreX(i), c)
      cexp == IF c.t = "xcfg" THEN c.cfg ELSE PreXCfg(i)
  IN   F("res", e.res.ok)
  \* the exporter's own state is what was commanded (its local catalog and the stored entry)
  \cup F("xconf", SameCatalog(xexp, x) /\ cfg = cexp)
  \* the property
  \cup F("E2EOnlyExported", E2EOnlyExported(cfg, x, post, p, k))
  \cup F("E2EMirror", E2EMirror(cfg, x, post, p, k))
  \cup F("E2ENodes", E2ENodes(cfg, x, post, p, k))
  \cup F("E2EChecks", E2EChecks(post, p))
  \cup F("NIOtherPeers", c.t = "seed" \/ NIOtherPeers(preF, postF, p))
  \cup F("NILocal", c.t = "seed" \/ NILocal(preF, postF, p))
  \cup F("NIRest", c.t = "seed" \/ NIRestOther(preF, postF, p))
  \cup F("NIRestGateway", c.t = "seed" \/ NIRestGateway(preF, postF, p))

IsE2E(e) == "xcat" \in DOMAIN e

Verdict(i) ==
  LET e == Trace[i]
      c == AbsCmd(e.cmd)
  IN CASE IsE2E(e)       -> JudgeE2E(i, e, IF c.t = "seed" THEN c @@ [xrows |-> e.cmd.xrows] ELSE AbsXCmd(c), PreF(i), AbsCat(e.post))
       [] c.t = "upd"    -> JudgeUpd(e, c, PreF(i), AbsCat(e.post))
       [] c.t = "list"   -> JudgeList(e, c, PreF(i), AbsCat(e.post))
       [] c.t = "seed"   -> F("res", e.res.ok) \cup F("conf", SameCatalog(Apply(Core(PreF(i)), c), Core(AbsCat(e.post))))
       [] c.t = "export" -> JudgeExport(e, c)
       [] OTHER -> {"unknown-command"}

Init == l = 1
Next == /\ l <= Len(Trace)
        /\ LET v == Verdict(l) IN IF v = {} THEN TRUE ELSE PrintT(<<"REJECT", l, v>>)
        /\ l' = l + 1
Spec == Init /\ [][Next]_l
=============================================================================
