------------------------------ MODULE StreamMC ------------------------------
(* Bounded instance of Stream: an abstract versioned store in front of the     *)
(* publisher, NC subscribers, every interleaving of                            *)
(*   Commit | Drain | Subscribe(fresh, resume, via cache) | Next | Unsubscribe  *)
(*   | cache expiry | ACL change | Restore.                                     *)
(* StreamMC_*.cfg check the properties for the variant selected by GGap/GRestore;*)
(* StreamGen_*.cfg print every transition's shortest history (schedules that    *)
(* the harness h-stream imposes on the real publisher).                         *)
EXTENDS Stream, Json

CONSTANTS NC,            \* number of subscribers
          MaxCommits, MaxSubs, MaxRestores,
          Profile,       \* "health" | "mixed"
          GGap, GRestore, \* FALSE: the code as it is ; TRUE: property-conforming variant (Stream.tla GAP / RESTORE)
          Ttls           \* subset of BOOLEAN: snapshot cache off / on

VARIABLES st, hist

G == [gap |-> GGap, restore |-> GRestore]

H == "ServiceHealth"
C == "ServiceHealthConnect"
R == "ServiceResolver"
Key(t, s) == [topic |-> t, subj |-> s]
WildT == {R}

\* abstract writes; the harness turns them into raft commands (register / deregister / config entry /
\* ACL token set) applied through fsm.FSM.Apply
Put(id, name, dest) == [op |-> "put", kind |-> "svc", id |-> id, name |-> name, dest |-> dest]
\* the same register request also changes the NODE (its address): one transaction that touches the node row and
\* the service row (catalog_events.go rebuilds every instance of a changed node and must still deregister an
\* instance from its old service name / old connect destination)
PutN(id, name, dest, addr) == [op |-> "put", kind |-> "svc", id |-> id, name |-> name, dest |-> dest, addr |-> addr]
\* ONE transaction (structs.TxnRequest: node + three sidecar proxies of `dest` on that node, service names
\* px, py, pz): several events for one subject in one batch
Multi(dest) == [op |-> "multi", kind |-> "svc", id |-> "m", dest |-> dest]
DelMulti == [op |-> "delnode", kind |-> "svc", id |-> "m", node |-> "nm"]
MultiIds == <<"m1", "m2", "m3">>
MultiNames == <<"px", "py", "pz">>
Del(id) == [op |-> "del", kind |-> "svc", id |-> id]
PutCE(id) == [op |-> "put", kind |-> "ce", id |-> id]
DelCE(id) == [op |-> "del", kind |-> "ce", id |-> id]
Acl(tok) == [op |-> "acl", kind |-> "", tok |-> tok]

WritesFor ==
  CASE Profile = "health" -> {Put("a", "web", ""), Put("b", "web", ""), Put("a", "db", ""), Del("a"), Del("b")}
    [] Profile = "mixed"  -> {Put("a", "web", ""), Put("p", "px", "web"), Del("p"), PutCE("web"), DelCE("web"), Acl("t1")}
    [] Profile = "acl"    -> {Put("a", "web", ""), Del("a"), Acl("t1"), Acl("t2")}
    [] Profile = "one"    -> {Put("a", "web", ""), Put("b", "web", ""), Del("a")}
    [] Profile = "conn"   -> {Put("a", "web", ""), Put("p", "px", "web"), Del("p")}
    [] Profile = "wild"   -> {PutCE("web"), PutCE("db"), DelCE("web")}
    [] Profile = "ren"    -> {PutN("a", "web", "", "1"), PutN("a", "db", "", "2")}
    [] Profile = "rep"    -> {PutN("p", "px", "web", "1"), PutN("p", "px", "db", "2")}
    [] Profile = "renrep" -> {PutN("a", "web", "", "1"), PutN("a", "db", "", "2"), PutN("p", "px", "web", "1"), PutN("p", "px", "db", "2")}
    [] Profile = "aclf"   -> {Multi("web"), DelMulti}
    [] Profile = "aclf1"  -> {Multi("web")}
SubjectsFor ==
  CASE Profile = "health" -> {Key(H, "web"), Key(H, "db")}
    [] Profile = "mixed"  -> {Key(H, "web"), Key(C, "web"), Key(R, "web"), Key(R, WILD)}
    [] Profile = "acl"    -> {Key(H, "web")}
    [] Profile = "one"    -> {Key(H, "web")}
    [] Profile = "conn"   -> {Key(C, "web"), Key(H, "px")}
    [] Profile = "wild"   -> {Key(R, "web"), Key(R, WILD)}
    [] Profile = "ren"    -> {Key(H, "web"), Key(H, "db")}
    [] Profile = "rep"    -> {Key(C, "web"), Key(C, "db")}
    [] Profile = "renrep" -> {Key(H, "web"), Key(H, "db"), Key(C, "web"), Key(C, "db")}
    [] Profile = "aclf"   -> {Key(C, "web")}
    [] Profile = "aclf1"  -> {Key(C, "web")}
Tok(c) == IF c = 1 THEN "t1" ELSE "t2"
\* what the tokens may not read: in profile "aclf" subscriber 2 is restricted (service "px" denied), so it sees
\* a non-empty, non-prefix part of a Multi batch
DenyFor == IF Profile \in {"aclf", "aclf1"} THEN [t2 |-> {"px"}] ELSE <<>>

KeysOf(w) ==
  IF w.kind = "svc" THEN {Key(H, w.name)} \cup (IF w.dest # "" THEN {Key(C, w.dest)} ELSE {})
  ELSE IF w.kind = "ce" THEN {Key(R, w.id)} ELSE {}
MultiKeys(w, j) == {Key(H, MultiNames[j]), Key(C, w.dest)}
AllKeys == UNION {IF w.op = "put" THEN KeysOf(w) ELSE IF w.op = "multi" THEN UNION {MultiKeys(w, j) : j \in 1..3} ELSE {} : w \in WritesFor}
RowId(w) == w.id      \* service ids and config entry names are disjoint

---------------------------------------------------------------------------
(* abstract store: rows [id, keys, v, ak] (v = raft index of the last write of the row, ak = the name its ACL
   check is made on), kix[k] = raft index of the last event filed under key k *)
EmptyStore == [rows |-> {}, kix |-> [k \in AllKeys |-> 0]]

Ev(k, op, id, v, ak) == [topic |-> k.topic, subj |-> k.subj, op |-> op, id |-> id, v |-> v, ak |-> ak]
AkOf(w) == IF w.kind = "svc" THEN w.name ELSE w.id

\* events of replacing the rows `old` (all of one id) by a row with keys newkeys, version i
RowEvs(old, id, newkeys, i, ak) ==
  LET oldkeys == UNION {r.keys : r \in old}
      oldak == IF old = {} THEN ak ELSE (CHOOSE r \in old : TRUE).ak
      gone == oldkeys \ newkeys
  IN [j \in 1..Cardinality(gone) |-> Ev(SetToSeq(gone)[j], "dereg", id, 0, oldak)]
     \o [j \in 1..Cardinality(newkeys) |-> Ev(SetToSeq(newkeys)[j], "reg", id, i, ak)]
RECURSIVE Flatten(_)
Flatten(ss) == IF ss = <<>> THEN <<>> ELSE Head(ss) \o Flatten(Tail(ss))

Touch(store, i, keys) == [k \in AllKeys |-> IF k \in keys THEN i ELSE store.kix[k]]

WriteOp(store, i, w) ==
  IF w.op = "acl" THEN [store |-> store, evs |-> <<>>, toks |-> {w.tok}]
  ELSE IF w.op = "multi" THEN
    LET old(j) == {r \in store.rows : r.id = MultiIds[j]}
        evs == Flatten([j \in 1..3 |-> RowEvs(old(j), MultiIds[j], MultiKeys(w, j), i, MultiNames[j])])
        rows == (store.rows \ UNION {old(j) : j \in 1..3})
                \cup {[id |-> MultiIds[j], keys |-> MultiKeys(w, j), v |-> i, ak |-> MultiNames[j]] : j \in 1..3}
    IN [store |-> [rows |-> rows, kix |-> Touch(store, i, {[topic |-> e.topic, subj |-> e.subj] : e \in ToSet(evs)})],
        evs |-> evs, toks |-> {}]
  ELSE IF w.op = "delnode" THEN
    LET old(j) == {r \in store.rows : r.id = MultiIds[j]}
        evs == Flatten([j \in 1..3 |-> RowEvs(old(j), MultiIds[j], {}, i, MultiNames[j])])
    IN [store |-> [rows |-> store.rows \ UNION {old(j) : j \in 1..3},
                   kix |-> Touch(store, i, {[topic |-> e.topic, subj |-> e.subj] : e \in ToSet(evs)})],
        evs |-> evs, toks |-> {}]
  ELSE
  LET id == RowId(w)
      old == {r \in store.rows : r.id = id}
      newkeys == IF w.op = "put" THEN KeysOf(w) ELSE {}
      evs == RowEvs(old, id, newkeys, i, AkOf(w))
      rows == (store.rows \ old) \cup (IF w.op = "put" THEN {[id |-> id, keys |-> newkeys, v |-> i, ak |-> AkOf(w)]} ELSE {})
  IN [store |-> [rows |-> rows, kix |-> Touch(store, i, {[topic |-> e.topic, subj |-> e.subj] : e \in ToSet(evs)})],
      evs |-> evs, toks |-> {}]

KeyMatch(ts, k) == k.topic = ts.topic /\ (k.subj = ts.subj \/ (ts.subj = WILD /\ ts.topic \in WildT))
RowSet(store, ts) == {[id |-> r.id, v |-> r.v, ak |-> r.ak] : r \in {r \in store.rows : \E k \in r.keys : KeyMatch(ts, k)}}
MaxOf(S) == IF S = {} THEN 0 ELSE CHOOSE m \in S : \A n \in S : n <= m
\* index of the direct query: the subject's own index, or the store-wide one if it has none
Qidx(store, ts, gidx) == LET m == MaxOf({store.kix[k] : k \in {k \in AllKeys : KeyMatch(ts, k)}}) IN IF m = 0 THEN gidx ELSE m
Q(store, ts, gidx) == [idx |-> Qidx(store, ts, gidx), rows |-> SetToSeq(RowSet(store, ts))]

---------------------------------------------------------------------------
Clients == 1..NC
Live(x) == x.live

Init ==
  /\ \E ttl \in Ttls :
       \* raft index 1 is taken by raft's own bootstrap entry (appendAndSplice relies on it: a snapshot
       \* index of 0 is reported as 1), user data starts at 2
       /\ st = [idx |-> 1, store |-> EmptyStore, sh |-> [i \in {0, 1} |-> EmptyStore], nc |-> 0, nr |-> 0,
                ns |-> [c \in Clients |-> 0], mustclose |-> {},
                queue |-> <<>>, tbs |-> {}, cache |-> {}, cl |-> [c \in Clients |-> NoClient],
                ttl |-> ttl, ridx |-> 0, wild |-> WildT, deny |-> DenyFor]
       /\ hist = <<[t |-> "cfg", ttl |-> ttl, nc |-> NC, deny |-> DenyFor]>>

Commit(w) ==
  /\ st.nc < MaxCommits
  /\ (w.op = "del" => \E r \in st.store.rows : r.id = RowId(w))
  /\ (w.op = "delnode" => \E r \in st.store.rows : r.id = MultiIds[1])
  /\ LET i == st.idx + 1
         r == WriteOp(st.store, i, w)
     IN /\ st' = EnqueueOp([st EXCEPT !.idx = i, !.store = r.store, !.sh = @ @@ (i :> r.store), !.nc = @ + 1],
                           [idx |-> i, evs |-> r.evs, toks |-> r.toks, n |-> 1])
        /\ hist' = Append(hist, [t |-> "commit", idx |-> i, w |-> w])

Drain ==
  /\ st.queue # <<>>
  /\ st' = [DrainOp(st) EXCEPT !.mustclose = @ \cup {c \in Clients : st.cl[c].state = "open" /\ st.cl[c].tok \in Head(st.queue).toks}]
  /\ hist' = Append(hist, [t |-> "drain"])

Subscribe(c, ts, from) ==
  LET x == st.cl[c]
      fromidx == IF from = "resume" THEN x.vidx ELSE 0
  IN /\ ~x.live
     /\ st.ns[c] < MaxSubs
     /\ from = "resume" => (x.state # "none" /\ Same(x, ts) /\ x.vidx > 0)
     /\ st' = [SubscribeOp(st, c, ts.topic, ts.subj, Tok(c), fromidx, Q(st.store, ts, st.idx))
                 EXCEPT !.ns[c] = @ + 1, !.mustclose = @ \ {c}]
     /\ hist' = Append(hist, [t |-> "sub", c |-> c, topic |-> ts.topic, subj |-> ts.subj, tok |-> Tok(c), from |-> from])

Next(c) ==
  /\ Live(st.cl[c])
  /\ st' = NextOp(st, c, G).st
  /\ hist' = Append(hist, [t |-> "next", c |-> c])

Unsubscribe(c) ==
  /\ Live(st.cl[c])
  /\ st' = UnsubOp(st, c)
  /\ hist' = Append(hist, [t |-> "unsub", c |-> c])

Expire(ts) ==
  /\ \E e \in st.cache : Same(e, ts)
  /\ st' = ExpireOp(st, ts.topic, ts.subj)
  /\ hist' = Append(hist, [t |-> "expire", topic |-> ts.topic, subj |-> ts.subj])

\* fsm.FSM.Restore of the snapshot taken after raft index `to`: a new store whose rows carry their
\* old indexes, installed at the next raft index
Restore(to) ==
  /\ st.nr < MaxRestores
  /\ LET i == st.idx + 1
     IN /\ st' = RefreshOp([st EXCEPT !.idx = i, !.store = st.sh[to], !.sh = [j \in 0..i |-> st.sh[to]],
                                       !.ridx = i, !.nr = @ + 1], G)
        /\ hist' = Append(hist, [t |-> "restore", idx |-> i, to |-> to])

NextStep ==
  \/ \E w \in WritesFor : Commit(w)
  \/ Drain
  \/ \E c \in Clients, ts \in SubjectsFor, from \in {"fresh", "resume"} : Subscribe(c, ts, from)
  \/ \E c \in Clients : Next(c) \/ Unsubscribe(c)
  \/ \E ts \in SubjectsFor : Expire(ts)
  \/ \E to \in 0..(st.idx - 1) : Restore(to)

Spec == Init /\ [][NextStep]_<<st, hist>>

View == st
Emit == PrintT(<<"TRACE", ToJson(hist')>>)
EmitProp == [][Emit]_<<st, hist>>

---------------------------------------------------------------------------
(* properties *)
TsOf(x) == Key(x.topic, x.subj)
RowsAt(i, x) == RowSet(st.sh[IF i > st.idx THEN st.idx ELSE i], TsOf(x))

\* after each delivery the view equals the direct query at the delivered index
InvViewExact == \A c \in Clients : st.cl[c].state = "open"
                    => ViewExact(st.cl[c], {ReadableRows(st, st.cl[c].tok, RowsAt(st.cl[c].vidx, st.cl[c]))})
\* no committed change is skipped
InvNoSkip == \A c \in Clients : NoSkip(st, st.cl[c], ReadableRows(st, st.cl[c].tok, RowSet(st.store, TsOf(st.cl[c]))))
\* delivered indexes never decrease within a subscription
PropIdxMonotone ==
  [][\A c \in Clients : (st.cl[c].state = "open" /\ st'.cl[c].state = "open" /\ st.ns[c] = st'.ns[c])
                          => IdxMonotone(st.cl[c], st'.cl[c])]_st
\* a restore leaves no subscription open; a published ACL change leaves no subscription of the token open
InvRestoreCloses == \A c \in Clients : st.cl[c].state = "open" => st.cl[c].ridx = st.ridx
InvAclCloses == \A c \in st.mustclose : st.cl[c].state # "open"
InvClosedNeverData == \A c \in Clients : ClosedNeverData(st.cl[c], NextOp(st, c, G).res)
=============================================================================
