------------------------------ MODULE RBACTrace ------------------------------
(* Trace validation for C14 (translation validation of agent/xds/rbac.go).        *)
(* trace.ndjson: one event per (intention set, default, protocol) recorded by      *)
(* harness/cmd/h-xds:                                                              *)
(*   [u, meta, d, ixns, def, proto, terr, reqs, obs, fobs, fsame]                  *)
(* obs[k] = <<class, name, peer, how, bits>>: a CONCRETE caller (SPIFFE URI SAN or  *)
(* XFCC header built by the harness) of identity (name, peer), and for every        *)
(* request of reqs one character '1' (the Envoy RBAC proto RETURNED by the real     *)
(* makeRBACRules allowed it, according to the independent interpreter) or '0'.      *)
(* fobs: same through makeRBACNetworkFilter / makeRBACHTTPFilter (fsame: the        *)
(* answers were byte-identical).  TLC compares with Decision7 of RBAC.tla.          *)
EXTENDS RBAC, Json, SequencesExt

Trace == ndJsonDeserialize("trace.ndjson")
VARIABLE l

F(name, ok) == IF ok THEN {} ELSE {name}

AbsPerm(p) == [act |-> p.act, pk |-> p.pk, pv |-> p.pv, methods |-> ToSet(p.methods), hk |-> p.hk, hv |-> p.hv]
AbsI(i) == [src |-> i.src, peer |-> i.peer, dst |-> i.dst, act |-> i.act, perms |-> [k \in DOMAIN i.perms |-> AbsPerm(i.perms[k])]]
AbsReq(r) == [path |-> r.path, method |-> r.method, hdr |-> r.hdr]

RECURSIVE Repeat(_, _)
Repeat(ch, n) == IF n = 0 THEN "" ELSE ch \o Repeat(ch, n - 1)
RECURSIVE PermBits(_, _, _, _)
PermBits(perms, def, reqs, k) ==
  IF k > Len(reqs) THEN ""
  ELSE LET h == FirstPerm(perms, AbsReq(reqs[k]))
           a == IF h = 0 THEN def ELSE perms[h].act
       IN (IF a = "allow" THEN "1" ELSE "0") \o PermBits(perms, def, reqs, k + 1)

\* the expected answers for one identity over all requests of the event: Decision7 for every request
\* (the deciding intention is the same for all of them, so it is looked up once)
WantBits(I, c, d, def, proto, reqs) ==
  LET M == Matching(I, c, d) IN
  IF M = {} THEN Repeat(IF def = "allow" THEN "1" ELSE "0", Len(reqs))
  ELSE LET t == Top(M) IN
       IF t.act # "l7" THEN Repeat(IF t.act = "allow" THEN "1" ELSE "0", Len(reqs))
       ELSE IF proto = "tcp" THEN Repeat("0", Len(reqs))
       ELSE PermBits(t.perms, def, reqs, 1)

\* Decision7 depends on the caller's name only through equality with the source names of I, so all
\* callers whose name is no source of I share one expected answer (computed once per event)
NOSRC == "~no-source~"
Canon(I, n) == IF \E i \in I : i.src = n THEN n ELSE NOSRC

\* why a disagreement is attributed to a known class (the attribution only matters for known_findings):
\*   the set has the inversion shape for this caller                 -> dst-over-src-precedence
\*   the naming universe contains regex/URL-significant runes         -> regex-metachar-name
Blame(e, I, c) ==
  IF InversionShape(I, c, e.d) THEN "enforce@dst-over-src-precedence"
  ELSE IF e.meta THEN "enforce@regex-metachar-name"
  ELSE "enforce"

JudgeObs(e, I, obs, prefix) ==
  LET ids == {[name |-> Canon(I, obs[k][2]), peer |-> obs[k][3]] : k \in DOMAIN obs}
      want == [c \in ids |-> WantBits(I, c, e.d, e.def, e.proto, e.reqs)]
  IN UNION {
       LET o == obs[k]
           c == [name |-> Canon(I, o[2]), peer |-> o[3]]
       IN IF o[5] = want[c] THEN {} ELSE {prefix \o Blame(e, I, c)}
       : k \in DOMAIN obs }

Verdict(i) ==
  LET e == Trace[i] IN
  IF "invalid" \in DOMAIN e THEN {"storable"}          \* the harness only submits sets the servers accept
  ELSE IF e.terr THEN {"translate-ok"}                   \* the translation must not fail or panic
  ELSE LET I == {AbsI(e.ixns[k]) : k \in DOMAIN e.ixns} IN
          F("harness-names", \A k \in DOMAIN e.ixns : e.ixns[k].src # NOSRC)
     \cup F("keys-unique", KeysUnique(I) /\ Cardinality(I) = Len(e.ixns))
     \cup JudgeObs(e, I, e.obs, "")
     \cup (IF e.fsame THEN {} ELSE JudgeObs(e, I, e.fobs, "filter-"))

Init == l = 1
Next == /\ l <= Len(Trace)
        /\ LET v == Verdict(l) IN IF v = {} THEN TRUE ELSE PrintT(<<"REJECT", l, v>>)
        /\ l' = l + 1
Spec == Init /\ [][Next]_l
=============================================================================
