SPECIFICATION Spec
CONSTANTS
  Kinds = {"set", "del", "cfg", "table", "exist"}
  MaxSteps = 5
INVARIANT Honest
VIEW View
CHECK_DEADLOCK FALSE
