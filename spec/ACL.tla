-------------------------------- MODULE ACL --------------------------------
(***************************************************************************)
(* ACL rule semantics of consul (package acl) and token resolution through   *)
(* shared caches (agent/structs/acl.go, agent/consul/acl.go) - property C08. *)
(*                                                                           *)
(* PART 1 (pure):  a decision is a FUNCTION of a *set of rules*              *)
(*      Table(R, variant, default, names)                                    *)
(*   R       set of rules  [k, n, m, lv, int]                                *)
(*             k   resource kind: "agent" "event" "key" "node" "query"       *)
(*                 "service" "session" (named kinds) or "acl" "keyring"      *)
(*                 "operator" "mesh" "peering" (scalar kinds, n = <<>>,      *)
(*                 m = "exact")                                              *)
(*             n   resource name, a sequence of bytes                        *)
(*             m   "exact" | "prefix"                                        *)
(*             lv  "deny" | "read" | "list" | "write"                        *)
(*             int explicit intentions level of a service rule or ""         *)
(*   Because R is a SET (the union of the rules of all policies of a token), *)
(*   independence of policy order, of rule order and of duplicates is        *)
(*   structural in the specification; on the implementation it is tested.    *)
(*                                                                           *)
(* PART 2 (history):  policies, roles, tokens, the parsed-policy cache and   *)
(*   the authorizer cache as state; Resolve(t) transcribes                   *)
(*   ACLResolver.ResolveToken -> ACLPolicies.Compile -> resolveWithCache ->  *)
(*   acl.MergePolicies.  In the property-conforming model cache entries are  *)
(*   immutable.  The constant-like parameter `alias` switches on a           *)
(*   transcription of what policy_merger.go does today (it mutates the first *)
(*   policy's *ServiceRule, which lives in the parsed-policy cache); it is   *)
(*   used only to show that the model can express the defect (ACL_bug.cfg).  *)
(***************************************************************************)
EXTENDS Integers, Sequences, FiniteSets, SequencesExt, TLC

NamedKinds  == {"agent", "event", "key", "node", "query", "service", "session"}
ScalarKinds == {"acl", "keyring", "operator", "mesh", "peering"}
LevelsOf(k) == IF k = "key" THEN {"deny", "read", "list", "write"} ELSE {"deny", "read", "write"}

---------------------------------------------------------------------------
(* acl/policy.go takesPrecedenceOver: deny > write > list > read > ""      *)
Rank(lv) == CASE lv = "deny" -> 4 [] lv = "write" -> 3 [] lv = "list" -> 2 [] lv = "read" -> 1 [] OTHER -> 0
MaxLevel(S) == IF S = {} THEN "" ELSE CHOOSE x \in S : \A y \in S : Rank(y) <= Rank(x)

\* literal transcription of takesPrecedenceOver(a, b), used by the order-independence lemma
TakesPrecedence(a, b) ==
  IF a = "deny" THEN TRUE ELSE IF b = "deny" THEN FALSE
  ELSE IF a = "write" THEN TRUE ELSE IF b = "write" THEN FALSE
  ELSE IF a = "list" THEN TRUE ELSE IF b = "list" THEN FALSE
  ELSE IF a = "read" THEN TRUE ELSE FALSE
\* policyRulesMergeContext.merge for ONE (kind,name,mode) slot, policies visited in sequence order
FoldMerge(levels) == FoldLeft(LAMBDA acc, x : IF acc = "" \/ TakesPrecedence(x, acc) THEN x ELSE acc, "", levels)

\* acl/policy_merger.go merge: per (kind, name, mode) the level maximal in the precedence order
Slot(R, k, n, m) == {r \in R : r.k = k /\ r.n = n /\ r.m = m}
MergedLevel(R, k, n, m) == MaxLevel({r.lv : r \in Slot(R, k, n, m)})
HasRule(R, k, n, m) == Slot(R, k, n, m) # {}

(* intentions: acl/policy_authorizer.go loadRules derives an "intention" rule from every       *)
(* service rule: the explicit `intentions` level, else read if the service level is read/write, *)
(* else deny.  When several policies give a rule for the same service name the property is      *)
(* silent on how explicit and implied intention levels combine; two readings are accepted:      *)
(*  "merged-fields"  merge `policy` and `intentions` separately, then derive (what merge does)  *)
(*  "per-rule"       derive per rule, then merge by precedence                                  *)
Variants == {"merged-fields", "per-rule"}
Implied(lv) == IF lv \in {"read", "write"} THEN "read" ELSE "deny"
IntLevel(R, n, m, v) ==
  LET S == Slot(R, "service", n, m)
      E == {x.int : x \in S} \ {""}
  IN IF v = "merged-fields"
     THEN (IF E # {} THEN MaxLevel(E) ELSE Implied(MaxLevel({x.lv : x \in S})))
     ELSE MaxLevel({IF x.int # "" THEN x.int ELSE Implied(x.lv) : x \in S})
IntRules(R, v) ==
  {[k |-> "intention", n |-> r.n, m |-> r.m, lv |-> IntLevel(R, r.n, r.m, v), int |-> ""] : r \in {x \in R : x.k = "service"}}
\* effective rule set: the token's rules plus the derived intention rules
Eff(R, v) == R \cup IntRules(R, v)

---------------------------------------------------------------------------
(* acl/policy_authorizer.go getPolicy: exact match wins, else the longest matching prefix rule *)
PrefixNames(E, k, n) == {r.n : r \in {x \in E : x.k = k /\ x.m = "prefix" /\ IsPrefix(x.n, n)}}
Longest(S) == CHOOSE p \in S : \A q \in S : Len(q) <= Len(p)
RuleLevel(E, k, n) ==
  IF HasRule(E, k, n, "exact") THEN MergedLevel(E, k, n, "exact")
  ELSE LET ps == PrefixNames(E, k, n) IN IF ps = {} THEN "" ELSE MergedLevel(E, k, Longest(ps), "prefix")

\* enforce(rule, requiredPermission)
Enforce(lv, need) ==
  CASE lv = "deny"  -> "deny"
    [] lv = "write" -> "allow"
    [] lv = "list"  -> IF need \in {"list", "read"} THEN "allow" ELSE "deny"
    [] lv = "read"  -> IF need = "read" THEN "allow" ELSE "deny"
    [] OTHER        -> "default"

Named(E, k, need, n) == Enforce(RuleLevel(E, k, n), need)
Scalar(E, k, need)   == Enforce(MergedLevel(E, k, <<>>, "exact"), need)
\* mesh / peering fall back to operator when they have no rule of their own (MeshRead, PeeringRead ..)
ScalarOrOperator(E, k, need) ==
  IF HasRule(E, k, <<>>, "exact") THEN Scalar(E, k, need) ELSE Scalar(E, "operator", need)

\* anyAllowed(tree, need): ServiceWriteAny, IntentionRead("*")
AnyAllowed(E, k, need) ==
  IF \E r \in E : r.k = k /\ Enforce(MergedLevel(E, k, r.n, r.m), need) = "allow" THEN "allow"
  ELSE IF HasRule(E, k, <<>>, "prefix") THEN "deny" ELSE "default"
\* allAllowed(tree, need): NodeReadAll, ServiceReadAll, IntentionWrite("*")
AllAllowed(E, k, need) ==
  IF \E r \in E : r.k = k /\ Enforce(MergedLevel(E, k, r.n, r.m), need) # "allow" THEN "deny"
  ELSE IF HasRule(E, k, <<>>, "prefix") THEN "allow" ELSE "default"

\* KeyWritePrefix(prefix): the longest prefix rule covering `p` must grant write and no rule at or
\* below `p` (exact or prefix) may grant less than write
KeyWritePrefix(E, p) ==
  LET ps    == PrefixNames(E, "key", p)
      base  == IF ps = {} THEN "default" ELSE IF MergedLevel(E, "key", Longest(ps), "prefix") = "write" THEN "allow" ELSE "deny"
      under == \E r \in E : r.k = "key" /\ IsPrefix(p, r.n) /\ MergedLevel(E, "key", r.n, r.m) # "write"
  IN IF base = "deny" \/ under THEN "deny" ELSE base
\* ServiceReadPrefix(prefix)
ServiceReadPrefix(E, p) ==
  LET ps    == PrefixNames(E, "service", p)
      base  == IF ps = {} THEN "default" ELSE IF MergedLevel(E, "service", Longest(ps), "prefix") \in {"read", "write"} THEN "allow" ELSE "deny"
      under == \E r \in E : r.k = "service" /\ IsPrefix(p, r.n) /\ MergedLevel(E, "service", r.n, r.m) \notin {"read", "write"}
  IN IF under THEN "deny" ELSE base
\* NodeRead / ServiceRead of a resource imported from a peer (AuthorizerContext.Peer # "")
PeerRead(E, allk) == IF AnyAllowed(E, "service", "write") = "allow" THEN "allow" ELSE AllAllowed(E, allk, "read")

\* acl/chained_authorizer.go executeChain [policy authorizer, RootAuthorizer(default)];
\* acl/static_authorizer.go: the allow-all default still denies ACLRead/ACLWrite/Snapshot
Ch(d, dflt) == IF d = "default" THEN dflt ELSE d

Over(names, f(_)) == [i \in 1..Len(names) |-> f(names[i])]
One(d) == <<d>>

\* One method of acl.Authorizer evaluated for every name of `names` (scalar methods: one entry).
Cell(E, m, dflt, names) ==
  LET N(k, need) == Over(names, LAMBDA n : Ch(Named(E, k, need, n), dflt)) IN
  CASE m = "ACLRead"   -> One(Ch(Scalar(E, "acl", "read"), "deny"))
    [] m = "ACLWrite"  -> One(Ch(Scalar(E, "acl", "write"), "deny"))
    [] m = "Snapshot"  -> One(Ch(Scalar(E, "acl", "write"), "deny"))
    [] m = "AgentRead" -> N("agent", "read")   [] m = "AgentWrite" -> N("agent", "write")
    [] m = "EventRead" -> N("event", "read")   [] m = "EventWrite" -> N("event", "write")
    [] m = "IntentionDefaultAllow" -> One(dflt)
    [] m = "IntentionRead" -> N("intention", "read") [] m = "IntentionWrite" -> N("intention", "write")
    [] m = "IntentionReadAny"  -> One(Ch(AnyAllowed(E, "intention", "read"), dflt))
    [] m = "IntentionWriteAll" -> One(Ch(AllAllowed(E, "intention", "write"), dflt))
    [] m = "KeyRead" -> N("key", "read") [] m = "KeyList" -> N("key", "list") [] m = "KeyWrite" -> N("key", "write")
    [] m = "KeyWritePrefix" -> Over(names, LAMBDA n : Ch(KeyWritePrefix(E, n), dflt))
    [] m = "KeyringRead"   -> One(Ch(Scalar(E, "keyring", "read"), dflt))
    [] m = "KeyringWrite"  -> One(Ch(Scalar(E, "keyring", "write"), dflt))
    [] m = "MeshRead"      -> One(Ch(ScalarOrOperator(E, "mesh", "read"), dflt))
    [] m = "MeshWrite"     -> One(Ch(ScalarOrOperator(E, "mesh", "write"), dflt))
    [] m = "PeeringRead"   -> One(Ch(ScalarOrOperator(E, "peering", "read"), dflt))
    [] m = "PeeringWrite"  -> One(Ch(ScalarOrOperator(E, "peering", "write"), dflt))
    [] m = "OperatorRead"  -> One(Ch(Scalar(E, "operator", "read"), dflt))
    [] m = "OperatorWrite" -> One(Ch(Scalar(E, "operator", "write"), dflt))
    [] m = "NodeRead" -> N("node", "read") [] m = "NodeWrite" -> N("node", "write")
    [] m = "NodeReadAll"  -> One(Ch(AllAllowed(E, "node", "read"), dflt))
    [] m = "NodeReadPeer" -> One(Ch(PeerRead(E, "node"), dflt))
    [] m = "PreparedQueryRead" -> N("query", "read") [] m = "PreparedQueryWrite" -> N("query", "write")
    [] m = "ServiceRead" -> N("service", "read") [] m = "ServiceWrite" -> N("service", "write")
    [] m = "ServiceReadAll"    -> One(Ch(AllAllowed(E, "service", "read"), dflt))
    [] m = "ServiceReadPrefix" -> Over(names, LAMBDA n : Ch(ServiceReadPrefix(E, n), dflt))
    [] m = "ServiceWriteAny"   -> One(Ch(AnyAllowed(E, "service", "write"), dflt))
    [] m = "ServiceReadPeer"   -> One(Ch(PeerRead(E, "service"), dflt))
    [] m = "SessionRead" -> N("session", "read") [] m = "SessionWrite" -> N("session", "write")
    [] m = "TrafficPermissionsRead"  -> Over(names, LAMBDA n : dflt)
    [] m = "TrafficPermissionsWrite" -> Over(names, LAMBDA n : dflt)

\* methods whose answer depends on the rules of one family (kind) - what a family-restricted table holds
FamMethods(fam) ==
  CASE fam = "agent"   -> {"AgentRead", "AgentWrite"}
    [] fam = "event"   -> {"EventRead", "EventWrite"}
    [] fam = "key"     -> {"KeyRead", "KeyList", "KeyWrite", "KeyWritePrefix"}
    [] fam = "node"    -> {"NodeRead", "NodeWrite", "NodeReadAll", "NodeReadPeer"}
    [] fam = "query"   -> {"PreparedQueryRead", "PreparedQueryWrite"}
    [] fam = "service" -> {"ServiceRead", "ServiceWrite", "ServiceReadAll", "ServiceReadPrefix", "ServiceWriteAny",
                           "ServiceReadPeer", "NodeReadPeer", "IntentionRead", "IntentionWrite", "IntentionReadAny",
                           "IntentionWriteAll"}
    [] fam = "session" -> {"SessionRead", "SessionWrite"}
    [] fam = "scalar"  -> {"ACLRead", "ACLWrite", "Snapshot", "KeyringRead", "KeyringWrite", "MeshRead", "MeshWrite",
                           "PeeringRead", "PeeringWrite", "OperatorRead", "OperatorWrite", "IntentionDefaultAllow",
                           "TrafficPermissionsRead", "TrafficPermissionsWrite"}
Families == {"agent", "event", "key", "node", "query", "service", "session", "scalar"}
Methods == UNION {FamMethods(f) : f \in Families}

\* The decision table restricted to the methods M ; Table = every acl.Authorizer method.
TableOf(R, v, dflt, names, M) == LET E == Eff(R, v) IN [m \in M |-> Cell(E, m, dflt, names)]
Table(R, v, dflt, names) == TableOf(R, v, dflt, names, Methods)

IntentionMethods == {"IntentionRead", "IntentionWrite", "IntentionReadAny", "IntentionWriteAll"}

\* Methods of an observed table `obs` (a record: method -> sequence of decisions) that no accepted
\* reading explains.  {} = the observation is a decision table of the rule set R.
Mismatch(obs, R, dflt, names) ==
  LET M == DOMAIN obs \cap Methods
      bad(v) == LET T == TableOf(R, v, dflt, names, M) IN (DOMAIN obs \ Methods) \cup {m \in M : obs[m] # T[m]}
  IN IF \E v \in Variants : bad(v) = {} THEN {} ELSE bad("merged-fields")

---------------------------------------------------------------------------
(* The property statement, clause by clause, as predicates over a rule set R and ANY table T     *)
(* (the specification's own, or one observed on the implementation).  They do not use           *)
(* RuleLevel/Table, so they cross-check the definition above (lemmas in ACL_mc.cfg) and are      *)
(* evaluated again on the implementation's tables in ACLTrace.                                   *)
ReadM  == [agent |-> "AgentRead", event |-> "EventRead", key |-> "KeyRead", node |-> "NodeRead",
           query |-> "PreparedQueryRead", service |-> "ServiceRead", session |-> "SessionRead"]
WriteM == [agent |-> "AgentWrite", event |-> "EventWrite", key |-> "KeyWrite", node |-> "NodeWrite",
           query |-> "PreparedQueryWrite", service |-> "ServiceWrite", session |-> "SessionWrite"]
Exacts(R, k, n)   == {r \in R : r.k = k /\ r.m = "exact" /\ r.n = n}
Prefs(R, k, n)    == {r \in R : r.k = k /\ r.m = "prefix" /\ IsPrefix(r.n, n)}
LongPrefs(R, k, n) == {r \in Prefs(R, k, n) : \A q \in Prefs(R, k, n) : Len(q.n) <= Len(r.n)}
Grants(S, need) ==   \* the rules S (all for the same slot) together grant `need`
  /\ \A r \in S : r.lv # "deny"
  /\ \E r \in S : r.lv = "write" \/ (need = "read" /\ r.lv \in {"read", "list"}) \/ (need = "list" /\ r.lv = "list")
Dec(b) == IF b THEN "allow" ELSE "deny"
Has(T, k) == ReadM[k] \in DOMAIN T /\ WriteM[k] \in DOMAIN T

\* "for a resource name the exact-match rule wins"
ExactWins(R, T, names) ==
  \A k \in NamedKinds : Has(T, k) => \A i \in 1..Len(names) :
     LET X == Exacts(R, k, names[i]) IN
     X # {} => T[ReadM[k]][i] = Dec(Grants(X, "read")) /\ T[WriteM[k]][i] = Dec(Grants(X, "write"))
\* "otherwise the longest matching prefix rule"
LongestPrefixWins(R, T, names) ==
  \A k \in NamedKinds : Has(T, k) => \A i \in 1..Len(names) :
     LET X == LongPrefs(R, k, names[i]) IN
     (Exacts(R, k, names[i]) = {} /\ X # {}) =>
        T[ReadM[k]][i] = Dec(Grants(X, "read")) /\ T[WriteM[k]][i] = Dec(Grants(X, "write"))
\* "deny overrides write overrides list overrides read" - the deny clause, stated on its own
DenyOverrides(R, T, names) ==
  \A k \in NamedKinds : Has(T, k) => \A i \in 1..Len(names) :
     LET X == IF Exacts(R, k, names[i]) # {} THEN Exacts(R, k, names[i]) ELSE LongPrefs(R, k, names[i]) IN
     (\E r \in X : r.lv = "deny") => T[ReadM[k]][i] = "deny" /\ T[WriteM[k]][i] = "deny"
\* "with no applicable rule the default policy decides"
DefaultDecides(R, T, names, dflt) ==
  \A k \in NamedKinds : Has(T, k) => \A i \in 1..Len(names) :
     (Exacts(R, k, names[i]) = {} /\ Prefs(R, k, names[i]) = {}) =>
        T[ReadM[k]][i] = dflt /\ T[WriteM[k]][i] = dflt
\* the merge does not depend on the order in which policies are visited
MergeOrderFree(R) ==
  \A r \in R : LET S == Slot(R, r.k, r.n, r.m) IN
     \A q \in SetToSeqs(S) : FoldMerge([i \in 1..Len(q) |-> q[i].lv]) = MergedLevel(R, r.k, r.n, r.m)

---------------------------------------------------------------------------
(* PART 2: tokens, roles, identities, caches *)

\* agent/structs/acltemplatedpolicy/policies/ce/service.hcl and node.hcl
Sidecar == <<45, 115, 105, 100, 101, 99, 97, 114, 45, 112, 114, 111, 120, 121>>   \* "-sidecar-proxy"
Rl(k, n, m, lv) == [k |-> k, n |-> n, m |-> m, lv |-> lv, int |-> ""]
ServiceIdentityRules(s) ==
  {Rl("service", s, "exact", "write"), Rl("service", s \o Sidecar, "exact", "write"),
   Rl("service", <<>>, "prefix", "read"), Rl("node", <<>>, "prefix", "read")}
NodeIdentityRules(n) == {Rl("node", n, "exact", "write"), Rl("service", <<>>, "prefix", "read")}

(* env = [pol   : id -> set of rules,                                                              *)
(*        roles : id -> [pols, svc, node, tsvc, tnode],                                             *)
(*        tok   : id -> [pols, roles, svc, node, tsvc, tnode]]                                      *)
(*   svc / node   service / node identities                                                         *)
(*   tsvc / tnode templated policies builtin/service {name} / builtin/node {name} (structs.         *)
(*                ACLTemplatedPolicy). They render the SAME rules text as the identity of that name, *)
(*                so a token that has both carries the same synthetic policy twice - which, by the   *)
(*                property, changes nothing: its own rule SET is the same.                           *)
Fld(rec, f) == IF f \in DOMAIN rec THEN rec[f] ELSE {}      \* replays recorded before tsvc/tnode existed
\* ACLResolver.resolvePoliciesForIdentity: the token's links plus the links of its roles
TokLinks(env, t, f) == Fld(env.tok[t], f) \cup UNION {Fld(env.roles[r], f) : r \in env.tok[t].roles}
TokPols(env, t)  == TokLinks(env, t, "pols")
TokSvc(env, t)   == TokLinks(env, t, "svc")
TokNode(env, t)  == TokLinks(env, t, "node")
TokTSvc(env, t)  == TokLinks(env, t, "tsvc")
TokTNode(env, t) == TokLinks(env, t, "tnode")
\* the token's OWN rules: nothing but its policies, roles, identities and templated policies
OwnRules(env, t) ==
  UNION ({env.pol[p] : p \in TokPols(env, t) \cap DOMAIN env.pol}   \* a dangling link contributes nothing
         \cup {ServiceIdentityRules(s) : s \in TokSvc(env, t) \cup TokTSvc(env, t)}
         \cup {NodeIdentityRules(n) : n \in TokNode(env, t) \cup TokTNode(env, t)})

(* caches (agent/structs/acl_cache.go):                                                          *)
(*   parsed : content key -> set of rules     key = <<policy id, rules>> (content hash incl. name) *)
(*   authz  : set of <<policy id, modify index>> -> merged rule set of the compiled authorizer     *)
\* policy list in the order Compile sees it: real policies sorted by id, then the synthetic policies of the
\* service identities, node identities and templated policies - every KIND de-duplicated on its own, so the
\* synthetic policy of name X (same id: the id is derived from the rules text) can occur TWICE in the list.
\* The authorizer-cache key below is the SET of <<id, modify index>>: a cache may identify lists only if they
\* have the same rule set (the real key hashes the sequence, which is finer and equally correct).
SynSvc(s)  == [id |-> <<"svc", s>>, ver |-> 0, rules |-> ServiceIdentityRules(s)]
SynNode(n) == [id |-> <<"node", n>>, ver |-> 0, rules |-> NodeIdentityRules(n)]
PolicyList(env, ver, t) ==
  LET real == SetToSortSeq(TokPols(env, t) \cap DOMAIN env.pol, LAMBDA a, b : a < b)
      syn  ==    SetToSeq({SynSvc(s) : s \in TokSvc(env, t)}) \o SetToSeq({SynNode(n) : n \in TokNode(env, t)})
              \o SetToSeq({SynSvc(s) : s \in TokTSvc(env, t)} \cup {SynNode(n) : n \in TokTNode(env, t)})
  IN [i \in 1..Len(real) |-> [id |-> <<"pol", <<real[i]>>>>, ver |-> ver[real[i]], rules |-> env.pol[real[i]]]] \o syn

Upd(f, k, v) == [x \in DOMAIN f \cup {k} |-> IF x = k THEN v ELSE f[x]]

\* what policyRulesMergeContext.merge does to the FIRST policy object that has a service rule for a
\* slot: existing.Policy / existing.Intentions are overwritten with the merged values
AliasMutate(objs) ==
  LET all == UNION {objs[i] : i \in DOMAIN objs}
      firstOf(n, m) == CHOOSE i \in DOMAIN objs : HasRule(objs[i], "service", n, m) /\ \A j \in 1..(i - 1) : ~HasRule(objs[j], "service", n, m)
      mut(i) == {IF r.k = "service" /\ firstOf(r.n, r.m) = i
                 THEN [r EXCEPT !.lv = MergedLevel(all, "service", r.n, r.m),
                                !.int = MaxLevel({x.int : x \in Slot(all, "service", r.n, r.m)} \ {""})]
                 ELSE r : r \in objs[i]}
  IN [i \in DOMAIN objs |-> mut(i)]

\* structs.ACLPolicies.Compile(cache) + resolveWithCache + acl.NewPolicyAuthorizer(MergePolicies(parsed))
Compile(c, plist, alias) ==
  LET key == {<<plist[i].id, plist[i].ver>> : i \in DOMAIN plist}
      ck(i) == <<plist[i].id, plist[i].rules>>
  IN IF key \in DOMAIN c.authz THEN [c |-> c, rules |-> c.authz[key]]
     ELSE LET objs == [i \in DOMAIN plist |-> IF ck(i) \in DOMAIN c.parsed THEN c.parsed[ck(i)] ELSE plist[i].rules]
              merged == UNION {objs[i] : i \in DOMAIN objs}
              after == IF alias THEN AliasMutate(objs) ELSE objs
              parsed2 == [x \in DOMAIN c.parsed \cup {ck(i) : i \in DOMAIN plist} |->
                            IF \E i \in DOMAIN plist : ck(i) = x THEN after[CHOOSE i \in DOMAIN plist : ck(i) = x] ELSE c.parsed[x]]
          IN [c |-> [parsed |-> parsed2, authz |-> Upd(c.authz, key, merged)], rules |-> merged]

EmptyCaches == [parsed |-> <<>>, authz |-> <<>>]

\* ACLResolver.ResolveToken(t): returns the new caches and the rule set the returned authorizer enforces
Resolve(env, ver, c, t, alias) == Compile(c, PolicyList(env, ver, t), alias)

\* every cache entry is what a fresh computation would give (inductive reason for NoCrossTalk)
CachesSound(c) ==
  /\ \A x \in DOMAIN c.parsed : c.parsed[x] = x[2]
=============================================================================
