------------------------ MODULE ResourceStoreTrace ------------------------
(***************************************************************************)
(* C18 trace validation: linearizability + watch checking of histories      *)
(* RECORDED from the real, concurrently driven storage backend              *)
(* (harness/cmd/h-res, hook-free, built with the race detector).            *)
(*                                                                           *)
(* trace.ndjson = one or more histories, each                               *)
(*   {e:"reset", h, keys, watches:[{wid,q,snap,eos,first,live,nlive}]} header*)
(*   {e:"inv", id, g, op, res, at}   call starts  (res = what it later       *)
(*                                   returned: a prophecy, joined in by the  *)
(*                                   recorder)                               *)
(*   {e:"ret", id}                   call returned                           *)
(*   {e:"wopen", wid, q}             WatchList about to be called            *)
(*   {e:"wev", wid, ph, kind, r}     Watch.Next returned an event            *)
(*   {e:"wrd", wid, k, res}          the Read(k) made right after an event   *)
(*   {e:"wdone", wid}                watcher has seen the final fence writes *)
(*   {e:"stall", pending}            recorder's watchdog: nothing moved for 20s*)
(* in the real-time order given by a process-wide atomic counter.           *)
(*                                                                           *)
(* invoke / return are trace events; the state change of a call is the      *)
(* INTERNAL step Lin(i) between them, and TLC searches for the placement of  *)
(* the Lin steps (depth-first queue).  The search is pruned without losing   *)
(* any linearization:                                                       *)
(*  - calls that can never change the state (reads, refused writes) take     *)
(*    effect as soon as their recorded result is right (Eager);             *)
(*  - Lin steps of possibly mutating calls are taken only when the next      *)
(*    event cannot be consumed without one (NeedLin); a Lin step commutes    *)
(*    with every event that can be consumed without it.                      *)
(*  - the position of a watch's initial listing ("some position of the log") *)
(*    is chosen as late as possible inside the window in which the state     *)
(*    equals the listing: right before the successful mutation that ends the *)
(*    window (Lin(i, T)) or when the watcher's first event is consumed.      *)
(* Acceptance: history h is accepted when its last event is consumed with    *)
(* nothing pending (<<"ACCEPT", h>>).  If the search of a history is         *)
(* exhausted first, <<"HWM", h, n>> says how many of its events TLC got past.*)
(* Every history of the file is an initial state: one run decides them all.  *)
(* Relax (diagnosis only): a set of check names that are switched off, used  *)
(* to name the predicate a rejected history violates; "full-search" relaxes  *)
(* nothing but switches the first two reductions off (cross-check).          *)
(***************************************************************************)
EXTENDS ResourceStore, Json, SequencesExt

CONSTANT Relax

Trace == ndJsonDeserialize("trace.ndjson")
N == Len(Trace)

VARIABLES l,     \* next event to consume
          hdr,   \* index of the current history's header
          st,    \* ResourceStore state reconstructed along the chosen linearization
          pend,  \* indexes of inv events whose call is not linearized yet
          done,  \* ids of calls linearized but not returned yet
          ws,    \* watch id -> watch (only watches whose listing position is chosen)
          aux    \* per history, computed once from the recorded data at its header:
                 \*   prod = {<<k, ver>>} versions produced by the successful writes, rst = indexes of restore calls
vars == <<l, hdr, st, pend, done, ws, aux>>

Max2(a, b) == IF a > b THEN a ELSE b
\* TLC registers (run with -workers 1): register h = high-water mark of the history whose header is event h,
\* register N + h = 1 once that history has been accepted (its remaining alternatives are then not explored)
Headers == {i \in 1..N : Trace[i].e = "reset"}
CurH == IF hdr = 0 THEN l ELSE hdr
Hwm(n) == TLCSet(CurH, Max2(TLCGet(CurH), n))
Accepted == TLCGet(N + CurH) = 1

---------------------------------------------------------------------------
(* the recorded history, as data *)
HistEnd(h) == LET rs == {j \in (h + 1)..N : Trace[j].e = "reset"} IN
              IF rs = {} THEN N ELSE (CHOOSE j \in rs : \A x \in rs : j <= x) - 1
WDecl(wid) == LET W == Trace[hdr].watches IN W[CHOOSE i \in DOMAIN W : W[i].wid = wid]
\* watches of this history whose listing position is still open at event l
Untaken == {Trace[hdr].watches[i].wid : i \in DOMAIN Trace[hdr].watches} \ DOMAIN ws

\* WatchComplete (initial listing): the listing equals the matching part of the state at the
\* chosen position (a listing cut short by a restore need only be a part of it)
ListingOK(s, wid) ==
  LET d == WDecl(wid) IN
  IF d.eos THEN ToSet(d.snap) = ListOf(s, d.q) /\ Len(d.snap) = Cardinality(ListOf(s, d.q))
  ELSE ToSet(d.snap) \subseteq ListOf(s, d.q)

Take(w, T) == [x \in DOMAIN w \cup T |-> IF x \in T THEN WatchTake(st, WDecl(x).q) ELSE w[x]]
SetW(wid, w) == [x \in DOMAIN ws \cup {wid} |-> IF x = wid THEN w ELSE ws[x]]

---------------------------------------------------------------------------
(* result conformance: error CLASS, result SET (order of a list is not specified) *)
ResOK(exp, got, kind) ==
  \/ kind \in Relax /\ kind \in {"read", "list", "listowner", "snapshot"}
  \* storage.ErrInconsistent: the backend could not establish the requested consistency and returned no data
  \/ kind \in {"read", "list"} /\ got.t = "err" /\ got.e = "inconsistent"
  \/ /\ exp.t = "err" /\ got.t = "err" /\ got.e \in exp.errs
  \/ /\ exp.t = "ok" /\ got.t = "ok" /\ ToSet(got.rs) = exp.rs /\ Len(got.rs) = Cardinality(exp.rs)

\* reductions that rely on the strict WatchOrdered rule are off when it is relaxed, and in the cross-check mode
FullSearch == Relax \cap {"full-search", "watch-order", "watch-order-dup", "watch-order-xrestore"} # {}
NewVer(e) == IF e.op.t = "write" /\ e.res.t = "ok" /\ Len(e.res.rs) = 1 THEN e.res.rs[1].ver ELSE ""
AbsOp(o) == IF o.t = "restore" THEN [t |-> "restore", rs |-> ToSet(o.rs)] ELSE o
\* the call MAY change the state in some linearization (a DeleteCAS that returned nil may have been a
\* no-op; one that presented a version no write of the history produced certainly was)
Mutates(e) == \/ e.op.t = "restore"
              \/ e.op.t = "write" /\ e.res.t = "ok"
              \/ e.op.t = "delete" /\ e.res.t = "ok" /\ (FullSearch \/ <<e.op.k, e.op.pv>> \in aux.prod)

\* the event the mutation of call i publishes, and the first live event watch wid received for resource k
PubOf(i) == IF Trace[i].op.t = "write" THEN [k |-> Trace[i].op.k, kind |-> "upsert", ver |-> NewVer(Trace[i])]
            ELSE [k |-> Trace[i].op.k, kind |-> "delete", ver |-> Trace[i].op.pv]
FirstLive(wid, k) == LET L == WDecl(wid).live IN {L[x] : x \in {y \in DOMAIN L : L[y].k = k}}
NoRestoreAhead == \A j \in aux.rst : j < l /\ j \notin pend

\* watches whose listing may be positioned right before the mutation of call i takes effect: the listing
\* is right now, and what the watch received first for that resource is this mutation's event (or nothing).
\* Before a restore only a watch that received no live event at all.
Cands(i) == {wid \in Untaken :
               /\ WDecl(wid).first = 0 \/ Trace[l].at <= WDecl(wid).first
               /\ IF Trace[i].op.t = "restore" THEN FullSearch \/ WDecl(wid).nlive = 0
                  ELSE /\ Matches(WDecl(wid).q, Trace[i].op.k)
                       /\ FullSearch \/ FirstLive(wid, Trace[i].op.k) \subseteq {PubOf(i)}
               /\ ListingOK(st, wid)}
\* ... and MUST be positioned there: the listing shows the resource this call is about to change, versions
\* never come back (no restore ahead), so the listing will never be right again
Forced(i) == {wid \in Cands(i) :
                /\ Trace[i].op.t # "restore" /\ WDecl(wid).eos /\ NoRestoreAhead
                /\ \E x \in DOMAIN WDecl(wid).snap : WDecl(wid).snap[x].k = Trace[i].op.k}
Takes(i) == IF ~Mutates(Trace[i]) THEN {{}} ELSE {Forced(i) \cup X : X \in SUBSET (Cands(i) \ Forced(i))}

(* Lin(i, T): call i takes effect now, exactly as the sequential specification says, and     *)
(* returns what was recorded; the listings of the watches in T are positioned just before it *)
Lin(i, T) ==
  LET e == Trace[i]
      r == Apply(st, AbsOp(e.op), NewVer(e))
  IN /\ ResOK(r.res, e.res, e.op.t)
     /\ st' = r.st
     /\ ws' = Take(ws, T)
     /\ pend' = pend \ {i}
     /\ done' = done \cup {e.id}
     /\ UNCHANGED <<l, hdr, aux>>

\* calls that change the state in NO linearization (reads, refused writes) and whose recorded result
\* is right in the current state: linearizing such a call at once loses nothing
Eager == {i \in pend : ~Mutates(Trace[i]) /\ ResOK(Apply(st, AbsOp(Trace[i].op), "").res, Trace[i].res, Trace[i].op.t)}
EagerLin == LET i == CHOOSE x \in Eager : \A y \in Eager : x <= y IN Lin(i, {})

---------------------------------------------------------------------------
(* watcher events *)

\* the watch as it is when its event is consumed: positioned now if it was not yet
Positioned(wid) == IF wid \in DOMAIN ws THEN ws[wid] ELSE WatchTake(st, WDecl(wid).q)
CanPosition(wid) == wid \in DOMAIN ws \/ ListingOK(st, wid) \/ "watch-listing" \in Relax

SameEvent(k, ent, e) == ent.kind # "restore" /\ EventOf(k, ent) = [kind |-> e.kind, r |-> e.r[1]]
Olds(w, k, e) == {j \in 1..w.cur[k] : SameEvent(k, st.log[k][j], e)}
RestoreIn(k, a, b) == \E x \in a..b : st.log[k][x].kind = "restore"

\* WatchOrdered: a live event is the NEXT entry of its resource's log after the watcher's position -
\* in commit order, none skipped, none repeated, none stale, never across a restore.
\* (the Relax alternatives exist only to NAME what a rejected history violates)
LiveNext(w, e) ==
  LET k == e.r[1].k
      strict == IF k \in Keys(st) /\ HasNext(st, w, k) /\ SameEvent(k, NextEntry(st, w, k), e) THEN {Advance(w, k)} ELSE {}
      \* a relaxed alternative is offered only where the strict rule fails, and says so (<<"WEAK", event, name>>)
      weak(name, cond) == IF strict = {} /\ name \in Relax /\ cond /\ PrintT(<<"WEAK", l, name>>) THEN {w} ELSE {}
  IN IF k \notin Keys(st) \/ ~Matches(w.q, k) THEN weak("watch-order", TRUE)
     ELSE strict
          \cup weak("watch-order-xrestore", \E j \in Olds(w, k, e) : RestoreIn(k, j + 1, w.cur[k]))
          \cup weak("watch-order-dup", \E j \in Olds(w, k, e) : ~RestoreIn(k, j + 1, w.cur[k]))
          \cup weak("watch-order", TRUE)

\* the event can be consumed by the strict rule (no relaxed alternative involved)
WEvStrict(e) ==
  \/ e.kind \in {"closed", "eos"} \/ e.ph = "snap"
  \/ LET w == ws[e.wid]  k == e.r[1].k IN
       k \in Keys(st) /\ HasNext(st, w, k) /\ SameEvent(k, NextEntry(st, w, k), e)

WEvNext(e) ==
  IF ~CanPosition(e.wid) THEN {}
  ELSE IF e.kind \in {"closed", "eos"} \/ e.ph = "snap" THEN {Positioned(e.wid)}
  ELSE LiveNext(Positioned(e.wid), e)

\* ReadAfterEventMonotone
WRdOK(e) ==
  LET slot == IF e.res.t = "ok" THEN <<Strip(e.res.rs[1])>> ELSE <<>> IN
  \/ "read-after-event" \in Relax
  \/ /\ e.wid \in DOMAIN ws
     /\ e.res.t = "ok" \/ e.res.e = "notfound"
     /\ e.res.t = "ok" => e.res.rs[1].k = e.k
     /\ e.k \in Keys(st)
     /\ NotOlder(st, ws[e.wid], e.k, slot)

\* WatchComplete (events): after the last writes of the run the watcher has been told everything
WDoneOK(e) == \/ "watch-done" \in Relax
              \/ e.wid \in DOMAIN ws /\ CaughtUp(st, ws[e.wid])
              \/ /\ e.wid \in DOMAIN ws
                 /\ PrintT(<<"BEHIND", l, {<<k, ws[e.wid].cur[k], Len(st.log[k])>> : k \in {x \in Keys(st) : Matches(ws[e.wid].q, x) /\ ws[e.wid].cur[x] # Len(st.log[x])}}>>)
                 /\ FALSE

---------------------------------------------------------------------------
(* consuming recorded events *)
Inv == /\ Trace[l].e = "inv"
       /\ pend' = pend \cup {l}
       /\ UNCHANGED <<st, done, ws, hdr, aux>>

Ret == /\ Trace[l].e = "ret"
       /\ Trace[l].id \in done
       /\ done' = done \ {Trace[l].id}
       /\ UNCHANGED <<st, pend, ws, hdr, aux>>

\* a watch opened after a restore RETURNED cannot be served a listing from before that restore
\* (one opened while the restore is still running may: it is closed when the restore finishes)
WOpen == /\ Trace[l].e = "wopen"
         /\ Trace[l].wid \in DOMAIN ws =>
              ws[Trace[l].wid].ep >= Cardinality({j \in aux.rst : Trace[j].rat # 0 /\ Trace[j].rat < Trace[l].at})
         /\ UNCHANGED <<st, pend, done, ws, hdr, aux>>

WEv == /\ Trace[l].e = "wev"
       /\ \E w2 \in WEvNext(Trace[l]) : ws' = SetW(Trace[l].wid, w2)
       /\ UNCHANGED <<st, pend, done, hdr, aux>>

WRd == /\ Trace[l].e = "wrd" /\ WRdOK(Trace[l])
       /\ UNCHANGED <<st, pend, done, ws, hdr, aux>>

WDone == /\ Trace[l].e = "wdone" /\ WDoneOK(Trace[l])
         /\ UNCHANGED <<st, pend, done, ws, hdr, aux>>

\* the next event cannot be consumed (by the strict rules) in the current state, or it fixes the position of
\* a watch's listing: some pending mutation may have to take effect first.  (a linearization point commutes with every
\* other event that can be consumed without it)
NeedLin == /\ l <= N
           /\ \/ Trace[l].e = "ret" /\ Trace[l].id \notin done
              \/ Trace[l].e = "wev" /\ (Trace[l].wid \notin DOMAIN ws \/ ~WEvStrict(Trace[l]))
              \/ Trace[l].e = "wrd" /\ ~WRdOK(Trace[l])
              \/ Trace[l].e = "wdone" /\ ~WDoneOK(Trace[l])

---------------------------------------------------------------------------
(* Predicates evaluated directly on the recorded history, before any search (sound, named):   *)
(* i, j range over the successful WriteCAS calls of the history.                              *)
OkWrites(h) == {i \in (h + 1)..HistEnd(h) : Trace[i].e = "inv" /\ Trace[i].op.t = "write" /\ Trace[i].res.t = "ok" /\ Len(Trace[i].res.rs) = 1}
Restores(h) == {i \in (h + 1)..HistEnd(h) : Trace[i].e = "inv" /\ Trace[i].op.t = "restore"}
\* a restore may take effect between the effects of calls i and j (in this order)
RestoreBetween(h, i, j) == \E r \in Restores(h) : Trace[i].at < Trace[r].rat /\ Trace[r].at < Trace[j].rat
Static(h) ==
  LET W == OkWrites(h) IN
     \* OneWinnerPerVersion: two successful writes presented the same (non-empty) version of one name
     (IF \E i, j \in W : /\ i < j /\ Trace[i].op.k = Trace[j].op.k /\ Trace[i].op.pv # "" /\ Trace[i].op.pv = Trace[j].op.pv
                         /\ ~RestoreBetween(h, i, j) /\ ~RestoreBetween(h, j, i)
      THEN {"OneWinnerPerVersion"} ELSE {})
  \cup
     \* UidStablePerLifetime: the write that produced version v and the write that replaced v carry one uid,
     \* and a write returns the uid it was given
     (IF \/ \E i, j \in W : /\ Trace[i].op.k = Trace[j].op.k /\ Trace[j].op.pv = Trace[i].res.rs[1].ver
                            /\ Trace[j].op.uid # Trace[i].op.uid
         \/ \E i \in W : Trace[i].res.rs[1].uid # Trace[i].op.uid
      THEN {"UidStablePerLifetime"} ELSE {})
  \cup
     \* VersionsFresh: one name never gets the same version from two writes
     (IF \E i, j \in W : i < j /\ Trace[i].op.k = Trace[j].op.k /\ Trace[i].res.rs[1].ver = Trace[j].res.rs[1].ver
      THEN {"VersionsFresh"} ELSE {})

Reset ==
  /\ Trace[l].e = "reset" /\ hdr = 0
  /\ LET v == Static(l) IN IF v = {} THEN TRUE ELSE PrintT(<<"REJECT", l, v>>)
  /\ st' = InitState(ToSet(Trace[l].keys))
  /\ hdr' = l /\ ws' = <<>>
  /\ aux' = [prod |-> {<<Trace[i].op.k, Trace[i].res.rs[1].ver>> : i \in OkWrites(l)}, rst |-> Restores(l)]
  /\ UNCHANGED <<pend, done>>

\* the recorder's watchdog saw no progress at all for many seconds: calls never returned (deadlock) or a
\* watcher never received the final events.  Progress: this never happens.
Stall == /\ Trace[l].e = "stall"
         /\ "stall" \in Relax
         /\ pend' = {} /\ done' = {}
         /\ UNCHANGED <<st, ws, hdr, aux>>

Consume == /\ l <= N
           /\ (Reset \/ Inv \/ Ret \/ WOpen \/ WEv \/ WRd \/ WDone \/ Stall)
           /\ l' = l + 1
           /\ Hwm(l + 1)

\* the history is accepted: its last event is consumed and nothing is pending
Finish == /\ hdr # 0 /\ (IF l = N + 1 THEN TRUE ELSE Trace[l].e = "reset")
          /\ pend = {} /\ done = {}
          /\ PrintT(<<"ACCEPT", Trace[hdr].h>>)
          /\ TLCSet(N + hdr, 1)
          /\ UNCHANGED vars

\* one initial state per recorded history: the histories are decided independently in one run
Init == \E h \in Headers :
          /\ l = h /\ hdr = 0 /\ st = [res |-> <<>>, log |-> <<>>, ep |-> 0]
          /\ pend = {} /\ done = {} /\ ws = <<>> /\ aux = [prod |-> {}, rst |-> {}]
          /\ TLCSet(h, h) /\ TLCSet(N + h, 0)

Step == IF "full-search" \in Relax
        THEN \/ Consume
             \/ (l <= N /\ \E i \in pend : \E T \in SUBSET (IF Mutates(Trace[i]) THEN Cands(i) ELSE {}) : Lin(i, T))
             \/ Finish
        ELSE
        IF Eager # {} THEN EagerLin
        ELSE \/ Consume
             \/ (NeedLin /\ \E i \in pend : Mutates(Trace[i]) /\ \E T \in Takes(i) : Lin(i, T))
             \/ Finish
Next == ~Accepted /\ Step
Spec == Init /\ [][Next]_vars

\* for every history: its number and how many of its events the search got past
Post == \A h \in Headers : PrintT(<<"HWM", Trace[h].h, TLCGet(h) - h>>)
=============================================================================
