--------------------------- MODULE CatIndexTrace ---------------------------
(* Trace validation for CatIndex (the catalog's index rules, property C06).  trace.ndjson: one event per     *)
(* RegisterRequest / DeregisterRequest applied to the REAL fsm / state store (harness h-catidx):             *)
(*   [cmd, err, (pre), post, reads, obs]                                                                      *)
(* Two kinds of predicates, kept apart by their names:                                                       *)
(*  - C06 itself, on the OBSERVATIONS of the real store (obs: index and result of every read before and      *)
(*    after the command, and whether the WatchSet registered before it fired): missed-change, not-woken,     *)
(*    index-decreased.  These are the only ones that can become a VIOLATION.                                  *)
(*  - conformance of the code with the model ("model:..."): the step moves tables and index rows exactly as  *)
(*    Apply says, and every read reports the result and the index Read says.  While these hold, what TLC     *)
(*    proved about the model's rules (CatIndexMC: no missed change, no decreasing index, for every history   *)
(*    up to the bound) is a statement about the code's rules.  A failed one is reported as model drift.      *)
EXTENDS CatIndex, Json, SequencesExt

Trace == ndJsonDeserialize("trace.ndjson")
VARIABLE l

Abs(j) == [nodes |-> ToSet(j.nodes), svcs |-> ToSet(j.svcs), chks |-> ToSet(j.chks), tix |-> j.tix]
Pre(i) == IF "pre" \in DOMAIN Trace[i] THEN Abs(Trace[i].pre) ELSE Abs(Trace[i - 1].post)

SameTix(a, b) == DOMAIN a.tix = DOMAIN b.tix /\ \A n \in DOMAIN a.tix : a.tix[n] = b.tix[n]

\* the recorded reply of a read in the abstract form of CatIndex!Read
AbsRes(r) ==
  CASE r.q \in {"nodes", "services", "service-checks", "node-checks", "checks-in-state"} -> ToSet(r.res)
    [] r.q = "service-nodes" -> ToSet(r.res)
    [] r.q = "health" -> {[x EXCEPT !.chks = ToSet(@)] : x \in ToSet(r.res)}
    [] r.q = "node-services" -> [node |-> r.res.node, svcs |-> ToSet(r.res.svcs)]

F(name, ok) == IF ok THEN {} ELSE {name}
Bad(o) ==
     F("missed-change:" \o o.fam, ~(o.r0 # o.r1 /\ ~(Norm(o.i1) > Norm(o.i0))))
  \cup F("not-woken:" \o o.fam, ~(o.r0 # o.r1 /\ ~o.fired))
  \cup F("index-decreased:" \o o.fam, ~(Norm(o.i1) < Norm(o.i0)))

\* events of the scale scenario (thousands of instances of one service) carry observations only
Verdict(i) ==
  IF "nomodel" \in DOMAIN Trace[i] THEN UNION {Bad(Trace[i].obs[j]) : j \in DOMAIN Trace[i].obs} ELSE
  LET e == Trace[i]  pre == Pre(i)  post == Abs(e.post)  r == Apply(pre, e.cmd.idx, e.cmd) IN
     UNION {Bad(e.obs[j]) : j \in DOMAIN e.obs}
  \cup F("model:err", e.err = r.err)
  \cup F("model:tables", post.nodes = r.st.nodes /\ post.svcs = r.st.svcs /\ post.chks = r.st.chks)
  \cup F("model:tix", SameTix(post, r.st))
  \cup UNION {LET q == e.reads[j]  m == Read(post, q) IN
                 F("model:read-res:" \o q.q, AbsRes(q) = m.res) \cup F("model:read-idx:" \o q.q, q.idx = m.idx)
              : j \in DOMAIN e.reads}
  \cup F("model:RowsLive", RowsLive(post))
  \cup F("model:CopiesCurrent", CopiesCurrent(post))

TInit == l = 1
TNext == /\ l <= Len(Trace)
         /\ LET v == Verdict(l) IN IF v = {} THEN TRUE ELSE PrintT(<<"REJECT", l, v>>)
         /\ l' = l + 1
TSpec == TInit /\ [][TNext]_l
=============================================================================
