---------------------------- MODULE DiscoChainMC ----------------------------
(* Bounded instance of DiscoChain: every set of at most MaxEntries entries (+ proxy-defaults) of a  *)
(* small universe                                                                                *)
(* over the services a, b, c, reached through every order of writes and deletes.                 *)
(*   DiscoChain_mc.cfg   exhaustive check (invariants on the reference semantics and the store)  *)
(*   DiscoChain_gen.cfg  the same graph, one printed behaviour per transition (edge mode)        *)
(* Scope says which chains a write re-compiles:                                                  *)
(*   "transitive"  every chain whose reference closure contains the written name (what the        *)
(*                 property needs)                                                                *)
(*   "direct"      the written name and the entries that name it directly                        *)
(*                 (validateProposedConfigEntryInServiceGraph as written; DiscoChain_direct.cfg   *)
(*                 shows on the MODEL that this loses StoredSetsAlwaysCompile)                    *)
EXTENDS DiscoChain, Json

CONSTANTS Profile, MaxEntries, Scope, WithTcp

VARIABLES st, hist

Svc == {"a", "b", "c"}
R(x, b) == T(x, b, "")

Dflt(s, p) == [Entry("defaults", s) EXCEPT !.protocol = p]
Prx(p)     == [Entry("proxy", "global") EXCEPT !.protocol = p]
Rtr(s, rs) == [Entry("router", s) EXCEPT !.routes = rs]
Spl(s, ls) == [Entry("splitter", s) EXCEPT !.legs = ls]
Rsv(s, subs, ds, rd, fo) == [Entry("resolver", s) EXCEPT !.subsets = subs, !.defsub = ds, !.redirect = rd, !.failover = fo]
Star(ts) == <<[key |-> "*", form |-> "targets", targets |-> ts]>>

\* hand-picked universe: mutual redirects, splitter loops, nested splitters, redirect / failover / route
\* to a missing subset, tcp service below a router or splitter, http-like protocol mix
Core ==
  {Prx("http"), Dflt("a", "http"), Dflt("b", "http"), Dflt("c", "http"), Dflt("c", "tcp"), Dflt("c", "grpc"), Dflt("b", "tcp")}
  \cup {Rtr("a", <<R("b", "")>>), Rtr("a", <<R("b", "v1")>>), Rtr("a", <<R("c", ""), R("", "v1")>>), Rtr("b", <<R("c", "")>>)}
  \cup {Spl("a", <<R("b", "")>>), Spl("a", <<R("", ""), R("b", "")>>), Spl("a", <<R("b", "v1")>>),
        Spl("b", <<R("c", "")>>), Spl("b", <<R("a", "")>>), Spl("b", <<R("", ""), R("c", "v1")>>),
        Spl("c", <<R("a", "")>>), Spl("c", <<R("", "v1"), R("", "")>>)}
  \cup {Rsv("a", <<>>, "", R("b", ""), <<>>), Rsv("a", <<>>, "", R("b", "v1"), <<>>),
        Rsv("a", <<"v1">>, "v1", NoRef, Star(<<R("b", "v1")>>)),
        Rsv("b", <<>>, "", R("a", ""), <<>>), Rsv("b", <<>>, "", R("c", ""), <<>>), Rsv("b", <<"v1">>, "", NoRef, <<>>),
        Rsv("b", <<"v1">>, "", NoRef, Star(<<R("c", "")>>)), Rsv("b", <<>>, "", R("c", "v1"), <<>>),
        Rsv("c", <<>>, "", R("a", ""), <<>>), Rsv("c", <<"v1">>, "", NoRef, <<>>), Rsv("c", <<>>, "", R("b", ""), <<>>),
        Rsv("c", <<"v1">>, "v1", NoRef, Star(<<R("a", "")>>))}

\* systematic universe (thorough tier): one route / one or two legs / every redirect and "*" failover
Dest == {R(x, b) : x \in Svc, b \in {"", "v1"}}
Wide ==
  {Prx("http"), Prx("grpc")} \cup {Dflt(s, p) : s \in Svc, p \in {"tcp", "http", "grpc"}}
  \cup {Rtr(s, <<d>>) : s \in Svc, d \in Dest}
  \cup {Spl(s, <<d>>) : s \in Svc, d \in Dest}
  \cup UNION {{Spl(s, <<R("", ""), d>>) : d \in {x \in Dest : x # R(s, "")}} : s \in Svc}
  \cup {e \in {Rsv(s, subs, ds, rd, <<>>) : s \in Svc, subs \in {<<>>, <<"v1">>}, ds \in {"", "v1"}, rd \in Dest \cup {NoRef}} : ValidEntry(e) /\ e.redirect # R(e.name, "")}
  \cup {e \in {Rsv(s, subs, ds, NoRef, Star(<<d>>)) : s \in Svc, subs \in {<<>>, <<"v1">>}, ds \in {"", "v1"}, d \in Dest} : ValidEntry(e)}

\* cycles located anywhere: splitter loops behind a router, behind another splitter, among services that are
\* not the compiled one; redirect loops behind splitters and routers (expected outcome: Err(cycle))
Cyc ==
  {Prx("http")}
  \cup {Rtr("a", <<>>), Rtr("a", <<R("b", "")>>), Rtr("c", <<R("a", "")>>)}
  \cup {Spl("a", <<R("b", "")>>), Spl("a", <<R("c", "")>>), Spl("a", <<R("", ""), R("b", "")>>),
        Spl("b", <<R("a", "")>>), Spl("b", <<R("c", "")>>), Spl("b", <<R("", ""), R("c", "")>>),
        Spl("c", <<R("b", "")>>), Spl("c", <<R("a", "")>>)}
  \cup {Rsv("b", <<>>, "", R("c", ""), <<>>), Rsv("c", <<>>, "", R("b", ""), <<>>), Rsv("c", <<>>, "", R("a", ""), <<>>)}

Universe == IF Profile = "core" THEN Core ELSE IF Profile = "cyc" THEN Cyc ELSE Wide

JudgedC == IF WithTcp THEN {DefaultCtx, TcpCtx} ELSE {DefaultCtx}
EvalC == {DefaultCtx, TcpCtx, [dc |-> "dc1", op |-> "http"]}

ChainKinds == {"router", "splitter", "resolver"}
RECURSIVE RefClosure(_, _)
RefClosure(E, S) == LET N == S \cup UNION {RefsOf(e) : e \in {x \in E : x.kind \in ChainKinds /\ x.name \in S}} IN
                    IF N = S THEN S ELSE RefClosure(E, N)
\* chains the write of (kind, name) re-compiles
Affected(E, E2, kind, name) ==
  IF Scope = "all" \/ kind = "proxy" THEN Names(E) \cup Names(E2)
  ELSE IF Scope = "direct" THEN {name} \cup {x.name : x \in {y \in E : y.kind \in ChainKinds /\ name \in RefsOf(y)}}
  ELSE {name} \cup {s \in Names(E) : name \in RefClosure(E, {s})}

Accept(E, E2, kind, name) == \A s \in Affected(E, E2, kind, name), ctx \in JudgedC : ChainOK(E2, s, ctx)

WriteCmd(e, i) == [t |-> "write", e |-> e, mode |-> "set", cidx |-> 0, idx |-> i]
DelCmd(k, n, i) == [t |-> "delete", kind |-> k, name |-> n, mode |-> "set", cidx |-> 0, idx |-> i]

Init == st = [ents |-> {}] /\ hist = <<>>
Write(e) ==
  LET new == Put(st.ents, e, 0) IN
  /\ WithMi(e, 0) \notin st.ents
  /\ Cardinality({x \in new : x.kind # "proxy"}) <= MaxEntries       \* proxy-defaults is not counted
  /\ st' = IF Accept(Bodies(st), {Body(x) : x \in new}, e.kind, e.name) THEN [st EXCEPT !.ents = new] ELSE st
  /\ hist' = Append(hist, WriteCmd(e, Len(hist) + 1))
Delete(x) ==
  LET new == Del(st.ents, x.kind, x.name) IN
  /\ st' = IF Accept(Bodies(st), {Body(y) : y \in new}, x.kind, x.name) THEN [st EXCEPT !.ents = new] ELSE st
  /\ hist' = Append(hist, DelCmd(x.kind, x.name, Len(hist) + 1))
Next == (\E e \in Universe : Write(e)) \/ (\E x \in st.ents : Delete(x))
Spec == Init /\ [][Next]_<<st, hist>>

View == st
Emit == PrintT(<<"TRACE", ToJson(hist')>>)
EmitProp == [][Emit]_<<st, hist>>

(* properties *)
\* the reference semantics only produces well-formed graphs (closed, acyclic, all paths end at a
\* resolver with a target), for every service, context and stored set
InvWellFormed == \A s \in Svc, ctx \in EvalC : LET c == Chain(Bodies(st), s, ctx) IN c.errs = {} => WellFormed(c.g)
\* a chain is either an error or has a protocol; errors are known classes
InvErrClasses == \A s \in Svc, ctx \in EvalC : ChainErrs(Bodies(st), s, ctx) \subseteq {"cycle", "protocol", "missingSubset"}
\* StoredSetsAlwaysCompile: whatever the order of writes, every stored set compiles
InvStoredSetsAlwaysCompile == StoredSetsAlwaysCompile(st, JudgedC)
\* the scoped acceptance agrees with the global one (DiscoChain!Apply) on every transition
PropAcceptIsGlobal ==
  [][LET c == hist'[Len(hist')]
         r == Apply(st, c, JudgedC) IN
     /\ r.class \in {"ok", "reject"}
     /\ (r.class = "ok") => Bodies(st') = Bodies(r.new)
     /\ (r.class = "reject") => st' = st]_<<st, hist>>
=============================================================================
