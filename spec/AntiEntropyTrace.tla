-------------------------- MODULE AntiEntropyTrace --------------------------
(* Trace validation for C16 (DESIGN.md 2.2).  trace.ndjson holds one event per command executed by      *)
(* harness/cmd/h-local against the REAL agent/local.State and a real catalog store:                      *)
(*    [cmd, cfg, res, post, (pre), rpcs]                                                                  *)
(* pre/post are projections of the implementation state (local entries with InSync/Deleted flags,        *)
(* nodeInfoInSync, catalog rows of the node); rpcs is the sequence of RPCs local.State issued, each with  *)
(* the code section that issued it, the injected outcome and the result it got.                          *)
(* Every step is judged locally from the implementation's own pre-state:                                 *)
(*   conformance   the operators of AntiEntropy applied to pre_impl explain (res_impl, post_impl); a     *)
(*                 sync is replayed call by call IN THE ORDER THE IMPLEMENTATION CHOSE, each call must    *)
(*                 be one the specification allows next (NextCalls) and none may be missing;              *)
(*   properties    NoFalseInSync, Converged, DeregNotForgotten, DeniedRetried, NoPanic evaluated on       *)
(*                 (pre_impl, post_impl).                                                                 *)
(* A failed predicate is printed as <<"REJECT", line, {names}>>; the step is still consumed.             *)
EXTENDS AntiEntropy, Json

Trace == ndJsonDeserialize("trace.ndjson")
VARIABLE l

Fn(sq, Row(_)) == [i \in {sq[k].id : k \in DOMAIN sq} |-> Row(sq[CHOOSE k \in DOMAIN sq : sq[k].id = i])]
LSvc(j) == [id |-> j.id, has |-> j.has, port |-> j.port, eto |-> j.eto, tag |-> j.tag, native |-> j.native, cva |-> j.cva,
            tok |-> j.tok, ins |-> j.ins, del |-> j.del]
LChk(j) == [id |-> j.id, has |-> j.has, svc |-> j.svc, status |-> j.status, output |-> j.output, stags |-> j.stags,
            tok |-> j.tok, ins |-> j.ins, del |-> j.del, defer |-> j.defer]
RSvc(j) == [id |-> j.id, port |-> j.port, eto |-> j.eto, tag |-> j.tag, native |-> j.native, cva |-> j.cva]
RChk(j) == [id |-> j.id, svc |-> j.svc, status |-> j.status, output |-> j.output, stags |-> j.stags]
Abs(j) == [nis |-> j.nis, svcs |-> Fn(j.svcs, LSvc), chks |-> Fn(j.chks, LChk),
           rnode |-> [has |-> j.rnode.has, nid |-> j.rnode.nid, meta |-> j.rnode.meta],
           rsvcs |-> Fn(j.rsvcs, RSvc), rchks |-> Fn(j.rchks, RChk)]
\* the abstraction must not lose anything the code compares: no tagged address besides consul-virtual, and the
\* node clause of updateSyncState (evaluated field by field in the harness) agrees with NodeSame
ProjOK(j) == /\ \A k \in DOMAIN j.svcs : j.svcs[k].xta = 0
             /\ \A k \in DOMAIN j.rsvcs : j.rsvcs[k].xta = 0
             /\ j.rnode.same = NodeSame([has |-> j.rnode.has, nid |-> j.rnode.nid, meta |-> j.rnode.meta])

Pre(i) == IF "pre" \in DOMAIN Trace[i] THEN Abs(Trace[i].pre) ELSE Abs(Trace[i - 1].post)
F(name, ok) == IF ok THEN {} ELSE {name}

LocalView(a, b) == a.nis = b.nis /\ a.svcs = b.svcs /\ a.chks = b.chks
RemoteView(a, b) == a.rnode = b.rnode /\ a.rsvcs = b.rsvcs /\ a.rchks = b.rchks

\* local view after a sync: the specification is silent on whether the pending deregistration of a check is dropped
\* when its service is deregistered (PrunedBy) or kept until its own call succeeds - an entry of `pruned` that the
\* specification dropped may still be there, marked Deleted
LocalViewPruned(exp, got, pruned) ==
  /\ exp.nis = got.nis /\ exp.svcs = got.svcs
  /\ \A id \in DOMAIN exp.chks \cup DOMAIN got.chks :
        IF id \in pruned /\ id \notin DOMAIN exp.chks THEN (id \in DOMAIN got.chks => got.chks[id].del)
        ELSE id \in DOMAIN exp.chks /\ id \in DOMAIN got.chks /\ exp.chks[id] = got.chks[id]

\* local view where the InSync flag of the entries in `loose` is not compared
NoIns(e) == [e EXCEPT !.ins = FALSE]
LocalViewLoose(a, b, loose) ==
  /\ a.nis = b.nis /\ DOMAIN a.svcs = DOMAIN b.svcs /\ DOMAIN a.chks = DOMAIN b.chks
  /\ \A id \in DOMAIN a.svcs : IF <<"s", id>> \in loose THEN NoIns(a.svcs[id]) = NoIns(b.svcs[id]) ELSE a.svcs[id] = b.svcs[id]
  /\ \A id \in DOMAIN a.chks : IF <<"c", id>> \in loose THEN NoIns(a.chks[id]) = NoIns(b.chks[id]) ELSE a.chks[id] = b.chks[id]
\* the InSync flag an add may give: false always; true only for an unchanged definition of an existing entry
\* (setServiceStateLocked / setCheckStateLocked).  Whether "true" was RIGHT is NoFalseInSync's business.
AddFlagAllowed(pre, post, x) ==
  x \in Ents(post) /\ LocalOf(post, x).ins =>
     /\ x \in Ents(pre) /\ LocalOf(pre, x).has
     /\ IF x[1] = "s" THEN IsSameSvc(post.svcs[x[2]], pre.svcs[x[2]])
        ELSE IsSameChk(post.chks[x[2]], pre.chks[x[2]]) /\ ~pre.chks[x[2]].defer

---------------------------------------------------------------------------
(* a sync, replayed call by call in the implementation's order *)
Acc0 == [st |-> InitState, bad |-> {}, attempted |-> {}, denied |-> {}, pruned |-> {}, aborted |-> FALSE, allok |-> TRUE, anyerr |-> FALSE]
RECURSIVE Replay(_, _, _, _)
Replay(s, called, rs, acc) ==
  IF rs = <<>>
  THEN [acc EXCEPT !.st = s, !.bad = @ \cup F("rpc-seq", NextCalls(s, called, acc.aborted) = {})]     \* nothing may be missing
  ELSE LET r == Head(rs)
           c == Call(r.m, r.k, r.id)
       IN IF c.m = "dereg" /\ c.k = "c" /\ c.id \in acc.pruned /\ c \notin called /\ ~Has(s.chks, c.id)
             /\ ({SvcCall(s, id) : id \in PendSvcs(s)} \ called) = {}
          THEN \* the specification is silent on whether the pending deregistration of a check is dropped when its
               \* service is deregistered (PrunedBy) or issued on its own later in the same pass (the code since
               \* bccac55): accept the call.  It IS an attempt to remove the row (DeniedRetried) and, when refused,
               \* a refusal covering the entry (NoFalseInSync).
               Replay(IF Cls(r.got) = "ok" THEN DeregChk(s, c.id) ELSE s, called \cup {c}, Tail(rs),
                      [acc EXCEPT !.allok = @ /\ Cls(r.got) = "ok", !.anyerr = @ \/ Cls(r.got) = "err",
                                  !.attempted = @ \cup {<<"c", c.id>>},
                                  !.denied = IF Cls(r.got) = "denied" THEN @ \cup {<<"c", c.id>>} ELSE @])
          ELSE IF c \notin NextCalls(s, called, acc.aborted)
          THEN [acc EXCEPT !.st = s, !.bad = @ \cup {"rpc-seq"}]                                        \* a call the code sections do not make here
          ELSE LET g == Cls(r.got)
                   shape == /\ (c.k = "s" /\ c.m = "reg" => ToSet(r.piggy) = Piggy(s, c.id))
                            /\ (c.k = "c" /\ c.m = "reg" => r.svc = PulledSvc(s, c.id))
                            /\ (c.m = "reg" => r.skip = s.nis)
                   cov == Covered(s, c)
               IN Replay(ApplyRpc(s, c, g), called \cup {c}, Tail(rs),
                         [acc EXCEPT !.bad = @ \cup F("rpc-shape", shape) \cup F("rpc-got", g = Got(s, c, r.inj)),
                                     !.attempted = @ \cup cov,
                                     !.pruned = IF c.k = "s" /\ c.m = "dereg" /\ g = "ok" THEN @ \cup PrunedBy(s, c.id) ELSE @,
                                     !.denied = IF g = "denied" THEN @ \cup cov ELSE @,
                                     !.aborted = c.k = "n" /\ g = "err",
                                     !.allok = @ /\ g = "ok",
                                     !.anyerr = @ \/ g = "err"])

SyncJudge(pre, post, e) ==
  LET c == e.cmd
      cui == e.cfg.cui
      reads == SelectSeq(e.rpcs, LAMBDA r : r.m = "read")
      writes == SelectSeq(e.rpcs, LAMBDA r : r.m # "read")
      readsOK == IF ~c.full THEN reads = <<>>
                 ELSE IF c.read = "err1" THEN Len(reads) = 1 /\ reads[1].k = "services"
                 ELSE Len(reads) = 2 /\ reads[1].k = "services" /\ reads[2].k = "checks"
      readFail == c.full /\ c.read # "ok"
      s0 == IF c.full /\ ~readFail THEN UpdateSyncState(pre, cui) ELSE pre
      run == IF readFail THEN [Acc0 EXCEPT !.st = pre, !.bad = F("rpc-seq", writes = <<>>), !.anyerr = TRUE, !.allok = FALSE]
             ELSE Replay(s0, {}, writes, Acc0)
      fresh == c.full /\ ~readFail
  IN
     run.bad
  \cup F("rpc-seq", readsOK)
  \cup F("res", e.res.t = IF run.anyerr THEN "err" ELSE "ok")
  \cup F("local-state", LocalViewPruned(run.st, post, run.pruned))
  \cup F("remote-state", RemoteView(run.st, post))
  \cup F("NoFalseInSync", NoFalseInSync(pre, post, fresh, run.denied))
  \cup F("DeregNotForgotten", DeregNotForgotten(pre, post, {}))
  \cup F("Converged", fresh /\ run.allok /\ ~run.aborted /\ e.res.t = "ok" => Converged(post))
  \cup F("DeniedRetried", fresh /\ ~run.aborted => DeniedRetried(pre, post, run.attempted))

CmdJudge(pre, post, e) ==
  LET c == e.cmd
      cui == e.cfg.cui
      exp == CASE c.t = "add-svc" -> AddSvc(pre, c)
               [] c.t = "add-chk" -> AddChk(pre, c)
               [] c.t = "upd-chk" -> [st |-> UpdChk(pre, c, cui), res |-> "ok"]
               [] c.t = "rm-svc"  -> RmSvc(pre, c.id)
               [] c.t = "rm-chk"  -> RmChk(pre, c.id)
               [] c.t = "fire"    -> Fire(pre, c.id)
               [] c.t = "drift"   -> Drift(pre, c)
      loose == Readded(c)
  IN
     F("res", e.res.t = exp.res)
  \cup F("local-state", LocalViewLoose(exp.st, post, loose))
  \cup F("add-flag", e.res.t = "ok" => \A x \in loose : AddFlagAllowed(pre, post, x))
  \cup F("remote-state", RemoteView(exp.st, post))
  \cup F("NoFalseInSync", NoFalseInSync(pre, post, FALSE, {}))
  \cup F("DeregNotForgotten", DeregNotForgotten(pre, post, loose))

Verdict(i) ==
  LET e == Trace[i]
      pre == Pre(i)
      post == Abs(e.post)
  IN F("proj", ProjOK(e.post) /\ ("pre" \in DOMAIN e => ProjOK(e.pre)))
     \cup (IF e.res.t = "panic" THEN {"NoPanic"}
           ELSE IF e.cmd.t = "sync" THEN SyncJudge(pre, post, e) ELSE CmdJudge(pre, post, e))

Init == l = 1
Next == /\ l <= Len(Trace)
        /\ LET v == Verdict(l) IN IF v = {} THEN TRUE ELSE PrintT(<<"REJECT", l, v>>)
        /\ l' = l + 1
Spec == Init /\ [][Next]_l
=============================================================================
