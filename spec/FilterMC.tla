------------------------------ MODULE FilterMC ------------------------------
(* Bounded instance of Filter: enumerates every arrangement of readable / unreadable      *)
(* elements per response type (Part = "filter"), and every interleaving of resolve /      *)
(* expire / reap / rpc-down for an expiring token (Part = "expiry").                       *)
(*   Filter_mc.cfg   exhaustive check of the properties on the model (Part = "both")      *)
(*   Filter_gen.cfg  prints one abstract response per transition  (Part = "filter")       *)
(*   Filter_genx.cfg prints one operation history per transition  (Part = "expiry")       *)
EXTENDS Filter, Json

CONSTANTS Part,        \* "filter" | "expiry" | "both"
          MaxSmall,    \* max number of elements for rules with <= 2 fact combinations
          MaxMid,      \* ... with <= 4 combinations, and for multi-group / nested types
          MaxBig,      \* ... with more combinations
          MaxGroups,   \* map entries (peers, datacenters)
          MaxOps       \* length of expiry histories

VARIABLES c, ex, hist
vars == <<c, ex, hist>>

Start == [kind |-> "start", acl |-> "none", prior |-> "na", groups |-> <<>>]
ExStart == [cfg |-> [mode |-> "none", ttl |-> "none", down |-> "none"], ph |-> "before", store |-> "has", idc |-> "none", rpc |-> "up"]

(* ----- fact combinations per rule ----- *)
NA == "na"
Els(rule) ==
  CASE rule = "node"      -> {El(n, NA, NA, NA, NA, NA) : n \in {"ok", "no"}}
    [] rule = "session"   -> {El(n, NA, NA, x, NA, NA) : n \in {"ok", "no"}, x \in {"ok", "no"}}
    [] rule = "check"     -> {El(n, s, NA, NA, NA, NA) : n \in {"ok", "no"}, s \in {"ok", "no", "empty"}}
    [] rule = "svcnode"   -> {El(n, s, NA, NA, NA, NA) : n \in {"ok", "no"}, s \in {"ok", "no"}}
    [] rule = "csn"       -> {El(n, s, NA, NA, NA, NA) : n \in {"ok", "no"}, s \in {"ok", "no"}}
    [] rule = "svc"       -> {El(NA, s, NA, NA, NA, NA) : s \in {"ok", "no"}}
    [] rule = "gwsvc"     -> {El(NA, s, g, NA, NA, NA) : s \in {"ok", "no"}, g \in {"ok", "no"}}
    [] rule = "svcdump"   -> {El(n, s, g, NA, NA, NA) : n \in {"ok", "no", "na"}, s \in {"ok", "no"}, g \in {"ok", "no"}}
    [] rule = "intention" -> {El(NA, NA, g, x, NA, NA) : g \in {"ok", "no", "peer"}, x \in {"ok", "no"}}
    [] rule = "pq"        -> {El(NA, NA, NA, x, t, NA) : x \in {"ok", "no", "unnamed"}, t \in {"set", "empty"}}
    [] rule = "always"    -> {El(NA, NA, NA, NA, t, NA) : t \in {"set", "empty"}}
    [] rule = "acl"       -> {El(NA, NA, NA, NA, "set", NA)}
    [] rule = "key"       -> {El(NA, NA, NA, x, NA, NA) : x \in {"ok", "no"}}
    [] rule = "match"     -> {El(NA, NA, NA, x, NA, NA) : x \in {"ok", "no", "empty"}}
    [] rule = "txn"       -> {El(NA, NA, NA, x, NA, "kv") : x \in {"ok", "no"}}
                        \cup {El(n, NA, NA, NA, NA, "node") : n \in {"ok", "no"}}
                        \cup {El(NA, s, NA, NA, NA, "svc") : s \in {"ok", "no"}}
                        \cup {El(n, s, NA, NA, NA, "chk") : n \in {"ok", "no"}, s \in {"ok", "no", "empty"}}
    [] rule = "subsvc"    -> {El(NA, s, NA, NA, NA, NA) : s \in {"ok", "no"}}
    [] rule = "subchk"    -> {El(NA, s, NA, NA, NA, NA) : s \in {"ok", "no", "empty"}}

Limit(kind) ==
  IF kind \in SingleKinds THEN 1
  ELSE IF kind \in AclKinds THEN MaxBig
  ELSE IF Len(Keys(kind)) > 1 \/ kind \in DynKinds \/ SubRules(kind) # <<>> THEN MaxMid
  ELSE LET n == Cardinality(Els(Rule(kind, "list"))) IN IF n <= 2 THEN MaxSmall ELSE IF n <= 4 THEN MaxMid ELSE MaxBig

RECURSIVE SumItems(_)
SumItems(groups) == IF groups = <<>> THEN 0 ELSE Len(Head(groups).items) + SumLeaves(Head(groups).items) + SumItems(Tail(groups))
Size(cs) == SumItems(cs.groups)

AclLevels(kind) == IF kind \in AclKinds THEN {"none", "read", "write"}
                   ELSE IF kind \in {"IndexedPreparedQueries", "PreparedQueryOne"} THEN {"none", "write"} ELSE {"none"}
Heads(kind) == IF Headed(kind) THEN {"ok", "no", "nil"} ELSE {"na"}
DynKeys == <<"p1", "p2", "p3", "p4">>

\* prior: ResultsFilteredByACLs on entry (a re-used reply of a blocking query may carry "yes")
Priors(kind) == IF HasFlag(kind) THEN {"no", "yes"} ELSE {"na"}
NewCase(kind, acl, hd, prior) ==
  [kind |-> kind, acl |-> acl, prior |-> prior, groups |-> [i \in DOMAIN Keys(kind) |-> [key |-> Keys(kind)[i], hd |-> hd, items |-> <<>>]]]

\* index of the last group that has items (0: none); elements are appended there or later => one path per response
Cursor(groups) == IF \E i \in DOMAIN groups : groups[i].items # <<>>
                  THEN CHOOSE i \in DOMAIN groups : groups[i].items # <<>> /\ \A j \in DOMAIN groups : j > i => groups[j].items = <<>>
                  ELSE 0

AddEl(cs, gi, e) == [cs EXCEPT !.groups[gi].items = Append(@, e)]
LastIdx(cs, gi) == Len(cs.groups[gi].items)
SubCursor(e) == IF e.subs[2] # <<>> THEN 2 ELSE 1
AddLeaf(cs, gi, k, lf) == [cs EXCEPT !.groups[gi].items[LastIdx(cs, gi)].subs[k] = Append(@, lf)]

WithSubs(kind, e) == IF SubRules(kind) = <<>> THEN e ELSE [e EXCEPT !.subs = <<<<>>, <<>>>>]

FilterNext ==
  \/ /\ c = Start
     /\ \E kind \in AllKinds : \E acl \in AclLevels(kind) : \E hd \in Heads(kind) : \E pr \in Priors(kind) : c' = NewCase(kind, acl, hd, pr)
  \/ /\ c # Start /\ Size(c) < Limit(c.kind)
     /\ \/ \* a fresh element in the cursor group or a later one (for map types: the last entry only)
           \E gi \in DOMAIN c.groups :
              /\ gi >= Cursor(c.groups) /\ (c.kind \in DynKinds => gi = Len(c.groups))
              /\ (Headed(c.kind) => c.groups[gi].hd # "nil")
              /\ \E e \in Els(Rule(c.kind, c.groups[gi].key)) : c' = AddEl(c, gi, WithSubs(c.kind, e))
        \/ \* a duplicate of the last element (same value, same pointer)
           /\ Cursor(c.groups) > 0
           /\ LET gi == Cursor(c.groups)
                  e == c.groups[gi].items[LastIdx(c, gi)] IN
              /\ (c.kind \in DynKinds => gi = Len(c.groups))
              /\ Size(c) + 1 + LeafCount(e) <= Limit(c.kind)
              /\ c.kind \notin {"IndexedServices", "IndexedNodeServices"}     \* map keys are unique
              /\ c' = AddEl(c, gi, [e EXCEPT !.d = "yes"])
        \/ \* a leaf under the last node of a node dump
           /\ SubRules(c.kind) # <<>> /\ Cursor(c.groups) > 0
           /\ LET gi == Cursor(c.groups)
                  e == c.groups[gi].items[LastIdx(c, gi)] IN
              /\ e.d = "no"
              /\ \E k \in {1, 2} : /\ k >= SubCursor(e)
                                   /\ \E lf \in Els(SubRules(c.kind)[k]) : c' = AddLeaf(c, gi, k, lf)
  \/ \* a further map entry (possibly staying empty)
     /\ c # Start /\ c.kind \in DynKinds /\ Len(c.groups) < MaxGroups
     /\ c' = [c EXCEPT !.groups = Append(@, [key |-> DynKeys[Len(c.groups) + 1], hd |-> "na", items |-> <<>>])]

ExpiryNext ==
  \/ /\ ex = ExStart /\ \E cfg \in ExCfgs : ex' = ExInit(cfg) /\ hist' = <<>>
  \/ /\ ex # ExStart /\ Len(hist) < MaxOps
     /\ \E op \in ExOps : ExEnabled(ex, op) /\ ex' = ExApply(ex, op) /\ hist' = Append(hist, op)

Init == c = Start /\ ex = ExStart /\ hist = <<>>
Next == \/ Part \in {"filter", "both"} /\ ex = ExStart /\ FilterNext /\ UNCHANGED <<ex, hist>>
        \/ Part \in {"expiry", "both"} /\ c = Start /\ ExpiryNext /\ UNCHANGED c
Spec == Init /\ [][Next]_vars

(* ----- labels for the model: position, shared by duplicates ----- *)
RECURSIVE LabAt(_, _, _)
LabAt(items, i, pfx) == IF i > 1 /\ items[i].d = "yes" THEN LabAt(items, i - 1, pfx) ELSE pfx \o ToString(i)
LabelItems(items, pfx) ==
  [i \in DOMAIN items |->
     [items[i] EXCEPT !.lab = LabAt(items, i, pfx),
                      !.subs = [k \in DOMAIN items[i].subs |-> [j \in DOMAIN items[i].subs[k] |->
                                   [items[i].subs[k][j] EXCEPT !.lab = LabAt(items, i, pfx) \o "." \o ToString(k) \o "." \o ToString(j)]]]]]
Labelled(groups) == [i \in DOMAIN groups |-> [groups[i] EXCEPT !.items = LabelItems(groups[i].items, "e")]]

In == Labelled(c.groups)
Out == RefOut(c.kind, c.acl, In)

(* ----- properties on the model ----- *)
\* the reference filter satisfies the four predicates for every arrangement and raises the flag iff it removed something
InvRefConforms == c = Start \/ Judge(c.kind, c.acl, In, Out, c.prior, RefFlag(c.kind, c.acl, In)) = {}
\* the specified flag does not depend on the flag's value on entry; assignment conforms, raise-only is exactly the
\* conforming flag OR the prior value (so it is wrong precisely when prior = "yes" and nothing is removed)
InvFlagIgnoresPrior ==
  (c # Start /\ HasFlag(c.kind)) =>
     LET removed == Removed(c.kind, In, Out) /\ ~SilentOnly(c.kind, c.acl, In, Out)
         yn(b) == IF b THEN "yes" ELSE "no"
     IN /\ \A pr \in {"no", "yes"} : Judge(c.kind, c.acl, In, Out, pr, RefFlag(c.kind, c.acl, In)) = {}
        /\ yn(FlagAssigned(c.prior = "yes", removed)) = RefFlag(c.kind, c.acl, In)
        /\ (Removed(c.kind, In, Out) \/ c.prior = "no" \/
              Judge(c.kind, c.acl, In, Out, c.prior, yn(FlagRaiseOnly(c.prior = "yes", removed))) = {"FlagNotStale"})
\* the predicates are not vacuous: dropping / adding / swapping / mis-flagging is rejected
InvPredicatesBite ==
  c = Start \/ c.groups = <<>> \/
  LET g1 == In[1]
      o1 == Out[1]
      rest(o) == [i \in DOMAIN Out |-> IF i = 1 THEN o ELSE Out[i]]
      flag == RefFlag(c.kind, c.acl, In)
  IN /\ (Len(o1.items) > 0 /\ Rule(c.kind, g1.key) # "match" =>
           "NothingDropped" \in Judge(c.kind, c.acl, In, rest([o1 EXCEPT !.items = Tail(@)]), c.prior, flag))
     /\ (Len(o1.items) < Len(g1.items) /\ ~HeadGone(c.kind, g1) /\ Rule(c.kind, g1.key) # "match" =>
           "NothingUnreadable" \in Judge(c.kind, c.acl, In, rest([o1 EXCEPT !.items =
                 [i \in DOMAIN g1.items |-> [lab |-> g1.items[i].lab, tok |-> "na", subs |-> <<>>]]]), c.prior, flag))
     /\ (HasFlag(c.kind) => ({"FlagExact", "FlagNotStale"} \cap Judge(c.kind, c.acl, In, Out, c.prior, IF flag = "yes" THEN "no" ELSE "yes") # {}
                            \/ (SilentOnly(c.kind, c.acl, In, Out) /\ Removed(c.kind, In, Out))))
     /\ (Len(o1.items) >= 2 /\ o1.items[1].lab # o1.items[2].lab /\ Ordered(c.kind) /\ Rule(c.kind, g1.key) # "match" =>
           "OrderPreserved" \in Judge(c.kind, c.acl, In, rest([o1 EXCEPT !.items = <<o1.items[2], o1.items[1]>> \o SubSeq(o1.items, 3, Len(o1.items))]), c.prior, flag))
\* the loops of the code refine the declarative filter (splice-in-place, collect, span compaction), top level and leaves
InvLoopsRefine ==
  c = Start \/
  \A i \in DOMAIN In :
     /\ LoopsRefine(In[i].items, LAMBDA e : Readable(Rule(c.kind, In[i].key), c.acl, e))
     /\ \A j \in DOMAIN In[i].items : \A k \in DOMAIN In[i].items[j].subs :
          LoopsRefine(In[i].items[j].subs[k], LAMBDA lf : Readable(SubRules(c.kind)[k], c.acl, lf))
\* a per-entry flag must be accumulated: the conforming flag does not depend on the visit order, the coded one does
InvExportedFlag ==
  (c # Start /\ c.kind = "IndexedExportedServiceList") =>
     LET rem == [i \in DOMAIN In |-> Len(Out[i].items) < Len(In[i].items)] IN
     (ExportedFlagConforming(rem) <=> RefFlag(c.kind, c.acl, In) = "yes")
InvExpired == ExpiredNeverHonoured(ex)
InvValid == ex = ExStart \/ ValidHonoured(ex)
\* the anonymous mask can only clear the flag
InvMask == \A f \in {"yes", "no"} : \A who \in {"none", "anonymous", "unresolvable", "token"} : (Mask(f, who) = "yes" => f = "yes")

(* ----- generation ----- *)
EmitCase == IF c' = c \/ c' = Start THEN TRUE ELSE PrintT(<<"TRACE", ToJson(c')>>)
EmitCaseProp == [][EmitCase]_vars
View == <<c, ex>>
EmitHist == IF hist' = hist \/ hist' = <<>> THEN TRUE ELSE PrintT(<<"TRACE", ToJson([cfg |-> ex'.cfg, ops |-> hist'])>>)
EmitHistProp == [][EmitHist]_vars
=============================================================================
