SPECIFICATION Spec
CONSTANTS
  MaxFaults = 2
  Tracks = TRUE
  Empties = {TRUE, FALSE}
VIEW View
INVARIANTS InvClassMC InvAcceptedSameMC InvNotHandedToRestoreMC InvNoFaultAccepted
CHECK_DEADLOCK FALSE
