------------------------------ MODULE Archive ------------------------------
(* C20 - snapshot archives: exact round trip, corruption always detected.     *)
(*                                                                            *)
(* TLA+ does not model bytes.  An archive is a SEQUENCE OF REGIONS; the spec  *)
(* supplies (1) the partition of the byte space into regions, (2) the fault   *)
(* actions on that region map and (3) the outcome class REQUIRED by the       *)
(* property for every faulted archive.  The Go harness (h-snap) supplies the  *)
(* exhaustive byte positions inside each region and records what the real     *)
(* snapshot.Verify / snapshot.Read / snapshot.Restore / read() did.           *)
(*                                                                            *)
(*   tar level (snapshot/archive.go write):                                   *)
(*      per member  hdr(name,size) . content . pad      (512-byte blocks)     *)
(*      then        eoa   (end-of-archive: two zero blocks)                   *)
(*   gzip level (snapshot/snapshot.go New):                                   *)
(*      gzhdr . deflate . gztrl(crc32,isize)                                  *)
(*                                                                            *)
(* Functional style: an abstract archive is one record `a`, every fault is    *)
(* Apply(a, f); Class(a)/Reasons(a) is the property; Outcomes(a, tracks) is   *)
(* the model of the reader.  No variables here (ArchiveMC / ArchiveTrace      *)
(* extend this module).                                                       *)
EXTENDS Integers, Sequences, FiniteSets

\* ---------------------------------------------------------------- regions
\* k : region kind   hdr | content | pad | eoa | gzhdr | deflate | gztrl
\* m : member        meta | state | sums | x (unexpected name) | -
\* d : damage        ok | flip | neutral | cut
\*     "neutral" exists only for the content of SHA256SUMS: bytes changed but the
\*     listing still decodes to the same lines (hex letter case, white space).
\* ls: only for the content of SHA256SUMS: the checksum LINES it decodes to, in order.
\*     A line is [n, dg]: n = member it names (meta | state | x = anything else, also an
\*     unparseable line), dg = ok (the SHA-256 of that member as it was saved) | wrong.
R(k, m, d) == [k |-> k, m |-> m, d |-> d, ls |-> <<>>]
Ln(n, dg) == [n |-> n, dg |-> dg]
Junk == Ln("x", "wrong")
Triple(m) == <<R("hdr", m, "ok"), R("content", m, "ok"), R("pad", m, "ok")>>
Eoa == R("eoa", "-", "ok")
Other(n) == IF n = "meta" THEN "state" ELSE "meta"
\* hashList.Encode ranges over a Go map: either member may be listed first
SumsTriple(first) == <<R("hdr", "sums", "ok"),
                       [R("content", "sums", "ok") EXCEPT !.ls = <<Ln(first, "ok"), Ln(Other(first), "ok")>>],
                       R("pad", "sums", "ok")>>

\* archive.go write(): meta.json, state.bin, SHA256SUMS, then tar.Writer.Close
ValidTarF(first) == Triple("meta") \o Triple("state") \o SumsTriple(first) \o <<Eoa>>
ValidTar == ValidTarF("meta")
\* snapshot.go New(): gzip.NewWriter around write()
ValidGz == <<R("gzhdr", "-", "ok"), R("deflate", "-", "ok"), R("gztrl", "-", "ok")>>

\* empty = the state payload has length 0 (its content and pad regions hold no bytes)
ValidF(wrap, empty, first) ==
  [wrap |-> wrap, empty |-> empty, first |-> first, tar |-> ValidTarF(first),
   gz |-> IF wrap = "gz" THEN ValidGz ELSE <<>>,
   trunc |-> FALSE,      \* the tar stream has been cut: no structural fault afterwards
   gzphase |-> FALSE]    \* a fault hit the compressed bytes: no tar-level fault afterwards
Valid(wrap, empty) == ValidF(wrap, empty, "meta")

\* ---------------------------------------------------------------- faults
Fault(t, i, src, k, m, fx, perm) == [t |-> t, i |-> i, src |-> src, k |-> k, m |-> m, fx |-> fx, perm |-> perm]

NMembers(a) == (Len(a.tar) - 1) \div 3               \* only used while ~a.trunc
Group(t, j) == SubSeq(t, 3 * j - 2, 3 * j)
Range(s) == {s[i] : i \in DOMAIN s}

Swaps(n) == {[x \in 1..n |-> IF x = p[1] THEN p[2] ELSE IF x = p[2] THEN p[1] ELSE x] : p \in {q \in (1..n) \X (1..n) : q[1] < q[2]}}
Perms(n) == IF n = 3 THEN Swaps(3) \cup {<<2, 3, 1>>, <<3, 1, 2>>} ELSE Swaps(n)

IsSums(r) == r.k = "content" /\ r.m = "sums"
RemoveAt(q, j) == SubSeq(q, 1, j - 1) \o SubSeq(q, j + 1, Len(q))
InsertAfter(q, j, x) == SubSeq(q, 1, j) \o <<x>> \o SubSeq(q, j + 1, Len(q))

\* Flip(region): one byte of the region is XOR-ed with a non-zero pattern.  Inside SHA256SUMS the
\* flip is labelled with its effect on the decoded lines (reference decoder in the harness):
\*   neutral         same lines          wrong(j)  line j keeps its name, digest no longer the saved one
\*   x(j)            line j no longer names an expected member / does not parse
\*   ok(j)           a wrong digest of line j becomes the saved one again
\*   drop(j)         line j disappears (the line feed before it became other white space)
SumsFlipFaults(i, r) ==
     {Fault("flip", i, 0, r.k, r.m, "neutral", <<>>)}
  \cup {Fault("flip", i, j, r.k, r.m, "wrong", <<>>) : j \in {x \in 1..Len(r.ls) : r.ls[x].n # "x" /\ r.ls[x].dg = "ok"}}
  \cup {Fault("flip", i, j, r.k, r.m, "x", <<>>) : j \in {x \in 1..Len(r.ls) : r.ls[x].n # "x"}}
  \cup {Fault("flip", i, j, r.k, r.m, "ok", <<>>) : j \in {x \in 1..Len(r.ls) : r.ls[x].n # "x" /\ r.ls[x].dg = "wrong"}}
  \cup {Fault("flip", i, j, r.k, r.m, "drop", <<>>) : j \in 2..Len(r.ls)}
FlipFaults(a) ==
  UNION {LET r == a.tar[i] IN
         IF r.d = "cut" THEN {}
         ELSE IF IsSums(r) THEN SumsFlipFaults(i, r)
         ELSE {Fault("flip", i, 0, r.k, r.m, "", <<>>)}
         : i \in 1..Len(a.tar)}
\* Faults on the LINES of SHA256SUMS (the member is re-framed: size field, header checksum and
\* padding are those of a well-formed member with the new text), on an untouched member only:
\*   dup(j)       line j written twice            copy(j<-k)  line j replaced by a copy of line k
\*   swap(j,k)    two lines exchanged             drop(j)     line j removed
\*   addx         a line for a file that is not in the archive appended
\*   addwrong(j)  a second line for the member of line j, with a different digest, appended
LineFaults(a) ==
  UNION {LET r == a.tar[i]  n == Len(r.ls) IN
         IF ~(IsSums(r) /\ r.d = "ok" /\ a.tar[i - 1].d = "ok" /\ a.tar[i + 1].d = "ok") THEN {}
         ELSE {Fault("sumsline", i, j, r.k, r.m, "dup", <<>>) : j \in 1..n}
         \cup {Fault("sumsline", i, p[1], r.k, r.m, "copy", <<p[2]>>) : p \in {q \in (1..n) \X (1..n) : r.ls[q[1]] # r.ls[q[2]]}}
         \cup {Fault("sumsline", i, p[1], r.k, r.m, "swap", <<p[2]>>) : p \in {q \in (1..n) \X (1..n) : q[1] < q[2] /\ r.ls[q[1]] # r.ls[q[2]]}}
         \cup {Fault("sumsline", i, j, r.k, r.m, "drop", <<>>) : j \in 1..n}
         \cup {Fault("sumsline", i, 0, r.k, r.m, "addx", <<>>)}
         \cup {Fault("sumsline", i, j, r.k, r.m, "addwrong", <<>>) : j \in {x \in 1..n : r.ls[x].n # "x"}}
         : i \in 2..(Len(a.tar) - 1)}
\* Truncate inside region i (at least one byte of it kept, at least one dropped)
TruncInFaults(a) == {Fault("truncin", i, 0, a.tar[i].k, a.tar[i].m, "", <<>>) : i \in {j \in 1..Len(a.tar) : a.tar[j].d # "cut"}}
\* Truncate at the boundary after region i (i = 0: empty file); label = first region dropped
TruncAtFaults(a) == {Fault("truncat", i, 0, a.tar[i + 1].k, a.tar[i + 1].m, "", <<>>) : i \in 0..(Len(a.tar) - 1)}
RemoveFaults(a) == {Fault("remove", j, 0, "member", a.tar[3 * j - 2].m, "", <<>>) : j \in 1..NMembers(a)}
ReorderFaults(a) == {Fault("reorder", 0, 0, "member", "-", "", p) : p \in Perms(NMembers(a))}
\* Inject before member i (i = n+1: before the end-of-archive blocks); src = 0: a member with
\* an unexpected name, src = j: a byte copy of member j as it currently is
InjectFaults(a) ==
  {Fault("inject", i, s, "member", IF s = 0 THEN "x" ELSE a.tar[3 * s - 2].m, "", <<>>)
     : i \in 1..(NMembers(a) + 1), s \in 0..NMembers(a)}
GzFlipFaults(a) == {Fault("gzflip", i, 0, a.gz[i].k, "-", "", <<>>) : i \in {j \in 1..Len(a.gz) : a.gz[j].d # "cut"}}
GzTruncInFaults(a) == {Fault("gztruncin", i, 0, a.gz[i].k, "-", "", <<>>) : i \in {j \in 1..Len(a.gz) : a.gz[j].d # "cut"}}
GzTruncAtFaults(a) == {Fault("gztruncat", i, 0, a.gz[i + 1].k, "-", "", <<>>) : i \in 0..(Len(a.gz) - 1)}

Faults(a) ==
     (IF a.gzphase THEN {} ELSE
        FlipFaults(a) \cup TruncInFaults(a) \cup TruncAtFaults(a)
        \cup (IF a.trunc THEN {} ELSE RemoveFaults(a) \cup ReorderFaults(a) \cup InjectFaults(a) \cup LineFaults(a)))
  \cup (IF a.wrap = "gz" THEN GzFlipFaults(a) \cup GzTruncInFaults(a) \cup GzTruncAtFaults(a) ELSE {})

SetD(s, i, d) == [s EXCEPT ![i] = [@ EXCEPT !.d = d]]
Concat(gs, n) == LET RECURSIVE C(_) C(j) == IF j > n THEN <<>> ELSE gs[j] \o C(j + 1) IN C(1)

Apply(a, f) ==
  CASE f.t = "flip" ->
         LET r == a.tar[f.i] IN
         IF ~IsSums(r) THEN [a EXCEPT !.tar = SetD(a.tar, f.i, "flip")]
         ELSE LET ls2 == CASE f.fx = "wrong" -> [r.ls EXCEPT ![f.src] = Ln(@.n, "wrong")]
                           [] f.fx = "x"     -> [r.ls EXCEPT ![f.src] = Junk]
                           [] f.fx = "ok"    -> [r.ls EXCEPT ![f.src] = Ln(@.n, "ok")]
                           [] f.fx = "drop"  -> RemoveAt(r.ls, f.src)
                           [] OTHER          -> r.ls
                  d2  == IF f.fx = "neutral" THEN (IF r.d = "ok" THEN "neutral" ELSE r.d) ELSE "flip"
              IN [a EXCEPT !.tar = [a.tar EXCEPT ![f.i] = [r EXCEPT !.d = d2, !.ls = ls2]]]
    [] f.t = "sumsline" ->
         LET r == a.tar[f.i]
             ls2 == CASE f.fx = "dup"      -> InsertAfter(r.ls, f.src, r.ls[f.src])
                      [] f.fx = "copy"     -> [r.ls EXCEPT ![f.src] = r.ls[f.perm[1]]]
                      [] f.fx = "swap"     -> [r.ls EXCEPT ![f.src] = r.ls[f.perm[1]], ![f.perm[1]] = r.ls[f.src]]
                      [] f.fx = "drop"     -> RemoveAt(r.ls, f.src)
                      [] f.fx = "addx"     -> Append(r.ls, Junk)
                      [] OTHER             -> Append(r.ls, Ln(r.ls[f.src].n, "wrong"))
         IN [a EXCEPT !.tar = [a.tar EXCEPT ![f.i] = [r EXCEPT !.ls = ls2]]]
    [] f.t = "truncin" -> [a EXCEPT !.tar = SetD(SubSeq(a.tar, 1, f.i), f.i, "cut"), !.trunc = TRUE]
    [] f.t = "truncat" -> [a EXCEPT !.tar = SubSeq(a.tar, 1, f.i), !.trunc = TRUE]
    [] f.t = "remove"  -> [a EXCEPT !.tar = SubSeq(a.tar, 1, 3 * f.i - 3) \o SubSeq(a.tar, 3 * f.i + 1, Len(a.tar))]
    [] f.t = "reorder" -> LET n == NMembers(a) IN
                          [a EXCEPT !.tar = Concat([j \in 1..n |-> Group(a.tar, f.perm[j])], n) \o <<a.tar[Len(a.tar)]>>]
    [] f.t = "inject"  -> LET g == IF f.src = 0 THEN Triple("x") ELSE Group(a.tar, f.src) IN
                          [a EXCEPT !.tar = SubSeq(a.tar, 1, 3 * f.i - 3) \o g \o SubSeq(a.tar, 3 * f.i - 2, Len(a.tar))]
    [] f.t = "gzflip"    -> [a EXCEPT !.gz = SetD(a.gz, f.i, "flip"), !.gzphase = TRUE]
    [] f.t = "gztruncin" -> [a EXCEPT !.gz = SetD(SubSeq(a.gz, 1, f.i), f.i, "cut"), !.gzphase = TRUE]
    [] f.t = "gztruncat" -> [a EXCEPT !.gz = SubSeq(a.gz, 1, f.i), !.gzphase = TRUE]

ApplyAll(a, fs) == LET RECURSIVE G(_, _) G(x, j) == IF j > Len(fs) THEN x ELSE G(Apply(x, fs[j]), j + 1) IN G(a, 1)
\* every fault of the list was enabled when it was applied (used against harness/model drift)
Applicable(a, fs) ==
  LET RECURSIVE G(_, _) G(x, j) == IF j > Len(fs) THEN TRUE ELSE fs[j] \in Faults(x) /\ G(Apply(x, fs[j]), j + 1) IN G(a, 1)

\* ---------------------------------------------------------------- the property
HdrIdx(t) == {i \in 1..Len(t) : t[i].k = "hdr"}
Names(t) == {t[i].m : i \in HdrIdx(t)}
HasContent(t, i) == i + 1 <= Len(t) /\ t[i + 1].k = "content"
\* member starting at hdr i is incomplete: the stream ends inside its header or its data
Incomplete(a, i) ==
  LET t == a.tar IN
  \/ t[i].d = "cut"
  \/ (HasContent(t, i) /\ t[i + 1].d = "cut")
  \/ (~HasContent(t, i) /\ ~(a.empty /\ t[i].m = "state"))
Readable(t) == {i \in 1..Len(t) : IsSums(t[i]) /\ t[i].d # "cut"}
Listed(t, m) == \E i \in Readable(t) : \E j \in 1..Len(t[i].ls) : t[i].ls[j] = Ln(m, "ok")

\* Why the statement demands rejection (empty set: it does not)
Reasons(a) ==
  LET t == a.tar IN
     (IF \E i \in HdrIdx(t) : Incomplete(a, i) THEN {"cut-inside-member"} ELSE {})       \* cut short before its last member is complete
  \cup (IF "meta" \notin Names(t) THEN {"lacks:meta"} ELSE {})                              \* lacks a member ...
  \cup (IF "state" \notin Names(t) THEN {"lacks:state"} ELSE {})
  \cup (IF "sums" \notin Names(t) THEN {"lacks:sums"} ELSE {})                              \* ... or its checksum
  \cup (IF "x" \in Names(t) THEN {"unexpected-member"} ELSE {})                             \* contains an unexpected member
  \cup (IF \E i \in 1..Len(t) : t[i].k = "content" /\ t[i].m = "meta" /\ t[i].d = "flip" THEN {"altered:meta"} ELSE {})
  \cup (IF \E i \in 1..Len(t) : t[i].k = "content" /\ t[i].m = "state" /\ t[i].d = "flip" THEN {"altered:state"} ELSE {})
  \* no (complete) copy of the checksum list has a line with the saved digest of the member:
  \* the archive lacks that member's checksum, the member is unprotected
  \cup (IF Readable(t) # {} /\ ~Listed(t, "meta") THEN {"lacks-checksum:meta"} ELSE {})
  \cup (IF Readable(t) # {} /\ ~Listed(t, "state") THEN {"lacks-checksum:state"} ELSE {})
  \* GzTrailerRequired (named strengthening, RFC 1952): a gzip member whose CRC32/ISIZE trailer is
  \* missing, incomplete or altered is corrupt; whatever was decoded before is tentative
  \cup (IF a.wrap = "gz" /\ (Len(a.gz) < 3 \/ \E i \in 1..Len(a.gz) : a.gz[i].d = "cut") THEN {"gz-cut"} ELSE {})
  \cup (IF a.wrap = "gz" /\ Len(a.gz) = 3 /\ a.gz[3].d = "flip" THEN {"gz-trailer-altered"} ELSE {})

Pristine(a) == a.tar = ValidTarF(a.first) /\ a.gz = (IF a.wrap = "gz" THEN ValidGz ELSE <<>>)

\* MustReject       : rejected, never handed to restore
\* MustAcceptSame   : accepted, extracted state byte-identical, metadata equal
\* RejectOrSame     : the statement is silent on acceptance (padding, tar header fields, order,
\*                    duplicates, trailing zero blocks, cut exactly after the last member, gzip
\*                    header / deflate bits) - but NEVER "accepted with a different extraction"
Class(a) == IF Reasons(a) # {} THEN "MustReject" ELSE IF Pristine(a) THEN "MustAcceptSame" ELSE "RejectOrSame"
Allowed(c) == CASE c = "MustReject" -> {"rejected"} [] c = "MustAcceptSame" -> {"same"} [] OTHER -> {"rejected", "same"}

\* ---------------------------------------------------------------- model of the reader
\* Transcription of archive.go read() + hashList.DecodeAndVerify over regions, with archive/tar's
\* Reader.Next and compress/gzip's Reader as far as they matter.  A flip in a header / gzip field is
\* resolved non-deterministically (the tar checksum, a changed name or size rejects; a don't-care
\* field is ignored).  SHA-256 is assumed collision free: a hash matches iff the hashed bytes are
\* the original bytes.  tracks = TRUE: the reader also requires that every expected member was SEEN
\* (the property-conforming reader); tracks = FALSE: as archive.go did before the fix (hashes of the two
\* expected names are pre-registered, so a missing empty state.bin hashes like a present one).
Rej == [res |-> "rejected", state |-> <<>>, meta |-> "none"]
RS0 == [metaIn |-> <<>>, snapOut |-> <<>>, sha |-> <<>>]

\* hashList.DecodeAndVerify after the tar loop ended with io.EOF
Done(a, s, tracks) ==
  LET metaOK  == s.metaIn = <<"ok">>                                               \* meta.json is never empty
      stateOK == (\A j \in 1..Len(s.snapOut) : s.snapOut[j] = "ok") /\ (Len(s.snapOut) = 1 \/ a.empty)
      hashOK(n) == IF n = "meta" THEN metaOK ELSE stateOK
      \* every line must name a registered hash and carry exactly the digest of what was read ...
      linesOK == \A j \in 1..Len(s.sha) : s.sha[j].n # "x" /\ s.sha[j].dg = "ok" /\ hashOK(s.sha[j].n)
      \* ... and every registered hash must have been listed ("file missing for")
      listed  == \A n \in {"meta", "state"} : \E j \in 1..Len(s.sha) : s.sha[j].n = n
      seen    == ~tracks \/ (Len(s.snapOut) >= 1 /\ Len(s.metaIn) >= 1)
  IN IF linesOK /\ listed /\ metaOK /\ stateOK /\ seen
     THEN [res |-> "accepted", state |-> s.snapOut, meta |-> s.metaIn[Len(s.metaIn)]]
     ELSE Rej

FeedSums(s, r) == [s EXCEPT !.sha = @ \o r.ls]              \* io.Copy(&shaBuffer, archive): the copies are concatenated
Feed(s, m, d) ==
  CASE m = "meta"  -> [s EXCEPT !.metaIn = Append(@, d)]     \* io.ReadAll(io.TeeReader(archive, metaHash)); json.Unmarshal
    [] m = "state" -> [s EXCEPT !.snapOut = Append(@, d)]    \* io.Copy(io.MultiWriter(snap, snapHash), archive)
    [] OTHER       -> s                                      \* SHA256SUMS: see FeedSums

RECURSIVE Scan(_, _, _, _)
Scan(a, i, s, tracks) ==
  LET t == a.tar IN
  IF i > Len(t) THEN {Done(a, s, tracks)}                    \* tar.Reader.Next: exactly 0 bytes left = io.EOF
  ELSE LET r == t[i] IN
    CASE r.k = "eoa" -> (IF r.d = "ok" THEN {Done(a, s, tracks)}
                         ELSE IF r.d = "flip" THEN {Rej}                  \* non-zero block fails the header checksum
                         ELSE {Rej, Done(a, s, tracks)})                  \* one whole zero block = EOF, a partial one = ErrUnexpectedEOF
      [] r.k = "hdr" ->
           IF r.d = "cut" THEN {Rej}
           ELSE LET body ==
                      IF r.m = "x" THEN {Rej}                                              \* default: unexpected file
                      ELSE IF ~HasContent(t, i)
                           THEN (IF a.empty /\ r.m = "state" THEN Scan(a, i + 1, Feed(s, r.m, "ok"), tracks) ELSE {Rej})
                      ELSE IF t[i + 1].d = "cut" THEN {Rej}
                      ELSE LET s2 == IF r.m = "sums" THEN FeedSums(s, t[i + 1]) ELSE Feed(s, r.m, t[i + 1].d) IN
                           IF i + 2 <= Len(t) /\ t[i + 2].k = "pad"
                           THEN (IF t[i + 2].d = "cut" THEN {Rej} ELSE Scan(a, i + 3, s2, tracks))   \* pad bytes are skipped unread
                           ELSE {Rej} \cup Scan(a, i + 2, s2, tracks)                                 \* pad missing: fine iff it was 0 bytes long
                IN IF r.d = "flip" THEN {Rej} \cup body ELSE body
      [] OTHER -> {Rej}

TarOutcomes(a, tracks) == Scan(a, 1, RS0, tracks)

\* snapshot.go Verify / Read: gzip.NewReader, read(), concludeGzipRead
Outcomes(a, tracks) ==
  IF a.wrap = "plain" THEN TarOutcomes(a, tracks)
  ELSE IF Len(a.gz) < 3 \/ \E i \in 1..Len(a.gz) : a.gz[i].d = "cut" THEN {Rej}      \* io.ErrUnexpectedEOF / EOF
  ELSE IF a.gz[3].d = "flip" THEN {Rej}                                               \* gzip.ErrChecksum at the end of the stream
  ELSE (IF a.gz[1].d = "flip" \/ a.gz[2].d = "flip" THEN {Rej} ELSE {}) \cup TarOutcomes(a, tracks)

OutcomeKind(a, o) ==
  IF o.res = "rejected" THEN "rejected"
  ELSE IF o.meta = "ok" /\ (\A j \in 1..Len(o.state) : o.state[j] = "ok") /\ (Len(o.state) = 1 \/ a.empty) THEN "same"
  ELSE "different"

\* snapshot.go Restore: Read, and only if it succeeded r.Restore(metadata, snap, 0)
RestoreModel(a, tracks) == {[read |-> OutcomeKind(a, o), raftRestore |-> o.res = "accepted"] : o \in Outcomes(a, tracks)}

\* ---------------------------------------------------------------- invariants (on an abstract archive)
InvClass(a, tracks) == {OutcomeKind(a, o) : o \in Outcomes(a, tracks)} \subseteq Allowed(Class(a))
InvAcceptedSame(a, tracks) == \A o \in Outcomes(a, tracks) : OutcomeKind(a, o) # "different"
InvNotHandedToRestore(a, tracks) == \A r \in RestoreModel(a, tracks) : r.raftRestore => r.read = "same"
=============================================================================
