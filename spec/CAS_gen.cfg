SPECIFICATION Spec
CONSTANTS
  Kinds = {"set"}
  MaxSteps = 4
PROPERTIES EmitProp
CHECK_DEADLOCK FALSE
