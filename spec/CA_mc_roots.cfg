SPECIFICATION Spec
CONSTANTS
  Profile = "roots"
  MaxDepth = 3
  Universe = "full"
VIEW View
INVARIANTS InvOneActive
PROPERTIES PropIssue PropSerial PropRootSetAtomic PropReconf PropRotate
CHECK_DEADLOCK FALSE
