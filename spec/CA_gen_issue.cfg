SPECIFICATION Spec
CONSTANTS
  Profile = "issue"
  MaxDepth = 3
  Universe = "full"
VIEW View
INVARIANTS InvOneActive
PROPERTIES PropIssue PropSerial PropRootSetAtomic PropReconf PropRotate EmitProp
CHECK_DEADLOCK FALSE
