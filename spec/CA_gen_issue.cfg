SPECIFICATION Spec
CONSTANTS
  Profile = "issue"
  MaxDepth = 3
  Universe = "full"
VIEW View
PROPERTIES EmitProp
CHECK_DEADLOCK FALSE
