------------------------------- MODULE CASGen -------------------------------
EXTENDS CAS, Json
Emit == PrintT(<<"TRACE", ToJson(hist')>>)
EmitProp == [][Emit]_<<cell, n, hist, last>>
=============================================================================
