------------------------- MODULE BlockingQueryTrace -------------------------
(* C06, loop half, on REAL blocking RPCs (h-bq).  One event per write; per read of the battery:   *)
(*   i0,r0  index / result digest of the non-blocking read before the write                        *)
(*   bi,br,ms  what the call parked with MinQueryIndex = i0, MaxQueryTime = T returned, after ms    *)
(*   i1,r1  the non-blocking read after everything                                                  *)
(* A parked call that comes back clearly before T was woken; one that comes back at T or later      *)
(* timed out (the server adds up to T/16 jitter); in between nothing is judged.                     *)
EXTENDS Integers, Sequences, FiniteSets, SequencesExt, TLC, Json
Trace == ndJsonDeserialize("trace.ndjson")
VARIABLE l
Early(e, o) == 10 * o.ms < 8 * e.T
TimedOut(e, o) == o.ms >= e.T
Bad(e, o) ==
     (IF o.r1 # o.r0 /\ TimedOut(e, o) THEN {"change-not-returned:" \o o.fam} ELSE {})
  \* (a returned index below the final one means a later write followed: nothing to compare)
  \cup (IF o.r1 # o.r0 /\ Early(e, o) /\ ~o.berr /\ o.bi = o.i1 /\ o.br # o.r1 THEN {"returned-stale-result:" \o o.fam} ELSE {})
  \cup (IF Early(e, o) /\ ~o.berr /\ ~(o.bi > o.i0) THEN {"returned-without-larger-index:" \o o.fam} ELSE {})
  \cup (IF o.i0 < 1 \/ o.i1 < 1 \/ (~o.berr /\ o.bi < 1) THEN {"zero-index:" \o o.fam} ELSE {})
  \cup (IF o.berr THEN {"blocked-call-error:" \o o.fam} ELSE {})
Verdict(i) == LET e == Trace[i] IN UNION {Bad(e, e.reads[j]) : j \in DOMAIN e.reads}
TInit == l = 1
TNext == /\ l <= Len(Trace)
         /\ LET v == Verdict(l) IN IF v = {} THEN TRUE ELSE PrintT(<<"REJECT", l, v>>)
         /\ l' = l + 1
TSpec == TInit /\ [][TNext]_l
=============================================================================
