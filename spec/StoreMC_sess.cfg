SPECIFICATION Spec
CONSTANTS
  Profile = "sess"
  MaxDepth = 3
VIEW View
INVARIANTS InvLock InvOrphans InvSessChecks
PROPERTIES PropEndsCascade PropCreateIndexStable PropModifyIndexRule
CHECK_DEADLOCK FALSE
