-------------------------- MODULE ResourceStoreMC --------------------------
(* Bounded exhaustive exploration of the sequential specification            *)
(* ResourceStore (2 names x 2 tenancies, delete / re-create, snapshot and     *)
(* restore, one watcher): validates the specification's own properties.      *)
EXTENDS ResourceStore

CONSTANTS MaxOps, MaxOpens

VARIABLES st,     \* ResourceStore state
          nvc,    \* version counter (the backend's atomic counter / raft index)
          snap,   \* <<>> or <<set of resources>> : the snapshot taken earlier
          wt,     \* <<>> or <<watch>>  : the watcher
          view,   \* the watcher's materialised view  [Keys -> slot]
          opens,  \* number of watches opened
          depth,  \* number of commands applied
          last    \* <<>> or <<cmd>> : command of the last step (hidden by VIEW)
vars == <<st, nvc, snap, wt, view, opens, depth, last>>

K(p, n, nm) == [p |-> p, n |-> n, name |-> nm]
k1 == K("default", "default", <<1>>)
k2 == K("default", "default", <<1, 2>>)
k3 == K("default", "n2", <<1>>)
k4 == K("default", "n2", <<1, 2>>)
TheKeys == {k1, k2, k3, k4}
Uids == {"u1", "u2"}
Queries == {[p |-> "default", n |-> nn, pre |-> pr] : nn \in {"default", "*"}, pr \in {<<>>, <<1, 2>>}}
OwnerOf(k) == IF k = k2 THEN {<<>>, <<[k |-> k1, uid |-> "u1"]>>} ELSE {<<>>}
Vers(s, k) == {""} \cup VersionsOf(s, k)

Cmds(s) ==
       UNION {{[t |-> "write", k |-> k, uid |-> u, pv |-> v, d |-> 1, own |-> o] : u \in Uids, v \in Vers(s, k), o \in OwnerOf(k)} : k \in TheKeys}
  \cup UNION {{[t |-> "delete", k |-> k, uid |-> u, pv |-> v] : u \in Uids, v \in Vers(s, k)} : k \in TheKeys}
  \cup (IF snap = <<>> THEN {[t |-> "snapshot"]} ELSE {[t |-> "restore", rs |-> snap[1]]})

Init == /\ st = InitState(TheKeys) /\ nvc = 1 /\ snap = <<>> /\ wt = <<>>
        /\ view = [k \in TheKeys |-> <<>>] /\ opens = 0 /\ depth = 0 /\ last = <<>>

DoCmd == /\ depth < MaxOps
         /\ \E c \in Cmds(st) :
              LET r == Apply(st, c, ToString(nvc)) IN
              /\ r.res.t # "never"
              /\ st' = r.st
              /\ nvc' = IF c.t = "write" /\ r.res.t = "ok" THEN nvc + 1 ELSE nvc
              /\ snap' = IF c.t = "snapshot" THEN <<r.res.rs>> ELSE snap
              /\ last' = <<c>>
         /\ depth' = depth + 1
         /\ UNCHANGED <<wt, view, opens>>

OpenWatch == /\ opens < MaxOpens
             /\ \E q \in Queries :
                  /\ wt' = <<WatchTake(st, q)>>
                  /\ view' = [k \in TheKeys |-> IF Matches(q, k) THEN st.res[k] ELSE <<>>]
             /\ opens' = opens + 1 /\ last' = <<>>
             /\ UNCHANGED <<st, nvc, snap, depth>>

Deliver == /\ wt # <<>>
           /\ \E k \in TheKeys :
                /\ HasNext(st, wt[1], k)
                /\ LET e == NextEntry(st, wt[1], k) IN
                     view' = [view EXCEPT ![k] = IF e.kind = "upsert" THEN e.r ELSE <<>>]
                /\ wt' = <<Advance(wt[1], k)>>
           /\ last' = <<>>
           /\ UNCHANGED <<st, nvc, snap, opens, depth>>

Next == DoCmd \/ OpenWatch \/ Deliver
Spec == Init /\ [][Next]_vars
View == <<st, nvc, snap, wt, view, opens, depth>>

---------------------------------------------------------------------------
InvCAS == OneWinnerPerVersion(st) /\ UidStablePerLifetime(st) /\ VersionsFresh(st) /\ LogAgrees(st)

\* WatchComplete & Ordered: folding the initial listing and the delivered events gives, for every
\* matching resource, exactly its state at the watcher's position; once caught up, the current state.
InvWatchView == wt # <<>> => \A k \in TheKeys : Matches(wt[1].q, k) => view[k] = PostAt(st, k, wt[1].cur[k])
InvWatchComplete == (wt # <<>> /\ CaughtUp(st, wt[1])) => \A k \in TheKeys : Matches(wt[1].q, k) => view[k] = st.res[k]
\* ReadAfterEventMonotone: a sequential Read returns the current state, which is never older than
\* anything the watcher has been told
InvReadAfterEvent == wt # <<>> => \A k \in TheKeys : Matches(wt[1].q, k) => NotOlder(st, wt[1], k, st.res[k])
\* reads agree with each other
InvReads == \A k \in TheKeys :
   /\ (Read(st, [k |-> k, uid |-> ""]).res.t = "ok") = (Full(k, IF Present(st, k) THEN Cur(st, k) ELSE [uid |-> "", ver |-> "", d |-> 0, own |-> <<>>]) \in AllOf(st))
   /\ \A q \in Queries : ListOf(st, q) \subseteq AllOf(st)
   /\ OwnedBy(st, k1, "u1") \subseteq AllOf(st)

PropStale == [][last' # <<>> => StaleCannotTouch(st, last'[1], st')]_vars
PropOnlyCmdsChange == [][last' = <<>> => st' = st]_vars
=============================================================================
