SPECIFICATION Spec
CONSTANTS
  MaxOps = 3
  MaxOpens = 1
VIEW View
INVARIANTS InvCAS InvWatchView InvWatchComplete InvReadAfterEvent InvReads
PROPERTIES PropStale PropOnlyCmdsChange
CHECK_DEADLOCK FALSE
