\* edge-mode generation from the model of the code as it is: one history per transition
SPECIFICATION Spec
CONSTANTS
  NC = 1
  MaxCommits = 2
  MaxSubs = 2
  MaxRestores = 0
  Profile = "one"
  GGap = FALSE
  GRestore = FALSE
  Ttls = {FALSE}
VIEW View
PROPERTIES EmitProp
CHECK_DEADLOCK FALSE
