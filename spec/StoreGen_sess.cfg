SPECIFICATION Spec
CONSTANTS
  Profile = "sess"
  MaxDepth = 3
VIEW View
PROPERTIES EmitProp
CHECK_DEADLOCK FALSE
