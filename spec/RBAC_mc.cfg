SPECIFICATION Spec
CONSTANTS
  AsCoded = FALSE
  Profile = "src"
  WithPeerWild = FALSE
  MaxN = 3
INVARIANTS InvKeys Enforces
CHECK_DEADLOCK FALSE
