SPECIFICATION Spec
CONSTANTS
  Profile = "core"
  MaxEntries = 3
  Scope = "transitive"
  WithTcp = FALSE
VIEW View
INVARIANTS InvWellFormed InvErrClasses InvStoredSetsAlwaysCompile
PROPERTIES PropAcceptIsGlobal EmitProp
CHECK_DEADLOCK FALSE
