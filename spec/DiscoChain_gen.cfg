SPECIFICATION Spec
CONSTANTS
  Profile = "core"
  MaxEntries = 3
  Scope = "transitive"
  WithTcp = FALSE
VIEW View
PROPERTIES EmitProp
CHECK_DEADLOCK FALSE
