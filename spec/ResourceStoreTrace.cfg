SPECIFICATION Spec
CONSTANTS
  Relax = {}
POSTCONDITION Post
CHECK_DEADLOCK FALSE
