----------------------------- MODULE StoreTrace -----------------------------
(* Trace validation for the Store specification (DESIGN.md 2.2).              *)
(* trace.ndjson holds one event per applied command, recorded from the REAL   *)
(* fsm.FSM / state.Store:  [cmd, res, post, (pre), (facts), (reads)] where    *)
(* pre/post are projections of the implementation state.  Each step is judged *)
(* locally:  ApplyAt(pre_impl, cmd)  must explain  (res_impl, post_impl) and   *)
(* every state/step property is evaluated on the implementation's states.     *)
(* A failed predicate is printed as <<"REJECT", line, {names}>>; the step is   *)
(* still consumed so that the rest of the trace is examined.                  *)
EXTENDS Store, Json

Trace == ndJsonDeserialize("trace.ndjson")
VARIABLE l

Abs(j) ==
  [idx |-> j.idx, kv |-> ToSet(j.kv), tombs |-> ToSet(j.tombs),
   sess |-> {[s EXCEPT !.checks = ToSet(@)] : s \in ToSet(j.sess)},
   schk |-> ToSet(j.schk), nodes |-> ToSet(j.nodes), svcs |-> ToSet(j.svcs),
   chks |-> ToSet(j.chks), pq |-> ToSet(j.pq), coords |-> ToSet(j.coords), tix |-> j.tix,
   lds |-> IF "lds" \in DOMAIN j THEN ToSet(j.lds) ELSE {}, delayed |-> IF "delayed" \in DOMAIN j THEN ToSet(j.delayed) ELSE {}]

AbsCmd(c) == IF c.t = "sess" /\ c.op = "create" THEN [c EXCEPT !.checks = ToSet(@)] ELSE c

Pre(i) == IF "pre" \in DOMAIN Trace[i] THEN Abs(Trace[i].pre) ELSE Abs(Trace[i - 1].post)

TixRows == {"kvs", "tombstones", "sessions", "prepared-queries"}
F(name, ok) == IF ok THEN {} ELSE {name}

ResOK(exp, got) ==
  CASE exp.t = "nil" -> got.t = "nil"
    [] exp.t = "err" -> got.t = "err"
    [] exp.t = "str" -> got.t = "str" /\ got.v = exp.v
    [] exp.t = "bool" -> got.t = "bool" /\ ("unspec" \in DOMAIN exp \/ got.v = exp.v)
    [] OTHER -> FALSE

KVView(a, b) == a.kv = b.kv /\ a.tombs = b.tombs
SessView(a, b) == a.sess = b.sess /\ a.schk = b.schk /\ a.pq = b.pq
CatView(a, b) == a.nodes = b.nodes /\ a.svcs = b.svcs /\ a.chks = b.chks /\ a.coords = b.coords
TixView(a, b) == \A n \in TixRows : Tix(a, n) = Tix(b, n)

\* transaction outcome: definite errors must be reported, unspecified ones may be
TxnJudge(pre, post, r, got, facts) ==
  LET gerrs == ToSet(got.errs)
      commitOK == /\ got.ok /\ KVView(r.st, post) /\ SessView(r.st, post) /\ CatView(r.st, post) /\ TixView(r.st, post)
      abortOK(must, may) == /\ ~got.ok /\ must \subseteq gerrs /\ gerrs \subseteq (must \cup may) /\ gerrs # {}
      untouched == /\ KVView(pre, post) /\ SessView(pre, post) /\ CatView(pre, post) /\ TixView(pre, post)
                   /\ ~facts.dump_changed /\ ~facts.watch_fired /\ facts.events = 0
  IN
     F("txn-atomic", got.ok \/ untouched)                                    \* C05: a failed txn changes nothing
  \cup F("txn-outcome", CASE r.res.ok = "no" -> abortOK(r.res.errs, r.res.unk)
                          [] r.res.ok = "yes" -> got.ok
                          [] OTHER -> got.ok \/ abortOK({}, r.res.unk))
  \cup F("txn-state", ~got.ok \/ r.res.ok = "no" \/ commitOK)
  \cup F("txn-results", ~got.ok \/ r.res.ok = "no" \/ got.outs = r.res.outs)
  \cup F("txn-single-index", ~got.ok \/ \A x \in post.kv : (x \notin pre.kv => x.mi = post.idx))

Norm1(i) == IF i = 0 THEN 1 ELSE i
ReadsJudge(post, reads) ==
  UNION {
    LET q == reads[i] IN
    CASE q.q = "list" -> F("read-list", q.ents = KVList(post, q.p)) \cup F("read-list-idx", q.idx = KVListIdx(post, q.p))
      [] q.q = "get"  -> F("read-get", IF KvHas(post, q.k) THEN q.found /\ q.ent = KvGet(post, q.k) ELSE ~q.found)
                         \cup F("read-get-idx", q.idx = KVTableIdx(post))
      [] q.q = "keys" -> F("read-keys", q.keys = KVKeys(post, q.p, q.sep)) \cup F("read-keys-idx", q.idx = Norm1(KVListIdx(post, q.p)))
      \* the RPC endpoints KVS.Get / KVS.List (kvs_endpoint.go): a found key reports its own modify index,
      \* an index of 0 is reported as 1
      [] q.q = "rget" -> F("read-get", IF KvHas(post, q.k) THEN q.found /\ q.ent = KvGet(post, q.k) ELSE ~q.found)
                         \cup F("read-get-idx", q.idx = IF KvHas(post, q.k) THEN KvGet(post, q.k).mi ELSE Norm1(KVTableIdx(post)))
      [] q.q = "rlist" -> F("read-list", q.ents = KVList(post, q.p)) \cup F("read-list-idx", q.idx = Norm1(KVListIdx(post, q.p)))
      [] OTHER -> {}
    : i \in DOMAIN reads }

\* a command whose commit was made to fail (fault point CommitFails): it must leave nothing behind and say so; a command
\* that would have changed nothing may also never reach the commit and answer as usual
Untouched(pre, post, facts) ==
  /\ KVView(pre, post) /\ SessView(pre, post) /\ CatView(pre, post) /\ TixView(pre, post)
  /\ ~facts.dump_changed /\ ~facts.watch_fired /\ facts.events = 0
FaultJudge(pre, post, r, got, facts, istxn) ==
  LET f == CommitFails(pre)
      noop == KVView(r.st, pre) /\ SessView(r.st, pre) /\ CatView(r.st, pre) /\ TixView(r.st, pre) IN
     F(IF istxn THEN "txn-fault-atomic" ELSE "fault-atomic", Untouched(pre, post, facts))
  \cup F(IF istxn THEN "txn-fault-reported" ELSE "fault-reported", IF istxn THEN ~got.ok \/ (noop /\ r.res.ok # "no")
                           ELSE ResOK(f.res, got) \/ (noop /\ ResOK(r.res, got)))

Verdict(i) ==
  LET e    == Trace[i]
      pre  == Pre(i)
      post == Abs(e.post)
      c    == AbsCmd(e.cmd)
      endpoint == "level" \in DOMAIN e /\ e.level = "endpoint"
      \* keys whose lock-delay window ends within the observer's clock uncertainty: either outcome of a lock is allowed
      edge == IF "edge" \in DOMAIN e THEN ToSet(e.edge) ELSE {}
      onEdge == endpoint /\ DelayedLocks([pre EXCEPT !.delayed = edge], c) # {}
      delayedLock == endpoint /\ DelayedLocks(pre, c) # {}
      r    == IF endpoint /\ ~onEdge THEN EndpointApply(pre, c.idx, c) ELSE ApplyAt(pre, c.idx, c)
      istxn == c.t = "txn"
      first == "pre" \in DOMAIN e
      faulted == "fault" \in DOMAIN e.cmd /\ e.cmd.fault = "yes"
  IN
     (IF faulted THEN FaultJudge(pre, post, r, e.res, e.facts, istxn)
      ELSE IF onEdge THEN {}
      \* a lock refused because of the lock delay is judged under a name of its own (no listed property speaks of it)
      ELSE IF delayedLock THEN F("delay-enforced", IF istxn THEN ~e.res.ok /\ ToSet(e.res.errs) = r.res.errs /\ KVView(pre, post) /\ SessView(pre, post)
                                                   ELSE ResOK(r.res, e.res) /\ KVView(pre, post) /\ SessView(pre, post))
      ELSE IF istxn THEN TxnJudge(pre, post, r, e.res, e.facts)
      ELSE   F("res", ResOK(r.res, e.res))
        \cup F("kv-state", KVView(r.st, post))
        \cup F("sess-state", SessView(r.st, post))
        \cup F("cat-state", CatView(r.st, post))
        \cup F("tix", TixView(r.st, post)))
  \* state invariants are judged step-locally: a step is rejected when it BREAKS the invariant
  \* (or, for the first event of a history, when the initial state already violates it)
  \cup F("KeysUnique", KeysUnique(post) \/ (~first /\ ~KeysUnique(pre)))
  \cup F("HolderExists", HolderExists(post) \/ (~first /\ ~HolderExists(pre)))
  \cup F("LinksLive", LinksLive(post) \/ (~first /\ ~LinksLive(pre)))
  \cup F("QueriesLive", QueriesLive(post) \/ (~first /\ ~QueriesLive(pre)))
  \cup F("SessionNodeLive", SessionNodeLive(post) \/ (~first /\ ~SessionNodeLive(pre)))
  \cup F("NoOrphans", NoOrphans(post) \/ (~first /\ ~NoOrphans(pre)))
  \cup F("EndsCascade", EndsCascadeM(pre, post, istxn /\ Len(c.ops) > 1))
  \cup F("CreateIndexStable", CreateIndexStable(pre, post, c.idx))
  \cup F("ModifyIndexRule", ModifyIndexRule(pre, post, c.idx))
  \cup (IF "reads" \in DOMAIN e THEN ReadsJudge(post, e.reads) ELSE {})
  \* the lock-delay windows move as the specification says (only when the trace observes them): windows opened by this step
  \* are open afterwards, no other window opens, sessions carrying a delay are exactly the specification's
  \* (a command whose commit was made to fail must open none: part of fault-atomic / txn-atomic below)
  \cup (IF "delayed" \in DOMAIN e.post /\ ~faulted
        THEN LET exp == ApplyAt(pre, c.idx, c).st
                 ok == IF istxn /\ ~e.res.ok THEN post.delayed \subseteq pre.delayed /\ post.lds = pre.lds
                       ELSE /\ (exp.delayed \ pre.delayed) \subseteq post.delayed
                            /\ post.delayed \subseteq exp.delayed
                            /\ (onEdge \/ delayedLock \/ post.lds = exp.lds)
             IN F(IF istxn /\ ~e.res.ok THEN "txn-atomic" ELSE "delay-state", ok)
        ELSE {})
  \cup (IF "age_ms" \in DOMAIN e.cmd THEN F("ttl-not-early", TTLMayExpire(e.cmd.ttl_ms, e.cmd.age_ms)) ELSE {})
  \cup (IF "delayed" \in DOMAIN e.post /\ faulted
        THEN F(IF istxn THEN "txn-fault-atomic" ELSE "fault-atomic", post.delayed \subseteq pre.delayed /\ post.lds = pre.lds)
        ELSE {})

Init == l = 1
Next == /\ l <= Len(Trace)
        /\ LET v == Verdict(l) IN IF v = {} THEN TRUE ELSE PrintT(<<"REJECT", l, v>>)
        /\ l' = l + 1
Spec == Init /\ [][Next]_l
Consumed == TLCGet("stats").distinct = Len(Trace) + 1 \/ TLCGet("stats").distinct = 0
=============================================================================
