SPECIFICATION Spec
CONSTANTS
  MaxDepth = 2
  AllowMoved = FALSE
  Small = TRUE
VIEW View
PROPERTIES EmitProp
CHECK_DEADLOCK FALSE
