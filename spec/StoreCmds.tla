----------------------------- MODULE StoreCmds -----------------------------
(* Bounded command alphabets over spec/Store.tla (no variables): shared by StoreMC and Replicas. *)
EXTENDS Store

CONSTANTS Profile, MaxDepth

k1 == <<97>>            \* "a"
k2 == <<97, 47>>        \* "a/"
k3 == <<97, 47, 98>>    \* "a/b"
k4 == <<195, 169>>      \* "é"
KeysFor == IF Profile = "kv" THEN {k1, k2, k3} ELSE IF Profile = "kvwide" THEN {k1, k2, k3, k4} ELSE {k1, k3}
PrefFor == IF Profile \in {"kv", "kvwide"} THEN {<<>>, k1, k2} ELSE {k1}
Vals == {"x", "y"}
Flags == IF Profile = "kvwide" THEN {0, 7} ELSE {0}
SessIds == {"s1", "s2"}
NodeNames == IF Profile \in {"kv", "kvwide"} THEN {"n1"} ELSE {"n1", "n2"}

CasIdx(s, k) == {0, s.idx + 5} \cup (IF KvHas(s, k) THEN {KvGet(s, k).mi} \cup (IF KvGet(s, k).mi > 1 THEN {KvGet(s, k).mi - 1} ELSE {}) ELSE {1})

KvCmd(op, k, v, f, s, mi) == [t |-> "kv", op |-> op, k |-> k, v |-> v, f |-> f, s |-> s, li |-> 0, mi |-> mi]
CmdsKV(s) ==
     {KvCmd("set", k, v, f, "", 0) : k \in KeysFor, v \in Vals, f \in Flags}
  \cup {KvCmd("set", k, "x", 0, sid, 0) : k \in KeysFor, sid \in SessIds}     \* a plain write carrying a Session field
  \cup {KvCmd("delete", k, "", 0, "", 0) : k \in KeysFor}
  \cup {KvCmd("delete-tree", p, "", 0, "", 0) : p \in PrefFor}
  \cup UNION {{KvCmd("cas", k, v, 0, "", mi) : v \in Vals, mi \in CasIdx(s, k)} : k \in KeysFor}
  \cup UNION {{KvCmd("delete-cas", k, "", 0, "", mi) : mi \in CasIdx(s, k)} : k \in KeysFor}
  \cup {KvCmd("lock", k, v, 0, sid, 0) : k \in KeysFor, v \in {"x"}, sid \in SessIds}
  \cup {KvCmd("unlock", k, v, 0, sid, 0) : k \in KeysFor, v \in {"x"}, sid \in SessIds}

SessCmdsFor(s) ==
     {[t |-> "sess", op |-> "create", id |-> sid, node |-> n, beh |-> b, checks |-> cs, name |-> nm]
        : sid \in {x \in SessIds : ~SessHas(s, x)}, n \in NodeNames, b \in {"release", "delete"},
          cs \in IF Profile = "sess" THEN {{}, {"c1"}} ELSE {{}}, nm \in IF Profile = "sess" THEN {"", "sn"} ELSE {""}}
  \cup {[t |-> "sess", op |-> "destroy", id |-> sid] : sid \in SessIds}

NoSvc == [id |-> "", name |-> ""]
NoChk == [id |-> "", status |-> "", svc |-> "", typ |-> "", sname |-> ""]
RegCmd(n, nid, hs, svc, hc, chk) == [t |-> "reg", node |-> n, nid |-> nid, hassvc |-> hs, svc |-> svc, haschk |-> hc, chk |-> chk]
CmdsCat(s) ==
     {RegCmd(n, "", FALSE, NoSvc, FALSE, NoChk) : n \in NodeNames}
  \cup (IF Profile = "sess" THEN
         {RegCmd(n, "", FALSE, NoSvc, TRUE, [id |-> "c1", status |-> stt, svc |-> "", typ |-> ty, sname |-> IF ty = "session" THEN "sn" ELSE ""])
             : n \in NodeNames, stt \in {"passing", "critical"}, ty \in {"", "session"}}
         \cup {RegCmd(n, "", TRUE, [id |-> "w1", name |-> "web"], TRUE, [id |-> "c1", status |-> "passing", svc |-> "w1", typ |-> "", sname |-> ""]) : n \in NodeNames}
         \cup {[t |-> "dereg", node |-> n, svc |-> sv, chk |-> ck] : n \in NodeNames, sv \in {"", "w1"}, ck \in {"", "c1"}}
         \cup {RegCmd("n2", "id1", FALSE, NoSvc, FALSE, NoChk), RegCmd("n1", "id1", FALSE, NoSvc, FALSE, NoChk)}
         \cup {[t |-> "pq", op |-> "set", id |-> "q1", sess |-> sid] : sid \in SessIds \cup {""}}
         \cup {[t |-> "pq", op |-> "delete", id |-> "q1"]}
       ELSE {[t |-> "dereg", node |-> n, svc |-> "", chk |-> ""] : n \in NodeNames})

KvOp(verb, k, v, s, mi) == [fam |-> "kv", verb |-> verb, k |-> k, v |-> v, f |-> 0, s |-> s, li |-> 0, mi |-> mi]
TxnOps(s) ==
     {KvOp("set", k, "y", "", 0) : k \in KeysFor}
  \cup {KvOp("delete", k, "", "", 0) : k \in KeysFor}
  \cup {KvOp("delete-tree", p, "", "", 0) : p \in PrefFor}
  \cup {KvOp("lock", k, "x", sid, 0) : k \in KeysFor, sid \in SessIds}
  \cup {KvOp("unlock", k, "x", sid, 0) : k \in KeysFor, sid \in SessIds}
  \cup UNION {{KvOp("cas", k, "y", "", mi) : mi \in CasIdx(s, k) \ {s.idx + 5}} : k \in KeysFor}
  \cup UNION {{KvOp("check-index", k, "", "", mi) : mi \in CasIdx(s, k) \ {0, s.idx + 5}} : k \in KeysFor}
  \cup {KvOp("check-not-exists", k, "", "", 0) : k \in KeysFor}
  \cup {KvOp("check-session", k, "", sid, 0) : k \in KeysFor, sid \in SessIds}
  \cup {KvOp("get", k, "", "", 0) : k \in KeysFor}
  \cup {KvOp("get-tree", p, "", "", 0) : p \in PrefFor}
  \cup {[fam |-> "sess", verb |-> "delete", id |-> sid] : sid \in {x \in SessIds : SessHas(s, x)}}
  \cup {[fam |-> "node", verb |-> "delete", node |-> n, nid |-> ""] : n \in NodeNames}
  \cup {[fam |-> "chk", verb |-> "set", node |-> n, chk |-> [id |-> "c1", status |-> "critical", svc |-> "", typ |-> "", sname |-> ""]] : n \in NodeNames}
  \cup {[fam |-> "chk", verb |-> "delete", node |-> n, chk |-> [id |-> "c1", status |-> "", svc |-> "", typ |-> "", sname |-> ""]] : n \in NodeNames}
CmdsTxn(s) ==
     {[t |-> "txn", ops |-> <<a>>] : a \in TxnOps(s)}
  \cup {[t |-> "txn", ops |-> <<a, b>>] : a \in TxnOps(s), b \in TxnOps(s)}

Cmds(s) ==
  CASE Profile = "kv"     -> CmdsKV(s) \cup {[t |-> "reap", upto |-> i] : i \in {s.idx, s.idx - 1} \cap Nat}
                             \cup {c \in SessCmdsFor(s) : TRUE} \cup {RegCmd("n1", "", FALSE, NoSvc, FALSE, NoChk)}
    [] Profile = "kvwide" -> CmdsKV(s) \cup {[t |-> "reap", upto |-> s.idx]}
                             \cup SessCmdsFor(s) \cup {RegCmd("n1", "", FALSE, NoSvc, FALSE, NoChk)}
    [] Profile = "sess"   -> {KvCmd("lock", k, "x", 0, sid, 0) : k \in KeysFor, sid \in SessIds}
                             \cup {KvCmd("unlock", k, "x", 0, sid, 0) : k \in KeysFor, sid \in SessIds}
                             \cup {KvCmd("set", k, "y", 0, "", 0) : k \in KeysFor}
                             \cup {KvCmd("delete", k, "", 0, "", 0) : k \in KeysFor}
                             \cup {KvCmd("delete-tree", k1, "", 0, "", 0)}
                             \cup SessCmdsFor(s) \cup CmdsCat(s)
                             \cup {[t |-> "txn", ops |-> <<a>>] : a \in {o \in TxnOps(s) : o.fam # "kv" \/ o.verb \in {"lock", "unlock", "delete"}}}
    [] Profile = "txn"    -> CmdsTxn(s) \cup {KvCmd("set", k, "x", 0, "", 0) : k \in KeysFor}
                             \cup {KvCmd("lock", k, "x", 0, sid, 0) : k \in KeysFor, sid \in SessIds}
                             \cup {c \in SessCmdsFor(s) : c.op = "destroy" \/ (c.beh = "release" /\ c.node = "n1")}
                             \cup {RegCmd(n, "", FALSE, NoSvc, FALSE, NoChk) : n \in NodeNames}
                             \cup {RegCmd("n1", "", FALSE, NoSvc, TRUE, [id |-> "c1", status |-> "passing", svc |-> "", typ |-> "", sname |-> ""])}

\* In the model an unspecified ("any") transaction outcome is resolved like the code does today: abort.
Resolve(s, r) == IF r.res.t = "txn" /\ r.res.ok = "any" THEN s ELSE r.st

=============================================================================
