SPECIFICATION Spec
CONSTANTS
  Profile = "kv"
  MaxDepth = 3
VIEW View
PROPERTIES EmitProp
CHECK_DEADLOCK FALSE
