----------------------------- MODULE ReplDiffMC -----------------------------
(* Bounded instance of ReplDiff: every pair of (secondary, primary) object    *)
(* sets over Ids x Cs x Mis, every lastRemoteIndex in Lasts, legacy entries   *)
(* without id, local-only objects, that satisfies the environment assumption. *)
(* TLC walks the diff step by step and checks termination and RoundOK.        *)
(* With ReplDiff_gen.cfg the same Init is printed as JSON (one case per       *)
(* initial state) for replay against the real diff functions and state store. *)
EXTENDS ReplDiff, SequencesExt, Json

CONSTANTS
  Kinds,       \* subset of {"acl", "config", "fed"}
  Ids,         \* identifiers of replicated objects (non-zero integers)
  Cs,          \* contents
  LegacyCs,    \* contents of legacy entries
  Mis,         \* modify indexes in the primary
  Lasts,       \* lastRemoteIndex values
  MaxLegacyL,  \* number of legacy (empty id) entries in the local listing: 0..MaxLegacyL (kind acl only)
  MaxLegacyR,  \* same for the remote listing
  LoIds,       \* identifiers that may carry a local-only object in the secondary (kind acl only)
  Unhashed,    \* TRUE: stored config entries may lack a hash (h = 0)
  Perms,       \* TRUE: every arrival order of both listings; FALSE: one arbitrary order
  RIdxs,       \* indexes the primary answers with (a value below lastRemoteIndex = the primary's index went backwards)
  Faults,      \* TRUE: the fetch-updated step of an ACL round may be hit by a stale / omitting batch read
  OldCs        \* contents of the older version a lagging server may still hold

VARIABLE st

HChoices(kind, c) == IF kind = "fed" THEN {0} ELSE IF Unhashed /\ kind = "config" THEN {c, 0} ELSE {c}
AllH == Cs \cup {0}
LSlot(kind) == {[p |-> FALSE, c |-> 0, h |-> 0]}
               \cup {x \in {[p |-> TRUE, c |-> c, h |-> h] : c \in Cs, h \in AllH} : x.h \in HChoices(kind, x.c)}
RSlot(kind) == {[p |-> FALSE, c |-> 0, h |-> 0, mi |-> 0]}
               \cup {x \in {[p |-> TRUE, c |-> c, h |-> h, mi |-> mi] : c \in Cs, h \in AllH, mi \in Mis} : x.h \in HChoices(kind, x.c)}

Obj(i, mi, c, h, lo) == [id |-> i, mi |-> mi, c |-> c, h |-> h, lo |-> lo]
LegacyObjs == {Obj(0, mi, c, c, FALSE) : c \in LegacyCs, mi \in {CHOOSE m \in Mis : \A n \in Mis : m >= n}}
Upto(S, n) == {T \in SUBSET S : Cardinality(T) <= n}
Orders(S) == IF Perms THEN SetToSeqs(S) ELSE {SetToSeq(S)}

\* per identifier: a (local slot, remote slot) pair that satisfies Consistent for this lastRemoteIndex
PairSlots(kind, last) ==
  {pr \in LSlot(kind) \X RSlot(kind) : (pr[1].p /\ pr[2].p /\ pr[2].mi <= last) => pr[1].c = pr[2].c}

FaultsFor(kind, rem) ==
  {NoFault} \cup
  (IF Faults /\ kind = "acl"
   THEN {[t |-> "stale", id |-> o.id, oc |-> oc, mod |-> TRUE] : o \in rem, oc \in OldCs}
        \cup {[t |-> "omit", id |-> o.id, oc |-> oc, mod |-> m] : o \in rem, oc \in OldCs, m \in BOOLEAN}
   ELSE {})

Init ==
  \E kind \in Kinds, last \in Lasts, ridx \in RIdxs :
  \E f \in [Ids -> PairSlots(kind, EffLast(last, ridx))],
     ll \in Upto(LegacyObjs, IF kind = "acl" THEN MaxLegacyL ELSE 0),
     lr \in Upto(LegacyObjs, IF kind = "acl" THEN MaxLegacyR ELSE 0),
     los \in SUBSET (IF kind = "acl" THEN LoIds ELSE {}) :
    LET repl == {Obj(i, 1, f[i][1].c, f[i][1].h, FALSE) : i \in {j \in Ids : f[j][1].p}}
        rem  == {Obj(i, f[i][2].mi, f[i][2].c, f[i][2].h, FALSE) : i \in {j \in Ids : f[j][2].p}}
        lo   == {Obj(i, 1, 1, 1, TRUE) : i \in los}
    IN /\ UniqueKeys(kind, repl) /\ UniqueKeys(kind, rem)            \* names are unique within a datacenter
       /\ \A i \in los : i \notin {o.id : o \in repl \cup rem}      \* identifiers of local-only objects are fresh
       /\ \A o \in rem : o.mi <= ridx                                  \* the primary's index covers what it lists
       /\ \E inL \in Orders(repl \cup ll), inR \in Orders(rem \cup lr), fault \in FaultsFor(kind, rem) :
            st = RoundInit(kind, repl \cup lo, inL, inR, last, ridx, fault)

Next == st.pc # "done" /\ st' = Step(st)
Terminated == st.pc = "done" /\ UNCHANGED st
Spec == Init /\ [][Next \/ Terminated]_st

(* ---- checked ---- *)
InvEnv == st.pc = "sort" => Env(st)                 \* every explored input satisfies the environment assumption
PropInputsStable == [][st'.inL = st.inL /\ st'.inR = st.inR /\ st'.sec = st.sec /\ st'.last = st.last /\ st'.kind = st.kind
                        /\ st'.glast = st.glast /\ st'.ridx = st.ridx /\ st'.fault = st.fault]_st
InvCursor == st.li \in 1..(Len(st.inL) + 1) /\ st.ri \in 1..(Len(st.inR) + 1)
InvSorted ==
  st.pc \notin {"sort"} =>
    /\ \A i, j \in DOMAIN st.local : i < j => st.local[i].id <= st.local[j].id
    /\ \A i, j \in DOMAIN st.remote : i < j => st.remote[i].id <= st.remote[j].id
    /\ Rng(st.local) = Rng(st.inL) /\ Len(st.local) = Len(st.inL)
    /\ Rng(st.remote) = Rng(st.inR) /\ Len(st.remote) = Len(st.inR)
InvRoundOK == st.pc = "done" => RoundOK(st)
\* witness that the order of the round matters (expected to be VIOLATED when listed as an invariant):
\* "applying the upserts before the deletions is always accepted"
InvUpsertsFirstAlsoFine ==
  st.pc = "done" => ApplyUpsertsFirst(st.kind, st.sec, Rng(st.dels), Rng(st.ups), Rng(st.inR)).ok
InvRunOK == st.pc = "sort" => RoundOK(Run(st))      \* the recursive form used by ReplDiffTrace agrees
PropTerminates == [][Measure(st') < Measure(st) /\ Measure(st') >= 0]_st

(* ---- generation ---- *)
Case(s) == [kind |-> s.kind, last |-> s.glast, ridx |-> s.ridx, fault |-> s.fault, sec |-> SetToSeq(s.sec), inL |-> s.inL, inR |-> s.inR]
Emit == IF st.pc = "sort" THEN PrintT(<<"TRACE", ToJson(Case(st))>>) ELSE TRUE
EmitProp == [][Emit]_st
OnlyFirstStep == st.pc = "sort"
=============================================================================
