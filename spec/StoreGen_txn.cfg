SPECIFICATION Spec
CONSTANTS
  Profile = "txn"
  MaxDepth = 3
VIEW View
PROPERTIES EmitProp
CHECK_DEADLOCK FALSE
