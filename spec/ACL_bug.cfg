SPECIFICATION Spec
CONSTANTS
  Profile = "hist"
  MaxRules = 2
  MaxDepth = 2
  Fams = {"service"}
  NameCount = 5
  SvcInts = {""}
  NC1 = 4
  NC2 = 4
  NC3 = 2
  AliasBug = TRUE
  TokSet = "base"
VIEW View
INVARIANTS NoCrossTalk InvCachesSound
CHECK_DEADLOCK FALSE
