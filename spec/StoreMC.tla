------------------------------ MODULE StoreMC ------------------------------
(* Bounded instance of Store for exhaustive checking (StoreMC_*.cfg) and for  *)
(* behaviour generation (hist + Emit).  Profile selects the command alphabet. *)
EXTENDS StoreCmds, Json

VARIABLES st, hist

Init == st = InitState /\ hist = <<>>
Next == /\ st.idx < MaxDepth
        /\ \E c \in Cmds(st) :
             LET r == ApplyAt(st, st.idx + 1, c) IN
             /\ st' = [Resolve([st EXCEPT !.idx = st.idx + 1], r) EXCEPT !.idx = st.idx + 1]
             /\ hist' = Append(hist, [c EXCEPT !.t = c.t] @@ [idx |-> st.idx + 1])
Spec == Init /\ [][Next]_<<st, hist>>

View == st
Emit == PrintT(<<"TRACE", ToJson(hist')>>)
EmitProp == [][Emit]_<<st, hist>>

(* properties *)
InvLock == LockInv(st)
InvOrphans == NoOrphans(st)
InvSessChecks == SessionChecksHealthy(st)
PropEndsCascade == [][EndsCascade(st, st')]_st
PropCreateIndexStable == [][CreateIndexStable(st, st', st'.idx)]_st
PropModifyIndexRule == [][ModifyIndexRule(st, st', st'.idx)]_st
\* C06 on the model of the KV index rule: a changed listing has a strictly larger index,
\* and the index never decreases except through reaping
ListRes(s, p) == KVList(s, p)
PropKVListIndex ==
  [][\A p \in PrefFor \cup KeysFor :
        /\ (ListRes(st', p) # ListRes(st, p) => KVListIdx(st', p) > KVListIdx(st, p))
        /\ (st'.tombs = st.tombs \/ Cardinality(st'.tombs) >= Cardinality(st.tombs) => KVListIdx(st', p) >= KVListIdx(st, p))]_st
InvIdxNonZero == st.idx = 0 \/ \A p \in PrefFor : KVListIdx(st, p) >= 0
=============================================================================
