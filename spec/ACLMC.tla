------------------------------- MODULE ACLMC -------------------------------
(* Bounded instances of ACL for exhaustive checking and behaviour generation.       *)
(*  Profile "sem"  : states = rule sets of ONE rule family (kind), grown rule by     *)
(*                   rule up to MaxRules; lemmas on the decision table are state     *)
(*                   invariants; the generator prints every distinct rule set.       *)
(*  Profile "hist" : 3 policies (contents chosen at Init), 2 roles, 6 tokens sharing *)
(*                   policies; commands resolve(t) / setpolicy(p, rules) through one *)
(*                   pair of caches; NoCrossTalk is the invariant; the generator     *)
(*                   prints one command history per transition.                      *)
EXTENDS ACL, Json

CONSTANTS Profile, MaxRules, MaxDepth, Fams, NameCount, SvcInts, NC1, NC2, NC3, AliasBug, TokSet

VARIABLES st, hist

A   == <<97>>
AB  == <<97, 98>>
ABC == <<97, 98, 99>>
B   == <<98>>
AllNames == <<<<>>, A, AB, B, ABC>>
NamesU == {AllNames[i] : i \in 1..NameCount}
\* names that are queried: every rule name plus one ("ac") that only prefixes can match, plus the
\* sidecar name a service identity for "a" grants
QNames == <<<<>>, A, AB, ABC, B, <<97, 99>>, A \o Sidecar>>

---------------------------------------------------------------------------
(* profile "sem" *)
URules(fam) ==
  IF fam = "scalar"
  THEN {[k |-> k, n |-> <<>>, m |-> "exact", lv |-> lv, int |-> ""] : k \in ScalarKinds, lv \in {"deny", "read", "write"}}
  ELSE {[k |-> fam, n |-> n, m |-> m, lv |-> lv, int |-> i]
          : n \in NamesU, m \in {"exact", "prefix"}, lv \in LevelsOf(fam), i \in (IF fam = "service" THEN SvcInts ELSE {""})}

SemInit == st \in {[R |-> {}, fam |-> f] : f \in Fams} /\ hist = <<>>
SemNext == /\ Cardinality(st.R) < MaxRules
           /\ \E r \in URules(st.fam) \ st.R : st' = [st EXCEPT !.R = @ \cup {r}]
           /\ UNCHANGED hist

Dflts == {"allow", "deny"}
SemT(v, d) == TableOf(st.R, v, d, QNames, FamMethods(st.fam))
\* the clauses only look at the read / write methods of the named kinds (no intention methods: one variant suffices)
RWT(d) == TableOf(st.R, "merged-fields", d, QNames, FamMethods(st.fam) \cap ({ReadM[k] : k \in NamedKinds} \cup {WriteM[k] : k \in NamedKinds}))
InvExactWins       == Profile = "sem" => \A d \in Dflts : ExactWins(st.R, RWT(d), QNames)
InvLongestPrefix   == Profile = "sem" => \A d \in Dflts : LongestPrefixWins(st.R, RWT(d), QNames)
InvDenyOverrides   == Profile = "sem" => \A d \in Dflts : DenyOverrides(st.R, RWT(d), QNames)
InvDefaultDecides  == Profile = "sem" => \A d \in Dflts : DefaultDecides(st.R, RWT(d), QNames, d)
InvMergeOrderFree  == Profile = "sem" => MergeOrderFree(st.R)
\* the two accepted readings of intention merging differ only when explicit and implied levels mix in one slot
InvVariantsAgree ==
  Profile = "sem" => ((\A r \in st.R : r.int = "") => \A d \in Dflts : SemT("merged-fields", d) = SemT("per-rule", d))
\* the table is total: every method answers allow or deny for every name
InvTotal == Profile = "sem" => \A d \in Dflts : LET T == SemT("merged-fields", d) IN
              DOMAIN T = FamMethods(st.fam) /\ \A m \in DOMAIN T : \A i \in DOMAIN T[m] : T[m][i] \in {"allow", "deny"}

\* generator for "sem": one line per distinct state (= rule set)
EmitR == IF Profile = "sem" THEN PrintT(<<"TRACE", ToJson([rules |-> st.R, fam |-> st.fam])>>) ELSE TRUE

---------------------------------------------------------------------------
(* profile "hist" *)
S(n, m, lv)        == Rl("service", n, m, lv)
\* order matters only for the small configurations: PolChoices(n) takes the first n
HRuleU == <<S(A, "exact", "read"), S(A, "exact", "write"),
            [S(A, "exact", "read") EXCEPT !.int = "write"],      \* lower level, higher explicit intentions level
            S(A, "exact", "deny"),
            S(<<>>, "prefix", "write"), S(<<>>, "prefix", "deny"),
            Rl("key", A, "exact", "write"), Rl("key", <<>>, "prefix", "read"),
            Rl("node", B, "exact", "read"), S(A \o Sidecar, "exact", "deny")>>
PolChoices(n) == {{HRuleU[i]} : i \in 1..n} \cup {{}}

HRoles == [r1 |-> [pols |-> {1, 3}, svc |-> {}, node |-> {}, tsvc |-> {}, tnode |-> {}],
           r2 |-> [pols |-> {}, svc |-> {}, node |-> {}, tsvc |-> {A}, tnode |-> {}]]   \* only builtin/service {a}
Tk(p, r, s, n, ts, tn) == [pols |-> p, roles |-> r, svc |-> s, node |-> n, tsvc |-> ts, tnode |-> tn]
\* TokSet = "base": tokens sharing policies directly, through a role, with one identity each
BaseToks == [t1 |-> Tk({1}, {}, {}, {}, {}, {}),
             t2 |-> Tk({1, 2}, {}, {}, {}, {}, {}),
             t3 |-> Tk({2, 3}, {}, {}, {}, {}, {}),
             t4 |-> Tk({}, {"r1"}, {}, {}, {}, {}),          \* {1,3} through a role
             t5 |-> Tk({2}, {}, {A}, {}, {}, {}),            \* policy 2 plus a service identity for "a"
             t6 |-> Tk({3}, {}, {}, {B}, {}, {})]            \* policy 3 plus a node identity for "b"
\* TokSet = "dup": tokens that carry the same synthetic policy twice (identity X + templated policy X,
\* directly or through a role) next to their twins = the same token minus that pair
DupToks ==  [d1 |-> Tk({}, {}, {A}, {}, {A}, {}),            \* service identity a + builtin/service {a}
             d2 |-> Tk({}, {}, {}, {}, {}, {}),              \* no links at all (like the anonymous token): twin of d1, d5
             d3 |-> Tk({2}, {"r2"}, {A}, {}, {}, {}),        \* policy 2 + identity a + builtin/service {a} via role r2
             d4 |-> Tk({2}, {}, {}, {}, {}, {}),             \* twin of d3
             d5 |-> Tk({}, {}, {}, {B}, {}, {B}),            \* node identity b + builtin/node {b}
             d6 |-> Tk({2}, {}, {A}, {}, {}, {})]            \* control: policy 2 + identity a, no duplicate
HToks == IF TokSet = "dup" THEN DupToks ELSE BaseToks
NoLast == [t |-> "", rules |-> {}, own |-> {}]

HInit ==
  /\ \E c1 \in PolChoices(NC1), c2 \in PolChoices(NC2), c3 \in PolChoices(NC3) :
       st = [env |-> [pol |-> <<c1, c2, c3>>, roles |-> HRoles, tok |-> HToks],
             ver |-> <<1, 1, 1>>, c |-> EmptyCaches, last |-> NoLast]
  /\ hist = <<[t |-> "world", pol |-> st.env.pol, roles |-> HRoles, tok |-> HToks]>>

HCmds == {[t |-> "resolve", tok |-> t] : t \in DOMAIN HToks}
         \cup {[t |-> "setpolicy", p |-> p, rules |-> r] : p \in {1, 2}, r \in {{HRuleU[2]}, {HRuleU[4]}}}

ApplyH(s, cmd) ==
  IF cmd.t = "resolve"
  THEN LET r == Resolve(s.env, s.ver, s.c, cmd.tok, AliasBug)
       IN [s EXCEPT !.c = r.c, !.last = [t |-> cmd.tok, rules |-> r.rules, own |-> OwnRules(s.env, cmd.tok)]]
  ELSE [s EXCEPT !.env.pol[cmd.p] = cmd.rules, !.ver[cmd.p] = @ + 1, !.last = NoLast]

HNext == /\ Len(hist) <= MaxDepth
         /\ \E cmd \in HCmds : st' = ApplyH(st, cmd) /\ hist' = Append(hist, cmd)

\* the decision table of the last resolved token is the table of its OWN rules
HMethods == FamMethods("service") \cup FamMethods("key") \cup FamMethods("node")   \* the kinds HRuleU and identities touch
NoCrossTalk ==
  Profile = "hist" => \A d \in Dflts :
     TableOf(st.last.rules, "merged-fields", d, QNames, HMethods) = TableOf(st.last.own, "merged-fields", d, QNames, HMethods)
InvCachesSound == Profile = "hist" => CachesSound(st.c)

---------------------------------------------------------------------------
Init == IF Profile = "sem" THEN SemInit ELSE HInit
Next == IF Profile = "sem" THEN SemNext ELSE HNext
Spec == Init /\ [][Next]_<<st, hist>>
View == st
Emit == PrintT(<<"TRACE", ToJson(hist')>>)
EmitProp == [][Emit]_<<st, hist>>
=============================================================================
