SPECIFICATION Spec
CONSTANTS
  Kinds = {"acl", "config", "fed"}
  Ids = {1, 2}
  Cs = {1, 2}
  LegacyCs = {1, 2}
  Mis = {1, 2, 3}
  Lasts = {0, 1, 2, 3}
  MaxLegacyL = 1
  MaxLegacyR = 1
  LoIds = {4}
  Unhashed = FALSE
  Perms = FALSE
INVARIANTS InvEnv InvCursor InvSorted InvRoundOK InvRunOK
PROPERTIES PropTerminates PropInputsStable
CHECK_DEADLOCK TRUE
