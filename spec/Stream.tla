------------------------------- MODULE Stream -------------------------------
(***************************************************************************)
(* The streaming event publisher of consul (agent/consul/stream) with its   *)
(* producer (agent/consul/state/memdb.go txn.Commit -> Publish) and its      *)
(* consumer (agent/submatview: handler.go + materializer.go over a View).    *)
(*                                                                           *)
(* Functional style (DESIGN.md 2.1): every critical section of the code is   *)
(* an operator  Op(s, args) = s'  (or [st |-> s', res |-> r]) that is total   *)
(* on arbitrary states.  The exhaustive model (StreamMC), the behaviour      *)
(* generator and the trace specification (StreamTrace) call the same         *)
(* operators; StreamTrace calls them on the RECORDED IMPLEMENTATION state.    *)
(*                                                                           *)
(* State record s (other fields are carried along untouched):                *)
(*   queue  sequence of batches [idx, evs, toks, n]: committed write txns     *)
(*          whose events Publish put on publishCh and Run has not yet taken   *)
(*   tbs    set of [topic, subj, refs, last]: EventPublisher.topicBuffers;    *)
(*          last = the item most recently appended (eventBuffer.Head())       *)
(*   cache  set of [topic, subj, pend]: EventPublisher.snapCache; pend = the  *)
(*          items reachable from eventSnapshot.First                          *)
(*   cl     sequence of clients, one record each:                             *)
(*          state  "none" | "open" | "acl" | "force" | "unsub" (Subscription)  *)
(*          live   Subscribe was called and Unsubscribe not yet: the          *)
(*                 subscription holds a reference on its topic buffer         *)
(*          topic, subj, tok   the SubscribeRequest                           *)
(*          pend   items reachable from Subscription.currentItem, i.e. what   *)
(*                 successive Next calls return before blocking.  Linked      *)
(*                 lists spliced onto the topic buffer are modelled by this   *)
(*                 sequence plus the rule that Drain appends to every pend    *)
(*                 whose subscription is filed under the same topic/subject   *)
(*          snapidx index of the end-of-snapshot event delivered on this      *)
(*                 subscription (0: none yet) ; ridx: s.ridx at Subscribe     *)
(*          view, vidx, mode, acc   the materializer: View content as a set   *)
(*                 of [id, v], materializer.index, the current eventHandler   *)
(*                 ("snap" snapshotHandler, "resume" resumeStreamHandler,     *)
(*                 "stream" eventStreamHandler), snapshotHandler.events       *)
(*   ttl    snapCacheTTL # 0 ; ridx: raft index of the last Restore (0 none)  *)
(*   deny   [token -> set of ACL keys]: what each subscriber's token may NOT   *)
(*          read (a token without an entry reads everything)                   *)
(*   wild   topics registered with supportsWildcard                           *)
(* An item is [k, idx, evs]: k = "ev" (one Append of events of one raft       *)
(* index, also used for snapshot content), "eos" (endOfSnapshot), "nstf"      *)
(* (newSnapshotToFollow); an event is [topic, subj, op, id, v, ak] with op     *)
(* "reg" (register / upsert of id with content v) or "dereg" (deregister /    *)
(* delete); ak is the name the ACL check of the payload is made on            *)
(* (Payload.HasReadPermission: the service / config entry name).              *)
(*                                                                           *)
(* Operators that exist in two variants take a record g = [gap, restore] of   *)
(* booleans:  FALSE = what the code at hand does ;  TRUE = the property-       *)
(* conforming behaviour (see GAP and RESTORE below).  StreamMC checks the      *)
(* properties for g = Conforming; StreamTrace accepts a step that matches any  *)
(* variant and judges the properties on the recorded data.                     *)
(***************************************************************************)
EXTENDS Integers, Sequences, FiniteSets, SequencesExt, TLC

WILD == "*"      \* stream.SubjectWildcard
NoItem == [k |-> "none", idx |-> 0, evs |-> <<>>]
Item(k, i, evs) == [k |-> k, idx |-> i, evs |-> evs]
Same(a, b) == a.topic = b.topic /\ a.subj = b.subj

NoClient == [state |-> "none", live |-> FALSE, topic |-> "", subj |-> "", tok |-> "", pend |-> <<>>, snapidx |-> 0, ridx |-> 0,
             view |-> {}, vidx |-> 0, mode |-> "snap", acc |-> <<>>]

---------------------------------------------------------------------------
(* View.Update (rpcclient/health/view.go HealthView.Update, rpcclient/configentry/view.go):
   events are applied in order, register replaces the entry of the id, deregister removes it *)
RECURSIVE ApplyEvs(_, _)
ApplyEvs(view, evs) ==
  IF evs = <<>> THEN view
  ELSE LET e == Head(evs)
           rest == {r \in view : r.id # e.id}
       IN ApplyEvs(IF e.op = "reg" THEN rest \cup {[id |-> e.id, v |-> e.v]} ELSE rest, Tail(evs))

---------------------------------------------------------------------------
(* state/memdb.go txn.Commit: memdb commit, then publish(events) -> EventPublisher.Publish:
   `if len(events) == 0 { return }; e.publishCh <- events`.  Subscribers never read the channel, so
   the store write and the channel send are one step as far as they can observe. *)
EnqueueOp(s, b) == IF b.n = 0 THEN s ELSE [s EXCEPT !.queue = Append(@, b)]

(* event_publisher.go publishEvent: which events of a batch are filed under (topic, subject).
   Every event goes to its own subject and, if the topic supports it, to the wildcard subject. *)
Matches(s, t, e) == e.topic = t.topic /\ (e.subj = t.subj \/ (t.subj = WILD /\ t.topic \in s.wild))
Sel(s, t, b) == SelectSeq(b.evs, LAMBDA e : Matches(s, t, e))

(* event_publisher.go Run / publishEvent: take ONE batch; close the subscriptions of the tokens in a
   closeSubscriptionPayload; append the grouped events to the topic buffers THAT EXIST
   (bufferForPublishing returns nil otherwise and the events are dropped). Everything spliced onto
   a topic buffer - subscriptions and cached snapshots - sees the appended item. *)
DrainOp(s) ==
  IF s.queue = <<>> THEN s ELSE
  LET b == Head(s.queue)
      app(p, t) == IF Sel(s, t, b) = <<>> THEN p ELSE Append(p, Item("ev", b.idx, Sel(s, t, b)))
      linked(x) == x.live                                   \* holds a reference: the buffer exists
  IN [s EXCEPT
        !.queue = Tail(@),
        !.tbs = {[t EXCEPT !.last = IF Sel(s, t, b) = <<>> THEN @ ELSE Item("ev", b.idx, Sel(s, t, b))] : t \in @},
        !.cache = {[x EXCEPT !.pend = app(@, x)] : x \in @},
        !.cl = [c \in DOMAIN @ |->
                  LET x == @[c] IN
                  IF ~linked(x) THEN x
                  ELSE [x EXCEPT !.pend = app(@, x),
                                 !.state = IF @ = "open" /\ x.tok \in b.toks THEN "acl" ELSE @]]]

(* event_publisher.go Subscribe (whole body runs under e.lock) + event_snapshot.go appendAndSplice /
   spliceFromTopicBuffer + subscriptions.add.  q = [idx, rows] is what the snapshot handler reads from
   the CURRENT store (the same function the direct query uses); from = SubscribeRequest.Index.
     resume  : the buffer's newest item has exactly index `from` -> only future items
     cached  : a cached snapshot exists -> its whole chain
     fresh   : snapshot events, end-of-snapshot at the snapshot index (1 if the store says 0), then
               the buffer's newest item if its index is larger, else only future items
               (spliceFromTopicBuffer starts at Head() which is the NEWEST item)
     from>0 and no resume: newSnapshotToFollow in front.
   Client side (submatview Run/subscribeOnce): initialHandler(from); from = 0 means a materializer
   that holds nothing, from > 0 keeps view and index. *)
SubscribeOp(s, c, topic, subj, tok, from, q) ==
  LET ts == [topic |-> topic, subj |-> subj]
      has == \E t \in s.tbs : Same(t, ts)
      tb == IF has THEN CHOOSE t \in s.tbs : Same(t, ts) ELSE [topic |-> topic, subj |-> subj, refs |-> 0, last |-> NoItem]
      resume == from > 0 /\ tb.last.k # "none" /\ tb.last.idx = from            \* bufferItem.HasEventIndex
      cached == \E x \in s.cache : Same(x, ts)
      sidx == IF q.idx = 0 THEN 1 ELSE q.idx
      snap == [i \in 1..Len(q.rows) |->
                 Item("ev", sidx, <<[topic |-> topic, subj |-> subj, op |-> "reg", id |-> q.rows[i].id, v |-> q.rows[i].v, ak |-> q.rows[i].ak]>>)]
      tail == IF tb.last.k # "none" /\ tb.last.idx > sidx THEN <<tb.last>> ELSE <<>>
      fresh == snap \o <<Item("eos", sidx, <<>>)>> \o tail
      body == IF cached THEN (CHOOSE x \in s.cache : Same(x, ts)).pend ELSE fresh
      pend == IF resume THEN <<>> ELSE IF from = 0 THEN body ELSE <<Item("nstf", 0, <<>>)>> \o body
      x == s.cl[c]
      y == IF from = 0
           THEN [NoClient EXCEPT !.state = "open", !.live = TRUE, !.topic = topic, !.subj = subj, !.tok = tok, !.pend = pend, !.ridx = s.ridx]
           ELSE [x EXCEPT !.state = "open", !.live = TRUE, !.topic = topic, !.subj = subj, !.tok = tok, !.pend = pend, !.ridx = s.ridx,
                          !.snapidx = 0, !.mode = "resume", !.acc = <<>>]
  IN [s EXCEPT
        !.tbs = (@ \ {tb}) \cup {[tb EXCEPT !.refs = @ + 1]},
        !.cache = IF ~resume /\ ~cached /\ s.ttl THEN @ \cup {[topic |-> topic, subj |-> subj, pend |-> fresh]} ELSE @,
        !.cl[c] = y]

(* GAP.  txn.Commit publishes AFTER the memdb commit and Publish only queues, so a snapshot can contain
   writes whose batches are still queued; those batches are appended behind the snapshot later.
   Property-conforming behaviour: a subscription does not deliver a batch that is OLDER than the
   snapshot it has delivered (index < snapshot index; an equal index is re-delivered, which is
   idempotent and is what makes the rule safe when two transactions share a raft index).
   RESTORE.  A batch of a store that has since been replaced (index <= ridx) is likewise not
   delivered to a subscription started after the restore. *)
Conforming == [gap |-> TRUE, restore |-> TRUE]
AsIs == [gap |-> FALSE, restore |-> FALSE]
Variants == [gap : BOOLEAN, restore : BOOLEAN]

Stale(x, it, g) == it.k = "ev" /\ x.snapidx > 0 /\ ((g.gap /\ it.idx < x.snapidx) \/ (g.restore /\ it.idx <= x.ridx))

RECURSIVE DropStale(_, _, _)
DropStale(x, p, g) == IF p # <<>> /\ Stale(x, Head(p), g) THEN DropStale(x, Tail(p), g) ELSE p

(* Payload.HasReadPermission with the subscriber's authorizer (submatview LocalMaterializer.subscribeOnce,
   grpc subscribe endpoint): the subscriber materializes only what its token may read.  A batch
   (stream.PayloadEvents) is filtered event by event INTO A COPY - the item is shared by every
   subscriber of the subject; a delivery of which nothing is readable is dropped before the handler. *)
Sees(s, tok, e) == ~(tok \in DOMAIN s.deny /\ e.ak \in s.deny[tok])
Readable(s, tok, evs) == SelectSeq(evs, LAMBDA e : Sees(s, tok, e))
ReadableRows(s, tok, rows) == {[id |-> r.id, v |-> r.v] : r \in {r \in rows : Sees(s, tok, r)}}

(* submatview/handler.go (snapshotHandler.handle, eventStreamHandler, resumeStreamHandler) and
   materializer.go updateView (`m.index = index`, unconditionally) / reset *)
Deliver(s, x, it) ==
  LET evs == Readable(s, x.tok, it.evs) IN
  CASE it.k = "ev" /\ evs = <<>> -> x      \* nothing readable: `continue` in front of the handler
    [] it.k = "nstf" /\ x.mode = "resume" -> [x EXCEPT !.view = {}, !.vidx = 0, !.mode = "snap", !.acc = <<>>]
    [] it.k = "eos" /\ x.mode = "snap" -> [x EXCEPT !.view = ApplyEvs(@, x.acc), !.vidx = it.idx, !.mode = "stream",
                                                    !.acc = <<>>, !.snapidx = it.idx]
    [] it.k = "ev" /\ x.mode = "snap" -> [x EXCEPT !.acc = @ \o evs]
    [] it.k = "ev" -> [x EXCEPT !.view = ApplyEvs(@, evs), !.vidx = it.idx, !.mode = "stream"]
    [] OTHER -> x       \* a framing event where the protocol has none: unreachable

(* subscription.go Next (one call) followed by the materializer's handler for the returned event.
   Apply is local to the subscriber and commutes with every other action, so Next+Apply is one step.
   A subscription that is not open returns its close error and never data (requireStateOpen is
   checked first).  g: stale items are passed over inside the call (GAP / RESTORE). *)
NextOp(s, c, g) ==
  LET x == s.cl[c] IN
  IF x.state # "open" THEN [st |-> s, res |-> [k |-> "closed", why |-> x.state, item |-> NoItem]]
  ELSE LET p == DropStale(x, x.pend, g) IN
       IF p = <<>> THEN [st |-> [s EXCEPT !.cl[c].pend = <<>>], res |-> [k |-> "blocked", why |-> "", item |-> NoItem]]
       ELSE [st |-> [s EXCEPT !.cl[c] = Deliver(s, [x EXCEPT !.pend = Tail(p)], Head(p))],
             res |-> [k |-> "data", why |-> "", item |-> Head(p)]]

(* subscription.go Unsubscribe (state changes only if still open) + the freeBuf closure of EventPublisher.Subscribe: drop the reference;
   at zero delete the topic buffer and the cached snapshot spliced onto it *)
UnsubOp(s, c) ==
  LET x == s.cl[c]
      tb == CHOOSE t \in s.tbs : Same(t, x)
      lastref == tb.refs = 1
  IN [s EXCEPT
        !.tbs = IF lastref THEN @ \ {tb} ELSE (@ \ {tb}) \cup {[tb EXCEPT !.refs = @ - 1]},
        !.cache = IF lastref THEN {e \in @ : ~Same(e, x)} ELSE @,
        !.cl[c] = [x EXCEPT !.state = IF @ = "open" THEN "unsub" ELSE @, !.live = FALSE, !.pend = <<>>]]

(* the time.AfterFunc closure of setCachedSnapshotLocked *)
ExpireOp(s, topic, subj) == [s EXCEPT !.cache = {e \in @ : ~(e.topic = topic /\ e.subj = subj)}]

(* fsm.go Restore -> EventPublisher.RefreshAllTopics: evict every cached snapshot, force-close every
   subscription.  Topic buffers and publishCh are left as they are (g.restore = FALSE).
   g.restore = TRUE (RESTORE): what is queued or buffered belongs to the abandoned store and is discarded. *)
RefreshOp(s, g) ==
  [s EXCEPT
     !.cache = {},
     !.cl = [c \in DOMAIN @ |-> [@[c] EXCEPT !.state = IF @ = "open" THEN "force" ELSE @]],
     !.queue = IF g.restore THEN <<>> ELSE @,
     !.tbs = IF g.restore THEN {[t EXCEPT !.last = NoItem] : t \in @} ELSE @]

---------------------------------------------------------------------------
(* The property (C11), stated over one client record x.  Rows(i) is the result of the equivalent
   direct query when the store was at raft index i ; cur is the direct query result now. *)

\* the view was produced by a delivery, or was kept and the server agreed to resume from its index
\* (no newSnapshotToFollow is waiting to reset it): it claims to be the state at x.vidx
Claims(x) == \/ x.mode = "stream"
             \/ x.mode = "resume" /\ x.vidx > 0 /\ x.state = "open" /\ (x.pend = <<>> \/ Head(x.pend).k # "nstf")

\* ViewExact: what the subscriber holds is exactly a direct query result at the delivered index, as far
\* as the subscriber's token may read it (atVidx = the set of results, already restricted with
\* ReadableRows, a direct query can have returned at index x.vidx; one element unless the store
\* changed the result without moving the query's index)
ViewExact(x, atVidx) == Claims(x) => x.view \in atVidx

\* IdxMonotone: a delivery that updates the view never carries an index below what this subscription
\* has already shown (the previous index and the snapshot index); nstf resets (resubscription).
IdxMonotone(x, y) == (y.mode = "stream" /\ y.vidx # x.vidx) => (y.vidx >= x.vidx /\ y.vidx >= x.snapidx)

\* NoSkip: nothing queued, nothing left to read -> the view is the current state
NoSkip(s, x, cur) == (s.queue = <<>> /\ x.state = "open" /\ x.pend = <<>> /\ Claims(x)) => x.view = cur

\* StaleForcesResubscribe, subscription side: a closed subscription yields its error, never data
ClosedNeverData(x, res) == x.state \in {"acl", "force"} => res.k = "closed"
=============================================================================
