SPECIFICATION Spec
CONSTANTS
  Profile = "upd"
  MaxDepth = 2
  R1 = 1
  R2 = 1
  R3 = 0
VIEW View
PROPERTIES PropWellFormed PropMirrorExact PropRemoved PropNonInterference PropList PropExport PropE2E PropIdempotent
CHECK_DEADLOCK FALSE
