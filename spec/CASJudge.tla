------------------------------ MODULE CASJudge ------------------------------
(* Property C10: when does a conditional write match, and the three equivalences, as pure operators. *)
(* Shared by the cell state machine (CAS.tla) and by trace validation (CASTrace.tla).                *)
EXTENDS Integers, Sequences, FiniteSets, TLC

\* how a command type decides that the caller's expectation matches
\*  "set"    : sup = 0 means create-only, otherwise the entity must exist with mi = sup
\*             (kvsSetCASTxn, ensureNodeCASTxn, ensureServiceCASTxn, ensureCheckCASTxn,
\*              ensureConfigEntryCASTxn, aclTokenSetTxn with CAS)
\*  "del"    : the entity must exist with mi = sup (kvsDeleteCASTxn, delete*CASTxn, DeleteConfigEntryCAS);
\*             on an absent entity the property is silent (Unspec)
\*  "cfg"    : (exists /\ mi = sup) \/ (~exists /\ sup = 0)   (CACheckAndSetConfig)
\*  "table"  : the TABLE index must equal sup                  (CARootSetCAS)
\*  "exist"  : exists /\ mi = sup, never creates               (AutopilotCASConfig)
Matched(kind, exists, mi, tix, sup) ==
  CASE kind = "set"   -> (sup = 0 /\ ~exists) \/ (sup # 0 /\ exists /\ mi = sup)
    [] kind = "del"   -> exists /\ mi = sup
    [] kind = "cfg"   -> (exists /\ mi = sup) \/ (~exists /\ sup = 0)
    [] kind = "table" -> tix = sup
    [] kind = "exist" -> exists /\ mi = sup
Unspec(kind, exists) == kind = "del" /\ ~exists

\* --- judgement of one recorded conditional command (used by CASTrace on implementation facts)
\* e : [kind, exists, mi, tix, sup, idx, isdel, newtag, post_exists, post_mi, post_tag, reported, dump_changed]
Applied(e) == IF e.isdel THEN e.exists /\ ~e.post_exists
              ELSE e.post_exists /\ e.post_tag = e.newtag /\ e.post_mi = e.idx
PartMatched(e) == Matched(e.kind, e.exists, e.mi, e.tix, e.sup)
\* m = the command's expectation matched (for a composite: every part matched)
JudgePart(e, m) ==
  LET u == Unspec(e.kind, e.exists)
      a == Applied(e)
  IN   (IF u \/ (a <=> m) THEN {} ELSE {IF a THEN "applied-but-not-matched" ELSE "matched-but-not-applied"})
  \cup (IF u \/ e.reported = "none" \/ ((e.reported = "yes") <=> a) THEN {}
        ELSE {IF a THEN "applied-but-reported-failure" ELSE "reported-success-but-not-applied"})
  \cup (IF a \/ ~e.dump_changed THEN {} ELSE {"failed-write-changed-state"})
  \cup (IF e.reported = "none" /\ ~u /\ ~m THEN {"cannot-report-failure"} ELSE {})

=============================================================================
