SPECIFICATION Spec
CONSTANTS
  Profile = "upd"
  MaxDepth = 2
  R1 = 0
  R2 = 0
  R3 = 0
VIEW View
PROPERTIES EmitProp
CHECK_DEADLOCK FALSE
