-------------------------------- MODULE CAMC --------------------------------
(* Bounded instance of CA for exhaustive checking (CA_mc_*.cfg) and behaviour         *)
(* generation (CA_gen_*.cfg).                                                         *)
(*   Profile "issue": a primary-datacenter leader with an initialised CAManager.      *)
(*      commands: sign(csr, authz) | rotate | reconfig                                *)
(*      The full CSR universe (every IdShape x authorizer family, SAN variants,        *)
(*      0 and 2 URIs) is offered in the first step; later steps use a small set so     *)
(*      that sign/rotate/sign interleavings (serials, chain to the ACTIVE root) are    *)
(*      covered without multiplying the universe.                                      *)
(*   Profile "roots": raw replicated CA commands against the state store.              *)
(*      commands: set-roots | set-config | set-roots-and-config | inc-serial with      *)
(*      matching, stale and zero CAS indexes, valid and invalid root sets.             *)
EXTENDS CA, Json

CONSTANTS Profile, MaxDepth, Universe

VARIABLES st, hist, out
vars == <<st, hist, out>>

Tds == {"own", "ownUpper", "foreign"}
\* further spellings of the authority (CA.tla, td): crossed with the supported kinds only
TdsMore == {"ownUser", "ownPort", "ownUpperPort", "ownEmptyPort", "ownUserPort", "ownDot", "ownBracket", "ipv6"}
Dcs == {"own", "other"}
Encs == {"plain", "pct", "case", "slash"}
Aps == {"none", "default", "other"}
Vars == {"exact", "upper", "slash"}
Names == IF Universe = "wide" THEN {"web", "db"} ELSE {"web"}

Sh(k, td, dc, n, e, ap) == [kind |-> k, td |-> td, dc |-> dc, name |-> n, enc |-> e, ap |-> ap]
Sc(r, n, v) == [res |-> r, name |-> n, var |-> v]

ShapesFull ==
       {Sh(k, td, dc, n, e, ap) : k \in {"service", "agent"}, td \in Tds, dc \in Dcs, n \in Names, e \in Encs, ap \in Aps}
  \cup {Sh("mesh-gateway", td, dc, "", e, ap) : td \in Tds, dc \in Dcs, e \in Encs, ap \in Aps}
  \cup {Sh("server", td, dc, "", e, "none") : td \in Tds, dc \in Dcs, e \in Encs}
  \cup {Sh(k, td, "own", IF k \in {"service", "agent"} THEN "web" ELSE "", "plain", "none")
         : k \in {"service", "agent", "mesh-gateway", "server"}, td \in TdsMore}
  \cup {Sh("signing", td, "own", "", "plain", "none") : td \in Tds}
  \cup {Sh("garbage", "own", "own", "web", e, "none") : e \in Encs}

ShapesCore == {
  Sh("service", "own", "own", "web", "plain", "none"), Sh("service", "own", "own", "web", "case", "none"),
  Sh("service", "foreign", "own", "web", "plain", "none"), Sh("service", "own", "other", "web", "plain", "none"),
  Sh("agent", "own", "own", "web", "plain", "none"), Sh("agent", "foreign", "own", "web", "plain", "none"),
  Sh("agent", "foreign", "own", "web", "pct", "none"),
  Sh("mesh-gateway", "own", "own", "", "plain", "none"), Sh("server", "own", "own", "", "plain", "none"),
  Sh("signing", "own", "own", "", "plain", "none"), Sh("garbage", "own", "own", "web", "plain", "none") }

ScopesU == {Sc("service", n, v) : n \in Names, v \in Vars} \cup {Sc("service", "other", "exact")}
      \cup {Sc("node", n, v) : n \in Names, v \in Vars}
      \cup {Sc("mesh", "", "exact"), Sc("acl", "", "exact")}
AuthzFull == {{}} \cup {{s} : s \in ScopesU} \cup {ScopesU} \cup {ScopesU \ {s} : s \in {Sc("service", "web", "exact"), Sc("node", "web", "exact")}}

Csr(u, d, i, e) == [uris |-> u, dns |-> d, ips |-> i, emails |-> e]
Sign(csr, a) == [t |-> "sign", csr |-> csr, authz |-> a]

\* a request that ASKS to be a CA (basicConstraints CA:TRUE, keyUsage keyCertSign among its extensions): the decision is the
\* same as without them, and whatever is issued is still not a CA (CATrace: leaf-not-ca)
CsrCA(u) == Csr(u, 0, 0, 0) @@ [ext |-> "ca"]
SignFull ==
       {Sign(Csr(<<s>>, 0, 0, 0), a) : s \in ShapesFull, a \in AuthzFull}
  \cup {Sign(CsrCA(<<s>>), ScopesU) : s \in ShapesCore}
  \cup {Sign(Csr(<<s>>, d, i, e), ScopesU) : s \in ShapesCore, d \in {0, 2}, i \in {0, 1}, e \in {0, 1}}
  \cup {Sign(Csr(<<>>, d, 0, 0), ScopesU) : d \in {0, 1}}
  \cup {Sign(Csr(<<s1, s2>>, 0, 0, 0), a) : s1 \in ShapesCore, s2 \in ShapesCore, a \in {ScopesU, {}}}

SignSmall ==
  {Sign(CsrCA(<<Sh("service", "own", "own", "web", "plain", "none")>>), ScopesU)} \cup
  {Sign(Csr(<<s>>, 0, 0, 0), a) :
     s \in {Sh("service", "own", "own", "web", "plain", "none"), Sh("agent", "foreign", "own", "web", "plain", "none"),
            Sh("mesh-gateway", "ownUpper", "own", "", "pct", "none"), Sh("service", "foreign", "own", "web", "plain", "none")},
     a \in {ScopesU, {Sc("service", "other", "exact")}}}

RootIds == <<"r1", "r2", "r3", "r4", "r5", "r6">>
CfgNames == <<"k1", "k2", "k3", "k4", "k5", "k6", "k7", "k8">>
ActiveId(s) == (CHOOSE r \in ActiveRoots(s.roots) : TRUE).id

(* ------------------------------ profile "issue" ----------------------------------- *)
InitIssue == [roots |-> {[id |-> "r1", active |-> TRUE]}, ridx |-> 1, cfg |-> [v |-> "k1", mi |-> 1], seen |-> {1}, idx |-> 1,
              n |-> 0, nr |-> 0]

CmdsIssue(s) ==
  (IF s.n = 0 THEN (IF Universe = "small" THEN SignSmall ELSE SignFull) ELSE SignSmall)
  \cup (IF s.nr < 3 THEN {[t |-> "rotate", race |-> b, to |-> x] : b \in BOOLEAN, x \in {"fresh", "A", "B"}} ELSE {})
  \cup {[t |-> "reconfig", race |-> b, to |-> "fresh"] : b \in BOOLEAN}

\* In the model an "any" decision is resolved the way the code resolves it today: issue.
ApplyIssue(s, c) ==
  LET s1 == [s EXCEPT !.n = @ + 1, !.idx = @ + 1] IN
  CASE c.t = "sign" ->
        LET d == Decide(c.csr, c.authz) IN
        IF d.d = "refuse" THEN [st |-> s1, out |-> [t |-> "refused", why |-> d.why]]
        ELSE LET sn == MaxOf(s.seen) + 1 IN
             [st |-> [s1 EXCEPT !.seen = @ \cup {sn}],
              out |-> [t |-> "issued", leaf |-> [id |-> [d.id EXCEPT !.td = "own"], isca |-> FALSE, serial |-> sn, issuer |-> ActiveId(s)]]]
    [] c.t = "rotate" ->
        \* CAManager.UpdateConfiguration -> primaryUpdateRootCA.  The target is a fresh root or an operator-supplied
        \* one ("A", "B": same key and certificate every time, hence the same root id) that may already be in the set.
        LET target == IF c.to = "fresh" THEN RootIds[Cardinality(s.roots) + 1] ELSE c.to
            m == MaxOf(s.seen)
            s2 == [s1 EXCEPT !.seen = @ \cup {m + 1, m + 2, m + 3}, !.nr = @ + 1]
        IN
        IF target = ActiveId(s) THEN             \* same root: configuration only (CAOpSetConfig), nothing to race with
          [st |-> [s2 EXCEPT !.cfg = [v |-> CfgNames[s.n + 2], mi |-> s1.idx]], out |-> [t |-> "ok"]]
        ELSE IF c.race THEN                      \* RacingRootWrite wins: the manager's conditional write is refused,
          [st |-> RacingRootWrite(s2, s1.idx), out |-> [t |-> "err"]]   \* an error is reported, only the roots index moved
        ELSE
          [st |-> [s2 EXCEPT !.roots = {[id |-> r.id, active |-> FALSE] : r \in {x \in s.roots : x.id # target}}
                                       \cup {[id |-> target, active |-> TRUE]},
                             !.ridx = s1.idx, !.cfg = [v |-> CfgNames[s.n + 2], mi |-> s1.idx]],
           out |-> [t |-> "ok"]]
    [] OTHER ->                                  \* reconfig: same root, CAOpSetConfig only (no roots write to race with)
        [st |-> [s1 EXCEPT !.cfg = [v |-> CfgNames[s.n + 2], mi |-> s1.idx], !.seen = @ \cup {MaxOf(s.seen) + 1}], out |-> [t |-> "ok"]]

(* ------------------------------ profile "roots" ----------------------------------- *)
InitRoots == [roots |-> {}, ridx |-> 0, cfg |-> [v |-> "", mi |-> 0], seen |-> {}, idx |-> 0, n |-> 0, nr |-> 0]

R(id, a) == [id |-> id, active |-> a]
RootSets == {{R("r1", TRUE)}, {R("r1", FALSE), R("r2", TRUE)}, {R("r1", TRUE), R("r2", FALSE)}, {R("r2", TRUE)},
             {R("r1", TRUE), R("r2", TRUE)}, {R("r1", FALSE)}, {}}
RootSetsC == {{R("r1", TRUE)}, {R("r1", FALSE), R("r2", TRUE)}, {R("r1", TRUE), R("r2", TRUE)}}
CasIdx(s) == {0, s.ridx, s.ridx + 1} \cup (IF s.ridx > 1 THEN {s.ridx - 1} ELSE {})
CcasIdx(s) == {0, s.cfg.mi, s.cfg.mi + 1}

CmdsRoots(s) ==
  LET i == s.idx + 1 IN
       {[t |-> "set-roots", idx |-> i, cas |-> k, roots |-> rs] : k \in CasIdx(s), rs \in RootSets}
  \cup {[t |-> "set-config", idx |-> i, ccas |-> k, cfg |-> v] : k \in CcasIdx(s), v \in {"c1", "c2"}}
  \cup {[t |-> "set-roots-and-config", idx |-> i, cas |-> k, roots |-> rs, ccas |-> k2, cfg |-> "c3"]
          : k \in CasIdx(s) \ {0}, rs \in RootSetsC, k2 \in CcasIdx(s)}
  \cup {[t |-> "inc-serial", idx |-> i]}

ApplyRootsProfile(s, c) ==
  LET s1 == [s EXCEPT !.n = @ + 1, !.idx = c.idx] IN
  IF c.t = "inc-serial" THEN LET sn == MaxOf(s.seen) + 1 IN [st |-> [s1 EXCEPT !.seen = @ \cup {sn}], out |-> [t |-> "serial", serial |-> sn]]
  ELSE LET r == ApplyRoot(s1, c) IN [st |-> r.st, out |-> [t |-> "op", ok |-> r.ok]]

\* vacuity guard on the universe itself: every refusal reason, an "issue" and an "any" decision occur in SignFull
\* (every member of SignFull is then executed against the real code by the replay)
Reasons == {"uri-count", "email", "unparsable", "kind", "partition", "trust-domain", "datacenter", "scope"}
UniverseCovers ==
  /\ \A w \in Reasons : \E c \in SignFull : LET d == Decide(c.csr, c.authz) IN d.d = "refuse" /\ d.why = w
  /\ \A k \in {"service", "agent", "mesh-gateway"} : \E c \in SignFull : LET d == Decide(c.csr, c.authz) IN d.d = "issue" /\ d.id.kind = k
  /\ \E c \in SignFull : Decide(c.csr, c.authz).d = "any"
ASSUME UniverseCovers

(* ---------------------------------- behaviour -------------------------------------- *)
Init == st = (IF Profile = "issue" THEN InitIssue ELSE InitRoots) /\ hist = <<>> /\ out = [t |-> "init"]
Cmds(s) == IF Profile = "issue" THEN CmdsIssue(s) ELSE CmdsRoots(s)
Apply(s, c) == IF Profile = "issue" THEN ApplyIssue(s, c) ELSE ApplyRootsProfile(s, c)
Next == /\ st.n < MaxDepth
        /\ \E c \in Cmds(st) : LET r == Apply(st, c) IN st' = r.st /\ out' = r.out /\ hist' = Append(hist, c)
Spec == Init /\ [][Next]_vars

View == st
Emit == PrintT(<<"TRACE", ToJson(hist')>>)
EmitProp == [][Emit]_vars

(* ---------------------------------- properties ------------------------------------- *)
InvOneActive == ExactlyOneActive(st)

\* C12, first sentence, on the model: whatever is issued was requested with exactly one supported identity of
\* this trust domain and datacenter, authorized for exactly that identity, carries it, is no CA, has a fresh
\* serial and is issued by the active root.
IssueStepOK ==
  LET c == hist'[Len(hist')] IN
  (c.t = "sign" /\ out'.t = "issued") =>
     LET lf == out'.leaf  req == Parse(c.csr.uris[1]) IN
       /\ Len(c.csr.uris) = 1 /\ c.csr.emails = 0
       /\ lf.id.kind \in Supported /\ lf.id.td = "own" /\ lf.id.dc = "own"
       /\ (req.td \in OwnTds \/ req.kind = "agent")            \* AgentCSRTrustDomainRewritten is the only rewrite
       /\ SameIdentity(req, lf.id) /\ Scope(lf.id) \in c.authz
       /\ ~lf.isca /\ lf.serial \notin st.seen /\ lf.serial > MaxOf(st.seen)
       /\ lf.issuer \in {r.id : r \in ActiveRoots(st.roots)}
PropIssue == [][IssueStepOK]_vars

\* a reconfiguration that reports an error leaves root set and configuration alone (RacingRootWrite)
\* after a successful rotation exactly one stored root is active and it is the target (a former root included)
RotateStepOK ==
  LET c == hist'[Len(hist')] IN
  (c.t = "rotate" /\ out'.t = "ok") =>
     /\ Cardinality(ActiveRoots(st'.roots)) = 1
     /\ (c.to # "fresh" => ActiveId(st') = c.to)
     /\ {r.id : r \in st.roots} \subseteq {r.id : r \in st'.roots}
     /\ Cardinality({r.id : r \in st'.roots}) = Cardinality(st'.roots)
PropRotate == [][RotateStepOK]_vars

ReconfStepOK == LET c == hist'[Len(hist')] IN (c.t \in {"rotate", "reconfig"} /\ out'.t = "err") => SameRootsAndConfig(st, st')
PropReconf == [][ReconfStepOK]_vars

SerialStepOK == out'.t = "serial" => out'.serial \notin st.seen
PropSerial == [][SerialStepOK]_vars

RootStepOK ==
  LET c == hist'[Len(hist')] IN
  Profile = "roots" /\ c.t # "inc-serial" =>
     /\ RootsReplacedOrKept(st, c, st') /\ NoConfigWithoutRoots(st, c, st') /\ NoRootsWithoutConfig(st, c, st')
     /\ (out'.ok = "no" => st'.roots = st.roots /\ st'.cfg = st.cfg /\ st'.ridx = st.ridx)
PropRootSetAtomic == [][RootStepOK]_vars
=============================================================================
