SPECIFICATION Spec
CONSTANTS
  Kinds = {"acl", "config", "fed"}
  Ids = {1, 2, 3}
  Cs = {1, 2}
  LegacyCs = {1, 2}
  Mis = {1, 2}
  Lasts = {0, 1, 2}
  MaxLegacyL = 0
  MaxLegacyR = 0
  LoIds = {}
  Unhashed = FALSE
  Perms = FALSE
CONSTRAINT OnlyFirstStep
PROPERTIES EmitProp
CHECK_DEADLOCK FALSE
