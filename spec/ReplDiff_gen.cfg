\* Generation: every initial state of ReplDiffMC is printed as one JSON case (quick tier, 'all-3ids').
\* checks/c19.py writes one such file per configuration (tables MC / GEN there); this is the first quick-tier one.
SPECIFICATION Spec
CONSTANTS
  Kinds = {"acl", "config", "fed"}
  Ids = {1, 2, 3}
  Cs = {1, 7}
  LegacyCs = {1}
  Mis = {1, 2}
  Lasts = {1}
  MaxLegacyL = 0
  MaxLegacyR = 0
  LoIds = {}
  Unhashed = FALSE
  Perms = FALSE
  RIdxs = {2}
  Faults = FALSE
  OldCs = {2}
CONSTRAINT OnlyFirstStep
PROPERTIES EmitProp
CHECK_DEADLOCK FALSE
