SPECIFICATION Spec
CONSTANTS
  MaxIdx = 3
  MaxLen = 3
  Variant = "code"
INVARIANTS ReturnsOnlyIf NonZero NeverStuck
CHECK_DEADLOCK FALSE
