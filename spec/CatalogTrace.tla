---------------------------- MODULE CatalogTrace ----------------------------
EXTENDS Catalog, Json
Trace == ndJsonDeserialize("trace.ndjson")
VARIABLE l
Abs(j) == [nodes |-> ToSet(j.nodes), svcs |-> {[s EXCEPT !.ups = ToSet(@)] : s \in ToSet(j.svcs)}, chks |-> ToSet(j.chks),
           coords |-> ToSet(j.coords), gws |-> ToSet(j.gws), topo |-> ToSet(j.topo), kinds |-> ToSet(j.kinds), usage |-> j.usage,
           vips |-> ToSet(j.vips), free |-> j.free, tgw |-> ToSet(j.tgw), igw |-> ToSet(j.igw), nkv |-> j.nkv, ces |-> ToSet(j.ces), sdest |-> ToSet(j.sdest)]
Pre(i) == IF "pre" \in DOMAIN Trace[i] THEN Abs(Trace[i].pre) ELSE Abs(Trace[i - 1].post)
\* a state invariant is charged to the step that breaks it
B(name, P(_), pre, post, first) == IF P(post) \/ (~first /\ ~P(pre)) THEN {} ELSE {name}
Verdict(i) ==
  LET e == Trace[i]  pre == Pre(i)  post == Abs(e.post)  first == "pre" \in DOMAIN e IN
     B("NoOrphanService", NoOrphanService, pre, post, first)
  \cup B("NoOrphanCheck", NoOrphanCheck, pre, post, first)
  \cup B("NoOrphanCoordinate", NoOrphanCoordinate, pre, post, first)
  \cup B("KindNamesComplete", KindNamesComplete, pre, post, first)
  \cup B("KindNamesSound", KindNamesSound, pre, post, first)
  \cup B("ConnectEnabledComplete", ConnectEnabledComplete, pre, post, first)
  \cup B("DestinationNamesComplete", DestinationNamesComplete, pre, post, first)
  \cup B("GatewayRowsJustified", GatewayRowsJustified, pre, post, first)
  \cup B("GatewayExactLinksPresent", GatewayExactLinksPresent, pre, post, first)
  \cup B("WildcardRowsLive", WildcardRowsLive, pre, post, first)
  \cup B("TopologyRefsLive", TopologyRefsLive, pre, post, first)
  \cup B("TopologyRefsComplete", TopologyRefsComplete, pre, post, first)
  \cup B("TopologyRefsJustified", TopologyRefsJustified, pre, post, first)
  \cup B("UsageAgrees", UsageAgrees, pre, post, first)
  \cup B("VipInjective", VipInjective, pre, post, first)
  \cup B("VipPoolDisjoint", VipPoolDisjoint, pre, post, first)
  \cup B("AdvertisedVipCurrentProxy", AdvertisedVipCurrentProxy, pre, post, first)
  \cup B("AdvertisedVipCurrentProxyImported", AdvertisedVipCurrentProxyImported, pre, post, first)
  \cup B("AdvertisedVipCurrentOwn", AdvertisedVipCurrentOwn, pre, post, first)
  \cup B("AdvertisedVipCurrentGateway", AdvertisedVipCurrentGateway, pre, post, first)
  \cup B("AdvertisedVipStaleGatewayLink", AdvertisedVipStaleGatewayLink, pre, post, first)
  \cup (IF CascadeComplete(pre, post) THEN {} ELSE {"CascadeComplete"})
TInit == l = 1
TNext == /\ l <= Len(Trace)
         /\ LET v == Verdict(l) IN IF v = {} THEN TRUE ELSE PrintT(<<"REJECT", l, v>>)
         /\ l' = l + 1
TSpec == TInit /\ [][TNext]_l
=============================================================================
