------------------------------- MODULE Store -------------------------------
(***************************************************************************)
(* The Raft-replicated FSM of consul (agent/consul/fsm + agent/consul/state) *)
(* as a FUNCTION  Apply(st, cmd) = [st |-> st', res |-> result].             *)
(*                                                                           *)
(* Functional style on purpose (DESIGN.md 2.1): the exhaustive model, the    *)
(* behaviour generator and the trace specification all call the same         *)
(* operator; the trace specification calls it on the *recorded               *)
(* implementation pre-state*.                                                *)
(*                                                                           *)
(* Abstract state record  st :                                               *)
(*   idx    last applied raft index                                          *)
(*   kv     set of [k, v, f, s, li, ci, mi]   k = key as a sequence of bytes *)
(*   tombs  set of [k, i]                     KV graveyard                   *)
(*   sess   set of [id, node, beh, checks, name, ci]                         *)
(*   schk   set of [node, check, sess]        session -> check links         *)
(*   nodes  set of [name, id]                                                *)
(*   svcs   set of [node, id, name, mi]  (mi = modify index: ensureServiceTxn   *)
(*          moves it only when the registration differs from the stored one) *)
(*   chks   set of [node, id, status, svc, typ, sname]                       *)
(*   pq     set of [id, sess]                 prepared queries (session link)*)
(*   coords set of node names having a coordinate                            *)
(*   tix    [table name -> index]  rows "kvs","tombstones","sessions",       *)
(*          "prepared-queries" of the index table                            *)
(* One operator per critical section of the code; the name of the Go         *)
(* function it transcribes is given in the comment.                          *)
(***************************************************************************)
EXTENDS Integers, Sequences, FiniteSets, SequencesExt, TLC

Nil  == [t |-> "nil"]
Bool(b) == [t |-> "bool", v |-> b]
Err  == [t |-> "err"]
Str(s) == [t |-> "str", v |-> s]

InitState ==
  [idx |-> 0, kv |-> {}, tombs |-> {}, sess |-> {}, schk |-> {}, nodes |-> {},
   svcs |-> {}, chks |-> {}, pq |-> {}, coords |-> {}, tix |-> <<>>,
   \* lock delay (state/session.go deleteSessionTxn, state/delay.go): lds = sessions created with a positive lock delay,
   \* delayed = keys inside their lock-delay window.  The window is leader-local wall-clock state: it is opened by the
   \* invalidation of the holding session, closed by the timer action DelayExpires, and ENFORCED only in front of Raft
   \* (EndpointApply below), never by the FSM.
   lds |-> {}, delayed |-> {}]

---------------------------------------------------------------------------
(* index table *)
Tix(st, n) == IF n \in DOMAIN st.tix THEN st.tix[n] ELSE 0
TixSet(st, n, v) ==
  [st EXCEPT !.tix = [x \in (DOMAIN st.tix) \cup {n} |-> IF x = n THEN v ELSE st.tix[x]]]
MaxOf(S) == IF S = {} THEN 0 ELSE CHOOSE x \in S : \A y \in S : y <= x

---------------------------------------------------------------------------
(* KV : kvs.go, kvs_ce.go, graveyard.go *)
KvHas(st, k) == \E e \in st.kv : e.k = k
KvGet(st, k) == CHOOSE e \in st.kv : e.k = k
KvPut(st, e) == [st EXCEPT !.kv = {x \in @ : x.k # e.k} \cup {e}]
KvDel(st, k) == [st EXCEPT !.kv = {x \in @ : x.k # k}]
TombPut(st, k, i) == [st EXCEPT !.tombs = {x \in @ : x.k # k} \cup {[k |-> k, i |-> i]}]

\* kvsSetTxn(tx, idx, entry, updateSession) ; returns the new state and the entry as the
\* caller sees it afterwards (the txn API returns it)
KvSetTxn(st, idx, ent, updSess) ==
  LET has == KvHas(st, ent.k)
      ex  == KvGet(st, ent.k)
      ci  == IF has THEN ex.ci ELSE idx
      s   == IF updSess THEN ent.s ELSE IF has THEN ex.s ELSE ""
      cand == [k |-> ent.k, v |-> ent.v, f |-> ent.f, s |-> s, li |-> ent.li, ci |-> ci, mi |-> idx]
      same == has /\ ex.li = cand.li /\ ex.f = cand.f /\ ex.v = cand.v /\ ex.s = cand.s
  IN IF same THEN [st |-> st, ent |-> [cand EXCEPT !.mi = ex.mi]]
     ELSE [st |-> TixSet(KvPut(st, cand), "kvs", idx), ent |-> cand]

\* kvsDeleteTxn
KvDeleteTxn(st, idx, k) ==
  IF ~KvHas(st, k) THEN st
  ELSE TixSet(KvDel(TixSet(TombPut(st, k, idx), "tombstones", idx), k), "kvs", idx)

\* kvsDeleteTreeTxn
KvDeleteTreeTxn(st, idx, p) ==
  LET hit == {e \in st.kv : IsPrefix(p, e.k)} IN
  IF hit = {} THEN st
  ELSE LET s1 == [st EXCEPT !.kv = @ \ hit]
           \* deleting the whole tree leaves no tombstone; the graveyard is emptied instead so that
           \* every prefix listing falls back to the table index (which this delete advances)
           s2 == IF p # <<>> THEN TixSet(TombPut(s1, p, idx), "tombstones", idx) ELSE [s1 EXCEPT !.tombs = {}]
       IN TixSet(s2, "kvs", idx)

SessHas(st, id) == \E s \in st.sess : s.id = id
SessGet(st, id) == CHOOSE s \in st.sess : s.id = id

\* kvsSetCASTxn ; [st, ok, ent]
KvCasTxn(st, idx, ent) ==
  LET has == KvHas(st, ent.k)  ex == KvGet(st, ent.k) IN
  IF (ent.mi = 0 /\ has) \/ (ent.mi # 0 /\ ~has) \/ (has /\ ent.mi # 0 /\ ent.mi # ex.mi)
  THEN [st |-> st, ok |-> FALSE, err |-> FALSE, ent |-> ent]
  ELSE LET r == KvSetTxn(st, idx, ent, FALSE) IN [st |-> r.st, ok |-> TRUE, err |-> FALSE, ent |-> r.ent]

\* kvsLockTxn
KvLockTxn(st, idx, ent) ==
  IF ent.s = "" \/ ~SessHas(st, ent.s) THEN [st |-> st, ok |-> FALSE, err |-> TRUE, ent |-> ent]
  ELSE LET has == KvHas(st, ent.k)  ex == KvGet(st, ent.k) IN
    IF has /\ ex.s # ent.s /\ ex.s # "" THEN [st |-> st, ok |-> FALSE, err |-> FALSE, ent |-> ent]
    ELSE LET li == IF ~has THEN 1 ELSE IF ex.s = ent.s THEN ex.li ELSE ex.li + 1
             r  == KvSetTxn(st, idx, [ent EXCEPT !.li = li], TRUE)
         IN [st |-> r.st, ok |-> TRUE, err |-> FALSE, ent |-> r.ent]

\* kvsUnlockTxn
KvUnlockTxn(st, idx, ent) ==
  IF ent.s = "" THEN [st |-> st, ok |-> FALSE, err |-> TRUE, ent |-> ent]
  ELSE LET has == KvHas(st, ent.k)  ex == KvGet(st, ent.k) IN
    IF ~has \/ ex.s # ent.s THEN [st |-> st, ok |-> FALSE, err |-> FALSE, ent |-> ent]
    ELSE LET r == KvSetTxn(st, idx, [ent EXCEPT !.s = "", !.li = ex.li], TRUE)
         IN [st |-> r.st, ok |-> TRUE, err |-> FALSE, ent |-> r.ent]

\* kvsDeleteCASTxn ; on an absent key the code answers TRUE and changes nothing.
\* The property is silent there (DESIGN "DeleteCASAbsentKey"): res "any" = either boolean.
KvDeleteCasTxn(st, idx, k, cidx) ==
  IF ~KvHas(st, k) THEN [st |-> st, ok |-> TRUE, unspec |-> TRUE]
  ELSE IF KvGet(st, k).mi # cidx THEN [st |-> st, ok |-> FALSE, unspec |-> FALSE]
  ELSE [st |-> KvDeleteTxn(st, idx, k), ok |-> TRUE, unspec |-> FALSE]

\* Graveyard.ReapTxn
Reap(st, upto) == [st EXCEPT !.tombs = {t \in @ : t.i > upto}]

---------------------------------------------------------------------------
(* reads *)
KeyLess(a, b) == \E i \in 1..Len(b) : /\ i - 1 <= Len(a) /\ SubSeq(a, 1, i-1) = SubSeq(b, 1, i-1)
                                      /\ (i > Len(a) \/ a[i] < b[i])
KVList(st, p) == SetToSortSeq({x \in st.kv : IsPrefix(p, x.k)}, LAMBDA a, b : KeyLess(a.k, b.k))
\* KVS.ListKeys (kvs_endpoint.go): keys under the prefix, cut after the first separator that follows
\* the prefix, duplicates dropped, order kept
FirstSep(after, sep) ==
  IF sep = <<>> THEN 0
  ELSE LET hits == {i \in 1..(Len(after) - Len(sep) + 1) : SubSeq(after, i, i + Len(sep) - 1) = sep}
       IN IF hits = {} THEN 0 ELSE CHOOSE i \in hits : \A j \in hits : i <= j
CutKey(k, p, sep) ==
  LET i == FirstSep(SubSeq(k, Len(p) + 1, Len(k)), sep)
  IN IF i = 0 THEN k ELSE SubSeq(k, 1, Len(p) + i + Len(sep) - 1)
RECURSIVE Dedup(_, _)
Dedup(s, seen) == IF s = <<>> THEN <<>>
                  ELSE IF Head(s) \in seen THEN Dedup(Tail(s), seen)
                  ELSE <<Head(s)>> \o Dedup(Tail(s), seen \cup {Head(s)})
KVKeys(st, p, sep) ==
  LET l == KVList(st, p) IN
  IF sep = <<>> THEN [i \in DOMAIN l |-> l[i].k]
  ELSE Dedup([i \in DOMAIN l |-> CutKey(l[i].k, p, sep)], {})
\* kvsListTxn index rule
KVTableIdx(st) == IF Tix(st, "kvs") > Tix(st, "tombstones") THEN Tix(st, "kvs") ELSE Tix(st, "tombstones")
KVListIdx(st, p) ==
  \* tombstones under the prefix, and tombstones of ANCESTORS of the prefix (a recursive delete of "a"
  \* leaves its tombstone at "a" and covers a later listing of "a/b")
  LET l == MaxOf({x.mi : x \in {x \in st.kv : IsPrefix(p, x.k)}}
                 \cup {t.i : t \in {t \in st.tombs : IsPrefix(p, t.k) \/ IsPrefix(t.k, p)}})
      sub == IF p = <<>> THEN KVTableIdx(st) ELSE l
  IN IF sub # 0 THEN sub ELSE KVTableIdx(st)

---------------------------------------------------------------------------
(* sessions : session.go deleteSessionTxn and the catalog cascades that reach it *)

ChkHas(st, n, c) == \E x \in st.chks : x.node = n /\ x.id = c
ChkGet(st, n, c) == CHOOSE x \in st.chks : x.node = n /\ x.id = c
NodeHas(st, n) == \E x \in st.nodes : x.name = n

RECURSIVE DeleteSession(_, _, _)
RECURSIVE SetSessionChecks(_, _, _, _, _)
RECURSIVE DeleteSessions(_, _, _)

\* fold DeleteSession over a set of ids (order is irrelevant for the abstract state; TLC
\* checks that claim through the CHOOSE-free formulation below: we pick the minimum id)
DeleteSessions(st, idx, ids) ==
  IF ids = {} THEN st
  ELSE LET id == CHOOSE x \in ids : TRUE IN DeleteSessions(DeleteSession(st, idx, id), idx, ids \ {id})

\* updateSessionCheck: every check of the session's node with Type "session" and the
\* session's name gets the status; a critical status invalidates the sessions bound to
\* that check (ensureCheckTxn)
SetSessionChecks(st, idx, node, name, status) ==
  LET hit == {c \in st.chks : c.node = node /\ c.typ = "session" /\ c.sname = name /\ c.status # status} IN
  IF hit = {} THEN
     \* checks already in that status are still passed through ensureCheckTxn, which for
     \* "critical" deletes the bound sessions again
     IF status = "critical" THEN
        LET bound == {m.sess : m \in {m \in st.schk : \E c \in st.chks :
                        c.node = node /\ c.typ = "session" /\ c.sname = name /\ m.node = node /\ m.check = c.id}} IN
        IF bound \cap {s.id : s \in st.sess} = {} THEN st ELSE DeleteSessions(st, idx, bound)
     ELSE st
  ELSE LET c == CHOOSE x \in hit : TRUE
           s1 == [st EXCEPT !.chks = (@ \ {c}) \cup {[c EXCEPT !.status = status]}]
           bound == {m.sess : m \in {m \in s1.schk : m.node = node /\ m.check = c.id}}
           s2 == IF status = "critical" THEN DeleteSessions(s1, idx, bound) ELSE s1
       IN SetSessionChecks(s2, idx, node, name, status)

DeleteSession(st, idx, id) ==
  IF ~SessHas(st, id) THEN st
  ELSE
    LET s    == SessGet(st, id)
        s1   == TixSet([st EXCEPT !.sess = @ \ {s}], "sessions", idx)
        held == {e \in s1.kv : e.s = id}
        \* release: kvsSetTxn(e with Session = "", updateSession) ; delete: kvsDeleteTxn
        s2   == IF held = {} THEN s1
                ELSE IF s.beh = "delete"
                THEN TixSet(TixSet([s1 EXCEPT !.kv = @ \ held,
                                              !.tombs = {t \in @ : \A e \in held : t.k # e.k}
                                                        \cup {[k |-> e.k, i |-> idx] : e \in held}],
                                   "tombstones", idx), "kvs", idx)
                ELSE TixSet([s1 EXCEPT !.kv = (@ \ held) \cup {[e EXCEPT !.s = "", !.mi = idx] : e \in held}],
                            "kvs", idx)
        \* every key the session held enters its lock-delay window, whether it was released or deleted
        s3   == [s2 EXCEPT !.schk = {m \in @ : m.sess # id},
                           !.delayed = IF id \in st.lds THEN @ \cup {e.k : e \in held} ELSE @,
                           !.lds = @ \ {id}]
        s4   == IF \E q \in s3.pq : q.sess = id
                THEN TixSet([s3 EXCEPT !.pq = {q \in @ : q.sess # id}], "prepared-queries", idx)
                ELSE s3
    IN SetSessionChecks(s4, idx, s.node, s.name, "critical")

\* sessionCreateTxn
HasDelay(c) == "delay" \in DOMAIN c /\ c.delay = "yes"
SessionCreate(st, idx, c) ==
  LET beh == IF c.beh = "" THEN "release" ELSE c.beh
      chkOK == \A cid \in c.checks :
                 /\ ChkHas(st, c.node, cid)
                 /\ LET h == ChkGet(st, c.node, cid) IN ~(h.status = "critical" /\ h.typ # "session")
  IN
  IF c.id = "" \/ beh \notin {"release", "delete"} \/ ~NodeHas(st, c.node) \/ ~chkOK
  THEN [st |-> st, res |-> Err]
  ELSE
    LET row == [id |-> c.id, node |-> c.node, beh |-> beh, checks |-> c.checks, name |-> c.name, ci |-> idx]
        s1  == [st EXCEPT !.sess = {x \in @ : x.id # c.id} \cup {row},
                          !.lds = IF HasDelay(c) THEN @ \cup {c.id} ELSE @ \ {c.id},
                          !.schk = @ \cup {[node |-> c.node, check |-> cid, sess |-> c.id] : cid \in c.checks}]
        s2  == TixSet(s1, "sessions", idx)
    IN [st |-> SetSessionChecks(s2, idx, c.node, c.name, "passing"), res |-> Str(c.id)]

---------------------------------------------------------------------------
(* catalog, base tables only : catalog.go ensureRegistrationTxn / delete*Txn *)

SvcHas(st, n, s) == \E x \in st.svcs : x.node = n /\ x.id = s

RECURSIVE DeleteChecks(_, _, _)
\* deleteCheckTxn
DeleteCheck(st, idx, n, c) ==
  IF ~ChkHas(st, n, c) THEN st
  ELSE LET s1 == [st EXCEPT !.chks = {x \in @ : ~(x.node = n /\ x.id = c)}]
           bound == {m.sess : m \in {m \in s1.schk : m.node = n /\ m.check = c}}
       IN DeleteSessions(s1, idx, bound)
DeleteChecks(st, idx, cs) ==
  IF cs = {} THEN st
  ELSE LET c == CHOOSE x \in cs : TRUE IN DeleteChecks(DeleteCheck(st, idx, c.node, c.id), idx, cs \ {c})

\* deleteServiceTxn
DeleteService(st, idx, n, s) ==
  IF ~SvcHas(st, n, s) THEN st
  ELSE LET s1 == DeleteChecks(st, idx, {c \in st.chks : c.node = n /\ c.svc = s})
       IN [s1 EXCEPT !.svcs = {x \in @ : ~(x.node = n /\ x.id = s)}]

\* deleteNodeTxn
DeleteNode(st, idx, n) ==
  IF ~NodeHas(st, n) THEN st
  ELSE LET s1 == DeleteChecks(st, idx, {c \in st.chks : c.node = n})   \* service checks + node checks
           s2 == [s1 EXCEPT !.svcs = {x \in @ : x.node # n},
                            !.coords = @ \ {n},
                            !.nodes = {x \in @ : x.name # n}]
       IN DeleteSessions(s2, idx, {s.id : s \in {s \in s2.sess : s.node = n}})

\* ensureNodeTxn restricted to what the listed properties look at: identity by name, rename by ID.
\* The rename guard (ensureNoNodeWithSimilarNameTxn) is modelled: a different node with the new
\* name whose serf health is not critical blocks the rename.
SerfHealthy(st, n) == ChkHas(st, n, "serfHealth") /\ ChkGet(st, n, "serfHealth").status # "critical"
EnsureNode(st, idx, name, id) ==
  LET byId == {x \in st.nodes : id # "" /\ x.id = id}
      clash(allowNoId) == \E e \in st.nodes : e.name = name /\ e.id # id
                             /\ (e.id # "" \/ ~allowNoId) /\ SerfHealthy(st, e.name)
  IN
  IF byId # {} THEN
     LET old == CHOOSE x \in byId : TRUE IN
     IF old.name = name THEN [st |-> st, err |-> FALSE]
     ELSE IF clash(FALSE) THEN [st |-> st, err |-> TRUE]
     ELSE LET s1 == DeleteNode(st, idx, old.name)
          IN [st |-> [s1 EXCEPT !.nodes = {x \in @ : x.name # name} \cup {[name |-> name, id |-> id]}], err |-> FALSE]
  ELSE IF id # "" /\ clash(TRUE) THEN [st |-> st, err |-> TRUE]
  ELSE [st |-> [st EXCEPT !.nodes = {x \in @ : x.name # name} \cup {[name |-> name, id |-> id]}], err |-> FALSE]

\* ensureCheckTxn
EnsureCheck(st, idx, n, c) ==
  LET status == IF c.status = "" THEN "critical" ELSE c.status IN
  IF ~NodeHas(st, n) \/ (c.svc # "" /\ ~SvcHas(st, n, c.svc)) THEN [st |-> st, err |-> TRUE]
  ELSE LET row == [node |-> n, id |-> c.id, status |-> status, svc |-> c.svc, typ |-> c.typ, sname |-> c.sname]
           s1  == [st EXCEPT !.chks = {x \in @ : ~(x.node = n /\ x.id = c.id)} \cup {row}]
           bound == {m.sess : m \in {m \in s1.schk : m.node = n /\ m.check = c.id}}
       IN [st |-> IF status = "critical" THEN DeleteSessions(s1, idx, bound) ELSE s1, err |-> FALSE]

\* ensureServiceTxn at this level of abstraction: an identical registration changes nothing (IsSameService), anything else
\* is stored with the command's index
SvcPut(st, idx, n, id, name) ==
  IF \E x \in st.svcs : x.node = n /\ x.id = id /\ x.name = name THEN st
  ELSE [st EXCEPT !.svcs = {x \in @ : ~(x.node = n /\ x.id = id)} \cup {[node |-> n, id |-> id, name |-> name, mi |-> idx]}]
SvcMi(st, n, id) == IF SvcHas(st, n, id) THEN (CHOOSE x \in st.svcs : x.node = n /\ x.id = id).mi ELSE 0

\* ensureRegistrationTxn : node, optional service, optional check
Register(st, idx, c) ==
  LET nodeKnown == \E x \in st.nodes : x.name = c.node /\ x.id = c.nid
      r1 == IF nodeKnown THEN [st |-> st, err |-> FALSE] ELSE EnsureNode(st, idx, c.node, c.nid)
  IN IF r1.err THEN [st |-> st, res |-> Err]
     ELSE LET s2 == IF c.hassvc
                    THEN SvcPut(r1.st, idx, c.node, c.svc.id, c.svc.name)
                    ELSE r1.st
              r3 == IF c.haschk THEN EnsureCheck(s2, idx, c.node, c.chk) ELSE [st |-> s2, err |-> FALSE]
          IN IF r3.err THEN [st |-> st, res |-> Err] ELSE [st |-> r3.st, res |-> Nil]

Deregister(st, idx, c) ==
  [st |-> IF c.svc # "" THEN DeleteService(st, idx, c.node, c.svc)
          ELSE IF c.chk # "" THEN DeleteCheck(st, idx, c.node, c.chk)
          ELSE DeleteNode(st, idx, c.node),
   res |-> Nil]

\* prepared_query.go PreparedQuerySet / Delete, session-binding part only
PQSet(st, idx, c) ==
  IF c.sess # "" /\ ~SessHas(st, c.sess) THEN [st |-> st, res |-> Err]
  ELSE [st |-> TixSet([st EXCEPT !.pq = {q \in @ : q.id # c.id} \cup {[id |-> c.id, sess |-> c.sess]}],
                      "prepared-queries", idx), res |-> Nil]
PQDelete(st, idx, c) ==
  IF ~\E q \in st.pq : q.id = c.id THEN [st |-> st, res |-> Nil]
  ELSE [st |-> TixSet([st EXCEPT !.pq = {q \in @ : q.id # c.id}], "prepared-queries", idx), res |-> Nil]

---------------------------------------------------------------------------
(* direct KV commands : fsm/commands_ce.go applyKVSOperation *)
Ent(c) == [k |-> c.k, v |-> c.v, f |-> c.f, s |-> c.s, li |-> c.li, mi |-> c.mi]

ApplyKV(st, idx, c) ==
  CASE c.op = "set"         -> [st |-> KvSetTxn(st, idx, Ent(c), FALSE).st, res |-> Nil]
    [] c.op = "delete"      -> [st |-> KvDeleteTxn(st, idx, c.k), res |-> Nil]
    [] c.op = "delete-tree" -> [st |-> KvDeleteTreeTxn(st, idx, c.k), res |-> Nil]
    [] c.op = "delete-cas"  -> LET r == KvDeleteCasTxn(st, idx, c.k, c.mi) IN
                               [st |-> r.st, res |-> IF r.unspec THEN [t |-> "bool", unspec |-> TRUE] ELSE Bool(r.ok)]
    [] c.op = "cas"         -> LET r == KvCasTxn(st, idx, Ent(c)) IN [st |-> r.st, res |-> Bool(r.ok)]
    [] c.op = "lock"        -> LET r == KvLockTxn(st, idx, Ent(c)) IN
                               [st |-> r.st, res |-> IF r.err THEN Err ELSE Bool(r.ok)]
    [] c.op = "unlock"      -> LET r == KvUnlockTxn(st, idx, Ent(c)) IN
                               [st |-> r.st, res |-> IF r.err THEN Err ELSE Bool(r.ok)]
    [] OTHER                -> [st |-> st, res |-> Err]

---------------------------------------------------------------------------
(* transactions : txn.go txnDispatch.  Every op runs against the working copy even after an *)
(* earlier op failed; errors are collected with their op index; any error aborts everything. *)
(* An op returns [st, err, out] with err \in {"no","yes","any"} ("any": the property does not *)
(* say whether this is an error).                                                            *)

E(b) == IF b THEN "yes" ELSE "no"
Strip(e) == [e EXCEPT !.v = ""]
TxnKV(st, idx, o) ==
  LET e == Ent(o) IN
  CASE o.verb = "set" -> LET r == KvSetTxn(st, idx, e, FALSE) IN [st |-> r.st, err |-> "no", out |-> <<Strip(r.ent)>>]
    [] o.verb = "delete" -> [st |-> KvDeleteTxn(st, idx, o.k), err |-> "no", out |-> <<>>]
    [] o.verb = "delete-tree" -> [st |-> KvDeleteTreeTxn(st, idx, o.k), err |-> "no", out |-> <<>>]
    [] o.verb = "delete-cas" -> LET r == KvDeleteCasTxn(st, idx, o.k, o.mi) IN
                                [st |-> r.st, err |-> IF r.unspec THEN "any" ELSE E(~r.ok), out |-> <<>>]
    [] o.verb = "cas" -> LET r == KvCasTxn(st, idx, e) IN
                         [st |-> r.st, err |-> E(~r.ok), out |-> IF r.ok THEN <<Strip(r.ent)>> ELSE <<>>]
    [] o.verb = "lock" -> LET r == KvLockTxn(st, idx, e) IN
                          [st |-> r.st, err |-> E(r.err \/ ~r.ok), out |-> IF r.ok THEN <<Strip(r.ent)>> ELSE <<>>]
    [] o.verb = "unlock" -> LET r == KvUnlockTxn(st, idx, e) IN
                            [st |-> r.st, err |-> E(r.err \/ ~r.ok), out |-> IF r.ok THEN <<Strip(r.ent)>> ELSE <<>>]
    [] o.verb = "get" -> IF KvHas(st, o.k) THEN [st |-> st, err |-> "no", out |-> <<KvGet(st, o.k)>>]
                         ELSE [st |-> st, err |-> "yes", out |-> <<>>]
    [] o.verb = "get-or-empty" ->
         IF KvHas(st, o.k) THEN [st |-> st, err |-> "no", out |-> <<KvGet(st, o.k)>>]
         ELSE [st |-> st, err |-> "no", out |-> <<[k |-> o.k, v |-> "", f |-> o.f, s |-> o.s, li |-> o.li, ci |-> 0, mi |-> o.mi]>>]
    [] o.verb = "get-tree" -> [st |-> st, err |-> "no", out |-> KVList(st, o.k)]
    [] o.verb = "check-session" ->
         IF KvHas(st, o.k) /\ KvGet(st, o.k).s = o.s THEN [st |-> st, err |-> "no", out |-> <<Strip(KvGet(st, o.k))>>]
         ELSE [st |-> st, err |-> "yes", out |-> <<>>]
    [] o.verb = "check-index" ->
         IF KvHas(st, o.k) /\ KvGet(st, o.k).mi = o.mi THEN [st |-> st, err |-> "no", out |-> <<Strip(KvGet(st, o.k))>>]
         ELSE [st |-> st, err |-> "yes", out |-> <<>>]
    [] o.verb = "check-not-exists" ->
         IF KvHas(st, o.k) THEN [st |-> st, err |-> "yes", out |-> <<>>] ELSE [st |-> st, err |-> "no", out |-> <<>>]
    [] OTHER -> [st |-> st, err |-> "yes", out |-> <<>>]

\* session-delete inside a transaction must be the same cascade as a destroy (property C04).
\* An absent session: the code reports an error (memdb not-found); the property is silent: any.
TxnSession(st, idx, o) ==
  IF ~SessHas(st, o.id) THEN [st |-> st, err |-> "any", out |-> <<>>]
  ELSE [st |-> DeleteSession(st, idx, o.id), err |-> "no", out |-> <<>>]

\* node / service / check verbs at base-table level (results carry no payload in this view)
TxnNode(st, idx, o) ==
  CASE o.verb = "set" -> LET r == EnsureNode(st, idx, o.node, o.nid) IN [st |-> r.st, err |-> E(r.err), out |-> <<>>]
    [] o.verb = "delete" -> [st |-> DeleteNode(st, idx, o.node), err |-> "no", out |-> <<>>]
    [] o.verb = "get" -> [st |-> st, err |-> E(~NodeHas(st, o.node)), out |-> <<>>]
    [] OTHER -> [st |-> st, err |-> "yes", out |-> <<>>]
TxnService(st, idx, o) ==
  CASE o.verb = "set" -> IF ~NodeHas(st, o.node) THEN [st |-> st, err |-> "yes", out |-> <<>>]
                         ELSE [st |-> SvcPut(st, idx, o.node, o.id, o.name), err |-> "no", out |-> <<>>]
    \* ensureServiceCASTxn: index 0 = "must not exist"; otherwise the stored modify index must be the supplied one;
    \* a failed comparison is an ERROR of the operation (and so aborts the transaction - C05, C10)
    [] o.verb = "cas" -> LET has == SvcHas(st, o.node, o.id) IN
                         IF ~NodeHas(st, o.node) \/ (o.mi = 0 /\ has) \/ (o.mi # 0 /\ ~has) \/ (has /\ o.mi # SvcMi(st, o.node, o.id))
                         THEN [st |-> st, err |-> "yes", out |-> <<>>]
                         ELSE [st |-> SvcPut(st, idx, o.node, o.id, o.name), err |-> "no", out |-> <<>>]
    [] o.verb = "delete" -> [st |-> DeleteService(st, idx, o.node, o.id), err |-> "no", out |-> <<>>]
    [] o.verb = "get" -> [st |-> st, err |-> E(~SvcHas(st, o.node, o.id)), out |-> <<>>]
    [] OTHER -> [st |-> st, err |-> "yes", out |-> <<>>]
TxnCheck(st, idx, o) ==
  CASE o.verb = "set" -> LET r == EnsureCheck(st, idx, o.node, o.chk) IN [st |-> r.st, err |-> E(r.err), out |-> <<>>]
    [] o.verb = "delete" -> [st |-> DeleteCheck(st, idx, o.node, o.chk.id), err |-> "no", out |-> <<>>]
    [] o.verb = "get" -> [st |-> st, err |-> E(~ChkHas(st, o.node, o.chk.id)), out |-> <<>>]
    [] OTHER -> [st |-> st, err |-> "yes", out |-> <<>>]

TxnOp(st, idx, o) ==
  CASE o.fam = "kv" -> TxnKV(st, idx, o)
    [] o.fam = "sess" -> TxnSession(st, idx, o)
    [] o.fam = "node" -> TxnNode(st, idx, o)
    [] o.fam = "svc" -> TxnService(st, idx, o)
    [] o.fam = "chk" -> TxnCheck(st, idx, o)
    [] OTHER -> [st |-> st, err |-> "yes", out |-> <<>>]

RECURSIVE TxnFold(_, _, _, _, _, _, _)
\* errs: op indexes (0-based) that definitely fail ; unk: indexes whose failure is unspecified
TxnFold(st, idx, ops, i, errs, unk, outs) ==
  IF i > Len(ops) THEN [st |-> st, errs |-> errs, unk |-> unk, outs |-> outs]
  ELSE LET r == TxnOp(st, idx, ops[i]) IN
       TxnFold(r.st, idx, ops, i + 1,
               IF r.err = "yes" THEN errs \cup {i - 1} ELSE errs,
               IF r.err = "any" THEN unk \cup {i - 1} ELSE unk,
               outs \o r.out)

\* res.ok \in {"yes","no","any"} ; st = the state if the transaction commits ; an aborted
\* transaction leaves the pre-state (with nothing changed at all - C05)
ApplyTxn(st, idx, c) ==
  LET r == TxnFold(st, idx, c.ops, 1, {}, {}, <<>>) IN
  IF r.errs # {} THEN [st |-> st, res |-> [t |-> "txn", ok |-> "no", errs |-> r.errs, unk |-> r.unk, outs |-> <<>>]]
  ELSE [st |-> r.st, res |-> [t |-> "txn", ok |-> IF r.unk # {} THEN "any" ELSE "yes", errs |-> {}, unk |-> r.unk, outs |-> r.outs]]

---------------------------------------------------------------------------
ApplyAt(st0, idx, c) ==
  LET st == [st0 EXCEPT !.idx = idx] IN
  CASE c.t = "kv"    -> ApplyKV(st, idx, c)
    [] c.t = "sess"  -> IF c.op = "create" THEN SessionCreate(st, idx, c)
                        ELSE IF c.op = "destroy" THEN [st |-> DeleteSession(st, idx, c.id), res |-> Nil]
                        \* Session.Renew re-arms the leader's TTL timer: no replicated state changes, no error even for an unknown id
                        ELSE IF c.op = "renew" THEN [st |-> st0, res |-> Nil]
                        ELSE [st |-> st, res |-> Err]
    [] c.t = "reg"   -> Register(st, idx, c)
    [] c.t = "dereg" -> Deregister(st, idx, c)
    [] c.t = "reap"  -> [st |-> Reap(st, c.upto), res |-> Nil]
    [] c.t = "pq"    -> IF c.op = "set" THEN PQSet(st, idx, c) ELSE PQDelete(st, idx, c)
    [] c.t = "txn"   -> ApplyTxn(st, idx, c)
    [] OTHER         -> [st |-> st, res |-> Err]

\* Session TTL (session_ttl.go): the invalidation of a session by the leader's timer is the command "destroy via ttl".  The
\* contract is a lower bound only - never before the TTL has elapsed since the creation or the last renewal (the leader
\* in fact waits twice as long); TTLMayExpire is the enabling condition of that timer step.
TTLMayExpire(ttl_ms, age_ms) == age_ms >= ttl_ms

\* Lock delay.  DelayExpires is the timer of state/delay.go; EndpointApply is what KVS.Apply / Txn.Apply (kvs_endpoint.go
\* kvsPreApply) put in front of Raft: a lock on a key inside its window is refused WITHOUT a Raft write - a direct lock
\* answers false, a transaction carrying such a lock is rejected as a whole with an error for that op.  `edge` = keys
\* whose window ends within the clock uncertainty of the observer: for them either outcome is allowed.
DelayExpires(st, k) == [st EXCEPT !.delayed = @ \ {k}]
DelayedLocks(st, c) ==
  IF c.t = "kv" THEN (IF c.op = "lock" /\ c.k \in st.delayed THEN {1} ELSE {})
  ELSE IF c.t = "txn" THEN {i \in DOMAIN c.ops : c.ops[i].fam = "kv" /\ c.ops[i].verb = "lock" /\ c.ops[i].k \in st.delayed}
  ELSE {}
EndpointApply(st0, idx, c) ==
  LET d == DelayedLocks(st0, c) IN
  IF d = {} THEN ApplyAt(st0, idx, c)
  ELSE IF c.t = "kv" THEN [st |-> st0, res |-> Bool(FALSE)]
  ELSE [st |-> st0, res |-> [t |-> "txn", ok |-> "no", errs |-> {i - 1 : i \in d}, unk |-> {}, outs |-> <<>>]]

\* A commit can still fail after every operation of the command succeeded: the change events are generated
\* inside the commit, before the memdb commit (state/memdb.go txn.Commit).  The command then reports an error and
\* NOTHING of it may remain (C05: all or nothing, also at this fault point).
CommitFails(st0) == [st |-> st0, res |-> Err]

---------------------------------------------------------------------------
---------------------------------------------------------------------------
(* state properties (C03, C04) ; evaluated on model states and on IMPLEMENTATION states *)

KeysUnique(st) == \A a, b \in st.kv : a.k = b.k => a = b
HolderExists(st) == \A e \in st.kv : e.s # "" => SessHas(st, e.s)
LinksLive(st) == \A m \in st.schk : SessHas(st, m.sess) /\ ChkHas(st, m.node, m.check)
QueriesLive(st) == \A q \in st.pq : q.sess # "" => SessHas(st, q.sess)
SessionNodeLive(st) == \A s \in st.sess : NodeHas(st, s.node)
SessionChecksHealthy(st) == \A m \in st.schk : ChkHas(st, m.node, m.check) =>
                               LET h == ChkGet(st, m.node, m.check) IN h.status # "critical" \/ h.typ = "session"
NoOrphans(st) == /\ \A s \in st.svcs : NodeHas(st, s.node)
                 /\ \A c \in st.chks : NodeHas(st, c.node) /\ (c.svc # "" => SvcHas(st, c.node, c.svc))
                 /\ \A n \in st.coords : NodeHas(st, n)
LockInv(st) == KeysUnique(st) /\ HolderExists(st) /\ LinksLive(st) /\ QueriesLive(st) /\ SessionNodeLive(st)

(* step properties *)
\* C04: a session that ends releases/deletes everything it held, in that same step
\* multi: the step is a transaction of several operations - an earlier operation may have released the key (unlock by
\* the holder) before the session ended, in which case a delete-behaviour session no longer owns it
EndsCascadeM(pre, post, multi) ==
  \A s \in pre.sess : ~SessHas(post, s.id) =>
     /\ \A e \in pre.kv : e.s = s.id =>
          IF s.beh = "delete" THEN \/ ~\E x \in post.kv : x.k = e.k /\ x.ci = e.ci
                                   \/ multi /\ \E x \in post.kv : x.k = e.k /\ x.s = ""
          ELSE \/ \E x \in post.kv : x.k = e.k /\ x.s = ""     \* (lock counter: judged by state equality with ApplyAt)
               \/ ~KvHas(post, e.k)                   \* deleted by another op of the same step
               \/ \E x \in post.kv : x.k = e.k /\ x.ci # e.ci
     /\ ~\E m \in post.schk : m.sess = s.id
     /\ ~\E q \in post.pq : q.sess = s.id
EndsCascade(pre, post) == EndsCascadeM(pre, post, FALSE)
\* C03: create index stable while the key exists; lock counter discipline
CreateIndexStable(pre, post, idx) ==
  \A e \in pre.kv : \A x \in post.kv : x.k = e.k => (x.ci = e.ci \/ x.ci = idx)
ModifyIndexRule(pre, post, idx) ==
  \A x \in post.kv : IF \E e \in pre.kv : e = x THEN TRUE ELSE x.mi = idx
=============================================================================
