-------------------------- MODULE DiscoChainTrace --------------------------
(* Trace validation for C15 (DESIGN.md 2.2).  trace.ndjson holds one SELF-CONTAINED event per     *)
(* command executed against the real code by harness/cmd/h-disco:                                *)
(*   [cmd, pre, post, res]   pre/post = projected config-entry table of the real state.Store      *)
(*   write/delete: res = [class, dump_changed]   class ok | reject | casfail | invalid | no-return *)
(*   compile:      res = [hung, runs, gruns, class, proto, g, dump_changed]                       *)
(*                 g = the graph returned by the REAL discoverychain.Compile (ids, edges, targets) *)
(* Each event is judged on its own: DiscoChain!Apply / DiscoChain!Chain are evaluated on the      *)
(* implementation's pre-state and the structural properties on the implementation's graph.        *)
(* A failed predicate is printed as <<"REJECT", line, {names}>>; the event is still consumed.     *)
EXTENDS DiscoChain, Json

Trace == ndJsonDeserialize("trace.ndjson")
VARIABLE l

Abs(j) == [ents |-> Range(j.ents)]
F(name, ok) == IF ok THEN {} ELSE {name}
AllEq(s) == \A i \in DOMAIN s : s[i] = s[1]

\* chains validateProposedConfigEntryInServiceGraph re-compiles: the written name and the chain
\* entries that name it directly ("link" index) ; everything for proxy-defaults
ChainKinds == {"router", "splitter", "resolver"}
DirectScope(E, E2, kind, name) ==
  IF kind = "proxy" THEN Names(E) \cup Names(E2)
  ELSE {name} \cup {x.name : x \in {y \in E : y.kind \in ChainKinds /\ name \in RefsOf(y)}}
BrokenIn(E, E2, S, ctx) == \E s \in S : ChainOK(E, s, ctx) /\ ~ChainOK(E2, s, ctx)

StoreJudge(e, pre, post) ==
  LET c    == e.cmd
      kind == IF c.t = "write" THEN c.e.kind ELSE c.kind
      name == IF c.t = "write" THEN c.e.name ELSE c.name
      rD   == Apply(pre, c, {DefaultCtx})
      rT   == Apply(pre, c, {TcpCtx})
      impl == e.res.class
      E    == Bodies(pre)
      E2   == Bodies(rD.new)
      direct == BrokenIn(E, E2, DirectScope(E, E2, kind, name), DefaultCtx)
  IN
  IF impl = "no-return" THEN {"Terminates"}          \* the validation inside the store transaction did not return
  ELSE
     F("valid", (impl = "invalid") = (rD.class = "invalid"))
  \cup F("cas", impl = "invalid" \/ rD.class = "invalid" \/ (impl = "casfail") = (rD.class = "casfail"))
  \* StoredSetsAlwaysCompile, judged at the step that breaks it and split by cause
  \cup F("accepted-but-breaks-direct-chain", ~(impl = "ok" /\ rD.class = "reject" /\ direct))
  \cup F("accepted-but-breaks-transitive-chain", ~(impl = "ok" /\ rD.class = "reject" /\ ~direct))
  \cup F("accepted-but-breaks-chain-under-tcp-override", ~(impl = "ok" /\ rD.class \in {"ok", "any"} /\ rT.class = "reject"))
  \* a rejection needs a reason in one of the judged contexts
  \cup F("rejected-but-compiles", ~(impl = "reject" /\ rD.class = "ok" /\ rT.class = "ok"))
  \cup F("state", impl # "ok" \/ post = rD.new)
  \cup F("reject-unchanged", impl = "ok" \/ (post = pre /\ ~e.res.dump_changed))

\* the implementation's graph with its opaque ids replaced by what they denote
AbsT(g, tid) == LET x == CHOOSE x \in Range(g.targets) : x.id = tid IN T(x.svc, x.sub, x.dc)
AbsId(g, id) == LET n == CHOOSE n \in Range(g.nodes) : n.id = id IN
                IF n.type = "resolver" THEN RId(AbsT(g, n.target)) ELSE [k |-> n.type, svc |-> n.svc, sub |-> "", dc |-> ""]
AbsGraph(g) ==
  [start |-> AbsId(g, g.start),
   nodes |-> {[id |-> AbsId(g, n.id), type |-> n.type,
               next |-> [i \in 1..Len(n.next) |-> AbsId(g, n.next[i])],
               target |-> IF n.type = "resolver" THEN AbsT(g, n.target) ELSE NoT,
               failover |-> [i \in 1..Len(n.failover) |-> AbsT(g, n.failover[i])]] : n \in Range(g.nodes)},
   targets |-> {[id |-> T(x.svc, x.sub, x.dc), svc |-> x.svc, sub |-> x.sub, dc |-> x.dc] : x \in Range(g.targets)}]

CompileJudge(e, pre, post) ==
  LET c   == e.cmd
      r   == e.res
      \* the stored entries, or the explicit set of the command (the proposed set of a rejected write)
      E   == IF "set" \in DOMAIN c THEN {Body(x) : x \in Range(c.set)} ELSE Bodies(pre)
      ref == Chain(E, c.svc, [dc |-> c.ctx.dc, op |-> c.ctx.op])
      g   == [start |-> r.g.start, nodes |-> Range(r.g.nodes), targets |-> Range(r.g.targets)]
      ok  == r.class = "ok"
      uq  == UniqueIds(g)
      cl  == Closed(g)
      ac  == Acyclic(g)
      ap  == AllPathsEndInResolverWithTarget(g)
      cmp == ok /\ ref.errs = {} /\ uq /\ cl /\ ac /\ ap            \* both sides have a well-formed graph to compare
      ag  == AbsGraph(r.g)
  IN
  IF r.hung \/ r.class = "no-return" THEN {"Terminates"}   \* specified: an error class or a graph, never no result
  ELSE
     F("Deterministic-graph", AllEq(r.gruns))
  \cup F("Deterministic-output", ~AllEq(r.gruns) \/ AllEq(r.runs))
  \cup F("NoPanic", r.class # "panic")
  \cup F("read-only", post = pre /\ ~r.dump_changed)
  \cup F("ok-iff-spec-ok", r.class = "panic" \/ (ok = (ref.errs = {})))
  \cup F("err-class", ok \/ ref.errs = {} \/ r.class \in ref.errs \cup {"other", "panic"})
  \cup F("UniqueIds", ~ok \/ uq)
  \cup F("Closed", ~ok \/ cl)
  \cup F("Acyclic", ~ok \/ ac)
  \cup F("AllPathsEndInResolverWithTarget", ~ok \/ ap)
  \cup F("targets", ~cmp \/ ag.targets = ref.g.targets)
  \cup F("graph", ~cmp \/ (ag = ref.g /\ r.proto = ref.proto))

Verdict(i) ==
  LET e == Trace[i]
      pre == Abs(e.pre)
      post == Abs(e.post)
  IN IF e.cmd.t = "compile" THEN CompileJudge(e, pre, post) ELSE StoreJudge(e, pre, post)

Init == l = 1
Next == /\ l <= Len(Trace)
        /\ LET v == Verdict(l) IN IF v = {} THEN TRUE ELSE PrintT(<<"REJECT", l, v>>)
        /\ l' = l + 1
Spec == Init /\ [][Next]_l
=============================================================================
