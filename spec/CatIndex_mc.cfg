SPECIFICATION Spec
CONSTANTS
  MaxDepth = 3
  AllowMoved = FALSE
  Small = TRUE
VIEW View
INVARIANTS InvRowsLive InvCopiesCurrent
PROPERTIES PropNoMissedChange PropMonotone
CHECK_DEADLOCK FALSE
