------------------------------- MODULE RBACMC -------------------------------
(* Bounded instance of RBAC: the state is the set I of intentions that apply to   *)
(* the destination "d" (destination "d" or "*").  RBAC_mc.cfg checks the theorem   *)
(* on every set of at most MaxN intentions; RBAC_gen.cfg prints every such set      *)
(* once (state mode) for translation validation against the real rbac.go.           *)
EXTENDS RBAC, Json, SequencesExt

CONSTANTS Profile,  \* "src": many sources, small menu of permission lists ; "perm": one L7 source, all permission lists <= 2 ;
                    \* "perm2": like "perm" with a smaller matcher alphabet, combined with lower-precedence wildcard rules
          WithPeerWild, \* also the wildcard source of the peer
          MaxN

VARIABLE I

D == "d"
PA  == <<47, 97>>          \* "/a"
PAB == <<47, 97, 98>>      \* "/ab"
PB  == <<47, 98>>          \* "/b"

Matcher(pk, pv, ms, hk, hv) == [pk |-> pk, pv |-> pv, methods |-> ms, hk |-> hk, hv |-> hv]
P(act, m) == [act |-> act] @@ m
PathOpts == {<<"none", <<>>>>, <<"exact", PA>>, <<"prefix", PA>>}
MethOpts == IF Profile = "perm2" THEN {{}, {"GET"}} ELSE {{}, {"GET"}, {"GET", "POST"}}
HdrOpts  == IF Profile = "perm2" THEN {<<"none", "">>, <<"present", "">>} ELSE {<<"none", "">>, <<"present", "">>, <<"exact", "v">>}
AllMatchers == {Matcher(p[1], p[2], ms, h[1], h[2]) : p \in PathOpts, ms \in MethOpts, h \in HdrOpts}
               \ {Matcher("none", <<>>, {}, "none", "")}       \* validate(): a permission must not be empty
AllPerms == {P(a, m) : a \in {"allow", "deny"}, m \in AllMatchers}

Menu == {
  << P("allow", Matcher("exact", PA, {}, "none", "")) >>,
  << P("deny", Matcher("prefix", PA, {"GET"}, "none", "")), P("allow", Matcher("none", <<>>, {"GET", "POST"}, "none", "")) >>,
  << P("allow", Matcher("none", <<>>, {}, "exact", "v")), P("deny", Matcher("prefix", PA, {}, "none", "")) >> }

PermLists == IF Profile = "src" THEN Menu
             ELSE {<<p>> : p \in AllPerms} \cup {<<p, q>> : p \in AllPerms, q \in AllPerms}

Srcs == IF Profile = "src"
        THEN {[name |-> "a", peer |-> NOPEER], [name |-> "b", peer |-> NOPEER], [name |-> WILD, peer |-> NOPEER], [name |-> "a", peer |-> "p"]}
             \cup (IF WithPeerWild THEN {[name |-> WILD, peer |-> "p"]} ELSE {})
        ELSE {[name |-> "a", peer |-> NOPEER], [name |-> WILD, peer |-> NOPEER]}

L4 == {[src |-> s.name, peer |-> s.peer, dst |-> d, act |-> a, perms |-> <<>>] : s \in Srcs, d \in {D, WILD}, a \in {"allow", "deny"}}
L7 == {[src |-> s.name, peer |-> s.peer, dst |-> D, act |-> "l7", perms |-> pl] : s \in Srcs, pl \in PermLists}
Universe == IF Profile = "src" THEN L4 \cup L7
            ELSE {i \in L4 : i.src = WILD} \cup {i \in L7 : i.src = "a"}   \* the permission lists sit on the exact source

Init == I = {}
NewKey(i) == \A j \in I : Key(j) # Key(i)
Next == Cardinality(I) < MaxN /\ (\E i \in Universe : NewKey(i) /\ I' = I \cup {i})
Spec == Init /\ [][Next]_I

Callers == IF Profile = "src" THEN [name : {"a", "b", "zz"}, peer : {NOPEER, "p", "other"}]
           ELSE [name : {"a", "zz"}, peer : {NOPEER, "p"}]
Protos  == IF Profile = "src" THEN {"tcp", "http"} ELSE {"http"}   \* permission lists only matter on HTTP listeners
NoReq == [path |-> <<>>, method |-> "", hdr |-> <<>>]
Reqs(proto) == IF proto = "tcp" THEN {NoReq} ELSE [path : {PA, PAB, PB}, method : {"GET", "POST", "PUT"}, hdr : {<<>>, <<"v">>, <<"w">>}]

\* THE THEOREM: the translated policy allows exactly what the precedence semantics allows
Enforces ==
  \A def \in {"allow", "deny"}, proto \in Protos :
    LET R == Translate(I, def, proto) IN
    \A c \in Callers, rq \in Reqs(proto) : Eval(R, c, rq) = (Decision7(I, c, D, def, proto, rq) = "allow")

\* every disagreement of the code-as-it-is model has the inversion shape (used with AsCoded = TRUE)
OnlyInversion ==
  \A def \in {"allow", "deny"}, proto \in Protos :
    LET R == Translate(I, def, proto) IN
    \A c \in Callers, rq \in Reqs(proto) :
      Eval(R, c, rq) # (Decision7(I, c, D, def, proto, rq) = "allow") => InversionShape(I, c, D)

InvKeys == KeysUnique(I)
Abs(i) == [i EXCEPT !.perms = [k \in DOMAIN i.perms |-> [i.perms[k] EXCEPT !.methods = SetToSeq(@)]]]
EmitInv == PrintT(<<"TRACE", ToJson([ixns |-> SetToSeq({Abs(i) : i \in I})])>>)
=============================================================================
