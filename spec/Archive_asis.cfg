SPECIFICATION Spec
CONSTANTS
  MaxFaults = 1
  Tracks = FALSE
  Empties = {TRUE, FALSE}
VIEW View
INVARIANTS InvClassMC
CHECK_DEADLOCK FALSE
