SPECIFICATION Spec
CONSTANTS
  Part = "filter"
  MaxSmall = 5
  MaxMid = 4
  MaxBig = 3
  MaxGroups = 3
  MaxOps = 0
PROPERTIES EmitCaseProp
CHECK_DEADLOCK FALSE
