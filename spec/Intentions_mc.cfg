SPECIFICATION Spec
CONSTANTS
  Names = {"a", "b"}
  Peers = {"", "p"}
  Dsts = {"a", "*"}
  Reps = {"ce-entry", "ce-upsert", "legacy", "legacy-id", "ce-legacyid"}
  MaxN = 3
  MaxOps = 99
  Mode = "edit"
VIEW View
INVARIANTS InvKeys InvNoTie InvFold InvFirstMatch InvPermFold InvDstFirst
CHECK_DEADLOCK FALSE
