SPECIFICATION Spec
CONSTANTS
  MaxDepth = 3
  Profile = "base"
  CUI = TRUE
VIEW ViewGen
PROPERTIES EmitProp
CHECK_DEADLOCK FALSE
