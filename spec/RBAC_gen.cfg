SPECIFICATION Spec
CONSTANTS
  AsCoded = FALSE
  Profile = "src"
  WithPeerWild = FALSE
  MaxN = 2
INVARIANTS EmitInv
CHECK_DEADLOCK FALSE
