------------------------------ MODULE CASTrace ------------------------------
(* validates recorded conditional commands of the REAL FSM against CAS!Matched / the three equivalences *)
EXTENDS CASJudge, Json
Trace == ndJsonDeserialize("trace.ndjson")
VARIABLE l
\* an event is one conditional command: parts = the cells it writes (1, or 2 for composites)
Verdict(i) ==
  LET e == Trace[i]
      parts == {e.parts[j] : j \in DOMAIN e.parts}
      m == \A p \in parts : PartMatched(p)
      perPart == UNION {JudgePart(p, m) : p \in parts}
      applied == {Applied(p) : p \in parts}
      \* a command that carries several INDEPENDENT cells (a batch of tokens, each with its own expectation): every part is
      \* judged by its own match, and nothing ties them together
      indep == "independent" \in DOMAIN e /\ e.independent
  IN IF indep THEN UNION {JudgePart(p, PartMatched(p)) : p \in parts}
     ELSE perPart \cup (IF Cardinality(applied) <= 1 THEN {} ELSE {"composite-not-atomic"})
TInit == l = 1
TNext == /\ l <= Len(Trace)
         /\ LET v == Verdict(l) IN IF v = {} THEN TRUE ELSE PrintT(<<"REJECT", l, v>>)
         /\ l' = l + 1
TSpec == TInit /\ [][TNext]_l
=============================================================================
