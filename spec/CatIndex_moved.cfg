SPECIFICATION Spec
CONSTANTS
  MaxDepth = 3
  AllowMoved = TRUE
  Small = TRUE
VIEW View
PROPERTIES PropNoMissedChange
CHECK_DEADLOCK FALSE
