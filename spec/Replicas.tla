------------------------------ MODULE Replicas ------------------------------
(* C01 / C02: replicas that apply the same committed log (or install a snapshot of a replica   *)
(* that did) hold the same state and returned the same results.                                 *)
(* log      : the committed sequence of commands (appended by a "leader" that proposes commands *)
(*            relative to the most advanced replica)                                            *)
(* ap[r]    : number of entries replica r has applied ; rs[r] its state ; rr[r] its results      *)
(* Apply    : one entry through Store!ApplyAt - the ONLY inputs are (state, command)            *)
(* Install  : a lagging replica restores a snapshot taken by another one: the whole abstract    *)
(*            state (tables, index table, tombstones) is copied; its results for the skipped    *)
(*            entries are unknown                                                                *)
EXTENDS StoreCmds, Json
CONSTANTS Replica, MaxLog
VARIABLES log, ap, rs, rr

vars == <<log, ap, rs, rr>>
Skipped == [t |-> "skipped"]
Lead == CHOOSE r \in Replica : \A q \in Replica : ap[q] <= ap[r]

RInit == log = <<>> /\ ap = [r \in Replica |-> 0] /\ rs = [r \in Replica |-> InitState] /\ rr = [r \in Replica |-> <<>>]
Propose == /\ Len(log) < MaxLog /\ ap[Lead] = Len(log)
           /\ \E c \in Cmds(rs[Lead]) : log' = Append(log, c)
           /\ UNCHANGED <<ap, rs, rr>>
ApplyNext(r) == /\ ap[r] < Len(log)
                /\ LET i == ap[r] + 1
                       res == ApplyAt(rs[r], i, log[i])
                       s1 == [Resolve([rs[r] EXCEPT !.idx = i], res) EXCEPT !.idx = i]
                   IN /\ rs' = [rs EXCEPT ![r] = s1]
                      /\ rr' = [rr EXCEPT ![r] = Append(@, res.res)]
                      /\ ap' = [ap EXCEPT ![r] = i]
                /\ UNCHANGED log
Install(r, from) == /\ ap[from] > ap[r]
                    /\ rs' = [rs EXCEPT ![r] = rs[from]]
                    /\ rr' = [rr EXCEPT ![r] = @ \o [k \in 1..(ap[from] - ap[r]) |-> Skipped]]
                    /\ ap' = [ap EXCEPT ![r] = ap[from]]
                    /\ UNCHANGED log
RNext == Propose \/ \E r \in Replica : ApplyNext(r) \/ \E from \in Replica \ {r} : Install(r, from)
RSpec == RInit /\ [][RNext]_vars

Agree == \A a, b \in Replica :
           /\ ap[a] = ap[b] => rs[a] = rs[b]
           /\ \A i \in 1..Len(rr[a]) : i <= Len(rr[b]) /\ rr[a][i] # Skipped /\ rr[b][i] # Skipped => rr[a][i] = rr[b][i]
=============================================================================
