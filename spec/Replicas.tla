------------------------------ MODULE Replicas ------------------------------
(* C01 / C02: replicas that apply the same committed log (or install a snapshot of a replica   *)
(* that did) hold the same state and returned the same results.                                 *)
(* log      : the committed sequence of commands (appended by a "leader" that proposes commands *)
(*            relative to the most advanced replica)                                            *)
(* ap[r]    : number of entries replica r has applied ; rs[r] its state ; rr[r] its results      *)
(* Apply    : one entry through Store!ApplyAt - the ONLY inputs are (state, command)            *)
(* Take     : a replica takes a snapshot: the whole abstract state (tables, index table,        *)
(*            tombstones) AS OF THAT POINT OF THE LOG is captured (fsm.FSM.Snapshot: a memdb     *)
(*            snapshot); the replica goes on applying entries while the snapshot is still being  *)
(*            written out (Persist runs concurrently with later applies in hashicorp/raft)       *)
(* Install  : a lagging replica restores the captured snapshot - whenever it was persisted, it   *)
(*            is the state at the point it was TAKEN; the replica's results for the skipped      *)
(*            entries are unknown                                                                *)
EXTENDS StoreCmds, Json
CONSTANTS Replica, MaxLog
VARIABLES log, ap, rs, rr, snap

vars == <<log, ap, rs, rr, snap>>
NoSnap == [at |-> 0]
Skipped == [t |-> "skipped"]
Lead == CHOOSE r \in Replica : \A q \in Replica : ap[q] <= ap[r]

RInit == log = <<>> /\ ap = [r \in Replica |-> 0] /\ rs = [r \in Replica |-> InitState] /\ rr = [r \in Replica |-> <<>>] /\ snap = NoSnap
Propose == /\ Len(log) < MaxLog /\ ap[Lead] = Len(log)
           /\ \E c \in Cmds(rs[Lead]) : log' = Append(log, c)
           /\ UNCHANGED <<ap, rs, rr, snap>>
ApplyNext(r) == /\ ap[r] < Len(log)
                /\ LET i == ap[r] + 1
                       res == ApplyAt(rs[r], i, log[i])
                       s1 == [Resolve([rs[r] EXCEPT !.idx = i], res) EXCEPT !.idx = i]
                   IN /\ rs' = [rs EXCEPT ![r] = s1]
                      /\ rr' = [rr EXCEPT ![r] = Append(@, res.res)]
                      /\ ap' = [ap EXCEPT ![r] = i]
                /\ UNCHANGED <<log, snap>>
Take(from) == /\ snap = NoSnap /\ ap[from] > 0
              /\ snap' = [at |-> ap[from], st |-> rs[from]]
              /\ UNCHANGED <<log, ap, rs, rr>>
Install(r) == /\ snap # NoSnap
              /\ IF snap.at > ap[r]
                 THEN /\ rs' = [rs EXCEPT ![r] = snap.st]
                      /\ rr' = [rr EXCEPT ![r] = @ \o [k \in 1..(snap.at - ap[r]) |-> Skipped]]
                      /\ ap' = [ap EXCEPT ![r] = snap.at]
                 ELSE UNCHANGED <<ap, rs, rr>>          \* a snapshot that is not ahead of the replica is discarded
              /\ snap' = NoSnap
              /\ UNCHANGED log
RNext == Propose \/ \E r \in Replica : ApplyNext(r) \/ Take(r) \/ Install(r)
RSpec == RInit /\ [][RNext]_vars

Agree == \A a, b \in Replica :
           /\ ap[a] = ap[b] => rs[a] = rs[b]
           /\ \A i \in 1..Len(rr[a]) : i <= Len(rr[b]) /\ rr[a][i] # Skipped /\ rr[b][i] # Skipped => rr[a][i] = rr[b][i]
\* a captured snapshot is the state of the log prefix it was taken at - whatever its taker applied afterwards
SnapIsCut == snap # NoSnap => \A r \in Replica : ap[r] = snap.at => rs[r] = snap.st
=============================================================================
