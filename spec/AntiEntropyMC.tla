--------------------------- MODULE AntiEntropyMC ---------------------------
(* Bounded instance of AntiEntropy for exhaustive checking (AntiEntropy_mc.cfg) and for behaviour      *)
(* generation (AntiEntropy_gen.cfg: hist + Emit).                                                       *)
(* Universe: services s1 (EnableTagOverride) and s2 (connect-native, so the servers own its             *)
(* consul-virtual address), one check each (c1, c2) and the node check c3, a foreign service sx and a   *)
(* foreign check cx that only drift creates.  All sequences of at most MaxDepth local actions, drifts    *)
(* and syncs; inside a sync EVERY order of the calls of a phase and EVERY outcome of every call.        *)
EXTENDS AntiEntropy, Json

CONSTANTS MaxDepth, Profile, CUI

VARIABLES st, aux, hist
vars == <<st, aux, hist>>

Outcomes == {"ok", "err", "denied"}

D(p, e, t, n) == [port |-> p, eto |-> e, tag |-> t, native |-> n]
SvcDefs(id) == IF id = "s1" THEN {D(1, TRUE, "a", FALSE), D(2, TRUE, "a", FALSE)} ELSE {D(1, FALSE, "", TRUE), D(2, FALSE, "", TRUE)}
ChkOf(id) == IF id = "s1" THEN "c1" ELSE "c2"
SvcOf(c) == IF c = "c1" THEN "s1" ELSE IF c = "c2" THEN "s2" ELSE ""
Svcs == {"s1", "s2"}
Chks == {"c1", "c2", "c3"}
ChkSpec(id) == [id |-> id, status |-> "passing", output |-> ""]

LocalCmds ==
     UNION {{[t |-> "add-svc", id |-> s, def |-> d, tok |-> "", chks |-> cs] :
               d \in SvcDefs(s), cs \in {<<>>, <<ChkSpec(ChkOf(s))>>}} : s \in Svcs}
  \cup UNION {{[t |-> "add-chk", id |-> c, svc |-> SvcOf(c), status |-> "passing", output |-> "", tok |-> tk] :
               tk \in IF c = "c1" /\ Profile = "wide" THEN {"", "t1"} ELSE {""}} : c \in Chks}
  \cup {[t |-> "upd-chk", id |-> c, status |-> x[1], output |-> x[2]] :
          c \in Chks, x \in {<<"critical", "">>, <<"passing", "o">>}}
  \cup {[t |-> "rm-svc", id |-> s] : s \in Svcs}
  \cup {[t |-> "rm-chk", id |-> c] : c \in Chks}
  \cup {[t |-> "fire", id |-> c] : c \in Chks}

DriftCmds ==
     {[t |-> "drift", op |-> "set-svc", id |-> "s1", def |-> d] : d \in {D(1, TRUE, "b", FALSE), D(2, TRUE, "a", FALSE)}}
  \cup {[t |-> "drift", op |-> "set-svc", id |-> "s2", def |-> D(2, FALSE, "", TRUE)]}
  \cup {[t |-> "drift", op |-> "set-svc", id |-> "sx", def |-> D(1, FALSE, "", FALSE)]}
  \cup {[t |-> "drift", op |-> "rm-svc", id |-> s] : s \in Svcs}
  \cup {[t |-> "drift", op |-> "set-chk", id |-> c, svc |-> SvcOf(c), status |-> "critical", output |-> ""] : c \in Chks \cup {"cx"}}
  \cup {[t |-> "drift", op |-> "rm-chk", id |-> c] : c \in Chks}
  \cup {[t |-> "drift", op |-> "node-meta"], [t |-> "drift", op |-> "node-rm"]}

\* profile "core": a sub-alphabet that is explored one step deeper
Core(c) ==
  CASE c.t = "add-svc" -> (c.id = "s1" /\ c.chks # <<>>) \/ (c.id = "s2" /\ c.chks = <<>> /\ c.def.port = 1)
    [] c.t = "add-chk" -> c.id = "c3"
    [] c.t = "upd-chk" -> (c.id = "c1" /\ c.status = "critical") \/ (c.id = "c3" /\ c.status = "passing")
    [] c.t = "rm-svc" -> TRUE
    [] c.t = "rm-chk" -> c.id = "c3"
    [] c.t = "fire" -> c.id = "c3"
    [] c.t = "drift" -> \/ c.op = "node-rm"
                        \/ (c.op = "set-svc" /\ (c.id = "sx" \/ (c.id = "s1" /\ c.def.tag = "b")))
                        \/ (c.op = "rm-svc" /\ c.id = "s1")
                        \/ (c.op = "set-chk" /\ c.id \in {"c1", "cx"})
InProfile(c) == Profile # "core" \/ Core(c)

\* commands that cannot change anything in this state are left out of the exhaustive search
Useful(s, c) ==
  CASE c.t = "fire" -> Has(s.chks, c.id) /\ s.chks[c.id].defer
    [] c.t = "drift" /\ c.op = "rm-svc" -> Has(s.rsvcs, c.id)
    [] c.t = "drift" /\ c.op = "rm-chk" -> Has(s.rchks, c.id)
    [] OTHER -> TRUE

ApplyCmd(s, c) ==
  CASE c.t = "add-svc" -> AddSvc(s, c)
    [] c.t = "add-chk" -> AddChk(s, c)
    [] c.t = "upd-chk" -> [st |-> UpdChk(s, c, CUI), res |-> "ok"]
    [] c.t = "rm-svc"  -> RmSvc(s, c.id)
    [] c.t = "rm-chk"  -> RmChk(s, c.id)
    [] c.t = "fire"    -> Fire(s, c.id)
    [] c.t = "drift"   -> Drift(s, c)

\* entries whose catalog row a drift touches (they may legitimately be marked in sync and differ until the next full sync)
DriftTouches(s, c) ==
  CASE c.op = "set-svc" -> {<<"s", c.id>>}
    [] c.op = "rm-svc"  -> {<<"s", c.id>>} \cup {<<"c", x>> : x \in {y \in DOMAIN s.rchks : s.rchks[y].svc = c.id}}
    [] c.op \in {"set-chk", "rm-chk"} -> {<<"c", c.id>>}
    [] c.op = "node-meta" -> {<<"n", "">>}
    [] c.op = "node-rm" -> {<<"n", "">>} \cup AllEnts(s)

NoLast == [sync |-> FALSE, fresh |-> FALSE, denied |-> {}, attempted |-> {}, readded |-> {}, retry |-> FALSE, fullok |-> FALSE]
Init == st = InitState /\ aux = [ex |-> {}, last |-> NoLast] /\ hist = <<>>

StepCmd ==
  \E c \in LocalCmds \cup DriftCmds :
     /\ InProfile(c) /\ Useful(st, c)
     /\ st' = ApplyCmd(st, c).st
     /\ aux' = [ex |-> IF c.t = "drift" THEN aux.ex \cup DriftTouches(st, c) ELSE aux.ex,
                last |-> [NoLast EXCEPT !.readded = Readded(c)]]
     /\ hist' = Append(hist, c)

RECURSIVE ExAfter(_, _)
ExAfter(ex, calls) ==
  IF calls = <<>> THEN ex
  ELSE LET h == Head(calls) IN
       ExAfter(IF h.got = "denied" THEN ex \cup h.cov ELSE IF h.got = "ok" THEN ex \ h.cov ELSE ex, Tail(calls))

OutOf(calls) == SetToSeq({[m |-> calls[i].call.m, k |-> calls[i].call.k, id |-> calls[i].call.id, o |-> calls[i].inj] :
                           i \in {j \in DOMAIN calls : calls[j].inj # "ok"}})

StepSync ==
  \E full \in BOOLEAN : \E read \in (IF full THEN {"ok", "err1", "err2"} ELSE {"ok"}) :
     IF read # "ok"
     THEN /\ st' = st                                        \* SyncFull returns the read error before anything else
          /\ aux' = [aux EXCEPT !.last = [NoLast EXCEPT !.sync = TRUE]]
          /\ hist' = Append(hist, [t |-> "sync", full |-> full, read |-> read, out |-> <<>>])
     ELSE LET s0 == IF full THEN UpdateSyncState(st, CUI) ELSE st IN
          \E run \in SyncRuns(s0, {}, <<>>, Outcomes) :
             LET dn == UNION {run.calls[i].cov : i \in {j \in DOMAIN run.calls : run.calls[j].got = "denied"}}
                 at == UNION {run.calls[i].cov : i \in DOMAIN run.calls}
                 allok == \A i \in DOMAIN run.calls : run.calls[i].got = "ok"
             IN /\ st' = run.st
                /\ aux' = [ex |-> ExAfter(IF full THEN {} ELSE aux.ex, run.calls),
                           last |-> [sync |-> TRUE, fresh |-> full, denied |-> dn, attempted |-> at, readded |-> {},
                                     retry |-> full /\ ~run.aborted, fullok |-> full /\ allok]]
                /\ hist' = Append(hist, [t |-> "sync", full |-> full, read |-> "ok", out |-> OutOf(run.calls)])

Next == Len(hist) < MaxDepth /\ (StepCmd \/ StepSync)
Spec == Init /\ [][Next]_vars

ViewMC == <<st, aux, Len(hist)>>
ViewGen == <<st, aux>>
Emit == PrintT(<<"TRACE", ToJson(hist')>>)
EmitProp == [][Emit]_vars

(* ---- the property on the model ---- *)
\* state form: whatever is marked in sync is in the catalog, unless a refusal or a drift since the last full sync explains it
InvNoFalseInSync ==
  /\ \A x \in Ents(st) \ aux.ex : Marked(st, x) => Holds(st, x)
  /\ st.nis /\ <<"n", "">> \notin aux.ex => NodeSame(st.rnode)
\* after a full sync in which every call succeeded the catalog equals the local registrations
InvConverged == aux.last.fullok => Converged(st)
\* step forms (the same predicates AntiEntropyTrace evaluates on implementation states)
PropNoFalseInSync == [][NoFalseInSync(st, st', aux'.last.fresh, aux'.last.denied)]_vars
PropDeregNotForgotten == [][DeregNotForgotten(st, st', aux'.last.readded)]_vars
PropDeniedRetried == [][aux'.last.retry => DeniedRetried(st, st', aux'.last.attempted)]_vars
\* sanity of the model itself: entries are well formed
InvShape ==
  /\ \A id \in DOMAIN st.svcs : st.svcs[id].id = id /\ (st.svcs[id].has \/ st.svcs[id].del)
  /\ \A id \in DOMAIN st.chks : st.chks[id].id = id /\ (st.chks[id].has \/ st.chks[id].del)
  /\ \A id \in DOMAIN st.rchks : st.rchks[id].svc = "" \/ Has(st.rsvcs, st.rchks[id].svc)
=============================================================================
