--------------------------- MODULE ReplicasTrace ---------------------------
(* C01 / C02 on recorded executions of REAL replicas.  One event per log entry:                 *)
(*   res  : for every replica the canonical digest of the value fsm.Apply returned              *)
(*   dump : for every replica the digest of the canonical dump of EVERY table row + index row    *)
(*   q    : for every replica the digest of the (index, result) of the read battery (C02)        *)
(* Replicas that skipped the entry (restored from a snapshot taken later) carry "" for res.      *)
EXTENDS Integers, Sequences, FiniteSets, SequencesExt, TLC, Json
Trace == ndJsonDeserialize("trace.ndjson")
VARIABLE l
NonEmpty(s) == {x \in ToSet(s) : x # ""}
F(name, ok) == IF ok THEN {} ELSE {name}
Verdict(i) == LET e == Trace[i] IN
     F("results-agree", Cardinality(NonEmpty(e.res)) <= 1)
  \cup F("state-agree", Cardinality(NonEmpty(e.dump)) <= 1)
  \cup F("queries-agree", Cardinality(NonEmpty(e.q)) <= 1)
TInit == l = 1
TNext == /\ l <= Len(Trace)
         /\ LET v == Verdict(l) IN IF v = {} THEN TRUE ELSE PrintT(<<"REJECT", l, v>>)
         /\ l' = l + 1
TSpec == TInit /\ [][TNext]_l
=============================================================================
