SPECIFICATION Spec
CONSTANTS
  Profile = "kv"
  MaxDepth = 5
VIEW View
PROPERTIES PropKVListIndex
CHECK_DEADLOCK FALSE
